import PyYetiVerif.Props.C02f
import Mathlib.Data.Complex.Basic
import Mathlib.LinearAlgebra.Matrix.NonsingularInverse
/-!
# C02 (continued) — `solvepsd` with the uncertainty factors `rbduf`, `elduf`

`applyUf_rows`: after `sol.a[fs.rb] *= rbduf` … `sol.d[fs.el] *= elduf` every rigid-body row of
`d, v, a` carries the factor `rbduf`, every elastic row `elduf`, every other row is unchanged (the
`!= 1.0` shortcuts included).  `frfRec_with_uf`: the recovered FRF is linear in the row factors.
`solvePsd_with_uf`: a response recovered from rows that all carry the factor `u` (rigid-body rows
only with `u = rbduf`; elastic rows only with `u = elduf`; both when `rbduf = elduf = u`; no `drmf`
term) has its PSD multiplied by `|u|²` — the factor enters squared.
-/
set_option linter.unusedSimpArgs false
set_option linter.unusedSectionVars false
set_option linter.unusedVariables false
namespace PyYetiVerif.C02
open PyYetiVerif.Freq Matrix

section uf
variable {α : Type} [Field α]

/-- the rows of one solution column after the uncertainty factors were applied -/
theorem applyUf_rows (isOne : α → Bool) (h1 : ∀ x, isOne x = true ↔ x = 1) (rbduf elduf : α)
    (rb el : List Nat) (hnd : (rb ++ el).Nodup) (col : List (Dva α)) (r : Nat) :
    (applyUf isOne rbduf elduf rb el col)[r]? =
      (col[r]?).map (scaleDva (if r ∈ rb then rbduf else if r ∈ el then elduf else 1)) := by
  have hnd' := List.nodup_append.1 hnd
  have step : ∀ (u : α) (rows : List Nat) (hr : rows.Nodup) (c : List (Dva α)),
      (if isOne u = true then c else modifyRows (scaleDva u) c rows)[r]? =
        (c[r]?).map (scaleDva (if r ∈ rows then u else 1)) := by
    intro u rows hr c
    have hid : (c[r]?).map (scaleDva 1) = c[r]? := by
      cases c[r]? <;> simp [scaleDva_one]
    by_cases hu : isOne u = true
    · have : u = 1 := (h1 u).1 hu
      subst this
      simp [hu, hid]
    · simp only [hu, Bool.false_eq_true, if_false]
      by_cases hm : r ∈ rows
      · rw [modifyRows_getElem?_of_mem _ _ _ hr _ hm, if_pos hm]
      · rw [modifyRows_getElem?_of_not_mem _ _ _ _ hm, if_neg hm, hid]
  unfold applyUf
  rw [step elduf el hnd'.2.1, step rbduf rb hnd'.1]
  by_cases hrb : r ∈ rb
  · have hel : r ∉ el := fun h => hnd'.2.2 r hrb r h rfl
    cases col[r]? <;> simp [hrb, hel, scaleDva_one]
  · by_cases hel : r ∈ el
    · cases col[r]? <;> simp [hrb, hel, scaleDva_one]
    · cases col[r]? <;> simp [hrb, hel, scaleDva_one]

/-- `frf = drma @ a + drmv @ v + drmd @ d + drmf[:, i]` with row factors `uf` on `d, v, a`:
the factors move onto the recovery rows -/
theorem frfRec_with_uf {n : Nat} (ra rv rd : Fin n → α) (rff : α) (sd sv sa uf : Fin n → α) :
    frfRec ra rv rd rff (fun c => sd c * uf c) (fun c => sv c * uf c) (fun c => sa c * uf c) =
      frfRec (fun c => ra c * uf c) (fun c => rv c * uf c) (fun c => rd c * uf c) rff sd sv sa := by
  unfold frfRec
  congr 2
  · congr 1
    · congr 1; funext c; ring
    · congr 1; funext c; ring
  · congr 1; funext c; ring

/-- **the uncertainty factor enters squared**: if every row the recovery matrices look at carries
the same factor `u` and there is no `drmf` term, the response PSD `Σᵢ PSDᵢ |Hᵢ|²` is `|u|²` times the
response PSD without factors (`N` is any multiplicative modulus-squared, e.g. `Complex.normSq`). -/
theorem solvePsd_with_uf {ρ : Type} [Field ρ] {p n : Nat} (N : α → ρ)
    (hN : ∀ x y, N (x * y) = N x * N y) (psd : Fin p → ρ) (u : α)
    (ra rv rd : Fin n → α) (sd sv sa : Fin p → Fin n → α) (uf : Fin n → α)
    (hsup : ∀ c, uf c ≠ u → ra c = 0 ∧ rv c = 0 ∧ rd c = 0) :
    respPsd psd (fun i => N (frfRec ra rv rd 0 (fun c => sd i c * uf c) (fun c => sv i c * uf c)
        (fun c => sa i c * uf c))) =
      N u * respPsd psd (fun i => N (frfRec ra rv rd 0 (sd i) (sv i) (sa i))) := by
  have key : ∀ i, frfRec ra rv rd 0 (fun c => sd i c * uf c) (fun c => sv i c * uf c)
      (fun c => sa i c * uf c) = u * frfRec ra rv rd 0 (sd i) (sv i) (sa i) := by
    intro i
    have hterm : ∀ (rr : Fin n → α) (s : Fin n → α), (∀ c, uf c ≠ u → rr c = 0) →
        (vsum fun c => rr c * (s c * uf c)) = u * vsum fun c => rr c * s c := by
      intro rr s hz
      rw [vsum_eq_sum, vsum_eq_sum, Finset.mul_sum]
      apply Finset.sum_congr rfl
      intro c _
      by_cases hc : uf c = u
      · rw [hc]; ring
      · rw [hz c hc]; ring
    unfold frfRec
    rw [hterm ra (sa i) (fun c hc => (hsup c hc).1), hterm rv (sv i) (fun c hc => (hsup c hc).2.1),
      hterm rd (sd i) (fun c hc => (hsup c hc).2.2)]
    ring
  simp only [key, hN]
  unfold respPsd
  rw [vsum_eq_sum', vsum_eq_sum', Finset.mul_sum]
  apply Finset.sum_congr rfl
  intro i _
  ring

end uf

/-! ### `pre_eig`: the modal solution transformed back solves the physical equation -/

/-- `_do_pre_eig` / `_init_dva` / `_solution_freq`: with `Mm = φᵀMφ`, `Bm = φᵀBφ`, `Km = φᵀKφ`
(`eigh` makes `Mm = I`, `Km = diag w`; that is the measured `eigh` specification) and `φ` invertible,
a modal solution of `(Km − Ω²Mm + iΩBm) dm = φᵀF` gives the physical solution `d = φ dm` of
`(K − Ω²M + iΩB) d = F`, with `v = φ vm`, `a = φ am` inheriting `v = iΩd`, `a = −Ω²d`. -/
theorem preEig_solves {α : Type} [Field α] {n : Nat} (phi M B K Mm Bm Km : Matrix (Fin n) (Fin n) α)
    (hphi : phi.det ≠ 0) (hM : phiᵀ * M * phi = Mm) (hB : phiᵀ * B * phi = Bm)
    (hK : phiᵀ * K * phi = Km) (i w : α) (dm vm am F : Fin n → α)
    (h : (Km - (w * w) • Mm + (i * w) • Bm) *ᵥ dm = phiᵀ *ᵥ F)
    (hv : vm = (i * w) • dm) (ha : am = (-(w * w)) • dm) :
    (K - (w * w) • M + (i * w) • B) *ᵥ (phi *ᵥ dm) = F ∧
    phi *ᵥ vm = (i * w) • (phi *ᵥ dm) ∧ phi *ᵥ am = (-(w * w)) • (phi *ᵥ dm) := by
  refine ⟨?_, by rw [hv, mulVec_smul], by rw [ha, mulVec_smul]⟩
  have hu : IsUnit phiᵀ := by
    rw [Matrix.isUnit_iff_isUnit_det, det_transpose]
    exact isUnit_iff_ne_zero.mpr hphi
  apply Matrix.mulVec_injective_of_isUnit hu
  rw [← h, ← hM, ← hB, ← hK, mulVec_mulVec, mulVec_mulVec]
  congr 1
  simp only [Matrix.mul_add, Matrix.mul_sub, Matrix.add_mul, Matrix.sub_mul, Matrix.mul_smul,
    Matrix.smul_mul, Matrix.mul_assoc]

/-! ### the hypotheses are inhabited -/

/-- a (non-orthogonal) mode-shape matrix with non-zero determinant -/
example : (!![1, 1; 0, 2] : Matrix (Fin 2) (Fin 2) ℚ).det ≠ 0 := by
  simp [Matrix.det_fin_two]

/-- `Complex.normSq` is multiplicative, and a real factor enters as its square -/
example : (∀ x y : ℂ, Complex.normSq (x * y) = Complex.normSq x * Complex.normSq y) ∧
    ∀ u : ℝ, Complex.normSq (u : ℂ) = u * u :=
  ⟨fun x y => Complex.normSq_mul x y, fun u => Complex.normSq_ofReal u⟩

/-- a recovery row that looks at the rigid-body row 0 only, factors `(rbduf, elduf, 1) = (3, 5, 1)` -/
example : ∀ c : Fin 3, (![3, 5, 1] : Fin 3 → ℂ) c ≠ 3 →
    (![2, 0, 0] : Fin 3 → ℂ) c = 0 ∧ (![0, 0, 0] : Fin 3 → ℂ) c = 0 ∧ (![7, 0, 0] : Fin 3 → ℂ) c = 0 := by
  intro c hc
  fin_cases c <;> simp at hc ⊢

/-- `applyUf` computes: rb row 0 scaled by 3, el row 2 scaled by 5, rf row 1 unchanged; a factor of
exactly 1 leaves the column untouched -/
example : (applyUf (fun x : Int => x == 1) 3 5 [0] [2] [⟨1, 1, 1⟩, ⟨1, 1, 1⟩, ⟨1, 1, 1⟩]).map
      (fun x => (x.d, x.v, x.a)) = [(3, 3, 3), (1, 1, 1), (5, 5, 5)] ∧
    (applyUf (fun x : Int => x == 1) 1 1 [0] [2] [⟨1, 2, 3⟩, ⟨4, 5, 6⟩, ⟨7, 8, 9⟩]).map
      (fun x => (x.d, x.v, x.a)) = [(1, 2, 3), (4, 5, 6), (7, 8, 9)] := by
  constructor <;> decide

end PyYetiVerif.C02
