import PyYetiVerif.Generated.PadeTables
import PyYetiVerif.Lemmas.ExpSeriesDriver
import PyYetiVerif.Lemmas.ExpSeriesAug
import Mathlib.Analysis.SpecialFunctions.Log.Base
/-!
# C07 — the driver logic of `expmint` / `_expm_SS` / `_geti2` / `expmint_pow` / `getEPQ`

Property theorems about `Model/ExpSeriesDriver.lean`, instantiated with the constants the
translator regenerates from `pyyeti/expmint.py` on every run (`Generated/PadeTables.lean`).
-/
namespace PyYetiVerif.C07
open PyYetiVerif.ExpSeries PyYetiVerif.Generated.PadeTables

/-- the thresholds of the `if` chain as the interpreter sees them (doubles of the literals) -/
def thetasOf (l : List Rat) (t13 : Rat) : Thetas :=
  ⟨l.getD 0 0, l.getD 1 0, l.getD 2 0, l.getD 3 0, t13⟩

def expmintThetas : Thetas := thetasOf expmint_thresholds_double expmint_theta13
def ssThetas : Thetas := thetasOf ss_thresholds_double ss_theta13

/-! ## the source text of the driver logic is what the model transcribes -/

/-- everything of the driver logic that is not a table, as regenerated from the source: which norm
quantities enter `eta_1 … eta_5`, the scaling rule `max(int(ceil(log2(eta_5/theta_13))), 0)` with the
nilpotent guard, the `_ell` increment, the squaring loops `for _ in range(s)`, the acceptance test
`np.allclose(I_test, I)` with numpy's default tolerances, the two power-series loops (tolerance
`1e-15`, at most 200 passes, `RuntimeError` when `j >= maxloops`), `_procBhalf` slicing *columns*,
and the norm `getEPQ` switches on (`I.dot(E)` and `E.dot(I)` are the same product: functions of one matrix commute).
`expmint` and `_expm_SS` use the same rule.  The doubles the
interpreter compares against are within one part in `2^53` of the decimal thresholds. -/
theorem driver_logic_pinned :
    expmint_eta_defs =
      [("eta_1", "max", ["d4_loose", "d6_loose"]), ("eta_2", "max", ["d4_tight", "d6_loose"]),
       ("eta_3", "max", ["d6_tight", "d8_loose"]), ("eta_4", "max", ["d8_loose", "d10_loose"]),
       ("eta_5", "min", ["eta_3", "eta_4"])] ∧
    ss_eta_defs = expmint_eta_defs ∧
    expmint_scaling_round = "ceil" ∧ expmint_scaling_log = "log2" ∧ expmint_scaling_floor0 = true ∧
    expmint_scaling_zero_guard = true ∧ expmint_scaling_ell_added = true ∧
    ss_scaling_round = "ceil" ∧ ss_scaling_log = "log2" ∧ ss_scaling_floor0 = true ∧
    ss_scaling_zero_guard = true ∧ ss_scaling_ell_added = true ∧
    expmint_loop_range = "s" ∧
    (expmint_loop_body = ["I += I.dot(E)", "E = E.dot(E)"] ∨ expmint_loop_body = ["I += E.dot(I)", "E = E.dot(E)"]) ∧
    ss_loop_range = "s" ∧ ss_loop_body = ["X = X.dot(X)"] ∧
    geti2_allclose_rtol = 1 / 100000 ∧ geti2_allclose_atol = 1 / 100000000 ∧
    geti2_series_tol = 1 / 10 ^ 15 ∧ geti2_series_maxloops = 200 ∧ geti2_series_j0 = 1 ∧
    geti2_series_cond = "abs(term).max() > tol * abs(E).max() and j < maxloops" ∧
    geti2_series_body = ["j += 1.0", "I2 += term / (j + 1)", "term = term.dot(H.A) / j"] ∧
    geti2_series_raise = "j >= maxloops" ∧
    pow_tol = 1 / 10 ^ 15 ∧ pow_maxloops = 200 ∧ pow_j0 = 1 ∧
    pow_cond = "abs(term).max() > tol * abs(E).max() and j < maxloops" ∧
    pow_body = ["j += 1.0", "E += term", "Int1 += term / j", "Int2 += term / (j + 1.0)",
                "term = term.dot(Ah) / j"] ∧
    pow_raise = "j >= maxloops" ∧
    procbhalf_assignments =
      ["P = P.dot(B)", "Q = Q.dot(B)", "n = P.shape[1]", "n = n // 2", "P = P[:, :n]", "Q = Q[:, :n]"] ∧
    epq_norm_expr = "h * np.linalg.norm(A, 1)" ∧
    ss_thresholds_double = expmint_thresholds_double ∧
    (List.zip expmint_thresholds_double (expmint_thresholds.map (·.2))).all
        (fun (d, t) => (d - t) * (d - t) * 2 ^ 106 ≤ t * t) = true ∧
    expmint_thresholds_double.length = 4 := by
  decide +kernel

/-! ## scaling exponent -/

/-- `scalingExp θ x` is the least `s` with `x ≤ θ·2^s` (for every `x` a double can hold) -/
theorem scaling_exponent_minimal (θ x : ℚ) (hx : x ≤ θ * 2 ^ scalingFuel) :
    x ≤ θ * 2 ^ scalingExp θ x ∧ ∀ s' < scalingExp θ x, θ * 2 ^ s' < x := by
  unfold scalingExp
  apply scalingExpAux_spec θ x scalingFuel 0
  · simpa using hx
  · intro s' hs'; omega

/-- … which is the code's `max(int(np.ceil(np.log2(x / θ))), 0)` (real logarithm, `x > 0`) -/
theorem scaling_exponent_is_ceil_log2 (θ x : ℚ) (hθ : 0 < θ) (hx0 : 0 < x)
    (hx : x ≤ θ * 2 ^ scalingFuel) :
    (scalingExp θ x : ℤ) = max ⌈Real.logb 2 ((x : ℝ) / (θ : ℝ))⌉ 0 := by
  obtain ⟨h1, h2⟩ := scaling_exponent_minimal θ x hx
  have hθr : (0 : ℝ) < (θ : ℝ) := by exact_mod_cast hθ
  have hxr : (0 : ℝ) < (x : ℝ) := by exact_mod_cast hx0
  have key : ∀ s : ℕ, (x ≤ θ * 2 ^ s) ↔ Real.logb 2 ((x : ℝ) / θ) ≤ (s : ℝ) := by
    intro s
    have hpos : (0 : ℝ) < (x : ℝ) / θ := div_pos hxr hθr
    rw [Real.logb_le_iff_le_rpow (by norm_num) hpos, Real.rpow_natCast, div_le_iff₀ hθr]
    constructor
    · intro h
      have : ((x : ℚ) : ℝ) ≤ ((θ * 2 ^ s : ℚ) : ℝ) := by exact_mod_cast h
      push_cast at this; linarith
    · intro h
      have : ((x : ℚ) : ℝ) ≤ ((θ * 2 ^ s : ℚ) : ℝ) := by push_cast; linarith
      exact_mod_cast this
  apply le_antisymm
  · -- s ≤ max ⌈L⌉ 0 : otherwise s' = max ⌈L⌉ 0 (as a natural) < s would already satisfy the test
    by_contra hlt
    rw [not_le] at hlt
    set c : ℤ := max ⌈Real.logb 2 ((x : ℝ) / (θ : ℝ))⌉ 0 with hc
    have hc0 : 0 ≤ c := le_max_right _ _
    obtain ⟨n, hn⟩ := Int.eq_ofNat_of_zero_le hc0
    have hns : n < scalingExp θ x := by
      have : (n : ℤ) < (scalingExp θ x : ℤ) := by rw [← hn]; exact hlt
      exact_mod_cast this
    have hL : Real.logb 2 ((x : ℝ) / θ) ≤ (n : ℝ) := by
      have h3 : ⌈Real.logb 2 ((x : ℝ) / (θ : ℝ))⌉ ≤ (n : ℤ) := by rw [← hn]; exact le_max_left _ _
      have := Int.ceil_le.mp h3
      exact_mod_cast this
    have := (key n).mpr hL
    exact absurd this (not_le.mpr (h2 n hns))
  · apply max_le
    · apply Int.ceil_le.mpr
      have := (key (scalingExp θ x)).mp h1
      exact_mod_cast this
    · exact Int.natCast_nonneg _

/-! ## Padé order, scaling, squaring count -/

/-- the decision of `expmint` (thresholds regenerated from the source, as doubles), stated outright:
order 3 iff `max(d4, d6) < θ₃` and `_ell(A,3) = 0`; otherwise 5 iff …; otherwise order 13 with
`s0 = 0` for a nilpotent matrix and else the least `s0` with `eta_5 ≤ θ₁₃·2^s0`, and
`s = s0 + _ell(2**-s0 A, 13)` squarings.  Orders below 13 never scale. -/
theorem expmint_branch_decision (e : Etas) (l3 l5 l7 l9 : ℕ) (l13 : ℕ → ℕ) :
    let th := expmintThetas
    let d := padeDecision th e l3 l5 l7 l9 l13
    let c3 := max e.d4l e.d6l < th.t3 ∧ l3 = 0
    let c5 := max e.d4t e.d6l < th.t5 ∧ l5 = 0
    let c7 := max e.d6t e.d8l < th.t7 ∧ l7 = 0
    let c9 := max e.d6t e.d8l < th.t9 ∧ l9 = 0
    (d.m = 3 ↔ c3) ∧ (d.m = 5 ↔ ¬c3 ∧ c5) ∧ (d.m = 7 ↔ ¬c3 ∧ ¬c5 ∧ c7) ∧
    (d.m = 9 ↔ ¬c3 ∧ ¬c5 ∧ ¬c7 ∧ c9) ∧ (d.m = 13 ↔ ¬c3 ∧ ¬c5 ∧ ¬c7 ∧ ¬c9) ∧
    (d.m ≠ 13 → d.s = 0 ∧ d.s0 = 0) ∧
    (d.m = 13 → d.s0 = (if eta5 e = 0 then 0 else scalingExp th.t13 (eta5 e)) ∧ d.s = d.s0 + l13 d.s0) ∧
    th.t13 = 17 / 4 := by
  intro th d c3 c5 c7 c9
  have ht : th.t13 = 17 / 4 := by decide +kernel
  have hd : d = if c3 then ⟨3, 0, 0⟩ else if c5 then ⟨5, 0, 0⟩ else if c7 then ⟨7, 0, 0⟩
      else if c9 then ⟨9, 0, 0⟩
      else ⟨13, (if eta5 e = 0 then 0 else scalingExp th.t13 (eta5 e)),
        (if eta5 e = 0 then 0 else scalingExp th.t13 (eta5 e))
          + l13 (if eta5 e = 0 then 0 else scalingExp th.t13 (eta5 e))⟩ := rfl
  clear_value d
  by_cases h3 : c3
  · rw [if_pos h3] at hd; subst hd; simp [h3, ht]
  by_cases h5 : c5
  · rw [if_neg h3, if_pos h5] at hd; subst hd; simp [h3, h5, ht]
  by_cases h7 : c7
  · rw [if_neg h3, if_neg h5, if_pos h7] at hd; subst hd; simp [h3, h5, h7, ht]
  by_cases h9 : c9
  · rw [if_neg h3, if_neg h5, if_neg h7, if_pos h9] at hd; subst hd; simp [h3, h5, h7, h9, ht]
  · rw [if_neg h3, if_neg h5, if_neg h7, if_neg h9] at hd; subst hd; simp [h3, h5, h7, h9, ht]

/-- `_expm_SS` (the `getEPQ2` route) takes the same decision with its own (identical) constants -/
theorem ss_branch_decision_same (e : Etas) (l3 l5 l7 l9 : ℕ) (l13 : ℕ → ℕ) :
    padeDecision ssThetas e l3 l5 l7 l9 l13 = padeDecision expmintThetas e l3 l5 l7 l9 l13 := by
  have : ssThetas = expmintThetas := by decide +kernel
  rw [this]

/-! ## the squaring loop -/

/-- after `j` passes of `I += I.dot(E); E = E.dot(E)` started from the exact pair of the base step
`t₀ = h·2^-s` (`E = e(x)`, `I = t₀·φ1(x)`, `x = A t₀`; in units of `t₀`) the pair is the exact one of
`2^j t₀`: `e(2^j x)`, `2^j·φ1(2^j x)`; with `j = s` that is the step `h`.  The loop carrying the second
integral as well (`squareLoop3`, the repair candidate for F12 / F37) stays exact too:
`4^j·φ2(2^j x)`. -/
theorem squaring_loop_invariant (j : ℕ) :
    squareLoop j (eS, phi1S) = (eAt j, i1At j) ∧
    squareLoop3 j (eS, phi1S, phi2S, (1 : PowerSeries ℚ))
      = (eAt j, i1At j, i2At j, PowerSeries.C ((2 : ℚ) ^ j)) := by
  have e0 : eAt 0 = eS := by simp [eAt]
  have i0 : i1At 0 = phi1S := by simp [i1At]
  have j0 : i2At 0 = phi2S := by simp [i2At]
  constructor
  · induction j with
    | zero => simp [squareLoop, iter, e0, i0]
    | succ j ih =>
      unfold squareLoop at ih ⊢
      rw [iter_succ', ih]
      simp only [squareStep]
      rw [← eAt_succ, ← i1At_succ]
  · induction j with
    | zero => simp [squareLoop3, iter, e0, i0, j0]
    | succ j ih =>
      unfold squareLoop3 at ih ⊢
      rw [iter_succ', ih]
      simp only [squareStep3]
      rw [← eAt_succ, ← i1At_succ, ← i2At_succ, pow_succ, map_mul]
      congr 3
      have h2 : (PowerSeries.C (2 : ℚ) : PowerSeries ℚ) = 2 := map_ofNat PowerSeries.C 2
      rw [h2]; ring

/-- the number of squarings `expmint` performs is the `s` handed to `pade13_scaled_i`: the loop
brings the base step `h·2^-s` back to `h` -/
theorem squaring_count (e : Etas) (X : QMat) :
    let d := expmintDecision expmintThetas e X
    squareLoop d.s (eS, phi1S) = (eAt d.s, i1At d.s) :=
  (squaring_loop_invariant _).1

/-! ## `_geti2` -/

/-- which formula `_geti2` uses: the table of order 3/5/7/9 for those Padé orders; for order 13 the
direct solution iff the LU factorisation raised no warning *and* `np.allclose(I_test, I)` holds
(`|I_test − I| ≤ 1e-8 + 1e-5·|I|` elementwise, the regenerated tolerances); otherwise the power series
with its `RuntimeWarning`, which ends in `RuntimeError` iff the loop counter reached `maxloops = 200` -/
theorem geti2_branch_decision (pade : ℕ) (luOK accept : Bool) (j : ℕ) :
    let b := geti2Branch pade luOK accept j geti2_series_maxloops
    (pade ≤ 3 → b = .pade 3) ∧ (3 < pade → pade ≤ 5 → b = .pade 5) ∧
    (5 < pade → pade ≤ 7 → b = .pade 7) ∧ (7 < pade → pade ≤ 9 → b = .pade 9) ∧
    (9 < pade → (b = .direct ↔ luOK = true ∧ accept = true)) ∧
    (9 < pade → (b.warned = true ↔ ¬(luOK = true ∧ accept = true))) ∧
    (9 < pade → (b = .maxloops ↔ ¬(luOK = true ∧ accept = true) ∧ 200 ≤ j)) ∧
    (pade ≤ 9 → b.warned = false) := by
  have hm : geti2_series_maxloops = 200 := by decide +kernel
  rw [hm]
  intro b
  have hb : b = geti2Branch pade luOK accept j 200 := rfl
  unfold geti2Branch at hb
  refine ⟨?_, ?_, ?_, ?_, ?_, ?_, ?_, ?_⟩
  · intro h; rw [hb, if_pos h]
  · intro h1 h2; rw [hb, if_neg (by omega), if_pos h2]
  · intro h1 h2; rw [hb, if_neg (by omega), if_neg (by omega), if_pos h2]
  · intro h1 h2; rw [hb, if_neg (by omega), if_neg (by omega), if_neg (by omega), if_pos h2]
  · intro h
    rw [hb, if_neg (by omega), if_neg (by omega), if_neg (by omega), if_neg (by omega)]
    cases luOK <;> cases accept <;> by_cases hj : j ≥ 200 <;> simp [hj]
  · intro h
    rw [hb, if_neg (by omega), if_neg (by omega), if_neg (by omega), if_neg (by omega)]
    cases luOK <;> cases accept <;> by_cases hj : j ≥ 200 <;> simp [hj, I2Branch.warned]
  · intro h
    rw [hb, if_neg (by omega), if_neg (by omega), if_neg (by omega), if_neg (by omega)]
    cases luOK <;> cases accept <;> by_cases hj : j ≥ 200 <;> simp [hj]
  · intro h
    rw [hb]
    by_cases h3 : pade ≤ 3
    · rw [if_pos h3]; rfl
    by_cases h5 : pade ≤ 5
    · rw [if_neg h3, if_pos h5]; rfl
    by_cases h7 : pade ≤ 7
    · rw [if_neg h3, if_neg h5, if_pos h7]; rfl
    · rw [if_neg h3, if_neg h5, if_neg h7, if_pos h]; rfl

/-- the acceptance test is the regenerated `np.allclose`: elementwise `|a − b| ≤ atol + rtol·|b|` -/
theorem geti2_accept_spec (a b : List ℚ) (hl : a.length = b.length) :
    allclose geti2_allclose_rtol geti2_allclose_atol a b = true ↔
      ∀ p ∈ a.zip b, ratAbs (p.1 - p.2) ≤ 1 / 100000000 + 1 / 100000 * ratAbs p.2 := by
  have h1 : geti2_allclose_rtol = 1 / 100000 := by decide +kernel
  have h2 : geti2_allclose_atol = 1 / 100000000 := by decide +kernel
  rw [h1, h2]
  unfold allclose
  simp [hl, List.all_eq_true]

/-! ## the truncation rule of the power series (`expmint_pow`, `getEPQ_pow`) -/

/-- `expmint_pow` leaves its loop exactly when the last term is below `tol·max|E|` of the running sum
or `j` reached `maxloops` (then `RuntimeError`): the final state fails the loop condition, with the
regenerated constants `tol = 1e-15`, `maxloops = 200`; the sums hold `j` terms (never fewer than one) -/
theorem pow_truncation_rule (X : QMat) :
    let st := powRun X pow_tol pow_maxloops pow_maxloops ⟨1, QMat.ident X.rows, X⟩
    powLoops X pow_tol pow_maxloops = st.j ∧ 1 ≤ st.j ∧
    (st.term.maxAbs ≤ 1 / 10 ^ 15 * st.E.maxAbs ∨ 200 ≤ st.j) := by
  have h1 : pow_tol = 1 / 10 ^ 15 := by decide +kernel
  have h2 : pow_maxloops = 200 := by decide +kernel
  rw [h1, h2]
  intro st
  have hst : st = powRun X (1 / 10 ^ 15) 200 200 ⟨1, QMat.ident X.rows, X⟩ := rfl
  clear_value st
  subst hst
  obtain ⟨hs, hj⟩ := powRun_stops X (1 / 10 ^ 15) 200 200 ⟨1, QMat.ident X.rows, X⟩ (by simp)
  refine ⟨rfl, hj, ?_⟩
  unfold powCont at hs
  rw [Bool.and_eq_false_iff] at hs
  rcases hs with h | h
  · left; exact not_lt.mp (of_decide_eq_false h)
  · right
    have := of_decide_eq_false h
    omega

/-! ## `getEPQ` -/

/-- `getEPQ` calls `getEPQ1` iff `h·‖A‖₁ ≤ θ₉` (the regenerated switch, which is the order-9 threshold
of the Padé chain), else `getEPQ2`; with an input matrix `B` the `half` flag is ignored on both routes -/
theorem epq_dispatch_spec (norm1 : ℚ) (P : QMat) (Q : Option QMat) (Bm : QMat) (half : Bool) (n : ℕ) :
    (epqRoute epq_switch norm1 = 1 ↔ norm1 ≤ 2097847961257068 / 1000000000000000) ∧
    (epqRoute epq_switch norm1 = 2 ↔ ¬ norm1 ≤ 2097847961257068 / 1000000000000000) ∧
    (expmint_thresholds.map (·.2)).getD 3 0 = epq_switch ∧
    procBhalf P Q (some Bm) half = procBhalf P Q (some Bm) false ∧
    epq2B n (some Bm) half = some Bm := by
  have hs : epq_switch = 2097847961257068 / 1000000000000000 := by decide +kernel
  rw [hs]
  refine ⟨?_, ?_, by decide +kernel, rfl, rfl⟩
  · unfold epqRoute; split <;> simp_all
  · unfold epqRoute; split <;> simp_all

section half
open Matrix
variable {m S : Type*} [Fintype m] [DecidableEq m] [CommRing S]

/-- `half=True` in terms of the full result, on both routes: `getEPQ2` builds `B = [[1], [0]]`
(`eye(n/2)` in the first rows) and every block of the augmented exponential is linear in `B`
(`aug_exp_blocks`): `Σ c_{k+1}·(X^k·B)` is the first half of the **columns** of the full
`Σ c_{k+1}·X^k` — which is what `_procBhalf` slices on the `getEPQ1` route (`half_option`). -/
theorem half_option_spec (X : Matrix (m ⊕ m) (m ⊕ m) S) (c : ℕ → S) (N : ℕ) :
    ∑ k ∈ Finset.range N, c k • (X ^ k * fromRows (1 : Matrix m m S) 0)
      = (∑ k ∈ Finset.range N, c k • X ^ k).toCols₁ := by
  have h : ∀ P : Matrix (m ⊕ m) (m ⊕ m) S, P.toCols₁ = P * fromRows (1 : Matrix m m S) 0 := by
    intro P
    conv_rhs => rw [← fromCols_toCols P]
    rw [fromCols_mul_fromRows]
    simp
  rw [h, Matrix.sum_mul]
  apply Finset.sum_congr rfl
  intro k _
  rw [Matrix.smul_mul]

end half

/-! ## scipy's `_ell` constants are the leading error coefficients of the regenerated tables -/

/-- `c_i` of scipy's `_ell` (`ellConst m`) is `1/|coefficient of x^(2m+1)|` of
`e(x)·q_m(x) − p_m(x)` normalised by `q_m(0)`, for the tables regenerated from the source: the first
neglected term of `q_m(x)·e(x) − p_m(x)`, relative to `q_m(0)`, is `−x^(2m+1)/c_m` (`m` odd) -/
theorem ell_constants_are_pade_error :
    expDefect int3_U int3_V 7 * ellConst 3 = -polyCoef int3_V 0 ∧
    expDefect int5_U int5_V 11 * ellConst 5 = -polyCoef int5_V 0 ∧
    expDefect int7_U int7_V 15 * ellConst 7 = -polyCoef int7_V 0 ∧
    expDefect int9_U int9_V 19 * ellConst 9 = -polyCoef int9_V 0 ∧
    expDefect int13_U int13_V 27 * ellConst 13 = -polyCoef int13_V 0 := by
  decide +kernel

/-! ## non-vacuity -/

/-- the decision on concrete norms: a matrix with all `d_k = 10` and `_ell = 0` takes order 13 with
`s0 = 2` (`10 ≤ 4.25·4`, `10 > 4.25·2`); one with `d_k = 1/100` takes order 3 -/
example :
    padeDecision expmintThetas ⟨10, 10, 10, 10, 10, 10⟩ 0 0 0 0 (fun _ => 0) = ⟨13, 2, 2⟩ ∧
    padeDecision expmintThetas ⟨1/100, 1/100, 1/100, 1/100, 1/100, 1/100⟩ 0 0 0 0 (fun _ => 0) = ⟨3, 0, 0⟩ ∧
    padeDecision expmintThetas ⟨2, 2, 2, 2, 2, 2⟩ 0 0 0 1 (fun _ => 1) = ⟨13, 0, 1⟩ := by
  decide +kernel

/-- `scaling_exponent_minimal` at `θ = 17/4`, `x = 10`: hypotheses hold, result 2 -/
example : (0 : ℚ) < 17 / 4 ∧ (10 : ℚ) ≤ 17 / 4 * 2 ^ scalingFuel ∧ scalingExp (17 / 4) 10 = 2 := by
  decide +kernel

/-- `_ell` and the series loops on a concrete matrix `[[0, 1], [0, -1]]`·8 -/
example :
    let X : QMat := ⟨#[#[0, 8], #[0, -8]], 1⟩
    ell X 13 = 1 ∧ epqRoute epq_switch 16 = 2 ∧ epqRoute epq_switch 2 = 1 ∧
    geti2Branch 13 true false 57 200 = .series 57 := by
  decide +kernel

end PyYetiVerif.C07
