import PyYetiVerif.Lemmas.Op4Variants
import PyYetiVerif.Lemmas.Op4Skip
import PyYetiVerif.Lemmas.Op2ReadFile
import PyYetiVerif.Lemmas.Op2ReadGen
/-!
# C11 — readers decode every OUTPUT4/OUTPUT2 variant; listings match reads

Property theorems only.  The encoders of `Model/Op4Variants.lean` and `Model/Op2.lean` are written
from the record formats (they share no code with pyYeti); the files they produce are read by
pyYeti's real readers in the correspondence check (harness/props/c11.py), which is what ties the
format model to `op4.py` / `op2.py`.

What is proved here is the part of the statement that quantifies over *physical encodings of the
same logical content*: the column decoders of the OUTPUT4 reader (`while nwords > 0` of
`_rd_bigmat_binary` / `_rd_nonbigmat_binary`), generalised over the number of file words per real
(`RealCodec`: 1 for single precision or 64-bit keys, 2 for double precision with 32-bit keys, either
byte order), return exactly the strings that were encoded, for **every** list of strings — so for
every way of cutting a column into strings (adjacent strings, strings of length one, stored zeros,
empty strings) — and putting these strings into a zero column rebuilds the column; hence two
partitions of the same column decode equally (`partition_irrelevant`).

`skip_positions` and `dir_matches_load` are proved for the variant that `Model/Op4.lean` models in
full (32-bit keys, double precision, either byte order, the three layouts): the skipper
`_skipop4_binary` leaves the stream exactly where the reader `_loadop4_binary` leaves it, and `dir`
lists exactly the headers of what `load` returns.

OUTPUT2 (second half of this file): `Model/Op2Read.lean` is a transcription of pyYeti's op2 readers
(`_op2open`, `_getkey`, `rdop2header`, `rdop2nt`, `rdop2matrix`, `skipop2matrix`, `rdop2record`,
`skipop2record`, `rdop2tabheaders`, `directory`, `rdop2mats`) as total functions on the bytes still ahead
of the file position; the `op2_*` theorems say that these readers invert the independent encoder of
`Model/Op2.lean` for both key widths, both byte orders, single/double, real/complex, every partition of the
columns into strings and every split of table records into pieces; that the skippers stop where the
readers stop; that `directory` lists the byte ranges `positions`; that reading from a listed start
returns the block; that `rdop2mats` keeps the last block of a repeated name.  The reader model is tied to
op2.py by exact correspondence on generated files, on the sample files shipped in pyyeti/tests (written
by Nastran) and on truncated / mis-announced files (harness/props/c11.py, driver command `rd2`).

Continued in Props/C11b.lean (the binary OUTPUT4 READER for every variant: file round trip, skip positions,
dir = load, named subset = filter, cut-off), Props/C11c.lean (ASCII OUTPUT4: the same three on every text the
reader accepts), Props/C11d.lean (`rdop2record(form, N)`, `rdop2tabheaders` with short pieces) and Props/C11e.lean
(`rdop2mats(names, which)`).  What is still not proved: PARTIAL in harness/props/c11.py.
-/
namespace PyYetiVerif.C11
open PyYetiVerif.Op4 PyYetiVerif.Op4V

/-- the two physical real encodings: one word, or the two words of `Model/Op4.dWords` -/
theorem real_codecs (e : Endian) :
    codec1.w = 1 ∧ (codec2 e).w = 2 ∧ (∀ x, (codec2 e).split x = dWords e x) ∧
      (∀ x, codec1.join (codec1.split x) = x) ∧ (∀ x, (codec2 e).join ((codec2 e).split x) = x) :=
  ⟨rfl, rfl, fun _ => rfl, codec1.join_split, (codec2 e).join_split⟩

/-- bigmat: every list of strings is read back as written, the announced word count is consumed
to exactly zero and the words after the record are untouched -/
theorem op4_variant_roundtrip_bigmat (R : RealCodec) (ss : List VStr) (rest : List Nat) :
    rdBigV R (nwBig R ss) (nwBig R ss) (ss.flatMap (bigWords R) ++ rest) = some (ss, rest) := by
  apply rdBigV_enc
  induction ss with
  | nil => simp
  | cons s t ih => rw [nwBig_cons]; simp only [List.length_cons]; omega

/-- nonbigmat: the same, for rows below 65536 (the packed header keeps the row in 16 bits) -/
theorem op4_variant_roundtrip_nonbigmat (R : RealCodec) (ss : List VStr) (rest : List Nat)
    (hrow : ∀ s ∈ ss, s.1 + 1 < 65536) :
    rdNonbigV R (nwNonbig R ss) (nwNonbig R ss) (ss.flatMap (nonbigWords R) ++ rest) = some (ss, rest) := by
  apply rdNonbigV_enc R ss rest hrow
  induction ss with
  | nil => simp
  | cons s t ih =>
    rw [nwNonbig_cons]; simp only [List.length_cons]
    have := ih fun x hx => hrow x (List.mem_cons_of_mem _ hx)
    omega

/-- putting the strings of any partition of a column into a zero column rebuilds the column -/
theorem put_reals_spec (col : List Nat) (ss : List VStr) (h : IsPartition col ss) :
    putReals (List.replicate col.length 0) ss = some col :=
  putReals_partition col ss h

/-- two partitions of the same column decode equally (both layouts, any words per real) -/
theorem partition_irrelevant (R : RealCodec) (col : List Nat) (ss₁ ss₂ : List VStr) (rest₁ rest₂ : List Nat)
    (h₁ : IsPartition col ss₁) (h₂ : IsPartition col ss₂) :
    ((rdBigV R (nwBig R ss₁) (nwBig R ss₁) (ss₁.flatMap (bigWords R) ++ rest₁)).bind
        fun r => putReals (List.replicate col.length 0) r.1)
      = ((rdBigV R (nwBig R ss₂) (nwBig R ss₂) (ss₂.flatMap (bigWords R) ++ rest₂)).bind
        fun r => putReals (List.replicate col.length 0) r.1) := by
  rw [op4_variant_roundtrip_bigmat, op4_variant_roundtrip_bigmat]
  simp only [Option.bind_some, put_reals_spec col _ h₁, put_reals_spec col _ h₂]

/-- `_skipop4_binary` and `_loadop4_binary` end at the same place: after the 8 header words of an
encoded matrix, skipping the column records leaves exactly the words `rest` that follow the matrix
— the same `rest` the full read returns. -/
theorem skip_positions (e : Endian) (lay : Layout) (m : Mat) (rest ws : List Nat) (hwf : m.Wf)
    (hnb : lay = .nonbigmat → m.rows < 65536) (henc : encMatWords e lay m = some ws) :
    (∃ d, rdMatrix e (ws ++ rest) = some (d, rest)) ∧
      skipCols m.cols.length (((ws ++ rest).drop 8).length + 1) 0 ((ws ++ rest).drop 8) = some rest := by
  obtain ⟨d, hd, _⟩ := rdMatrix_decOf e lay m rest ws hwf hnb henc
  refine ⟨⟨d, hd⟩, ?_⟩
  obtain ⟨n0, n1, hn01, _⟩ := name_words e m.name hwf.name_lt
  have hdrop : (ws ++ rest).drop 8
      = (recsOf e lay m.cplx 0 m.cols).flatMap Rec.words ++ trailerWords e m.cols.length ++ rest := by
    rw [encMatWords_eq e lay m ws henc]
    simp [headerWords, hn01]
  rw [hdrop]
  apply skip_matrix e lay m rest hwf hnb
  have htl : (trailerWords e m.cols.length).length = 7 := by
    obtain ⟨d0, d1, h⟩ := dWords_two e sqrt2Bits
    simp [trailerWords, h]
  simp only [List.length_append]
  omega

/-- listings match reads: for every file the writer produces, `dir` returns exactly the name field,
`|rows|`, columns, form and type of the matrices `load` returns, in order -/
theorem dir_matches_load (e : Endian) (ms : List (Layout × Mat)) (ws : List Nat)
    (hw : ∀ p ∈ ms, p.2.Wf ∧ (p.1 = .nonbigmat → p.2.rows < 65536) ∧ ∀ b ∈ p.2.name, b < 128)
    (henc : encFileWords e ms = some ws) :
    ∃ ds, rdFile e (ws.length + 1) ws = some ds ∧ DecsOf ms ds ∧
      dirWords e (ws.length + 1) ws = .ok (ds.map Dec.listing) := by
  have hlen := encFileWords_length e ms ws henc
  obtain ⟨ds, h1, h2⟩ := rdFile_enc e ms ws (ws.length + 1) henc (by omega)
    (fun p hp => ⟨(hw p hp).1, (hw p hp).2.1⟩)
  exact ⟨ds, h1, h2, dirWords_enc e ms ws (ws.length + 1) henc (by omega) hw ds h2⟩

/-- non-vacuity: two different partitions of one column (adjacent strings, a stored zero) -/
example :
    IsPartition [0, 5, 6, 0, 7] [(1, [5, 6]), (4, [7])] ∧
      IsPartition [0, 5, 6, 0, 7] [(1, [5]), (2, [6, 0, 7])] := by
  refine ⟨⟨?_, ?_⟩, ⟨?_, ?_⟩⟩
  · intro s hs
    simp only [List.mem_cons, List.not_mem_nil, or_false] at hs
    rcases hs with rfl | rfl
    · refine ⟨by decide, fun k hk => ?_⟩
      have : k = 0 ∨ k = 1 := by simp at hk; omega
      rcases this with rfl | rfl <;> rfl
    · refine ⟨by decide, fun k hk => ?_⟩
      have : k = 0 := by simp at hk; omega
      subst this; rfl
  · intro i x hx hne
    have hi : i < 5 := (List.getElem?_eq_some_iff.1 hx).1
    have : i = 0 ∨ i = 1 ∨ i = 2 ∨ i = 3 ∨ i = 4 := by omega
    rcases this with rfl | rfl | rfl | rfl | rfl
    · simp at hx; exact absurd hx.symm hne
    · exact ⟨(1, [5, 6]), by simp, by decide, by decide⟩
    · exact ⟨(1, [5, 6]), by simp, by decide, by decide⟩
    · simp at hx; exact absurd hx.symm hne
    · exact ⟨(4, [7]), by simp, by decide, by decide⟩
  · intro s hs
    simp only [List.mem_cons, List.not_mem_nil, or_false] at hs
    rcases hs with rfl | rfl
    · refine ⟨by decide, fun k hk => ?_⟩
      have : k = 0 := by simp at hk; omega
      subst this; rfl
    · refine ⟨by decide, fun k hk => ?_⟩
      have : k = 0 ∨ k = 1 ∨ k = 2 := by simp at hk; omega
      rcases this with rfl | rfl | rfl <;> rfl
  · intro i x hx hne
    have hi : i < 5 := (List.getElem?_eq_some_iff.1 hx).1
    have : i = 0 ∨ i = 1 ∨ i = 2 ∨ i = 3 ∨ i = 4 := by omega
    rcases this with rfl | rfl | rfl | rfl | rfl
    · simp at hx; exact absurd hx.symm hne
    · exact ⟨(1, [5]), by simp, by decide, by decide⟩
    · exact ⟨(2, [6, 0, 7]), by simp, by decide, by decide⟩
    · exact ⟨(2, [6, 0, 7]), by simp, by decide, by decide⟩
    · exact ⟨(2, [6, 0, 7]), by simp, by decide, by decide⟩

end PyYetiVerif.C11


/-! ## OUTPUT2: the reader model of `Model/Op2Read.lean` inverts the encoder of `Model/Op2.lean` -/

namespace PyYetiVerif.C11
open PyYetiVerif.Op4 (Endian)
open PyYetiVerif.Op4V (natBytes intBytes IsPartition)
open PyYetiVerif.Op2 PyYetiVerif.Op2R

/-- two's complement integers of 4 and 8 bytes are decoded to what was encoded, in both byte orders -/
theorem op2_int_roundtrip (e : Endian) (x : Int) :
    (-2147483648 ≤ x → x < 2147483648 → intOfBytes e (intBytes e 4 x) = x) ∧
      (-9223372036854775808 ≤ x → x < 9223372036854775808 → intOfBytes e (intBytes e 8 x) = x) :=
  ⟨intOfBytes_intBytes4 e x, intOfBytes_intBytes8 e x⟩

/-- `_getkey` returns the key of a key record and stops behind it; a data record gives its length, its
payload and is left by skipping the closing marker -/
theorem op2_key_roundtrip (v : V2) (x : Int) (b rest : List Nat) (hx : InKey v x) (hb : b.length < 2147483648) :
    getKey v (K v x ++ rest) = .ok (x, rest) ∧ rdEot v (K v x ++ rest) = .ok (x, rest) ∧
      rdI4 v (R v b ++ rest) = .ok ((b.length : Int), b ++ (mark v b.length ++ rest)) ∧
      pyRead (b.length : Int) (b ++ (mark v b.length ++ rest)) = .ok (b, mark v b.length ++ rest) ∧
      (mark v b.length ++ rest).drop 4 = rest :=
  ⟨getKey_K v x rest hx, rdEot_K v x rest hx, rdI4_R v b rest hb, pyRead_len b _ hb, drop4_mark v _ rest⟩

/-- `rdop2header` on an encoded file header: the date, the label (after `.strip().replace(" ", "")`), and
the reader is left exactly behind the header -/
theorem op2_header_roundtrip (v : V2) (date : List Int) (label rest : List Nat) (h : HeadOk v date label) :
    rdHeader v (header v date label ++ rest) = .ok (some ⟨date, List.replicate (7 * kb v) 78, label⟩, rest) :=
  rdHeader_header v date label rest h.date_len h.date_keys h.label_chars h.label_len

/-- `rdop2nt` on an encoded data-block header: the name through `_validname`, the trailer, the type -/
theorem op2_nt_roundtrip (v : V2) (name : List Nat) (trailer : List Int) (type : Int) (rest : List Nat)
    (ht : trailer.length = 7) (htk : ∀ x ∈ trailer, InKey v x) (hty : InKey v type) (hn : name.length < 2147483000) :
    rdNT v (blockHead v name trailer type ++ rest) = .ok (some ⟨validname name, trailer, type⟩, rest) :=
  rdNT_blockHead v name trailer type rest ht htk hty hn

/-- `rdop2matrix` on an encoded matrix body returns the matrix obtained by putting every string at its row
(`putCol`), for both key widths, both byte orders, single/double (`single ↔ trailer[4]` odd, stored width
`realBytes`), real/complex (`cplx ↔ trailer[4] > 2`, two stored reals per row), strings on either side of the
3000-value cut-over, and stops exactly behind the body.  Hypotheses: `trailer[1]` = number of columns ≥ 1,
`trailer[2]` = rows, every string admissible (`StrOk`: row ≥ 1, fits into the column, values of the stored
width, record length below 2³¹).  For a complex matrix the result is the raw column of `2·rows` stored reals
that `matrix.T.view(complex).T` reinterprets; a string need not hold an even number of reals for this
statement. -/
theorem op2_matrix_roundtrip (v : V2) (single cplx : Bool) (trailer : List Int) (rows ncols : Nat) (mtype : Int)
    (cols : List (List MStr)) (rest : List Nat)
    (h2 : trailer[2]? = some (rows : Int)) (h4 : trailer[4]? = some mtype) (h1 : trailer[1]? = some (ncols : Int))
    (hs : single = decide (mtype % 2 = 1)) (hc : cplx = decide (mtype > 2))
    (hne : cols ≠ []) (hlen : cols.length = ncols) (hnc : ncols < 2147483000)
    (hok : ∀ strs ∈ cols, ∀ s ∈ strs, StrOk v single cplx (rowsEff cplx rows) s) :
    rdMatrix v trailer (encMatCols v single ncols 0 cols ++ (K v 0 ++ rest))
      = .ok (⟨rowsEff cplx rows, cplx, realBytes v single,
          cols.map (putCol cplx (List.replicate (rowsEff cplx rows) 0))⟩, rest) :=
  rdMatrix_enc v single cplx trailer rows ncols mtype cols rest h2 h4 h1 hs hc hne hlen hnc hok

/-- the result is independent of how the columns are cut into strings: whenever the strings of every
column form a partition (`IsPartition`: every string is a slice of the column, every non-zero entry lies
in some string; strings may touch, overlap, contain zeros, come in any order) of the corresponding
column of `target`, the matrix read is `target` — hence two partitions of the same matrix read equally -/
theorem op2_partition_irrelevant (v : V2) (single cplx : Bool) (trailer : List Int) (rows ncols : Nat) (mtype : Int)
    (target : List (List Nat)) (cols : List (List MStr)) (rest : List Nat)
    (h2 : trailer[2]? = some (rows : Int)) (h4 : trailer[4]? = some mtype) (h1 : trailer[1]? = some (ncols : Int))
    (hs : single = decide (mtype % 2 = 1)) (hc : cplx = decide (mtype > 2))
    (hne : cols ≠ []) (hlen : cols.length = ncols) (hnc : ncols < 2147483000)
    (hok : ∀ strs ∈ cols, ∀ s ∈ strs, StrOk v single cplx (rowsEff cplx rows) s)
    (htl : target.length = cols.length)
    (hpart : ∀ p ∈ target.zip cols, p.1.length = rowsEff cplx rows ∧ IsPartition p.1 (p.2.map (toVStr cplx))) :
    rdMatrix v trailer (encMatCols v single ncols 0 cols ++ (K v 0 ++ rest))
      = .ok (⟨rowsEff cplx rows, cplx, realBytes v single, target⟩, rest) := by
  rw [op2_matrix_roundtrip v single cplx trailer rows ncols mtype cols rest h2 h4 h1 hs hc hne hlen hnc hok]
  have : cols.map (putCol cplx (List.replicate (rowsEff cplx rows) 0)) = target := by
    apply map_eq_of_zip _ target cols htl
    intro p hp
    obtain ⟨h1, h2⟩ := hpart p hp
    rw [← h1]
    exact putCol_partition cplx _ _ h2
  rw [this]

/-- the two ways `rdop2matrix` reads the reals of a string (`struct.unpack` below `_rowsCutoff = 3000`
values, `numpy.fromfile` from there on) are the same function of the encoded bytes -/
theorem op2_cutoff_irrelevant (e : Endian) (w : Nat) (hw : 0 < w) (xs rest : List Nat) (h : ∀ x ∈ xs, x < 256 ^ w) :
    rdVals e w (xs.length : Int) (xs.flatMap (natBytes e w) ++ rest) = .ok (xs, rest) :=
  rdVals_enc e w hw xs rest h

/-- skipping = reading, as far as the file position is concerned: `skipop2matrix` leaves exactly the bytes
that `rdop2matrix` leaves, on every encoded matrix body; `skipop2record` leaves what `rdop2record` leaves on
every encoded table record (any split into pieces) -/
theorem op2_skip_positions (v : V2) (single cplx : Bool) (trailer : List Int) (rows ncols : Nat) (mtype : Int)
    (cols : List (List MStr)) (rest : List Nat)
    (h2 : trailer[2]? = some (rows : Int)) (h4 : trailer[4]? = some mtype) (h1 : trailer[1]? = some (ncols : Int))
    (hs : single = decide (mtype % 2 = 1)) (hc : cplx = decide (mtype > 2))
    (hne : cols ≠ []) (hlen : cols.length = ncols) (hnc : ncols < 2147483000)
    (hok : ∀ strs ∈ cols, ∀ s ∈ strs, StrOk v single cplx (rowsEff cplx rows) s) :
    (∃ m, rdMatrix v trailer (encMatCols v single ncols 0 cols ++ (K v 0 ++ rest)) = .ok (m, rest)) ∧
      skipMatrix v (encMatCols v single ncols 0 cols ++ (K v 0 ++ rest)) = .ok rest :=
  ⟨⟨_, rdMatrix_enc v single cplx trailer rows ncols mtype cols rest h2 h4 h1 hs hc hne hlen hnc hok⟩,
    skipMatrix_enc v single ncols cols rest hne hlen hnc (fun strs h s hs => (hok strs h s hs).len)⟩

theorem op2_skip_record (v : V2) (neg : Int) (hneg : neg < 0) (hnk : InKey v neg) (rest : List Nat)
    (pieces : List (List Int)) (hok : ∀ p ∈ pieces, PieceOk v p) :
    rdRecord v (pieces.flatMap (encPiece v) ++ (K v neg ++ (K v 1 ++ (K v 0 ++ rest)))) = .ok (some pieces.flatten, rest) ∧
      skipRecord v (pieces.flatMap (encPiece v) ++ (K v neg ++ (K v 1 ++ (K v 0 ++ rest)))) = .ok rest :=
  ⟨rdRecord_enc v neg hneg hnk rest pieces hok, skipRecord_enc v neg hneg hnk rest pieces hok⟩

/-- `rdop2record()` called until it returns None over an encoded table body returns, record by record, the
concatenation of the pieces (super-records), then None at the end-of-table key, leaving the reader behind
the table; `rdop2tabheaders` returns the first three keys and the byte length of every piece (every piece
has at least three keys) and ends at the same place -/
theorem op2_table_roundtrip (v : V2) (recs : List (List (List Int))) (rest : List Nat) (hok : TabOk v 0 recs) :
    rdRecords v ((encTabRecs v 0 recs ++ (K v 0 ++ rest)).length + 1) (encTabRecs v 0 recs ++ (K v 0 ++ rest))
        = .ok (recs.map List.flatten, rest) ∧
      ((∀ pieces ∈ recs, ∀ p ∈ pieces, 3 ≤ p.length) →
        rdTabHeaders v (encTabRecs v 0 recs ++ (K v 0 ++ rest)) = .ok (headersOf v recs, rest)) := by
  refine ⟨rdRecords_enc v rest recs 0 _ hok ?_, rdTabHeaders_enc v rest recs hok⟩
  have := length_encTabRecs v recs 0
  rw [List.length_append]; omega

/-- `_op2open` recovers byte order and key width from the first four bytes of any encoded file -/
theorem op2_open_detects (v : V2) (date : List Int) (label : List Nat) (bs : List Block) :
    detect (encOp2 v date label bs) = .ok v := by
  obtain ⟨t, ht⟩ := header_eq v date label
  simp only [encOp2, ht, List.append_assoc]
  exact detect_mark v _

/-- listings match reads: opening an encoded file yields the header and a directory that lists, in file
order, name, start, stop, type, size, trailer and table headers of every block (`entriesFrom`), the byte
ranges being `positions`; and reading the block found at any listed start (`rdop2nt` + `rdop2matrix` /
`rdop2record` until None) returns its content and ends exactly at the listed stop -/
theorem op2_dir_matches_read (v : V2) (date : List Int) (label : List Nat) (bs : List Block) (hh : HeadOk v date label)
    (hb : ∀ b ∈ bs, BlockOk v b) :
    openOp2 (encOp2 v date label bs)
        = .ok ⟨v, some ⟨date, List.replicate (7 * kb v) 78, label⟩, (header v date label).length,
            entriesFrom v (header v date label).length bs⟩ ∧
      (entriesFrom v (header v date label).length bs).map (fun e => (e.start, e.stop)) = positions v date label bs ∧
      ∀ pre b post, bs = pre ++ b :: post → ContentOk v b →
        (entriesFrom v (header v date label).length bs)[pre.length]?
            = some (entryOf v b ((header v date label).length + (pre.flatMap (encBlock v)).length)
                ((header v date label).length + (pre.flatMap (encBlock v)).length + (encBlock v b).length)) ∧
          rdBlock v ((encOp2 v date label bs).drop ((header v date label).length + (pre.flatMap (encBlock v)).length))
            = .ok (some (ntOf b, contentOf v b), (encOp2 v date label bs).drop
                ((header v date label).length + (pre.flatMap (encBlock v)).length + (encBlock v b).length)) := by
  refine ⟨openOp2_enc v date label bs hh hb, entriesFrom_positions v bs _, ?_⟩
  intro pre b post hbs hc
  subst hbs
  refine ⟨?_, ?_⟩
  · rw [entriesFrom_append, List.getElem?_append_right (by rw [length_entriesFrom]; exact Nat.le_refl _),
      length_entriesFrom, Nat.sub_self]
    rfl
  · rw [drop_start, drop_stop]
    exact rdBlock_enc v b _ (hb b (by simp)) hc

/-- `rdop2mats()` on an encoded file returns the distinct matrix names in order of first appearance, each
with the matrix of the LAST block of that name -/
theorem op2_roundtrip (v : V2) (date : List Int) (label : List Nat) (bs : List Block) (hh : HeadOk v date label)
    (hb : ∀ b ∈ bs, BlockOk v b) (hc : ∀ b ∈ bs, ContentOk v b) :
    ∃ o, openOp2 (encOp2 v date label bs) = .ok o ∧ o.v = v ∧
      o.header = some ⟨date, List.replicate (7 * kb v) 78, label⟩ ∧
      rdMats o.v (encOp2 v date label bs) o.dir = .ok (lastMats v bs) ∧
      (lastMats v bs).map (·.1) = getUnique [] ((matBlocks bs).map vname) := by
  exact ⟨_, openOp2_enc v date label bs hh hb, rfl, rfl, rdMats_enc v date label bs hb hc, lastMats_names v bs⟩


/-- skipping = reading on EVERY byte string (no encoder involved): whenever `rdop2matrix` succeeds on `s` and
every string record the skipper visits has an aligned length (`alignedMatrix`: `reclen ≥ ibytes` and
`reclen − ibytes` a multiple of `bytes_per`, which is what makes `(reclen − ibytes) // bytes_per` exact),
`skipop2matrix` succeeds on `s` and leaves exactly the same bytes -/
theorem op2_skip_positions_general (v : V2) (trailer : List Int) (mtype : Int) (s : List Nat) (m : Op2R.Mat)
    (rest : List Nat) (h4 : trailer[4]? = some mtype) (ha : alignedMatrix v (bytesPer v mtype) s = true)
    (h : rdMatrix v trailer s = .ok (m, rest)) : skipMatrix v s = .ok rest :=
  skipMatrix_of_rdMatrix v trailer mtype s m rest h4 ha h

/-- the same for records: whenever `rdop2record()` returns a record on `s` and every piece length is a
non-negative multiple of the key width, `skipop2record()` leaves exactly the same bytes -/
theorem op2_skip_record_general (v : V2) (s : List Nat) (d : List Int) (rest : List Nat)
    (ha : ∀ key s1, getKey v s = .ok (key, s1) → alignedPieces v (s1.length + 1) key s1 = true)
    (h : rdRecord v s = .ok (some d, rest)) : skipRecord v s = .ok rest :=
  skipRecord_of_rdRecord v s d rest ha h

/-- skipping over a data block leaves the reader at the next one: from the listed start of any block of an
encoded file, `goto_next` (via `next_db_info`) moves to the listed stop of that block, which is the start of
the next block -/
theorem op2_goto_next (v : V2) (date : List Int) (label : List Nat) (pre : List Block) (b : Block) (post : List Block) :
    gotoNext (entriesFrom v (header v date label).length (pre ++ b :: post))
        ((header v date label).length + (pre.flatMap (encBlock v)).length)
      = .ok ((header v date label).length + (pre.flatMap (encBlock v)).length + (encBlock v b).length) :=
  gotoNext_enc v _ pre b post

/-! ### non-vacuity: a concrete big-endian file with a matrix block (two columns, the first cut into two
strings, the second empty) and a table block (a record split into two pieces, a one-piece record) satisfies
every hypothesis of the theorems above -/

def exV : V2 := ⟨.big, false⟩
def exMat : MatBlock := ⟨[75, 65, 65], [101, 2, 3, 6, 2, 0, 0], false, [[(1, [5, 6]), (3, [7])], []]⟩
def exTab : TabBlock := ⟨[71, 69, 79, 77, 49], [102, 0, 0, 0, 0, 0, 0], [[[1, 2, 3], [4, -5, 6, 7]], [[8, 9, 10]]]⟩

example : HeadOk exV [9, 28, 26] [78, 88] ∧ (∀ b ∈ [Block.mat exMat, Block.tab exTab], BlockOk exV b) ∧
    (∀ b ∈ [Block.mat exMat, Block.tab exTab], ContentOk exV b) := by decide

example : TabOk exV 0 exTab.records ∧ (∀ pieces ∈ exTab.records, ∀ p ∈ pieces, 3 ≤ p.length) ∧
    (∀ strs ∈ exMat.cols, ∀ s ∈ strs, StrOk exV false false (rowsEff false 3) s) ∧
    exMat.trailer[1]? = some ((exMat.cols.length : Nat) : Int) := by decide

/-- two different partitions (1-based rows as in the file) of the same column -/
example : [((2 : Nat), [5, 6]), (5, [7])].map (toVStr false) = [(1, [5, 6]), (4, [7])] ∧
    [((2 : Nat), [5]), (3, [6, 0, 7])].map (toVStr false) = [(1, [5]), (2, [6, 0, 7])] := by decide

/-- the matrix body of the example is aligned in the sense of `op2_skip_positions_general` -/
example : alignedMatrix exV 8 (encMatCols exV false 2 0 exMat.cols ++ K exV 0) = true := by decide +kernel

/-- the opened example file: byte order, key width and the byte ranges of the two blocks -/
example : (match openOp2 (encOp2 exV [9, 28, 26] [78, 88] [.mat exMat, .tab exTab]) with
    | .ok o => some (o.v.bit64, o.dir.map fun (e : Entry) => (e.start, e.stop, e.dbtype))
    | .error _ => none) = some (false, [(132, 476, 1), (476, 848, 0)]) := by decide +kernel

end PyYetiVerif.C11
