import PyYetiVerif.Lemmas.Op4Variants
import PyYetiVerif.Lemmas.Op4Skip
/-!
# C11 — readers decode every OUTPUT4/OUTPUT2 variant; listings match reads

Property theorems only.  The encoders of `Model/Op4Variants.lean` and `Model/Op2.lean` are written
from the record formats (they share no code with pyYeti); the files they produce are read by
pyYeti's real readers in the correspondence check (harness/props/c11.py), which is what ties the
format model to `op4.py` / `op2.py`.

What is proved here is the part of the statement that quantifies over *physical encodings of the
same logical content*: the column decoders of the OUTPUT4 reader (`while nwords > 0` of
`_rd_bigmat_binary` / `_rd_nonbigmat_binary`), generalised over the number of file words per real
(`RealCodec`: 1 for single precision or 64-bit keys, 2 for double precision with 32-bit keys, either
byte order), return exactly the strings that were encoded, for **every** list of strings — so for
every way of cutting a column into strings (adjacent strings, strings of length one, stored zeros,
empty strings) — and putting these strings into a zero column rebuilds the column; hence two
partitions of the same column decode equally (`partition_irrelevant`).

`skip_positions` and `dir_matches_load` are proved for the variant that `Model/Op4.lean` models in
full (32-bit keys, double precision, either byte order, the three layouts): the skipper
`_skipop4_binary` leaves the stream exactly where the reader `_loadop4_binary` leaves it, and `dir`
lists exactly the headers of what `load` returns.

Not proved (checked by exact correspondence only, see PARTIAL in harness/props/c11.py): the same two
statements for 64-bit keys / single precision / ASCII, `op2_roundtrip`, `cutoff_irrelevant`.
-/
namespace PyYetiVerif.C11
open PyYetiVerif.Op4 PyYetiVerif.Op4V

/-- the two physical real encodings: one word, or the two words of `Model/Op4.dWords` -/
theorem real_codecs (e : Endian) :
    codec1.w = 1 ∧ (codec2 e).w = 2 ∧ (∀ x, (codec2 e).split x = dWords e x) ∧
      (∀ x, codec1.join (codec1.split x) = x) ∧ (∀ x, (codec2 e).join ((codec2 e).split x) = x) :=
  ⟨rfl, rfl, fun _ => rfl, codec1.join_split, (codec2 e).join_split⟩

/-- bigmat: every list of strings is read back as written, the announced word count is consumed
to exactly zero and the words after the record are untouched -/
theorem op4_variant_roundtrip_bigmat (R : RealCodec) (ss : List VStr) (rest : List Nat) :
    rdBigV R (nwBig R ss) (nwBig R ss) (ss.flatMap (bigWords R) ++ rest) = some (ss, rest) := by
  apply rdBigV_enc
  induction ss with
  | nil => simp
  | cons s t ih => rw [nwBig_cons]; simp only [List.length_cons]; omega

/-- nonbigmat: the same, for rows below 65536 (the packed header keeps the row in 16 bits) -/
theorem op4_variant_roundtrip_nonbigmat (R : RealCodec) (ss : List VStr) (rest : List Nat)
    (hrow : ∀ s ∈ ss, s.1 + 1 < 65536) :
    rdNonbigV R (nwNonbig R ss) (nwNonbig R ss) (ss.flatMap (nonbigWords R) ++ rest) = some (ss, rest) := by
  apply rdNonbigV_enc R ss rest hrow
  induction ss with
  | nil => simp
  | cons s t ih =>
    rw [nwNonbig_cons]; simp only [List.length_cons]
    have := ih fun x hx => hrow x (List.mem_cons_of_mem _ hx)
    omega

/-- putting the strings of any partition of a column into a zero column rebuilds the column -/
theorem put_reals_spec (col : List Nat) (ss : List VStr) (h : IsPartition col ss) :
    putReals (List.replicate col.length 0) ss = some col :=
  putReals_partition col ss h

/-- two partitions of the same column decode equally (both layouts, any words per real) -/
theorem partition_irrelevant (R : RealCodec) (col : List Nat) (ss₁ ss₂ : List VStr) (rest₁ rest₂ : List Nat)
    (h₁ : IsPartition col ss₁) (h₂ : IsPartition col ss₂) :
    ((rdBigV R (nwBig R ss₁) (nwBig R ss₁) (ss₁.flatMap (bigWords R) ++ rest₁)).bind
        fun r => putReals (List.replicate col.length 0) r.1)
      = ((rdBigV R (nwBig R ss₂) (nwBig R ss₂) (ss₂.flatMap (bigWords R) ++ rest₂)).bind
        fun r => putReals (List.replicate col.length 0) r.1) := by
  rw [op4_variant_roundtrip_bigmat, op4_variant_roundtrip_bigmat]
  simp only [Option.bind_some, put_reals_spec col _ h₁, put_reals_spec col _ h₂]

/-- `_skipop4_binary` and `_loadop4_binary` end at the same place: after the 8 header words of an
encoded matrix, skipping the column records leaves exactly the words `rest` that follow the matrix
— the same `rest` the full read returns. -/
theorem skip_positions (e : Endian) (lay : Layout) (m : Mat) (rest ws : List Nat) (hwf : m.Wf)
    (hnb : lay = .nonbigmat → m.rows < 65536) (henc : encMatWords e lay m = some ws) :
    (∃ d, rdMatrix e (ws ++ rest) = some (d, rest)) ∧
      skipCols m.cols.length (((ws ++ rest).drop 8).length + 1) 0 ((ws ++ rest).drop 8) = some rest := by
  obtain ⟨d, hd, _⟩ := rdMatrix_decOf e lay m rest ws hwf hnb henc
  refine ⟨⟨d, hd⟩, ?_⟩
  obtain ⟨n0, n1, hn01, _⟩ := name_words e m.name hwf.name_lt
  have hdrop : (ws ++ rest).drop 8
      = (recsOf e lay m.cplx 0 m.cols).flatMap Rec.words ++ trailerWords e m.cols.length ++ rest := by
    rw [encMatWords_eq e lay m ws henc]
    simp [headerWords, hn01]
  rw [hdrop]
  apply skip_matrix e lay m rest hwf hnb
  have htl : (trailerWords e m.cols.length).length = 7 := by
    obtain ⟨d0, d1, h⟩ := dWords_two e sqrt2Bits
    simp [trailerWords, h]
  simp only [List.length_append]
  omega

/-- listings match reads: for every file the writer produces, `dir` returns exactly the name field,
`|rows|`, columns, form and type of the matrices `load` returns, in order -/
theorem dir_matches_load (e : Endian) (ms : List (Layout × Mat)) (ws : List Nat)
    (hw : ∀ p ∈ ms, p.2.Wf ∧ (p.1 = .nonbigmat → p.2.rows < 65536) ∧ ∀ b ∈ p.2.name, b < 128)
    (henc : encFileWords e ms = some ws) :
    ∃ ds, rdFile e (ws.length + 1) ws = some ds ∧ DecsOf ms ds ∧
      dirWords e (ws.length + 1) ws = .ok (ds.map Dec.listing) := by
  have hlen := encFileWords_length e ms ws henc
  obtain ⟨ds, h1, h2⟩ := rdFile_enc e ms ws (ws.length + 1) henc (by omega)
    (fun p hp => ⟨(hw p hp).1, (hw p hp).2.1⟩)
  exact ⟨ds, h1, h2, dirWords_enc e ms ws (ws.length + 1) henc (by omega) hw ds h2⟩

/-- non-vacuity: two different partitions of one column (adjacent strings, a stored zero) -/
example :
    IsPartition [0, 5, 6, 0, 7] [(1, [5, 6]), (4, [7])] ∧
      IsPartition [0, 5, 6, 0, 7] [(1, [5]), (2, [6, 0, 7])] := by
  refine ⟨⟨?_, ?_⟩, ⟨?_, ?_⟩⟩
  · intro s hs
    simp only [List.mem_cons, List.not_mem_nil, or_false] at hs
    rcases hs with rfl | rfl
    · refine ⟨by decide, fun k hk => ?_⟩
      have : k = 0 ∨ k = 1 := by simp at hk; omega
      rcases this with rfl | rfl <;> rfl
    · refine ⟨by decide, fun k hk => ?_⟩
      have : k = 0 := by simp at hk; omega
      subst this; rfl
  · intro i x hx hne
    have hi : i < 5 := (List.getElem?_eq_some_iff.1 hx).1
    have : i = 0 ∨ i = 1 ∨ i = 2 ∨ i = 3 ∨ i = 4 := by omega
    rcases this with rfl | rfl | rfl | rfl | rfl
    · simp at hx; exact absurd hx.symm hne
    · exact ⟨(1, [5, 6]), by simp, by decide, by decide⟩
    · exact ⟨(1, [5, 6]), by simp, by decide, by decide⟩
    · simp at hx; exact absurd hx.symm hne
    · exact ⟨(4, [7]), by simp, by decide, by decide⟩
  · intro s hs
    simp only [List.mem_cons, List.not_mem_nil, or_false] at hs
    rcases hs with rfl | rfl
    · refine ⟨by decide, fun k hk => ?_⟩
      have : k = 0 := by simp at hk; omega
      subst this; rfl
    · refine ⟨by decide, fun k hk => ?_⟩
      have : k = 0 ∨ k = 1 ∨ k = 2 := by simp at hk; omega
      rcases this with rfl | rfl | rfl <;> rfl
  · intro i x hx hne
    have hi : i < 5 := (List.getElem?_eq_some_iff.1 hx).1
    have : i = 0 ∨ i = 1 ∨ i = 2 ∨ i = 3 ∨ i = 4 := by omega
    rcases this with rfl | rfl | rfl | rfl | rfl
    · simp at hx; exact absurd hx.symm hne
    · exact ⟨(1, [5]), by simp, by decide, by decide⟩
    · exact ⟨(2, [6, 0, 7]), by simp, by decide, by decide⟩
    · exact ⟨(2, [6, 0, 7]), by simp, by decide, by decide⟩
    · exact ⟨(2, [6, 0, 7]), by simp, by decide, by decide⟩

end PyYetiVerif.C11
