import PyYetiVerif.Generated.C19Consts
import PyYetiVerif.Model.FixtimeFull
import PyYetiVerif.Model.FixtimeDespike
import PyYetiVerif.Model.Psd
import PyYetiVerif.Model.ResampleDtype
/-!
# C19 — the constants, defaults and comparison operators of the source are the ones the models use

`Generated/C19Consts.lean` is rewritten from `pyyeti/dsp.py` / `pyyeti/psd.py` by
`harness/translate/c19_consts.py` on every run.  The obligations below stop checking as soon as a
literal, a default argument or a comparison operator of the anchored routines changes
(e.g. `abs(s + 1.0) < 1e-8`, `dt / 4`, `3 * t.std(ddof=1)`, `y_delta > limit` becoming `>=`,
`np.zeros(shape)` acquiring a dtype).
-/
namespace PyYetiVerif.C19
open PyYetiVerif.Generated.C19Consts

/-- literals: each `(Num, Den)` pair is the decimal value of the source literal; the right-hand sides
are the numbers written in the models (`Model/Psd.lean` `1e-8`, `1e-12`; `Model/FixtimeTnew.lean`
`dt/4`, `dt/2`; `Model/FixtimeDrops.lean` `9 = 3²`, `n − 1`; `Model/FixtimeSr.lean` `5`, `10`, `1/10`,
`90`; `Model/FixtimeFull.lean` `/100`, `93/100`, `107/100`, `1/100`, `delLoners … 3`; `Model/PsdOct.lean`
`1000`, `1`, `2`, `10`, `3`, `20`; `Model/Resample.lean` `2·pts·max`, `/2`) -/
theorem constants_literals_match_source :
    areaSlopeShiftNum = 1 ∧
    areaSlopeShiftDen = 1 ∧
    areaSlopeTolNum = 1 ∧
    areaSlopeTolDen = 10 ^ 8 ∧
    linTolNum = 1 ∧
    linTolDen = 10 ^ 12 ∧
    edgeHalfDivisorNum = 2 ∧
    edgeHalfDivisorDen = 1 ∧
    turnTolDivisorNum = 4 ∧
    turnTolDivisorDen = 1 ∧
    turnEndsNum = 2 ∧
    turnMaxDivisorNum = 2 ∧
    alignHalfDivisorNum = 2 ∧
    outtimeSigmasNum * outtimeSigmasNum = 9 ∧
    outtimeSigmasDen = 1 ∧
    outtimeDdofNum = 1 ∧
    outtimeDdofDen = 1 ∧
    srCoarseAboveNum = 5 ∧
    srCoarseStepNum = 5 ∧
    srFineScaleNum = 10 ∧
    srFineFloorNum = 1 ∧
    srFineFloorDen = 10 ∧
    srFineDivisorNum = 10 ∧
    srModePctNum = 90 ∧
    dropvalPercentDivisorNum = 100 ∧
    dtSmallFactorNum = 93 ∧
    dtSmallFactorDen = 100 ∧
    dtLargeFactorNum = 107 ∧
    dtLargeFactorDen = 100 ∧
    dtWarnFractionNum = 1 ∧
    dtWarnFractionDen = 100 ∧
    lonersNzNum = 3 ∧
    lonersGapNum = 2 ∧
    lonersMinFlagsNum = 2 ∧
    prevTolLoNum = 0 ∧
    prevTolHiNum = 1 ∧
    prevTolHiDen = 1 ∧
    anchorExactNum = 1000 ∧
    anchorPreferredNum = 1 ∧
    octExactBaseNum = 2 ∧
    octPrefBaseNum = 10 ∧
    octPrefTopNum = 3 ∧
    octPrefBottomNum = 10 ∧
    octExactFactorTopNum = 1 ∧
    octExactFactorBottomNum = 2 ∧
    octPrefFactorTopNum = 3 ∧
    octPrefFactorBottomNum = 20 ∧
    firOrderFactorNum = 2 ∧
    cutoffDivisorNum = 2 ∧
    lagDivisorNum = 2 := by decide

/-- defaults of the public signatures (what the harness relies on when it omits an argument):
`resample(beta=14, pts=10, axis=-1)`, `fixtime(dropval=-1.40130e-45, previous_value_tol=1e-3)`,
`delspikes` → `sigma=8, n=15, maxiter=-1`, `despike*(sigma=8.0, maxiter=-1, threshold_sigma=2.0)`,
`rescale(n_oct=3)` -/
theorem constants_defaults_match_source :
    kaiserBetaNum = 14 ∧
    kaiserBetaDen = 1 ∧
    ptsDefaultNum = 10 ∧
    ptsDefaultDen = 1 ∧
    resampleAxisDefaultNum = -1 ∧
    dropvalDefaultNum = -14013 ∧
    dropvalDefaultDen = 10 ^ 49 ∧
    prevTolDefaultNum = 1 ∧
    prevTolDefaultDen = 1000 ∧
    delspikesSigmaNum = 8 ∧
    delspikesNNum = 15 ∧
    delspikesMaxiterNum = -1 ∧
    despikeSigmaNum = 8 ∧
    despikeMaxiterNum = -1 ∧
    despikeThresholdSigmaNum = 2 ∧
    despikeDiffSigmaNum = 8 ∧
    despikeDiffMaxiterNum = -1 ∧
    despikeDiffThresholdSigmaNum = 2 ∧
    rescaleNOctDefaultNum = 3 := by decide

/-- comparison operators: strict where the models are strict (`abs(s+1) < 1e-8`, `< 1e-12`, the 1 %
drop-out test, the 3-sigma test, `sr1 > 5`, `mode_pct > 90 or … < dsr`, `> dt/4`, `> len//2`,
`n > 0.01`, every despike flag `delta > limit` and `_simple_filter`'s), inclusive where they are
inclusive (the sweeps stop at `abs(…) <= lim`, `_del_loners` needs `>= nz`, the six trimming tests of
`get_freq_oct` `FL <= e, FU >= s | F <= e, F >= s | FU <= e, FL >= s`) -/
theorem constants_operators_match_source :
    areaSlopeStrict = true ∧ linTolStrict = true ∧ dropvalStrict = true ∧ outtimeStrict = true ∧
    srCoarseStrict = true ∧ srModeStrict = true ∧ turnStrict = true ∧ turnCountStrict = true ∧
    dtWarnStrict = true ∧ prevTolRangeStrict = true ∧ despikeFlagStrict = true ∧ simpleFlagStrict = true ∧
    despikeSweepStopsAtLE = true ∧ lonersCountIsGE = true ∧ octTrimTable = true := by decide

/-- `resample`: every `np.zeros(shape)` buffer is created without a dtype (float64), as
`Model/ResampleDtype.lean` `bufferType` says -/
theorem constants_resample_buffers_are_float64 :
    zerosWithDtypeNum = 0 ∧ zerosCallsNum = 3 ∧
      ∀ d : Resample.DType, Resample.bufferType d = Resample.DType.float64 := by
  refine ⟨by decide, by decide, fun _ => rfl⟩

/-- the models do use these numbers: spot checks that would fail if a model literal drifted from the
value stated above (`1e-8` at `ℚ`, the strict 3-sigma and 1 % tests, `dt/4`, the resolution `5`) -/
theorem constants_used_by_models :
    Fixtime.srResolution 6 = 5 ∧ Fixtime.srResolution (1 / 4) = 1 / 5 ∧
    Fixtime.findDrops [Fixtime.Sample.fin 101, Fixtime.Sample.fin (10099 / 100)] (some 100) = [false, true] ∧
    Fixtime.turnFlags [0, 1, 113 / 50, 163 / 50] 1 = [true, true, true, true] ∧
    Fixtime.turnFlags [0, 1, 5 / 4 + 1, 13 / 4] 1 = [true, false, false, true] ∧
    Fixtime.checkDtSize [93 / 100, 1, 107 / 100] 1 = (false, false) := by decide +kernel

end PyYetiVerif.C19
