import PyYetiVerif.Lemmas.Freq
import Mathlib.Data.Complex.Basic
import Mathlib.LinearAlgebra.Matrix.Notation
import Mathlib.Algebra.Order.Field.Basic
import Mathlib.Algebra.Order.BigOperators.Group.Finset
import Mathlib.Analysis.SpecialFunctions.Sqrt
import Mathlib.Tactic.FinCases
import Mathlib.Tactic.NormNum
import Mathlib.Tactic.Linarith
/-!
# C02 — the frequency-domain solution satisfies the dynamic-stiffness equation

Property theorems only (helper lemmas live in `Lemmas/Freq.lean`).  The definitions are those of
`Model/Freq.lean`, which the driver executes at a pair-of-doubles complex type against
`SolveUnc.fsolve`, `FreqDirect.fsolve` and `solvepsd` (harness/props/c02.py).  Here they are
instantiated at an arbitrary field `α` with an element `i` (`i * i = -1` is assumed only where it
is needed); `α = ℂ`, `i = Complex.I` is the intended instance (see the examples).

Scope: the theorems are about the per-row and per-block formulas.  Linear solves (`la.solve`,
LU) and the complex eigen-decomposition (`eigss`/`addconj`) are *specifications* (hypotheses
`hsolve`, `hg`, `htop`, `hbot`, `h1`, `h2`); their residuals are measured by the correspondence
check.  Floating-point accuracy is measured, not proved.

Two defects found while building this check lived in the index bookkeeping (not in the
formulas); they are repaired in /repo, the model follows the repaired code, and both the repaired
and the pre-fix addressing are stated at the end (`imrbPick_correct`, `…Prefix_*`).
-/
set_option linter.unusedSimpArgs false
set_option linter.unusedSectionVars false
set_option linter.unusedVariables false
namespace PyYetiVerif.C02
open PyYetiVerif.Freq Matrix

section field
variable {α : Type} [Field α]

/-- `_solve_freq_unc`: the elastic closed form solves `(k − mΩ² + iΩb) d = f` with `v = iΩd`,
`a = −Ω²d` whenever the denominator is non-zero. -/
theorem frfUnc_solves (i m b k f w : α) (h : i * (b * w) + k - m * (w * w) ≠ 0) :
    (k - m * (w * w) + i * w * b) * (frfUnc i m b k f w).d = f ∧
    (frfUnc i m b k f w).v = i * w * (frfUnc i m b k f w).d ∧
    (frfUnc i m b k f w).a = -(w * w) * (frfUnc i m b k f w).d := by
  refine ⟨?_, ?_, ?_⟩
  · simp only [frfUnc]
    have : k - m * (w * w) + i * w * b = i * (b * w) + k - m * (w * w) := by ring
    rw [this, mul_div_cancel₀ _ h]
  · simp only [frfUnc]; ring
  · simp only [frfUnc]; ring

/-- `_solve_freq_rb`, all of `dva` requested, `Ω ≠ 0`: `−Ω² m d = f`, `v = iΩd`, `a = −Ω²d`
(and `a = iΩv`, `m a = f`).  `isZero` is the code's `freqw != 0` mask. -/
theorem frfRb_solves (isZero : α → Bool) (hz : ∀ x, isZero x = true ↔ x = 0)
    (i m f w : α) (hm : m ≠ 0) (hw : w ≠ 0) (hi : i * i = -1) :
    let s := frfRb isZero i ((1 / m) * f) w Incrb.all;
    -(w * w) * m * s.d = f ∧ s.v = i * w * s.d ∧ s.a = -(w * w) * s.d ∧ s.a = i * w * s.v ∧
      m * s.a = f := by
  have hnz : isZero w = false := by
    cases h : isZero w
    · rfl
    · exact absurd ((hz w).1 h) hw
  simp only [frfRb, Incrb.all, hnz, Bool.not_false, Bool.and_self, if_true]
  refine ⟨?_, ?_, ?_, ?_, ?_⟩
  · field_simp
  · field_simp
  · field_simp
  · rw [show i * w * (-i / w * (1 / m * f)) = -(i * i) * (w / w) * (1 / m * f) by ring, hi, div_self hw]; ring
  · field_simp

/-- the same for `FreqDirect.fsolve`'s uncoupled branch (its own expression order) -/
theorem frfDir_solves (i m b k f w : α) (h : (i * b) * w + k - m * (w * w) ≠ 0) :
    (k - m * (w * w) + i * w * b) * (frfDir i m b k f w).d = f ∧
    (frfDir i m b k f w).v = i * w * (frfDir i m b k f w).d ∧
    (frfDir i m b k f w).a = -(w * w) * (frfDir i m b k f w).d := by
  refine ⟨?_, rfl, rfl⟩
  simp only [frfDir]
  have : k - m * (w * w) + i * w * b = (i * b) * w + k - m * (w * w) := by ring
  rw [this, mul_div_cancel₀ _ h]

/-- at `Ω = 0` the rigid-body displacement and velocity are left zero (for every `incrb`) and
the acceleration, when requested, is `f/m`. -/
theorem frfRb_zero_freq (isZero : α → Bool) (hz : ∀ x, isZero x = true ↔ x = 0)
    (i m f : α) (hm : m ≠ 0) (inc : Incrb) :
    let s := frfRb isZero i ((1 / m) * f) 0 inc;
    s.d = 0 ∧ s.v = 0 ∧ (inc.a = true → m * s.a = f) := by
  have h0 : isZero (0 : α) = true := (hz 0).2 rfl
  simp only [frfRb, h0, Bool.not_true, Bool.and_false, Bool.false_eq_true, if_false, true_and]
  intro ha
  simp only [ha, if_true]
  field_simp

/-- `SolveUnc`: for each of the 8 subsets of `dva`, a rigid-body row of d / v / a is the
full (`incrb = "dva"`) value if its letter is present and exactly zero otherwise (generic in
the data; proved by cases over the subsets). -/
theorem incrb_table (isZero : α → Bool) (i arb w : α) (inc : Incrb) :
    (frfRb isZero i arb w inc).d = (if inc.d then (frfRb isZero i arb w Incrb.all).d else 0) ∧
    (frfRb isZero i arb w inc).v = (if inc.v then (frfRb isZero i arb w Incrb.all).v else 0) ∧
    (frfRb isZero i arb w inc).a = (if inc.a then (frfRb isZero i arb w Incrb.all).a else 0) := by
  rcases inc with ⟨d, v, a⟩
  cases d <;> cases v <;> cases a <;> simp [frfRb, Incrb.all]

/-- `FreqDirect`: the same table for its `d[rb] = 0` / `v[rb] = 0` / `a[rb] = 0` zeroing. -/
theorem incrb_table_direct (i m b k f w : α) (inc : Incrb) (dO : Bool) :
    (rowDirect i .rb inc dO m b k f w).d = (if inc.d then (rowDirect i .rb Incrb.all dO m b k f w).d else 0) ∧
    (rowDirect i .rb inc dO m b k f w).v = (if inc.v then (rowDirect i .rb Incrb.all dO m b k f w).v else 0) ∧
    (rowDirect i .rb inc dO m b k f w).a = (if inc.a then (rowDirect i .rb Incrb.all dO m b k f w).a else 0) := by
  rcases inc with ⟨d, v, a⟩
  cases d <;> cases v <;> cases a <;> simp [rowDirect, applyIncrb, Incrb.all]

/-- `incrb` touches nothing but the rigid-body rows. -/
theorem incrb_only_rb (isZero : α → Bool) (i m b k f w : α) (c : Cls) (hc : c ≠ .rb)
    (inc inc' : Incrb) (dO : Bool) :
    rowUnc isZero i c inc dO m b k f w = rowUnc isZero i c inc' dO m b k f w ∧
    rowDirect i c inc dO m b k f w = rowDirect i c inc' dO m b k f w := by
  cases c
  · exact absurd rfl hc
  · exact ⟨rfl, rfl⟩
  · exact ⟨rfl, rfl⟩

/-- residual-flexibility rows: static displacement `k d = f`; `v`, `a` are zero when
`rf_disp_only`, and `iΩd`, `−Ω²d` otherwise; both solvers share this code. -/
theorem rf_rows (isZero : α → Bool) (i m b k f w : α) (hk : k ≠ 0) (inc : Incrb) (dO : Bool) :
    let s := rowUnc isZero i .rf inc dO m b k f w;
    k * s.d = f ∧ (dO = true → s.v = 0 ∧ s.a = 0) ∧
      (dO = false → s.v = i * w * s.d ∧ s.a = -(w * w) * s.d) ∧
      rowDirect i .rf inc dO m b k f w = s := by
  cases dO
  · refine ⟨?_, ?_, ?_, rfl⟩
    · simp only [rowUnc, rfFreq, Bool.false_eq_true, if_false]; field_simp
    · intro h; cases h
    · intro _; simp only [rowUnc, rfFreq, Bool.false_eq_true, if_false]; exact ⟨by ring, by ring⟩
  · refine ⟨?_, ?_, ?_, rfl⟩
    · simp only [rowUnc, rfFreq, if_true]; field_simp
    · intro _; simp [rowUnc, rfFreq]
    · intro h; cases h

/-! ### damped rigid-body modes of an uncoupled system (findings F51 / F52, repaired code)

For uncoupled equations the rigid-body modes are detected from `k` alone, so a rigid-body equation
may carry damping: `m q̈ + b q̇ = f`.  `_solve_freq_rb` (repaired) divides `a = f/m` by
`1 − i (b/m)/Ω` at `Ω ≠ 0`.  On the *coupled* path nothing of this applies: the detection rule makes a
mode rigid-body only if its row and column of `k` and of `b` are below 0.005, and the block is solved
as `a = M⁻¹ f`; a user-given `rb` on a coupled system with damping on those modes is solved without
that damping (tied by the correspondence check, nothing is claimed about it here). -/

/-- the denominator of the damped rigid-body acceleration is the dynamic stiffness of the row
divided by `−Ω² m` -/
theorem rbDamp_den (i m b w : α) (hm : m ≠ 0) (hw : w ≠ 0) :
    (1 - i * (b * (1 / m)) / w) * (-(w * w) * m) = -(w * w) * m + i * w * b := by
  field_simp
  ring

/-- **`frfRb_damped_solves`** — `_solve_freq_rb`, uncoupled path, all of `dva`, `Ω ≠ 0`, every
`m ≠ 0` and *any* `b`: `(−Ω² m + iΩ b) d = f`, `v = iΩd`, `a = −Ω²d` (and `a = iΩv`).  `hden` (the
dynamic stiffness of the row is not zero) holds automatically for real `m, b, Ω`
(`rbDamp_den_ne_zero_real`); for complex `b` it excludes exactly `b = −iΩm`. -/
theorem frfRb_damped_solves (isZero : α → Bool) (hz : ∀ x, isZero x = true ↔ x = 0)
    (i m b f w : α) (hm : m ≠ 0) (hw : w ≠ 0) (hi : i * i = -1)
    (hden : -(w * w) * m + i * w * b ≠ 0) :
    let s := frfRbD isZero i m b f w Incrb.all;
    (-(w * w) * m + i * w * b) * s.d = f ∧ s.v = i * w * s.d ∧ s.a = -(w * w) * s.d ∧
      s.a = i * w * s.v := by
  have hnz : isZero w = false := by
    cases h : isZero w
    · rfl
    · exact absurd ((hz w).1 h) hw
  have hq : 1 - i * (b * (1 / m)) / w ≠ 0 := by
    intro h0
    apply hden
    rw [← rbDamp_den i m b w hm hw, h0, zero_mul]
  have hmw : m * w - i * b ≠ 0 := by
    intro h0
    apply hden
    rw [show -(w * w) * m + i * w * b = -w * (m * w - i * b) by ring, h0, mul_zero]
  have hii : ∀ x : α, i * w * (-i / w * x) = x := by
    intro x
    rw [show i * w * (-i / w * x) = -(i * i) * (w / w) * x by ring, hi, div_self hw]; ring
  by_cases hb : isZero b = true
  · have hb0 : b = 0 := (hz b).1 hb
    subst hb0
    simp only [frfRbD, frfRb, Incrb.all, hnz, hb, Bool.not_false, Bool.and_self, if_true]
    refine ⟨?_, ?_, ?_, ?_⟩
    · field_simp
      ring
    · field_simp
    · field_simp
    · rw [hii]
  · have hb' : isZero b = false := by simpa using hb
    simp only [frfRbD, frfRb, rbDampAcc, Incrb.all, hnz, hb', Bool.not_false, Bool.and_self, if_true,
      Bool.false_eq_true, if_false]
    refine ⟨?_, ?_, ?_, ?_⟩
    · rw [← rbDamp_den i m b w hm hw]
      field_simp
    · field_simp
    · field_simp
    · rw [hii]

/-- **`frfRb_damped_reduces`** — with `b = 0` the damped row is the undamped row
(`frfRb_solves`), also when the division is carried out because *another* rigid-body mode of the
block is damped (`np.any(b_rb)` is a test on the whole block): the divisor is then one. -/
theorem frfRb_damped_reduces (isZero : α → Bool) (hz : ∀ x, isZero x = true ↔ x = 0)
    (i m f w arb : α) (inc : Incrb) :
    frfRbD isZero i m 0 f w inc = frfRb isZero i ((1 / m) * f) w inc ∧
    rbDampAcc isZero i arb (0 * (1 / m)) w = arb := by
  have h0 : isZero (0 : α) = true := (hz 0).2 rfl
  refine ⟨by simp [frfRbD, h0], ?_⟩
  unfold rbDampAcc
  split
  · rfl
  · simp

/-- at `Ω = 0` the damped rigid-body row is what the undamped one is (`frfRb_zero_freq`): `d = v = 0`
for every `incrb`, and `a = f/m` when requested — the documented convention … -/
theorem frfRbD_zero_freq (isZero : α → Bool) (hz : ∀ x, isZero x = true ↔ x = 0)
    (i m b f : α) (hm : m ≠ 0) (inc : Incrb) :
    let s := frfRbD isZero i m b f 0 inc;
    s.d = 0 ∧ s.v = 0 ∧ (inc.a = true → m * s.a = f) := by
  have h0 : isZero (0 : α) = true := (hz 0).2 rfl
  have harb : (if isZero b = true then 1 / m * f else rbDampAcc isZero i (1 / m * f) (b * (1 / m)) 0) =
      1 / m * f := by
    split
    · rfl
    · simp [rbDampAcc, h0]
  simp only [frfRbD, harb]
  exact frfRb_zero_freq isZero hz i m f hm inc

/-- … which is *not* a solution of the dynamic-stiffness equation: at `Ω = 0` the equation of a
rigid-body row reads `0 · d = f` and has no solution for `f ≠ 0` (with or without damping).  The
residual rule of the check therefore excludes rigid-body rows at exactly 0 Hz. -/
theorem frfRb_zero_freq_unsolvable (i m b f : α) (hf : f ≠ 0) :
    ¬ ∃ d : α, (-((0 : α) * 0) * m + i * 0 * b) * d = f := by
  rintro ⟨d, hd⟩
  apply hf
  rw [← hd]; ring

/-- uncoupled `SolveUnc.fsolve` and `FreqDirect.fsolve` return the same row — rigid-body rows
*with any damping* included (`k = 0`, `m ≠ 0`, `Ω ≠ 0`, dynamic stiffness of the row not zero) -/
theorem rowUnc_eq_rowDirect (isZero : α → Bool) (hz : ∀ x, isZero x = true ↔ x = 0)
    (i m b k f w : α) (c : Cls) (inc : Incrb) (dO : Bool)
    (hrb : c = .rb → k = 0 ∧ m ≠ 0 ∧ w ≠ 0 ∧ -(w * w) * m + i * w * b ≠ 0) :
    (rowUnc isZero i c inc dO m b k f w).d = (rowDirect i c inc dO m b k f w).d ∧
    (rowUnc isZero i c inc dO m b k f w).v = (rowDirect i c inc dO m b k f w).v ∧
    (rowUnc isZero i c inc dO m b k f w).a = (rowDirect i c inc dO m b k f w).a := by
  cases c
  · obtain ⟨hk, hm, hw, hden⟩ := hrb rfl
    subst hk
    have hnz : isZero w = false := by
      cases h : isZero w
      · rfl
      · exact absurd ((hz w).1 h) hw
    have hq : 1 - i * (b * (1 / m)) / w ≠ 0 := by
      intro h0
      apply hden
      rw [← rbDamp_den i m b w hm hw, h0, zero_mul]
    have hmw : m * w - i * b ≠ 0 := by
      intro h0
      apply hden
      rw [show -(w * w) * m + i * w * b = -w * (m * w - i * b) by ring, h0, mul_zero]
    have hden' : i * b * w + 0 - m * (w * w) ≠ 0 := by
      intro h0; apply hden; rw [← h0]; ring
    -- the acceleration `_solve_freq_rb` works with is `−Ω²` times FreqDirect's displacement
    have key : (if isZero b = true then 1 / m * f else rbDampAcc isZero i (1 / m * f) (b * (1 / m)) w) =
        -(w * w) * (f / (i * b * w + 0 - m * (w * w))) := by
      by_cases hb : isZero b = true
      · have hb0 : b = 0 := (hz b).1 hb
        subst hb0
        rw [if_pos hb]
        field_simp
        ring
      · rw [if_neg hb]
        simp only [rbDampAcc, hnz, Bool.false_eq_true, if_false]
        rw [div_eq_iff hq]
        have : i * b * w + 0 - m * (w * w) = (1 - i * (b * (1 / m)) / w) * (-(w * w) * m) := by
          rw [rbDamp_den i m b w hm hw]; ring
        rw [this]
        field_simp
    rcases inc with ⟨d, v, a⟩
    cases d <;> cases v <;> cases a <;>
      simp only [rowUnc, rowDirect, frfRbD, key, frfRb, frfDir, applyIncrb, hnz, Bool.not_false, Bool.and_true,
        Bool.and_false, Bool.true_and, Bool.false_and, Bool.false_eq_true, if_true, if_false, true_and, and_true,
        and_self] <;>
      (try refine ⟨?_, ?_⟩) <;> field_simp
  · simp only [rowUnc, rowDirect, frfUnc, frfDir]
    have e : i * (b * w) + k - m * (w * w) = i * b * w + k - m * (w * w) := by ring
    rw [e]
    exact ⟨rfl, by ring, by ring⟩
  · exact ⟨rfl, rfl, rfl⟩

/-! ### coupled systems: complex-mode solution and direct solution -/

/-- a non-singular system has one solution: whatever `la.solve` returns is *the* solution -/
theorem direct_unique {n : Nat} (H : Fin n → Fin n → α) (hH : (of H).det ≠ 0)
    (x y f : Fin n → α) (hx : of H *ᵥ x = f) (hy : of H *ᵥ y = f) : x = y :=
  mulVec_unique (of H) hH x y f hx hy

/-- ☆ `_solve_freq_coup`: from the eigen-decomposition specification of the state matrix
`A = [[−M⁻¹B, −M⁻¹K], [I, 0]]`, written in partitioned form —
`A U = U Λ` is `M Uv Λ + B Uv + K Ud = 0` and `Uv = Ud Λ`; `U U⁻¹ = I` restricted to the first
block column of `U⁻¹` is `Uv Wv = I`, `Ud Wv = 0` — the displacement
`ur_d @ ((ur_inv_v @ M⁻¹f) / (iΩ − λ))` solves `(K − Ω²M + iΩB) d = f`. -/
theorem frfCoupled_solves {n s : Nat} (i w : α) (M B K : Fin n → Fin n → α)
    (lam : Fin s → α) (Uv Ud : Fin n → Fin s → α) (Wv : Fin s → Fin n → α)
    (f g : Fin n → α)
    (hg : of M *ᵥ g = f)
    (htop : of M * (of Uv * diagonal lam) + of B * of Uv + of K * of Ud = 0)
    (hbot : of Uv = of Ud * diagonal lam)
    (h1 : of Uv * of Wv = 1) (h2 : of Ud * of Wv = 0)
    (hH : ∀ j, i * w - lam j ≠ 0) (hi : i * i = -1) :
    of (dynStiff i w M B K) *ᵥ (frfCoupled i w lam Ud Wv g) = f := by
  have := coupled_core i w (of M) (of B) (of K) lam (of Uv) (of Ud) (of Wv) f g hg htop hbot h1 h2 hH hi
  rw [dynStiff_eq]
  unfold frfCoupled
  simp only [mulVec_eq]
  exact this

/-- `SolveUnc`'s complex-mode displacement equals what `FreqDirect`'s `la.solve` returns: both
solve the same non-singular system. -/
theorem direct_eq_modal {n s : Nat} (solve : (Fin n → Fin n → α) → (Fin n → α) → Fin n → α)
    (i w : α) (M B K : Fin n → Fin n → α)
    (lam : Fin s → α) (Uv Ud : Fin n → Fin s → α) (Wv : Fin s → Fin n → α)
    (f g : Fin n → α)
    (hdet : (of (dynStiff i w M B K)).det ≠ 0)
    (hsolve : of (dynStiff i w M B K) *ᵥ (solve (dynStiff i w M B K) f) = f)
    (hg : of M *ᵥ g = f)
    (htop : of M * (of Uv * diagonal lam) + of B * of Uv + of K * of Ud = 0)
    (hbot : of Uv = of Ud * diagonal lam)
    (h1 : of Uv * of Wv = 1) (h2 : of Ud * of Wv = 0)
    (hH : ∀ j, i * w - lam j ≠ 0) (hi : i * i = -1) :
    freqDirect solve i w M B K f = frfCoupled i w lam Ud Wv g :=
  direct_unique _ hdet _ _ f hsolve
    (frfCoupled_solves i w M B K lam Uv Ud Wv f g hg htop hbot h1 h2 hH hi)

end field

/-! ### PSD response and RMS -/

section psd
variable {ρ : Type} [Field ρ] [LinearOrder ρ] [IsStrictOrderedRing ρ]

/-- `solvepsd`: the response PSD at one frequency is `Σᵢ PSDᵢ · |Hᵢ|²` (`h i = |frf_i|²`) … -/
theorem solvePsd_def {p : Nat} (psd h : Fin p → ρ) : respPsd psd h = ∑ i, psd i * h i := by
  unfold respPsd; rw [vsum_eq_sum']

/-- … linear in the force PSDs … -/
theorem solvePsd_linear {p : Nat} (c : ρ) (psd psd' h : Fin p → ρ) :
    respPsd (fun i => c * psd i + psd' i) h = c * respPsd psd h + respPsd psd' h := by
  simp only [solvePsd_def, Finset.mul_sum, ← Finset.sum_add_distrib]
  apply Finset.sum_congr rfl
  intro i _; ring

/-- … and non-negative. -/
theorem solvePsd_nonneg {p : Nat} (psd h : Fin p → ρ) (hp : ∀ i, 0 ≤ psd i) (hh : ∀ i, 0 ≤ h i) :
    0 ≤ respPsd psd h := by
  rw [solvePsd_def]
  exact Finset.sum_nonneg fun i _ => mul_nonneg (hp i) (hh i)

/-- the (doubled) trapezoid area of a non-negative PSD over non-decreasing frequencies is `≥ 0` -/
theorem trapz_nonneg : ∀ (fs ys : List ρ), fs.Pairwise (· ≤ ·) → (∀ y ∈ ys, 0 ≤ y) → 0 ≤ trapz2 fs ys
  | [], _, _, _ => by simp [trapz2]
  | [_], _, _, _ => by simp [trapz2]
  | _ :: _ :: _, [], _, _ => by simp [trapz2]
  | _ :: _ :: _, [_], _, _ => by simp [trapz2]
  | f0 :: f1 :: fs, y0 :: y1 :: ys, hf, hy => by
    simp only [trapz2]
    have h01 : f0 ≤ f1 := (List.pairwise_cons.1 hf).1 f1 (by simp)
    have hy0 : 0 ≤ y0 := hy y0 (by simp)
    have hy1 : 0 ≤ y1 := hy y1 (by simp)
    have ih := trapz_nonneg (f1 :: fs) (y1 :: ys) (List.pairwise_cons.1 hf).2
      (fun y h => hy y (List.mem_cons_of_mem _ h))
    have : 0 ≤ (f1 - f0) * (y0 + y1) := mul_nonneg (by linarith) (by linarith)
    linarith

end psd

/-- `rms = sqrt(Σ Δf (psdₖ + psdₖ₊₁) / 2)`: its square is the trapezoid area. -/
theorem rms_sq (fs ys : List ℝ) (hf : fs.Pairwise (· ≤ ·)) (hy : ∀ y ∈ ys, 0 ≤ y) :
    Real.sqrt (trapz2 fs ys / 2) ^ 2 = trapz2 fs ys / 2 :=
  Real.sq_sqrt (div_nonneg (trapz_nonneg fs ys hf hy) (by norm_num))

/-! ### `_process_incrb` -/

/-- `_process_incrb`: a `ValueError` exactly when a letter outside `dva` occurs; otherwise the
flags are membership of the letters (order and repeats irrelevant). -/
theorem parseIncrb_spec (s : List Char) :
    (parseIncrb s = none ↔ ∃ c ∈ s, c ≠ 'd' ∧ c ≠ 'v' ∧ c ≠ 'a') ∧
    (∀ inc, parseIncrb s = some inc →
      (inc.d = true ↔ 'd' ∈ s) ∧ (inc.v = true ↔ 'v' ∈ s) ∧ (inc.a = true ↔ 'a' ∈ s)) := by
  unfold parseIncrb
  by_cases h : s.all (fun c => c == 'd' || c == 'v' || c == 'a') = true
  · rw [if_pos h]
    refine ⟨⟨fun h' => by simp at h', ?_⟩, ?_⟩
    · rintro ⟨c, hc, h1, h2, h3⟩
      have := List.all_eq_true.1 h c hc
      simp [h1, h2, h3] at this
    · intro inc hinc
      cases hinc
      simp
  · rw [if_neg h]
    refine ⟨⟨fun _ => ?_, fun _ => rfl⟩, fun inc h' => by cases h'⟩
    simp only [List.all_eq_true, not_forall] at h
    obtain ⟨c, hc, hh⟩ := h
    refine ⟨c, hc, ?_⟩
    simp at hh
    exact ⟨hh.1.1, hh.1.2, hh.2⟩

/-! ### index bookkeeping of the rigid-body partition

The formulas above are what the code evaluates *once the right rows are addressed*.  Two
addressing steps were wrong for part of the quantifier ("all rb/rf partitions") until the `fix:`
commits for the families `su-imrb-rf-index-before-rb-mass-given` and
`fsolve-su-rb-index-array-ge2-incrb-dv`.  The model follows the repaired code (`imrbPick`); the
pre-fix behaviour is kept as `imrbPickPrefix` / `rbMaskAssignPrefix` with the theorem that held
only outside the failing family and the counterexample inside it. -/

/-- `_inv_mrb` (repaired) decomposes the rigid-body equations' own mass, for every sorted
rigid-body index vector disjoint from the residual-flexibility set. -/
theorem imrbPick_correct (n : Nat) (rf rb : List Nat) (hs : rb.Pairwise (· < ·))
    (hn : ∀ r ∈ rb, r < n) (hd : ∀ r ∈ rb, r ∉ rf) : imrbPick (nonrfOf n rf) rb = rb := by
  unfold imrbPick nonrfOf
  apply List.Pairwise.eq_of_mem_iff (r := (· < ·)) _ hs
  · intro a
    simp only [List.mem_filter, List.mem_range, List.contains_eq_mem, Bool.not_eq_true',
      decide_eq_false_iff_not, decide_eq_true_eq]
    constructor
    · rintro ⟨_, h⟩; exact h
    · intro h; exact ⟨⟨hn a h, hd a h⟩, h⟩
  · exact (List.pairwise_lt_range.filter _).filter _

/-- before the fix (finding `fsolve-su-rb-index-array-ge2-incrb-dv`): `v[rb, pvnz] = …` stored the
rigid-body block only when the partitions were slices or there was a single rigid-body mode … -/
theorem rbMaskAssignPrefix_partial (slices : Bool) (r k : Nat) (h : slices = true ∨ r = 1) :
    rbMaskAssignPrefix slices r k = none := by
  rcases h with h | h <;> simp [rbMaskAssignPrefix, h]

/-- … and raised otherwise: two rigid-body modes addressed by an index array. -/
theorem rbMaskAssignPrefix_counterexample :
    rbMaskAssignPrefix false 2 3 = some "index-error" ∧
    rbMaskAssignPrefix false 2 2 = some "value-error" ∧
    rbMaskAssignPrefix false 2 1 = some "value-error" := by decide

/-- before the fix (finding `su-imrb-rf-index-before-rb-mass-given`): indexing the non-rf mass
with full-size indices was right only when no rf index preceded an rb index … -/
theorem imrbPickPrefix_partial (n : Nat) (rf rb : List Nat) (hrb : ∀ r ∈ rb, r < n)
    (hord : ∀ r ∈ rb, ∀ q ∈ rf, r < q) : imrbPickPrefix (nonrfOf n rf) rb = some rb := by
  unfold imrbPickPrefix
  induction rb with
  | nil => rfl
  | cons r t ih =>
    have hr : (nonrfOf n rf)[r]? = some r := by
      apply nonrf_getElem n r rf (hrb r (by simp))
      intro j hj hmem
      have := hord r (by simp) j hmem
      omega
    rw [List.mapM_cons, hr, ih (fun x hx => hrb x (List.mem_cons_of_mem _ hx))
      (fun x hx => hord x (List.mem_cons_of_mem _ hx))]
    rfl

/-- … `n = 4`, `rf = [0]`, `rb = [1]`: the pre-fix code took the mass of equation 2, and with
`n = 3`, `rb = [2]` it raised `IndexError`; the repaired addressing returns `rb`. -/
theorem imrbPickPrefix_counterexample :
    imrbPickPrefix (nonrfOf 4 [0]) [1] = some [2] ∧ imrbPickPrefix (nonrfOf 3 [0]) [2] = none ∧
    imrbPick (nonrfOf 4 [0]) [1] = [1] ∧ imrbPick (nonrfOf 3 [0]) [2] = [2] := by decide

/-- for real `m ≠ 0`, `b`, `Ω ≠ 0` the hypothesis `hden` of `frfRb_damped_solves` /
`rowUnc_eq_rowDirect` always holds: the real part of the row's dynamic stiffness is `−Ω² m` -/
theorem rbDamp_den_ne_zero_real (m b w : ℝ) (hm : m ≠ 0) (hw : w ≠ 0) :
    -((w : ℂ) * w) * m + Complex.I * w * b ≠ 0 := by
  intro h
  have h1 := congrArg Complex.re h
  simp at h1
  rcases h1 with h1 | h1
  · exact hw h1
  · exact hm h1

/-! ### the hypotheses are inhabited -/

example : (Complex.I * ((0:ℂ) * 1) + 2 - 1 * (1 * 1) ≠ 0) := by norm_num

/-- a damped rigid-body row `2 q̈ + 0.8 q̇ = f` at `Ω = 3`: the hypotheses of `frfRb_damped_solves` -/
example : (2 : ℂ) ≠ 0 ∧ (3 : ℂ) ≠ 0 ∧ Complex.I * Complex.I = -1 ∧
    -((3 : ℂ) * 3) * 2 + Complex.I * 3 * (4 / 5) ≠ 0 := by
  refine ⟨by norm_num, by norm_num, Complex.I_mul_I, ?_⟩
  have := rbDamp_den_ne_zero_real 2 (4 / 5) 3 (by norm_num) (by norm_num)
  simpa using this

example : ∀ x : ℂ, (decide (x = 0)) = true ↔ x = 0 := fun x => by simp

-- 1-DOF oscillator m = 1, b = 0, k = 1: eigenvalues ±i
example : ∃ (lam : Fin 2 → ℂ) (Uv Ud : Fin 1 → Fin 2 → ℂ) (Wv : Fin 2 → Fin 1 → ℂ),
    (of (fun _ _ => (1:ℂ)) : Matrix (Fin 1) (Fin 1) ℂ) * (of Uv * diagonal lam) + of (fun _ _ => (0:ℂ)) * of Uv
        + of (fun _ _ => (1:ℂ)) * of Ud = 0 ∧
    of Uv = of Ud * diagonal lam ∧ of Uv * of Wv = 1 ∧ of Ud * of Wv = 0 ∧
    (∀ j, Complex.I * 2 - lam j ≠ 0) ∧ Complex.I * Complex.I = -1 := by
  refine ⟨![Complex.I, -Complex.I], fun _ => ![Complex.I, -Complex.I], fun _ => ![1, 1],
    fun j _ => ![-Complex.I / 2, Complex.I / 2] j, ?_, ?_, ?_, ?_, ?_, Complex.I_mul_I⟩
  · ext a b; fin_cases b <;> simp [Matrix.mul_apply, Fin.sum_univ_two, diagonal]
  · ext a b; fin_cases b <;> simp [Matrix.mul_apply, Fin.sum_univ_two, diagonal]
  · ext a b; fin_cases a; fin_cases b; simp [Matrix.mul_apply, Fin.sum_univ_two]; ring_nf; simp
  · ext a b; fin_cases a; fin_cases b; simp [Matrix.mul_apply, Fin.sum_univ_two]; ring
  · intro j; fin_cases j
    · simp; intro h; have := congrArg Complex.im h; simp at this; norm_num at this
    · simp; intro h; have := congrArg Complex.im h; simp at this; norm_num at this

example : [(1:ℝ), 2, 4].Pairwise (· ≤ ·) ∧ ∀ y ∈ [(0:ℝ), 3, 1], 0 ≤ y := by
  constructor
  · simp [List.pairwise_cons]; norm_num
  · intro y hy; simp at hy; rcases hy with h | h | h <;> rw [h] <;> norm_num

end PyYetiVerif.C02
