import PyYetiVerif.Model.BulkFmt
import PyYetiVerif.Lemmas.BulkDmigText
import PyYetiVerif.Lemmas.BulkGrid
/-!
# C13 — the writers' format strings and layout constants, as extracted from the source

Property theorems only.  `Generated/BulkFormats.lean` is regenerated on every run by
harness/translate/c13_bulkformats.py (Python `ast`, no execution) from `wtdmig`, `wtnasints`, `wtcsuper`,
`wtextrn`, `_wt_with_thru`, `wtset`, `wtgrids`, `wttabled1`, `wtcoordcards` and from `rdcards` / `_rdfixed` /
`_rdcomma`.  Two kinds of obligations are re-proved on what the source says now:

* `bulk_format_widths_ok` (by `decide`): the side conditions the layout arithmetic rests on — every field 8 or
  16 columns wide, 8 (4) fields after the name fill the 72 columns, continuation markers, items per line, the
  reader's slicing constants equal the writer's field widths;
* `…_is_template`: the text the writer MODELS produce (`Dmig.lines`, `gridCard`, `cordCard`, `fmtInts`,
  `csuperLines`, `setTokens`, `tabled1Lines`) is, for every input, the rendering of the extracted templates
  (`renderTpl`: Python's `str.format` for integer / string specs, real fields opaque) — so a changed width,
  alignment, literal or field order in the source breaks exactly these theorems.
-/
namespace PyYetiVerif.C13
open PyYetiVerif.Bulk PyYetiVerif.Generated.BulkFormats

/-- the layout side conditions, decidable, over the generated tables -/
def FormatsOKa : Prop :=
  -- DMIG: header = nine 8-column fields = 72 columns; column card 8 + 3·16; row line 8 + 2·16 + value(s)
  dmigHeader.map (lineWidth 0) = [72] ∧ dmigHeader.map fieldCount = [9] ∧
  dmigColCard.map (lineWidth 0) = [56] ∧ dmigRowLine.map (lineWidth 0) = [40] ∧
  -- the value field: `{:16.9E}`, with the fallback `{:16.8E}` when the text is longer than the 16-column field
  dmigField = [[.fld ' ' 16 9 'E']] ∧ dmigFieldFallback = [[.fld ' ' 16 8 'E']] ∧ dmigFieldWidth = 16 ∧
  dmigSymForm = 6 ∧ dmigFormSymW = dmigSymForm ∧ dmigFormSingle = 9 ∧ dmigFormRect = 2 ∧ dmigFormSquare = 1 ∧
  -- wtnasints: 8-column integers, 8 per continuation line behind an 8-column lead: 72 columns
  nasintsField = [[.fld ' ' 8 0 'd']] ∧ nasintsLead = [[.fld ' ' 8 0 's']] ∧
  nasintsFirst = 10 ∧ 8 + nasintsPerLine * 8 = 72 ∧
  -- the callers: start field = 1 + fields already on the line (the name counts as one)
  csuperPrefix.map (lineWidth 0) = [8 * (csuperStart - 1)] ∧ extrnPrefix.map (lineWidth 0) = [8 * (extrnStart - 1)] ∧
  -- _wt_with_thru: a card is flushed at name + 8 fields
  thruFlush = 9 ∧ setMaxLength = 72

/-- … second half: GRID, TABLED1, CORD2x templates and the reader's constants -/
def FormatsOKb : Prop :=
  -- GRID: 16-wide two lines (72, 40 / 72), 8-wide one line (56 / 72)
  gridWideShort.map (lineWidth 16) = [72, 40] ∧ gridWideLong.map (lineWidth 16) = [72, 72] ∧
  gridSmallShort.map (lineWidth 8) = [56] ∧ gridSmallLong.map (lineWidth 8) = [72] ∧
  gridDefaultForm = "{:16.8f}" ∧
  -- TABLED1: `form` is a pair; 2 pairs of 32 / 4 pairs of 16 behind an 8-column lead
  tabWideLine.map (lineWidth 32) = [72] ∧ tabSmallLine.map (lineWidth 16) = [72] ∧
  tabWideLine.map fieldCount = [tabWidePerLine] ∧ tabSmallLine.map fieldCount = [tabSmallPerLine] ∧
  tabWideLead.map (lineWidth 0) = [8] ∧ tabSmallLead.map (lineWidth 0) = [8] ∧ tabEnd = [[.lit "ENDT"]] ∧
  tabDefaultForm = "{:16.9E}{:16.9E}" ∧
  -- the default case (fix 328435d): tested for by its own text, both columns through wtdmig's 16-character field helper
  -- (`dmigField` / `dmigFieldFallback` above: `Bulk.dmigFld`), the strings handed on as they are
  tabDefaultTest = tabDefaultForm ∧ tabPreHelper = "_dmig_field" ∧ tabPreForm = "{:s}{:s}" ∧
  -- CORD2x: three 16-wide lines, the continuation mark in column 73
  cordLine1.map (lineWidth 0) = [73] ∧ cordLine2.map (lineWidth 0) = [73] ∧ cordLine3.map (lineWidth 0) = [56] ∧
  -- the reader: 72 columns, name 8, fields 8 / 16 with 8 / 4 per line, comma: name + 8 tokens
  rdLineLen = 72 ∧ rdNameLen = 8 ∧ rdNameLen + rdSmallInc * rdSmallField = rdLineLen ∧
  rdNameLen + rdWideInc * rdWideField = rdLineLen ∧ rdCommaTokens = 1 + rdCommaInc ∧
  -- … and the constants of the reader model are these
  Mode.f8.inc = rdSmallInc ∧ Mode.f16.inc = rdWideInc ∧ Mode.comma.inc = rdCommaInc ∧
  Mode.f8.conchar = conSmall.toList ∧ Mode.f16.conchar = conWide.toList ∧ Mode.comma.conchar = conComma.toList

instance : Decidable FormatsOKa := by unfold FormatsOKa; infer_instance
instance : Decidable FormatsOKb := by unfold FormatsOKb; infer_instance

def FormatsOK : Prop := FormatsOKa ∧ FormatsOKb
instance : Decidable FormatsOK := by unfold FormatsOK; infer_instance

/-- the side conditions hold for the tables extracted from the source as it is now -/
theorem bulk_format_widths_ok : FormatsOK := by decide

/-- `wtdmig`: header card, `DMIG*` column card and `*` row line of the writer model are the renderings of
the three extracted f-strings (`num_str` = the value field(s), opaque) -/
theorem dmig_lines_are_templates (d : Dmig) :
    (∃ hdr, renderTpl dmigHeader [.s (txt "DMIG"), .s d.name, .i 0, .i d.form, .i d.mtype, .i 0, .i 0, .s [], .i d.ncol] =
        some [hdr] ∧ d.lines = hdr :: d.cards.flatMap d.cardLines) ∧
    (∀ c, ∃ cl, renderTpl dmigColCard [.s (txt "DMIG*"), .s d.name, .i c.1.1, .i c.1.2] = some [cl] ∧
      d.cardLines c = cl :: c.2.map fun e =>
        padR 8 ['*'] ++ padL 16 (dec e.1.1) ++ padL 16 (dec e.1.2) ++
          (fmtE9 e.2.1 d.ec ++ if d.mtype < 3 then [] else fmtE9 e.2.2 d.ec)) ∧
    (∀ (gi ci : Int) (num : Txt),
      renderTpl dmigRowLine [.s ['*'], .i gi, .i ci, .s num] = some [padR 8 ['*'] ++ padL 16 (dec gi) ++ padL 16 (dec ci) ++ num]) := by
  refine ⟨⟨_, ?_, d.lines_eq⟩, ?_, ?_⟩
  · simp [renderTpl, renderLine, fmtPiece, dmigHeader, padR, blanks, txt]
  · intro c
    refine ⟨padR 8 (txt "DMIG*") ++ padR 16 d.name ++ padL 16 (dec c.1.1) ++ padL 16 (dec c.1.2), ?_, ?_⟩
    · simp [renderTpl, renderLine, fmtPiece, dmigColCard, txt, padR]
    · simp [Dmig.cardLines, List.append_assoc]
  · intro gi ci num
    simp [renderTpl, renderLine, fmtPiece, dmigRowLine, padR, blanks]

/-- `wtgrids`: a written GRID card is the rendering of the extracted template of its variant (8 / 16 wide,
short / with PS and SEID), the coordinates being three `form` tokens -/
theorem grid_card_is_template (wide short : Bool) (r : GRow) :
    renderTpl (if wide then (if short then gridWideShort else gridWideLong) else (if short then gridSmallShort else gridSmallLong))
      ([.i r.id, .i r.cp, .tok r.x, .tok r.y, .tok r.z, .i r.cd] ++
        (if short then [] else [match r.ps with | some n => .i n | none => .s [], match r.seid with | some n => .i n | none => .s []])) =
      some (gridCard wide (r.fields (if wide then 16 else 8) short)) := by
  cases wide <;> cases short <;> cases hps : r.ps <;> cases hse : r.seid <;>
    simp [renderTpl, renderLine, fmtPiece, gridWideShort, gridWideLong, gridSmallShort, gridSmallLong, gridCard, GRow.fields,
      fmtI, fmtO, hps, hse, padL, blanks, txt]

/-- `wtcoordcards`: the three lines of a CORD2x card are the renderings of the extracted templates -/
theorem cord_card_is_template (c : CordIn) (a1 a2 a3 b1 b2 b3 c1 c2 c3 : Txt)
    (h : c.abc = [a1, a2, a3, b1, b2, b3, c1, c2, c3]) :
    renderTpl (cordLine1 ++ cordLine2 ++ cordLine3)
      [.s (c.name ++ ['*']), .i c.cid, .i c.ref, .tok a1, .tok a2, .s ['*'], .tok a3, .tok b1, .tok b2, .tok b3,
       .s ['*'], .tok c1, .tok c2, .tok c3] = some (cordCard c) := by
  simp [renderTpl, renderLine, fmtPiece, cordLine1, cordLine2, cordLine3, cordCard, h]

/-- `wtnasints` / `wtcsuper` / `wtextrn`: the integer field, the continuation lead and the two prefixes -/
theorem nasints_is_template (superid : Int) (l : List Int) :
    (∀ n : Int, renderTpl nasintsField [.i n] = some [padL 8 (dec n)]) ∧
    renderTpl nasintsLead [.s []] = some [blanks 8] ∧
    renderTpl csuperPrefix [.i superid, .i 0] = some [txt "CSUPER  " ++ padL 8 (dec superid) ++ padL 8 (dec 0)] ∧
    renderTpl extrnPrefix [] = some [txt "EXTRN   "] ∧
    fmtInts l = (l.map fun n => padL 8 (dec n)).flatten := by
  refine ⟨fun n => ?_, ?_, ?_, ?_, rfl⟩
  · simp [renderTpl, renderLine, fmtPiece, nasintsField]
  · simp [renderTpl, renderLine, fmtPiece, nasintsLead, padR]
  · simp [renderTpl, renderLine, fmtPiece, csuperPrefix, txt]
  · simp [renderTpl, renderLine, extrnPrefix, txt]

/-- `wtset`: the head token and the item tokens (all but the last end in `", "`; the last one is
`rstrip(", ")`-ed, which for these tokens removes exactly that suffix) -/
theorem set_tokens_are_templates (setid a b : Int) :
    renderTpl setHeadTok [.i setid] = some [Bulk.txt "SET " ++ dec setid ++ Bulk.txt " = "] ∧
    renderTpl setOneTok [.i a] = some [(Item.one a).txt ++ Bulk.txt ", "] ∧
    renderTpl setThruTok [.i a, .i b] = some [(Item.thru a b).txt ++ Bulk.txt ", "] := by
  refine ⟨?_, ?_, ?_⟩ <;>
    simp [renderTpl, renderLine, fmtPiece, setHeadTok, setOneTok, setThruTok, Item.txt, padL, blanks, Bulk.txt]

/-- `wttabled1`: header line(s), line leads and the closing word -/
theorem tabled1_is_template (name : Txt) (tid : Int) (pairs : List (Txt × Txt)) :
    renderTpl tabWideHead [.s (name ++ ['*']), .i tid] = some ((tabled1Lines true name tid pairs).take 2) ∧
    renderTpl tabSmallHead [.s name, .i tid] = some ((tabled1Lines false name tid pairs).take 1) ∧
    renderTpl tabWideLead [] = some [txt "*       "] ∧ renderTpl tabSmallLead [] = some [blanks 8] ∧
    renderTpl tabEnd [] = some [txt "ENDT"] := by
  refine ⟨?_, ?_, ?_, ?_, ?_⟩ <;>
    simp [renderTpl, renderLine, fmtPiece, tabWideHead, tabSmallHead, tabWideLead, tabSmallLead, tabEnd, tabled1Lines, txt, blanks]

/-! ### non-vacuity -/

example : renderTpl gridSmallShort [.i 100, .i 0, .tok (txt "    0.10"), .tok (txt "    0.20"), .tok (txt "    0.30"), .i 10] =
    some [txt "GRID         100       0    0.10    0.20    0.30      10"] := by decide
example : renderTpl dmigHeader [.s (txt "DMIG"), .s (txt "K"), .i 0, .i 6, .i 2, .i 0, .i 0, .s [], .i 3] =
    some [txt "DMIG    K              0       6       2       0       0               3"] := by decide
/-- an argument of the wrong kind is refused (no silent totalisation) -/
example : renderTpl nasintsField [.s (txt "x")] = none := by decide

end PyYetiVerif.C13
