import PyYetiVerif.Generated.PadeTables
import PyYetiVerif.Lemmas.ExpSeriesTrunc
/-!
# C07 — truncation error of the Padé approximants inside their thresholds, scalar (real) case

For the exponential tables regenerated from `pyyeti/expmint.py` (`p = V + U`, `q = V − U`) and every
real `x` with `|x| ≤ θ_m` (the larger of the decimal threshold and the double the interpreter
compares with; `θ_13 = 4.25`): `q(x) > 0` and

    |p(x)/q(x) − e^x| ≤ ε_m · e^x,   ε_3 ≤ 2^-53/64, ε_5 ≤ 0.3·2^-53, ε_7 ≤ 1.6·2^-53, ε_9 ≤ 6·2^-53, ε_13 ≤ 2^-53/15.

This is a statement about the rational function in exact arithmetic (no round-off), for a scalar — hence
for a symmetric (real-diagonalisable normal) matrix in the 2-norm, eigenvalue by eigenvalue.  The true
relative error at `x = θ_m` is about `θ_m·2^-53` (the thresholds bound the *backward* error by `2^-53`);
the bound proved here loses at most the factor `e^{θ_m/2}` (it uses `p(x) ≥ p(0)`).  The general matrix
statement (non-normal `A`, 1-norm: Higham's backward-error analysis with `‖q_m(A)⁻¹‖`) is not proved:
`pade_truncation_matrix_partial` records exactly what is covered.
-/
namespace PyYetiVerif.C07
open PyYetiVerif.ExpSeries PyYetiVerif.Generated.PadeTables

/-- the threshold the branch of order `m` can reach: the larger of the decimal text and its double -/
def thetaUp (i : ℕ) : ℚ := max ((expmint_thresholds.map (·.2)).getD i 0) (expmint_thresholds_double.getD i 0)

/-- **Padé truncation error, real scalar case, inside the regenerated thresholds** (see the header) -/
theorem pade_truncation_scalar_bound (x : ℝ) :
    (|x| ≤ thetaUp 0 → 0 < evalR (expDen int3_U int3_V) x ∧
      |evalR (expNum int3_U int3_V) x / evalR (expDen int3_U int3_V) x - Real.exp x|
        ≤ ((1 / 64 / 2 ^ 53 : ℚ) : ℝ) * Real.exp x) ∧
    (|x| ≤ thetaUp 1 → 0 < evalR (expDen int5_U int5_V) x ∧
      |evalR (expNum int5_U int5_V) x / evalR (expDen int5_U int5_V) x - Real.exp x|
        ≤ ((3 / 10 / 2 ^ 53 : ℚ) : ℝ) * Real.exp x) ∧
    (|x| ≤ thetaUp 2 → 0 < evalR (expDen int7_U int7_V) x ∧
      |evalR (expNum int7_U int7_V) x / evalR (expDen int7_U int7_V) x - Real.exp x|
        ≤ ((8 / 5 / 2 ^ 53 : ℚ) : ℝ) * Real.exp x) ∧
    (|x| ≤ thetaUp 3 → 0 < evalR (expDen int9_U int9_V) x ∧
      |evalR (expNum int9_U int9_V) x / evalR (expDen int9_U int9_V) x - Real.exp x|
        ≤ ((6 / 2 ^ 53 : ℚ) : ℝ) * Real.exp x) ∧
    (|x| ≤ expmint_theta13 → 0 < evalR (expDen int13_U int13_V) x ∧
      |evalR (expNum int13_U int13_V) x / evalR (expDen int13_U int13_V) x - Real.exp x|
        ≤ ((1 / 15 / 2 ^ 53 : ℚ) : ℝ) * Real.exp x) := by
  refine ⟨?_, ?_, ?_, ?_, ?_⟩
  · exact trunc_of_tableOK _ _ 3 27 (thetaUp 0) _ (by decide +kernel) x
  · exact trunc_of_tableOK _ _ 5 31 (thetaUp 1) _ (by decide +kernel) x
  · exact trunc_of_tableOK _ _ 7 35 (thetaUp 2) _ (by decide +kernel) x
  · exact trunc_of_tableOK _ _ 9 39 (thetaUp 3) _ (by decide +kernel) x
  · exact trunc_of_tableOK _ _ 13 47 expmint_theta13 _ (by decide +kernel) x

/-- the scalar bound transfers to the scaled-and-squared result: if `r = e^{x}(1 + δ)` with
`|δ| ≤ ε` at the base step then after `s` squarings `r^(2^s) = e^{2^s x}(1 + δ)^(2^s)`: the relative
error grows at most like `(1 + ε)^(2^s) − 1` (exact arithmetic) -/
theorem squaring_error_growth (r e δ : ℝ) (s : ℕ) (h : r = e * (1 + δ)) :
    r ^ (2 ^ s) = e ^ (2 ^ s) * (1 + δ) ^ (2 ^ s) := by
  rw [h, mul_pow]

/-- what is **not** proved about truncation (kept visible): for a general square matrix `A` with
`eta(A h) ≤ θ_m` the approximant satisfies `‖r_m(Ah) − e^{Ah}‖ ≤ ε‖e^{Ah}‖` — Higham's analysis needs
`‖q_m(A)⁻¹‖` and the backward-error series in `‖A^k‖^{1/k}`.  Proved instead: the statement for `1×1`
matrices, i.e. (eigenvalue by eigenvalue) for real symmetric `A` in the 2-norm; this theorem only
restates `pade_truncation_scalar_bound` for order 13 in that reading (`λ` an eigenvalue, `|λ h|/2^s ≤ 4.25`). -/
theorem pade_truncation_matrix_partial (lam h : ℝ) (s : ℕ) (hs : |lam * h / 2 ^ s| ≤ expmint_theta13) :
    let x := lam * h / 2 ^ s
    |evalR (expNum int13_U int13_V) x / evalR (expDen int13_U int13_V) x - Real.exp x|
      ≤ ((1 / 15 / 2 ^ 53 : ℚ) : ℝ) * Real.exp x :=
  ((pade_truncation_scalar_bound _).2.2.2.2 hs).2

/-- non-vacuity: the thresholds are the positive numbers of the source and the bound is about a
genuine approximant (`r_13(1) = p(1)/q(1)` is within `1e-30` of a 40-term partial sum of `e`) -/
example : (0 : ℚ) < thetaUp 0 ∧ thetaUp 3 < expmint_theta13 ∧
    (let v := polyEval (expNum int13_U int13_V) 1 / polyEval (expDen int13_U int13_V) 1
     let e := polyEval (expList 40) 1
     (v - e) * (v - e) ≤ (1 / 10 ^ 30) ^ 2) := by
  decide +kernel

end PyYetiVerif.C07
