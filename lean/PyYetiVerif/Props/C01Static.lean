import PyYetiVerif.Lemmas.SuCoef
/-!
# C01 — initial conditions and residual-flexibility rows

Property theorems about `initD`, `initV`, `useStatic`, `rfRow` of `Model/SuCoef.lean`
(`_init_dv`, `_init_dva` of `_base_ode_class.py`, uncoupled branch; the same definitions run at
`Float` in `Drivers/C01.lean`).
-/
namespace PyYetiVerif.C01
open PyYetiVerif.SuCoef

/-- residual-flexibility rows are the static solution at every sample: `k d = f` (and `v`, `a` are
never written: they stay zero) -/
theorem rf_static_rows (k f : ℝ) (hk : k ≠ 0) : k * rfRow k f = f := by
  simp only [rfRow]
  field_simp

/-- with `static_ic=True` and no `d0`: on every elastic row the first sample satisfies
`k d₀ = F₀` — whether the static branch runs (`F0[el].any()`) or not (then `F₀ = 0 = d₀` on all
elastic rows) — the velocity starts at `v0` (zero if not given), so with `v0 = None` the
acceleration `calcAcce` of the first sample is zero: static equilibrium.  Rigid-body rows start at
zero. -/
theorem static_ic_ok (m b k f0 : ℝ) (f0el : List ℝ) (hk : k ≠ 0) (hmem : f0 ∈ f0el) :
    k * initD none (useStatic true false f0el) true k f0 = f0 ∧
    initV (none : Option ℝ) = 0 ∧
    calcAcce m b k (initD none (useStatic true false f0el) true k f0) (initV none) f0 = 0 ∧
    initD none (useStatic true false f0el) false k f0 = 0 := by
  have h1 : k * initD none (useStatic true false f0el) true k f0 = f0 := by
    by_cases ha : (f0el.any fun x => !(x == 0)) = true
    · simp only [initD, useStatic, ha, Bool.not_false, Bool.and_self, if_true]
      field_simp
    · have h0 : f0 = 0 := by
        by_contra hne
        apply ha
        rw [List.any_eq_true]
        exact ⟨f0, hmem, by simpa using hne⟩
      simp [initD, useStatic, ha, h0]
  refine ⟨h1, rfl, ?_, ?_⟩
  · simp only [calcAcce, initV]
    have : f0 - b * 0 - k * initD none (useStatic true false f0el) true k f0 = 0 := by rw [h1]; ring
    rw [this]; ring
  · simp [initD]

/-- `static_ic` is ignored when `d0` is given, and explicit initial conditions are used as they
are (`d[nonrf, 0] = d0[nonrf]`, `v[nonrf, 0] = v0[nonrf]`) -/
theorem explicit_ic (d v k f0 : ℝ) (static isEl : Bool) (f0el : List ℝ) :
    initD (some d) (useStatic static true f0el) isEl k f0 = d ∧ initV (some v) = v ∧
    useStatic static true f0el = false := by
  simp [initD, initV, useStatic]

/-- without `static_ic` and without `d0`, `v0` the solution starts from rest -/
theorem zero_ic (k f0 : ℝ) (isEl : Bool) (f0el : List ℝ) :
    initD none (useStatic false false f0el) isEl k f0 = 0 := by
  simp [initD, useStatic]

/-! ### non-vacuity -/

example : (4 : ℝ) * initD none (useStatic true false ([0, 2] : List ℝ)) true 4 2 = 2 :=
  (static_ic_ok 1 0 4 2 [0, 2] (by norm_num) (by simp)).1

example : useStatic true false ([0, 2] : List ℝ) = true := by
  simp [useStatic]

example : useStatic true false ([0, 0] : List ℝ) = false := by
  simp [useStatic]

end PyYetiVerif.C01
