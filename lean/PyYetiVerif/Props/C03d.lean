import PyYetiVerif.Lemmas.SrsFrfTop
/-!
# C03, fourth part — `srs_frf` as a routine

Property theorems only (model: `Model/SrsFrf.lean`; helper lemmas: `Lemmas/SrsFrf.lean`,
`SrsFrfPeak.lean`, `SrsFrfTop.lean`).  Everything is over `ℝ`.

* `srs_frf_grid_*`: the analysis grid is the sorted union of `frf_frq` and `p_peak · srs_frq` with every
  entry removed that exceeds its predecessor by no more than `1e-5`;
* `srs_frf_interp_*`: scipy's linear `interp1d` with `fill_value=0` — linear on every segment, the
  tabulated value at every FRF line, zero outside the FRF band;
* `srs_frf_is_max_over_merged_grid`: every spectrum value is the maximum over the grid of
  `|FRF|(Ω) · |H(Ω/ωn)|`; `srs_frf_entries`: which oscillator / column each entry belongs to;
* `srs_frf_abs_invariant`: `srs_frf(frf) = srs_frf(|frf|)` (the magnitude is taken first);
* `srs_frf_scale_by_Q`, `srs_frf_scale_by_Q_default_is_Q_times_abs`;
* `srs_frf_return_defaults`, `srs_frf_default_frq_puts_peak_on_frf_lines`, `srs_frf_resp_shapes`;
* `srs_frf_p_peak_maximises_H`: the docstring's `p_peak` is where `|H(p)|` is largest.
-/
namespace PyYetiVerif.C03
open PyYetiVerif.Srs

/-! ## the analysis grid `ffreq` -/

/-- `np.sort` returns the sorted rearrangement -/
theorem srs_frf_sort_spec (l : List ℝ) : (sortList l).Perm l ∧ (sortList l).Pairwise (· ≤ ·) :=
  ⟨sortList_perm' l, sortList_sorted' l⟩

/-- the grid is what `pv[0] = True; pv[1:] = np.diff(ffreq) > 1e-5` keeps of the sorted union of
`frf_frq` and `p_peak · srs_frq` -/
theorem srs_frf_grid_spec (Q : ℝ) (frq sf : List ℝ) :
    frfGrid Q frq sf =
      match sortList (frq ++ sf.map (pPeak Q * ·)) with
      | [] => []
      | x :: xs => x :: ((xs.zip (x :: xs)).filter
          (fun q => decide ((1 : ℝ) / 100000 < q.1 - q.2))).map Prod.fst := by
  unfold frfGrid
  rw [frfTol_real]
  cases sortList (frq ++ sf.map (pPeak Q * ·)) with
  | nil => rfl
  | cons x xs => simp only [dedupNear, dedupAux_spec]

/-- consequences: the grid is a sub-sequence of the sorted union, any two of its entries are more
than `1e-5` apart, and it consists of FRF lines and peak frequencies only -/
theorem srs_frf_grid_gap (Q : ℝ) (frq sf : List ℝ) :
    (frfGrid Q frq sf).Sublist (sortList (frq ++ sf.map (pPeak Q * ·))) ∧
    (frfGrid Q frq sf).Pairwise (fun a b => (1 : ℝ) / 100000 < b - a) ∧
    ∀ a ∈ frfGrid Q frq sf, a ∈ frq ∨ ∃ fn ∈ sf, a = pPeak Q * fn := by
  have hsub : (frfGrid Q frq sf).Sublist (sortList (frq ++ sf.map (pPeak Q * ·))) :=
    dedupNear_sublist _ _
  refine ⟨hsub, ?_, ?_⟩
  · have := dedupNear_gap ((1 : ℝ) / 100000) _ (sortList_sorted' (frq ++ sf.map (pPeak Q * ·)))
    unfold frfGrid
    rw [frfTol_real]
    exact this
  · intro a ha
    have h1 := (sortList_perm' _).mem_iff.mp (hsub.subset ha)
    rcases List.mem_append.mp h1 with h | h
    · exact Or.inl h
    · obtain ⟨fn, hfn, rfl⟩ := List.mem_map.mp h
      exact Or.inr ⟨fn, hfn, rfl⟩

/-- the lowest frequency of the union is always on the grid -/
theorem srs_frf_grid_head (Q : ℝ) (frq sf : List ℝ) :
    (frfGrid Q frq sf).head? = (sortList (frq ++ sf.map (pPeak Q * ·))).head? := by
  unfold frfGrid
  cases sortList (frq ++ sf.map (pPeak Q * ·)) <;> rfl

/-! ## interpolation of `|FRF|` to the grid -/

/-- linear on every segment of a strictly increasing FRF frequency vector -/
theorem srs_frf_interp_segment (pre post : List (ℝ × ℝ)) (xa ya xb yb x : ℝ)
    (hs : ((pre ++ (xa, ya) :: (xb, yb) :: post).map Prod.fst).Pairwise (· < ·))
    (ha : xa < x) (hb : x ≤ xb) :
    interpLin (pre ++ (xa, ya) :: (xb, yb) :: post) x = (yb - ya) / (xb - xa) * (x - xa) + ya :=
  interpLin_seg pre post xa ya xb yb x hs ha hb

/-- the tabulated value at every FRF line -/
theorem srs_frf_interp_node (pts : List (ℝ × ℝ)) (hlen : 2 ≤ pts.length)
    (hs : (pts.map Prod.fst).Pairwise (· < ·)) (p : ℝ × ℝ) (hp : p ∈ pts) :
    interpLin pts p.1 = p.2 := interpLin_node pts hlen hs p hp

/-- zero (`fill_value=0`) below the first and above the last FRF line -/
theorem srs_frf_interp_zero_outside (x0 y0 : ℝ) (rest : List (ℝ × ℝ)) (x : ℝ)
    (h : x < x0 ∨ lastX x0 rest < x) : interpLin ((x0, y0) :: rest) x = 0 := by
  rcases h with h | h
  · exact interpLin_below x0 y0 rest x h
  · exact interpLin_above x0 y0 rest x h

/-! ## the spectrum value -/

/-- one oscillator `fn` (elastic branch: `(2π fn)² ≥ 0.005`), one FRF column with magnitudes
`amps` on the grid: the value `abs(a).max()` is the largest of the products
`|FRF|(Ω_k) · |H(Ω_k / ωn)|`, `H(p) = (1 + j p/Q) / (1 - p² + j p/Q)`. -/
theorem srs_frf_is_max_over_merged_grid (Q fn : ℝ) (hQ : Q ≠ 0)
    (hk : (5 : ℝ) / 1000 ≤ (2 * Real.pi * fn) * (2 * Real.pi * fn))
    (grid amps : List ℝ) (v : ℝ) (h : srsFrfOne Q fn grid amps = some v) :
    v ∈ List.zipWith
        (fun f a => |a| * Real.sqrt (Complex.normSq (Hc (1 / 2 / Q) (f / fn)))) grid amps ∧
    ∀ u ∈ List.zipWith
        (fun f a => |a| * Real.sqrt (Complex.normSq (Hc (1 / 2 / Q) (f / fn)))) grid amps, u ≤ v := by
  have hk' : (frfRigidThreshold : ℝ) ≤ (2 * TransOps.pi * fn) * (2 * TransOps.pi * fn) := by
    rw [frfThreshold_real]; exact hk
  have hfn : fn ≠ 0 := by
    rintro rfl
    norm_num at hk
  have hpi : (2 * Real.pi : ℝ) ≠ 0 := by positivity
  have hvals : (frfRespCol Q fn grid amps).map cabs
      = List.zipWith (fun f a => |a| * Real.sqrt (Complex.normSq (Hc (1 / 2 / Q) (f / fn))))
          grid amps := by
    unfold frfRespCol
    rw [List.map_zipWith]
    congr 1
    funext f a
    rw [cabs_frfRespC Q _ _ a hQ hk']
    simp only [pi_real]
    rw [mul_div_mul_left _ _ hpi]
  unfold srsFrfOne at h
  rw [hvals] at h
  revert h
  cases List.zipWith (fun f a => |a| * Real.sqrt (Complex.normSq (Hc (1 / 2 / Q) (f / fn))))
      grid amps with
  | nil => intro h; cases h
  | cons v0 vs =>
    intro h
    simp only [Option.some.injEq] at h
    subst h
    exact maxOf_is_max v0 vs

/-- rigid-body branch (`(2π fn)² < 0.005`): the response `-frf + frf` is zero at every grid point -/
theorem srs_frf_rigid_body_is_zero (Q fn : ℝ)
    (hk : (2 * Real.pi * fn) * (2 * Real.pi * fn) < (5 : ℝ) / 1000)
    (g0 a0 : ℝ) (grid amps : List ℝ) :
    srsFrfOne Q fn (g0 :: grid) (a0 :: amps) = some 0 := by
  have hk' : (2 * TransOps.pi * fn) * (2 * TransOps.pi * fn) < (frfRigidThreshold : ℝ) := by
    rw [frfThreshold_real]; exact hk
  have hz : ∀ f a : ℝ, cabs (frfRespC Q (2 * TransOps.pi * fn) (2 * TransOps.pi * f) a) = 0 := by
    intro f a
    rw [frfRespC_rigid Q _ _ a hk', cabs_real]
    simp
  have hall : ∀ (g as : List ℝ), ∀ v ∈ (frfRespCol Q fn g as).map cabs, v = 0 := by
    intro g as v hv
    unfold frfRespCol at hv
    rw [List.map_zipWith] at hv
    obtain ⟨i, hi, rfl⟩ := List.mem_iff_getElem.mp hv
    simp only [List.getElem_zipWith]
    exact hz _ _
  unfold srsFrfOne
  have e : (frfRespCol Q fn (g0 :: grid) (a0 :: amps)).map cabs
      = cabs (frfRespC Q (2 * TransOps.pi * fn) (2 * TransOps.pi * g0) a0)
          :: (frfRespCol Q fn grid amps).map cabs := by
    simp [frfRespCol]
  rw [e, hz]
  simp only [Option.some.injEq]
  apply le_antisymm
  · exact maxOf_le _ 0 0 le_rfl (fun v hv => (hall grid amps v hv).le)
  · exact le_maxOf _ 0

/-- the whole routine (not `scale_by_Q_only`): `sh[i][j]` is `srsFrfOne` of oscillator `srs_frq[i]` and
of FRF column `j` interpolated to the merged grid; `srs_frq` and `resp` are returned as stated -/
theorem srs_frf_entries (cols : List (List (ℝ × ℝ))) (frq : List ℝ) (srs : Option (List ℝ)) (Q : ℝ)
    (g : Bool) (ret : Option Bool) (out : FrfOut ℝ)
    (h : srsFrf cols frq srs Q g ret false = some out) :
    ((frfSrsFrq Q frq srs false).map fun fn =>
        (cols.map fun c => frfAmps frq (absCol c) (frfGrid Q frq (frfSrsFrq Q frq srs false))).map
          fun a => srsFrfOne Q fn (frfGrid Q frq (frfSrsFrq Q frq srs false)) a)
      = out.sh.map (·.map some) := by
  obtain ⟨_, _, hsh, _, _⟩ := srsFrf_full cols frq srs Q g ret out h
  exact srsFrfSh_eq_some _ _ _ _ _ hsh

/-- end to end (at least two FRF lines, given `srs_frq`, elastic oscillator `i`, FRF column `j`):
`sh[i][j]` is the largest value over the merged grid `ffreq` of
`|FRF_j|(Ω) · |H(Ω / srs_frq[i])|`, `|FRF_j|` being the linear interpolant of the magnitudes of
column `j` (zero outside the FRF band) -/
theorem srs_frf_value_spec (cols : List (List (ℝ × ℝ))) (frq sf : List ℝ) (Q : ℝ) (hQ : Q ≠ 0)
    (g : Bool) (ret : Option Bool) (out : FrfOut ℝ) (h2 : 2 ≤ frq.length)
    (h : srsFrf cols frq (some sf) Q g ret false = some out)
    (i j : ℕ) (hi : i < sf.length) (hj : j < cols.length)
    (hk : (5 : ℝ) / 1000 ≤ (2 * Real.pi * sf[i]) * (2 * Real.pi * sf[i])) :
    ∃ row v, out.sh[i]? = some row ∧ row[j]? = some v ∧
      v ∈ (frfGrid Q frq sf).map (fun W => |interpLin (frq.zip (absCol cols[j])) W|
            * Real.sqrt (Complex.normSq (Hc (1 / 2 / Q) (W / sf[i])))) ∧
      ∀ u ∈ (frfGrid Q frq sf).map (fun W => |interpLin (frq.zip (absCol cols[j])) W|
            * Real.sqrt (Complex.normSq (Hc (1 / 2 / Q) (W / sf[i])))), u ≤ v := by
  have hent := srs_frf_entries cols frq (some sf) Q g ret out h
  simp only [frfSrsFrq] at hent
  have h1 := congrArg (·[i]?) hent
  simp only [List.getElem?_map, List.getElem?_eq_getElem hi, Option.map_some] at h1
  cases hrow : out.sh[i]? with
  | none => rw [hrow] at h1; simp at h1
  | some row =>
    rw [hrow] at h1
    simp only [Option.map_some, Option.some.injEq] at h1
    have h3 := congrArg (·[j]?) h1
    simp only [List.getElem?_map, List.getElem?_eq_getElem hj, Option.map_some] at h3
    cases hv : row[j]? with
    | none => rw [hv] at h3; simp at h3
    | some v =>
      rw [hv] at h3
      simp only [Option.map_some, Option.some.injEq] at h3
      rw [frfAmps_of_two frq _ _ h2] at h3
      obtain ⟨hm, hmax⟩ := srs_frf_is_max_over_merged_grid Q sf[i] hQ hk _ _ v h3
      have e : List.zipWith
          (fun f a => |a| * Real.sqrt (Complex.normSq (Hc (1 / 2 / Q) (f / sf[i]))))
          (frfGrid Q frq sf) ((frfGrid Q frq sf).map (interpLin (frq.zip (absCol cols[j]))))
          = (frfGrid Q frq sf).map (fun W => |interpLin (frq.zip (absCol cols[j])) W|
              * Real.sqrt (Complex.normSq (Hc (1 / 2 / Q) (W / sf[i])))) := by
        rw [List.zipWith_map_right, List.zipWith_self]
      rw [e] at hm hmax
      exact ⟨row, v, rfl, hv, hm, hmax⟩

/-- `srs_frf(frf) = srs_frf(|frf|)`: replacing every FRF value by its magnitude changes nothing,
whatever the options -/
theorem srs_frf_abs_invariant (cols : List (List (ℝ × ℝ))) (frq : List ℝ) (srs : Option (List ℝ))
    (Q : ℝ) (g : Bool) (ret : Option Bool) (qOnly : Bool) :
    srsFrf (cols.map fun c => c.map fun z => (cabs z, (0 : ℝ))) frq srs Q g ret qOnly
      = srsFrf cols frq srs Q g ret qOnly := by
  have habs : ∀ c : List (ℝ × ℝ), absCol (c.map fun z => (cabs z, (0 : ℝ))) = absCol c := by
    intro c
    unfold absCol
    rw [List.map_map]
    apply List.map_congr_left
    intro z _
    exact cabs_cabs z
  have hany : (List.map (fun c => List.map (fun z => (cabs z, (0 : ℝ))) c) cols).any
        (fun c => c.length != frq.length) = cols.any (fun c => c.length != frq.length) := by
    rw [List.any_map]
    congr 1
    funext c
    simp
  unfold srsFrf
  simp only [hany, List.map_map, Function.comp_def, habs]

/-- interpolating the signed values instead (taking the magnitude afterwards) is a different
function: FRF `+1, -1` at 0 and 2 Hz gives `0` at 1 Hz, the magnitudes give `1` -/
example : |interpLin [((0 : ℝ), (1 : ℝ)), (2, -1)] 1| = 0
    ∧ interpLin [((0 : ℝ), |(1 : ℝ)|), (2, |(-1 : ℝ)|)] 1 = 1 := by
  norm_num [interpLin, interpSeg, lastX]

/-! ## `scale_by_Q_only` -/

/-- `scale_by_Q_only=True` (at least two FRF lines): `sh[i][j] = Q · |FRF_j|` interpolated to
`srs_frq[i]`; nothing else is returned but (optionally) `srs_frq` -/
theorem srs_frf_scale_by_Q (cols : List (List (ℝ × ℝ))) (frq : List ℝ) (srs : Option (List ℝ))
    (Q : ℝ) (ret : Option Bool) (out : FrfOut ℝ) (h2 : 2 ≤ frq.length)
    (h : srsFrf cols frq srs Q false ret true = some out) :
    out.sh = (rowsOfCols (frfSrsFrq Q frq srs true).length
        (cols.map fun c => (frfSrsFrq Q frq srs true).map (interpLin (frq.zip (absCol c))))).map
          (fun row => row.map (· * Q)) ∧ out.resp = none := by
  obtain ⟨_, _, hsh, _, hr⟩ := srsFrf_qonly cols frq srs Q ret out h
  refine ⟨?_, hr⟩
  rw [hsh]
  congr 2
  apply List.map_congr_left
  intro c _
  exact frfAmps_of_two frq (absCol c) _ h2

/-- … and with the default `srs_frq = frf_frq` (strictly increasing) the result is exactly
`Q · |frf|`, row by row (docstring: "compute SRS as exactly `Q * FRF`") -/
theorem srs_frf_scale_by_Q_default_is_Q_times_abs (cols : List (List (ℝ × ℝ))) (frq : List ℝ)
    (Q : ℝ) (ret : Option Bool) (out : FrfOut ℝ) (h2 : 2 ≤ frq.length)
    (hs : frq.Pairwise (· < ·)) (h : srsFrf cols frq none Q false ret true = some out) :
    out.sh = (rowsOfCols frq.length (cols.map absCol)).map (fun row => row.map (· * Q)) := by
  obtain ⟨_, hlen, _, _, _⟩ := srsFrf_qonly cols frq none Q ret out h
  rw [(srs_frf_scale_by_Q cols frq none Q ret out h2 h).1]
  simp only [frfSrsFrq, if_true]
  congr 2
  apply List.map_congr_left
  intro c hc
  exact map_interpLin_self frq (absCol c) (by simp [absCol, hlen c hc]) h2 hs

/-! ## defaults, returned values, shapes -/

/-- `return_srs_frq=None` means "return `srs_frq` iff it was not given"; an explicit value wins -/
theorem srs_frf_return_defaults (given b : Bool) :
    frfReturnsFrq given none = !given ∧ frfReturnsFrq given (some b) = b := ⟨rfl, rfl⟩

/-- `srs_frq=None`: `frf_frq / p_peak` (so that `p_peak · srs_frq`, the frequency at which each
oscillator's transmissibility peaks, falls on the FRF lines), or `frf_frq` with `scale_by_Q_only` -/
theorem srs_frf_default_frq_puts_peak_on_frf_lines (Q : ℝ) (hQ : 0 < Q) (frq : List ℝ) :
    frfSrsFrq Q frq none true = frq ∧
    (frfSrsFrq Q frq none false).map (pPeak Q * ·) = frq := by
  refine ⟨rfl, ?_⟩
  have hp : pPeak Q ≠ 0 := (pPeak_pos Q hQ).ne'
  simp only [frfSrsFrq, Bool.false_eq_true, if_false, List.map_map]
  conv_rhs => rw [← List.map_id frq]
  apply List.map_congr_left
  intro a _
  simp only [Function.comp, id]
  field_simp

/-- what is returned besides `sh` (not `scale_by_Q_only`): `srs_frq` iff requested; with
`getresp` the dictionary `freq` = merged grid, `frfs` of shape `(len(freq), nfrf, len(srs_frq))`,
`srs_frq` -/
theorem srs_frf_resp_shapes (cols : List (List (ℝ × ℝ))) (frq : List ℝ) (srs : Option (List ℝ))
    (Q : ℝ) (g : Bool) (ret : Option Bool) (out : FrfOut ℝ)
    (h : srsFrf cols frq srs Q g ret false = some out) :
    (out.srsFrq.isSome = frfReturnsFrq srs.isSome ret) ∧
    (out.resp.isSome = g) ∧
    out.sh.length = (frfSrsFrq Q frq srs false).length ∧
    (∀ row ∈ out.sh, row.length = cols.length) ∧
    ∀ r, out.resp = some r →
      r.freq = frfGrid Q frq (frfSrsFrq Q frq srs false) ∧
      r.srsFrq = frfSrsFrq Q frq srs false ∧
      r.frfs.length = r.freq.length ∧
      ∀ plane ∈ r.frfs, plane.length = cols.length ∧
        ∀ line ∈ plane, line.length = r.srsFrq.length := by
  obtain ⟨_, hlen, hsh, hf, hr⟩ := srsFrf_full cols frq srs Q g ret out h
  have hsh' := srsFrfSh_eq_some _ _ _ _ _ hsh
  refine ⟨?_, ?_, ?_, ?_, ?_⟩
  · rw [hf]; split_ifs with hc <;> simp [hc]
  · rw [hr]; cases g <;> simp
  · have := congrArg List.length hsh'
    simpa using this.symm
  · intro row hrow
    have hmem : row.map some ∈ out.sh.map (·.map some) := List.mem_map_of_mem hrow
    rw [← hsh'] at hmem
    obtain ⟨fn, _, hfn⟩ := List.mem_map.mp hmem
    have := congrArg List.length hfn
    simpa using this.symm
  · intro r hrr
    rw [hr] at hrr
    cases g with
    | false => simp at hrr
    | true =>
      simp only [if_true, Option.some.injEq] at hrr
      subst hrr
      have hamps : ∀ a ∈ cols.map (fun c => frfAmps frq (absCol c)
          (frfGrid Q frq (frfSrsFrq Q frq srs false))),
          a.length = (frfGrid Q frq (frfSrsFrq Q frq srs false)).length := by
        intro a ha
        obtain ⟨c, _, rfl⟩ := List.mem_map.mp ha
        exact frfAmps_length _ _ _
      refine ⟨rfl, rfl, ?_, ?_⟩
      · simp [srsFrfFrfs, rowsOfCols_length]
      · intro plane hp
        simp only [srsFrfFrfs] at hp
        obtain ⟨k, hk, rfl⟩ := List.mem_iff_getElem.mp hp
        simp only [List.getElem_zipWith]
        have hrow := rowsOfCols_row_length _ _ hamps
          ((rowsOfCols (frfGrid Q frq (frfSrsFrq Q frq srs false)).length
            (cols.map fun c => frfAmps frq (absCol c)
              (frfGrid Q frq (frfSrsFrq Q frq srs false))))[k]'(by
                simp only [List.length_zipWith] at hk; omega))
          (List.getElem_mem _)
        refine ⟨by simpa using hrow, ?_⟩
        intro line hl
        obtain ⟨a, _, rfl⟩ := List.mem_map.mp hl
        simp

/-- `getresp` and `scale_by_Q_only` together are refused -/
theorem srs_frf_getresp_with_scale_by_Q_raises (cols : List (List (ℝ × ℝ))) (frq : List ℝ)
    (srs : Option (List ℝ)) (Q : ℝ) (ret : Option Bool) :
    srsFrf cols frq srs Q true ret true = none := srsFrf_raises cols frq srs Q ret

/-! ## `p_peak` -/

/-- the docstring's `p_peak = Q sqrt(sqrt(1 + 2/Q²) - 1)` maximises the transmissibility:
`|H(p)| ≤ |H(p_peak)|` for every frequency ratio `p` -/
theorem srs_frf_p_peak_maximises_H (Q : ℝ) (hQ : 0 < Q) (p : ℝ) :
    Complex.normSq (Hc (1 / 2 / Q) p) ≤ Complex.normSq (Hc (1 / 2 / Q) (pPeak Q)) := by
  have := vrsGain_le_peak Q hQ 1 p
  rwa [vrsGain_eq_normSq', vrsGain_eq_normSq', div_one, div_one] at this

/-- hence no spectrum value exceeds the largest input magnitude times `|H(p_peak)|` -/
theorem srs_frf_le_flat_bound (Q fn : ℝ) (hQ : 0 < Q)
    (hk : (5 : ℝ) / 1000 ≤ (2 * Real.pi * fn) * (2 * Real.pi * fn))
    (grid amps : List ℝ) (B v : ℝ) (hB : ∀ a ∈ amps, |a| ≤ B)
    (h : srsFrfOne Q fn grid amps = some v) :
    v ≤ B * Real.sqrt (Complex.normSq (Hc (1 / 2 / Q) (pPeak Q))) := by
  obtain ⟨hv, _⟩ := srs_frf_is_max_over_merged_grid Q fn hQ.ne' hk grid amps v h
  obtain ⟨i, hi, rfl⟩ := List.mem_iff_getElem.mp hv
  simp only [List.getElem_zipWith]
  simp only [List.length_zipWith] at hi
  have ha : |amps[i]'(by omega)| ≤ B := hB _ (List.getElem_mem _)
  have hH := Real.sqrt_le_sqrt (srs_frf_p_peak_maximises_H Q hQ (grid[i]'(by omega) / fn))
  exact mul_le_mul ha hH (Real.sqrt_nonneg _) (le_trans (abs_nonneg _) ha)

/-- `srs_frf` and `vrs` use the same transmissibility: the squared modulus of the `srs_frf` response
to a unit FRF line is the gain `vrs` multiplies the PSD with -/
theorem srs_frf_vrs_consistent (Q fn f : ℝ) (hQ : Q ≠ 0)
    (hk : (5 : ℝ) / 1000 ≤ (2 * Real.pi * fn) * (2 * Real.pi * fn)) :
    cabs (frfRespC Q (2 * Real.pi * fn) (2 * Real.pi * f) 1)
        * cabs (frfRespC Q (2 * Real.pi * fn) (2 * Real.pi * f) 1)
      = vrsGain (1 / 2 / Q) fn f := by
  have hk' : (frfRigidThreshold : ℝ) ≤ (2 * Real.pi * fn) * (2 * Real.pi * fn) := by
    rw [frfThreshold_real]; exact hk
  have hfn : fn ≠ 0 := by
    rintro rfl
    norm_num at hk
  have hpi : (2 * Real.pi : ℝ) ≠ 0 := by positivity
  rw [cabs_frfRespC Q _ _ 1 hQ hk', abs_one, one_mul, Real.mul_self_sqrt (Complex.normSq_nonneg _),
    mul_div_mul_left _ _ hpi, ← vrsGain_eq_normSq']

/-! ## non-vacuity -/
example : sortList [(3 : ℝ), 1, 2] = [1, 2, 3] := by
  norm_num [sortList, insertSorted]
example : dedupNear ((1 : ℝ) / 100000) [0, 1 / 100000, 3 / 100000, 1] = [0, 3 / 100000, 1] := by
  norm_num [dedupNear, dedupAux]
example : interpLin [((1 : ℝ), (2 : ℝ)), (3, 6)] 2 = 4 ∧ interpLin [((1 : ℝ), (2 : ℝ)), (3, 6)] 4 = 0
    ∧ interpLin [((1 : ℝ), (2 : ℝ)), (3, 6)] 3 = 6 := by
  norm_num [interpLin, interpSeg, lastX]
example : placeSingle [(1 : ℝ), 2, 3] 2 7 = [0, 7, 0] ∧ placeSingle [(1 : ℝ), 2, 3] 5 7 = [0, 0, 7] := by
  norm_num [placeSingle, List.takeWhile, List.range, List.range.loop]
example : ∃ fn : ℝ, (5 : ℝ) / 1000 ≤ (2 * Real.pi * fn) * (2 * Real.pi * fn) := by
  refine ⟨1, ?_⟩
  have := Real.two_le_pi
  nlinarith
example : srsFrf [[((3 : ℝ), (4 : ℝ)), (0, 1)]] [1, 2] none 10 false none true
    = some ⟨[[50], [10]], some [1, 2], none⟩ := by
  have h1 : Real.sqrt (3 * 3 + 4 * 4) = 5 := by
    rw [show (3 : ℝ) * 3 + 4 * 4 = 5 * 5 by norm_num]; exact Real.sqrt_mul_self (by norm_num)
  have h2 : Real.sqrt (0 * 0 + 1 * 1) = 1 := by norm_num
  simp [srsFrf, frfSrsFrq, frfReturnsFrq, frfAmps, absCol, cabs, rowsOfCols, interpLin, interpSeg,
    lastX, h1, List.range, List.range.loop]
  norm_num

end PyYetiVerif.C03
