import PyYetiVerif.Props.C17
import PyYetiVerif.Lemmas.NewmarkConv
import PyYetiVerif.Lemmas.NewmarkEnergyVec
/-!
# C17 (continued) — stability of the Newmark-beta recurrence by the energy method; massless rows

Property theorems only.

* `newmark_energy_identity` — one application of the scalar recurrence `A u₂ = g + A1 u₁ + A0 u₀` changes the
  discrete energy `E(x, y) = m ((x−y)/h)² + (k/3)(x² + x y + y²)` by exactly
  `−(b/2h)(u₂ − u₀)² + g (u₂ − u₀)`: conserved for `b = 0`, dissipated for `b > 0`.
* `newmark_power_bounded_scalar` — homogeneous recurrence, `m, b, k ≥ 0`, ANY `h > 0`: `E_n ≤ E_0` for all `n`
  (the companion matrix has norm `≤ 1` in the energy norm, so all its powers do), hence
  `(k/4) u_{n+1}² ≤ E_0` and `m ((u_{n+1} − u_n)/h)² ≤ E_0`: explicit bounds for all `n`, all `h`.
* `newmark_energy_stable` — forced recurrence, `m > 0`: `√E_n ≤ √E_0 + (h/√m) Σ_{j<n} |g_j|` (no exponential
  factor; this is the stability half of `newmark_converges_scalar`).
* `newmark_free_response_bounded` — the same for the model's own sequence with zero force columns.
* `newmark_stable_full` — FULL matrices: `V` any real inner product space, `M`, `K` symmetric positive
  semidefinite, `B` with `⟪B x, x⟫ ≥ 0` (no symmetry, no commutation, no proportional damping needed): the
  matrix energy is non-increasing along the homogeneous recurrence and `⟪K u_n, u_n⟫/4 ≤ E_0` for all `n`,
  any `h > 0`.
* `newmark_stable_modal` — when a simultaneously diagonalising pair `(Φ, Ψ)` is given
  (`M Φ = Ψ diag(m)`, `B Φ = Ψ diag(b)`, `K Φ = Ψ diag(k)`, `Ψ` injective — what commuting `M⁻¹K`, `M⁻¹B`
  provide) every modal coordinate follows the SCALAR recurrence, whose roots lie in the open unit disc
  (`newmark_stable_scalar`).  The spectral theorem that produces `(Φ, Ψ)` from commutation is not proved
  here; `newmark_stable_full` does not need it.
* `massless_rows_quasistatic` — a row with `m = 0`, `b = 0`, `k ≠ 0` (massless, undamped) is solved
  quasi-statically: `d_j = F_j / k` for every `j ≥ 1` (this is what the replaced `F₀` and `F₋₁` are for), and
  the extra step gives `k De = 2 F_{nt-1} − k d_{nt-2}`; `rf_rows_static`: `k · rfStatic k f = f`.
-/
namespace PyYetiVerif.C17
open PyYetiVerif.Newmark InnerProductSpace

/-! ## scalar energy -/

theorem newmark_energy_identity (m b k h g u2 u1 u0 : ℝ) (hh : h ≠ 0)
    (hrec : coefA m b k h * u2 = g + coefA1 m k h * u1 + coefA0 m b k h * u0) :
    energy m k h u2 u1 - energy m k h u1 u0 = -(b / (2 * h)) * (u2 - u0) ^ 2 + g * (u2 - u0) :=
  energy_identity m b k h g u2 u1 u0 hh hrec

/-- homogeneous recurrence: the energy never increases, for any step size, massless included -/
theorem newmark_power_bounded_scalar (m b k h : ℝ) (hm : 0 ≤ m) (hb : 0 ≤ b) (hk : 0 ≤ k) (hh : 0 < h)
    (u : ℕ → ℝ)
    (hrec : ∀ n, coefA m b k h * u (n + 2) = coefA1 m k h * u (n + 1) + coefA0 m b k h * u n) (n : ℕ) :
    energy m k h (u (n + 1)) (u n) ≤ energy m k h (u 1) (u 0) ∧
    k / 4 * u (n + 1) ^ 2 ≤ energy m k h (u 1) (u 0) ∧
    m * ((u (n + 1) - u n) / h) ^ 2 ≤ energy m k h (u 1) (u 0) := by
  have mono : ∀ n, energy m k h (u (n + 1)) (u n) ≤ energy m k h (u 1) (u 0) := by
    intro n
    induction n with
    | zero => exact le_refl _
    | succ n ih =>
      have hid := energy_identity m b k h 0 (u (n + 2)) (u (n + 1)) (u n) hh.ne'
        (by rw [zero_add]; exact hrec n)
      have : 0 ≤ b / (2 * h) * (u (n + 2) - u n) ^ 2 := by positivity
      linarith
  exact ⟨mono n, le_trans (stiffness_le_energy h _ _ hm hk) (mono n),
    le_trans (kinetic_le_energy h _ _ hk) (mono n)⟩

open Finset in
/-- forced recurrence: `√E` grows at most by `h |g| / √m` per step -/
theorem newmark_energy_stable (m b k h : ℝ) (hm : 0 < m) (hb : 0 ≤ b) (hk : 0 ≤ k) (hh : 0 < h)
    (u g : ℕ → ℝ)
    (hrec : ∀ n, coefA m b k h * u (n + 2) = g n + coefA1 m k h * u (n + 1) + coefA0 m b k h * u n)
    (n : ℕ) :
    √(energy m k h (u (n + 1)) (u n))
      ≤ √(energy m k h (u 1) (u 0)) + h / √m * ∑ j ∈ range n, |g j| := by
  have hμ : 0 < √m := Real.sqrt_pos.mpr hm
  have hE0 := energy_nonneg h (u 1) (u 0) hm.le hk
  have := energy_sum_le m b k h (√m) (√(energy m k h (u 1) (u 0))) u g hμ (Real.sq_sqrt hm.le).symm
    hb hk hh (Real.sqrt_nonneg _) hrec (Real.sq_sqrt hE0).ge n
  have hs : 0 ≤ ∑ j ∈ range n, |g j| := sum_nonneg fun _ _ => abs_nonneg _
  rw [Real.sqrt_le_iff]
  exact ⟨by positivity, this⟩

/-- the model's own free response (`F = 0` in every column): from the second pair on the energy of the
history `Newmark.run` returns never increases, whatever `h` -/
theorem newmark_free_response_bounded (m b k h d0 v0 : ℝ) (hm : 0 ≤ m) (hb : 0 ≤ b) (hk : 0 ≤ k)
    (hh : 0 < h) (hA : coefA m b k h ≠ 0) (n : ℕ) :
    energy m k h (dseq (scalarSys m b k h) (fun _ => 0) d0 v0 0 (n + 2))
        (dseq (scalarSys m b k h) (fun _ => 0) d0 v0 0 (n + 1))
      ≤ energy m k h (dseq (scalarSys m b k h) (fun _ => 0) d0 v0 0 2)
        (dseq (scalarSys m b k h) (fun _ => 0) d0 v0 0 1) := by
  have := (newmark_power_bounded_scalar m b k h hm hb hk hh
    (fun i => dseq (scalarSys m b k h) (fun _ => 0) d0 v0 0 (i + 1)) (fun i => by
      have := dseq_scalar_rec m b k h (fun _ => 0) d0 v0 hA (i + 1)
      simp only [effForce, Nat.add_eq_zero_iff, one_ne_zero, and_false, if_false, add_zero,
        zero_div, zero_add] at this
      exact this) n).1
  exact this

/-! ## full matrices -/

/-- Unconditional stability for full symmetric positive semidefinite `M`, `K` and any `B` with
`⟪B x, x⟫ ≥ 0`: along the homogeneous recurrence `A u_{n+2} = A1 u_{n+1} + A0 u_n` the matrix energy never
increases and bounds the `K`-norm of every iterate, for every `h > 0`. -/
theorem newmark_stable_full {V : Type*} [NormedAddCommGroup V] [InnerProductSpace ℝ V]
    (M B K : V →ₗ[ℝ] V) (h : ℝ) (hh : 0 < h)
    (hM : ∀ x y, ⟪M x, y⟫_ℝ = ⟪x, M y⟫_ℝ) (hK : ∀ x y, ⟪K x, y⟫_ℝ = ⟪x, K y⟫_ℝ)
    (hMp : ∀ x, 0 ≤ ⟪M x, x⟫_ℝ) (hBp : ∀ x, 0 ≤ ⟪B x, x⟫_ℝ) (hKp : ∀ x, 0 ≤ ⟪K x, x⟫_ℝ)
    (u : ℕ → V)
    (hrec : ∀ n, fullA M B K h (u (n + 2)) = fullA1 M K h (u (n + 1)) + fullA0 M B K h (u n)) (n : ℕ) :
    energyV M K h (u (n + 1)) (u n) ≤ energyV M K h (u 1) (u 0) ∧
    ⟪K (u (n + 1)), u (n + 1)⟫_ℝ / 4 ≤ energyV M K h (u 1) (u 0) ∧
    0 ≤ energyV M K h (u (n + 1)) (u n) := by
  have mono : ∀ n, energyV M K h (u (n + 1)) (u n) ≤ energyV M K h (u 1) (u 0) := by
    intro n
    induction n with
    | zero => exact le_refl _
    | succ n ih =>
      have hid := energyV_identity M B K h 0 (u (n + 2)) (u (n + 1)) (u n) hM hK
        (by rw [zero_add]; exact hrec n)
      have h1 : 0 ≤ (2 * h)⁻¹ * ⟪B (u (n + 2) - u n), u (n + 2) - u n⟫_ℝ :=
        mul_nonneg (by positivity) (hBp _)
      rw [inner_zero_left, add_zero] at hid
      linarith
  exact ⟨mono n, le_trans (stiffnessV_le_energy M K h _ _ hK hMp hKp) (mono n),
    energyV_nonneg M K h _ _ hK hMp hKp⟩

/-- Reduction of a simultaneously diagonalisable (modal / proportionally damped) system to the scalar
scheme: each modal coordinate obeys the scalar recurrence, and that recurrence is strictly stable. -/
theorem newmark_stable_modal {ι : Type*} {V : Type*} [NormedAddCommGroup V] [InnerProductSpace ℝ V]
    (M B K : V →ₗ[ℝ] V) (Φ Ψ : (ι → ℝ) →ₗ[ℝ] V) (hΨ : Function.Injective Ψ) (mm bb kk : ι → ℝ)
    (hMΦ : ∀ q, M (Φ q) = Ψ (fun i => mm i * q i)) (hBΦ : ∀ q, B (Φ q) = Ψ (fun i => bb i * q i))
    (hKΦ : ∀ q, K (Φ q) = Ψ (fun i => kk i * q i)) (h : ℝ) (q : ℕ → ι → ℝ)
    (hrec : ∀ n, fullA M B K h (Φ (q (n + 2)))
      = fullA1 M K h (Φ (q (n + 1))) + fullA0 M B K h (Φ (q n))) :
    (∀ n i, coefA (mm i) (bb i) (kk i) h * q (n + 2) i
        = coefA1 (mm i) (kk i) h * q (n + 1) i + coefA0 (mm i) (bb i) (kk i) h * q n i) ∧
    (∀ i, 0 ≤ mm i → 0 < bb i → 0 < kk i → 0 < h → ∀ z : ℂ,
        ((coefA (mm i) (bb i) (kk i) h : ℝ) : ℂ) * z ^ 2 - ((coefA1 (mm i) (kk i) h : ℝ) : ℂ) * z
          - ((coefA0 (mm i) (bb i) (kk i) h : ℝ) : ℂ) = 0 → ‖z‖ < 1) := by
  refine ⟨fun n i => ?_, fun i hm hb hk hh z hz => newmark_stable_scalar _ _ _ h hm hb hk hh z hz⟩
  have e := hrec n
  simp only [fullA, fullA1, fullA0, LinearMap.add_apply, LinearMap.sub_apply, LinearMap.smul_apply,
    hMΦ, hBΦ, hKΦ, ← map_smul, ← map_add, ← map_sub] at e
  have := congrFun (hΨ e) i
  simp only [Pi.add_apply, Pi.sub_apply, Pi.smul_apply, smul_eq_mul] at this
  simp only [coefA, coefA1, coefA0, div_eq_mul_inv]
  linear_combination this

/-! ## massless and residual-flexibility rows -/
section massless
variable {α : Type} [Field α] [CharZero α]

/-- A massless, undamped row (`m = 0`, `b = 0`, `k ≠ 0`) of a diagonal system is solved quasi-statically by
the recurrence as implemented: `d_j = F_j / k` for every `j ≥ 1`, for every force history, initial
condition and step (the start value `d_0 = d0` is kept as given). -/
theorem massless_rows_quasistatic (k h : α) (hk : k ≠ 0) (Fn : ℕ → α) (d0 v0 : α) (n : ℕ) :
    ∃ hist, run (scalarSys 0 0 k h) (fun _ _ => 0) ((List.range (n + 2)).map Fn) d0 v0 = some hist ∧
      hist.d.length = n + 2 ∧ hist.d[0]? = some d0 ∧
      (∀ j, 1 ≤ j → j < n + 2 → hist.d[j]? = some (Fn j / k)) ∧
      k * hist.de = 2 * Fn (n + 1) - k * dseq (scalarSys 0 0 k h) Fn d0 v0 0 n := by
  have hA : coefA (0 : α) 0 k h = k / 3 := by simp [coefA]
  have hA1 : coefA1 (0 : α) k h = -(k / 3) := by simp [coefA1]
  have hA0 : coefA0 (0 : α) 0 k h = -(k / 3) := by simp [coefA0]
  have h3 : (3 : α) ≠ 0 := by norm_num
  have hAne : coefA (0 : α) 0 k h ≠ 0 := by rw [hA]; exact div_ne_zero hk h3
  have dz : dseq (scalarSys (0 : α) 0 k h) Fn d0 v0 0 0 = d0 := rfl
  have key : ∀ i, dseq (scalarSys (0 : α) 0 k h) Fn d0 v0 0 (i + 1) = Fn (i + 1) / k ∧
      dseq (scalarSys (0 : α) 0 k h) Fn d0 v0 0 (i + 2) = Fn (i + 2) / k := by
    intro i
    induction i with
    | zero =>
      have e1 := dseq_scalar_one (0 : α) 0 k h Fn d0 v0 hAne
      rw [hA, hA1, hA0] at e1
      have d1 : dseq (scalarSys (0 : α) 0 k h) Fn d0 v0 0 1 = Fn 1 / k := by
        field_simp; linear_combination 3 * e1
      have e2 := dseq_scalar_rec (0 : α) 0 k h Fn d0 v0 hAne 0
      rw [hA, hA1, hA0] at e2
      simp only [effForce, if_true, zero_add] at e2
      refine ⟨d1, ?_⟩
      rw [d1, dz] at e2
      field_simp
      field_simp at e2
      linear_combination e2
    | succ i ih =>
      refine ⟨ih.2, ?_⟩
      have e2 := dseq_scalar_rec (0 : α) 0 k h Fn d0 v0 hAne (i + 1)
      rw [hA, hA1, hA0] at e2
      simp only [effForce, Nat.add_eq_zero_iff, one_ne_zero, and_false, if_false] at e2
      obtain ⟨i1, i2⟩ := ih
      rw [i1, i2] at e2
      field_simp
      field_simp at e2
      linear_combination e2
  obtain ⟨hist, hrun, hdd, hde⟩ := run_eq_dseq (scalarSys (0 : α) 0 k h) Fn d0 v0 0 n
  refine ⟨hist, hrun, by rw [hdd]; simp, ?_, ?_, ?_⟩
  · rw [hdd]; simp [dseq]
  · intro j h1 hj
    rw [hdd]
    obtain ⟨i, rfl⟩ : ∃ i, j = i + 1 := ⟨j - 1, by omega⟩
    simp only [List.getElem?_map, List.getElem?_range hj, Option.map_some]
    rw [(key i).1]
  · rw [hde]
    simp only [lastStep, stateAt, gseq, Nat.add_eq_zero_iff, one_ne_zero, and_false, if_false]
    rw [(key n).1]
    generalize dseq (scalarSys (0 : α) 0 k h) Fn d0 v0 0 n = dn
    simp only [scalarSys, scaled, VecOps.smul, VecOps.sdiv, hA, hA1, hA0]
    field_simp
    ring

omit [CharZero α] in
/-- residual-flexibility rows: `d = ikrf · F` with `ikrf = 1/krf` is the static solution `krf d = F` -/
theorem rf_rows_static (krf f : α) (hk : krf ≠ 0) : krf * rfStatic krf f = f := by
  simp only [rfStatic]; field_simp

end massless

/-! ## non-vacuity -/

/-- the hypotheses of `newmark_power_bounded_scalar` / `newmark_energy_stable` are satisfied by the constant
zero history of any system, and by a genuinely oscillating one: `m = 1, b = 0, k = 3, h = 1` has
`A = 2, A1 = 1, A0 = −2`, so `u = 0, 2, 1, …` starts a solution (`2 · 1 = 1 · 2 + (−2) · 0`). -/
example : coefA (1 : ℝ) 0 3 1 * 1 = coefA1 (1 : ℝ) 3 1 * 2 + coefA0 (1 : ℝ) 0 3 1 * 0 := by
  simp only [coefA, coefA1, coefA0]; norm_num

/-- `newmark_stable_full` / `newmark_stable_modal`: `V = ℝ` with `M = K = B = id` is a symmetric positive
(semi)definite system -/
example : (∀ x y : ℝ, ⟪(LinearMap.id : ℝ →ₗ[ℝ] ℝ) x, y⟫_ℝ = ⟪x, (LinearMap.id : ℝ →ₗ[ℝ] ℝ) y⟫_ℝ) ∧
    (∀ x : ℝ, 0 ≤ ⟪(LinearMap.id : ℝ →ₗ[ℝ] ℝ) x, x⟫_ℝ) :=
  ⟨fun _ _ => rfl, fun x => by simpa using real_inner_self_nonneg (x := x)⟩

/-- `massless_rows_quasistatic`: `k = 2 ≠ 0` over `ℚ` -/
example : (2 : ℚ) ≠ 0 := by norm_num

end PyYetiVerif.C17
