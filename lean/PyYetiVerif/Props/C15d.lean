import Mathlib.LinearAlgebra.Matrix.NonsingularInverse
import Mathlib.LinearAlgebra.Matrix.SchurComplement
import Mathlib.Tactic.LinearCombination
import Mathlib.Tactic.Abel
import PyYetiVerif.Props.C15
/-!
# C15 (part d) — the routes of `calcAM`, and the apparent mass at low frequency

* `routes_agree_general`: the recovery-matrix route (any solver) is the Schur complement of the FULL
  impedance onto the b-set, wherever the b-set sits and in whatever order — no Craig-Bampton form;
  `routes_difference` says exactly what the partition-vector route (`cbtf` never reads `K_bq`,
  `K_qb`) leaves out; `routes_disagree_noncb` is a concrete model where that matters.
* `am_low_frequency_expansion`: `AM(s) = M_rb − s² · (regular)` for a free-free model with a
  statically determinate interface, `s = iΩ` a formal parameter: a rational-function identity.
  (The limit `Ω → 0` over a normed field is `am_low_frequency_limit` in `Props/C15e.lean`.)
-/
namespace PyYetiVerif.C15
open PyYetiVerif.NT Matrix

section routes
variable {b o q K : Type} [Fintype b] [Fintype o] [Fintype q] [DecidableEq b] [DecidableEq o]
  [DecidableEq q] [CommRing K]

/-- ★ `routes_agree_general`.  NO Craig-Bampton form needed, b-set ANYWHERE in the model and in ANY
order (`e : b ⊕ q ≃ o` places the b-set and the q-set positions in the model): the recovery-matrix
route with the selection matrix of the b-set (unit forces on the full model, `fs` = `SolveUnc` or
`FreqDirect`) gives the Schur complement of the FULL impedance — all of `K_bq`, `K_qb` included —
onto the b-set.  This is what the partition-vector route would have to compute. -/
theorem routes_agree_general (e : b ⊕ q ≃ o) (D : Matrix o o K) (hD : IsUnit D.det)
    (hqq : IsUnit (D.submatrix (e ∘ Sum.inr) (e ∘ Sum.inr)).det) :
    (drmAM ((1 : Matrix o o K).submatrix (e ∘ Sum.inl) (Equiv.refl o)) D
        ((1 : Matrix o o K).submatrix (Equiv.refl o) (e ∘ Sum.inl)) : Matrix b b K)
      = schurAM (D.submatrix (e ∘ Sum.inl) (e ∘ Sum.inl)) (D.submatrix (e ∘ Sum.inl) (e ∘ Sum.inr))
          (D.submatrix (e ∘ Sum.inr) (e ∘ Sum.inl)) (D.submatrix (e ∘ Sum.inr) (e ∘ Sum.inr)) := by
  set D' := D.submatrix e e with hD'
  have hblocks : D' = fromBlocks (D.submatrix (e ∘ Sum.inl) (e ∘ Sum.inl))
      (D.submatrix (e ∘ Sum.inl) (e ∘ Sum.inr)) (D.submatrix (e ∘ Sum.inr) (e ∘ Sum.inl))
      (D.submatrix (e ∘ Sum.inr) (e ∘ Sum.inr)) := by
    ext i j
    rcases i with i | i <;> rcases j with j | j <;> rfl
  have hdet : IsUnit D'.det := by rw [hD', det_submatrix_equiv_self]; exact hD
  have h := forms_agree (D.submatrix (e ∘ Sum.inl) (e ∘ Sum.inl))
    (D.submatrix (e ∘ Sum.inl) (e ∘ Sum.inr)) (D.submatrix (e ∘ Sum.inr) (e ∘ Sum.inl))
    (D.submatrix (e ∘ Sum.inr) (e ∘ Sum.inr)) (by rw [← hblocks]; exact hdet) hqq
  rw [← h, ← hblocks]
  show (_ * D⁻¹ * _)⁻¹ = (_ * D'⁻¹ * _)⁻¹
  congr 1
  have hsel : ∀ X : Matrix (b ⊕ q) (b ⊕ q) K,
      fromCols (1 : Matrix b b K) (0 : Matrix b q K) * X * fromRows (1 : Matrix b b K) (0 : Matrix q b K)
        = X.toBlocks₁₁ := by
    intro X
    conv_lhs => rw [← fromBlocks_toBlocks X]
    rw [fromCols_mul_fromBlocks, fromCols_mul_fromRows]
    simp
  rw [one_submatrix_mul, mul_submatrix_one, hsel, hD', inv_submatrix_equiv]
  ext i j
  simp [toBlocks₁₁]

/-- the solver does not matter (`SolveUnc` vs `FreqDirect`): any two solutions `X₁`, `X₂` of
`D X = Tᵀ` give the same boundary accelerance, hence the same apparent mass -/
theorem routes_agree_solvers (D : Matrix o o K) (T : Matrix b o K) (X₁ X₂ : Matrix o b K)
    (hD : IsUnit D.det) (h₁ : D * X₁ = Tᵀ) (h₂ : D * X₂ = Tᵀ) :
    T * X₁ = T * X₂ ∧ (T * X₁)⁻¹ = (drmAM T D Tᵀ : Matrix b b K) := by
  have e₁ : X₁ = D⁻¹ * Tᵀ := by rw [← h₁, nonsing_inv_mul_cancel_left _ _ hD]
  have e₂ : X₂ = D⁻¹ * Tᵀ := by rw [← h₂, nonsing_inv_mul_cancel_left _ _ hD]
  refine ⟨by rw [e₁, e₂], ?_⟩
  show _ = (T * D⁻¹ * Tᵀ)⁻¹
  rw [e₁, Matrix.mul_assoc]

/-- ★ by how much the partition-vector route (which never reads `K_bq`, `K_qb`) differs from the
Schur complement of the full impedance: exactly the terms that contain `K_bq` or `K_qb`. -/
theorem routes_difference (Dbb : Matrix b b K) (Ebq Kbq : Matrix b q K) (Eqb Kqb : Matrix q b K)
    (Dqq : Matrix q q K) (cd : K) :
    schurAM Dbb (Ebq + cd • Kbq) (Eqb + cd • Kqb) Dqq
      = schurAM Dbb Ebq Eqb Dqq
        - (cd • Kbq * Dqq⁻¹ * Eqb + Ebq * Dqq⁻¹ * cd • Kqb + cd • Kbq * Dqq⁻¹ * cd • Kqb) := by
  rw [schurAM_matrix, schurAM_matrix]
  simp only [Matrix.add_mul, Matrix.mul_add]
  abel

/-- ★ `routes_agree_general`, second half: the two routes agree BEYOND Craig-Bampton form whenever
the q-set rows do not see the b-set (`K_qb = 0` and `M_qb + cv B_qb = 0`), for ANY `K_bq`; both then
return `D_bb` -/
theorem routes_agree_beyond_cb (Mbb Bbb Kbb : Matrix b b K) (Mbq Bbq Kbq : Matrix b q K)
    (Mqb Bqb : Matrix q b K) (Mqq Bqq Kqq : Matrix q q K) (cv cd : K)
    (h : Mqb + cv • Bqb = 0) :
    schurAM (accImp Mbb Bbb Kbb cv cd) (Mbq + cv • Bbq + cd • Kbq) (Mqb + cv • Bqb + cd • (0 : Matrix q b K))
        (accImp Mqq Bqq Kqq cv cd)
      = cbtfAM Mbb Bbb Kbb Mbq Bbq Mqb Bqb Mqq Bqq Kqq cv cd := by
  show schurAM _ _ _ _ = schurAM _ _ _ _
  rw [routes_difference, h]
  simp

/-- ★ `drm_zero_freq`.  At `f = 0` the solver inside the recovery-matrix route (`ode.SolveUnc.fsolve`,
property C02) answers a force `F` with the rigid-body acceleration `φ (φᵀ M φ)⁻¹ φᵀ F` and no elastic
acceleration (`a = -0² d`).  With the rigid-body modes normalised to unit boundary motion, `T φ = 1`
(statically determinate interface), the boundary accelerance is `(φᵀ M φ)⁻¹` and `calcAM` returns its
inverse: the physical rigid-body mass. -/
theorem drm_zero_freq (T : Matrix b o K) (φ : Matrix o b K) (M : Matrix o o K) (hT : T * φ = 1)
    (hm : IsUnit (φᵀ * M * φ).det) :
    amOfAcc (T * (φ * (φᵀ * M * φ)⁻¹ * φᵀ) * Tᵀ) = φᵀ * M * φ := by
  have hT' : φᵀ * Tᵀ = 1 := by rw [← transpose_mul, hT, transpose_one]
  have : T * (φ * (φᵀ * M * φ)⁻¹ * φᵀ) * Tᵀ = (φᵀ * M * φ)⁻¹ := by
    calc T * (φ * (φᵀ * M * φ)⁻¹ * φᵀ) * Tᵀ
        = (T * φ) * (φᵀ * M * φ)⁻¹ * (φᵀ * Tᵀ) := by simp only [Matrix.mul_assoc]
      _ = (φᵀ * M * φ)⁻¹ := by rw [hT, hT', Matrix.one_mul, Matrix.mul_one]
  show (T * (φ * (φᵀ * M * φ)⁻¹ * φᵀ) * Tᵀ)⁻¹ = _
  rw [this, nonsing_inv_nonsing_inv _ hm]

/-- ★ `drm_congruence`.  A recovery matrix `S · T` (new boundary coordinates `x_b' = S x_b`: a sign
flip, a change of units, any invertible `S`) gives the apparent mass of `T` transformed by the
congruence `S⁻ᵀ · AM · S⁻¹` — because the accelerance is `S (T D⁻¹ Tᵀ) Sᵀ`. -/
theorem drm_congruence (S : Matrix b b K) (T : Matrix b o K) (D : Matrix o o K) :
    (drmAM (S * T) D (S * T)ᵀ : Matrix b b K) = (S⁻¹)ᵀ * drmAM T D Tᵀ * S⁻¹ := by
  show (S * T * D⁻¹ * (S * T)ᵀ)⁻¹ = (S⁻¹)ᵀ * (T * D⁻¹ * Tᵀ)⁻¹ * S⁻¹
  have : S * T * D⁻¹ * (S * T)ᵀ = S * (T * D⁻¹ * Tᵀ) * Sᵀ := by
    rw [transpose_mul]; simp only [Matrix.mul_assoc]
  rw [this, Matrix.mul_inv_rev, Matrix.mul_inv_rev, transpose_nonsing_inv, Matrix.mul_assoc]
  simp only [Matrix.mul_assoc]

/-- ★ `forms_agree` for a SIGNED / SCALED selection: rows `s_i e_iᵀ` (`S = diagonal s`; a model DOF
defined opposite to the interface coordinate, interface coordinates in other units) — the recovery-
matrix form is the Schur complement scaled entry by entry, `AM'_ij = AM_ij / (s_i s_j)`; in
particular it is NOT the apparent mass of the plain selection unless every `s_i = ±1` and the signs
agree. -/
theorem forms_agree_scaled_selection (s : b → K) (hs : ∀ i, IsUnit (s i))
    (Dbb : Matrix b b K) (Dbq : Matrix b q K) (Dqb : Matrix q b K)
    (Dqq : Matrix q q K) (hD : IsUnit (fromBlocks Dbb Dbq Dqb Dqq).det) (hqq : IsUnit Dqq.det) :
    (drmAM (Matrix.diagonal s * fromCols (1 : Matrix b b K) (0 : Matrix b q K))
        (fromBlocks Dbb Dbq Dqb Dqq)
        (Matrix.diagonal s * fromCols (1 : Matrix b b K) (0 : Matrix b q K))ᵀ : Matrix b b K)
      = Matrix.of fun i j => Ring.inverse (s i) * schurAM Dbb Dbq Dqb Dqq i j * Ring.inverse (s j) := by
  have hT : (fromCols (1 : Matrix b b K) (0 : Matrix b q K))ᵀ = fromRows (1 : Matrix b b K) (0 : Matrix q b K) := by
    rw [transpose_fromCols, transpose_one, transpose_zero]
  rw [drm_congruence, hT, forms_agree Dbb Dbq Dqb Dqq hD hqq]
  have hinv : (Matrix.diagonal s)⁻¹ = Matrix.diagonal fun i => Ring.inverse (s i) := by
    apply inv_eq_right_inv
    rw [Matrix.diagonal_mul_diagonal]
    have : (fun i => s i * Ring.inverse (s i)) = fun _ => (1 : K) := by
      funext i; exact Ring.mul_inverse_cancel _ (hs i)
    rw [this, Matrix.diagonal_one]
  rw [hinv, Matrix.diagonal_transpose]
  ext i j
  rw [Matrix.mul_diagonal, Matrix.diagonal_mul, Matrix.of_apply]

end routes

/-- ★ counterexample: where the model is NOT in Craig-Bampton form the routes disagree.  Two unit
masses joined by a unit spring (`K = [[1, -1], [-1, 1]]`), one b-set DOF, `cv = 0`, `cd = 1` (1 × 1
blocks, i.e. rational numbers): the full impedance `[[2, -1], [-1, 2]]` has the Schur complement
`3/2`; `cbtf` does not read `K_bq = K_qb = -1` and returns `2`. -/
theorem routes_disagree_noncb :
    schurAM (accImp (1 : ℚ) 0 1 (0 : ℚ) 1) (0 + (0 : ℚ) • (0 : ℚ) + (1 : ℚ) • (-1 : ℚ))
        (0 + (0 : ℚ) • (0 : ℚ) + (1 : ℚ) • (-1 : ℚ)) (accImp (1 : ℚ) 0 1 (0 : ℚ) 1) = 3 / 2 ∧
    cbtfAM (1 : ℚ) 0 1 (0 : ℚ) 0 (0 : ℚ) 0 (1 : ℚ) 0 1 (0 : ℚ) 1 = 2 := by
  constructor <;> norm_num [schurAM, cbtfAM, accImp]

section lowfreq
variable {b i K : Type} [Fintype b] [Fintype i] [DecidableEq b] [DecidableEq i] [CommRing K]

/-- dynamic-stiffness block `s² M + s B + K` (`s = iΩ`) -/
def zblk {m n : Type} (M B Kk : Matrix m n K) (s : K) : Matrix m n K := (s * s) • M + s • B + Kk

/-- rigid-body mass seen at the boundary: `[1 χ] M [1; ψ]` (`χ = ψᵀ` for a symmetric model) -/
def rbMass (Mbb : Matrix b b K) (Mbi : Matrix b i K) (Mib : Matrix i b K) (Mii : Matrix i i K)
    (ψ : Matrix i b K) (χ : Matrix b i K) : Matrix b b K :=
  Mbb + Mbi * ψ + χ * Mib + χ * Mii * ψ

variable (Mbb Bbb Kbb : Matrix b b K) (Mbi Bbi Kbi : Matrix b i K) (Mib Bib Kib : Matrix i b K)
  (Mii Bii Kii : Matrix i i K) (ψ : Matrix i b K) (χ : Matrix b i K) (s : K)

/-- the identity behind the expansion, valid for EVERY `s` (also `s = 0`): the Schur complement of
the dynamic stiffness onto the boundary of a model whose rigid-body modes are `[1; ψ]` (right) and
`[1 χ]` (left) — statically determinate interface — is
`s² M_rb − s⁴ (M_bi + χ M_ii) Z_ii(s)⁻¹ (M_ib + M_ii ψ)`. -/
theorem dyn_stiffness_schur_expansion
    (hK1 : Kbb + Kbi * ψ = 0) (hK2 : Kib + Kii * ψ = 0) (hK3 : Kbi + χ * Kii = 0)
    (hB1 : Bbb + Bbi * ψ = 0) (hB2 : Bib + Bii * ψ = 0) (hB3 : Bbi + χ * Bii = 0)
    (hE : IsUnit (zblk Mii Bii Kii s).det) :
    schurAM (zblk Mbb Bbb Kbb s) (zblk Mbi Bbi Kbi s) (zblk Mib Bib Kib s) (zblk Mii Bii Kii s)
      = (s * s) • rbMass Mbb Mbi Mib Mii ψ χ
        - (s * s * (s * s)) • ((Mbi + χ * Mii) * (zblk Mii Bii Kii s)⁻¹ * (Mib + Mii * ψ)) := by
  set E := zblk Mii Bii Kii s with hEdef
  have h_ib : zblk Mib Bib Kib s = (s * s) • (Mib + Mii * ψ) - E * ψ := by
    have hk : Kib = -(Kii * ψ) := eq_neg_of_add_eq_zero_left hK2
    have hb : Bib = -(Bii * ψ) := eq_neg_of_add_eq_zero_left hB2
    simp only [hEdef, zblk, hk, hb, Matrix.add_mul, Matrix.smul_mul, smul_add, smul_neg]
    abel
  have h_bi : zblk Mbi Bbi Kbi s = (s * s) • (Mbi + χ * Mii) - χ * E := by
    have hk : Kbi = -(χ * Kii) := eq_neg_of_add_eq_zero_left hK3
    have hb : Bbi = -(χ * Bii) := eq_neg_of_add_eq_zero_left hB3
    simp only [hEdef, zblk, hk, hb, Matrix.mul_add, Matrix.mul_smul, smul_add, smul_neg]
    abel
  have h_bb : zblk Mbb Bbb Kbb s = (s * s) • (Mbb + Mbi * ψ) - zblk Mbi Bbi Kbi s * ψ := by
    have hk : Kbb = -(Kbi * ψ) := eq_neg_of_add_eq_zero_left hK1
    have hb : Bbb = -(Bbi * ψ) := eq_neg_of_add_eq_zero_left hB1
    simp only [zblk, hk, hb, Matrix.add_mul, Matrix.smul_mul, smul_add, smul_neg]
    abel
  have hEl : E⁻¹ * E = 1 := nonsing_inv_mul _ hE
  have hEr : E * E⁻¹ = 1 := mul_nonsing_inv _ hE
  rw [schurAM_matrix, h_bb]
  set Zbi := zblk Mbi Bbi Kbi s with hZbi
  have step1 : Zbi * E⁻¹ * zblk Mib Bib Kib s
      = (s * s) • (Zbi * E⁻¹ * (Mib + Mii * ψ)) - Zbi * ψ := by
    rw [h_ib, Matrix.mul_sub, Matrix.mul_smul, Matrix.mul_assoc Zbi E⁻¹ (E * ψ), ← Matrix.mul_assoc E⁻¹ E ψ,
      hEl, Matrix.one_mul]
  have step2 : Zbi * E⁻¹ * (Mib + Mii * ψ)
      = (s * s) • ((Mbi + χ * Mii) * E⁻¹ * (Mib + Mii * ψ)) - χ * (Mib + Mii * ψ) := by
    rw [h_bi, Matrix.sub_mul, Matrix.sub_mul, Matrix.smul_mul, Matrix.smul_mul, Matrix.mul_assoc χ E E⁻¹,
      hEr, Matrix.mul_one]
  rw [step1, step2]
  simp only [rbMass, smul_sub, smul_add, smul_smul, Matrix.mul_add, Matrix.mul_assoc]
  abel


/-- the acceleration impedance is the dynamic stiffness divided by `s²` (`t = 1/s`) -/
theorem accImp_eq_zblk {m n : Type} (M B Kk : Matrix m n K) (s t : K) (hst : s * t = 1) :
    accImp M B Kk t (t * t) = (t * t) • zblk M B Kk s := by
  ext x y
  simp only [accImp, zblk, Matrix.add_apply, Matrix.smul_apply, smul_eq_mul]
  linear_combination (-(M x y) * (1 + s * t) - t * B x y) * hst

/-- the Schur complement is homogeneous: scaling all four blocks by a unit scales it -/
theorem schurAM_smul (c d : K) (hcd : c * d = 1) (A : Matrix b b K) (Bm : Matrix b i K)
    (C : Matrix i b K) (D : Matrix i i K) (hD : IsUnit D.det) :
    schurAM (c • A) (c • Bm) (c • C) (c • D) = c • schurAM A Bm C D := by
  have hinv : (c • D)⁻¹ = d • D⁻¹ := by
    apply inv_eq_right_inv
    rw [Matrix.smul_mul, Matrix.mul_smul, smul_smul, hcd, one_smul, mul_nonsing_inv _ hD]
  rw [schurAM_matrix, schurAM_matrix, hinv]
  simp only [Matrix.smul_mul, Matrix.mul_smul, smul_smul, smul_sub]
  congr 2
  linear_combination c * hcd

/-- ★ `am_low_frequency_expansion`.  Free-free model, statically determinate interface (the
rigid-body modes are `[1; ψ]`, on the left `[1 χ]`; `K` and `B` annihilate them), `s = iΩ ≠ 0` a
formal parameter (`t = 1/s`), interior dynamic stiffness invertible.  The boundary apparent mass —
the Schur complement of the FULL acceleration impedance, i.e. what the recovery-matrix route computes
(`routes_agree_general`) — is

    AM(s) = M_rb − s² · (M_bi + χ M_ii) (s² M_ii + s B_ii + K_ii)⁻¹ (M_ib + M_ii ψ)

the physical rigid-body mass plus `Ω²` times something regular at `Ω = 0` (`K_ii` is invertible).
A polynomial / rational-function identity, no analysis. -/
theorem am_low_frequency_expansion (t : K) (hst : s * t = 1)
    (hK1 : Kbb + Kbi * ψ = 0) (hK2 : Kib + Kii * ψ = 0) (hK3 : Kbi + χ * Kii = 0)
    (hB1 : Bbb + Bbi * ψ = 0) (hB2 : Bib + Bii * ψ = 0) (hB3 : Bbi + χ * Bii = 0)
    (hE : IsUnit (zblk Mii Bii Kii s).det) :
    schurAM (accImp Mbb Bbb Kbb t (t * t)) (accImp Mbi Bbi Kbi t (t * t))
        (accImp Mib Bib Kib t (t * t)) (accImp Mii Bii Kii t (t * t))
      = rbMass Mbb Mbi Mib Mii ψ χ
        - (s * s) • ((Mbi + χ * Mii) * (zblk Mii Bii Kii s)⁻¹ * (Mib + Mii * ψ)) := by
  rw [accImp_eq_zblk _ _ _ s t hst, accImp_eq_zblk _ _ _ s t hst, accImp_eq_zblk _ _ _ s t hst,
    accImp_eq_zblk _ _ _ s t hst,
    schurAM_smul (t * t) (s * s) (by linear_combination (1 + s * t) * hst) _ _ _ _ hE,
    dyn_stiffness_schur_expansion Mbb Bbb Kbb Mbi Bbi Kbi Mib Bib Kib Mii Bii Kii ψ χ s
      hK1 hK2 hK3 hB1 hB2 hB3 hE,
    smul_sub, smul_smul, smul_smul]
  have e1 : t * t * (s * s) = 1 := by linear_combination (1 + s * t) * hst
  have e2 : t * t * (s * s * (s * s)) = s * s := by linear_combination (s * s * (1 + s * t)) * hst
  rw [e1, e2, one_smul]

end lowfreq

/-- `forms_agree_scaled_selection` is not vacuous and matters: one boundary DOF read in inches
(`s = 39.37`): an apparent mass `3/2` becomes `(3/2) / 39.37²`, not `3/2` -/
example : IsUnit (39.37 : ℚ)
    ∧ IsUnit (Matrix.fromBlocks ((2 : ℚ) • (1 : Matrix (Fin 1) (Fin 1) ℚ)) (0 : Matrix (Fin 1) (Fin 1) ℚ)
        (0 : Matrix (Fin 1) (Fin 1) ℚ) ((2 : ℚ) • (1 : Matrix (Fin 1) (Fin 1) ℚ))).det
    ∧ IsUnit ((2 : ℚ) • (1 : Matrix (Fin 1) (Fin 1) ℚ)).det
    ∧ Ring.inverse (39.37 : ℚ) * (3 / 2) * Ring.inverse (39.37 : ℚ) ≠ 3 / 2 := by
  refine ⟨by norm_num, ?_, ?_, ?_⟩
  · rw [Matrix.det_fromBlocks_zero₁₂]
    simp [Matrix.det_unique]
  · simp [Matrix.det_unique]
  · rw [Ring.inverse_eq_inv']; norm_num

end PyYetiVerif.C15
