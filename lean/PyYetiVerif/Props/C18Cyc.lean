import PyYetiVerif.Props.C18Up
import PyYetiVerif.Lemmas.UsetUpCyc
import Mathlib.Data.Finset.Card
/-!
C18: the recursion of `n2p.upqsetpv` on a cyclic `selist` - the pigeonhole argument as a theorem.

`upqsetpv(nas, sedn)` calls itself for every upstream SE that has upstream SEs of its own.  The model
(`Uset.upqsetpv`) bounds the nesting by a fuel and answers `.recursion` when it is used up; the driver gives it
`selist.length + 1`.  `upqsetpv_cyclic_diverges`: if that fuel is used up, then NO fuel ever yields a value - the
unbounded recursion of the real code cannot return normally (it raises, or recurses until Python's
`RecursionError`): `selist.length + 1` nested calls name an SE twice (pigeonhole on the second column of
`selist`), and from an SE that is called again inside its own call every further level is forced.
-/
set_option linter.constructorNameAsVariable false
namespace PyYetiVerif.C18
open PyYetiVerif.Uset

section
variable {a q p : Nat} {nas : Nas}

/-- **the recursion never returns from a set of SEs that is closed under "has an upstream SE in the set"**: for
every fuel the model answers an error (a look-up failure on the way, or `.recursion`), never a value -/
theorem upqsetpv_never_returns_of_progress (R : Nat → Prop)
    (hR : ∀ s, R s → ∃ s', Link nas.selist s s' ∧ R s') :
    ∀ (fuel s : Nat), R s → ∀ out, upqsetpv a q p nas fuel s ≠ .ok out
  | 0, s, _, out => by simp [upqsetpv]
  | fuel + 1, s, hs, out => by
      obtain ⟨s', ⟨hmem, hne⟩, hs'⟩ := hR s hs
      obtain ⟨s'', ⟨hmem', _⟩, _⟩ := hR s' hs'
      rw [upqsetpv]
      have hups : s' ∈ (nas.selist.filter fun r => r.2 = s).map (·.1) :=
        List.mem_map.mpr ⟨(s', s), List.mem_filter.mpr ⟨hmem, by simp⟩, rfl⟩
      rw [if_neg (by intro he; rw [he] at hups; cases hups)]
      cases hu : lookupD nas.uset s with
      | error e => intro h; cases h
      | ok usetdn =>
          simp only [bind, Except.bind]
          apply foldlM_never_ok _ _ _ ⟨s', hups, ?_⟩
          intro acc o
          unfold upqStep
          rw [if_neg hne]
          cases h1 : lookupD nas.uset s' with
          | error e => intro h; cases h
          | ok usetup =>
            cases h2 : lookupD nas.dnids s' with
            | error e => intro h; cases h
            | ok dnids =>
              cases h3 : lookupD nas.maps s' with
              | error e => intro h; cases h
              | ok maps =>
                simp only [bind, Except.bind]
                have hq : ∀ v, upqQup a q p nas (upqsetpv a q p nas fuel) s' usetup ≠ .ok v := by
                  intro v
                  unfold upqQup
                  cases hq0 : qupOwn a q p usetup with
                  | error e => intro h; cases h
                  | ok qup0 =>
                      have hany : nas.selist.any (fun r => r.2 = s') = true :=
                        List.any_eq_true.mpr ⟨(s'', s'), hmem', by simp⟩
                      simp only [bind, Except.bind, hany, if_true]
                      cases hr : upqsetpv a q p nas fuel s' with
                      | error e => intro h; cases h
                      | ok v' => exact absurd hr (upqsetpv_never_returns_of_progress R hR fuel s' hs' v')
                cases h4 : upqQup a q p nas (upqsetpv a q p nas fuel) s' usetup with
                | error e => intro h; cases h
                | ok v => exact absurd h4 (hq v)

/-- **`upqsetpv` on a cyclic `selist` diverges** (the pigeonhole argument): if the model uses up the fuel
`selist.length + 1` that the driver gives it, it returns a value at NO fuel - the real, unbounded recursion does not
return (Python ends it with `RecursionError` unless a look-up fails first). -/
theorem upqsetpv_cyclic_diverges (s : Nat)
    (h : upqsetpv a q p nas (nas.selist.length + 1) s = .error .recursion) :
    ∀ fuel out, upqsetpv a q p nas fuel s ≠ .ok out := by
  obtain ⟨f, hf0, hf⟩ := upqsetpv_rec_chain (nas.selist.length + 1) s h
  -- the SEs `f 0 … f L` all have an upstream SE: they are in the second column of `selist`
  let L := nas.selist.length
  let T := (nas.selist.map (·.2)).toFinset
  have hcard : T.card < (Finset.range (L + 1)).card := by
    rw [Finset.card_range]
    have := List.toFinset_card_le (nas.selist.map (·.2))
    rw [List.length_map] at this
    exact Nat.lt_succ_of_le this
  have hmaps : Set.MapsTo f (Finset.range (L + 1)) T := by
    intro i hi
    have hi' : i < L + 1 := by simpa using hi
    have := (hf i hi').1
    simp only [T, Finset.mem_coe, List.mem_toFinset, List.mem_map]
    exact ⟨_, this, rfl⟩
  obtain ⟨i, hi, j, hj, hij, hfij⟩ := Finset.exists_ne_map_eq_of_card_lt_of_maps_to hcard hmaps
  have hi' : i < L + 1 := by simpa using hi
  have hj' : j < L + 1 := by simpa using hj
  -- w.l.o.g. i < j; the SEs `f 0 … f (j-1)` are closed under "next call"
  obtain ⟨i, j, hlt, hj', hfij⟩ : ∃ i j, i < j ∧ j < L + 1 ∧ f i = f j := by
    rcases Nat.lt_or_gt_of_ne hij with hlt | hlt
    · exact ⟨i, j, hlt, hj', hfij⟩
    · exact ⟨j, i, hlt, hi', hfij.symm⟩
  let R : Nat → Prop := fun x => ∃ k, k < j ∧ f k = x
  have hR : ∀ x, R x → ∃ x', Link nas.selist x x' ∧ R x' := by
    rintro x ⟨k, hk, rfl⟩
    refine ⟨f (k + 1), hf k (by omega), ?_⟩
    by_cases hk1 : k + 1 < j
    · exact ⟨k + 1, hk1, rfl⟩
    · have : k + 1 = j := by omega
      exact ⟨i, hlt, by rw [hfij, this]⟩
  intro fuel out
  exact upqsetpv_never_returns_of_progress R hR fuel s ⟨0, by omega, hf0⟩ out

end

/-- non-vacuity: the two-SE cycle of `cycleNas` (Props/C18Up.lean) uses up the driver's fuel -/
example : ∀ fuel out, upqsetpv (Generated.UsetMask.mask .a) (Generated.UsetMask.mask .q)
    (Generated.UsetMask.mask .p) cycleNas fuel 10 ≠ .ok out :=
  upqsetpv_cyclic_diverges 10 (by decide)

end PyYetiVerif.C18
