import PyYetiVerif.Props.C01Exp
import PyYetiVerif.Lemmas.SuCoefExp1
/-!
# C01 — `SolveExp1`: the first-order solver `y' = A y + f`

The model (`exp1Step`, `runExp1`, `exp1Velo`, `exp1Solve` of `Model/SuCoefExp1.lean`) transcribes
`SolveExp1.tsolve`: `d[:, j] = E d[:, j-1] + P f[:, j-1] + Q f[:, j]` (order 1) or `… + P f[:, j-1]`
(order 0), `v = force + A d`, the history allocated as float64 whatever the dtype of the force.

`E, P, Q` come from `expmint.getEPQ(A, h, order)` and are INPUTS here, with the same specification
as for `SolveExp2` (`ExpSpec`, `Lemmas/SuCoefExp.lean`; the series-level content is `Props/C07`):
`E = Φ h`; order 1: `P = I2 h / h`, `Q = I1 h − P`; order 0: `P = I1 h`.

`exp1_step_exact` : one step is the state at `t = h` of THE solution of `z' = A z + f(t)`, `f` linear
                    between the two force samples (order 1) or held (order 0);
`exp1_run_exact`  : every recorded sample is the end state of the solution started from the previous
                    recorded sample — given that recording does not convert (`exp1_history_not_converted`:
                    the history dtype is float64 for every force dtype);
`exp1_velo_is_derivative` : the returned `v` is the derivative of that solution at the sample.
-/
namespace PyYetiVerif.C01
open PyYetiVerif.SuCoef Matrix

variable {n : ℕ}

/-- the coefficient record of `SolveExp1` from the specified matrix functions -/
noncomputable def exp1Coef (order1 : Bool) (h : ℝ) (Φ I1 I2 : ℝ → Matrix (Fin n) (Fin n) ℝ) :
    Exp1Coef ℝ n :=
  exp1CoefOf (Φ h) (if order1 then h⁻¹ • I2 h else I1 h) (I1 h - h⁻¹ • I2 h)

theorem exp1_step_exact (A : Matrix (Fin n) (Fin n) ℝ) (Φ I1 I2 : ℝ → Matrix (Fin n) (Fin n) ℝ)
    (sp : ExpSpec A Φ I1 I2) (h : ℝ) (hh : h ≠ 0) (order1 : Bool) (y0 f0 f1 : Fin n → ℝ) :
    (∃ z, IsStateSolR A f0 (holdSlope order1 h f0 f1) y0 z) ∧
    ∀ z, IsStateSolR A f0 (holdSlope order1 h f0 f1) y0 z →
      z h = exp1Step order1 (exp1Coef order1 h Φ I1 I2) y0 f0 f1 := by
  have hz := zExp_isStateSol sp f0 (holdSlope order1 h f0 f1) y0
  refine ⟨⟨_, hz⟩, fun z hs => ?_⟩
  rw [hs.unique hz]
  cases order1 with
  | true =>
    simp only [exp1Coef, if_true]
    rw [exp1Step_one]
    simp only [zExp, holdSlope, if_true, Matrix.mulVec_smul, Matrix.mulVec_sub, Matrix.sub_mulVec,
      Matrix.smul_mulVec, smul_sub, smul_smul, inv_mul_cancel₀ hh, one_smul]
    abel
  | false =>
    simp only [exp1Coef, Bool.false_eq_true, if_false]
    rw [exp1Step_zero]
    simp [zExp, holdSlope]

/-- the history array of `SolveExp1.tsolve` is float64 for every dtype of the force, so recording a
double into it is the identity: the recorded history is the running recurrence itself -/
theorem exp1_history_not_converted (fd : Dtype) (conv : Dtype → ℝ → ℝ) (hconv : ∀ x, conv .float64 x = x)
    (order1 : Bool) (c : Exp1Coef ℝ n) (y : Fin n → ℝ) (fs : List (Fin n → ℝ)) :
    exp1HistDtype fd = .float64 ∧
    runExp1 order1 (conv (exp1HistDtype fd)) c y fs = runExp1 order1 id c y fs := by
  refine ⟨rfl, ?_⟩
  have : conv (exp1HistDtype fd) = id := funext hconv
  rw [this]

/-- the whole loop of `SolveExp1.tsolve`: recorded sample `j+1` is the state at `t = h` of THE solution
of `z' = A z + f(t)` with the hold forcing of step `j`, started from recorded sample `j` -/
theorem exp1_run_exact (A : Matrix (Fin n) (Fin n) ℝ) (Φ I1 I2 : ℝ → Matrix (Fin n) (Fin n) ℝ)
    (sp : ExpSpec A Φ I1 I2) (h : ℝ) (hh : h ≠ 0) (order1 : Bool) :
    ∀ (fs : List (Fin n → ℝ)) (y : Fin n → ℝ) (j : ℕ) (yj yj1 f0 f1 : Fin n → ℝ),
      (runExp1 order1 id (exp1Coef order1 h Φ I1 I2) y fs)[j]? = some yj →
      (runExp1 order1 id (exp1Coef order1 h Φ I1 I2) y fs)[j + 1]? = some yj1 →
      fs[j]? = some f0 → fs[j + 1]? = some f1 →
      (∃ z, IsStateSolR A f0 (holdSlope order1 h f0 f1) yj z) ∧
      ∀ z, IsStateSolR A f0 (holdSlope order1 h f0 f1) yj z → z h = yj1 := by
  intro fs
  induction fs with
  | nil => intro y j yj yj1 f0 f1 _ _ h3 _; simp at h3
  | cons g0 tl ih =>
    intro y j yj yj1 f0 f1 h1 h2 h3 h4
    cases tl with
    | nil => simp at h4
    | cons g1 rest =>
      rw [runExp1_cons_cons] at h1 h2
      cases j with
      | zero =>
        simp only [List.getElem?_cons_zero, Option.some.injEq] at h1 h3
        simp only [zero_add, List.getElem?_cons_succ, List.getElem?_cons_zero,
          Option.some.injEq] at h2 h4
        rw [runExp1_head] at h2
        simp only [Option.some.injEq] at h2
        subst h3 h4
        have e1 : yj = y := by rw [← h1]; rfl
        have e2 : yj1 = exp1Step order1 (exp1Coef order1 h Φ I1 I2) y g0 g1 := by rw [← h2]; rfl
        rw [e1, e2]
        exact exp1_step_exact A Φ I1 I2 sp h hh order1 y g0 g1
      | succ j =>
        simp only [List.getElem?_cons_succ] at h1 h2 h3 h4
        exact ih _ j yj yj1 f0 f1 h1 h2 h3 h4

/-- the returned `v = force + A d` is, at every sample, the derivative at the start of the step of
any solution of the state equation started at the recorded `d` with that sample's force -/
theorem exp1_velo_is_derivative (A : Matrix (Fin n) (Fin n) ℝ) (f0 s d0 : Fin n → ℝ)
    (z : ℝ → Fin n → ℝ) (hz : IsStateSolR A f0 s d0 z) :
    HasDerivAt z (exp1Velo (fun i j => A i j) f0 d0) 0 := by
  have := hz.deriv 0
  rw [hz.init, zero_smul, add_zero] at this
  rw [exp1Velo_eq]
  exact this

/-- without `d0` the solver starts from rest (`d0 = np.zeros(self.n, float)`), with `d0` from `d0` -/
theorem exp1_init (y : Fin n → ℝ) : exp1Init (some y) = y ∧ exp1Init (none : Option (Fin n → ℝ)) = 0 :=
  ⟨rfl, rfl⟩

/-! ### non-vacuity: `y' = f` in one dimension (`A = 0`): `Φ = 1`, `I1 = t`, `I2 = t²/2` -/

theorem zeroA_spec : ExpSpec (0 : Matrix (Fin 1) (Fin 1) ℝ) (fun _ => 1) (fun t => t • 1)
    (fun t => (t ^ 2 / 2) • 1) := by
  have hid : ∀ t : ℝ, HasDerivAt (fun t : ℝ => t) 1 t := fun t => hasDerivAt_id' t
  refine ⟨fun t i j => ?_, rfl, fun t i j => ?_, by simp, fun t i j => ?_, by simp⟩
  · simpa using hasDerivAt_const t ((1 : Matrix (Fin 1) (Fin 1) ℝ) i j)
  · have := (hid t).mul_const ((1 : Matrix (Fin 1) (Fin 1) ℝ) i j)
    simpa using this
  · have := (((hid t).fun_pow 2).div_const 2).mul_const ((1 : Matrix (Fin 1) (Fin 1) ℝ) i j)
    simp only [Matrix.smul_apply, smul_eq_mul]
    refine this.congr_deriv ?_
    ring

/-- one order-1 step of `y' = f` from `y = 1` with the force `1 → 3`, `h = 2`: `y = 1 + 2·(1+3)/2 = 5` -/
example : exp1Step true (exp1Coef true 2 (fun _ => (1 : Matrix (Fin 1) (Fin 1) ℝ)) (fun t => t • 1)
      (fun t => (t ^ 2 / 2) • 1)) (fun _ => 1) (fun _ => 1) (fun _ => 3) = fun _ => 5 := by
  funext j
  simp [exp1Step, exp1Coef, exp1CoefOf, dotFin_eq_real, Matrix.one_apply, Subsingleton.elim j 0]
  norm_num

end PyYetiVerif.C01
