import PyYetiVerif.Lemmas.RigidBodyGuyan
import PyYetiVerif.Model.RigidBodyCheck
import PyYetiVerif.Props.C06
import Mathlib.Algebra.BigOperators.Group.Finset.Basic
import Mathlib.Tactic.NormNum
/-!
# C06 (second extension) — `cb.cbcheck` as decision logic; `cbconvert` / `cbreorder` on data recovery matrices

Property theorems only.  Executable definitions: `Model/RigidBodyCheck.lean` (`cbcheckM`), `Model/RigidBody.lean`
(`cbconvert`, `reorderCols`, `pvList`).
-/
set_option linter.unusedVariables false
set_option linter.unusedSimpArgs false
set_option linter.unusedSectionVars false
namespace PyYetiVerif.C06
open PyYetiVerif.RigidBody

section dispatch

/-- the b-set role of position `i` after `cbreorder(M, bseto)` (b-set first), with the NEW b-set `arange(nb)`, is the
role of the DOF that was moved there, with the ORIGINAL `bseto` -/
theorem role_after_reorder (bseto : List Nat) (n : Nat) (hb : bseto.Nodup) (hin : ∀ x ∈ bseto, x < n) (i : Nat)
    (hi : i < n) :
    role (List.range bseto.length) i = role bseto ((pvList bseto n false).getD i 0) := by
  have hlenpv : (pvList bseto n false).length = n := by
    have := (reorder_pv_perm bseto n false hb hin).length_eq
    simpa using this
  by_cases hlt : i < bseto.length
  · have h1 : idxIn (List.range bseto.length) i = some i := by
      have := idxIn_getElem (List.nodup_range (n := bseto.length)) (a := i) (by simpa using hlt)
      simpa using this
    have h2 : (pvList bseto n false).getD i 0 = bseto[i] := by
      have hpv' : pvList bseto n false = bseto ∨ pvList bseto n false = bseto ++ flippv bseto n := by
        unfold pvList
        by_cases h0 : n - bseto.length = 0 <;> simp [h0]
      rcases hpv' with h | h <;> rw [h, List.getD_eq_getElem?_getD]
      · rw [List.getElem?_eq_getElem hlt]; rfl
      · rw [List.getElem?_append_left hlt, List.getElem?_eq_getElem hlt]; rfl
    have h3 : idxIn bseto bseto[i] = some i := idxIn_getElem hb hlt
    unfold role
    rw [h1, h2, h3]
  · have h1 : idxIn (List.range bseto.length) i = none := idxIn_of_not_mem (by simpa using hlt)
    have hge : bseto.length ≤ i := by omega
    have hpv : pvList bseto n false = bseto ++ flippv bseto n := by
      unfold pvList
      have : ¬ (n - bseto.length = 0) := by
        intro h0
        have : (pvList bseto n false).length = bseto.length := by unfold pvList; rw [if_pos h0]
        omega
      rw [if_neg this]
      simp
    rw [hpv] at hlenpv ⊢
    have hi2 : i < (bseto ++ flippv bseto n).length := by omega
    have hx : (bseto ++ flippv bseto n).getD i 0 = (bseto ++ flippv bseto n)[i] := by
      rw [List.getD_eq_getElem?_getD, List.getElem?_eq_getElem hi2]; rfl
    have hmem : (bseto ++ flippv bseto n)[i] ∈ flippv bseto n := by
      rw [List.getElem_append_right hge]; exact List.getElem_mem _
    have hnot := (mem_flippv.1 hmem).2
    unfold role
    rw [h1, hx, idxIn_of_not_mem hnot]

/-- ★ converting then reordering (what `cbcheck` does, with the original `bseto`) is reordering then converting with
the NEW b-set `arange(nb)`: the returned `m`, `k` are the converted versions of the reordered matrices with respect to
the returned `bset` -/
theorem convert_reorder_commute (M : NMat ℝ) (bseto : List Nat) (n : Nat) (lc mc : ℝ) (hb : bseto.Nodup)
    (hin : ∀ x ∈ bseto, x < n) (i j : Nat) (hi : i < n) (hj : j < n) :
    reorder (cbconvert M bseto lc mc false) (fun t => (pvList bseto n false).getD t 0) i j
      = cbconvert (reorder M fun t => (pvList bseto n false).getD t 0) (List.range bseto.length) lc mc false i j := by
  simp only [reorder, cbconvert, role_after_reorder bseto n hb hin i hi, role_after_reorder bseto n hb hin j hj]

variable {α : Type} [Add α] [Sub α] [Mul α] [Div α] [Neg α] [OfNat α 0] [OfNat α 1] [RbOps α]

/-- ★ `cbcheck` raises exactly for a uset of the wrong size and for `reorder=False` with a `bseto` that is not
ascending; every other input produces the namespace - whatever `em_filt`, `rb_norm`, `n_freefree_modes` are (since the
fix 2a88ed1, finding F66, a filter that leaves no mode prints an empty table) -/
theorem cbcheck_errors (n : Nat) (M K : NMat α) (bseto bref0 : List Nat) (usetN : Nat) (u : NMat α)
    (isCyl isSph : Nat → Bool) (uref : URef α) (o : CbOpts α) (twoPi hundred : α) :
    (usetN ≠ bseto.length → cbcheckM n M K bseto bref0 usetN u isCyl isSph uref o twoPi hundred = .error .usetRows) ∧
      (usetN = bseto.length → o.reorder = false → isAscending bseto = false →
        cbcheckM n M K bseto bref0 usetN u isCyl isSph uref o twoPi hundred = .error .notAscending) ∧
      (usetN = bseto.length → (o.reorder = true ∨ isAscending bseto = true) →
        ∃ out, cbcheckM n M K bseto bref0 usetN u isCyl isSph uref o twoPi hundred = .ok out) := by
  refine ⟨?_, ?_, ?_⟩
  · intro h
    unfold cbcheckM cbcheckWith
    simp [h]
  · intro h hr ha
    unfold cbcheckM cbcheckWith
    simp [h, hr, ha]
  · intro h hor
    unfold cbcheckM cbcheckWith
    rcases hor with hr | ha
    · simp [h, hr]
    · simp [h, ha]

/-- ★ what `cbcheck` returns (every field that needs no dense kernel), for an input it accepts: `m`, `k` converted
(with the original `bseto`) and then reordered; `bset`; the uset row order; `qset = flippv(bset)`; the effective-mass
table `(m[q, b] @ rbg)²`, its percent version and the fixed-base frequencies from the reordered, converted matrices;
the reference DOF inside the b-set by `searchsorted`; `rb_norm=None` resolved by the contiguity of those positions; the
printed rows of the effective-mass table by `em_filt`. -/
theorem cbcheck_returns_def (n : Nat) (M K : NMat α) (bseto bref0 : List Nat) (u : NMat α)
    (isCyl isSph : Nat → Bool) (uref : URef α) (o : CbOpts α) (twoPi hundred : α)
    (hor : o.reorder = true ∨ isAscending bseto = true) :
    ∃ out, cbcheckM n M K bseto bref0 bseto.length u isCyl isSph uref o twoPi hundred = .ok out ∧
      out.bset = (if o.reorder then List.range bseto.length else bseto) ∧
      out.usetRows = (if o.reorder then usetRank bseto else List.range bseto.length) ∧
      out.m = (let m1 : NMat α := match o.conv with | some c => cbconvert M bseto c.1 c.2 false | none => M
               if o.reorder then reorder m1 (fun i => (pvList bseto n false).getD i 0) else m1) ∧
      out.k = (let k1 : NMat α := match o.conv with | some c => cbconvert K bseto c.1 c.2 false | none => K
               if o.reorder then reorder k1 (fun i => (pvList bseto n false).getD i 0) else k1) ∧
      out.qset = flippv out.bset n ∧ out.nq = out.qset.length ∧
      out.effmass = effmass bseto.length (fun i j => out.m (out.qset.getD i 0) (out.bset.getD j 0)) out.rbg ∧
      out.frq = (fun i => RbOps.sqrt (RbOps.abs (out.k (out.qset.getD i 0) (out.qset.getD i 0))) / twoPi) ∧
      out.brefB = out.bref.map (searchsorted out.bset) ∧
      out.bref = (if o.reorder then (List.range bseto.length).filter fun i => bref0.contains (bseto.getD i 0) else bref0) ∧
      out.rbNorm = (match o.rbNorm with | some b => b | none => notContiguous out.brefB) ∧
      out.printed = emFiltRows out.nq out.percent o.emFilt := by
  have hchk : (!o.reorder && !isAscending bseto) = false := by
    rcases hor with h | h <;> simp [h]
  unfold cbcheckM cbcheckWith
  simp only [bne_self_eq_false, Bool.false_eq_true, if_false, hchk]
  refine ⟨_, rfl, rfl, rfl, ?_, ?_, rfl, rfl, rfl, rfl, rfl, rfl, rfl, rfl⟩
  · cases o.conv <;> rfl
  · cases o.conv <;> rfl

/-- ★ option independence: `rb_norm`, `em_filt` and `n_freefree_modes` change nothing of `m`, `k`, `bset`, the uset
order and values, `rbg`, the effective-mass tables, `cb_frq`, the reference DOF - and not whether the call raises: in
particular `em_filt` never makes `cbcheck` fail (finding F66, repaired), it only selects the printed rows, `rb_norm`
acts on `rbs` / `rbe` only, `n_freefree_modes` on the free-free eigensolution only. -/
theorem cbcheck_option_independence (n : Nat) (M K : NMat α) (bseto bref0 : List Nat) (usetN : Nat) (u : NMat α)
    (isCyl isSph : Nat → Bool) (uref : URef α) (o : CbOpts α) (twoPi hundred : α)
    (rbn : Option Bool) (emf : α) (nff : Nat) :
    match cbcheckM n M K bseto bref0 usetN u isCyl isSph uref o twoPi hundred,
      cbcheckM n M K bseto bref0 usetN u isCyl isSph uref { o with rbNorm := rbn, emFilt := emf, nFreeFree := nff }
        twoPi hundred with
    | .ok a, .ok b => a.m = b.m ∧ a.k = b.k ∧ a.bset = b.bset ∧ a.usetRows = b.usetRows ∧ a.u = b.u ∧
        a.uref = b.uref ∧ a.rbg = b.rbg ∧ a.nq = b.nq ∧ a.qset = b.qset ∧ a.effmass = b.effmass ∧
        a.percent = b.percent ∧ a.frq = b.frq ∧ a.bref = b.bref ∧ a.brefB = b.brefB ∧
        (emf = o.emFilt → a.printed = b.printed) ∧ (rbn = o.rbNorm → a.rbNorm = b.rbNorm)
    | .error e, .error e' => e = e'
    | _, _ => False := by
  unfold cbcheckM cbcheckWith
  by_cases h1 : (usetN != bseto.length) = true
  · simp [h1]
  · by_cases h2 : (!o.reorder && !isAscending bseto) = true
    · simp [h1, h2]
    · simp only [h1, h2, Bool.false_eq_true, if_false]
      repeat' constructor
      all_goals first | rfl | (intro h; rw [h])

/-- the `nq = 0` branch (fix 54d5d6d): with no modal DOF the tables have no rows and nothing is printed -/
theorem cbcheck_no_modal_dof (nq : Nat) (percent : NMat α) (emf : α) (h : nq = 0) : emFiltRows nq percent emf = [] := by
  subst h
  unfold emFiltRows
  split <;> simp

/-- `reorder=False` demands an ascending `bseto`; `[6, 0]`-like orders are rejected, `reorder=True` accepts them -/
example : isAscending [0, 1, 2, 9, 10] = true ∧ isAscending [6, 7, 0, 1] = false ∧
    searchsorted [3, 4, 5, 9, 10, 11] 9 = 3 ∧ notContiguous [3, 4, 5, 6, 7, 8] = false ∧
    notContiguous [0, 1, 2, 6, 7, 8] = true := by decide

end dispatch

/-! ## fixed-base frequencies under unit conversion -/

section frq

/-- a modal diagonal entry is unchanged by `cbconvert`: `D_q · C_q = 1` -/
theorem convert_qq_diag_invariant (K : NMat ℝ) (b : List Nat) (lc mc : ℝ) (hl : lc ≠ 0) (hm : 0 < mc) (x : Nat)
    (hx : x ∉ b) : cbconvert K b lc mc false x x = K x x := by
  have hs : Real.sqrt mc ≠ 0 := (Real.sqrt_pos.2 hm).ne'
  have hr : role b x = Role.q := by simp [role, idxIn_of_not_mem hx]
  simp only [cbconvert, hr, convC, convD, RbOps.sqrt, Bool.false_eq_true, if_false]
  field_simp

/-- ★ `cb_frq` does not depend on `conv` (the model's statement for `reorder=False`; with reordering the same entries
are read through the permutation): for every modal DOF `x` the frequency `sqrt|k[x, x]| / 2π` computed from the
converted stiffness equals the one from the original stiffness -/
theorem cbcheck_frq_conv_invariant (K : NMat ℝ) (bseto : List Nat) (n : Nat) (lc mc twoPi : ℝ) (hl : lc ≠ 0) (hm : 0 < mc)
    (i : Nat) (hi : i < (flippv bseto n).length) :
    Real.sqrt |cbconvert K bseto lc mc false ((flippv bseto n).getD i 0) ((flippv bseto n).getD i 0)| / twoPi
      = Real.sqrt |K ((flippv bseto n).getD i 0) ((flippv bseto n).getD i 0)| / twoPi := by
  have hx : (flippv bseto n).getD i 0 = (flippv bseto n)[i] := by simp [List.getD_eq_getElem?_getD, hi]
  have hmem := (mem_flippv.1 (List.getElem_mem hi)).2
  rw [hx, convert_qq_diag_invariant K bseto lc mc hl hm _ hmem]

/-- the modal DOF list does not depend on the ORDER of the b-set (so `cb_frq` lists the same DOF in the same order
with and without reordering) -/
theorem flippv_order_indep (b b' : List Nat) (n : Nat) (h : ∀ x, x ∈ b ↔ x ∈ b') : flippv b n = flippv b' n := by
  unfold flippv
  apply List.filter_congr
  intro x _
  have : b.contains x = b'.contains x := by
    rw [Bool.eq_iff_iff]; simp [h x]
  rw [this]

end frq

/-! ## data recovery matrices: `cbreorder(drm=True)`, `cbconvert(drm=True)` -/

section drm

/-- ★ reordering the columns of a data recovery matrix and the rows of the response the same way leaves the recovered
response unchanged: `D[:, pv] @ x[pv] = D @ x` for every permutation `pv` (`reorder_pv_perm`: `cbreorder`'s index vector
is one, also for a partial b-set, `last=True`, or a b-set in any order) -/
theorem reorder_drm_response {n : Nat} (σ : Equiv.Perm (Fin n)) (D : NMat ℝ) (x : Nat → ℝ) (i : Nat) :
    ∑ c : Fin n, reorderCols D (fun t : Nat => if h : t < n then (σ ⟨t, h⟩ : Nat) else t) i c * x (σ c)
      = ∑ c : Fin n, D i c * x c := by
  have : ∀ c : Fin n, reorderCols D (fun t : Nat => if h : t < n then (σ ⟨t, h⟩ : Nat) else t) i c * x (σ c)
      = D i (σ c) * x (σ c) := by
    intro c
    simp [reorderCols, c.2]
  simp only [this]
  exact Equiv.sum_comp σ (fun c : Fin n => D i c * x c)

/-- ★ `cbconvert(drm=True)`: the converted matrix applied to displacements in the NEW units is the original matrix
applied to the same displacements in the OLD units (`x_old = C · x_new`): recovered responses are unchanged -/
theorem convert_drm_response (n : Nat) (D : NMat ℝ) (b : List Nat) (lc mc : ℝ) (x : Nat → ℝ) (i : Nat) :
    sumN n (fun c => cbconvert D b lc mc true i c * x c)
      = sumN n (fun c => D i c * (convC lc mc (role b c) * x c)) := by
  apply sumN_congr
  intro c _
  simp only [cbconvert, if_true]
  ring

/-- and it is undone by the inverse factors -/
theorem convert_drm_roundtrip (D : NMat ℝ) (b : List Nat) (lc mc : ℝ) (hl : lc ≠ 0) (hm : 0 < mc) (i j : Nat) :
    cbconvert (cbconvert D b lc mc true) b (1 / lc) (1 / mc) true i j = D i j := by
  have h := (convert_inverse lc mc hl hm (role b j)).1
  simp only [cbconvert, if_true]
  rw [mul_assoc, h, mul_one]

/-- non-vacuity: the docstring example of `cbreorder(drm, [0, 1, 2, 3], drm=True, last=True)` on 5 columns -/
example : pvList [0, 1, 2, 3] 5 true = [4, 0, 1, 2, 3] := by decide

end drm

/-! ## the unit factors in the source (translated: `Generated/RigidBodyConsts.lean`) -/

section consts
open PyYetiVerif.Generated.RigidBodyConsts

/-- ★ the string conversions are mutually inverse: the length factors of `'m2e'` and `'e2m'` (`1/0.0254`, `0.0254`)
exactly, the mass factors (`0.005710147154735817`, `175.12683524637913`) to better than `1e-16` relative - so
`cbconvert(cbconvert(M, b, 'm2e'), b, 'e2m')` returns `M` up to round-off; and the default `g` of `mk_net_drms` is
standard gravity `9.80665 m/s²` expressed with the same inch -/
theorem conv_factors_inverse :
    ((m2eLenNum : ℚ) / m2eLenDen) * ((e2mLenNum : ℚ) / e2mLenDen) = 1 ∧
      |((m2eMassNum : ℚ) / m2eMassDen) * ((e2mMassNum : ℚ) / e2mMassDen) - 1| < 1 / 10 ^ 16 ∧
      ((gNum : ℚ) / gDen) * ((e2mLenNum : ℚ) / e2mLenDen) = 980665 / 100000 := by
  refine ⟨?_, ?_, ?_⟩
  · norm_num [m2eLenNum, m2eLenDen, e2mLenNum, e2mLenDen]
  · rw [abs_lt]
    constructor <;> norm_num [m2eMassNum, m2eMassDen, e2mMassNum, e2mMassDen]
  · norm_num [gNum, gDen, e2mLenNum, e2mLenDen]

end consts

end PyYetiVerif.C06
