import PyYetiVerif.Lemmas.RigidBody
import PyYetiVerif.Model.RigidBodyPrinc
import PyYetiVerif.Props.C06
import Mathlib.LinearAlgebra.Matrix.Charpoly.Basic
import Mathlib.Algebra.Polynomial.Roots
import Mathlib.Data.List.Sort
import Mathlib.Data.Matrix.Block
/-!
# C06 (second extension) — `cgmass(all6=True)`: principal moments of inertia and radii of gyration

`linalg.eigh` is an external kernel; the theorems are relative to its specification (`V` orthonormal,
`Vᵀ·I·V = diag(w)`, `w` ascending - residuals measured at run time by the correspondence).
-/
set_option linter.unusedVariables false
set_option linter.unusedSimpArgs false
set_option linter.unusedSectionVars false
namespace PyYetiVerif.C06
open PyYetiVerif.RigidBody Matrix Polynomial

section eig

/-- an `eigh` result determines the characteristic polynomial: `charpoly I = ∏ (X - w_i)` -/
theorem eigh_spec_charpoly (I V : Matrix (Fin 3) (Fin 3) ℝ) (w : Fin 3 → ℝ) (hO : Vᵀ * V = 1)
    (hD : Vᵀ * I * V = Matrix.diagonal w) : I.charpoly = ∏ i, (X - C (w i)) := by
  have hO' : V * Vᵀ = 1 := mul_eq_one_comm.1 hO
  rw [← Matrix.charpoly_diagonal, ← hD, Matrix.mul_assoc, Matrix.charpoly_mul_comm, Matrix.mul_assoc, hO',
    Matrix.mul_one]

/-- ★ the principal moments of inertia are well defined and frame independent.  Let `(w, V)` meet the
specification of `eigh` for the cg inertia `I` and `(w', V')` for `I' = Rᵀ·I·R`, the same inertia seen from a
basic frame rotated by any orthogonal `R` (`R = 1`: another admissible answer of `eigh` for the same matrix).
Then `w' = w`: `princ_I` is the list of eigenvalues of the cg inertia, smallest first - independent of the frame,
and (`principal_inertias_ref_indep`) of the reference point the 6x6 mass was given at. -/
theorem principal_inertias_invariant (I V V' R : Matrix (Fin 3) (Fin 3) ℝ) (w w' : Fin 3 → ℝ)
    (hR : Rᵀ * R = 1) (hO : Vᵀ * V = 1) (hD : Vᵀ * I * V = Matrix.diagonal w) (hw : w 0 ≤ w 1 ∧ w 1 ≤ w 2)
    (hO' : V'ᵀ * V' = 1) (hD' : V'ᵀ * (Rᵀ * I * R) * V' = Matrix.diagonal w') (hw' : w' 0 ≤ w' 1 ∧ w' 1 ≤ w' 2) :
    w' = w := by
  have hR' : R * Rᵀ = 1 := mul_eq_one_comm.1 hR
  have hc : (Rᵀ * I * R).charpoly = I.charpoly := by
    rw [Matrix.mul_assoc, Matrix.charpoly_mul_comm, Matrix.mul_assoc, hR', Matrix.mul_one]
  have h1 := eigh_spec_charpoly I V w hO hD
  have h2 := eigh_spec_charpoly (Rᵀ * I * R) V' w' hO' hD'
  rw [hc, h1] at h2
  have hroots : ∀ v : Fin 3 → ℝ, (∏ i, (X - C (v i))).roots = (Finset.univ.val.map v) := by
    intro v
    have hf : (fun i => X - C (v i)) = (fun a : ℝ => (X : ℝ[X]) - C a) ∘ v := rfl
    rw [Finset.prod_eq_multiset_prod, hf, ← Multiset.map_map, Polynomial.roots_multiset_prod_X_sub_C]
  have hm : (Finset.univ.val.map w) = (Finset.univ.val.map w') := by
    rw [← hroots w, ← hroots w', h2]
  rw [Fin.univ_val_map, Fin.univ_val_map, Multiset.coe_eq_coe] at hm
  have e : ∀ v : Fin 3 → ℝ, List.ofFn v = [v 0, v 1, v 2] := by
    intro v; simp [List.ofFn_succ]
  rw [e w, e w'] at hm
  have hs : ∀ v : Fin 3 → ℝ, v 0 ≤ v 1 ∧ v 1 ≤ v 2 → List.Pairwise (· ≤ ·) [v 0, v 1, v 2] := by
    intro v hv
    simp only [List.pairwise_cons, List.mem_cons, List.not_mem_nil, or_false, forall_eq_or_imp, forall_eq,
      List.Pairwise.nil, and_true, IsEmpty.forall_iff, implies_true]
    exact ⟨⟨hv.1, hv.1.trans hv.2⟩, hv.2⟩
  have := List.Perm.eq_of_pairwise' (hs w hw) (hs w' hw') hm
  simp only [List.cons.injEq, and_true] at this
  funext i
  fin_cases i
  · exact this.1.symm
  · exact this.2.1.symm
  · exact this.2.2.symm

/-- non-vacuity: `I = diag(1, 2, 3)`, `V = 1` meets the specification -/
example : (1 : Matrix (Fin 3) (Fin 3) ℝ)ᵀ * Matrix.diagonal ![1, 2, 3] * 1 = Matrix.diagonal ![1, 2, 3] ∧
    ((![1, 2, 3] : Fin 3 → ℝ) 0 ≤ (![1, 2, 3] : Fin 3 → ℝ) 1) := by
  constructor
  · simp
  · simp

/-- the inertia block `cgmass` hands to `eigh` does not depend on the reference point the mass was given at: for the
rigid transform of a cg mass to ANY reference point `r` it is the cg inertia `J` itself (from `cgmass_recovers`) - so
the principal inertias are the eigenvalues of the cg inertia whatever the reference point -/
theorem principal_inertias_ref_indep (m : ℝ) (cg r : V3 ℝ) (J : NMat ℝ) (hm : m ≠ 0) (i j : Nat) (hi : i < 3)
    (hj : j < 3) :
    inertiaBlock (cgmass (mass6 6 (rbBlock cg r) (cgMassMat m m m J))).1 i j = J i j := by
  have h := (cgmass_recovers m cg r J hm).1 (i + 3) (j + 3) (by omega) (by omega)
  unfold inertiaBlock
  rw [h]
  have h1 : ¬ (i + 3 < 3) := by omega
  have h2 : ¬ (j + 3 < 3) := by omega
  simp [cgMassMat, h1, h2]

/-- the mass matrix in a frame rotated by `R` (`T6 = diag(R, R)`): with `M = [[m·1, m·X], [m·Xᵀ, J + m·XᵀX]]`
(`X` = the skew matrix of the cg offset), `T6ᵀ·M·T6` has the same form with `X' = Rᵀ·X·R` (again skew: an offset in the
new frame) and cg inertia `J' = Rᵀ·J·R` - the matrix `principal_inertias_invariant` is about -/
theorem rotated_mass_blocks (R X J : Matrix (Fin 3) (Fin 3) ℝ) (m : ℝ) (hR : Rᵀ * R = 1) (hX : Xᵀ = -X) :
    (Matrix.fromBlocks R 0 0 R)ᵀ * Matrix.fromBlocks (m • (1 : Matrix (Fin 3) (Fin 3) ℝ)) (m • X) (m • Xᵀ) (J + m • (Xᵀ * X))
        * Matrix.fromBlocks R 0 0 R
      = Matrix.fromBlocks (m • (1 : Matrix (Fin 3) (Fin 3) ℝ)) (m • (Rᵀ * X * R)) (m • (Rᵀ * X * R)ᵀ)
          (Rᵀ * J * R + m • ((Rᵀ * X * R)ᵀ * (Rᵀ * X * R))) ∧
      (Rᵀ * X * R)ᵀ = -(Rᵀ * X * R) := by
  have hR' : R * Rᵀ = 1 := mul_eq_one_comm.1 hR
  constructor
  · rw [Matrix.fromBlocks_transpose, Matrix.fromBlocks_multiply, Matrix.fromBlocks_multiply]
    simp only [Matrix.transpose_zero, Matrix.zero_mul, Matrix.mul_zero, add_zero, zero_add, Matrix.mul_smul,
      Matrix.smul_mul, Matrix.mul_one, Matrix.mul_add, Matrix.add_mul]
    have e1 : Rᵀ * R = 1 := hR
    have e2 : (Rᵀ * X * R)ᵀ = Rᵀ * Xᵀ * R := by
      simp [Matrix.transpose_mul, Matrix.mul_assoc]
    have e3 : Rᵀ * Xᵀ * R * (Rᵀ * X * R) = Rᵀ * (Xᵀ * X) * R := by
      calc Rᵀ * Xᵀ * R * (Rᵀ * X * R) = Rᵀ * Xᵀ * (R * Rᵀ) * X * R := by simp only [Matrix.mul_assoc]
        _ = Rᵀ * (Xᵀ * X) * R := by rw [hR', Matrix.mul_one]; simp only [Matrix.mul_assoc]
    simp only [e1, e2, e3, smul_zero, add_zero, zero_add]
  · simp only [Matrix.transpose_mul, Matrix.transpose_transpose, hX, Matrix.mul_neg, Matrix.neg_mul, Matrix.mul_assoc]

end eig

section gyr

/-- ★ principal radii of gyration: with equal translational masses (`mcg[:3, :3] = m·1`) and orthonormal `V`,
`m2 = Vᵀ·(m·1)·V` has the diagonal `m`, so `princ_gyr[i] = sqrt(w[i] / m)` - the radius of gyration about the `i`-th
principal axis -/
theorem principal_gyr_eq (mcg V : NMat ℝ) (w : Nat → ℝ) (m : ℝ)
    (hm : ∀ a b, a < 3 → b < 3 → mcg a b = if a = b then m else 0)
    (hO : ∀ i j, i < 3 → j < 3 → eighResidO V i j = 0) (i : Nat) (hi : i < 3) :
    princMass mcg V i = m ∧ princGyr mcg w V i = Real.sqrt (w i / m) := by
  have h1 : princMass mcg V i = m := by
    have ho := hO i i hi hi
    simp only [eighResidO, if_true, sumN, zero_add] at ho
    simp only [princMass, sumN, zero_add]
    rw [hm 0 0 (by norm_num) (by norm_num), hm 0 1 (by norm_num) (by norm_num), hm 0 2 (by norm_num) (by norm_num),
      hm 1 0 (by norm_num) (by norm_num), hm 1 1 (by norm_num) (by norm_num), hm 1 2 (by norm_num) (by norm_num),
      hm 2 0 (by norm_num) (by norm_num), hm 2 1 (by norm_num) (by norm_num), hm 2 2 (by norm_num) (by norm_num)]
    simp only [if_true]
    norm_num
    linear_combination m * ho
  exact ⟨h1, by simp only [princGyr, h1]; rfl⟩

/-- the model's two residuals are the matrix statements of the `eigh` specification -/
theorem eighResid_spec (I V : NMat ℝ) (w : Nat → ℝ)
    (hO : ∀ i j, i < 3 → j < 3 → eighResidO V i j = 0) (hD : ∀ i j, i < 3 → j < 3 → eighResidD I V w i j = 0) :
    (Matrix.of fun a b : Fin 3 => V a b)ᵀ * (Matrix.of fun a b : Fin 3 => V a b) = 1 ∧
      (Matrix.of fun a b : Fin 3 => V a b)ᵀ * (Matrix.of fun a b : Fin 3 => I a b) * (Matrix.of fun a b : Fin 3 => V a b)
        = Matrix.diagonal fun i : Fin 3 => w i := by
  constructor
  · ext i j
    have := hO i j i.2 j.2
    simp only [eighResidO, sumN, zero_add] at this
    simp only [Matrix.mul_apply, Matrix.transpose_apply, Matrix.of_apply, Fin.sum_univ_three, Matrix.one_apply,
      Fin.val_zero, Fin.val_one, Fin.val_two]
    by_cases h : i = j
    · subst h; simp only [if_true] at this ⊢; linear_combination this
    · have h' : (i : Nat) ≠ j := fun e => h (Fin.ext e)
      simp only [h, h', if_false] at this ⊢; linear_combination this
  · ext i j
    have := hD i j i.2 j.2
    simp only [eighResidD, sumN, zero_add] at this
    simp only [Matrix.mul_apply, Matrix.transpose_apply, Matrix.of_apply, Fin.sum_univ_three, Matrix.diagonal_apply,
      Fin.val_zero, Fin.val_one, Fin.val_two]
    by_cases h : i = j
    · subst h; simp only [if_true] at this ⊢; linear_combination this
    · have h' : (i : Nat) ≠ j := fun e => h (Fin.ext e)
      simp only [h, h', if_false] at this ⊢; linear_combination this

end gyr

end PyYetiVerif.C06
