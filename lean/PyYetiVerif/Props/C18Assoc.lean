import PyYetiVerif.Props.C18Ulvs
import PyYetiVerif.Lemmas.UsetTranAssoc
import PyYetiVerif.Model.UsetTranShapes
/-!
C18, `n2p.formulvs`: associativity of the list matrix product (`Uset.dot`, rectangular matrices: `Uset.Rect`) and
the composition of ULVS along a tree path: `ULVS(a → c) = ULVS(a → b) · ULVS(b → c)`.
-/
set_option linter.constructorNameAsVariable false
set_option linter.unusedSectionVars false
namespace PyYetiVerif.C18
open PyYetiVerif.Uset PyYetiVerif.Locate

section assoc
variable {α : Type} [Semiring α] [DecidableEq α]

/-- `np.dot(u, v)` where either operand may still be the scalar `1.0` that `formulvs` returns for `seup == sedn` -/
def mulU (u v : Ulvs α) : Except TErr (Ulvs α) :=
  match v with
  | .one => .ok u
  | .mat b => (dotU u b).map .mat

theorem rectB_iff (A : M α) : rectB A = true ↔ Rect A := by
  simp [rectB, Rect, List.all_eq_true]

/-- the test `ShapesAgree` (`Model/UsetTranShapes.lean`: every matrix a rectangular array, inner dimensions of
neighbours equal) gives the rectangularity the associativity theorems ask for -/
theorem ShapesAgree_rect : ∀ (l : List (M α)), ShapesAgree l = true → ∀ L ∈ l, Rect L
  | [], _, L, hL => by cases hL
  | [L], h, L', hL' => by
      simp only [List.mem_singleton] at hL'
      subst hL'
      exact (rectB_iff _).mp (by simpa [ShapesAgree] using h)
  | L :: L' :: rest, h, M, hM => by
      simp only [ShapesAgree, Bool.and_eq_true] at h
      rcases List.mem_cons.mp hM with rfl | hM
      · exact (rectB_iff _).mp h.1.1
      · exact ShapesAgree_rect (L' :: rest) h.2 M hM

/-- … and a list that passes it multiplies without a `ValueError` -/
theorem ShapesAgree_chain_ok : ∀ (l : List (M α)) (X : M α), ShapesAgree (X :: l) = true →
    ∃ Y, chainM X l = .ok Y ∧ Y.c = (l.getLast?.getD X).c ∧ Y.r.length = X.r.length
  | [], X, _ => ⟨X, rfl, rfl, rfl⟩
  | L :: t, X, h => by
      simp only [ShapesAgree, Bool.and_eq_true, beq_iff_eq] at h
      have hd : dot X L = .ok ⟨X.r.map (fun row => rowComb L.c row L.r), L.c⟩ := by
        unfold dot; rw [if_neg (by simpa using h.1.2)]
      have h' : ShapesAgree ((⟨X.r.map (fun row => rowComb L.c row L.r), L.c⟩ : M α) :: t) = true := by
        cases t with
        | nil =>
            simp only [ShapesAgree]
            rw [rectB_iff]
            exact dot_rect ((rectB_iff _).mp (by
              have := h.2; simpa [ShapesAgree] using this)) hd
        | cons L'' t' =>
            have h2 := h.2
            simp only [ShapesAgree, Bool.and_eq_true, beq_iff_eq] at h2 ⊢
            refine ⟨⟨?_, h2.1.2⟩, h2.2⟩
            rw [rectB_iff]
            exact dot_rect ((rectB_iff _).mp h2.1.1) hd
      obtain ⟨Y, hY, hc, hr⟩ := ShapesAgree_chain_ok t _ h'
      refine ⟨Y, by simp only [chainM, hd, bind, Except.bind]; exact hY, ?_, by simpa using hr⟩
      cases t with
      | nil => simpa using hc
      | cons L'' t' =>
          rw [List.getLast?_cons_cons]
          cases hz : (L'' :: t').getLast? with
          | none => simp at hz
          | some z => rw [hz] at hc; simpa using hc

/-- **associativity of the matrix product** (`np.dot` / `@` of the model), the form with three matrices:
when `A`, `B`, `C` are rectangular, `(A · B) · C` and `A · (B · C)` are the same value - the same matrix, or the
`ValueError` of a pair of inner dimensions that disagree -/
theorem dot_assoc_rect (A B C : M α) (hA : Rect A) (hB : Rect B) (hC : Rect C) :
    (dot A B >>= fun ab => dot ab C) = (dot B C >>= fun bc => dot A bc) :=
  dot_assoc A B C hA hB hC

theorem dotChain_mat : ∀ (l : List (M α)) (X : M α), dotChain (.mat X) l = (chainM X l).map .mat
  | [], _ => rfl
  | L :: t, X => by
      simp only [dotChain, chainM, dotU]
      cases dot X L with
      | error e => rfl
      | ok a => simp only [bind, Except.bind]; exact dotChain_mat t a

theorem dotChain_one_cons (L : M α) (t : List (M α)) : dotChain .one (L :: t) = dotChain (.mat L) t := by
  simp only [dotChain, dotU, bind, Except.bind]

theorem mulU_one_left (v : Ulvs α) : mulU .one v = .ok v := by
  cases v <;> rfl

/-- **associativity of the chain of `formulvs`**: the left-to-right product through `l₁ ++ l₂` (what the loop
computes) is the product through `l₁` times the product through `l₂` - the same value, or the same `ValueError`. -/
theorem dotChain_one_append (l₁ l₂ : List (M α)) (h : ∀ L ∈ l₁ ++ l₂, Rect L) :
    dotChain .one (l₁ ++ l₂) =
      (dotChain .one l₁ >>= fun u => dotChain .one l₂ >>= fun v => mulU u v) := by
  rw [dotChain_append]
  cases l₁ with
  | nil =>
      simp only [dotChain, bind, Except.bind]
      cases dotChain .one l₂ with
      | error e => rfl
      | ok v => simp only [mulU_one_left]
  | cons L₁ t₁ =>
      have hL₁ : Rect L₁ := h L₁ (by simp)
      have ht₁ : ∀ M ∈ t₁, Rect M := fun M hM => h M (by simp [hM])
      rw [dotChain_one_cons, dotChain_mat]
      cases hX : chainM L₁ t₁ with
      | error e => rfl
      | ok X =>
          have hXr : Rect X := chainM_rect t₁ L₁ X hL₁ ht₁ hX
          simp only [Except.map, bind, Except.bind]
          cases l₂ with
          | nil => rfl
          | cons L t =>
              have hL : Rect L := h L (by simp)
              have ht : ∀ M ∈ t, Rect M := fun M hM => h M (by simp [hM])
              rw [dotChain_one_cons, dotChain_mat, dotChain_mat]
              have key := chainM_assoc t X L hXr hL ht
              simp only [chainM]
              rw [key]
              cases chainM L t with
              | error e => rfl
              | ok Z => rfl

theorem forall₂_append' {β γ : Type} {R : β → γ → Prop} {a c : List β} {b d : List γ}
    (h₁ : List.Forall₂ R a b) (h₂ : List.Forall₂ R c d) : List.Forall₂ R (a ++ c) (b ++ d) := by
  induction h₁ with
  | nil => exact h₂
  | cons hab _ ih => exact .cons hab ih

theorem forall₂_fun_unique {β γ ε : Type} (f : β → Except ε γ) {p : List β} {l l' : List γ}
    (h : List.Forall₂ (fun e L => f e = .ok L) p l) (h' : List.Forall₂ (fun e L => f e = .ok L) p l') :
    l = l' := by
  induction h generalizing l' with
  | nil => cases h'; rfl
  | cons hab _ ih =>
      cases h' with
      | cons hab' ht' =>
          rw [hab] at hab'
          simp only [Except.ok.injEq] at hab'
          rw [hab', ih ht']

theorem Downstream_unique {selist : List (Nat × Nat)} {s x y : Nat} (hx : Downstream selist s x)
    (hy : Downstream selist s y) : x = y := by
  obtain ⟨r, row, hf, hr, rfl⟩ := hx
  obtain ⟨r', row', hf', hr', rfl⟩ := hy
  rw [hf] at hf'
  simp only [Except.ok.injEq] at hf'
  subst hf'
  rw [hr] at hr'
  simp only [Option.some.injEq] at hr'
  rw [hr']

end assoc

section compose
variable {κ : Type} [DecidableEq κ] [LT κ] [DecidableLT κ] [LE κ] [DecidableLE κ] (mkKey : Nat → Nat → κ)
variable {α : Type} [Semiring α] [DecidableEq α]

/-- `formulvs_path_composes` with only the rectangularity of the levels as shape hypothesis (what the proof uses)

**ULVS composes along a tree path**: for superelements `a → b → c` (`b` strictly between: `a ≠ b`, `b ≠ c`,
`a ≠ c`, neither `a` nor `b` is its own downstream SE, and the walk from `a` down to `b` does not meet `c`),
whenever the three calls return, `formulvs(nas, a, c) = formulvs(nas, a, b) @ formulvs(nas, b, c)` - in the order
the code multiplies (upstream factor on the left), without the shortcut, for any `keepcset` / `gset`.

Shape hypothesis (`hshape`): the level matrices along the walk from `a` to `c` pass the decidable test
`ShapesAgree` (rectangular arrays whose inner dimensions agree); only the rectangularity is used - the inner
dimensions are what `np.dot` checks itself (`dotChain_one_append` is an equality of `Except` values). -/
theorem formulvs_path_composes_rect (mk : Masks) (d : NasT α) (a b c : Nat) (kc gset : Bool) (uab ubc uac : Ulvs α)
    (hab : formulvs mkKey mk d none a b kc false gset = .ok uab)
    (hbc : formulvs mkKey mk d none b c kc false gset = .ok ubc)
    (hac : formulvs mkKey mk d none a c kc false gset = .ok uac)
    (hab_ne : a ≠ b) (hbc_ne : b ≠ c) (hac_ne : a ≠ c)
    (ha : ¬ Downstream d.nas.selist a a) (hb : ¬ Downstream d.nas.selist b b)
    (hpath : ∀ sd p₁, Downstream d.nas.selist a sd →
      ulvsPath d.nas.selist b (d.nas.selist.length + 1) a sd = some p₁ → ∀ e ∈ p₁, e.2 ≠ c)
    (hrectl : ∀ sd p levels, Downstream d.nas.selist a sd →
      ulvsPath d.nas.selist c (d.nas.selist.length + 1) a sd = some p →
      List.Forall₂ (fun e L => ulvsLevel mkKey mk d e.1 e.2 kc gset = .ok L) p levels →
      ∀ L ∈ levels, Rect L) :
    mulU uab ubc = .ok uac := by
  have third : ∀ (s t : Nat) (u : Ulvs α), formulvs mkKey mk d none s t kc false gset = .ok u → s ≠ t →
      ¬ Downstream d.nas.selist s s → ∃ sd, Downstream d.nas.selist s sd ∧
        ∃ (path : List (Nat × Nat)) (levels : List (M α)),
          ulvsPath d.nas.selist t (d.nas.selist.length + 1) s sd = some path ∧
          List.Forall₂ (fun e L => ulvsLevel mkKey mk d e.1 e.2 kc gset = .ok L) path levels ∧
          dotChain .one levels = .ok u := by
    intro s t u h hst hs
    obtain ⟨sd, hsd, hcase⟩ := formulvs_chain_is_product mkKey mk d none s t kc false gset u h
    refine ⟨sd, hsd, ?_⟩
    rcases hcase with ⟨hdeg, _⟩ | ⟨_, p, hst', _⟩ | ⟨_, _, hthird⟩
    · rcases hdeg with rfl | rfl
      · exact absurd hsd hs
      · exact absurd rfl hst
    · exact absurd hst'.1 (by simp)
    · exact hthird
  obtain ⟨sda, hsda, p₁, l₁, hp₁, hl₁, hc₁⟩ := third a b uab hab hab_ne ha
  obtain ⟨sdb, hsdb, p₂, l₂, hp₂, hl₂, hc₂⟩ := third b c ubc hbc hbc_ne hb
  obtain ⟨sda', hsda', p, l, hp, hl, hc⟩ := third a c uac hac hac_ne ha
  have := Downstream_unique hsda' hsda
  subst this
  obtain ⟨r, row, hf, hrow, rfl⟩ := hsdb
  have hsplit := ulvsPath_split d.nas.selist c b (d.nas.selist.length + 1) a sda' p₁ hbc_ne hp₁
    (fun e he hec => absurd hec (hpath sda' p₁ hsda hp₁ e he)) r row hf hrow (d.nas.selist.length + 1) p₂ hp₂
  have hmono := ulvsPath_mono d.nas.selist c (d.nas.selist.length + 1)
    (d.nas.selist.length + 1 + (d.nas.selist.length + 1)) (by omega) a sda' p hp
  rw [hmono] at hsplit
  simp only [Option.some.injEq] at hsplit
  subst hsplit
  have hlev : l = l₁ ++ l₂ :=
    forall₂_fun_unique (fun e : Nat × Nat => ulvsLevel mkKey mk d e.1 e.2 kc gset) hl (forall₂_append' hl₁ hl₂)
  have hrect := hrectl sda' _ l hsda hp hl
  rw [hlev] at hc hrect
  rw [dotChain_one_append l₁ l₂ hrect, hc₁, hc₂] at hc
  exact hc

/-- **ULVS composes along a tree path**: for superelements `a → b → c` (`b` strictly between: `a ≠ b`, `b ≠ c`,
`a ≠ c`, neither `a` nor `b` is its own downstream SE, and the walk from `a` down to `b` does not meet `c`),
whenever the three calls return, `formulvs(nas, a, c) = formulvs(nas, a, b) @ formulvs(nas, b, c)` - in the order
the code multiplies (upstream factor on the left), without the shortcut, for any `keepcset` / `gset`.

Shape hypothesis (`hshape`): the level matrices along the walk from `a` to `c` pass the decidable test
`ShapesAgree` (rectangular arrays whose inner dimensions agree); only the rectangularity is used - the inner
dimensions are what `np.dot` checks itself (`dotChain_one_append` is an equality of `Except` values). -/
theorem formulvs_path_composes (mk : Masks) (d : NasT α) (a b c : Nat) (kc gset : Bool) (uab ubc uac : Ulvs α)
    (hab : formulvs mkKey mk d none a b kc false gset = .ok uab)
    (hbc : formulvs mkKey mk d none b c kc false gset = .ok ubc)
    (hac : formulvs mkKey mk d none a c kc false gset = .ok uac)
    (hab_ne : a ≠ b) (hbc_ne : b ≠ c) (hac_ne : a ≠ c)
    (ha : ¬ Downstream d.nas.selist a a) (hb : ¬ Downstream d.nas.selist b b)
    (hpath : ∀ sd p₁, Downstream d.nas.selist a sd →
      ulvsPath d.nas.selist b (d.nas.selist.length + 1) a sd = some p₁ → ∀ e ∈ p₁, e.2 ≠ c)
    (hshape : ∀ sd p levels, Downstream d.nas.selist a sd →
      ulvsPath d.nas.selist c (d.nas.selist.length + 1) a sd = some p →
      List.Forall₂ (fun e L => ulvsLevel mkKey mk d e.1 e.2 kc gset = .ok L) p levels →
      ShapesAgree levels = true) :
    mulU uab ubc = .ok uac :=
  formulvs_path_composes_rect mkKey mk d a b c kc gset uab ubc uac hab hbc hac hab_ne hbc_ne hac_ne ha hb hpath
    (fun sd p levels h1 h2 h3 => ShapesAgree_rect levels (hshape sd p levels h1 h2 h3))


/-- the list `ulvsLevels` (the one the driver tests with `fshapes`) is the list of levels along the path -/
theorem ulvsLevels_complete (mk : Masks) (d : NasT α) (sedn : Nat) (kc gset : Bool) :
    ∀ (fuel seup sedown : Nat) (path : List (Nat × Nat)) (levels : List (M α)),
      ulvsPath d.nas.selist sedn fuel seup sedown = some path →
      List.Forall₂ (fun e L => ulvsLevel mkKey mk d e.1 e.2 kc gset = .ok L) path levels →
      ulvsLevels mkKey mk d sedn kc gset fuel seup sedown = .ok levels
  | 0, _, _, _, _, h, _ => by simp [ulvsPath] at h
  | fuel + 1, seup, sedown, path, levels, h, hl => by
      unfold ulvsPath at h
      unfold ulvsLevels
      split at h
      · rename_i he
        simp only [Option.some.injEq] at h
        subst h
        cases hl with
        | cons h1 ht =>
            cases ht
            simp only at h1
            simp only [h1, bind, Except.bind, if_pos he]
      · rename_i hne
        cases hf : findse d.nas.selist sedown with
        | error e => rw [hf] at h; cases h
        | ok r =>
            rw [hf] at h
            simp only at h
            cases hr : d.nas.selist[r]? with
            | none => rw [hr] at h; cases h
            | some row =>
                rw [hr] at h
                simp only [Option.map_eq_some_iff] at h
                obtain ⟨p', hp', rfl⟩ := h
                cases hl with
                | cons h1 ht =>
                    simp only at h1
                    have ih := ulvsLevels_complete mk d sedn kc gset fuel sedown row.2 p' _ hp' ht
                    simp only [h1, bind, Except.bind, if_neg hne, liftE, hr, ih]

/-- … conversely every list it returns is the list of levels along the path -/
theorem ulvsLevels_sound (mk : Masks) (d : NasT α) (sedn : Nat) (kc gset : Bool) :
    ∀ (fuel seup sedown : Nat) (levels : List (M α)),
      ulvsLevels mkKey mk d sedn kc gset fuel seup sedown = .ok levels →
      ∃ path, ulvsPath d.nas.selist sedn fuel seup sedown = some path ∧
        List.Forall₂ (fun e L => ulvsLevel mkKey mk d e.1 e.2 kc gset = .ok L) path levels
  | 0, _, _, _, h => by simp [ulvsLevels] at h
  | fuel + 1, seup, sedown, levels, h => by
      unfold ulvsLevels at h
      obtain ⟨u1, hu1, h⟩ := bind_ok h
      split at h
      · rename_i he
        simp only [Except.ok.injEq] at h
        subst h
        exact ⟨[(seup, sedown)], by simp [ulvsPath, he], .cons hu1 .nil⟩
      · rename_i hne
        obtain ⟨r, hr, h⟩ := bind_ok h
        have hf := liftE_ok' hr
        cases hrow : d.nas.selist[r]? with
        | none => rw [hrow] at h; cases h
        | some row =>
            rw [hrow] at h
            simp only at h
            obtain ⟨rest, hrest, h⟩ := bind_ok h
            simp only [Except.ok.injEq] at h
            subst h
            obtain ⟨p, hp, hl⟩ := ulvsLevels_sound mk d sedn kc gset fuel sedown row.2 rest hrest
            exact ⟨(seup, sedown) :: p, by simp [ulvsPath, hne, hf, hrow, hp], .cons hu1 hl⟩

/-- `formulvs_path_composes` with the shape hypothesis in the form the check runs it on every generated case
(driver command `fshapes` = `shapesTest`: the levels from `a` down to `c` pass `ShapesAgree`) -/
theorem formulvs_path_composes_of_test (mk : Masks) (d : NasT α) (a b c : Nat) (kc gset : Bool)
    (uab ubc uac : Ulvs α) (lv : List (M α))
    (hab : formulvs mkKey mk d none a b kc false gset = .ok uab)
    (hbc : formulvs mkKey mk d none b c kc false gset = .ok ubc)
    (hac : formulvs mkKey mk d none a c kc false gset = .ok uac)
    (hab_ne : a ≠ b) (hbc_ne : b ≠ c) (hac_ne : a ≠ c)
    (ha : ¬ Downstream d.nas.selist a a) (hb : ¬ Downstream d.nas.selist b b)
    (hpath : ∀ sd p₁, Downstream d.nas.selist a sd →
      ulvsPath d.nas.selist b (d.nas.selist.length + 1) a sd = some p₁ → ∀ e ∈ p₁, e.2 ≠ c)
    (htest : shapesTest mkKey mk d a c kc gset = .ok (true, lv)) :
    mulU uab ubc = .ok uac := by
  refine formulvs_path_composes mkKey mk d a b c kc gset uab ubc uac hab hbc hac hab_ne hbc_ne hac_ne ha hb hpath ?_
  intro sd p levels hsd hp hl
  obtain ⟨r, row, hf, hrow, rfl⟩ := hsd
  have hlev := ulvsLevels_complete mkKey mk d c kc gset _ a row.2 p levels hp hl
  unfold shapesTest at htest
  simp only [hf, liftE, bind, Except.bind, hrow, hlev, Except.ok.injEq, Prod.mk.injEq] at htest
  exact htest.1

end compose

/-! ## non-vacuity -/

section examples

/-- three rectangular integer matrices 2x2 · 2x3 · 3x1: both orders give `[[62], [140]]` -/
example : Rect (⟨[[1, 2], [3, 4]], 2⟩ : M Int) ∧ Rect (⟨[[1, 0, 2], [0, 1, 3]], 3⟩ : M Int) ∧
    Rect (⟨[[4], [5], [6]], 1⟩ : M Int) ∧
    (dot (⟨[[1, 2], [3, 4]], 2⟩ : M Int) ⟨[[1, 0, 2], [0, 1, 3]], 3⟩ >>= fun ab => dot ab ⟨[[4], [5], [6]], 1⟩) =
      .ok ⟨[[62], [140]], 1⟩ := by decide

/-- … and a chain cut after its first level -/
example : ShapesAgree ([⟨[[1, 2], [3, 4]], 2⟩, ⟨[[1, 0, 2], [0, 1, 3]], 3⟩, ⟨[[4], [5], [6]], 1⟩] : List (M Int)) = true ∧
    dotChain .one ([⟨[[1, 2], [3, 4]], 2⟩] ++ [⟨[[1, 0, 2], [0, 1, 3]], 3⟩, ⟨[[4], [5], [6]], 1⟩] : List (M Int)) =
      .ok (.mat ⟨[[62], [140]], 1⟩) ∧
    mulU (.mat (⟨[[1, 2], [3, 4]], 2⟩ : M Int)) (.mat ⟨[[16], [23]], 1⟩) = .ok (.mat ⟨[[62], [140]], 1⟩) := by
  decide

end examples

/-! a tree of depth two: SE 20 (a-set: scalar point 3, connected to point 2 of SE 10) upstream of SE 10 (a-set:
points 1, 2) upstream of the residual (rows 5, 6, 7; `phg` given) -/
section examples2
open PyYetiVerif.Generated.UsetMask
set_option linter.unusedSimpArgs false

def exNasT3 : NasT Int where
  nas := { selist := [(20, 10), (10, 0), (0, 0)],
           uset := [(20, [(3, 0, 2097154)]), (10, [(1, 0, 2097154), (2, 0, 4194304)]),
                    (0, [(5, 0, 2097154), (6, 0, 4), (7, 0, 2097154)])],
           dnids := [(20, [2]), (10, [7, 5])], maps := [(20, []), (10, [])], upids := [] }
  got := []
  goq := []
  gm := []
  pha := []
  phg := [(0, ⟨[[2], [3], [5]], 1⟩)]


theorem ex3_bc : formulvs exKey2 exMasks2 exNasT3 none 10 0 true false false = .ok (.mat ⟨[[2], [5]], 1⟩) := by
  simp [formulvs, ulvsLoop, ulvsLevel, formtran, formtran0, formtran0With, formtranUp, formtranUpWith, upSelectWith, procMsetWith, iddofG, rowsOfMask, upasetpv, upMask, idMask, applyMaps, findse, lookupD, exNasT3,
    dotU, mkdofpv, mksetpv, expanddof, expanddof2, expandRow, digits, digitsRev, mkdofpvKeys, argsort,
    lookup, searchsortedLeft, key, List.mergeSort, List.zipIdx, List.MergeSort.Internal.splitInTwo,
    exMasks2, Masks.ofTable, mask, v_p, v_g, v_n, v_f, v_a, v_q, v_r, v_b, v_c, v_o, v_s, v_m, v_e, v_l, v_t,
    inSet, liftE, setPos, positions, takeIdx, rowsAt, unitRow, dot, rowComb, addRow, smulRow, zeroRow, anyFrom,
    bind, Except.bind, pure, Except.pure, Except.map, List.mapM_cons, List.mapM_nil]

theorem ex3_ab : formulvs exKey2 exMasks2 exNasT3 none 20 10 true false false = .ok (.mat ⟨[[0, 1]], 2⟩) := by
  simp [formulvs, ulvsLoop, ulvsLevel, formtran, formtran0, formtran0With, formtranUp, formtranUpWith, upSelectWith, procMsetWith, iddofG, rowsOfMask, upasetpv, upMask, idMask, applyMaps, findse, lookupD, exNasT3,
    dotU, mkdofpv, mksetpv, expanddof, expanddof2, expandRow, digits, digitsRev, mkdofpvKeys, argsort,
    lookup, searchsortedLeft, key, List.mergeSort, List.zipIdx, List.MergeSort.Internal.splitInTwo,
    exMasks2, Masks.ofTable, mask, v_p, v_g, v_n, v_f, v_a, v_q, v_r, v_b, v_c, v_o, v_s, v_m, v_e, v_l, v_t,
    inSet, liftE, setPos, positions, takeIdx, rowsAt, unitRow, dot, rowComb, addRow, smulRow, zeroRow, anyFrom,
    bind, Except.bind, pure, Except.pure, Except.map, List.mapM_cons, List.mapM_nil]
  decide

theorem ex3_ac : formulvs exKey2 exMasks2 exNasT3 none 20 0 true false false = .ok (.mat ⟨[[5]], 1⟩) := by
  simp [formulvs, ulvsLoop, ulvsLevel, formtran, formtran0, formtran0With, formtranUp, formtranUpWith, upSelectWith, procMsetWith, iddofG, rowsOfMask, upasetpv, upMask, idMask, applyMaps, findse, lookupD, exNasT3,
    dotU, mkdofpv, mksetpv, expanddof, expanddof2, expandRow, digits, digitsRev, mkdofpvKeys, argsort,
    lookup, searchsortedLeft, key, List.mergeSort, List.zipIdx, List.MergeSort.Internal.splitInTwo,
    exMasks2, Masks.ofTable, mask, v_p, v_g, v_n, v_f, v_a, v_q, v_r, v_b, v_c, v_o, v_s, v_m, v_e, v_l, v_t,
    inSet, liftE, setPos, positions, takeIdx, rowsAt, unitRow, dot, rowComb, addRow, smulRow, zeroRow, anyFrom,
    bind, Except.bind, pure, Except.pure, Except.map, List.mapM_cons, List.mapM_nil]
  decide


theorem ex3_l1 : ulvsLevel exKey2 exMasks2 exNasT3 20 10 true false = .ok ⟨[[0, 1]], 2⟩ := by
  simp [formulvs, ulvsLoop, ulvsLevel, formtran, formtran0, formtran0With, formtranUp, formtranUpWith, upSelectWith, procMsetWith, iddofG, rowsOfMask, upasetpv, upMask, idMask, applyMaps, findse, lookupD, exNasT3,
    dotU, mkdofpv, mksetpv, expanddof, expanddof2, expandRow, digits, digitsRev, mkdofpvKeys, argsort,
    lookup, searchsortedLeft, key, List.mergeSort, List.zipIdx, List.MergeSort.Internal.splitInTwo,
    exMasks2, Masks.ofTable, mask, v_p, v_g, v_n, v_f, v_a, v_q, v_r, v_b, v_c, v_o, v_s, v_m, v_e, v_l, v_t,
    inSet, liftE, setPos, positions, takeIdx, rowsAt, unitRow, dot, rowComb, addRow, smulRow, zeroRow, anyFrom,
    bind, Except.bind, pure, Except.pure, Except.map, List.mapM_cons, List.mapM_nil]
  decide

theorem ex3_l2 : ulvsLevel exKey2 exMasks2 exNasT3 10 0 true false = .ok ⟨[[2], [5]], 1⟩ := by
  simp [formulvs, ulvsLoop, ulvsLevel, formtran, formtran0, formtran0With, formtranUp, formtranUpWith, upSelectWith, procMsetWith, iddofG, rowsOfMask, upasetpv, upMask, idMask, applyMaps, findse, lookupD, exNasT3,
    dotU, mkdofpv, mksetpv, expanddof, expanddof2, expandRow, digits, digitsRev, mkdofpvKeys, argsort,
    lookup, searchsortedLeft, key, List.mergeSort, List.zipIdx, List.MergeSort.Internal.splitInTwo,
    exMasks2, Masks.ofTable, mask, v_p, v_g, v_n, v_f, v_a, v_q, v_r, v_b, v_c, v_o, v_s, v_m, v_e, v_l, v_t,
    inSet, liftE, setPos, positions, takeIdx, rowsAt, unitRow, dot, rowComb, addRow, smulRow, zeroRow, anyFrom,
    bind, Except.bind, pure, Except.pure, Except.map, List.mapM_cons, List.mapM_nil]

theorem ex3_down : Downstream exNasT3.nas.selist 20 10 :=
  ⟨0, (20, 10), by simp [findse, positions, exNasT3], by simp [exNasT3], rfl⟩

/-- `formulvs_path_composes` on that tree: `ULVS(20 → 0) = ULVS(20 → 10) · ULVS(10 → 0)`, every hypothesis discharged -/
example : mulU (.mat (⟨[[0, 1]], 2⟩ : M Int)) (.mat ⟨[[2], [5]], 1⟩) = .ok (.mat ⟨[[5]], 1⟩) :=
  formulvs_path_composes exKey2 exMasks2 exNasT3 20 10 0 true false _ _ _ ex3_ab ex3_bc ex3_ac (by decide) (by decide)
    (by decide)
    (by
      rintro ⟨r, row, hf, hr, h⟩
      simp [findse, positions, exNasT3] at hf
      subst hf
      simp [exNasT3] at hr
      subst hr
      simp at h)
    (by
      rintro ⟨r, row, hf, hr, h⟩
      simp [findse, positions, exNasT3] at hf
      subst hf
      simp [exNasT3] at hr
      subst hr
      simp at h)
    (by
      intro sd p₁ hsd hp e he
      have := Downstream_unique hsd ex3_down
      subst this
      simp [ulvsPath, exNasT3] at hp
      subst hp
      simp at he
      subst he
      decide)
    (by
      intro sd p levels hsd hp hl
      have := Downstream_unique hsd ex3_down
      subst this
      simp [ulvsPath, exNasT3, findse, positions] at hp
      subst hp
      cases hl with
      | cons h1 hl =>
        cases hl with
        | cons h2 hl =>
          cases hl
          rw [ex3_l1] at h1
          rw [ex3_l2] at h2
          simp only [Except.ok.injEq] at h1 h2
          subst h1 h2
          decide)

/-- the test of `formulvs_path_composes_of_test` on that tree: two levels, 1x2 and 2x1, shapes agree -/
example : shapesTest exKey2 exMasks2 exNasT3 20 0 true false =
    .ok (true, [⟨[[0, 1]], 2⟩, ⟨[[2], [5]], 1⟩]) := by
  have hlev := ulvsLevels_complete exKey2 exMasks2 exNasT3 0 true false (exNasT3.nas.selist.length + 1) 20 10
    [(20, 10), (10, 0)] _ (by simp [ulvsPath, exNasT3, findse, positions]) (.cons ex3_l1 (.cons ex3_l2 .nil))
  have hf : findse exNasT3.nas.selist 20 = .ok 0 := by simp [findse, positions, exNasT3]
  have hr : exNasT3.nas.selist[0]? = some (20, 10) := by simp [exNasT3]
  unfold shapesTest
  simp only [hf, liftE, bind, Except.bind, hr, hlev]
  decide

end examples2

end PyYetiVerif.C18
