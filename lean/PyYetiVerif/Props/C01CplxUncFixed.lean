import PyYetiVerif.Props.C01CplxUnc
import PyYetiVerif.Model.SuCoefCplxUncFixed
/-!
# C01 — CANDIDATE REPAIR of finding F61: the rigid-body rows of the complex uncoupled path, patched

`corpus/c01_f61_candidate_fix.diff` keeps the rigid-body partition and gives the rigid-body rows of uncoupled
equations with complex-dtype coefficients the damped rigid-body step coefficients of `get_su_coef` (at unit mass, on
`f/m`) and the acceleration `f/m − (b/m) v`.  Model: `Model/SuCoefCplxUncFixed.lean` (`cplxUncRbDVFixed`,
`cplxUncRbAccFixed`).  /repo is still unpatched: the current model and its theorems (`Props/C01CplxUnc.lean`) stay.

* `complex_unc_rb_exact_fixed`        FULL statement, no `b = 0` hypothesis: every sample of a rigid-body row is the end
                                      state of THE solution of `m x'' + b x' = f(t)` started from the previous sample, and
                                      `m a + b v = f` at every sample;
* `complex_unc_rb_fixed_is_real_path` the patched rows are the rows of the real-dtype path (`get_su_coef` with the
                                      mode's own `m`, `b`) in all three rigid regimes;
* `complex_unc_rb_fixed_velo_exact`   the velocity-only regime (between the two cut-offs) has the exact velocity, as
                                      in the real-dtype path (`rigidVelo_velocity_exact`);
* `complex_unc_rb_fixed_undamped_unchanged`   with `pc.rbd is None` and `pc.beta_rb is None` the patched rows are today's
                                      rows (same definitions: the same doubles);
* `complex_unc_rb_rows_fixed_spec`     the system level (`cplxUncRbRowsFixedG`, what the driver runs): every row is
                                      `cplxUncRbDVFixed` / `cplxUncRbAccFixed` with one flag `anyDamped` that is false only
                                      if every `b/m` is zero, and a regime that is `none` only if every row is undamped;
* `complex_unc_damped_rb_counterexample_fixed`   the input of `complex_unc_damped_rb_counterexample` now gives
                                      `(d, v, a) = (e⁻¹, 1 − e⁻¹, e⁻¹)`: `m a + b v = f` holds.
-/
namespace PyYetiVerif.C01
open PyYetiVerif.SuCoef

/-- scaling by the mass, damped: a solution of `x'' + (b/m) x' = p/m + (s/m) t` solves `m x'' + b x' = p + s t` -/
theorem isSol_unit_mass_scale_damped (m b p s x₀ v₀ : ℝ) (hm : m ≠ 0) (x v : ℝ → ℝ)
    (h : IsSol 1 (b * (1 / m)) 0 ((1 / m) * p) ((1 / m) * s) x₀ v₀ x v) : IsSol m b 0 p s x₀ v₀ x v := by
  refine ⟨h.dx, fun t => ?_, h.x0, h.v0⟩
  obtain ⟨a, ha, he⟩ := h.dv t
  refine ⟨a, ha, ?_⟩
  have : a = (1 / m) * p + (1 / m) * s * t - b * (1 / m) * v t := by linarith
  rw [this]
  field_simp
  ring

/-- the regime the patched code must have given a row of damping `b` for the row to be exact over `ℝ`: the full
damped formulas for a damped row; the undamped ones (`pc.rbd is None`, or an undamped row next to damped ones)
for an undamped row.  (Which regime the code picks is `classify` with `get_su_coef`'s cut-offs: a floating-point
choice, pinned by `cuts_as_documented` / `classify_rb_spec` and measured, as for the real-dtype path.) -/
def RbRegimeExact (r : Option Regime) (b : ℝ) : Prop :=
  (r = some .rigidFull ∧ b ≠ 0) ∨ ((r = none ∨ r = some .rigid) ∧ b = 0)

/-- **F61 repaired, full strength**: a rigid-body row `m x'' + b x' = f(t)` of the patched complex uncoupled path.
Sample `j+1` is the end state of a solution of the equation of motion (hold forcing of step `j`) started at
sample `j`, every such solution ends there, and the returned acceleration satisfies `m a + b v = f` at
sample `j`.  No hypothesis on `b`. -/
theorem complex_unc_rb_exact_fixed (m b h : ℝ) (hm : m ≠ 0) (hh : h ≠ 0) (r : Option Regime)
    (anyDamped : Bool) (hr : RbRegimeExact r b) (ha : anyDamped = false → b = 0)
    (order1 : Bool) (fs : List ℝ) (dv : ℝ × ℝ) (j : ℕ) (dj dj1 : ℝ × ℝ) (f0 f1 aj : ℝ)
    (h1 : (cplxUncRbDVFixed order1 h (some m) b r dv fs)[j]? = some dj)
    (h2 : (cplxUncRbDVFixed order1 h (some m) b r dv fs)[j + 1]? = some dj1)
    (h3 : fs[j]? = some f0) (h4 : fs[j + 1]? = some f1)
    (h5 : (cplxUncRbAccFixed anyDamped (some m) b
      ((cplxUncRbDVFixed order1 h (some m) b r dv fs).map Prod.snd) fs)[j]? = some aj) :
    (∃ x v : ℝ → ℝ, IsSol m b 0 f0 (if order1 then (f1 - f0) / h else 0) dj.1 dj.2 x v ∧
      dj1 = (x h, v h)) ∧
    (∀ x v : ℝ → ℝ, IsSol m b 0 f0 (if order1 then (f1 - f0) / h else 0) dj.1 dj.2 x v →
      dj1 = (x h, v h)) ∧
    m * aj + b * dj.2 = f0 := by
  -- the acceleration
  have hacc : m * aj + b * dj.2 = f0 := by
    cases anyDamped with
    | false =>
      have hb := ha rfl
      subst hb
      simp only [cplxUncRbAccFixed, Bool.false_eq_true, if_false, cplxUncRbForce, List.getElem?_map, h3,
        Option.map_some, Option.some.injEq] at h5
      rw [← h5]
      field_simp
      ring
    | true =>
      simp only [cplxUncRbAccFixed, if_true, List.getElem?_zipWith, h3, List.getElem?_map, h1,
        Option.map_some, cplxUncRbForce, cplxUncRbBeta, Option.some.injEq] at h5
      rw [← h5]
      field_simp
      ring
  have g3 : (fs.map (cplxUncRbForce (some m)))[j]? = some ((1 / m) * f0) := by
    simp [cplxUncRbForce, h3]
  have g4 : (fs.map (cplxUncRbForce (some m)))[j + 1]? = some ((1 / m) * f1) := by
    simp [cplxUncRbForce, h4]
  have hslope : (if order1 then ((1 / m) * f1 - (1 / m) * f0) / h else 0)
      = (1 / m) * (if order1 then (f1 - f0) / h else 0) := by
    cases order1 <;> simp
    ring
  -- existence of a solution ending in the sample; uniqueness follows from `IsSol.unique`
  have hex : ∃ x v : ℝ → ℝ, IsSol m b 0 f0 (if order1 then (f1 - f0) / h else 0) dj.1 dj.2 x v ∧
      dj1 = (x h, v h) := by
    rcases hr with ⟨rfl, hb⟩ | ⟨hr, rfl⟩
    · -- damped row, full damped formulas
      simp only [cplxUncRbDVFixed, cplxUncRbBeta] at h1 h2
      have hreg : RegimeOK .rigidFull 1 (b * (1 / m)) 0 :=
        ⟨one_ne_zero, mul_ne_zero hb (one_div_ne_zero hm)⟩
      obtain ⟨x, v, hs, he⟩ := run_exact .rigidFull 1 (b * (1 / m)) 0 h hreg hh order1 _ dv j dj dj1 _ _
        h1 h2 g3 g4
      simp only [effB, effK] at hs
      rw [hslope] at hs
      exact ⟨x, v, isSol_unit_mass_scale_damped m b f0 _ dj.1 dj.2 hm x v hs, he⟩
    · -- undamped row: today's recurrence
      have h1' : (rbRun order1 h dv (fs.map (cplxUncRbForce (some m))))[j]? = some dj := by
        rcases hr with rfl | rfl
        · exact h1
        · simp only [cplxUncRbDVFixed] at h1
          rw [rb_run_is_runUnc order1 h (cplxUncRbBeta (some m) 0) 0]
          exact h1
      have h2' : (rbRun order1 h dv (fs.map (cplxUncRbForce (some m))))[j + 1]? = some dj1 := by
        rcases hr with rfl | rfl
        · exact h2
        · simp only [cplxUncRbDVFixed] at h2
          rw [rb_run_is_runUnc order1 h (cplxUncRbBeta (some m) 0) 0]
          exact h2
      obtain ⟨x, v, hs, he⟩ := rb_run_exact h hh order1 _ dv j dj dj1 _ _ h1' h2' g3 g4
      rw [hslope] at hs
      exact ⟨x, v, isSol_unit_mass_scale m f0 _ dj.1 dj.2 hm x v hs, he⟩
  obtain ⟨x, v, hsol, he⟩ := hex
  refine ⟨⟨x, v, hsol, he⟩, fun x' v' hs' => ?_, hacc⟩
  obtain ⟨rfl, rfl⟩ := hs'.unique hm hsol
  exact he

/-! ### the patched rows are the rows of the real-dtype path -/

/-- one step with the unit-mass coefficients on `f/m` is one step with the mode's own mass on `f` -/
theorem rb_step_unit_mass (r : Regime) (hr : r = .rigid ∨ r = .rigidVelo ∨ r = .rigidFull) (order1 : Bool)
    (m b h : ℝ) (dv : ℝ × ℝ) (f0 f1 : ℝ) :
    stepUnc order1 (suCoef r 1 (b * (1 / m)) 0 h) dv ((1 / m) * f0) ((1 / m) * f1)
      = stepUnc order1 (suCoef r m b 0 h) dv f0 f1 := by
  have hC : b * (1 / m) / 1 / 2 = b / m / 2 := by ring
  rcases hr with rfl | rfl | rfl <;> cases order1 <;>
    simp only [stepUnc, stepUnc1, stepUnc0, suCoef, rigidCoef, rigidVeloCoef, rigidFullCoef, hC, if_true,
      Bool.false_eq_true, if_false] <;>
    refine Prod.ext ?_ ?_ <;> simp only <;> ring

theorem runUnc_map_of_step (order1 : Bool) (c1 c2 : Coefs ℝ) (g : ℝ → ℝ)
    (hs : ∀ dv f0 f1, stepUnc order1 c1 dv (g f0) (g f1) = stepUnc order1 c2 dv f0 f1) :
    ∀ (fs : List ℝ) (dv : ℝ × ℝ), runUnc order1 c1 dv (fs.map g) = runUnc order1 c2 dv fs := by
  intro fs
  induction fs with
  | nil => intro dv; rfl
  | cons g0 tl ih =>
    intro dv
    cases tl with
    | nil => rfl
    | cons g1 rest =>
      simp only [List.map_cons, runUnc] at ih ⊢
      rw [hs, ← ih]

/-- a rigid-body row of the patched complex uncoupled path is the row the real-dtype path (`get_su_coef`,
`_solve_real_unc`) computes for the same `m`, `b` in the same regime -/
theorem complex_unc_rb_fixed_is_real_path (r : Regime) (hr : r = .rigid ∨ r = .rigidVelo ∨ r = .rigidFull)
    (order1 : Bool) (m b h : ℝ) (fs : List ℝ) (dv : ℝ × ℝ) :
    cplxUncRbDVFixed order1 h (some m) b (some r) dv fs = runUnc order1 (suCoef r m b 0 h) dv fs := by
  simp only [cplxUncRbDVFixed, cplxUncRbBeta]
  exact runUnc_map_of_step order1 _ _ (cplxUncRbForce (some m))
    (fun dv f0 f1 => rb_step_unit_mass r hr order1 m b h dv f0 f1) fs dv

/-- the velocity-only regime: exact velocity of the damped row, undamped displacement update — as the
real-dtype path (`rigidVelo_velocity_exact`) -/
theorem complex_unc_rb_fixed_velo_exact (m b h x₀ v₀ P0 P1 : ℝ) (hm : m ≠ 0) (hb : b ≠ 0) (hh : h ≠ 0) :
    (stepUnc true (suCoef .rigidVelo 1 (b * (1 / m)) 0 h) (x₀, v₀) ((1 / m) * P0) ((1 / m) * P1)).2
        = vSol .rigidFull m b 0 P0 ((P1 - P0) / h) x₀ v₀ h ∧
    (stepUnc true (suCoef .rigidVelo 1 (b * (1 / m)) 0 h) (x₀, v₀) ((1 / m) * P0) ((1 / m) * P1)).1
        = xSol .rigid m b 0 P0 ((P1 - P0) / h) x₀ v₀ h := by
  rw [rb_step_unit_mass .rigidVelo (Or.inr (Or.inl rfl)) true m b h]
  simpa [stepUnc] using rigidVelo_velocity_exact m b 0 h x₀ v₀ P0 P1 hm hb hh

/-- no damped rigid-body row in the system (`pc.rbd is None`, `pc.beta_rb is None`): the patched rows ARE today's
rows — the same definitions, hence the same doubles in the `Float` instance -/
theorem complex_unc_rb_fixed_undamped_unchanged {α : Type} [Add α] [Sub α] [Mul α] [Div α] [Neg α]
    [OfNat α 0] [OfNat α 1] [OfNat α 2] [OfNat α 3] [TransOps α]
    (order1 : Bool) (h : α) (m : Option α) (b k : α) (dv : α × α) (vs fs : List α) :
    cplxUncRbDVFixed order1 h m b none dv fs = cplxUncRbDV order1 h m b k dv fs ∧
    cplxUncRbAccFixed false m b vs fs = cplxUncRbAcc m b k fs :=
  ⟨rfl, rfl⟩

/-- the input of `complex_unc_damped_rb_counterexample` (`m = b = 1`, `h = 1`, order 0, force held at `1`, from
rest) through the patched rows: `(d, v) = (e⁻¹, 1 − e⁻¹)`, `a = e⁻¹` at the second sample, and
`m a + b v = f` holds there -/
theorem complex_unc_damped_rb_counterexample_fixed :
    cplxUncRbDVFixed false (1 : ℝ) (some 1) 1 (some .rigidFull) (0, 0) [1, 1]
      = [(0, 0), (Real.exp (-1), 1 - Real.exp (-1))] ∧
    cplxUncRbAccFixed true (some (1 : ℝ)) 1 [0, 1 - Real.exp (-1)] [1, 1] = [1, Real.exp (-1)] ∧
    (1 : ℝ) * Real.exp (-1) + 1 * (1 - Real.exp (-1)) = 1 := by
  refine ⟨?_, ?_, by ring⟩
  · simp only [cplxUncRbDVFixed, cplxUncRbBeta, cplxUncRbForce, List.map_cons, List.map_nil, runUnc, stepUnc,
      stepUnc0, suCoef, rigidFullCoef, TransOps.exp, Bool.false_eq_true, if_false]
    norm_num
    constructor <;> ring
  · simp only [cplxUncRbAccFixed, cplxUncRbBeta, cplxUncRbForce, if_true, List.zipWith_cons_cons,
      List.zipWith_nil_right]
    norm_num

/-! ### the system level -/

/-- the system level of the patched rows (`cplxUncRbRowsFixedG`, what the driver runs): row `i` of the result is
`cplxUncRbDVFixed` / `cplxUncRbAccFixed` of row `i` of the input with ONE flag `anyDamped` and a regime `r` such that
`anyDamped = false` only if the row's `b/m` is zero (the hypothesis `ha` of `complex_unc_rb_exact_fixed`), and
`r = none` (today's loop) only if `regimeOf` puts the row in the undamped regime, else `r` is `regimeOf (b/m)` -/
theorem complex_unc_rb_rows_fixed_spec (regimeOf : ℝ → Option Regime) (order1 : Bool) (h : ℝ)
    (rows : List (Option ℝ × ℝ × (ℝ × ℝ) × List ℝ)) (i : ℕ) (row : Option ℝ × ℝ × (ℝ × ℝ) × List ℝ)
    (out : Option Regime × List (ℝ × ℝ) × List ℝ) (hrow : rows[i]? = some row)
    (hout : (cplxUncRbRowsFixedG regimeOf (fun x => x == 0) order1 h rows)[i]? = some out) :
    ∃ (anyDamped : Bool) (r : Option Regime),
      out = (r, cplxUncRbDVFixed order1 h row.1 row.2.1 r row.2.2.1 row.2.2.2,
        cplxUncRbAccFixed anyDamped row.1 row.2.1
          ((cplxUncRbDVFixed order1 h row.1 row.2.1 r row.2.2.1 row.2.2.2).map Prod.snd) row.2.2.2) ∧
      (anyDamped = false → cplxUncRbBeta row.1 row.2.1 = 0) ∧
      ((r = none ∧ regimeOf (cplxUncRbBeta row.1 row.2.1) = some .rigid) ∨
        r = regimeOf (cplxUncRbBeta row.1 row.2.1)) := by
  simp only [cplxUncRbRowsFixedG, List.getElem?_map, List.getElem?_zip_eq_some, Option.map_eq_some_iff] at hout
  obtain ⟨⟨row', reg⟩, ⟨h1, h2⟩, rfl⟩ := hout
  rw [hrow] at h1
  obtain rfl := Option.some.inj h1
  obtain ⟨a, ⟨a1, ha1, rfl⟩, hreg⟩ := h2
  rw [hrow] at ha1
  obtain rfl := Option.some.inj ha1
  simp only at hreg
  subst hreg
  refine ⟨_, _, rfl, ?_, ?_⟩
  · intro ha
    simp only [List.any_eq_false, List.mem_map, forall_exists_index, and_imp, forall_apply_eq_imp_iff₂,
      Bool.not_eq_true, Bool.not_eq_false', beq_iff_eq] at ha
    exact ha row (List.mem_of_getElem? hrow)
  · by_cases hall : ((List.map regimeOf (List.map (fun r => cplxUncRbBeta r.1 r.2.1) rows)).all fun r =>
        r == some Regime.rigid) = true
    · left
      refine ⟨if_pos hall, ?_⟩
      simp only [List.all_eq_true, List.mem_map, forall_exists_index, and_imp, forall_apply_eq_imp_iff₂,
        beq_iff_eq] at hall
      exact hall row (List.mem_of_getElem? hrow)
    · right
      exact if_neg hall

/-! ### non-vacuity -/

/-- non-vacuity of `complex_unc_rb_rows_fixed_spec`: a one-row system has a row `0` on both sides -/
example : ∃ out, (cplxUncRbRowsFixedG (fun _ : ℝ => some Regime.rigidFull) (fun x => x == 0) false (1 : ℝ)
    [(some 1, 1, (0, 0), [1, 1])])[0]? = some out := ⟨_, rfl⟩


/-- `RbRegimeExact` is inhabited on both sides -/
example : RbRegimeExact (some .rigidFull) 1 ∧ RbRegimeExact none 0 ∧ RbRegimeExact (some .rigid) 0 :=
  ⟨Or.inl ⟨rfl, one_ne_zero⟩, Or.inr ⟨Or.inl rfl, rfl⟩, Or.inr ⟨Or.inr rfl, rfl⟩⟩

/-- the hypotheses of `complex_unc_rb_exact_fixed` hold on the counterexample's input (`j = 0`) -/
example : (cplxUncRbDVFixed false (1 : ℝ) (some 1) 1 (some .rigidFull) (0, 0) [1, 1])[0]? = some (0, 0) ∧
    (cplxUncRbDVFixed false (1 : ℝ) (some 1) 1 (some .rigidFull) (0, 0) [1, 1])[1]?
      = some (Real.exp (-1), 1 - Real.exp (-1)) := by
  rw [complex_unc_damped_rb_counterexample_fixed.1]
  exact ⟨rfl, rfl⟩

end PyYetiVerif.C01
