import PyYetiVerif.Generated.GenMachineBranches
import PyYetiVerif.Lemmas.GenMachineInit
/-!
# C08 — the footprint of the generator branches, regenerated from the source

`Generated/GenMachineBranches.lean` is written by harness/translate/c08_branches.py from the `ast`
of solveunc.py / solveexp2.py on every run: for each branch of each `while True:` loop of the four
generator functions, the accesses to the shared arrays.  `generated_branches_ok` (by `decide`)
says that table has the shape the model `GenMachine.step` has, and `request_writes_own_column`
is the model's side of it.
-/
namespace PyYetiVerif.C08
open PyYetiVerif.Generated.GenBranches

/-- rows that belong to the dynamic equations (everything but the residual-flexibility rows) -/
def dynRows : Rows → Bool
  | .rf => false
  | _ => true

def branchOk (b : Branch) : Bool :=
  -- every write goes to the column of the loop variable `i`
  b.acc.all (fun a => !a.write || a.col == .cur) &&
  (if b.neg then
    -- add-on (`j < 0`): touches the current column only, only by `+=`, never moves `i` / `i_last`,
    -- and for the zero-order hold leaves the dynamic rows of `d`, `v` alone
    b.acc.all (fun a => a.col == .cur) &&
    b.acc.all (fun a => !a.write || a.aug) &&
    !b.assigns.contains .i && !b.assigns.contains .i_last && !b.setsIFirst &&
    (b.rfOnly || b.acc.all (fun a =>
      !(a.write && (a.arr == .d || a.arr == .v) && dynRows a.rows) || a.order == some true))
  else
    -- (re)solve (`i = j` first): reads the previous column only, writes by plain assignment
    b.setsIFirst && b.assigns.contains .i &&
    b.acc.all (fun a => a.write || a.col == .prev) &&
    b.acc.all (fun a => !a.write || !a.aug)) &&
  -- the whole force column is written in every branch; `a` only on the rigid-body rows;
  -- `d` is written in every (re)solve branch
  b.acc.any (fun a => a.write && a.arr == .Force && a.rows == .all) &&
  b.acc.all (fun a => !(a.write && a.arr == .a) || a.rows == .rb) &&
  (b.neg || b.acc.any (fun a => a.write && a.arr == .d)) &&
  -- the cd-as-force cache: every (re)solve branch with dynamic rows refreshes `i_last` and `dmpfrc1`
  (!(b.fn == .realUncCdf && !b.neg && !b.rfOnly) ||
    (b.assigns.contains .i_last && b.assigns.contains .dmpfrc1))

/-- every generator function contributes an add-on branch and a (re)solve branch -/
def coverageOk : Bool :=
  [Fn.realUnc, .realUncCdf, .cplx, .se2].all fun f =>
    branches.any (fun b => b.fn == f && b.neg) && branches.any (fun b => b.fn == f && !b.neg)

/-- ★ the branch table regenerated from the source: in every branch of every generator loop each
write goes to column `i`; an add-on (`j < 0`) only augments column `i`, reads nothing else and
leaves `i`, `i_last` alone, and for order 0 does not touch the dynamic rows of `d`, `v`; a
(re)solve sets `i = j` first, reads column `i - 1` only and assigns; `Force[:, i]` is written in
every branch; the cd-as-force generator refreshes its cache in every (re)solve. -/
theorem generated_branches_ok : branches.all branchOk = true ∧ coverageOk = true := by
  decide

section model
open PyYetiVerif.GenMachine
variable {V X W : Type} [Add V] [Add X] [Add W]

/-- the model's side: a request writes only the column the loop variable ends on (every other
column of `d, v`, the static rows and `Force` is untouched), an add-on does not move the loop
variable, a send moves it to its index. -/
theorem request_writes_own_column (L : Lin V X W) (s : State V X W) (op : Op V) :
    (∀ j, j ≠ (step L s op).cur →
      (step L s op).x j = s.x j ∧ (step L s op).force j = s.force j ∧ (step L s op).r j = s.r j) ∧
      (match op with
        | .send i _ => (step L s op).cur = i
        | .addon _ => (step L s op).cur = s.cur) := by
  refine ⟨fun j hj => step_frame L s op j (fun e => hj e.symm), ?_⟩
  cases op <;> rfl

end model

end PyYetiVerif.C08
