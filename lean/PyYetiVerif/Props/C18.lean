import PyYetiVerif.Lemmas.Uset
import PyYetiVerif.Lemmas.Locate
/-!
# C18 — DOF-set partitions and index look-ups satisfy their defining relations

Property theorems only.  The bit table is `Generated.UsetMask.mask`, regenerated from
`n2p.mkusetmask` on every run; the *specification* (which base sets each superset contains) is
written here by hand from the docstring diagram of `mkusetmask` / `mksetpv`:

    l = c + b;  t = l + r;  a = t + q;  f = a + o;  n = f + s;  g = n + m;  p = g + e;
    d = a + e;  fe = f + e;  ne = n + e          (base sets: m s o q r c b e)

The models (`Model/Uset.lean`, `Model/Locate.lean`) are tied to the Python source by the exact
correspondence check of harness/props/c18.py.
-/
set_option linter.constructorNameAsVariable false
namespace PyYetiVerif.C18
open PyYetiVerif.Uset PyYetiVerif.Generated.UsetMask PyYetiVerif.Locate

/-! ## the documented hierarchy (specification, hand-written) -/

def baseSets : List SetName := [.m, .s, .o, .q, .r, .c, .b, .e]
def supersets : List SetName := [.l, .t, .a, .f, .n, .g, .p, .fe, .d, .ne]
def userSets : List SetName := [.u1, .u2, .u3, .u4, .u5, .u6]

/-- base sets contained in a named set, read off the diagram -/
def members : SetName → List SetName
  | .l => [.c, .b]
  | .t => [.r, .c, .b]
  | .a => [.q, .r, .c, .b]
  | .f => [.o, .q, .r, .c, .b]
  | .n => [.s, .o, .q, .r, .c, .b]
  | .g => [.m, .s, .o, .q, .r, .c, .b]
  | .p => [.m, .s, .o, .q, .r, .c, .b, .e]
  | .d => [.q, .r, .c, .b, .e]
  | .fe => [.o, .q, .r, .c, .b, .e]
  | .ne => [.s, .o, .q, .r, .c, .b, .e]
  | x => [x]

/-! ## lattice theorems, decided on the generated table -/

/-- base-set masks are non-zero and pairwise disjoint: a DOF carrying (bits of) one base-set
mask lies in no other base set. -/
theorem base_sets_disjoint : ∀ b₁ ∈ baseSets, ∀ b₂ ∈ baseSets,
    mask b₁ ≠ 0 ∧ (b₁ ≠ b₂ → mask b₁ &&& mask b₂ = 0) := by decide

/-- each superset's mask meets exactly the masks of its documented members. -/
theorem superset_is_union : ∀ s ∈ supersets, ∀ b ∈ baseSets,
    (mask s &&& mask b ≠ 0) ↔ b ∈ members s := by decide

/-- the same bit by bit (a base-set mask may have two bits, e.g. `s = sg | sb`, and a DOF of a
real table carries only one of them): every single bit of a base-set mask lies in a named
set's mask iff the base set is a documented member. -/
theorem superset_is_union_bitwise : ∀ s ∈ supersets ++ baseSets, ∀ b ∈ baseSets, ∀ i < 32,
    (mask b).testBit i = true → ((mask s).testBit i = true ↔ b ∈ members s) := by decide

/-- user sets `u1 … u6` share no bit with any other set; all masks fit in 32 bits. -/
theorem user_sets_separate :
    (∀ u ∈ userSets, ∀ k ∈ SetName.all, k ≠ u → mask u &&& mask k = 0) ∧
    (∀ k ∈ SetName.all, mask k < 2 ^ 32) ∧ keys.Perm SetName.all := by decide

private theorem base_lt : ∀ b ∈ baseSets, mask b < 2 ^ 32 := by decide
private theorem members_base : ∀ b ∈ baseSets, members b = [b] := by decide
private theorem members_sub : ∀ s ∈ supersets, ∀ b' ∈ members s, b' ∈ baseSets := by decide

/-- `w` is a non-empty part of base set `b`'s mask (how a DOF of base set `b` appears in a
table, whatever superset bits are *not* counted here). -/
def BaseWord (w : Nat) (b : SetName) : Prop := b ∈ baseSets ∧ w ≠ 0 ∧ w &&& mask b = w

/-- membership test of `mksetpv` on a base-set word = documented membership. -/
theorem inSet_subword {w : Nat} {b : SetName} (hw : BaseWord w b) :
    ∀ s ∈ supersets ++ baseSets, (inSet w (mask s) = true ↔ b ∈ members s) := by
  intro s hs
  obtain ⟨hb, hne, hsub⟩ := hw
  rw [inSet_iff_exists_bit]
  constructor
  · rintro ⟨i, hwi, hsi⟩
    have hbi := testBit_of_subword hsub hwi
    have hi : i < 32 := by
      by_contra hge
      have hlt : mask b < 2 ^ i :=
        Nat.lt_of_lt_of_le (base_lt b hb)
          (Nat.pow_le_pow_right (by decide) (by omega))
      rw [Nat.testBit_lt_two_pow hlt] at hbi
      cases hbi
    exact (superset_is_union_bitwise s hs b hb i hi hbi).mp hsi
  · intro hmem
    obtain ⟨i, hwi⟩ := Nat.exists_testBit_of_ne_zero hne
    have hbi := testBit_of_subword hsub hwi
    have hi : i < 32 := by
      by_contra hge
      have hlt : mask b < 2 ^ i :=
        Nat.lt_of_lt_of_le (base_lt b hb)
          (Nat.pow_le_pow_right (by decide) (by omega))
      rw [Nat.testBit_lt_two_pow hlt] at hbi
      cases hbi
    exact ⟨i, hwi, (superset_is_union_bitwise s hs b hb i hi hbi).mpr hmem⟩

/-- every DOF carrying a base-set word lies in exactly one base set, and in a superset iff it
lies in one of the superset's documented members: each superset is the disjoint union of its
members. -/
theorem table_partition {w : Nat} {b : SetName} (hw : BaseWord w b) :
    (∀ b' ∈ baseSets, inSet w (mask b') = true ↔ b' = b) ∧
    (∀ s ∈ supersets, inSet w (mask s) = true ↔
        ∃ b' ∈ members s, inSet w (mask b') = true) := by
  have hb := hw.1
  constructor
  · intro b' hb'
    rw [inSet_subword hw b' (List.mem_append_right _ hb')]
    rw [members_base b' hb', List.mem_singleton, eq_comm]
  · intro s hs
    rw [inSet_subword hw s (List.mem_append_left _ hs)]
    constructor
    · intro h
      refine ⟨b, h, ?_⟩
      rw [inSet_subword hw b (List.mem_append_right _ hb)]
      rw [members_base b hb]; exact List.mem_singleton.mpr rfl
    · rintro ⟨b', hb's, hin⟩
      have hb'b := members_sub s hs b' hb's
      rw [inSet_subword hw b' (List.mem_append_right _ hb'b)] at hin
      rw [members_base b' hb'b, List.mem_singleton] at hin
      exact hin ▸ hb's

/-! ## mksetpv -/

/-- `mksetpv` for ARBITRARY set words and masks: the request is refused exactly when some DOF
of the minor set lies outside the major set. -/
theorem mksetpv_refuses_iff (words : List Nat) (major minor : Nat) :
    (mksetpv words major minor = .error .value ↔
      ∃ w ∈ words, inSet w minor = true ∧ inSet w major = false) ∧
    (∀ e, mksetpv words major minor = .error e → e = .value) := by
  unfold mksetpv
  constructor
  · constructor
    · intro h
      split at h
      · rename_i hany
        obtain ⟨w, hw, hc⟩ := List.any_eq_true.mp hany
        simp only [Bool.and_eq_true, Bool.not_eq_true'] at hc
        exact ⟨w, hw, hc.2, hc.1⟩
      · cases h
    · rintro ⟨w, hw, h1, h2⟩
      rw [if_pos]
      exact List.any_eq_true.mpr ⟨w, hw, by simp [h1, h2]⟩
  · intro e h
    split at h
    · cases h; rfl
    · cases h

/-- … and otherwise the partition vector has the major set's length, is `True` exactly at the
minor-set DOF, in table order: applied as a mask to the major sub-table it returns precisely
the minor sub-table. -/
theorem mksetpv_spec (words : List Nat) (major minor : Nat) (pv : List Bool)
    (h : mksetpv words major minor = .ok pv) :
    pv.length = (words.filter (inSet · major)).length ∧
    pv = (words.filter (inSet · major)).map (inSet · minor) ∧
    (((words.filter (inSet · major)).zip pv).filter (·.2)).map (·.1)
      = words.filter (inSet · minor) := by
  unfold mksetpv at h
  split at h
  · cases h
  · rename_i hany
    cases h
    refine ⟨by simp, rfl, ?_⟩
    rw [filter_zip_map]
    apply filter_filter_of_imp
    intro w hw hm
    by_contra hM
    apply hany
    exact List.any_eq_true.mpr ⟨w, hw, by simp [hm, hM]⟩

/-- `mksetpv` with named sets on a table of base-set words (`tbl` pairs every word with its
base set): refused iff a DOF of a member of `minor` is not in a member of `major`; otherwise
the vector marks, among the DOF of `major`'s members, those of `minor`'s members. -/
theorem mksetpv_named (tbl : List (Nat × SetName)) (htbl : ∀ p ∈ tbl, BaseWord p.1 p.2)
    (major minor : SetName) (hM : major ∈ supersets ++ baseSets)
    (hm : minor ∈ supersets ++ baseSets) :
    mksetpv (tbl.map (·.1)) (mask major) (mask minor) =
      if tbl.any (fun p => decide (p.2 ∈ members minor) && !decide (p.2 ∈ members major))
      then .error .value
      else .ok ((tbl.filter (fun p => decide (p.2 ∈ members major))).map
                  (fun p => decide (p.2 ∈ members minor))) := by
  have key : ∀ s ∈ supersets ++ baseSets, ∀ p ∈ tbl,
      inSet p.1 (mask s) = decide (p.2 ∈ members s) := by
    intro s hs p hp
    have := inSet_subword (htbl p hp) s hs
    by_cases hmem : p.2 ∈ members s
    · simp [hmem, this.mpr hmem]
    · have : inSet p.1 (mask s) ≠ true := fun h => hmem (this.mp h)
      simp [hmem, Bool.eq_false_iff.mpr this]
  unfold mksetpv
  have h1 : (tbl.map (·.1)).any (fun w => !inSet w (mask major) && inSet w (mask minor)) =
      tbl.any (fun p => decide (p.2 ∈ members minor) && !decide (p.2 ∈ members major)) := by
    rw [Bool.eq_iff_iff, List.any_eq_true, List.any_eq_true]
    constructor
    · rintro ⟨w, hw, hc⟩
      obtain ⟨p, hp, rfl⟩ := List.mem_map.mp hw
      exact ⟨p, hp, by simpa [key major hM p hp, key minor hm p hp, Bool.and_comm] using hc⟩
    · rintro ⟨p, hp, hc⟩
      exact ⟨p.1, List.mem_map_of_mem hp,
        by simpa [key major hM p hp, key minor hm p hp, Bool.and_comm] using hc⟩
  rw [h1]
  split
  · rfl
  · congr 1
    rw [List.filter_map, List.map_map]
    have h2 : tbl.filter ((fun w => inSet w (mask major)) ∘ (·.1)) =
        tbl.filter (fun p => decide (p.2 ∈ members major)) :=
      List.filter_congr (fun p hp => by simp only [Function.comp, key major hM p hp])
    rw [h2]
    apply List.map_congr_left
    intro p hp
    simp only [Function.comp, key minor hm p (List.mem_filter.mp hp).1]

/-! ## expanddof -/

/-- the component list of a request row is the decimal numeral of its argument (`str(arg)`):
the listed digits, read as a base-10 number, give the argument back, each is a digit, and there
is at least one. -/
theorem expanddof_digits (n : Nat) :
    ofDigitsRev (digits n).reverse = n ∧ (∀ d ∈ digits n, d < 10) ∧ digits n ≠ [] := by
  unfold digits
  refine ⟨by rw [List.reverse_reverse]; exact ofDigitsRev_digitsRev n, ?_, ?_⟩
  · intro d hd; exact digitsRev_lt n d (List.mem_reverse.mp hd)
  · simpa using digitsRev_ne_nil n

/-- two-column `expanddof`: `ValueError` iff some listed component exceeds 6; otherwise every
row `[id, arg]` is replaced, in place and in order, by `[id, d]` for the digits `d` of `arg`. -/
theorem expanddof2_spec (rows : List (Nat × Nat)) :
    (expanddof2 rows = .error .value ↔ ∃ r ∈ rows, ∃ d ∈ digits r.2, 6 < d) ∧
    (∀ out, expanddof2 rows = .ok out →
      out = rows.flatMap (fun r => (digits r.2).map (fun d => (r.1, d))) ∧
      ∀ p ∈ out, p.2 ≤ 6) := by
  unfold expanddof2
  dsimp only
  constructor
  · constructor
    · intro h
      split at h
      · rename_i hany
        obtain ⟨p, hp, hc⟩ := List.any_eq_true.mp hany
        obtain ⟨r, hr, hpr⟩ := List.mem_flatMap.mp hp
        obtain ⟨d, hd, rfl⟩ := List.mem_map.mp hpr
        exact ⟨r, hr, d, hd, by simpa using hc⟩
      · cases h
    · rintro ⟨r, hr, d, hd, h6⟩
      rw [if_pos]
      exact List.any_eq_true.mpr ⟨(r.1, d), List.mem_flatMap.mpr ⟨r, hr,
        List.mem_map.mpr ⟨d, hd, rfl⟩⟩, by simpa using h6⟩
  · intro out h
    split at h
    · cases h
    · rename_i hany
      cases h
      refine ⟨rfl, ?_⟩
      intro p hp
      by_contra h6
      exact hany (List.any_eq_true.mpr ⟨p, hp, by simpa using Nat.lt_of_not_le h6⟩)

example : expanddof2 [(1, 34), (2, 156)] = .ok [(1, 3), (1, 4), (2, 1), (2, 5), (2, 6)] := by
  simp [expanddof2, expandRow, digits, digitsRev]

example : expandRow (7, 123456) = [(7, 1), (7, 2), (7, 3), (7, 4), (7, 5), (7, 6)] := by
  simp [expandRow, digits, digitsRev]

/-! ## mkdofpv: sorted search with exact-match re-check -/

section lookup
variable {α : Type} [LinearOrder α]

/-- a reported position holds exactly the requested value (the re-check makes a neighbouring
index returned by `searchsorted` for a missing key impossible). -/
theorem lookup_sound {xs : List α} {srt : List (α × Nat)} {x : α} {i : Nat}
    (h : lookup xs srt x = some i) : xs[i]? = some x := lookup_sound' h

/-- a requested value that is present is found; one that is absent is reported missing. -/
theorem lookup_complete (xs : List α) (x : α) :
    (x ∈ xs → ∃ i, lookup xs (argsort xs) x = some i) ∧
    (lookup xs (argsort xs) x = none ↔ x ∉ xs) :=
  ⟨lookup_complete', lookup_eq_none_iff⟩

end lookup

/-- strict `mkdofpv` raises `ValueError` iff a requested DOF is missing from the set; no other
error arises in the look-up. -/
theorem mkdofpv_strict_iff (ks : List Nat) (dof : List (Nat × Nat)) (strict : Bool) :
    (mkdofpvKeys ks dof strict = .error .value ↔ strict = true ∧ ∃ d ∈ dof, key d ∉ ks) ∧
    (∀ e, mkdofpvKeys ks dof strict = .error e → e = .value) := by
  unfold mkdofpvKeys
  dsimp only
  have hany : (dof.map (fun d => (lookup ks (argsort ks) (key d), d))).any (fun r => r.1.isNone)
      = true ↔ ∃ d ∈ dof, key d ∉ ks := by
    rw [List.any_eq_true]
    constructor
    · rintro ⟨r, hr, hn⟩
      obtain ⟨d, hd, rfl⟩ := List.mem_map.mp hr
      exact ⟨d, hd, lookup_eq_none_iff.mp (Option.isNone_iff_eq_none.mp hn)⟩
    · rintro ⟨d, hd, hn⟩
      exact ⟨_, List.mem_map.mpr ⟨d, hd, rfl⟩,
        Option.isNone_iff_eq_none.mpr (lookup_eq_none_iff.mpr hn)⟩
  constructor
  · constructor
    · intro h
      split at h
      · rename_i hc
        rw [Bool.and_eq_true] at hc
        exact ⟨hc.2, hany.mp hc.1⟩
      · cases h
    · rintro ⟨hs, hex⟩
      rw [if_pos]
      rw [Bool.and_eq_true]
      exact ⟨hany.mpr hex, hs⟩
  · intro e h
    split at h
    · cases h; rfl
    · cases h

/-- `mkdofpv` returns, in request order, exactly the requested DOF that are present
(`outdof`), with one position per returned DOF, and each position holds that DOF's key.
Non-strict therefore drops exactly the missing DOF; strict succeeds only when none is missing,
so nothing is dropped. -/
theorem mkdofpv_spec (ks : List Nat) (dof : List (Nat × Nat)) (strict : Bool)
    (pv : List Nat) (out : List (Nat × Nat))
    (h : mkdofpvKeys ks dof strict = .ok (pv, out)) :
    out = dof.filter (fun d => decide (key d ∈ ks)) ∧
    List.Forall₂ (fun i d => ks[i]? = some (key d)) pv out ∧
    (strict = true → out = dof) := by
  unfold mkdofpvKeys at h
  simp only at h
  split at h
  · cases h
  · rename_i hc
    simp only [Except.ok.injEq, Prod.mk.injEq] at h
    obtain ⟨hpv, hout⟩ := h
    have hfilt : ∀ l : List (Nat × Nat),
        ((l.map (fun d => (lookup ks (argsort ks) (key d), d))).filter
          (fun r => r.1.isSome)).map (·.2) = l.filter (fun d => decide (key d ∈ ks)) := by
      intro l
      induction l with
      | nil => rfl
      | cons d t ih =>
          simp only [List.map_cons, List.filter_cons]
          cases hl : lookup ks (argsort ks) (key d) with
          | none =>
              have := lookup_eq_none_iff.mp hl
              simp [this, ih]
          | some i =>
              have : key d ∈ ks := List.mem_of_getElem? (lookup_sound' hl)
              simp [this, ih]
    have hforall : ∀ l : List (Nat × Nat),
        List.Forall₂ (fun i d => ks[i]? = some (key d))
          ((l.map (fun d => (lookup ks (argsort ks) (key d), d))).filterMap (·.1))
          (l.filter (fun d => decide (key d ∈ ks))) := by
      intro l
      induction l with
      | nil => exact List.Forall₂.nil
      | cons d t ih =>
          simp only [List.map_cons, List.filterMap_cons, List.filter_cons]
          cases hl : lookup ks (argsort ks) (key d) with
          | none =>
              have := lookup_eq_none_iff.mp hl
              simpa [this] using ih
          | some i =>
              have hk := lookup_sound' hl
              have : key d ∈ ks := List.mem_of_getElem? hk
              simp only [this, decide_true, if_true]
              exact List.Forall₂.cons hk ih
    refine ⟨by rw [← hout]; exact hfilt dof, ?_, ?_⟩
    · rw [← hpv, ← hout, hfilt dof]; exact hforall dof
    · intro hs
      rw [← hout, hfilt dof]
      apply List.filter_eq_self.mpr
      intro d hd
      by_contra hn
      apply hc
      rw [Bool.and_eq_true]
      refine ⟨List.any_eq_true.mpr ⟨_, List.mem_map.mpr ⟨d, hd, rfl⟩, ?_⟩, hs⟩
      exact Option.isNone_iff_eq_none.mpr (lookup_eq_none_iff.mpr (by simpa using hn))

/-- with distinct keys (a USET table) the position is *the* position of the DOF. -/
theorem mkdofpv_positions (ks : List Nat) (hnd : ks.Nodup) (dof : List (Nat × Nat))
    (strict : Bool) (pv : List Nat) (out : List (Nat × Nat))
    (h : mkdofpvKeys ks dof strict = .ok (pv, out)) :
    pv = out.map (fun d => ks.idxOf (key d)) := by
  have := (mkdofpv_spec ks dof strict pv out h).2.1
  clear h
  induction this with
  | nil => rfl
  | @cons i d pv' out' hk _ ih =>
      simp only [List.map_cons]
      congr 1
      obtain ⟨hlt, hget⟩ := List.getElem?_eq_some_iff.mp hk
      rw [← hget]
      exact (List.Nodup.idxOf_getElem hnd i hlt).symm

/-- the set-partition step of `mkdofpv` on a table whose DOF are all in the p-set: the look-up
runs on the keys of exactly the DOF of the requested set, in table order. -/
theorem mkdofpv_set (pmask mk : Nat) (tbl : List Row) (req : Request) (strict : Bool)
    (hp : ∀ r ∈ tbl, inSet r.2.2 pmask = true) :
    mkdofpv pmask tbl (.mask mk) req strict =
      (expanddof req).bind fun dof =>
        mkdofpvKeys ((tbl.filter (fun r => inSet r.2.2 mk)).map fun r => key (r.1, r.2.1))
          dof strict := by
  unfold mkdofpv
  have hall : (tbl.map (·.2.2)).filter (inSet · pmask) = tbl.map (·.2.2) :=
    List.filter_eq_self.mpr (by
      intro w hw
      obtain ⟨r, hr, rfl⟩ := List.mem_map.mp hw
      exact hp r hr)
  have hno : (tbl.map (·.2.2)).any (fun w => !inSet w pmask && inSet w mk) = false := by
    rw [List.any_eq_false]
    intro w hw
    obtain ⟨r, hr, rfl⟩ := List.mem_map.mp hw
    simp [hp r hr]
  simp only [mksetpv, hno, hall, Bool.false_eq_true, if_false]
  simp only [bind, Except.bind, List.length_map, ne_eq, not_true_eq_false, if_false]
  have hmm : List.map (fun x => inSet x mk) (List.map (fun x => x.2.2) tbl)
      = tbl.map (fun r => inSet r.2.2 mk) := by rw [List.map_map]; rfl
  have hsub : ((tbl.zip (tbl.map (fun r => inSet r.2.2 mk))).filter (·.2)).map (·.1)
      = tbl.filter (fun r => inSet r.2.2 mk) := filter_zip_map tbl _
  rw [hmm, ← hsub, List.map_map]

/-- non-vacuity: the non-strict look-up always returns (so `mkdofpv_spec` applies), and the
strict one returns when nothing is missing. -/
example (ks : List Nat) (dof : List (Nat × Nat)) : ∃ r, mkdofpvKeys ks dof false = .ok r := by
  unfold mkdofpvKeys; simp

example : mkdofpvKeys [1001, 1002] [(100, 2), (100, 3)] false = .ok ([1], [(100, 2)]) := by
  simp [mkdofpvKeys, argsort, lookup, searchsortedLeft, key, List.mergeSort, List.zipIdx,
    List.MergeSort.Internal.splitInTwo]

/-! ## locate helpers -/

section rows
variable {α : Type} [LinearOrder α]

/-- `mat_intersect`: `D1[pv1] == D2[pv2]` row by row, and the vector on the looped side lists
exactly the rows that occur on the other side (nothing is missed, nothing else is reported).
Empty inputs and unequal column counts give empty vectors (`matIntersect` is total). -/
theorem mat_intersect_spec (d1 d2 : List α) (c keep : Nat) :
    let r := matIntersect d1 d2 c c keep
    List.Forall₂ (fun i j => ∃ x, d1[i]? = some x ∧ d2[j]? = some x) r.1 r.2 ∧
    (((keep = 0 ∧ d1.length ≤ d2.length) ∨ keep = 1) →
        ∀ i, i ∈ r.1 ↔ ∃ x, d1[i]? = some x ∧ x ∈ d2) ∧
    (¬((keep = 0 ∧ d1.length ≤ d2.length) ∨ keep = 1) →
        ∀ j, j ∈ r.2 ↔ ∃ x, d2[j]? = some x ∧ x ∈ d1) := by
  unfold matIntersect lookupAll
  simp only [ne_eq, not_true_eq_false, if_false]
  by_cases hc : (keep = 0 ∧ d1.length ≤ d2.length) ∨ keep = 1
  · simp only [hc, decide_true, Bool.not_true, Bool.false_eq_true, if_false]
    obtain ⟨h1, h2⟩ := lookup_pairs d2 d1 0
    refine ⟨h1.imp ?_, fun _ i => by simpa using h2 i, fun h => absurd trivial h⟩
    rintro n h ⟨x, a, b, _⟩
    exact ⟨x, by simpa using a, b⟩
  · simp only [hc, decide_false, Bool.not_false, if_true]
    obtain ⟨h1, h2⟩ := lookup_pairs d1 d2 0
    refine ⟨List.Forall₂.flip (h1.imp ?_), fun h => h.elim, fun _ j => by simpa using h2 j⟩
    rintro n h ⟨x, a, b, _⟩
    exact ⟨x, b, by simpa using a⟩
end rows

/-- `find_subseq`: exactly the starts of `subseq` in `seq`, ascending; the correlation
pre-filter never discards a true occurrence. -/
theorem find_subseq_spec (seq sub : List Int) (pv : List Nat)
    (h : findSubseq seq sub = .ok pv) :
    pv = (List.range (seq.length + 1 - sub.length)).filter
      (fun k => (seq.drop k).take sub.length = sub) ∧ sub ≠ [] := by
  unfold findSubseq at h
  split at h
  · rename_i hlt
    cases h
    have : seq.length + 1 - sub.length = 0 := by omega
    refine ⟨by rw [this]; rfl, ?_⟩
    intro he; rw [he] at hlt; simp at hlt
  · split at h
    · cases h
    · rename_i hle hne
      simp only [Except.ok.injEq] at h
      rw [← h, List.filter_filter]
      have hlen : seq.length - sub.length + 1 = seq.length + 1 - sub.length := by omega
      rw [hlen]
      refine ⟨List.filter_congr ?_, fun he => hne (Or.inl he)⟩
      intro k _
      by_cases hw : (seq.drop k).take sub.length = sub
      · simp [hw, corr_of_window hw]
      · simp [hw]

/-- `list_intersect`: positions of first occurrences of every common item, once each, in the
order of `L1`; `[L1[i] for i in pv1] == [L2[i] for i in pv2]`. -/
theorem list_intersect_spec {α : Type} [DecidableEq α] (l1 l2 : List α) :
    let r := listIntersect l1 l2
    List.Forall₂ (fun i j => ∃ x, l1[i]? = some x ∧ l2[j]? = some x ∧
        i = l1.idxOf x ∧ j = l2.idxOf x) r.1 r.2 ∧
    (∀ x, x ∈ l1 → x ∈ l2 → l1.idxOf x ∈ r.1) := by
  unfold listIntersect
  simp only
  constructor
  · rw [List.forall₂_map_left_iff, List.forall₂_map_right_iff, List.forall₂_same]
    intro x hx
    obtain ⟨hx1, hx2⟩ := List.mem_filter.mp hx
    have h1 : x ∈ l1 := List.mem_eraseDups.mp hx1
    have h2 : x ∈ l2 := by simpa using hx2
    exact ⟨x, List.getElem?_idxOf h1, List.getElem?_idxOf h2, rfl, rfl⟩
  · intro x h1 h2
    exact List.mem_map.mpr ⟨x, List.mem_filter.mpr ⟨List.mem_eraseDups.mpr h1, by simpa using h2⟩, rfl⟩


/-- `flippv`: `IndexError` iff an index is outside `[-n, n)`; otherwise the ascending list of
the positions `< n` that no entry of `pv` (negative entries wrap) names: the complement. -/
theorem flippv_spec (pv : List Int) (n : Nat) :
    (flippv pv n = .error .index ↔ ∃ p ∈ pv, normIndex n p = none) ∧
    ∀ out, flippv pv n = .ok out →
      out = (List.range n).filter (fun i => decide (∀ p ∈ pv, normIndex n p ≠ some i)) := by
  unfold flippv
  obtain ⟨h1, h2⟩ := mapM_option (normIndex n) pv
  cases hm : pv.mapM (normIndex n) with
  | none => exact ⟨⟨fun _ => h1.mp hm, fun _ => rfl⟩, fun out h => by cases h⟩
  | some ps =>
      refine ⟨⟨fun h => (by cases h), fun h => ?_⟩, ?_⟩
      · have := h1.mpr h; rw [hm] at this; cases this
      · intro out h
        cases h
        apply List.filter_congr
        intro i _
        have := mem_of_forall₂ (h2 ps hm) i
        by_cases hi : i ∈ ps
        · obtain ⟨p, hp, hf⟩ := this.mp hi
          have : ¬ ∀ p ∈ pv, normIndex n p ≠ some i := fun hall => hall p hp hf
          simp [hi, this]
        · have hall : ∀ p ∈ pv, normIndex n p ≠ some i := fun p hp hf => hi (this.mpr ⟨p, hp, hf⟩)
          simp only [hi, List.contains_eq_mem, decide_false, Bool.not_false]
          exact (decide_eq_true hall).symm

/-- `index2bool`: the indicator vector of `pv` (negative entries wrap), length `n`. -/
theorem index2bool_spec (pv : List Int) (n : Nat) :
    (index2bool pv n = .error .index ↔ ∃ p ∈ pv, normIndex n p = none) ∧
    ∀ out, index2bool pv n = .ok out →
      out = (List.range n).map (fun i => decide (∃ p ∈ pv, normIndex n p = some i)) := by
  unfold index2bool
  obtain ⟨h1, h2⟩ := mapM_option (normIndex n) pv
  cases hm : pv.mapM (normIndex n) with
  | none => exact ⟨⟨fun _ => h1.mp hm, fun _ => rfl⟩, fun out h => by cases h⟩
  | some ps =>
      refine ⟨⟨fun h => (by cases h), fun h => ?_⟩, ?_⟩
      · have := h1.mpr h; rw [hm] at this; cases this
      · intro out h
        cases h
        apply List.map_congr_left
        intro i _
        have := mem_of_forall₂ (h2 ps hm) i
        by_cases hi : i ∈ ps
        · simp [hi, this.mp hi]
        · have : ¬ ∃ p ∈ pv, normIndex n p = some i := fun h => hi (this.mpr h)
          simp [hi, this]

/-- what the normalisation means: `-n ≤ p < n`, and the position is `p mod n`. -/
theorem normIndex_spec (n : Nat) (p : Int) :
    (normIndex n p = none ↔ ¬(-(n : Int) ≤ p ∧ p < n)) ∧
    ∀ i, normIndex n p = some i → (i : Int) = p % n ∧ i < n := by
  unfold normIndex
  constructor
  · split
    · simp; omega
    · split
      · simp; omega
      · simp; omega
  · intro i h
    split at h
    · rename_i hc
      cases h
      have : (p.toNat : Int) = p := Int.toNat_of_nonneg hc.1
      refine ⟨by rw [this, Int.emod_eq_of_lt hc.1 hc.2], by omega⟩
    · split at h
      · rename_i hc
        cases h
        have h0 : 0 ≤ p + n := by omega
        have : ((p + n).toNat : Int) = p + n := Int.toNat_of_nonneg h0
        refine ⟨?_, by omega⟩
        rw [this, ← Int.add_emod_right p n, Int.emod_eq_of_lt h0 (by omega)]
      · cases h

/-- `find_vals`: marks, in column-major order, exactly the entries of `m` that occur in `v`. -/
theorem find_vals_spec (rows : List (List Int)) (v : List Int) :
    findVals rows v = (colMajor rows).map (fun x => decide (x ∈ v)) := by
  unfold findVals
  apply List.map_congr_left
  intro x _
  rw [foldl_or_mem]; simp

/-- `find_rows`: for a matrix whose rows have the length of `row`, marks exactly the rows equal
to `row`; a `row` of another length gives the empty vector. -/
theorem find_rows_spec (rows : List (List Int)) (c : Nat) (row : List Int) :
    (c ≠ row.length → findRows rows c row = []) ∧
    (c = row.length → (∀ r ∈ rows, r.length = c) →
      findRows rows c row = rows.map (fun r => decide (r = row))) := by
  unfold findRows
  constructor
  · intro h; simp [h]
  · intro h hr
    simp only [h, ne_eq, not_true_eq_false, if_false]
    apply List.map_congr_left
    intro r hrm
    have := zip_abs_sum_zero r row (by rw [hr r hrm, h])
    by_cases he : r = row
    · subst he; simp [this.mpr rfl]
    · have : ¬ (((r.zip row).map fun p => (p.1 - p.2).natAbs).sum = 0) := fun hs => he (this.mp hs)
      simp [he, this]

/-- `find_unique` (at least two values; `tol = tn/td`): the first value is always kept, value
`i+1` is kept iff `|y[i+1]-y[i]| > |tol| * max|diff|`, where the maximum is attained. -/
theorem find_unique_spec (y : List Int) (tn : Int) (td : Nat) (out : List Bool)
    (h : findUnique y tn td = .ok out) :
    ∃ M : Nat, (∀ d ∈ diffs y, d.natAbs ≤ M) ∧ (∃ d ∈ diffs y, d.natAbs = M) ∧
      out = true :: (diffs y).map (fun d => decide (tn.natAbs * M < d.natAbs * td)) := by
  unfold findUnique at h
  cases hm : diffs y with
  | nil => rw [hm] at h; cases h
  | cons d t =>
      rw [hm] at h
      simp only [Except.ok.injEq] at h
      obtain ⟨_, h2, h3⟩ := foldl_max_spec (d :: t) 0
      refine ⟨_, h2, ?_, h.symm⟩
      rcases h3 with h0 | hex
      · refine ⟨d, List.mem_cons_self, ?_⟩
        have := h2 d List.mem_cons_self
        omega
      · exact hex

example : findUnique [4, 4, -2, -2, 0, -2] 1 1000000 = .ok [true, false, true, false, true, true] := by
  decide

example : matIntersect [5, 7, 9] [7, 5] 1 1 1 = ([0, 1], [1, 0]) := by
  simp [matIntersect, lookupAll, argsort, lookup, searchsortedLeft, List.mergeSort, List.zipIdx,
    List.MergeSort.Internal.splitInTwo]

example : flippv [0, 3, 3, -1] 6 = .ok [1, 2, 4] ∧ flippv [7] 3 = .error .index := by decide

example : findSubseq [1, 2, 3, 4, 5, 6, 2, 3] [2, 3] = .ok [1, 6] := by decide

end PyYetiVerif.C18
