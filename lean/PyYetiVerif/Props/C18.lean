import PyYetiVerif.Lemmas.Uset
import PyYetiVerif.Lemmas.Locate
import PyYetiVerif.Lemmas.LocateDups
import PyYetiVerif.Lemmas.LocateSlice
import PyYetiVerif.Lemmas.LocateMerge
import PyYetiVerif.Lemmas.UsetMake
import PyYetiVerif.Lemmas.UsetUp
/-!
# C18 — DOF-set partitions and index look-ups satisfy their defining relations

Property theorems only.  The bit table is `Generated.UsetMask.mask`, regenerated from
`n2p.mkusetmask` on every run; the *specification* (which base sets each superset contains) is
written here by hand from the docstring diagram of `mkusetmask` / `mksetpv`:

    l = c + b;  t = l + r;  a = t + q;  f = a + o;  n = f + s;  g = n + m;  p = g + e;
    d = a + e;  fe = f + e;  ne = n + e          (base sets: m s o q r c b e)

The models (`Model/Uset.lean`, `Model/Locate.lean`) are tied to the Python source by the exact
correspondence check of harness/props/c18.py.
-/
set_option linter.constructorNameAsVariable false
namespace PyYetiVerif.C18
open PyYetiVerif.Uset PyYetiVerif.Generated.UsetMask PyYetiVerif.Locate

/-! ## the documented hierarchy (specification, hand-written) -/

def baseSets : List SetName := [.m, .s, .o, .q, .r, .c, .b, .e]
def supersets : List SetName := [.l, .t, .a, .f, .n, .g, .p, .fe, .d, .ne]
def userSets : List SetName := [.u1, .u2, .u3, .u4, .u5, .u6]

/-- base sets contained in a named set, read off the diagram -/
def members : SetName → List SetName
  | .l => [.c, .b]
  | .t => [.r, .c, .b]
  | .a => [.q, .r, .c, .b]
  | .f => [.o, .q, .r, .c, .b]
  | .n => [.s, .o, .q, .r, .c, .b]
  | .g => [.m, .s, .o, .q, .r, .c, .b]
  | .p => [.m, .s, .o, .q, .r, .c, .b, .e]
  | .d => [.q, .r, .c, .b, .e]
  | .fe => [.o, .q, .r, .c, .b, .e]
  | .ne => [.s, .o, .q, .r, .c, .b, .e]
  | x => [x]

/-! ## lattice theorems, decided on the generated table -/

/-- base-set masks are non-zero and pairwise disjoint: a DOF carrying (bits of) one base-set
mask lies in no other base set. -/
theorem base_sets_disjoint : ∀ b₁ ∈ baseSets, ∀ b₂ ∈ baseSets,
    mask b₁ ≠ 0 ∧ (b₁ ≠ b₂ → mask b₁ &&& mask b₂ = 0) := by decide

/-- each superset's mask meets exactly the masks of its documented members. -/
theorem superset_is_union : ∀ s ∈ supersets, ∀ b ∈ baseSets,
    (mask s &&& mask b ≠ 0) ↔ b ∈ members s := by decide

/-- the same bit by bit (a base-set mask may have two bits, e.g. `s = sg | sb`, and a DOF of a
real table carries only one of them): every single bit of a base-set mask lies in a named
set's mask iff the base set is a documented member. -/
theorem superset_is_union_bitwise : ∀ s ∈ supersets ++ baseSets, ∀ b ∈ baseSets, ∀ i < 32,
    (mask b).testBit i = true → ((mask s).testBit i = true ↔ b ∈ members s) := by decide

/-- user sets `u1 … u6` share no bit with any other set; all masks fit in 32 bits. -/
theorem user_sets_separate :
    (∀ u ∈ userSets, ∀ k ∈ SetName.all, k ≠ u → mask u &&& mask k = 0) ∧
    (∀ k ∈ SetName.all, mask k < 2 ^ 32) ∧ keys.Perm SetName.all := by decide

private theorem base_lt : ∀ b ∈ baseSets, mask b < 2 ^ 32 := by decide
private theorem members_base : ∀ b ∈ baseSets, members b = [b] := by decide
private theorem members_sub : ∀ s ∈ supersets, ∀ b' ∈ members s, b' ∈ baseSets := by decide

/-- `w` is a non-empty part of base set `b`'s mask (how a DOF of base set `b` appears in a
table, whatever superset bits are *not* counted here). -/
def BaseWord (w : Nat) (b : SetName) : Prop := b ∈ baseSets ∧ w ≠ 0 ∧ w &&& mask b = w

/-- membership test of `mksetpv` on a base-set word = documented membership. -/
theorem inSet_subword {w : Nat} {b : SetName} (hw : BaseWord w b) :
    ∀ s ∈ supersets ++ baseSets, (inSet w (mask s) = true ↔ b ∈ members s) := by
  intro s hs
  obtain ⟨hb, hne, hsub⟩ := hw
  rw [inSet_iff_exists_bit]
  constructor
  · rintro ⟨i, hwi, hsi⟩
    have hbi := testBit_of_subword hsub hwi
    have hi : i < 32 := by
      by_contra hge
      have hlt : mask b < 2 ^ i :=
        Nat.lt_of_lt_of_le (base_lt b hb)
          (Nat.pow_le_pow_right (by decide) (by omega))
      rw [Nat.testBit_lt_two_pow hlt] at hbi
      cases hbi
    exact (superset_is_union_bitwise s hs b hb i hi hbi).mp hsi
  · intro hmem
    obtain ⟨i, hwi⟩ := Nat.exists_testBit_of_ne_zero hne
    have hbi := testBit_of_subword hsub hwi
    have hi : i < 32 := by
      by_contra hge
      have hlt : mask b < 2 ^ i :=
        Nat.lt_of_lt_of_le (base_lt b hb)
          (Nat.pow_le_pow_right (by decide) (by omega))
      rw [Nat.testBit_lt_two_pow hlt] at hbi
      cases hbi
    exact ⟨i, hwi, (superset_is_union_bitwise s hs b hb i hi hbi).mpr hmem⟩

/-- every DOF carrying a base-set word lies in exactly one base set, and in a superset iff it
lies in one of the superset's documented members: each superset is the disjoint union of its
members. -/
theorem table_partition {w : Nat} {b : SetName} (hw : BaseWord w b) :
    (∀ b' ∈ baseSets, inSet w (mask b') = true ↔ b' = b) ∧
    (∀ s ∈ supersets, inSet w (mask s) = true ↔
        ∃ b' ∈ members s, inSet w (mask b') = true) := by
  have hb := hw.1
  constructor
  · intro b' hb'
    rw [inSet_subword hw b' (List.mem_append_right _ hb')]
    rw [members_base b' hb', List.mem_singleton, eq_comm]
  · intro s hs
    rw [inSet_subword hw s (List.mem_append_left _ hs)]
    constructor
    · intro h
      refine ⟨b, h, ?_⟩
      rw [inSet_subword hw b (List.mem_append_right _ hb)]
      rw [members_base b hb]; exact List.mem_singleton.mpr rfl
    · rintro ⟨b', hb's, hin⟩
      have hb'b := members_sub s hs b' hb's
      rw [inSet_subword hw b' (List.mem_append_right _ hb'b)] at hin
      rw [members_base b' hb'b, List.mem_singleton] at hin
      exact hin ▸ hb's

/-! ## mksetpv -/

/-- `mksetpv` for ARBITRARY set words and masks: the request is refused exactly when some DOF
of the minor set lies outside the major set. -/
theorem mksetpv_refuses_iff (words : List Nat) (major minor : Nat) :
    (mksetpv words major minor = .error .value ↔
      ∃ w ∈ words, inSet w minor = true ∧ inSet w major = false) ∧
    (∀ e, mksetpv words major minor = .error e → e = .value) := by
  unfold mksetpv
  constructor
  · constructor
    · intro h
      split at h
      · rename_i hany
        obtain ⟨w, hw, hc⟩ := List.any_eq_true.mp hany
        simp only [Bool.and_eq_true, Bool.not_eq_true'] at hc
        exact ⟨w, hw, hc.2, hc.1⟩
      · cases h
    · rintro ⟨w, hw, h1, h2⟩
      rw [if_pos]
      exact List.any_eq_true.mpr ⟨w, hw, by simp [h1, h2]⟩
  · intro e h
    split at h
    · cases h; rfl
    · cases h

/-- … and otherwise the partition vector has the major set's length, is `True` exactly at the
minor-set DOF, in table order: applied as a mask to the major sub-table it returns precisely
the minor sub-table. -/
theorem mksetpv_spec (words : List Nat) (major minor : Nat) (pv : List Bool)
    (h : mksetpv words major minor = .ok pv) :
    pv.length = (words.filter (inSet · major)).length ∧
    pv = (words.filter (inSet · major)).map (inSet · minor) ∧
    (((words.filter (inSet · major)).zip pv).filter (·.2)).map (·.1)
      = words.filter (inSet · minor) := by
  unfold mksetpv at h
  split at h
  · cases h
  · rename_i hany
    cases h
    refine ⟨by simp, rfl, ?_⟩
    rw [filter_zip_map]
    apply filter_filter_of_imp
    intro w hw hm
    by_contra hM
    apply hany
    exact List.any_eq_true.mpr ⟨w, hw, by simp [hm, hM]⟩

/-- `mksetpv` with named sets on a table of base-set words (`tbl` pairs every word with its
base set): refused iff a DOF of a member of `minor` is not in a member of `major`; otherwise
the vector marks, among the DOF of `major`'s members, those of `minor`'s members. -/
theorem mksetpv_named (tbl : List (Nat × SetName)) (htbl : ∀ p ∈ tbl, BaseWord p.1 p.2)
    (major minor : SetName) (hM : major ∈ supersets ++ baseSets)
    (hm : minor ∈ supersets ++ baseSets) :
    mksetpv (tbl.map (·.1)) (mask major) (mask minor) =
      if tbl.any (fun p => decide (p.2 ∈ members minor) && !decide (p.2 ∈ members major))
      then .error .value
      else .ok ((tbl.filter (fun p => decide (p.2 ∈ members major))).map
                  (fun p => decide (p.2 ∈ members minor))) := by
  have key : ∀ s ∈ supersets ++ baseSets, ∀ p ∈ tbl,
      inSet p.1 (mask s) = decide (p.2 ∈ members s) := by
    intro s hs p hp
    have := inSet_subword (htbl p hp) s hs
    by_cases hmem : p.2 ∈ members s
    · simp [hmem, this.mpr hmem]
    · have : inSet p.1 (mask s) ≠ true := fun h => hmem (this.mp h)
      simp [hmem, Bool.eq_false_iff.mpr this]
  unfold mksetpv
  have h1 : (tbl.map (·.1)).any (fun w => !inSet w (mask major) && inSet w (mask minor)) =
      tbl.any (fun p => decide (p.2 ∈ members minor) && !decide (p.2 ∈ members major)) := by
    rw [Bool.eq_iff_iff, List.any_eq_true, List.any_eq_true]
    constructor
    · rintro ⟨w, hw, hc⟩
      obtain ⟨p, hp, rfl⟩ := List.mem_map.mp hw
      exact ⟨p, hp, by simpa [key major hM p hp, key minor hm p hp, Bool.and_comm] using hc⟩
    · rintro ⟨p, hp, hc⟩
      exact ⟨p.1, List.mem_map_of_mem hp,
        by simpa [key major hM p hp, key minor hm p hp, Bool.and_comm] using hc⟩
  rw [h1]
  split
  · rfl
  · congr 1
    rw [List.filter_map, List.map_map]
    have h2 : tbl.filter ((fun w => inSet w (mask major)) ∘ (·.1)) =
        tbl.filter (fun p => decide (p.2 ∈ members major)) :=
      List.filter_congr (fun p hp => by simp only [Function.comp, key major hM p hp])
    rw [h2]
    apply List.map_congr_left
    intro p hp
    simp only [Function.comp, key minor hm p (List.mem_filter.mp hp).1]

/-! ## expanddof -/

/-- the component list of a request row is the decimal numeral of its argument (`str(arg)`):
the listed digits, read as a base-10 number, give the argument back, each is a digit, and there
is at least one. -/
theorem expanddof_digits (n : Nat) :
    ofDigitsRev (digits n).reverse = n ∧ (∀ d ∈ digits n, d < 10) ∧ digits n ≠ [] := by
  unfold digits
  refine ⟨by rw [List.reverse_reverse]; exact ofDigitsRev_digitsRev n, ?_, ?_⟩
  · intro d hd; exact digitsRev_lt n d (List.mem_reverse.mp hd)
  · simpa using digitsRev_ne_nil n

/-- two-column `expanddof`: `ValueError` iff some listed component exceeds 6; otherwise every
row `[id, arg]` is replaced, in place and in order, by `[id, d]` for the digits `d` of `arg`. -/
theorem expanddof2_spec (rows : List (Nat × Nat)) :
    (expanddof2 rows = .error .value ↔ ∃ r ∈ rows, ∃ d ∈ digits r.2, 6 < d) ∧
    (∀ out, expanddof2 rows = .ok out →
      out = rows.flatMap (fun r => (digits r.2).map (fun d => (r.1, d))) ∧
      ∀ p ∈ out, p.2 ≤ 6) := by
  unfold expanddof2
  dsimp only
  constructor
  · constructor
    · intro h
      split at h
      · rename_i hany
        obtain ⟨p, hp, hc⟩ := List.any_eq_true.mp hany
        obtain ⟨r, hr, hpr⟩ := List.mem_flatMap.mp hp
        obtain ⟨d, hd, rfl⟩ := List.mem_map.mp hpr
        exact ⟨r, hr, d, hd, by simpa using hc⟩
      · cases h
    · rintro ⟨r, hr, d, hd, h6⟩
      rw [if_pos]
      exact List.any_eq_true.mpr ⟨(r.1, d), List.mem_flatMap.mpr ⟨r, hr,
        List.mem_map.mpr ⟨d, hd, rfl⟩⟩, by simpa using h6⟩
  · intro out h
    split at h
    · cases h
    · rename_i hany
      cases h
      refine ⟨rfl, ?_⟩
      intro p hp
      by_contra h6
      exact hany (List.any_eq_true.mpr ⟨p, hp, by simpa using Nat.lt_of_not_le h6⟩)

example : expanddof2 [(1, 34), (2, 156)] = .ok [(1, 3), (1, 4), (2, 1), (2, 5), (2, 6)] := by
  simp [expanddof2, expandRow, digits, digitsRev]

example : expandRow (7, 123456) = [(7, 1), (7, 2), (7, 3), (7, 4), (7, 5), (7, 6)] := by
  simp [expandRow, digits, digitsRev]

/-! ## mkdofpv: sorted search with exact-match re-check -/

section lookup
variable {α : Type} [LinearOrder α]

/-- a reported position holds exactly the requested value (the re-check makes a neighbouring
index returned by `searchsorted` for a missing key impossible). -/
theorem lookup_sound {xs : List α} {srt : List (α × Nat)} {x : α} {i : Nat}
    (h : lookup xs srt x = some i) : xs[i]? = some x := lookup_sound' h

/-- a requested value that is present is found; one that is absent is reported missing. -/
theorem lookup_complete (xs : List α) (x : α) :
    (x ∈ xs → ∃ i, lookup xs (argsort xs) x = some i) ∧
    (lookup xs (argsort xs) x = none ↔ x ∉ xs) :=
  ⟨lookup_complete', lookup_eq_none_iff⟩

end lookup

/-- strict `mkdofpv` raises `ValueError` iff a requested DOF is missing from the set; no other
error arises in the look-up. -/
theorem mkdofpv_strict_iff (ks : List Nat) (dof : List (Nat × Nat)) (strict : Bool) :
    (mkdofpvKeys ks dof strict = .error .value ↔ strict = true ∧ ∃ d ∈ dof, key d ∉ ks) ∧
    (∀ e, mkdofpvKeys ks dof strict = .error e → e = .value) := by
  unfold mkdofpvKeys
  dsimp only
  have hany : (dof.map (fun d => (lookup ks (argsort ks) (key d), d))).any (fun r => r.1.isNone)
      = true ↔ ∃ d ∈ dof, key d ∉ ks := by
    rw [List.any_eq_true]
    constructor
    · rintro ⟨r, hr, hn⟩
      obtain ⟨d, hd, rfl⟩ := List.mem_map.mp hr
      exact ⟨d, hd, lookup_eq_none_iff.mp (Option.isNone_iff_eq_none.mp hn)⟩
    · rintro ⟨d, hd, hn⟩
      exact ⟨_, List.mem_map.mpr ⟨d, hd, rfl⟩,
        Option.isNone_iff_eq_none.mpr (lookup_eq_none_iff.mpr hn)⟩
  constructor
  · constructor
    · intro h
      split at h
      · rename_i hc
        rw [Bool.and_eq_true] at hc
        exact ⟨hc.2, hany.mp hc.1⟩
      · cases h
    · rintro ⟨hs, hex⟩
      rw [if_pos]
      rw [Bool.and_eq_true]
      exact ⟨hany.mpr hex, hs⟩
  · intro e h
    split at h
    · cases h; rfl
    · cases h

/-- `mkdofpv` returns, in request order, exactly the requested DOF that are present
(`outdof`), with one position per returned DOF, and each position holds that DOF's key.
Non-strict therefore drops exactly the missing DOF; strict succeeds only when none is missing,
so nothing is dropped. -/
theorem mkdofpv_spec (ks : List Nat) (dof : List (Nat × Nat)) (strict : Bool)
    (pv : List Nat) (out : List (Nat × Nat))
    (h : mkdofpvKeys ks dof strict = .ok (pv, out)) :
    out = dof.filter (fun d => decide (key d ∈ ks)) ∧
    List.Forall₂ (fun i d => ks[i]? = some (key d)) pv out ∧
    (strict = true → out = dof) := by
  unfold mkdofpvKeys at h
  simp only at h
  split at h
  · cases h
  · rename_i hc
    simp only [Except.ok.injEq, Prod.mk.injEq] at h
    obtain ⟨hpv, hout⟩ := h
    have hfilt : ∀ l : List (Nat × Nat),
        ((l.map (fun d => (lookup ks (argsort ks) (key d), d))).filter
          (fun r => r.1.isSome)).map (·.2) = l.filter (fun d => decide (key d ∈ ks)) := by
      intro l
      induction l with
      | nil => rfl
      | cons d t ih =>
          simp only [List.map_cons, List.filter_cons]
          cases hl : lookup ks (argsort ks) (key d) with
          | none =>
              have := lookup_eq_none_iff.mp hl
              simp [this, ih]
          | some i =>
              have : key d ∈ ks := List.mem_of_getElem? (lookup_sound' hl)
              simp [this, ih]
    have hforall : ∀ l : List (Nat × Nat),
        List.Forall₂ (fun i d => ks[i]? = some (key d))
          ((l.map (fun d => (lookup ks (argsort ks) (key d), d))).filterMap (·.1))
          (l.filter (fun d => decide (key d ∈ ks))) := by
      intro l
      induction l with
      | nil => exact List.Forall₂.nil
      | cons d t ih =>
          simp only [List.map_cons, List.filterMap_cons, List.filter_cons]
          cases hl : lookup ks (argsort ks) (key d) with
          | none =>
              have := lookup_eq_none_iff.mp hl
              simpa [this] using ih
          | some i =>
              have hk := lookup_sound' hl
              have : key d ∈ ks := List.mem_of_getElem? hk
              simp only [this, decide_true, if_true]
              exact List.Forall₂.cons hk ih
    refine ⟨by rw [← hout]; exact hfilt dof, ?_, ?_⟩
    · rw [← hpv, ← hout, hfilt dof]; exact hforall dof
    · intro hs
      rw [← hout, hfilt dof]
      apply List.filter_eq_self.mpr
      intro d hd
      by_contra hn
      apply hc
      rw [Bool.and_eq_true]
      refine ⟨List.any_eq_true.mpr ⟨_, List.mem_map.mpr ⟨d, hd, rfl⟩, ?_⟩, hs⟩
      exact Option.isNone_iff_eq_none.mpr (lookup_eq_none_iff.mpr (by simpa using hn))

/-- with distinct keys (a USET table) the position is *the* position of the DOF. -/
theorem mkdofpv_positions (ks : List Nat) (hnd : ks.Nodup) (dof : List (Nat × Nat))
    (strict : Bool) (pv : List Nat) (out : List (Nat × Nat))
    (h : mkdofpvKeys ks dof strict = .ok (pv, out)) :
    pv = out.map (fun d => ks.idxOf (key d)) := by
  have := (mkdofpv_spec ks dof strict pv out h).2.1
  clear h
  induction this with
  | nil => rfl
  | @cons i d pv' out' hk _ ih =>
      simp only [List.map_cons]
      congr 1
      obtain ⟨hlt, hget⟩ := List.getElem?_eq_some_iff.mp hk
      rw [← hget]
      exact (List.Nodup.idxOf_getElem hnd i hlt).symm

/-- the set-partition step of `mkdofpv` on a table whose DOF are all in the p-set: the look-up
runs on the keys of exactly the DOF of the requested set, in table order. -/
theorem mkdofpv_set (pmask mk : Nat) (tbl : List Row) (req : Request) (strict : Bool)
    (hp : ∀ r ∈ tbl, inSet r.2.2 pmask = true) :
    mkdofpv pmask tbl (.mask mk) req strict =
      (expanddof req).bind fun dof =>
        mkdofpvKeys ((tbl.filter (fun r => inSet r.2.2 mk)).map fun r => key (r.1, r.2.1))
          dof strict := by
  unfold mkdofpv
  have hall : (tbl.map (·.2.2)).filter (inSet · pmask) = tbl.map (·.2.2) :=
    List.filter_eq_self.mpr (by
      intro w hw
      obtain ⟨r, hr, rfl⟩ := List.mem_map.mp hw
      exact hp r hr)
  have hno : (tbl.map (·.2.2)).any (fun w => !inSet w pmask && inSet w mk) = false := by
    rw [List.any_eq_false]
    intro w hw
    obtain ⟨r, hr, rfl⟩ := List.mem_map.mp hw
    simp [hp r hr]
  simp only [mksetpv, hno, hall, Bool.false_eq_true, if_false]
  simp only [bind, Except.bind, List.length_map, ne_eq, not_true_eq_false, if_false]
  have hmm : List.map (fun x => inSet x mk) (List.map (fun x => x.2.2) tbl)
      = tbl.map (fun r => inSet r.2.2 mk) := by rw [List.map_map]; rfl
  have hsub : ((tbl.zip (tbl.map (fun r => inSet r.2.2 mk))).filter (·.2)).map (·.1)
      = tbl.filter (fun r => inSet r.2.2 mk) := filter_zip_map tbl _
  rw [hmm, ← hsub, List.map_map]

/-- non-vacuity: the non-strict look-up always returns (so `mkdofpv_spec` applies), and the
strict one returns when nothing is missing. -/
example (ks : List Nat) (dof : List (Nat × Nat)) : ∃ r, mkdofpvKeys ks dof false = .ok r := by
  unfold mkdofpvKeys; simp

example : mkdofpvKeys [1001, 1002] [(100, 2), (100, 3)] false = .ok ([1], [(100, 2)]) := by
  simp [mkdofpvKeys, argsort, lookup, searchsortedLeft, key, List.mergeSort, List.zipIdx,
    List.MergeSort.Internal.splitInTwo]

/-! ## locate helpers -/

section rows
variable {α : Type} [LinearOrder α]

/-- `mat_intersect`: `D1[pv1] == D2[pv2]` row by row, and the vector on the looped side lists
exactly the rows that occur on the other side (nothing is missed, nothing else is reported).
Empty inputs and unequal column counts give empty vectors (`matIntersect` is total). -/
theorem mat_intersect_spec (d1 d2 : List α) (c keep : Nat) :
    let r := matIntersect d1 d2 c c keep
    List.Forall₂ (fun i j => ∃ x, d1[i]? = some x ∧ d2[j]? = some x) r.1 r.2 ∧
    (((keep = 0 ∧ d1.length ≤ d2.length) ∨ keep = 1) →
        ∀ i, i ∈ r.1 ↔ ∃ x, d1[i]? = some x ∧ x ∈ d2) ∧
    (¬((keep = 0 ∧ d1.length ≤ d2.length) ∨ keep = 1) →
        ∀ j, j ∈ r.2 ↔ ∃ x, d2[j]? = some x ∧ x ∈ d1) := by
  unfold matIntersect lookupAll
  simp only [ne_eq, not_true_eq_false, if_false]
  by_cases hc : (keep = 0 ∧ d1.length ≤ d2.length) ∨ keep = 1
  · simp only [hc, decide_true, Bool.not_true, Bool.false_eq_true, if_false]
    obtain ⟨h1, h2⟩ := lookup_pairs d2 d1 0
    refine ⟨h1.imp ?_, fun _ i => by simpa using h2 i, fun h => absurd trivial h⟩
    rintro n h ⟨x, a, b, _⟩
    exact ⟨x, by simpa using a, b⟩
  · simp only [hc, decide_false, Bool.not_false, if_true]
    obtain ⟨h1, h2⟩ := lookup_pairs d1 d2 0
    refine ⟨List.Forall₂.flip (h1.imp ?_), fun h => h.elim, fun _ j => by simpa using h2 j⟩
    rintro n h ⟨x, a, b, _⟩
    exact ⟨x, b, by simpa using a⟩
end rows

/-- `find_subseq`: exactly the starts of `subseq` in `seq`, ascending; the correlation
pre-filter never discards a true occurrence. -/
theorem find_subseq_spec (seq sub : List Int) (pv : List Nat)
    (h : findSubseq seq sub = .ok pv) :
    pv = (List.range (seq.length + 1 - sub.length)).filter
      (fun k => (seq.drop k).take sub.length = sub) ∧ sub ≠ [] := by
  unfold findSubseq at h
  split at h
  · rename_i hlt
    cases h
    have : seq.length + 1 - sub.length = 0 := by omega
    refine ⟨by rw [this]; rfl, ?_⟩
    intro he; rw [he] at hlt; simp at hlt
  · split at h
    · cases h
    · rename_i hle hne
      simp only [Except.ok.injEq] at h
      rw [← h, List.filter_filter]
      have hlen : seq.length - sub.length + 1 = seq.length + 1 - sub.length := by omega
      rw [hlen]
      refine ⟨List.filter_congr ?_, fun he => hne (Or.inl he)⟩
      intro k _
      by_cases hw : (seq.drop k).take sub.length = sub
      · simp [hw, corr_of_window hw]
      · simp [hw]

/-- `list_intersect`: positions of first occurrences of every common item, once each, in the
order of `L1`; `[L1[i] for i in pv1] == [L2[i] for i in pv2]`. -/
theorem list_intersect_spec {α : Type} [DecidableEq α] (l1 l2 : List α) :
    let r := listIntersect l1 l2
    List.Forall₂ (fun i j => ∃ x, l1[i]? = some x ∧ l2[j]? = some x ∧
        i = l1.idxOf x ∧ j = l2.idxOf x) r.1 r.2 ∧
    (∀ x, x ∈ l1 → x ∈ l2 → l1.idxOf x ∈ r.1) := by
  unfold listIntersect
  simp only
  constructor
  · rw [List.forall₂_map_left_iff, List.forall₂_map_right_iff, List.forall₂_same]
    intro x hx
    obtain ⟨hx1, hx2⟩ := List.mem_filter.mp hx
    have h1 : x ∈ l1 := List.mem_eraseDups.mp hx1
    have h2 : x ∈ l2 := by simpa using hx2
    exact ⟨x, List.getElem?_idxOf h1, List.getElem?_idxOf h2, rfl, rfl⟩
  · intro x h1 h2
    exact List.mem_map.mpr ⟨x, List.mem_filter.mpr ⟨List.mem_eraseDups.mpr h1, by simpa using h2⟩, rfl⟩


/-- `flippv`: `IndexError` iff an index is outside `[-n, n)`; otherwise the ascending list of
the positions `< n` that no entry of `pv` (negative entries wrap) names: the complement. -/
theorem flippv_spec (pv : List Int) (n : Nat) :
    (flippv pv n = .error .index ↔ ∃ p ∈ pv, normIndex n p = none) ∧
    ∀ out, flippv pv n = .ok out →
      out = (List.range n).filter (fun i => decide (∀ p ∈ pv, normIndex n p ≠ some i)) := by
  unfold flippv
  obtain ⟨h1, h2⟩ := mapM_option (normIndex n) pv
  cases hm : pv.mapM (normIndex n) with
  | none => exact ⟨⟨fun _ => h1.mp hm, fun _ => rfl⟩, fun out h => by cases h⟩
  | some ps =>
      refine ⟨⟨fun h => (by cases h), fun h => ?_⟩, ?_⟩
      · have := h1.mpr h; rw [hm] at this; cases this
      · intro out h
        cases h
        apply List.filter_congr
        intro i _
        have := mem_of_forall₂ (h2 ps hm) i
        by_cases hi : i ∈ ps
        · obtain ⟨p, hp, hf⟩ := this.mp hi
          have : ¬ ∀ p ∈ pv, normIndex n p ≠ some i := fun hall => hall p hp hf
          simp [hi, this]
        · have hall : ∀ p ∈ pv, normIndex n p ≠ some i := fun p hp hf => hi (this.mpr ⟨p, hp, hf⟩)
          simp only [hi, List.contains_eq_mem, decide_false, Bool.not_false]
          exact (decide_eq_true hall).symm

/-- `index2bool`: the indicator vector of `pv` (negative entries wrap), length `n`. -/
theorem index2bool_spec (pv : List Int) (n : Nat) :
    (index2bool pv n = .error .index ↔ ∃ p ∈ pv, normIndex n p = none) ∧
    ∀ out, index2bool pv n = .ok out →
      out = (List.range n).map (fun i => decide (∃ p ∈ pv, normIndex n p = some i)) := by
  unfold index2bool
  obtain ⟨h1, h2⟩ := mapM_option (normIndex n) pv
  cases hm : pv.mapM (normIndex n) with
  | none => exact ⟨⟨fun _ => h1.mp hm, fun _ => rfl⟩, fun out h => by cases h⟩
  | some ps =>
      refine ⟨⟨fun h => (by cases h), fun h => ?_⟩, ?_⟩
      · have := h1.mpr h; rw [hm] at this; cases this
      · intro out h
        cases h
        apply List.map_congr_left
        intro i _
        have := mem_of_forall₂ (h2 ps hm) i
        by_cases hi : i ∈ ps
        · simp [hi, this.mp hi]
        · have : ¬ ∃ p ∈ pv, normIndex n p = some i := fun h => hi (this.mpr h)
          simp [hi, this]

/-- what the normalisation means: `-n ≤ p < n`, and the position is `p mod n`. -/
theorem normIndex_spec (n : Nat) (p : Int) :
    (normIndex n p = none ↔ ¬(-(n : Int) ≤ p ∧ p < n)) ∧
    ∀ i, normIndex n p = some i → (i : Int) = p % n ∧ i < n := by
  unfold normIndex
  constructor
  · split
    · simp; omega
    · split
      · simp; omega
      · simp; omega
  · intro i h
    split at h
    · rename_i hc
      cases h
      have : (p.toNat : Int) = p := Int.toNat_of_nonneg hc.1
      refine ⟨by rw [this, Int.emod_eq_of_lt hc.1 hc.2], by omega⟩
    · split at h
      · rename_i hc
        cases h
        have h0 : 0 ≤ p + n := by omega
        have : ((p + n).toNat : Int) = p + n := Int.toNat_of_nonneg h0
        refine ⟨?_, by omega⟩
        rw [this, ← Int.add_emod_right p n, Int.emod_eq_of_lt h0 (by omega)]
      · cases h

/-- `find_vals`: marks, in column-major order, exactly the entries of `m` that occur in `v`. -/
theorem find_vals_spec (rows : List (List Int)) (v : List Int) :
    findVals rows v = (colMajor rows).map (fun x => decide (x ∈ v)) := by
  unfold findVals
  apply List.map_congr_left
  intro x _
  rw [foldl_or_mem]; simp

/-- `find_rows`: for a matrix whose rows have the length of `row`, marks exactly the rows equal
to `row`; a `row` of another length gives the empty vector. -/
theorem find_rows_spec (rows : List (List Int)) (c : Nat) (row : List Int) :
    (c ≠ row.length → findRows rows c row = []) ∧
    (c = row.length → (∀ r ∈ rows, r.length = c) →
      findRows rows c row = rows.map (fun r => decide (r = row))) := by
  unfold findRows
  constructor
  · intro h; simp [h]
  · intro h hr
    simp only [h, ne_eq, not_true_eq_false, if_false]
    apply List.map_congr_left
    intro r hrm
    have := zip_abs_sum_zero r row (by rw [hr r hrm, h])
    by_cases he : r = row
    · subst he; simp [this.mpr rfl]
    · have : ¬ (((r.zip row).map fun p => (p.1 - p.2).natAbs).sum = 0) := fun hs => he (this.mp hs)
      simp [he, this]

/-- `find_unique` (at least two values; `tol = tn/td`): the first value is always kept, value
`i+1` is kept iff `|y[i+1]-y[i]| > |tol| * max|diff|`, where the maximum is attained. -/
theorem find_unique_spec (y : List Int) (tn : Int) (td : Nat) (out : List Bool)
    (h : findUnique y tn td = .ok out) :
    ∃ M : Nat, (∀ d ∈ diffs y, d.natAbs ≤ M) ∧ (∃ d ∈ diffs y, d.natAbs = M) ∧
      out = true :: (diffs y).map (fun d => decide (tn.natAbs * M < d.natAbs * td)) := by
  unfold findUnique at h
  cases hm : diffs y with
  | nil => rw [hm] at h; cases h
  | cons d t =>
      rw [hm] at h
      simp only [Except.ok.injEq] at h
      obtain ⟨_, h2, h3⟩ := foldl_max_spec (d :: t) 0
      refine ⟨_, h2, ?_, h.symm⟩
      rcases h3 with h0 | hex
      · refine ⟨d, List.mem_cons_self, ?_⟩
        have := h2 d List.mem_cons_self
        omega
      · exact hex


/-! ## find_duplicates -/

/-- `find_duplicates(v, tol)`: `dups[i]` is `True` iff ANOTHER entry of `v` lies within `tol` of
`v[i]` (`|v[j] - v[i]| ≤ tol`, `j ≠ i`).  The code only compares the two *sorted neighbours* of
every value (`tf[k-1] or tf[k]` on `abs(diff(sort(v))) <= tol`); that is the same thing, also for
chains of near-equal values, because the closest other value is a sorted neighbour. -/
theorem find_duplicates_spec (v : List Int) (tol : Int) :
    findDuplicates v tol =
      v.zipIdx.map (fun a => decide (∃ p ∈ v.zipIdx, p.2 ≠ a.2 ∧ ((p.1 - a.1).natAbs : Int) ≤ tol)) :=
  findDuplicates_eq v tol

/-- a chain `0, 1, 2` with `tol = 1`: every value has a neighbour within `tol` (the ends are not
within `tol` of each other); spaced values and a negative `tol` flag nothing; `<=`, not `<`. -/
example : findDuplicates ([2, 0, 1] : List Int) 1 = [true, true, true] := by
  rw [find_duplicates_spec]; decide
example : findDuplicates ([0, 2, 4] : List Int) 1 = [false, false, false] := by
  rw [find_duplicates_spec]; decide
example : findDuplicates ([0, 0] : List Int) (-1) = [false, false] := by
  rw [find_duplicates_spec]; decide
example : findDuplicates ([5, 0, 5] : List Int) 0 = [true, false, true] := by
  rw [find_duplicates_spec]; decide

/-! ## index2slice -/

/-- index vectors that `index2slice` turns into a slice: at most one entry, or an arithmetic
progression with a non-zero step all of whose entries are non-negative. -/
def Convertible (pv : List Int) : Prop :=
  pv.length ≤ 1 ∨ ∃ x d, d ≠ 0 ∧ pv = prog x d pv.length ∧ ∀ p ∈ pv, 0 ≤ p

/-- `index2slice` returns a slice exactly for the convertible vectors; any other vector comes back
unchanged, or is a `ValueError` when `strict`. -/
theorem index2slice_cases (pv : List Int) (strict : Bool) :
    (Convertible pv → ∃ a b c, index2slice pv strict = .ok (.slice a b c)) ∧
    (¬ Convertible pv →
      index2slice pv strict = if strict then .error .value else .ok (.pv pv)) := by
  match pv with
  | [] => exact ⟨fun _ => ⟨_, _, _, rfl⟩, fun h => absurd (Or.inl (by simp)) h⟩
  | [x] => exact ⟨fun _ => ⟨_, _, _, rfl⟩, fun h => absurd (Or.inl (by simp)) h⟩
  | x :: y :: rest =>
      have hlast : ∀ d, (x :: y :: rest) = prog x d (rest.length + 2) →
          (y :: rest).getLast?.getD y = x + ((rest.length + 1 : Nat) : Int) * d := by
        intro d hp
        have h1 := getLast_prog x d (rest.length + 1)
        rw [← hp, List.getLast?_cons_cons] at h1
        rw [h1]; rfl
      by_cases hc : (y - x ≠ 0 ∧ (diffs (x :: y :: rest)).all (· = y - x) = true ∧ 0 ≤ x ∧
          0 ≤ (y :: rest).getLast?.getD y)
      · refine ⟨fun _ => ?_, fun hn => absurd (Or.inr ⟨x, y - x, hc.1, ?_, ?_⟩) hn⟩
        · unfold index2slice
          simp only
          rw [if_pos hc]
          exact ⟨_, _, _, rfl⟩
        · exact (diffs_all_iff (y - x) (y :: rest) x).mp hc.2.1
        · have hp := (diffs_all_iff (y - x) (y :: rest) x).mp hc.2.1
          rw [List.length_cons] at hp
          have hl := hlast _ hp
          intro p hpm
          rw [hp] at hpm
          have hb := prog_bounds hpm
          rw [hl] at hc
          rcases Int.le_total 0 (y - x) with hd | hd
          · have := (hb.1 hd).1; omega
          · have := (hb.2 hd).1; omega
      · refine ⟨fun hconv => ?_, fun _ => ?_⟩
        · exfalso
          apply hc
          rcases hconv with hl | ⟨x', d, hd, hp, hnn⟩
          · simp at hl
          · have hp' := hp
            simp only [List.length_cons] at hp'
            rw [prog_succ, prog_succ] at hp'
            have hx : x' = x := (List.cons.inj hp').1.symm
            subst hx
            have hy : y = x' + d := (List.cons.inj (List.cons.inj hp').2).1
            have hdd : y - x' = d := by omega
            have hp2 : x' :: y :: rest = prog x' (y - x') ((y :: rest).length + 1) := by
              rw [hdd]; exact hp
            refine ⟨by omega, (diffs_all_iff (y - x') (y :: rest) x').mpr hp2, ?_, ?_⟩
            · exact hnn x' List.mem_cons_self
            · have hmem : (y :: rest).getLast?.getD y ∈ x' :: y :: rest := by
                cases hg : (y :: rest).getLast? with
                | none => simp
                | some z =>
                    exact List.mem_cons_of_mem _ (List.mem_of_getLast? hg)
              exact hnn _ hmem
        · unfold index2slice
          simp only
          rw [if_neg hc]

/-- the slice returned by `index2slice` selects exactly the positions that `pv` names: for every
axis length `n` for which `pv` is a valid index vector, `range(n)[slice]` (CPython semantics,
model `pySlice`) is `pv` with negative entries counted from the end.  This covers negative steps
and `stop = None` for a descending progression that reaches index 0. -/
theorem index2slice_spec (pv : List Int) (strict : Bool) (a b c : Option Int)
    (h : index2slice pv strict = .ok (.slice a b c)) (n : Nat)
    (hn : ∀ p ∈ pv, -(n : Int) ≤ p ∧ p < n) :
    pySlice a b c n = .ok (pv.map (· % (n : Int))) := by
  match pv with
  | [] =>
      unfold index2slice at h
      simp only [Except.ok.injEq, SliceOrPv.slice.injEq] at h
      obtain ⟨rfl, rfl, rfl⟩ := h
      exact pySlice_empty n
  | [x] =>
      unfold index2slice at h
      simp only [Except.ok.injEq, SliceOrPv.slice.injEq] at h
      obtain ⟨rfl, rfl, rfl⟩ := h
      have := hn x List.mem_cons_self
      exact pySlice_single this.1 this.2
  | x :: y :: rest =>
      unfold index2slice at h
      simp only at h
      split at h
      · rename_i hc
        simp only [Except.ok.injEq, SliceOrPv.slice.injEq] at h
        obtain ⟨rfl, rfl, rfl⟩ := h
        have hp := (diffs_all_iff (y - x) (y :: rest) x).mp hc.2.1
        rw [List.length_cons] at hp
        have hl : (y :: rest).getLast?.getD y = x + ((rest.length + 1 : Nat) : Int) * (y - x) := by
          have h1 := getLast_prog x (y - x) (rest.length + 1)
          rw [← hp, List.getLast?_cons_cons] at h1
          rw [h1]; rfl
        have hmemlast : (y :: rest).getLast?.getD y ∈ x :: y :: rest := by
          cases hg : (y :: rest).getLast? with
          | none => simp
          | some z => exact List.mem_cons_of_mem _ (List.mem_of_getLast? hg)
        have hnn : ∀ p ∈ x :: y :: rest, 0 ≤ p := by
          intro p hpm
          have hpm' := hpm
          rw [hp] at hpm'
          have hb := prog_bounds hpm'
          have h0 := hc.2.2.2
          rw [hl] at h0
          rcases Int.le_total 0 (y - x) with hd | hd
          · have := (hb.1 hd).1; omega
          · have := (hb.2 hd).1; omega
        have hmod : (x :: y :: rest).map (· % (n : Int)) = x :: y :: rest := by
          conv => rhs; rw [← List.map_id (x :: y :: rest)]
          apply List.map_congr_left
          intro p hpm
          exact Int.emod_eq_of_lt (hnn p hpm) (hn p hpm).2
        rw [hmod, hl]
        conv => rhs; rw [hp]
        rcases Int.lt_or_gt_of_ne hc.1 with hd | hd
        · have hstop : ¬ (x + ((rest.length + 1 : Nat) : Int) * (y - x) + (y - x) < 0) ∨
              (x + ((rest.length + 1 : Nat) : Int) * (y - x) + (y - x) < 0) := by omega
          have := @pySlice_neg x (y - x) (rest.length + 1) n hd (hn x List.mem_cons_self).2
            (by have := hc.2.2.2; rw [hl] at this; exact this)
          simpa using this
        · have hlt : x + ((rest.length + 1 : Nat) : Int) * (y - x) < n := by
            rw [← hl]; exact (hn _ hmemlast).2
          have hpos : ¬ (x + ((rest.length + 1 : Nat) : Int) * (y - x) + (y - x) < 0) := by
            have := hc.2.2.2; rw [hl] at this; omega
          rw [if_neg hpos]
          exact pySlice_pos hd hc.2.2.1 hlt
      · cases strict <;> simp at h

example : index2slice [10, 7, 4, 1] false = .ok (.slice (some 10) none (some (-3))) ∧
    pySlice (some 10) none (some (-3)) 11 = .ok [10, 7, 4, 1] ∧
    index2slice [3, 4, 5, 6] true = .ok (.slice (some 3) (some 7) (some 1)) ∧
    index2slice [-1] false = .ok (.slice (some (-1)) none none) ∧
    index2slice [0, 3, 5] true = .error .value ∧ index2slice [2, 2] false = .ok (.pv [2, 2]) := by
  decide

/-! ## merge_lists -/

/-- `merge_lists(list1, list2) = (merged, pv1, pv2)`: the documented equations
`list1 = [merged[i] for i in pv1]`, `list2 = [merged[i] for i in pv2]`; `merged` holds exactly the
items of both lists; the order of `list1` is kept (`list1` is a subsequence of `merged`, `pv1` is
non-decreasing, increasing when `list1` has no repeats); no repeats in the inputs, none in
`merged`. -/
theorem merge_lists_spec {α : Type} [DecidableEq α] (l1 l2 : List α) :
    let r := mergeLists l1 l2
    r.2.1.map (r.1[·]?) = l1.map some ∧ r.2.2.map (r.1[·]?) = l2.map some ∧
    l1.Sublist r.1 ∧ (∀ x, x ∈ r.1 ↔ x ∈ l1 ∨ x ∈ l2) ∧
    r.2.1.Pairwise (· ≤ ·) ∧ (l1.Nodup → r.2.1.Pairwise (· < ·)) ∧
    (l1.Nodup → l2.Nodup → r.1.Nodup) := by
  have hsub : l1.Sublist (mergeLists l1 l2).1 := by
    unfold mergeLists
    exact (foldl_mergeStep_sublist l2 (l1, [])).trans (List.sublist_append_left _ _)
  have hmem : ∀ x, x ∈ (mergeLists l1 l2).1 ↔ x ∈ l1 ∨ x ∈ l2 := by
    intro x
    unfold mergeLists
    simp only
    rw [foldl_mergeStep_mem x l2 (l1, [])]
    simp
  obtain ⟨h1, h2, _⟩ := pv1Loop_spec (mergeLists l1 l2).1 l1 0 (by simpa using hsub)
  refine ⟨h1, ?_, hsub, hmem, h2, fun hnd => pairwise_lt_of_map _ h1 h2 hnd, ?_⟩
  · show (l2.map fun e => (mergeLists l1 l2).1.idxOf e).map ((mergeLists l1 l2).1[·]?) = l2.map some
    rw [List.map_map]
    apply List.map_congr_left
    intro e he
    exact List.getElem?_idxOf ((hmem e).mpr (Or.inr he))
  · intro hn1 hn2
    unfold mergeLists
    exact foldl_mergeStep_nodup l2 (l1, []) hn1 (by simpa using hn2) (by simp)

/-- where the new items go (no repeats in `list2`): an item of `list2` that is not in `list1`
stands immediately in front of its successor in `list2` ("inserted just in front of the next
common element", runs of new items kept together); a new last item of `list2` is the last item
of `merged`. -/
theorem merge_lists_inserts {α : Type} [DecidableEq α] (l1 : List α) (x : α) (hx : x ∉ l1) :
    (∀ A B y, (A ++ x :: y :: B).Nodup →
      ∃ C D, (mergeLists l1 (A ++ x :: y :: B)).1 = C ++ x :: y :: D) ∧
    (∀ A, (A ++ [x]).Nodup → ∃ C, (mergeLists l1 (A ++ [x])).1 = C ++ [x]) :=
  ⟨fun A B y hnd => mergeLists_adj l1 A B x y hnd hx, fun A hnd => mergeLists_last l1 A x hnd hx⟩

example : mergeLists [1, 4, 10] [0, 1, 2, 4, 5] = ([0, 1, 2, 4, 10, 5], [1, 3, 4], [0, 1, 2, 3, 5]) := by
  decide

/-- non-vacuity of `merge_lists_inserts`: the new item 2 stands in front of its successor 4, the new
last item 5 is last -/
example : (∃ C D, (mergeLists [1, 4, 10] ([0, 1] ++ 2 :: 4 :: [5])).1 = C ++ 2 :: 4 :: D) ∧
    (∃ C, (mergeLists [1, 4, 10] ([0, 1, 2, 4] ++ [5])).1 = C ++ [5]) :=
  ⟨(merge_lists_inserts [1, 4, 10] 2 (by decide)).1 [0, 1] [5] 4 (by decide),
   (merge_lists_inserts [1, 4, 10] 5 (by decide)).2 [0, 1, 2, 4] (by decide)⟩

/-! ## mkusetmask / mksetpv with `+` combinations -/

theorem inSet_or (w a b : Nat) : inSet w (a ||| b) = (inSet w a || inSet w b) := by
  unfold inSet
  rw [Nat.and_or_distrib_left, Bool.eq_iff_iff]
  simp only [bne_iff_ne, ne_eq, Nat.or_eq_zero_iff, Bool.or_eq_true]
  by_cases h : w &&& a = 0 <;> simp [h]

/-- `mkusetmask("x+y+…")` is the union of the named sets: a DOF is in it iff it is in one of
them. -/
theorem mkusetmask_plus (msk : SetName → Nat) (sets : List SetName) (w : Nat) :
    inSet w (setsMask msk sets) = sets.any (fun s => inSet w (msk s)) := by
  unfold setsMask
  have : ∀ (l : List SetName) (acc : Nat),
      inSet w (l.foldl (fun acc k => acc ||| msk k) acc) =
        (inSet w acc || l.any (fun s => inSet w (msk s))) := by
    intro l
    induction l with
    | nil => intro acc; simp
    | cons k t ih =>
        intro acc
        rw [List.foldl_cons, ih, inSet_or, List.any_cons, Bool.or_assoc]
  rw [this]
  simp [inSet]

/-- `mksetpv` with `+` combinations for major and minor: refused iff a DOF of one of the minor
sets lies in none of the major sets; otherwise the vector runs over the DOF of the union of the
major sets and marks those of the union of the minor sets. -/
theorem mksetpv_plus (msk : SetName → Nat) (words : List Nat) (major minor : List SetName) :
    (mksetpv words (setsMask msk major) (setsMask msk minor) = .error .value ↔
      ∃ w ∈ words, (∃ s ∈ minor, inSet w (msk s) = true) ∧ ∀ s ∈ major, inSet w (msk s) = false) ∧
    (∀ pv, mksetpv words (setsMask msk major) (setsMask msk minor) = .ok pv →
      pv = (words.filter (fun w => major.any (fun s => inSet w (msk s)))).map
        (fun w => minor.any (fun s => inSet w (msk s)))) := by
  constructor
  · rw [(mksetpv_refuses_iff words _ _).1]
    simp only [mkusetmask_plus, List.any_eq_true, List.any_eq_false]
    constructor
    · rintro ⟨w, hw, h1, h2⟩
      exact ⟨w, hw, h1, fun s hs => by simpa using h2 s hs⟩
    · rintro ⟨w, hw, h1, h2⟩
      exact ⟨w, hw, h1, fun s hs => by simpa using h2 s hs⟩
  · intro pv h
    have := (mksetpv_spec words _ _ pv h).2.1
    rw [this]
    simp only [mkusetmask_plus]

example : setsMask mask [.a, .o] = mask .f - 64 ∧ setsMask mask [.q, .b] = 6291458 := by decide

/-! ## make_uset -/

/-- `make_uset(dof, nasset)` (the code since fix a37d9b6), FULL strength: for EVERY request the
code accepts, the table has one row per DOF named by a request row (component list `123456`-style,
`0` for a scalar point), in request order, and each of these rows carries the set word of the
request row that names it (`wantedTbl`); a single word goes to every row.  No restriction on how
the component lists are written (a grid may be spread over several rows, `[[1,123],[1,456]]`). -/
theorem make_uset_sets (rows : List (Nat × Nat)) (nas : List Nat) (tbl : List Row)
    (h : makeUset (.rows rows) nas = .ok tbl) :
    (nas.length = rows.length → tbl = wantedTbl rows nas) ∧
    (∀ v, nas = [v] → tbl = wantedTbl rows (List.replicate rows.length v)) :=
  makeUset_sets h

/-- … and the requests the code accepts are exactly those with one word or one word per row whose
expansion passes the check of `makeUsetDof`: no component above 6, the non-zero DOF run `1 … 6`
grid after grid (each grid has all six DOF, in order). -/
theorem make_uset_accepts (rows : List (Nat × Nat)) (nas : List Nat) :
    ((∃ tbl, makeUset (.rows rows) nas = .ok tbl) ↔
      (nas.length = 1 ∨ nas.length = rows.length) ∧ ∃ edof, makeUsetDof (.rows rows) = .ok edof) ∧
    (∀ edof, makeUsetDof (.rows rows) = .ok edof →
      edof = rows.flatMap (fun r => (digits r.2).map fun d => (r.1, d)) ∧
      (∀ p ∈ edof, p.2 ≤ 6) ∧
      ∃ g, ((edof.filter fun p => decide (0 < p.2)).map (·.2)) =
        (List.replicate g [1, 2, 3, 4, 5, 6]).flatten) := by
  refine ⟨makeUset_ok_iff rows nas, fun edof h => ?_⟩
  have hed := makeUsetDof_ok h
  unfold makeUsetDof at h
  simp only [expanddof] at h
  cases he : expanddof2 rows with
  | error e => rw [he] at h; cases h
  | ok e =>
      rw [he] at h
      simp only [bind, Except.bind] at h
      have h6 := ((expanddof2_spec rows).2 e he).2
      split at h
      · cases h
      · rename_i hc
        cases h
        refine ⟨hed, h6, ?_⟩
        by_cases hnil : ((edof.filter fun p => decide (0 < p.2)).map (·.2)) = []
        · exact ⟨0, by rw [hnil]; rfl⟩
        · refine ⟨((edof.filter fun p => decide (0 < p.2)).map (·.2)).length / 6, ?_⟩
          by_contra hne
          exact hc ⟨hnil, Or.inr hne⟩

/-- the documented request forms (scalar point `[id, 0]`, grid `[id, 123456]`, grid DOF by DOF
`[id, 1] … [id, 6]`) are accepted, so `make_uset_sets` is not vacuous: the table is the requested
one; a wrong number of words is a `ValueError`. -/
theorem make_uset_sets_partial (rows : List (Nat × Nat)) (hc : Canon rows) :
    (∀ nas, nas.length = rows.length → makeUset (.rows rows) nas = .ok (wantedTbl rows nas)) ∧
    (∀ v, makeUset (.rows rows) [v] = .ok (wantedTbl rows (List.replicate rows.length v))) ∧
    (∀ nas, nas.length ≠ 1 → nas.length ≠ rows.length → makeUset (.rows rows) nas = .error .value) := by
  refine ⟨fun nas hl => makeUset_canon hc nas hl, fun v => ?_, fun nas h1 h2 => ?_⟩
  · obtain ⟨tbl, ht⟩ := (makeUset_ok_iff rows [v]).mpr ⟨Or.inl rfl, _, makeUsetDof_canon hc⟩
    rw [ht, (makeUset_sets ht).2 v rfl]
  · unfold makeUset
    rw [if_pos ⟨h1, h2⟩]

/-- a grid whose component list is split over two request rows (the input of finding F38, repaired
by a37d9b6): `make_uset([[1,123],[1,456],[2,0]], ['b','q','o'])` gives b, b, b, q, q, q for the grid
and o for the scalar point. -/
theorem make_uset_split_rows :
    makeUset (.rows [(1, 123), (1, 456), (2, 0)]) [mask .b, mask .q, mask .o] =
      .ok [(1, 1, mask .b), (1, 2, mask .b), (1, 3, mask .b), (1, 4, mask .q), (1, 5, mask .q),
           (1, 6, mask .q), (2, 0, mask .o)] := by
  have d1 : digits 123 = [1, 2, 3] := by simp [digits, digitsRev]
  have d2 : digits 456 = [4, 5, 6] := by simp [digits, digitsRev]
  have hd : makeUsetDof (.rows [(1, 123), (1, 456), (2, 0)]) =
      .ok [(1, 1), (1, 2), (1, 3), (1, 4), (1, 5), (1, 6), (2, 0)] := by
    simp [makeUsetDof, expanddof, expanddof2, expandRow, d1, d2, digits_zero, bind, Except.bind]
  obtain ⟨tbl, ht⟩ := (makeUset_ok_iff _ [mask .b, mask .q, mask .o]).mpr ⟨Or.inr rfl, _, hd⟩
  rw [ht, (makeUset_sets ht).1 rfl]
  simp [wantedTbl, d1, d2, digits_zero]

/-- 1-D ids are grids: the same table as the request `[id, 123456]` per id. -/
theorem make_uset_ids (ids : List Nat) (g : Bool) (nas : List Nat) :
    makeUset (.ids ids g) nas = makeUset (.rows (ids.map fun i => (i, 123456))) nas := by
  have hcanon : ∀ l : List Nat, Canon (l.map fun i => (i, 123456)) := by
    intro l
    induction l with
    | nil => exact Canon.nil
    | cons a t ih => exact Canon.grid a ih
  have hexp : expanddof1 ids true = (ids.map fun i => (i, 123456)).flatMap expandRow := by
    unfold expanddof1
    rw [List.flatMap_map]
    apply List.flatMap_congr
    intro i _
    rw [expandRow_grid]; rfl
  have hdof : makeUsetDof (.ids ids g) = makeUsetDof (.rows (ids.map fun i => (i, 123456))) := by
    rw [makeUsetDof_canon (hcanon ids)]
    have := makeUsetDof_canon (hcanon ids)
    unfold makeUsetDof at this ⊢
    simp only [expanddof, expanddof2_canon (hcanon ids), bind, Except.bind] at this ⊢
    rw [hexp]; exact this
  have hw : ∀ edof, makeUsetWords (.ids ids g) edof nas =
      makeUsetWords (.rows (ids.map fun i => (i, 123456))) edof nas := by
    intro edof
    unfold makeUsetWords
    simp only [nrows, rows2, List.length_map]
    rfl
  unfold makeUset
  simp only [nrows, List.length_map, hdof, hw]

/-- coordinates on the documented request forms: a grid given by one row gets its location row
followed by the five rows of the basic coordinate system, a grid given DOF by DOF its six `xyz`
rows, a scalar point its row; every row is set. -/
theorem make_uset_coords_partial (rows : List (Nat × Nat)) (hc : Canon rows) (nas : List Nat)
    (xyz : List Xyz) (hn : nas.length = rows.length) (hx : xyz.length = rows.length) :
    makeUsetXyz (.rows rows) nas xyz =
      .ok ((wantedTbl rows nas).zip
        (((rows.zip xyz).flatMap fun p =>
          if p.1.2 = 123456 then p.2 :: basicRows else [p.2]).map some)) :=
  makeUsetXyz_canon hc nas xyz hn hx

example : Canon [(1, 123456), (2, 0), (7, 1), (7, 2), (7, 3), (7, 4), (7, 5), (7, 6)] :=
  Canon.grid 1 (Canon.spoint 2 (Canon.perdof 7 Canon.nil))

/-- the docstring example of `make_uset`: grid 1 in the b-set at (1, 2, 3), scalar point 2 in the q-set -/
example : makeUsetXyz (.rows [(1, 123456), (2, 0)]) [2097154, 4194304] [(1, 2, 3), (0, 0, 0)] =
    .ok [((1, 1, 2097154), some (1, 2, 3)), ((1, 2, 2097154), some (0, 1, 0)),
         ((1, 3, 2097154), some (0, 0, 0)), ((1, 4, 2097154), some (1, 0, 0)),
         ((1, 5, 2097154), some (0, 1, 0)), ((1, 6, 2097154), some (0, 0, 1)),
         ((2, 0, 4194304), some (0, 0, 0))] := by
  rw [make_uset_coords_partial _ (Canon.grid 1 (Canon.spoint 2 Canon.nil)) _ _ rfl rfl]
  simp [wantedTbl, digits_all, digits_zero, basicRows]

/-! ## upasetpv / upqsetpv -/

/-- `upasetpv(nas, seup)`: the downstream SE is read from the first `selist` row of `seup`; the
vector indexes the table of THAT (downstream) SE, `dnids` and `maps` are those of `seup`.  With
`S` the boundary ids (`dnids`, or the downstream nodes whose `upids` entry is in `dnids` when
`dnids` are internally generated ids): without `maps` the vector lists, in ascending order,
exactly the rows of the downstream table whose id is in `S`, and they are at least as many as
`dnids` has entries; with `maps` (second column all 1) it is that list re-indexed, `pv[k] =
rows[maps[k]]` (negative entries wrap). -/
theorem upasetpv_spec (nas : Nas) (seup : Nat) (pv : List Nat) (h : upasetpv nas seup = .ok pv) :
    ∃ sedn usetdn dnids maps mask,
      nas.selist.find? (fun r => r.1 = seup) = some (seup, sedn) ∧
      lookupD nas.uset sedn = .ok usetdn ∧ lookupD nas.dnids seup = .ok dnids ∧
      lookupD nas.maps seup = .ok maps ∧ upMask nas sedn usetdn dnids = .ok mask ∧
      dnids.length ≤ (positions mask).length ∧ (positions mask).Pairwise (· < ·) ∧
      (∃ S, (S = dnids ∨ ∃ upids, lookupD nas.upids sedn = .ok upids ∧
                S = (((nodeIds usetdn).zip upids).filter
                      fun p => (dnids.map Int.ofNat).contains p.2).map (·.1)) ∧
            ∀ i, i ∈ positions mask ↔ ∃ r, usetdn[i]? = some r ∧ r.1 ∈ S) ∧
      (maps = [] → pv = positions mask) ∧
      (maps ≠ [] → (∀ m ∈ maps, m.2 = 1) ∧
        List.Forall₂ (fun m p => ∃ j, normIndex (positions mask).length m.1 = some j ∧
          (positions mask)[j]? = some p) maps pv) := by
  unfold upasetpv at h
  cases hf : nas.selist.find? (fun r => r.1 = seup) with
  | none => rw [hf] at h; cases h
  | some row =>
    rw [hf] at h
    simp only at h
    have hrow : row.1 = seup := by simpa using List.find?_some hf
    cases h1 : lookupD nas.uset row.2 with
    | error e => rw [h1] at h; cases h
    | ok usetdn =>
      cases h2 : lookupD nas.dnids seup with
      | error e => rw [h1, h2] at h; cases h
      | ok dnids =>
        cases h3 : lookupD nas.maps seup with
        | error e => rw [h1, h2, h3] at h; cases h
        | ok maps =>
          cases h4 : upMask nas row.2 usetdn dnids with
          | error e => rw [h1, h2, h3] at h; simp only [bind, Except.bind, h4] at h; cases h
          | ok mask =>
            rw [h1, h2, h3] at h
            simp only [bind, Except.bind, h4] at h
            obtain ⟨hcnt, hS⟩ := upMask_spec h4
            obtain ⟨ha, hb⟩ := applyMaps_spec h
            refine ⟨row.2, usetdn, dnids, maps, mask, ?_, h1, rfl, rfl, h4, ?_,
              positions_sorted mask, ?_, ha, hb⟩
            · rw [← hrow]
            · rw [positions_length]; exact hcnt
            · rcases hS with hS | ⟨upids, hu, _, _, hS⟩
              · exact ⟨dnids, Or.inl rfl, fun i => by rw [mem_positions, hS, idMask_get]⟩
              · exact ⟨_, Or.inr ⟨upids, hu, rfl⟩, fun i => by rw [mem_positions, hS, idMask_get]⟩

/-- a small dictionary: SE 100 is upstream of the residual 0; its boundary (grid 3 renumbered 7 on
the CSUPER entry, scalar point 11 in the q-set) sits behind an interior scalar point of SE 0. -/
def exampleNas : Nas where
  selist := [(100, 0), (0, 0)]
  uset := [(0, [(5, 0, 4), (7, 1, 2), (7, 2, 2), (7, 3, 2), (7, 4, 2), (7, 5, 2), (7, 6, 2), (11, 0, 2)]),
           (100, [(3, 1, 2), (3, 2, 2), (3, 3, 2), (3, 4, 2), (3, 5, 2), (3, 6, 2), (11, 0, 4194304),
                  (20, 0, 4)])]
  dnids := [(100, [7, 11])]
  maps := [(100, []), (0, [])]
  upids := []

example : upasetpv exampleNas 100 = .ok [1, 2, 3, 4, 5, 6, 7] ∧
    upasetpv exampleNas 5 = .error .value ∧ upasetpv exampleNas 0 = .error .key := by decide

example : upqsetpv (mask .a) (mask .q) (mask .p) exampleNas 3 0 =
      .ok [false, false, false, false, false, false, false, true] ∧
    upqsetpv (mask .a) (mask .q) (mask .p) exampleNas 3 100 = .error .value := by decide

/-- `pv[idx] = vals` for distinct places inside the vector: place `idx[k]` holds `vals[k]`, every
other place is unchanged, the length is kept. -/
theorem scatter_spec (pv : List Bool) (idx : List Nat) (vals : List Bool) (hnd : idx.Nodup)
    (hl : idx.length = vals.length) (hb : ∀ i ∈ idx, i < pv.length) :
    (scatter pv idx vals).length = pv.length ∧
    List.Forall₂ (fun i v => (scatter pv idx vals)[i]? = some v) idx vals ∧
    ∀ j, j ∉ idx → (scatter pv idx vals)[j]? = pv[j]? :=
  ⟨scatter_length idx vals pv, scatter_at idx vals pv hnd hl hb, fun j hj => scatter_other idx vals pv j hj⟩

/-- `upqsetpv(nas, sedn)` returns one flag per row of the table of `sedn`. -/
theorem upqsetpv_length (amask qmask pmask : Nat) (nas : Nas) (fuel sedn : Nat) (out : List Bool)
    (h : upqsetpv amask qmask pmask nas fuel sedn = .ok out) :
    ∃ usetdn, lookupD nas.uset sedn = .ok usetdn ∧ out.length = usetdn.length :=
  upqsetpv_length' h

/-- `upqsetpv` for one upstream SE (besides the row of `selist` that names `sedn` itself, which is
skipped) that has no upstream SEs of its own and no reordering map
(`qup` = its q-set flags over its a-set, or its a-set scalar points when it has no q-set; `m` =
the boundary rows in the downstream table, as in `upasetpv_spec`): the boundary rows receive, in
table order, the flags `qup`; every other row is `False`; nothing is flagged when `qup` is all
`False`. -/
theorem upqsetpv_one_upstream (amask qmask pmask : Nat) (nas : Nas) (fuel sedn seup : Nat)
    (usetdn usetup : List Row) (dnids : List Nat) (qup m : List Bool)
    (hups : ((nas.selist.filter fun r => r.2 = sedn).map (·.1)).filter (fun s => decide (s ≠ sedn))
      = [seup]) (hne : seup ≠ sedn)
    (hleaf : nas.selist.any (fun r => r.2 = seup) = false)
    (h1 : lookupD nas.uset sedn = .ok usetdn) (h2 : lookupD nas.uset seup = .ok usetup)
    (h3 : lookupD nas.dnids seup = .ok dnids) (h4 : lookupD nas.maps seup = .ok [])
    (h5 : qupOwn amask qmask pmask usetup = .ok qup) (h6 : upMask nas sedn usetdn dnids = .ok m)
    (h7 : qup.length = (positions m).length) (hm : m.length = usetdn.length) :
    ∃ out, upqsetpv amask qmask pmask nas (fuel + 1) sedn = .ok out ∧ out.length = usetdn.length ∧
      (qup.any id = false → out = List.replicate usetdn.length false) ∧
      (qup.any id = true →
        List.Forall₂ (fun i v => out[i]? = some v) (positions m) qup ∧
        ∀ j, j ∉ positions m → j < usetdn.length → out[j]? = some false) :=
  upqsetpv_one hups hne hleaf h1 h2 h3 h4 h5 h6 h7 hm

/-- non-vacuity of `upqsetpv_one_upstream`: its hypotheses hold for `exampleNas` -/
example : ∃ out, upqsetpv (mask .a) (mask .q) (mask .p) exampleNas 3 0 = .ok out ∧ out.length = 8 :=
  let ⟨out, h, hl, _⟩ := upqsetpv_one_upstream (mask .a) (mask .q) (mask .p) exampleNas 2 0 100
    [(5, 0, 4), (7, 1, 2), (7, 2, 2), (7, 3, 2), (7, 4, 2), (7, 5, 2), (7, 6, 2), (11, 0, 2)]
    [(3, 1, 2), (3, 2, 2), (3, 3, 2), (3, 4, 2), (3, 5, 2), (3, 6, 2), (11, 0, 4194304), (20, 0, 4)]
    [7, 11] [false, false, false, false, false, false, true]
    [false, true, true, true, true, true, true, true]
    (by decide) (by decide) (by decide) (by decide) (by decide) (by decide) (by decide) (by decide)
    (by decide) (by decide) (by decide)
  ⟨out, h, hl⟩

/-- the flags written for an upstream SE: its q-set DOF among its a-set DOF; when it has no
q-set DOF at all, its a-set scalar points (every DOF of the table being in the p-set). -/
theorem qupOwn_spec (amask qmask pmask : Nat) (usetup : List Row) (qup : List Bool)
    (h : qupOwn amask qmask pmask usetup = .ok qup)
    (hp : ∀ r ∈ usetup, inSet r.2.2 pmask = true) :
    let arows := usetup.filter (fun r => inSet r.2.2 amask)
    (arows.any (fun r => inSet r.2.2 qmask) = true → qup = arows.map (fun r => inSet r.2.2 qmask)) ∧
    (arows.any (fun r => inSet r.2.2 qmask) = false → qup = arows.map (fun r => decide (r.2.1 = 0))) := by
  unfold qupOwn at h
  simp only [bind, Except.bind] at h
  cases hq : mksetpv (usetup.map (·.2.2)) amask qmask with
  | error e => rw [hq] at h; cases h
  | ok q =>
    rw [hq] at h
    simp only at h
    have hqv := (mksetpv_spec _ _ _ q hq).2.1
    have hqv' : q = (usetup.filter (fun r => inSet r.2.2 amask)).map (fun r => inSet r.2.2 qmask) := by
      rw [hqv, List.filter_map, List.map_map]; rfl
    have hany : q.any id = (usetup.filter (fun r => inSet r.2.2 amask)).any (fun r => inSet r.2.2 qmask) := by
      rw [hqv', List.any_map]; rfl
    split at h
    · rename_i ht
      cases h
      refine ⟨fun _ => hqv', fun hf => ?_⟩
      rw [hany] at ht; rw [ht] at hf; cases hf
    · rename_i hf
      refine ⟨fun ht => ?_, fun _ => ?_⟩
      · rw [hany] at hf; exact absurd ht hf
      · cases hpa : mksetpv (usetup.map (·.2.2)) pmask amask with
        | error e => rw [hpa] at h; cases h
        | ok pa =>
          rw [hpa] at h
          simp only at h
          have hall : (usetup.map (·.2.2)).filter (inSet · pmask) = usetup.map (·.2.2) :=
            List.filter_eq_self.mpr (by
              intro w hw
              obtain ⟨r, hr, rfl⟩ := List.mem_map.mp hw
              exact hp r hr)
          have hpav := (mksetpv_spec _ _ _ pa hpa).2.1
          rw [hall, List.map_map] at hpav
          unfold maskSel at h
          rw [if_neg (by rw [hpav]; simp)] at h
          simp only [Except.ok.injEq] at h
          rw [← h, hpav]
          have := zip_filter_map (fun r : Row => r.2.1) (fun r : Row => inSet r.2.2 amask) usetup
          show List.map (fun d => decide (d = 0)) (List.map (fun x => x.1)
            (List.filter (fun x => x.2) ((usetup.map (fun r => r.2.1)).zip
              (usetup.map (fun r => inSet r.2.2 amask))))) = _
          rw [this, List.map_map, List.map_map]
          rfl

example : findUnique [4, 4, -2, -2, 0, -2] 1 1000000 = .ok [true, false, true, false, true, true] := by
  decide

example : matIntersect [5, 7, 9] [7, 5] 1 1 1 = ([0, 1], [1, 0]) := by
  simp [matIntersect, lookupAll, argsort, lookup, searchsortedLeft, List.mergeSort, List.zipIdx,
    List.MergeSort.Internal.splitInTwo]

example : flippv [0, 3, 3, -1] 6 = .ok [1, 2, 4] ∧ flippv [7] 3 = .error .index := by decide

example : findSubseq [1, 2, 3, 4, 5, 6, 2, 3] [2, 3] = .ok [1, 6] := by decide

end PyYetiVerif.C18
