import PyYetiVerif.Lemmas.ExtremaLabelsInv
import PyYetiVerif.Props.C16
/-!
# C16 — `form_extreme` over events whose categories list different rows

Property theorems only.  Model: `Model/ExtremaLabels.lean` (`mergeLists` = `locate.merge_lists`,
`checkRows` = `_check_row_compatibility`, `expandRows` = `_expand`, `extremaTbl` = the two-column
branch of `cla.extrema` with `casenum` on whole tables, `formCat` = the loop of `_calc_extreme` for one
category), tied by the `labform` and `mergelists` streams of `harness/props/c16.py` (exact).

Reading of the property.  "Forming extremes over events gives the envelope of the parts" is about
ROWS BY NAME: the events of a mission need not recover the same rows, nor in the same order, and the
row `l` of the envelope has to be the envelope of the rows called `l`.  `rowFold d l events` says what
that is without any table surgery: the compare-and-replace of `cla.extrema` folded over the rows that
the events hold for `l`, in event order, skipping the events that do not list `l`;
`form_extreme_row_is_first_best` restates it with the specification predicate `FirstBest` of
`Spec/Extrema.lean`.

Hypotheses (`EvOk`): every event's category has as many rows as labels and lists no label twice
(otherwise the code raises `ValueError`: `form_extreme_refuses_repeated_labels`), and a table without
`ext_x` carries NaN abscissae (the harness's encoding; the code never reads them).  Nothing is asked
about WHICH events have abscissae (since fix 19ddbb5, F57, an event without x-values contributes NaN
abscissae for the rows it governs: `abscissa_of_governing_event_mixed`) nor about per-case members
(since fix 40cd789, F58, `add_maxmin` events that list other rows are enveloped like the others).
-/
namespace PyYetiVerif.C16
open PyYetiVerif.Extrema PyYetiVerif.ExtremaLabels

section merge
variable {β : Type} [DecidableEq β]

/-- ★ `locate.merge_lists(l1, l2) = (l3, pv1, pv2)`: the documented equations `l3[pv1] = l1`,
`l3[pv2] = l2`; `l3` holds exactly the items of both lists; `l1` keeps its order (it is a subsequence
of `l3`, `pv1` increases); no repeats in the inputs, none in `l3` — and then both index maps are
simply "the position of the item in `l3`". -/
theorem merge_lists_spec (l1 l2 : List β) :
    let r := mergeLists l1 l2
    r.2.1.map (r.1[·]?) = l1.map some ∧ r.2.2.map (r.1[·]?) = l2.map some ∧
    l1.Sublist r.1 ∧ (∀ x, x ∈ r.1 ↔ x ∈ l1 ∨ x ∈ l2) ∧
    r.2.1.Pairwise (· ≤ ·) ∧ (l1.Nodup → r.2.1.Pairwise (· < ·)) ∧
    (l1.Nodup → l2.Nodup → r.1.Nodup ∧ r.2.1 = l1.map r.1.idxOf ∧ r.2.2 = l2.map r.1.idxOf) := by
  have hsub : l1.Sublist (mergeLists l1 l2).1 := by
    unfold mergeLists
    exact (foldl_mergeStep_sublist l2 (l1, [])).trans (List.sublist_append_left _ _)
  have hmem : ∀ x, x ∈ (mergeLists l1 l2).1 ↔ x ∈ l1 ∨ x ∈ l2 := by
    intro x
    unfold mergeLists
    simp only
    rw [foldl_mergeStep_mem x l2 (l1, [])]
    simp
  obtain ⟨h1, h2, _⟩ := pv1Loop_spec (mergeLists l1 l2).1 l1 0 (by simpa using hsub)
  refine ⟨h1, ?_, hsub, hmem, h2, fun hnd => pairwise_lt_of_map _ h1 h2 hnd, ?_⟩
  · show (l2.map fun e => (mergeLists l1 l2).1.idxOf e).map ((mergeLists l1 l2).1[·]?) = l2.map some
    rw [List.map_map]
    apply List.map_congr_left
    intro e he
    exact List.getElem?_idxOf ((hmem e).mpr (Or.inr he))
  · intro hn1 hn2
    obtain ⟨a, -, -, b, c⟩ := mergeLists_nodup l1 l2 hn1 hn2
    exact ⟨a, b, c⟩

/-- where the new items go: an item of `l2` that `l1` does not have ends up in front of the next
item of `l2` that `l1` has — here `2` in front of `4`, not at the end (the docstring's example). -/
example : mergeLists [1, 4, 10] [0, 1, 2, 4, 5] = ([0, 1, 2, 4, 10, 5], [1, 3, 4], [0, 1, 2, 3, 5]) := by
  decide

end merge

section bylabel
variable {α X Lb : Type} [LinearOrder α] [DecidableEq Lb]

/-- ★ `form_extreme` for one category over ANY events — whatever rows each lists and in whatever
order: identical, permuted, a subset, disjoint, partly overlapping; recovery events, `add_maxmin`
events, lower-level envelopes; abscissae given by all, some or none of them —: the call succeeds; the
rows of the envelope are the iterated `merge_lists` of the events' label lists (`labelFold`), each
label of each event exactly once; and the row at position `p` holds, for its label `l`, exactly
`specRow d nc l events`: the compare-and-replace fold over the rows the events hold FOR `l`
(`rowFold`: value, abscissa and governing label move together — the abscissa is NaN when the governing
event has none), and in the per-case columns `mx, mn, mx_x, mn_x` at column `j` what the event with
case number `j` holds for `l`, NaN when it does not list `l`.  `ext_x` is never invented (it is there
only if some event has one) and never lost once the first event brought one. -/
theorem form_extreme_by_label (d nc : Nat) (e0 : Ev α X Lb) (es : List (Ev α X Lb))
    (h0 : EvOk e0) (hes : ∀ e ∈ es, EvOk e) :
    ∃ a, formCat d nc none (e0 :: es) = .ok (some a) ∧
      a.labels = labelFold e0.cat.labels (es.map (·.cat.labels)) ∧ a.labels.Nodup ∧
      (∀ l, l ∈ a.labels ↔ ∃ e ∈ e0 :: es, l ∈ e.cat.labels) ∧
      a.rows.length = a.labels.length ∧
      (a.hasX = true → ∃ e ∈ e0 :: es, e.cat.hasX = true) ∧ (e0.cat.hasX = true → a.hasX = true) ∧
      (a.hasX = false → ∀ r ∈ a.rows, r.cur.hi.x = none ∧ r.cur.lo.x = none) ∧
      ∀ (p : Nat) (hp : p < a.labels.length), a.rows[p]? = some (specRow d nc a.labels[p] (e0 :: es)) := by
  obtain ⟨a0, hs0, hinv0⟩ := formStep_init d nc e0 h0
  obtain ⟨a, ha, hinv⟩ := formCat_inv d nc e0 es [] a0 hinv0 hes
  refine ⟨a, ?_, by simpa using hinv.lab, hinv.nodup, by simpa using hinv.mem, hinv.len,
    by simpa using hinv.xsrc, hinv.xfirst, hinv.nox, ?_⟩
  · simp only [formCat, hs0]
    exact ha
  · intro p hp
    rw [← rowAt_getElem hinv.nodup p hp]
    simpa using hinv.row a.labels[p] (List.getElem_mem hp)

/-- ★ what `rowFold` is, in the words of the specification: when the envelope's maximum of row `l` is
a number it is the FIRST BEST (`Spec/Extrema.lean`) among the rows that the events hold for `l` —
no larger value among them, and value, abscissa and label are those of the first event attaining it
— and it is NaN only when every event that lists `l` has NaN there; likewise the minimum.  Events
that do not list `l` do not occur in `rows` at all. -/
theorem form_extreme_row_is_first_best (d : Nat) (l : Lb) (e0 : Ev α X Lb) (es : List (Ev α X Lb)) :
    let rows := (e0 :: es).filterMap (evRow d l)
    let r := rowFold d l (e0 :: es)
    (r.hi.v ≠ none → FirstBest id (rows.map (·.hi)) r.hi) ∧
    (r.hi.v = none → ∀ m ∈ rows, m.hi.v = none) ∧
    (r.lo.v ≠ none → FirstBest OrderDual.toDual (rows.map (·.lo)) r.lo) ∧
    (r.lo.v = none → ∀ m ∈ rows, m.lo.v = none) := by
  intro rows r
  have hr : r = ⟨runTr gtB ((evRow d l e0).getD fillCur).hi ((es.filterMap (evRow d l)).map (·.hi)),
      runTr ltB ((evRow d l e0).getD fillCur).lo ((es.filterMap (evRow d l)).map (·.lo))⟩ :=
    foldl_upd2_eq _ _
  have hhi := runTr_firstBest (keyOrder_gt (α := α)) ((evRow d l e0).getD fillCur).hi
    ((es.filterMap (evRow d l)).map (·.hi))
  have hlo := runTr_firstBest (keyOrder_lt (α := α)) ((evRow d l e0).getD fillCur).lo
    ((es.filterMap (evRow d l)).map (·.lo))
  have hrhi : r.hi = runTr gtB ((evRow d l e0).getD fillCur).hi ((es.filterMap (evRow d l)).map (·.hi)) := by
    rw [hr]
  have hrlo : r.lo = runTr ltB ((evRow d l e0).getD fillCur).lo ((es.filterMap (evRow d l)).map (·.lo)) := by
    rw [hr]
  rw [← hrhi] at hhi
  rw [← hrlo] at hlo
  cases h0 : evRow d l e0 with
  | some r0 =>
    have hrows : rows = r0 :: es.filterMap (evRow d l) := by simp [rows, h0]
    simp only [h0, Option.getD_some] at hhi hlo
    rw [hrows]
    refine ⟨fun _ => hhi, fun hn m hm => ?_, fun _ => hlo, fun hn m hm => ?_⟩
    · exact firstBest_none_all hhi hn m.hi (List.mem_map.2 ⟨m, hm, rfl⟩)
    · exact firstBest_none_all hlo hn m.lo (List.mem_map.2 ⟨m, hm, rfl⟩)
  | none =>
    have hrows : rows = es.filterMap (evRow d l) := by simp [rows, h0]
    simp only [h0, Option.getD_none] at hhi hlo
    rw [hrows]
    refine ⟨fun hn => firstBest_cons_nan rfl hhi hn, fun hn m hm => ?_,
      fun hn => firstBest_cons_nan rfl hlo hn, fun hn m hm => ?_⟩
    · exact firstBest_none_all hhi hn m.hi (List.mem_cons_of_mem _ (List.mem_map.2 ⟨m, hm, rfl⟩))
    · exact firstBest_none_all hlo hn m.lo (List.mem_cons_of_mem _ (List.mem_map.2 ⟨m, hm, rfl⟩))

/-- ★ the order of the rows of the envelope: the iterated merge starts from the first event's list,
which stays a subsequence (its rows keep their order); every later event contributes its new rows
through `merge_lists` (`merge_lists_spec`: in front of the next row both have), an event with the
same list as the rows so far changes nothing. -/
theorem form_extreme_label_order (l0 : List Lb) (ls : List (List Lb)) (l : List Lb) :
    labelFold l0 [] = l0 ∧
    labelFold l0 (ls ++ [l])
      = (if labelFold l0 ls = l then labelFold l0 ls else (mergeLists (labelFold l0 ls) l).1) ∧
    l0.Sublist (labelFold l0 ls) := by
  refine ⟨rfl, labelFold_snoc l0 ls l, ?_⟩
  induction ls using List.reverseRecOn with
  | nil => exact List.Sublist.refl _
  | append_singleton ls l' ih =>
    rw [labelFold_snoc]
    split
    · exact ih
    · exact ih.trans (merge_lists_spec _ _).2.2.1

/-- ★ rows an event lacks never win: an event that does not list `l` leaves the envelope's row `l`
— value, abscissa, label — exactly as it was (its NaN fill row loses every compare), and writes NaN
into its own per-case column. -/
theorem expand_missing_rows_neutral (d nc : Nat) (l : Lb) (e0 : Ev α X Lb) (rest : List (Ev α X Lb))
    (e : Ev α X Lb) (hl : l ∉ e.cat.labels) :
    rowFold d l (e0 :: (rest ++ [e])) = rowFold d l (e0 :: rest) ∧
    (specRow d nc l (e0 :: (rest ++ [e]))).mx = (specRow d nc l (e0 :: rest)).mx.set e.j none ∧
    (specRow d nc l (e0 :: (rest ++ [e]))).mn = (specRow d nc l (e0 :: rest)).mn.set e.j none ∧
    ∀ (better : α → α → Bool) (cur : Tr α (Option X) String) (x : Option X) (lab : String),
      cur.upd better ⟨none, x, lab⟩ = cur := by
  have hn : evRow d l e = none := evRow_eq_none hl
  refine ⟨?_, ?_, ?_, ?_⟩
  · rw [rowFold_snoc, hn]
  · rw [specRow_snoc, hn]
    rfl
  · rw [specRow_snoc, hn]
    rfl
  · intro better cur x lab
    unfold Tr.upd
    cases cur.v <;> simp [nanRepl]

/-- ★ the VALUES of the envelope's row `l` do not depend on the order of the events (labels and
abscissae at ties are those of the first attaining event, as `ext_values_order_independent` says for
one table). -/
theorem form_extreme_event_order_values_independent (d : Nat) (l : Lb) (es es' : List (Ev α X Lb))
    (hp : es.Perm es') :
    (rowFold d l es).hi.v = (rowFold d l es').hi.v ∧ (rowFold d l es).lo.v = (rowFold d l es').lo.v := by
  have key : ∀ (es es' : List (Ev α X Lb)), es.Perm es' →
      ((rowFold d l es).hi.v = (rowFold d l es').hi.v ∧ (rowFold d l es).lo.v = (rowFold d l es').lo.v) := by
    intro es es' hp
    cases es with
    | nil => rw [List.nil_perm.1 hp]; exact ⟨rfl, rfl⟩
    | cons e0 rest =>
      cases es' with
      | nil => exact absurd hp.symm (by simp)
      | cons e0' rest' =>
        have hperm : ((e0 :: rest).filterMap (evRow d l)).Perm ((e0' :: rest').filterMap (evRow d l)) :=
          hp.filterMap _
        obtain ⟨a1, a2, a3, a4⟩ := form_extreme_row_is_first_best d l e0 rest
        obtain ⟨b1, b2, b3, b4⟩ := form_extreme_row_is_first_best d l e0' rest'
        constructor
        · by_cases ha : (rowFold d l (e0 :: rest)).hi.v = none
          · by_cases hb : (rowFold d l (e0' :: rest')).hi.v = none
            · rw [ha, hb]
            · have hm := firstBest_mem (b1 hb)
              obtain ⟨m, hm, hmeq⟩ := List.mem_map.1 hm
              have := a2 ha m (hperm.symm.subset hm)
              rw [hmeq] at this
              exact absurd this hb
          · by_cases hb : (rowFold d l (e0' :: rest')).hi.v = none
            · have hm := firstBest_mem (a1 ha)
              obtain ⟨m, hm, hmeq⟩ := List.mem_map.1 hm
              have := b2 hb m (hperm.subset hm)
              rw [hmeq] at this
              exact absurd this ha
            · have := firstBest_perm_key (hperm.map (·.hi)) (a1 ha) (b1 hb)
              simpa using this
        · by_cases ha : (rowFold d l (e0 :: rest)).lo.v = none
          · by_cases hb : (rowFold d l (e0' :: rest')).lo.v = none
            · rw [ha, hb]
            · have hm := firstBest_mem (b3 hb)
              obtain ⟨m, hm, hmeq⟩ := List.mem_map.1 hm
              have := a4 ha m (hperm.symm.subset hm)
              rw [hmeq] at this
              exact absurd this hb
          · by_cases hb : (rowFold d l (e0' :: rest')).lo.v = none
            · have hm := firstBest_mem (a3 ha)
              obtain ⟨m, hm, hmeq⟩ := List.mem_map.1 hm
              have := b4 hb m (hperm.subset hm)
              rw [hmeq] at this
              exact absurd this ha
            · exact Option.map_injective OrderDual.toDual.injective
                (firstBest_perm_key (hperm.map (·.lo)) (a3 ha) (b3 hb))
  exact key es es' hp

end bylabel

section refusals
variable {α X Lb : Type} [DecidableEq Lb]

/-- ★ the unique-labels requirement: two DIFFERENT label lists of which one repeats a label are
refused (`ValueError`); the SAME list on both sides is accepted as it is, repeats or not, and nothing
is expanded. -/
theorem form_extreme_refuses_repeated_labels (nc : Nat) (a : Acc α X Lb) (c : Cat α X Lb) :
    (a.labels ≠ c.labels → (¬ a.labels.Nodup ∨ ¬ c.labels.Nodup) → checkRows nc a c = .error .value) ∧
    (a.labels = c.labels → checkRows nc a c = .ok (a, c)) := by
  refine ⟨fun hne hdup => ?_, fun heq => by simp [checkRows, heq]⟩
  have : (!nodupB a.labels || !nodupB c.labels) = true := by
    rcases hdup with h | h
    · have : nodupB a.labels = false := by
        rw [← Bool.not_eq_true, nodupB_iff]; exact h
      simp [this]
    · have : nodupB c.labels = false := by
        rw [← Bool.not_eq_true, nodupB_iff]; exact h
      simp [this]
  simp [checkRows, hne, this]

/-- ★ two different label lists without repeats are ACCEPTED whatever kind of event they come from
(also an `add_maxmin` event, which has no per-case members: fix 40cd789, F58): both sides are expanded
onto the merged list — and `form_extreme_by_label` says what the envelope then holds. -/
theorem form_extreme_accepts_differing_rows (nc : Nat) (a : Acc α X Lb) (c : Cat α X Lb)
    (hne : a.labels ≠ c.labels) (ha : a.labels.Nodup) (hc : c.labels.Nodup) :
    checkRows nc a c = .ok (expandAcc nc a (mergeLists a.labels c.labels).1 (mergeLists a.labels c.labels).2.1,
      expandCat c (mergeLists a.labels c.labels).1 (mergeLists a.labels c.labels).2.2) := by
  simp [checkRows, hne, (nodupB_iff _).2 ha, (nodupB_iff _).2 hc]

end refusals

/-! ### events with and without abscissae (finding F57, repaired by 19ddbb5) -/

/-- two events, one row `a`.  `S` (no abscissae, e.g. a static case added with `add_maxmin`) has the
larger maximum 100, `T` (a transient, abscissae given) wins the minimum.  Whatever the order of the
two, the envelope's maximum is `S`'s 100, labelled `S`, with a NaN abscissa (`S` has none), and its
minimum is `T`'s with `T`'s time.  (Before the repair, `S` first gave the maximum `T`'s time 7.) -/
theorem abscissa_of_governing_event_mixed :
    let S : Ev Int Int String := ⟨0, "S", false, ⟨["a"], false, [⟨⟨some 100, none, "s"⟩, ⟨some 0, none, "s"⟩⟩]⟩⟩
    let T : Ev Int Int String := ⟨1, "T", false, ⟨["a"], true, [⟨⟨some 5, some 7, "t"⟩, ⟨some (-3), some 8, "t"⟩⟩]⟩⟩
    (formCat 0 2 none [S, T]).toOption.join.map (fun a => (a.hasX, a.rows.map (·.cur)))
      = some (true, [⟨⟨some 100, none, "S"⟩, ⟨some (-3), some 8, "T"⟩⟩]) ∧
    (formCat 0 2 none [{ T with j := 0 }, { S with j := 1 }]).toOption.join.map
        (fun a => (a.hasX, a.rows.map (·.cur)))
      = some (true, [⟨⟨some 100, none, "S"⟩, ⟨some (-3), some 8, "T"⟩⟩]) := by
  intro S T
  decide +kernel

/-! ### non-vacuity -/

/-- `form_extreme_by_label` on three events that list the rows `a, b, c` in different orders and as a
subset (the shape of the seeded change C16r3/1), evaluated: rows in the first event's order with the new
row `d` of the last event in front of `b`, the next row that event shares with the others; every
row the envelope of the rows OF THAT NAME, per-case columns NaN where an event lacks the row. -/
example :
    let row : Int → Int → String → Cur Int (Option Int) String :=
      fun hi lo s => ⟨⟨some hi, some 0, s⟩, ⟨some lo, some 1, s⟩⟩
    let A : Ev Int Int String := ⟨0, "A", false, ⟨["a", "b", "c"], true, [row 2 0 "x", row 3 (-4) "x", row 6 0 "x"]⟩⟩
    let B : Ev Int Int String := ⟨1, "B", false, ⟨["c", "a", "b"], true, [row 10 0 "x", row 0 (-1) "x", row 7 (-9) "x"]⟩⟩
    let C : Ev Int Int String := ⟨2, "C", false, ⟨["d", "b"], true, [row 5 5 "x", row 1 (-20) "x"]⟩⟩
    (formCat 0 3 none [A, B, C]).toOption.join.map (·.labels) = some ["a", "d", "b", "c"] ∧
    (formCat 0 3 none [A, B, C]).toOption.join.map (fun a => a.rows.map fun r => (r.cur.hi.v, r.cur.hi.lab))
      = some [(some 2, "A"), (some 5, "C"), (some 7, "B"), (some 10, "B")] ∧
    (formCat 0 3 none [A, B, C]).toOption.join.map (fun a => a.rows.map fun r => (r.cur.lo.v, r.cur.lo.lab))
      = some [(some (-1), "B"), (some 5, "C"), (some (-20), "C"), (some 0, "A")] ∧
    (formCat 0 3 none [A, B, C]).toOption.join.map (fun a => a.rows.map (·.mx))
      = some [[some 2, some 0, none], [none, none, some 5], [some 3, some 7, some 1], [some 6, some 10, none]] ∧
    EvOk A ∧ EvOk B ∧ EvOk C := by
  intro row A B C
  refine ⟨by decide +kernel, by decide +kernel, by decide +kernel, by decide +kernel, ?_, ?_, ?_⟩ <;>
    exact ⟨by decide, by decide, fun h => absurd h (by decide)⟩

/-- the refusal occurs, and an event of `add_maxmin` kind with the same rows in another order is accepted -/
example :
    checkRows 1 (⟨["a", "a"], false, []⟩ : Acc Int Int String) ⟨["a"], false, []⟩ = .error .value ∧
    (checkRows 1 (⟨["a", "b"], false, []⟩ : Acc Int Int String) ⟨["b", "a"], false, []⟩).toOption.map
      (fun p => (p.1.labels, p.2.labels)) = some (["a", "b"], ["a", "b"]) := by
  decide

end PyYetiVerif.C16
