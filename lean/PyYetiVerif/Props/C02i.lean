import PyYetiVerif.Props.C02f
/-!
# C02 (continued) — the options `incrb` and `rf_disp_only` at the level of the whole column

`colSU_options` / `colFD_options`: for *every* `incrb` subset, both values of `rf_disp_only` and every
`Ω` (zero included), the column returned by `colSU` / `colFD` is the column returned with
`incrb = "dva"`, `rf_disp_only = False` — the one `colSU_solves` / `colFD_solves` are about — with
exactly the excluded letters cleared on the rigid-body rows, `v` and `a` cleared on the
residual-flexibility rows iff `rf_disp_only`, and every other entry untouched.
-/
set_option linter.unusedSimpArgs false
set_option linter.unusedSectionVars false
set_option linter.unusedVariables false
namespace PyYetiVerif.C02
open PyYetiVerif.Freq

section options
variable {α : Type} [Field α]

theorem rfVals_options (e : ColEnv α) (rf : List Nat) (F : Nat → α) (w : α) :
    rfVals e rf F w = (rfVals e.ref rf F w).map fun vs =>
      vs.map fun x => if e.dispOnly = true then ⟨x.d, 0, 0⟩ else x := by
  obtain ⟨i, isZero, absLt, M, B, K, mNone, unc, inc, dO⟩ := e
  have hf : ∀ y : α, rfFreq i y w dO =
      (if dO = true then (⟨(rfFreq i y w false).d, 0, 0⟩ : Dva α) else rfFreq i y w false) := by
    intro y; cases dO <;> simp [rfFreq]
  simp only [rfVals, ColEnv.ref, solveIdx]
  cases unc
  · simp only [Bool.false_eq_true, if_false, bne_self_eq_false]
    cases gaussList isZero absLt rf.length ((rf.zip rf).map fun p => (rf.map (K p.1), F p.2)) with
    | none => rfl
    | some drf =>
      simp only [ofOpt, Except.map, List.map_map]
      congr 1
  · simp only [if_true, Except.map, List.map_map]
    congr 1

theorem rfVals_length (e : ColEnv α) (rf : List Nat) (F : Nat → α) (w : α) (vrf : List (Dva α))
    (h : rfVals e rf F w = .ok vrf) : vrf.length = rf.length := by
  unfold rfVals at h
  by_cases hu : e.unc = true
  · simp only [hu, if_true, Except.ok.injEq] at h
    subst h; simp
  · simp only [hu, Bool.false_eq_true, if_false] at h
    unfold solveIdx at h
    simp only [bne_self_eq_false, Bool.false_eq_true, if_false] at h
    cases hg : gaussList e.isZero e.absLt rf.length
        ((rf.zip rf).map fun p => (rf.map (e.K p.1), F p.2)) with
    | none => rw [hg] at h; cases h
    | some ys =>
      rw [hg] at h
      simp only [ofOpt, Except.map, Except.ok.injEq] at h
      subst h
      simp [gaussList_length _ _ _ _ _ hg]

theorem rbAcc_length (e : ColEnv α) (mr : Option (List Nat)) (rb : List Nat) (F : Nat → α)
    (arb : List α) (h : rbAcc e mr rb F = .ok arb) : arb.length = rb.length := by
  unfold rbAcc at h
  by_cases hm : e.mNone = true
  · simp only [hm, if_true, Except.ok.injEq] at h
    subst h; simp
  · simp only [hm, Bool.false_eq_true, if_false] at h
    cases mr with
    | none => cases h
    | some mr =>
      simp only at h
      by_cases hu : e.unc = true
      · simp only [hu, if_true] at h
        by_cases hl : (mr.length != rb.length) = true
        · simp only [hl, if_true] at h; cases h
        · simp only [hl, Bool.false_eq_true, if_false, Except.ok.injEq] at h
          subst h
          have : mr.length = rb.length := by simpa using hl
          simp [this]
      · simp only [hu, Bool.false_eq_true, if_false] at h
        unfold solveIdx at h
        by_cases hl : (mr.length != rb.length) = true
        · simp only [hl, if_true] at h; cases h
        · simp only [hl, Bool.false_eq_true, if_false] at h
          cases hg : gaussList e.isZero e.absLt rb.length
              ((mr.zip rb).map fun p => (mr.map (e.M p.1), F p.2)) with
          | none => rw [hg] at h; cases h
          | some ys =>
            rw [hg] at h
            simp only [ofOpt, Except.ok.injEq] at h
            subst h
            exact gaussList_length _ _ _ _ _ hg

theorem rbAccD_length (e : ColEnv α) (st : SuState) (uncReal : Bool) (F : Nat → α) (w : α)
    (arb : List α) (h : rbAccD e st uncReal F w = .ok arb) : arb.length = st.lay.rb.length := by
  unfold rbAccD at h
  cases h0 : rbAcc e (rbMassRows st uncReal) st.lay.rb F with
  | error m => rw [h0] at h; cases h
  | ok arb0 =>
    rw [h0] at h
    simp only at h
    rw [rbDamp_length e _ _ arb0 arb w h, rbAcc_length e _ _ F arb0 h0]

/-- the rigid-body block under `incrb`: nothing is written when no letter is requested, otherwise
each value is the `"dva"` value with the excluded letters cleared (`incrb_table`) -/
theorem rbVals_options (e : ColEnv α) (st : SuState) (uncReal : Bool) (F : Nat → α) (w : α)
    (vrbRef : List (Dva α)) (href : rbVals e.ref st uncReal F w = .ok vrbRef) :
    vrbRef.length = st.lay.rb.length ∧
    rbVals e st uncReal F w =
      .ok (if (e.inc.d || e.inc.v || e.inc.a) = true then vrbRef.map (applyIncrb e.inc) else []) := by
  unfold rbVals at href ⊢
  have hacc : rbAccD e.ref st uncReal F w = rbAccD e st uncReal F w := rfl
  rw [hacc] at href
  simp only [ColEnv.ref] at href
  by_cases hemp : st.lay.rb = []
  · simp only [hemp, List.isEmpty_nil, Bool.true_or, if_true, Except.ok.injEq] at href ⊢
    subst href
    simp
  · have hemp' : st.lay.rb.isEmpty = false := by
      cases hrb : st.lay.rb with
      | nil => exact absurd hrb hemp
      | cons _ _ => rfl
    simp only [hemp', Incrb.all, Bool.or_self, Bool.not_true, Bool.false_eq_true, if_false,
      Bool.false_or] at href ⊢
    cases ha : rbAccD e st uncReal F w with
    | error m => rw [ha] at href; cases href
    | ok arb =>
      rw [ha] at href
      simp only [Except.map, Except.ok.injEq] at href
      subst href
      refine ⟨by simp [rbAccD_length e st uncReal F w arb ha], ?_⟩
      by_cases hfl : (e.inc.d || e.inc.v || e.inc.a) = true
      · simp only [hfl, Bool.not_true, Bool.false_eq_true, if_false, if_true, Except.map, List.map_map]
        congr 1
        apply List.map_congr_left
        intro a _
        obtain ⟨h1, h2, h3⟩ := incrb_table e.isZero e.i a w e.inc
        show frfRb e.isZero e.i a w e.inc = applyIncrb e.inc (frfRb e.isZero e.i a w ⟨true, true, true⟩)
        cases hx : frfRb e.isZero e.i a w e.inc with
        | mk d v a' =>
          rw [hx] at h1 h2 h3
          simp only [applyIncrb, Incrb.all] at h1 h2 h3 ⊢
          rw [← h1, ← h2, ← h3]
      · simp [hfl]

theorem elValsCoup_length (e : ColEnv α) (mRows kdof : List Nat) {s : Nat} (lam : Fin s → α)
    (urd : Fin kdof.length → Fin s → α) (urinvv : Fin s → Fin kdof.length → α) (F : Nat → α) (w : α)
    (v : List (Dva α)) (h : elValsCoup e mRows kdof lam urd urinvv F w = .ok v) :
    v.length = kdof.length := by
  unfold elValsCoup at h
  cases hx : (if e.mNone = true then Except.ok (kdof.map F) else solveIdx e e.M mRows kdof F) with
  | error m => simp only [hx] at h; cases h
  | ok imf =>
    simp only [hx] at h
    by_cases hl : imf.length = kdof.length
    · rw [dif_pos hl] at h
      simp only [Except.ok.injEq] at h
      subst h
      simp
    · rw [dif_neg hl] at h
      cases h

/-- the elastic block of `SolveUnc.fsolve` is written to `el` (on the `get_su_eig` path through the
shrunk `kdof`), one value per row -/
theorem elValsSU_rows (e : ColEnv α) (L : Layout) (hrbg : gather L.nonrf L.rb_ = some L.rb)
    (helg : gather L.nonrf L.el_ = some L.el) (uncReal : Bool) (huc : uncReal = true → e.unc = true)
    (st : SuState) (hst : suInit L (!uncReal) e.mNone = some st)
    (eig : Option (EigData α st.kdof.length)) (F : Nat → α) (w : α)
    (rows : List Nat) (vel : List (Dva α)) (h : elValsSU e st eig F w = .ok (rows, vel)) :
    rows = L.el ∧ vel.length = L.el.length := by
  obtain ⟨st', hst', hlay, helr, hE, hN, hmr⟩ := imrb_correct L hrbg helg (!uncReal) e.mNone
  have : st' = st := Option.some.inj (hst'.symm.trans hst)
  subst this
  have hellen := gather_length _ _ _ helg
  unfold elValsSU at h
  rw [hlay] at h
  by_cases hu : e.unc = true
  · simp only [hu, if_true] at h
    by_cases hee : L.el = []
    · simp only [hee, List.isEmpty_nil, if_true, Except.ok.injEq, Prod.mk.injEq] at h
      obtain ⟨h1, h2⟩ := h
      subst h1 h2
      simp [hee]
    · have hee' : L.el.isEmpty = false := by
        cases hn : L.el with
        | nil => exact absurd hn hee
        | cons _ _ => rfl
      simp only [hee', Bool.false_eq_true, if_false, helr] at h
      unfold elValsUnc at h
      simp only [bne_self_eq_false, Bool.false_eq_true, if_false, Except.map, Except.ok.injEq,
        Prod.mk.injEq] at h
      obtain ⟨h1, h2⟩ := h
      subst h1 h2
      simp
  · have hu' : e.unc = false := by simpa using hu
    have hur : uncReal = false := by
      cases hx : uncReal
      · rfl
      · exact absurd (huc hx) hu
    simp only [hu', Bool.false_eq_true, if_false] at h
    have hk : st'.kdof = L.el := by
      by_cases hne : L.nonrf = []
      · have h0 : L.el = [] := by
          cases hq : L.el_ with
          | nil =>
            rw [hq] at hellen
            exact List.eq_nil_of_length_eq_zero (by simpa using hellen)
          | cons p ps => rw [hq, hne, gather_cons] at helg; simp at helg
        have := hst'
        simp only [suInit, hne, List.isEmpty_nil, if_true, Option.some.injEq] at this
        subst this
        simp [h0, hne]
      · exact (hE (by simp [hur]) hne).1
    by_cases hke : st'.kdof = []
    · simp only [hke, List.isEmpty_nil, if_true, Except.ok.injEq, Prod.mk.injEq] at h
      obtain ⟨h1, h2⟩ := h
      subst h1 h2
      have : L.el = [] := by rw [← hk, hke]
      simp [this]
    · have hke' : st'.kdof.isEmpty = false := by
        cases hn : st'.kdof with
        | nil => exact absurd hn hke
        | cons _ _ => rfl
      simp only [hke', Bool.false_eq_true, if_false] at h
      cases hed : eig with
      | none => simp only [hed] at h; cases h
      | some ed =>
        simp only [hed] at h
        cases hv : elValsCoup e st'.mRows st'.kdof ed.lam ed.urd ed.urinvv F w with
        | error m => rw [hv] at h; cases h
        | ok v =>
          rw [hv] at h
          simp only [Except.map, Except.ok.injEq, Prod.mk.injEq] at h
          obtain ⟨h1, h2⟩ := h
          subst h1 h2
          exact ⟨hk, by rw [elValsCoup_length e _ _ _ _ _ F w v hv, hk]⟩

/-- **`incrb` and `rf_disp_only` for a whole column of `SolveUnc.fsolve`**, every `Ω` included. -/
theorem colSU_options (e : ColEnv α) (L : Layout) (hrbg : gather L.nonrf L.rb_ = some L.rb)
    (helg : gather L.nonrf L.el_ = some L.el) (hperm : (L.rb ++ L.el ++ L.rf).Perm (List.range L.n))
    (uncReal : Bool) (huc : uncReal = true → e.unc = true)
    (st : SuState) (hst : suInit L (!uncReal) e.mNone = some st)
    (eig : Option (EigData α st.kdof.length)) (F : Nat → α) (w : α)
    (solRef : List (Dva α)) (href : colSU e.ref st uncReal eig F w = .ok solRef) :
    ∃ sol, colSU e st uncReal eig F w = .ok sol ∧ sol.length = L.n ∧
      ∀ r, r < L.n → sol[r]? = (solRef[r]?).map (optionRow e.inc e.dispOnly L.rb L.rf r) := by
  have hlay : st.lay = L := by
    obtain ⟨st', hst', hlay, _⟩ := imrb_correct L hrbg helg (!uncReal) e.mNone
    have : st' = st := Option.some.inj (hst'.symm.trans hst)
    subst this; exact hlay
  have hnd : (L.rb ++ L.el ++ L.rf).Nodup := hperm.nodup_iff.2 List.nodup_range
  have hnd1 := List.nodup_append.1 hnd
  have hnd2 := List.nodup_append.1 hnd1.1
  have hd1 : ∀ x ∈ L.rb, x ∉ L.el := fun x h1 h2 => hnd2.2.2 x h1 x h2 rfl
  have hd2 : ∀ x ∈ L.rb, x ∉ L.rf := fun x h1 h2 => hnd1.2.2 x (List.mem_append_left _ h1) x h2 rfl
  have hd3 : ∀ x ∈ L.el, x ∉ L.rf := fun x h1 h2 => hnd1.2.2 x (List.mem_append_right _ h1) x h2 rfl
  unfold colSU at href ⊢
  rw [hlay] at href ⊢
  cases hrf : rfVals e.ref L.rf F w with
  | error m => simp only [hrf] at href; cases href
  | ok vrfRef =>
    simp only [hrf] at href
    have hlrf := rfVals_length e.ref L.rf F w vrfRef hrf
    cases hrb : rbVals e.ref st uncReal F w with
    | error m => simp only [hrb] at href; cases href
    | ok vrbRef =>
      simp only [hrb] at href
      obtain ⟨hlrb, hrbe⟩ := rbVals_options e st uncReal F w vrbRef hrb
      rw [hlay] at hlrb
      have hele : elValsSU e.ref st eig F w = elValsSU e st eig F w := rfl
      rw [hele] at href
      cases hel : elValsSU e st eig F w with
      | error m => simp only [hel] at href; cases href
      | ok rv =>
        obtain ⟨rows, vel⟩ := rv
        simp only [hel, Except.ok.injEq] at href
        obtain ⟨hrows, hlel⟩ := elValsSU_rows e L hrbg helg uncReal huc st hst eig F w rows vel hel
        subst hrows
        subst href
        rw [rfVals_options e L.rf F w, hrf, hrbe]
        simp only [Except.map]
        -- values actually written by the rigid-body block, padded with the zeros that are there anyway
        set clr : Dva α → Dva α := fun x => if e.dispOnly = true then ⟨x.d, 0, 0⟩ else x with hclr
        set vrf := vrfRef.map clr with hvrf
        set vrb' := vrbRef.map (applyIncrb e.inc) with hvrb'
        have hsame : assemble L.n L.rf vrf L.rb
            (if (e.inc.d || e.inc.v || e.inc.a) = true then vrbRef.map (applyIncrb e.inc) else [])
            L.el vel = assemble L.n L.rf vrf L.rb vrb' L.el vel := by
          by_cases hfl : (e.inc.d || e.inc.v || e.inc.a) = true
          · simp [hfl, hvrb']
          · simp only [hfl, Bool.false_eq_true, if_false]
            unfold assemble
            congr 1
            have e1 : scatter (scatter (List.replicate L.n zeroDva) L.rf vrf) L.rb ([] : List (Dva α)) =
                scatter (List.replicate L.n zeroDva) L.rf vrf := by
              cases L.rb <;> rfl
            rw [e1]
            symm
            apply scatter_same
            intro q hq hv
            have hmem : L.rb[q] ∈ L.rb := List.getElem_mem hq
            rw [scatter_getElem?_of_not_mem _ _ _ _ (hd2 _ hmem)]
            have hlt : L.rb[q] < L.n :=
              List.mem_range.1 (hperm.mem_iff.1 (by simp [hmem]))
            have hz : vrb'[q] = zeroDva := by
              have hd : e.inc.d = false := by
                cases h : e.inc.d
                · rfl
                · simp [h] at hfl
              have hv' : e.inc.v = false := by
                cases h : e.inc.v
                · rfl
                · simp [h] at hfl
              have ha : e.inc.a = false := by
                cases h : e.inc.a
                · rfl
                · simp [h] at hfl
              simp [hvrb', applyIncrb, hd, hv', ha, zeroDva]
            rw [hz]
            simp [List.getElem?_replicate, hlt]
        rw [hsame]
        have hlrf' : L.rf.length = vrf.length := by simp [hvrf, hlrf]
        have hlrb' : L.rb.length = vrb'.length := by simp [hvrb', hlrb]
        obtain ⟨hlen, _, g1, g2, g3⟩ := scatter_covers L.n L.rb L.el L.rf hperm vrb' vel vrf hlrb'
          hlel.symm hlrf'
        obtain ⟨_, _, r1, r2, r3⟩ := scatter_covers L.n L.rb L.el L.rf hperm vrbRef vel vrfRef
          hlrb.symm hlel.symm hlrf.symm
        refine ⟨_, rfl, hlen, ?_⟩
        intro r hr
        have hr' : r ∈ L.rb ++ L.el ++ L.rf := hperm.mem_iff.2 (List.mem_range.2 hr)
        rcases List.mem_append.1 hr' with hr' | hrrf
        · rcases List.mem_append.1 hr' with hrrb | hrel
          · obtain ⟨q, hq, rfl⟩ := List.mem_iff_getElem.1 hrrb
            rw [g1 q hq, r1 q hq]
            simp [optionRow, hrrb, hvrb']
          · obtain ⟨q, hq, rfl⟩ := List.mem_iff_getElem.1 hrel
            rw [g2 q hq, r2 q hq]
            have h1 : L.el[q] ∉ L.rb := fun h => hd1 _ h hrel
            simp [optionRow, h1, hd3 _ hrel]
        · obtain ⟨q, hq, rfl⟩ := List.mem_iff_getElem.1 hrrf
          rw [g3 q hq, r3 q hq]
          have h1 : L.rf[q] ∉ L.rb := fun h => hd2 _ h hrrf
          cases hdo : e.dispOnly <;> simp [optionRow, h1, hrrf, hvrf, hclr, hdo]

/-- **`incrb` and `rf_disp_only` for a whole column of `FreqDirect.fsolve`**, every `Ω` included. -/
theorem colFD_options (e : ColEnv α) (L : Layout) (hperm : (L.nonrf ++ L.rf).Perm (List.range L.n))
    (hrbsub : ∀ r ∈ L.rb, r ∈ L.nonrf) (hrbnd : L.rb.Nodup) (F : Nat → α) (w : α)
    (solRef : List (Dva α)) (href : colFD e.ref L F w = .ok solRef) :
    ∃ sol, colFD e L F w = .ok sol ∧
      ∀ r, sol[r]? = (solRef[r]?).map (optionRow e.inc e.dispOnly L.rb L.rf r) := by
  have hnd : (L.nonrf ++ L.rf).Nodup := hperm.nodup_iff.2 List.nodup_range
  have hnd1 := List.nodup_append.1 hnd
  have hdis : ∀ x ∈ L.nonrf, x ∉ L.rf := fun x h1 h2 => hnd1.2.2 x h1 x h2 rfl
  unfold colFD at href ⊢
  cases hrf : rfVals e.ref L.rf F w with
  | error m => simp only [hrf] at href; cases href
  | ok vrfRef =>
    simp only [hrf] at href
    have hlrf := rfVals_length e.ref L.rf F w vrfRef hrf
    rw [rfVals_options e L.rf F w, hrf]
    simp only [Except.map]
    set clr : Dva α → Dva α := fun x => if e.dispOnly = true then ⟨x.d, 0, 0⟩ else x with hclr
    -- the rf rows after the first scatter
    have hs1 : ∀ r, (scatter (List.replicate L.n (zeroDva : Dva α)) L.rf (vrfRef.map clr))[r]? =
        ((scatter (List.replicate L.n (zeroDva : Dva α)) L.rf vrfRef)[r]?).map
          (fun x => if r ∈ L.rf then clr x else x) := by
      intro r
      by_cases hm : r ∈ L.rf
      · obtain ⟨q, hq, rfl⟩ := List.mem_iff_getElem.1 hm
        have hb : ∀ r ∈ L.rf, r < (List.replicate L.n (zeroDva : Dva α)).length := fun r hr => by
          simp only [List.length_replicate]
          exact List.mem_range.1 (hperm.mem_iff.1 (by simp [hr]))
        rw [scatter_getElem? _ _ _ hnd1.2.1 (by simp [hlrf]) hb q hq,
          scatter_getElem? _ _ _ hnd1.2.1 hlrf.symm hb q hq]
        simp [hm]
      · rw [scatter_getElem?_of_not_mem _ _ _ _ hm, scatter_getElem?_of_not_mem _ _ _ _ hm]
        cases (List.replicate L.n (zeroDva : Dva α))[r]? <;> simp [hm]
    by_cases hemp : L.nonrf = []
    · simp only [hemp, List.isEmpty_nil, if_true, Except.ok.injEq] at href ⊢
      subst href
      refine ⟨_, rfl, fun r => ?_⟩
      rw [hs1 r]
      have hrb0 : L.rb = [] := by
        cases hq : L.rb with
        | nil => rfl
        | cons a t =>
          have := hrbsub a (by simp [hq])
          rw [hemp] at this; cases this
      cases (scatter (List.replicate L.n (zeroDva : Dva α)) L.rf vrfRef)[r]? with
      | none => rfl
      | some x =>
        by_cases hm : r ∈ L.rf
        · cases hdo : e.dispOnly <;> simp [optionRow, hrb0, hm, hclr, hdo]
        · simp [optionRow, hrb0, hm]
    · have hemp' : L.nonrf.isEmpty = false := by
        cases hn : L.nonrf with
        | nil => exact absurd hn hemp
        | cons _ _ => rfl
      simp only [hemp', Bool.false_eq_true, if_false] at href ⊢
      have hfd : fdVals e.ref L.nonrf F w = fdVals e L.nonrf F w := rfl
      rw [hfd] at href
      cases hk : fdVals e L.nonrf F w with
      | error m => simp only [hk] at href; cases href
      | ok vk =>
        simp only [hk, Except.ok.injEq] at href ⊢
        subst href
        refine ⟨_, rfl, fun r => ?_⟩
        have hall : (e.ref).inc = Incrb.all := rfl
        rw [hall, modifyRows_id (applyIncrb Incrb.all) (fun x => by simp [applyIncrb, Incrb.all])]
        rw [fd_incrb_rows e.inc _ L.rb hrbnd r]
        -- the second scatter writes the same values on both sides
        have hs2 : (scatter (scatter (List.replicate L.n (zeroDva : Dva α)) L.rf (vrfRef.map clr)) L.nonrf vk)[r]? =
            ((scatter (scatter (List.replicate L.n (zeroDva : Dva α)) L.rf vrfRef) L.nonrf vk)[r]?).map
              (fun x => if r ∈ L.rf then clr x else x) := by
          by_cases hm : r ∈ L.nonrf
          · have hnrf : r ∉ L.rf := hdis r hm
            obtain ⟨q, hq, rfl⟩ := List.mem_iff_getElem.1 hm
            by_cases hv : q < vk.length
            · -- written by the kdof block on both sides, whatever was there before
              have gen : ∀ (idx : List Nat) (vals : List (Dva α)) (b1 b2 : List (Dva α)),
                  b1.length = b2.length → ∀ k, k ∈ idx.take vals.length →
                  (scatter b1 idx vals)[k]? = (scatter b2 idx vals)[k]? := by
                intro idx
                induction idx with
                | nil => intro vals b1 b2 _ k hk; simp at hk
                | cons a idx ih =>
                  intro vals b1 b2 hl k hk
                  cases vals with
                  | nil => simp at hk
                  | cons v vals =>
                    simp only [scatter]
                    by_cases hki : k ∈ idx.take vals.length
                    · exact ih vals _ _ (by simp [hl]) k hki
                    · have hka : k = a := by
                        simp only [List.length_cons, List.take_succ_cons, List.mem_cons] at hk
                        rcases hk with h | h
                        · exact h
                        · exact absurd h hki
                      subst hka
                      by_cases hin : k ∈ idx
                      · -- `k` occurs again beyond the values: still the same base on both sides
                        have hgen2 : ∀ (idx : List Nat) (vals : List (Dva α)) (b1 b2 : List (Dva α)),
                            b1.length = b2.length → b1[k]? = b2[k]? →
                            (scatter b1 idx vals)[k]? = (scatter b2 idx vals)[k]? := by
                          intro idx
                          induction idx with
                          | nil => intro vals b1 b2 _ h; cases vals <;> exact h
                          | cons a idx ih2 =>
                            intro vals b1 b2 hl h
                            cases vals with
                            | nil => exact h
                            | cons v vals =>
                              simp only [scatter]
                              apply ih2 vals _ _ (by simp [hl])
                              by_cases hak : a = k
                              · subst hak
                                by_cases hlt : a < b1.length
                                · simp [List.getElem?_set, hlt, hl ▸ hlt]
                                · have h2 : ¬ a < b2.length := hl ▸ hlt
                                  simp [List.getElem?_set, hlt, h2]
                              · simp [List.getElem?_set, hak, h]
                        apply hgen2 idx vals _ _ (by simp [hl])
                        by_cases hlt : k < b1.length
                        · simp [List.getElem?_set, hlt, hl ▸ hlt]
                        · have h2 : ¬ k < b2.length := hl ▸ hlt
                          simp [List.getElem?_set, hlt, h2]
                      · rw [scatter_getElem?_of_not_mem _ _ _ _ hin, scatter_getElem?_of_not_mem _ _ _ _ hin]
                        by_cases hlt : k < b1.length
                        · simp [List.getElem?_set, hlt, hl ▸ hlt]
                        · have h2 : ¬ k < b2.length := hl ▸ hlt
                          simp [List.getElem?_set, hlt, h2]
              have hmem : L.nonrf[q] ∈ L.nonrf.take vk.length := by
                rw [List.mem_take_iff_getElem]
                exact ⟨q, by omega, rfl⟩
              rw [gen L.nonrf vk _ (scatter (List.replicate L.n (zeroDva : Dva α)) L.rf vrfRef)
                (by simp [scatter_length]) _ hmem]
              cases (scatter (scatter (List.replicate L.n (zeroDva : Dva α)) L.rf vrfRef) L.nonrf vk)[L.nonrf[q]]? <;>
                simp [hnrf]
            · -- beyond the values: not written on either side
              have hnot : L.nonrf[q] ∉ L.nonrf.take vk.length := by
                intro hmem
                rw [List.mem_take_iff_getElem] at hmem
                obtain ⟨j, hj, hjq⟩ := hmem
                have := (List.Nodup.getElem_inj_iff hnd1.1).1 hjq
                omega
              have trunc : ∀ (idx : List Nat) (vals b : List (Dva α)),
                  scatter b idx vals = scatter b (idx.take vals.length) vals := by
                intro idx
                induction idx with
                | nil => intro vals b; cases vals <;> rfl
                | cons a idx ih =>
                  intro vals b
                  cases vals with
                  | nil => rfl
                  | cons v vals => simp only [scatter, List.length_cons, List.take_succ_cons]; exact ih vals _
              rw [trunc L.nonrf vk, trunc L.nonrf vk, scatter_getElem?_of_not_mem _ _ _ _ hnot,
                scatter_getElem?_of_not_mem _ _ _ _ hnot]
              exact hs1 _
          · rw [scatter_getElem?_of_not_mem _ _ _ _ hm, scatter_getElem?_of_not_mem _ _ _ _ hm]
            exact hs1 r
        by_cases hrb : r ∈ L.rb
        · have hnrf : r ∉ L.rf := hdis r (hrbsub r hrb)
          rw [if_pos hrb, hs2]
          cases (scatter (scatter (List.replicate L.n (zeroDva : Dva α)) L.rf vrfRef) L.nonrf vk)[r]? <;>
            simp [optionRow, hrb, hnrf]
        · rw [if_neg hrb, hs2]
          cases (scatter (scatter (List.replicate L.n (zeroDva : Dva α)) L.rf vrfRef) L.nonrf vk)[r]? with
          | none => rfl
          | some x =>
            by_cases hm : r ∈ L.rf
            · cases hdo : e.dispOnly <;> simp [optionRow, hrb, hm, hclr, hdo]
            · simp [optionRow, hrb, hm]

end options

end PyYetiVerif.C02
