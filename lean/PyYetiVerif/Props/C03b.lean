import PyYetiVerif.Lemmas.SrsExact
import PyYetiVerif.Lemmas.SrsRigid
import PyYetiVerif.Lemmas.SrsRoll
import PyYetiVerif.Lemmas.SrsVrs
/-!
# C03, second part — initial-condition rules, `wn = 0`, windows, roll-off bookkeeping, vrs

Property theorems only (helper lemmas: `Lemmas/SrsExact.lean`, `SrsRigid.lean`, `SrsRoll.lean`,
`SrsVrs.lean`; model: `Model/Srs.lean`, `Model/SrsExt.lean`).  Everything is over `ℝ`.

* `steady_*`, `shift_ic_exact`: the `ic='steady'` / `'shift'` / `'mshift'` rules in full;
* `srs_column_is_exact_response_peak`: the whole `srs.srs` column (`rolloff='none'`, `f > 0`, every
  `stype × ic × peak × time × eqsine`) equals its filter-free specification `exactCol`;
* `residual_is_free_decay`: the residual window is the closed-form free decay on the grid;
* `ramp_invariant_rigid`: the `wn = 0` coefficient branches are exact for `u'' = -x(t)`;
* `rolloff_*`: when the resampling triggers, the factor, the new rate, and that `M`, `N`, `S`,
  `resp['t']` refer to the *resampled* record;
* `vrs_*`, `srs_frf_gain_is_H`: merged grid, area weights, `|H|²`.
-/
namespace PyYetiVerif.C03
open PyYetiVerif.Srs

/-! ## ic = 'steady' / 'shift' / 'mshift' -/

/-- constant input `c` ⇒ the state `u = -c/wn²`, `v = 0` is constant -/
theorem steady_state_fixed (Q h w c : ℝ) (hQ : 1 / 2 < Q) (hh : 0 < h) (hw : 0 < w) :
    (Osc.ofQ Q h w).uAt (-c / (w * w)) 0 c c h = -c / (w * w) ∧
    (Osc.ofQ Q h w).vAt (-c / (w * w)) 0 c c h = 0 :=
  steady_fixed (Osc.ofQ Q h w) hw.ne' hh.ne' (ofQ_wd_ne hQ hw) c

/-- the steady response per response type: absacce `c`, relacce `0`, reldisp `-c/wn²`, relvelo
`0`, pvelo `-c/wn`, pacce `-c` -/
theorem steady_response_values (Q h w c : ℝ) (hw : w ≠ 0) :
    SType.absacce.out (Osc.ofQ Q h w) (-c / (w * w), 0, c) = c ∧
    SType.relacce.out (Osc.ofQ Q h w) (-c / (w * w), 0, c) = 0 ∧
    SType.reldisp.out (Osc.ofQ Q h w) (-c / (w * w), 0, c) = -c / (w * w) ∧
    SType.relvelo.out (Osc.ofQ Q h w) (-c / (w * w), 0, c) = 0 ∧
    SType.pvelo.out (Osc.ofQ Q h w) (-c / (w * w), 0, c) = -c / w ∧
    SType.pacce.out (Osc.ofQ Q h w) (-c / (w * w), 0, c) = -c := by
  simp only [SType.out, Osc.ofQ]
  refine ⟨?_, ?_, ?_, ?_, ?_, ?_⟩
  · field_simp; ring
  · field_simp; ring
  · trivial
  · trivial
  · field_simp
  · field_simp

/-- `ic='steady'`, all six response types: the filter response to `sig - s1` plus the add-back
of `srs` is the exact response to `sig` of the oscillator that is in steady state under the
constant input `s1` one sample before the record. -/
theorem steady_ic_exact (st : SType) (Q h w : ℝ) (hQ : 1 / 2 < Q) (hh : 0 < h) (hw : 0 < w)
    (s1 : ℝ) (sig : List ℝ) :
    addBack st w (processIc .steady st s1 sig).2
        (lfilter (st.coef Q h w) (processIc .steady st s1 sig).1)
      = steadyResp st Q h w s1 sig :=
  steady_ic_exact' st Q h w hQ hh hw s1 s1 sig sig

/-- `ic='shift'` (`c = sig[0]`) and `'mshift'` (`c = mean`): the filter response to `sig - c` is
the exact response from the steady state under `c`, measured from the steady response
`gain · c`. -/
theorem shift_ic_exact (st : SType) (Q h w : ℝ) (hQ : 1 / 2 < Q) (hh : 0 < h) (hw : 0 < w)
    (c : ℝ) (sig : List ℝ) :
    lfilter (st.coef Q h w) (sig.map (· - c))
      = (steadyResp st Q h w c sig).map (· - dcGain w st * c) := by
  rw [lfilter_eq_exact st Q h w hQ hh hw, steadyResp_eq st Q h w hQ hh hw, List.map_map]
  conv_lhs => rw [← List.map_id (exactResp st Q h w (sig.map (· - c)))]
  apply List.map_congr_left
  intro a _
  simp

/-! ## the whole column, windows -/

/-- `srs.srs` (`rolloff='none'`), one column, one frequency `f > 0`, every
`stype × ic × peak × time × eqsine`: history and spectrum value are those of the filter-free
specification `exactCol` — the closed-form oscillator response to the linearly interpolated
record under the initial-condition rule, continued with zero input over the appended cycle, cut
to the time window, and the peak statistic of that window. -/
theorem srs_column_is_exact_response_peak (o : Opts) (Q sr f : ℝ) (hQ : 1 / 2 < Q) (hsr : 0 < sr)
    (hf : 0 < f) (freqs sig : List ℝ) :
    srsCol o Q sr freqs f sig = exactCol o Q sr freqs f sig :=
  srsCol_eq_exactCol' o Q sr f hQ hsr hf freqs sig

/-- the free decay `freeU`, `freeV` solves the homogeneous oscillator equation from `(u0, v0)` -/
theorem free_decay_solves_ode (o : Osc ℝ) (hw : o.wn ≠ 0) (hh : o.dT ≠ 0) (hd : o.wd ≠ 0)
    (hwd : o.wd * o.wd = o.wn * o.wn * (1 - o.zeta * o.zeta)) (u0 v0 t : ℝ) :
    HasDerivAt (fun τ => o.freeU u0 v0 τ) (o.freeV u0 v0 t) t ∧
    (∃ a, HasDerivAt (fun τ => o.freeV u0 v0 τ) a t ∧
      a + 2 * (o.zeta * o.wn) * o.freeV u0 v0 t + o.wn * o.wn * o.freeU u0 v0 t = 0) ∧
    o.freeU u0 v0 0 = u0 ∧ o.freeV u0 v0 0 = v0 := by
  obtain ⟨h1, ⟨a, h2, h3⟩, h4, h5⟩ := exact_solves_ode' o hw hh hd hwd u0 v0 0 0 t
  simp only [uAt_zero_input, vAt_zero_input o hd hwd] at h1 h2 h3 h4 h5
  refine ⟨h1, ⟨a, h2, ?_⟩, h4, h5⟩
  rw [h3]; simp

/-- the residual window of the exact response (the part after the record, zero input) is the
closed-form free decay sampled on the grid, from the state at the instant the linearly
interpolated input reaches zero (one sample after the last record sample) -/
theorem residual_is_free_decay (st : SType) (Q h w : ℝ) (hQ : 1 / 2 < Q) (hw : 0 < w)
    (u v x : ℝ) (xs : List ℝ) (nz : ℕ) :
    (((Osc.ofQ Q h w).statesAux u v x (xs ++ List.replicate nz 0)).map
        (st.out (Osc.ofQ Q h w))).drop xs.length
      = residualExact st (Osc.ofQ Q h w) u v x xs nz :=
  residual_window_free_decay st _ (ofQ_wd_ne hQ hw) (ofQ_wd_sq Q h w hQ) u v x xs nz

/-- `srs.srs(time='residual')`, `ic` not `'steady'`, no `eqsine`: the returned history is the free
decay from the end state of the (shifted) record and the spectrum value is its peak -/
theorem srs_residual_is_free_decay_peak (o : Opts) (ht : o.time = .residual)
    (hic : o.ic ≠ .steady) (he : o.eqsine = false) (Q sr f : ℝ) (hQ : 1 / 2 < Q) (hsr : 0 < sr)
    (hf : 0 < f) (freqs : List ℝ) (s1 : ℝ) (rest : List ℝ) :
    srsCol o Q sr freqs f (s1 :: rest)
      = match residualExact o.st (Osc.ofQ Q (1 / sr) (2 * TransOps.pi * f)) 0 0 0
            ((s1 :: rest).map (· - icShift o.ic s1 (s1 :: rest))) (nzeros sr freqs) with
        | [] => none
        | y :: ys => some (y :: ys, o.peak.sel y ys) := by
  have hw : (0 : ℝ) < 2 * TransOps.pi * f := by
    have := Real.pi_pos
    simp only [pi_real]
    positivity
  rw [srsCol_eq_exactCol' o Q sr f hQ hsr hf]
  have key := residual_is_free_decay o.st Q (1 / sr) _ hQ hw 0 0 0
    ((s1 :: rest).map (· - icShift o.ic s1 (s1 :: rest))) (nzeros sr freqs)
  rw [List.length_map] at key
  simp only [exactCol, ht, hic, he, reduceCtorEq, if_false, if_true, key]
  generalize residualExact o.st (Osc.ofQ Q (1 / sr) (2 * TransOps.pi * f)) 0 0 0
    ((s1 :: rest).map (· - icShift o.ic s1 (s1 :: rest))) (nzeros sr freqs) = l
  cases l <;> rfl

/-! ## wn = 0 -/

/-- `rigidU`, `rigidV` solve `u'' = -x(t)` for the linearly interpolated input -/
theorem rigid_solves_ode (h u0 v0 x0 x1 t : ℝ) :
    HasDerivAt (fun τ => rigidU h u0 v0 x0 x1 τ) (rigidV h v0 x0 x1 t) t ∧
    HasDerivAt (fun τ => rigidV h v0 x0 x1 τ) (-(x0 + (x1 - x0) * t / h)) t ∧
    rigidU h u0 v0 x0 x1 0 = u0 ∧ rigidV h v0 x0 x1 0 = v0 :=
  rigid_solves_ode' h u0 v0 x0 x1 t

/-- the `wn == 0` branches of all six coefficient functions: the filter output is the exact
response of the oscillator without spring and damper (`u'' = -x(t)`, at rest one sample before
the record), for every `Q` and every record -/
theorem ramp_invariant_rigid (st : SType) (Q h : ℝ) (hh : h ≠ 0) (xs : List ℝ) :
    lfilter (st.coef Q h 0) xs = rigidResp st Q h xs :=
  lfilter_rigid_eq st Q h hh xs

/-- `srs.srs` (`rolloff='none'`) at 0 Hz, `ic` other than `'steady'`, every
`stype × peak × time × eqsine`: history and spectrum value are those of the rigid-oscillator
specification `exactCol0` (for `ic='steady'` no steady state exists at 0 Hz; the code adds the
`wn > 0` gains there, or divides by zero for `reldisp`/`pvelo`). -/
theorem srs_column_zero_hz_is_rigid_response_peak (o : Opts) (hic : o.ic ≠ .steady) (Q sr : ℝ)
    (hsr : sr ≠ 0) (freqs sig : List ℝ) :
    srsCol o Q sr freqs 0 sig = exactCol0 o Q sr freqs sig :=
  srsCol_zero_hz' o hic Q sr hsr freqs sig

/-- what that response is: absacce, pvelo, pacce `0`; relacce `-x`; reldisp `u`; relvelo `v` -/
theorem rigid_response_values (Q h : ℝ) (s : ℝ × ℝ × ℝ) :
    SType.absacce.out (Osc.ofQ Q h 0) s = 0 ∧ SType.relacce.out (Osc.ofQ Q h 0) s = -s.2.2 ∧
    SType.reldisp.out (Osc.ofQ Q h 0) s = s.1 ∧ SType.relvelo.out (Osc.ofQ Q h 0) s = s.2.1 ∧
    SType.pvelo.out (Osc.ofQ Q h 0) s = 0 ∧ SType.pacce.out (Osc.ofQ Q h 0) s = 0 :=
  rigid_out Q h s

/-! ## roll-off: decision, factor, indices -/

/-- the resampling is applied exactly when the method resamples, `max(freq) ≠ 0` and
`sr / max(freq) < ppc` (strict) -/
theorem rolloff_triggers_iff (roll : Roll) (ppc sr mf : ℝ) :
    rollTriggers roll ppc sr mf = true
      ↔ (roll = .linear ∨ roll = .fft ∨ roll = .lanczos) ∧ mf ≠ 0 ∧ sr / mf < ppc :=
  rollTriggers_iff' roll ppc sr mf

/-- then the integer factor `⌈ppc / (sr/mf)⌉` is at least 2 -/
theorem rolloff_factor_ge_two (ppc sr mf : ℝ) (hsr : 0 < sr) (hmf : 0 < mf) (h : sr / mf < ppc) :
    2 ≤ rollFactor ppc sr mf := rollFactor_ge_two' ppc sr mf hsr hmf h

/-- and the new rate `sr · factor` has at least `ppc` points per cycle of the highest frequency -/
theorem rolloff_meets_ppc (ppc sr mf : ℝ) (hsr : 0 < sr) (hmf : 0 < mf) :
    ppc ≤ sr * (rollFactor ppc sr mf : ℝ) / mf := rollFactor_meets_ppc' ppc sr mf hsr hmf

/-- triggered: new length and rate -/
theorem rolloff_step_triggered (roll : Roll) (ppc sr : ℝ) (freqs : List ℝ) (mf : ℝ) (n : ℕ)
    (hmf : maxFreq freqs = some mf) (hr : roll = .linear ∨ roll = .fft ∨ roll = .lanczos)
    (hmf0 : mf ≠ 0) (hlt : sr / mf < ppc) (hn : 1 < n) :
    rollStep roll ppc sr freqs n
      = some (rollLen roll n (rollFactor ppc sr mf), sr * (rollFactor ppc sr mf : ℝ)) :=
  rollStep_triggered' roll ppc sr freqs mf n hmf hr hmf0 hlt hn

/-- not triggered (`'none'`, `max(freq) = 0`, `sr/mf ≥ ppc`, or a one-sample record): unchanged -/
theorem rolloff_step_untouched (roll : Roll) (ppc sr : ℝ) (freqs : List ℝ) (mf : ℝ) (n : ℕ)
    (hmf : maxFreq freqs = some mf) (hp : roll ≠ .prefilter)
    (h : roll = .none ∨ mf = 0 ∨ ppc ≤ sr / mf ∨ n ≤ 1) :
    rollStep roll ppc sr freqs n = some (n, sr) :=
  rollStep_untouched' roll ppc sr freqs mf n hmf hp h

/-- finding `srs-rolloff-linear`: `linroll` returns `N·k - 1` samples for the time span
`[0, (N-1)/sr]` and labels them with the rate `sr·k`; a grid of spacing `1/(sr·k)` over that span
has `(N-1)·k + 1` samples.  The two agree exactly for the factor `k = 2`. -/
theorem rolloff_linear_grid_consistent_iff (N k : ℕ) (hN : 1 < N) (hk : 1 ≤ k) :
    rollLen .linear N k = (N - 1) * k + 1 ↔ k = 2 := by
  have h1 : (N - 1) * k = N * k - k := by rw [Nat.sub_mul, one_mul]
  have h2 : 2 * k ≤ N * k := Nat.mul_le_mul_right k hN
  simp only [rollLen, h1]
  generalize N * k = m at *
  omega

/-- the hypothesis `k = 2` is necessary: 4 samples, factor 3 → 11 samples instead of 10 -/
example : rollLen .linear 4 3 = 11 ∧ (4 - 1) * 3 + 1 = 10 := by decide

/-- `M`, `N`, `S` after the roll-off step: `M` is the length of the *resampled* record, the
appended cycle is `⌈sr'/minf⌉` samples at the *new* rate `sr'`, and `S = M` for `'residual'` -/
theorem rolloff_index_values (roll : Roll) (time : Time) (ppc sr : ℝ) (freqs : List ℝ) (n M : ℕ)
    (sr' : ℝ) (h : rollStep roll ppc sr freqs n = some (M, sr')) :
    srsIndex roll time ppc sr freqs n
      = some ⟨sr', M, (if time = .primary then M else M + nzeros sr' freqs),
          (if time = .residual then M else 0)⟩ :=
  srsIndex_spec' roll time ppc sr freqs n M sr' h

/-- the history returned through any resampler `up` of the right output length covers exactly the
sample numbers `ix.S, …, ix.N - 1` of the index model (so for `'residual'` it starts where the
up-sampled record ends and has `⌈sr'/minf⌉` samples) -/
theorem rolloff_indices (o : Opts) (roll : Roll) (up : List ℝ → ℕ → List ℝ) (ppc Q sr f : ℝ)
    (freqs sig : List ℝ) (r : List ℝ × ℝ)
    (hup : ∀ l k, (up l k).length = if roll = .prefilter then l.length else rollLen roll l.length k)
    (h : srsRolled o roll up ppc Q sr freqs f sig = some r) :
    ∃ ix, srsIndex roll o.time ppc sr freqs sig.length = some ix ∧
      r.1.length = ix.N - ix.S ∧ ix.samples o.time = List.range' ix.S (ix.N - ix.S) :=
  srsRolled_index' o roll up ppc Q sr f freqs sig r hup h

/-- the window: for `'residual'` the returned history is the response with the first
`sg.length` samples removed, `sg` being the record the filter really ran over (after
resampling) -/
theorem residual_starts_at_record_end (o : Opts) (he : o.eqsine = false) (Q sr f s1 : ℝ)
    (freqs : List ℝ) (icv : Option ℝ) (sg : List ℝ) (r : List ℝ × ℝ)
    (h : srsTail o Q sr freqs f s1 icv sg = some r) :
    r.1 = (if o.time = .residual then List.drop sg.length else id)
      (addBack o.st (2 * TransOps.pi * f) icv
        (lfilter (o.st.coef Q (1 / sr) (2 * TransOps.pi * f))
          (if o.time = .primary then sg else addOneCycle o.ic s1 (nzeros sr freqs) sg))) :=
  srsTail_window' o he Q sr f s1 freqs icv sg r h

/-! ## vrs, srs_frf -/

/-- the integration grid `np.unique(np.hstack((freq, Fn)))` is strictly increasing … -/
theorem vrs_grid_sorted (freq fn : List ℝ) : (mergeGrid freq fn).Pairwise (· < ·) :=
  mergeGrid_sorted' freq fn

/-- … and consists of the members of `freq` and of `Fn` -/
theorem vrs_grid_mem (freq fn : List ℝ) (a : ℝ) : a ∈ mergeGrid freq fn ↔ a ∈ freq ∨ a ∈ fn :=
  mem_mergeGrid' freq fn a

/-- `np.sum(df * g)` with `df = [f1 - f0, (f2 - f0)/2, …, (f_{n-1} - f_{n-3})/2, f_{n-1} - f_{n-2}]` -/
theorem vrs_weights (f0 g0 f1 g1 : ℝ) (rest : List (ℝ × ℝ)) :
    vrsSum ((f0, g0) :: (f1, g1) :: rest)
      = some (dot (vrsWeights (((f0, g0) :: (f1, g1) :: rest).map Prod.fst))
          (((f0, g0) :: (f1, g1) :: rest).map Prod.snd)) :=
  vrsSum_eq_dot' f0 g0 f1 g1 rest

/-- the gain of `vrs` is `|H(f/fn)|²`, `H(p) = (1 + 2ζp j)/(1 - p² + 2ζp j)` -/
theorem vrs_gain_is_normSq_H (zeta fn f : ℝ) :
    vrsGain zeta fn f = Complex.normSq (Hc zeta (f / fn)) := vrsGain_eq_normSq' zeta fn f

/-- `srs.vrs` for one oscillator `fn` on any (non-uniform, merged) grid of at least two points:
`z_vrs = sqrt` of the trapezoid rule applied to `|H(f/fn)|² · PSD(f)` on the grid plus half of the
first and half of the last cell times the end ordinates. -/
theorem vrs_is_quadrature_of_H2_psd (Q fn : ℝ) (p0 p1 : ℝ × ℝ) (rest : List (ℝ × ℝ)) :
    vrsOne Q fn (p0 :: p1 :: rest)
      = some (Real.sqrt
          (trapz ((p0 :: p1 :: rest).map fun fs =>
              (fs.1, Complex.normSq (Hc (1 / 2 / Q) (fs.1 / fn)) * fs.2))
            + (p1.1 - p0.1) / 2 * (Complex.normSq (Hc (1 / 2 / Q) (p0.1 / fn)) * p0.2)
            + endHalf p0.1 p1.1 (Complex.normSq (Hc (1 / 2 / Q) (p1.1 / fn)) * p1.2)
                (rest.map fun fs => (fs.1, Complex.normSq (Hc (1 / 2 / Q) (fs.1 / fn)) * fs.2)))) := by
  obtain ⟨f0, g0⟩ := p0
  obtain ⟨f1, g1⟩ := p1
  simp only [vrsOne, List.map_cons, vrsGain_eq_normSq']
  rw [vrsSum_eq]
  rfl

/-- fewer than two grid points: the code raises (`freq[-2]`) -/
theorem vrs_needs_two_points (Q fn : ℝ) (p : ℝ × ℝ) :
    vrsOne Q fn [] = none ∧ vrsOne Q fn [p] = none := by
  simp [vrsOne, vrsSum]

/-- `srs_frf`: `|Ω²/(ωn² - Ω² + j(ωn/Q)Ω) + 1|² = |H(Ω/ωn)|²` -/
theorem srs_frf_gain_is_H (Q wn W : ℝ) (hQ : Q ≠ 0) (hwn : wn ≠ 0) :
    Complex.normSq (((W * W : ℝ) : ℂ)
        / (((wn * wn - W * W : ℝ) : ℂ) + ((wn / Q * W : ℝ) : ℂ) * Complex.I) + 1)
      = Complex.normSq (Hc (1 / 2 / Q) (W / wn)) := by
  rw [srs_frf_gain' Q wn W hQ hwn, vrsGain_eq_normSq']

/-! ## non-vacuity -/
example : steadyResp .reldisp (10 : ℝ) 1 1 2 [] = [] := rfl
example : ∃ o : Opts, o.time = .residual ∧ o.ic ≠ .steady ∧ o.eqsine = false :=
  ⟨⟨.absacce, .zero, .abs, .residual, false⟩, rfl, by simp, rfl⟩
example : rigidResp .relvelo (10 : ℝ) 1 [2, 4] = [-1, -4] := by
  norm_num [rigidResp, rigidStatesAux, rigidU, rigidV, SType.out]
example : lfilter (SType.relvelo.coef (10 : ℝ) 1 0) [2, 4] = [-1, -4] := by
  rw [ramp_invariant_rigid _ _ _ one_ne_zero]
  norm_num [rigidResp, rigidStatesAux, rigidU, rigidV, SType.out]
example : rollTriggers .fft (12 : ℝ) 100 20 = true := by
  rw [rolloff_triggers_iff]; norm_num
example : rollFactor (12 : ℝ) 100 20 = 3 := by
  rw [rollFactor_real]
  have : (12 : ℝ) / (100 / 20) = 12 / 5 := by norm_num
  rw [this, Nat.ceil_eq_iff (by norm_num)]
  norm_num
example : rollLen .linear 4 3 = 11 ∧ rollLen .fft 13 3 = 36 ∧ rollLen .lanczos 13 3 = 39 := by decide
example : mergeGrid [1, 3, (2 : ℝ)] [2, 5] = [1, 2, 3, 5] := by
  norm_num [mergeGrid, insertUniq]
example : vrsWeights [(1 : ℝ), 2, 4, 8] = [1, 3 / 2, 3, 4] := by
  norm_num [vrsWeights, vrsWeightsInner]

end PyYetiVerif.C03
