import PyYetiVerif.Lemmas.FixtimeFull
import PyYetiVerif.Lemmas.FixtimeFull2
import PyYetiVerif.Lemmas.FixtimeTnewTotal
import PyYetiVerif.Lemmas.FixtimeTnewIdem
import PyYetiVerif.Lemmas.FixtimeDropsUniform
/-!
# C19 — `dsp.fixtime` as a whole

Property theorems about the complete model `Model/FixtimeFull.lean` (`fixtimeFull`) and its parts
`Model/FixtimeSr.lean` (`_sr_calcs`, `base`), tied to `pyyeti/dsp.py` by the exact correspondence
streams `fixtime-full-*`, `sr-calcs`, `del-loners` of `harness/props/c19.py`.

* `auto_sr_def`                     — what `sr='auto'` chooses, stated outright;
* `outtimes_removed_exactly`        — who survives `_del_drops` + `_del_outtimes` (strict 3-sigma test);
* `dropouts_marked`                 — `_find_drops`;
* `mk_initial_tnew_total`           — `_mk_initial_tnew` never raises on a sorted record, ≥ 2 samples;
* `alignment_shift_bound` (+ the counterexample `alignment_shift_mean_branch_can_exceed_half_step`);
* `base_shift_hits_base`            — the `base` option;
* `del_loners_only_adds`            — `_del_loners`.
-/
namespace PyYetiVerif.C19
open PyYetiVerif.Fixtime

/-- **auto_sr_def** — `fixtime(sr='auto')` uses `defsr` of `_sr_calcs`.  With
`rates = 1/difft` (zero steps left out), `sr1 = min rates`, the resolution `dsr = 5` if `sr1 > 5`
else `round(10·max(sr1, 0.1))/10` (positive: `5` or a whole number of tenths) and
`keys = round(rates/dsr)` (halves to even):
* `mode_sr = k·dsr` where `k` is a MOST FREQUENT key (no key occurs more often; it occurs `c` times
  and `mode_pct = 100·c/len(difft)`) — not the mean, not a quantile;
* if `mode_pct > 90` or `|mode_sr − ave_sr| < dsr` (`ave_sr = 1/mean(difft)`) the result is `mode_sr`
  itself, otherwise the multiple of `dsr` nearest to `ave_sr` (`round(ave_sr/dsr)·dsr`, within `dsr/2`);
* in both cases the result is an integer multiple of `dsr`. -/
theorem auto_sr_def (difft : List ℚ) (st : SrStats) (h : srCalcs difft = some st) :
    (st.dsr = 5 ∨ ∃ j : ℤ, 0 < j ∧ st.dsr = (j : ℚ) / 10) ∧
    (∃ (k : ℤ) (c : ℕ),
      let keys := ((difft.filter fun d => !(d == 0)).map fun d => 1 / d).map fun s => roundHalfEven (s / st.dsr)
      st.modeSr = (k : ℚ) * st.dsr ∧ st.modePct = (c : ℚ) / (difft.length : ℚ) * 100 ∧
        k ∈ keys ∧ c = countOf k keys ∧ ∀ y ∈ keys, countOf y keys ≤ c) ∧
    st.aveSr = 1 / (sumQ difft / (difft.length : ℚ)) ∧
    (st.byMode = true ↔ (90 < st.modePct ∨ |st.modeSr - st.aveSr| < st.dsr)) ∧
    (st.byMode = true → st.defsr = st.modeSr) ∧
    (st.byMode = false → st.defsr = ((roundHalfEven (st.aveSr / st.dsr) : ℤ) : ℚ) * st.dsr ∧
      |st.defsr - st.aveSr| ≤ st.dsr / 2) ∧
    ∃ m : ℤ, st.defsr = (m : ℚ) * st.dsr := by
  obtain ⟨_, hb, hm, ha, hk, _⟩ := srCalcs_defsr difft st h
  unfold srCalcs at h
  split at h
  · simp only at h
    split at h
    · exact absurd h (by simp)
    · rename_i sr1 _
      split at h
      · exact absurd h (by simp)
      · rename_i k c hmode
        obtain ⟨m1, m2, m3⟩ := modeFirst_spec _ k c hmode
        injection h with h
        subst h
        refine ⟨srResolution_values sr1, ⟨k, c, rfl, rfl, m1, m2, m3⟩, rfl, hb, hm, ?_, hk⟩
        intro hf
        refine ⟨?_, ha hf⟩
        simp only at hf ⊢
        rw [if_neg (by rw [hf]; decide)]
  · exact absurd h (by simp)

/-- exactly uniform data at 8 samples/s: `auto` chooses 10 (the count is "to the nearest 5") — the
sample rate heuristics are outside "leaves already-uniform data unchanged", which holds for the rate
the data has (`uniform_unchanged`, `fixtime_idempotent_time_base`) -/
theorem auto_sr_uniform_8hz_gives_10 :
    (srCalcs [1 / 8, 1 / 8, 1 / 8, 1 / 8]).map (fun s => (s.dsr, s.modeSr, s.modePct, s.byMode, s.defsr)) =
      some (5, 10, 100, true, 10) := by decide +kernel

/-- **outtimes_removed_exactly** (`deldrops`, `delouttimes` on, no despiking): the samples handed to
the time-base construction are EXACTLY the record positions `i` that are not drop-outs and whose time
passes the 3-sigma test `(t_i − mean)² ≤ 9·var` — mean and (n−1)-variance taken over the times of the
non-drop-outs; the test is strict (`t < mn − sig or t > mn + sig`): a time exactly 3 sigma away stays -/
theorem outtimes_removed_exactly (told : List ℚ) (drop : List Bool) (hlen : drop.length = told.length)
    (i : Nat) :
    i ∈ (fixtimeDrops told drop true true none).keep ↔
      i < told.length ∧ drop[i]? = some false ∧
        ∃ x, told[i]? = some x ∧
          outlierAt ((nonzeroIdx (drop.map not)).filterMap fun j => told[j]?) x = false := by
  have hk0 : ∀ j ∈ nonzeroIdx (drop.map not), j < told.length := by
    intro j hj
    have := ((mem_nonzeroIdx _ _).mp hj).1
    rw [List.length_map] at this
    omega
  have hkeep : (fixtimeDrops told drop true true none).keep =
      (delOuttimes told (nonzeroIdx (drop.map not)) true).1 := (drops_compose told drop hlen).2
  rw [hkeep, delOuttimes_fst told _ hk0, List.mem_filter, mem_nonzeroIdx, List.length_map, List.getElem?_map]
  constructor
  · rintro ⟨⟨h1, h2⟩, h3⟩
    have hi : i < told.length := by omega
    refine ⟨hi, ?_, told[i], List.getElem?_eq_getElem hi, ?_⟩
    · cases hd : drop[i]? with
      | none => rw [hd] at h2; simp at h2
      | some b => rw [hd] at h2; cases b <;> simp_all
    · rw [List.getElem?_eq_getElem hi] at h3
      simpa using h3
  · rintro ⟨h1, h2, x, hx, h3⟩
    refine ⟨⟨by omega, by rw [h2]; rfl⟩, ?_⟩
    rw [hx]
    simp [h3]

/-- a record whose last time is exactly 3 standard deviations from the mean: it is NOT an outlier -/
theorem outtimes_exactly_three_sigma_stays :
    outlierAt ([3, 16, 18, 19, 33, 39, 43, 45, 49, 52, 57, 58, 166] : List ℚ) 166 = false ∧
      outlierAt ([3, 16, 18, 19, 33, 39, 43, 45, 49, 52, 57, 58, 167] : List ℚ) 167 = true := by
  decide +kernel

/-- **dropouts_marked** — `_find_drops`: position `i` is a drop-out iff the sample is `nan`, `±inf`,
or (for a finite `dropval`) within 1 % of `dropval`: `|x − dropval| < |dropval|/100`, strictly -/
theorem dropouts_marked (d : List Sample) (dv : Option ℚ) (i : Nat) :
    i ∈ nonzeroIdx (findDrops d dv) ↔
      ∃ (hi : i < d.length), d[i] = Sample.nan ∨ d[i] = Sample.inf ∨
        ∃ x v, d[i] = Sample.fin x ∧ dv = some v ∧ |x - v| < |v| / 100 := by
  have hl : (findDrops d dv).length = d.length := by simp [findDrops]
  rw [mem_nonzeroIdx, hl]
  constructor
  · rintro ⟨hi, h⟩
    refine ⟨hi, (findDrops_getElem d dv i hi).mp ?_⟩
    rw [List.getElem?_eq_getElem (by omega)] at h
    injection h
  · rintro ⟨hi, h⟩
    refine ⟨hi, ?_⟩
    rw [List.getElem?_eq_getElem (by omega), (findDrops_getElem d dv i hi).mpr h]

/-- **mk_initial_tnew_total** — on a time-sorted record with at least two samples and `sr > 0`
`_mk_initial_tnew` never raises (the `argmax`, the slices and the `[0]` of its alignment block are
always defined) -/
theorem mk_initial_tnew_total (told : List ℚ) (sr : ℚ) (hsr : 0 < sr) (hs : told.Pairwise (· ≤ ·))
    (hn : 2 ≤ told.length) : ∃ r, mkInitialTnew told sr = some r :=
  mkInitialTnew_isSome told sr hsr hs hn

/-- … and one sample is not enough: `np.argmax` of an empty sequence -/
theorem mk_initial_tnew_needs_two_samples : mkInitialTnew [5] 1 = none := by decide +kernel

/-- **alignment_shift_bound** — when the lengths of the "good" sections differ (the code warns and
aligns on the first good point only) the shift is within half a step: `−dt/2 < delt ≤ dt/2` -/
theorem alignment_shift_bound (told : List ℚ) (sr : ℚ) (hsr : 0 < sr) (hs : told.Pairwise (· ≤ ·))
    (r : Tnew) (h : mkInitialTnew told sr = some r) (hm : r.mismatch = true) :
    -(1 / (2 * sr)) < r.delt ∧ r.delt ≤ 1 / (2 * sr) := by
  unfold mkInitialTnew at h
  split at h
  · rename_i t0 tl h0 hl
    simp only at h
    split at h
    · split at h
      · rename_i delt mm hal
        injection h with h
        subst h
        simp only at hm ⊢
        subst hm
        exact alignShift_mismatch_bound told t0 tl sr hsr hs h0 hl _ delt hal
      · exact absurd h (by simp)
    · injection h with h
      subst h
      simp at hm
  · exact absurd h (by simp)

/-- in the other branch (`delt = mean(told_good − tnew_good)`) no such bound holds: six steps of
`5/4` followed by six of `3/4` (all within the quarter-step tolerance) give `delt = 9/13 > 1/2` -/
theorem alignment_shift_mean_branch_can_exceed_half_step :
    (mkInitialTnew [0, 5/4, 5/2, 15/4, 5, 25/4, 15/2, 33/4, 9, 39/4, 21/2, 45/4, 12] 1).map
      (fun r => (r.align, r.mismatch, r.delt)) = some (true, false, 9 / 13) := by decide +kernel

/-- **base_shift_hits_base** — the `base` option moves the time base by at most half a step and
afterwards `base` lies on the (extended) grid: `tnew[0] + k/sr = base` for an integer `k` -/
theorem base_shift_hits_base (t0 base sr : ℚ) (hsr : 0 < sr) :
    |baseShift t0 base sr| ≤ 1 / (2 * sr) ∧ ∃ k : ℤ, t0 + baseShift t0 base sr + (k : ℚ) / sr = base :=
  baseShift_spec t0 base sr hsr

/-- **del_loners_only_adds** — `_del_loners` keeps the length and every flag that was set -/
theorem del_loners_only_adds (flags : List Bool) (n nz : Nat) :
    (delLoners flags n nz).length = flags.length ∧
      ∀ i : Nat, flags[i]? = some true → (delLoners flags n nz)[i]? = some true :=
  ⟨length_delLoners flags n nz, delLoners_keeps flags n nz⟩

/-- … what it adds: the single gap of `1 0 1`, and the stretch up to the last of at least three flags
inside a window -/
theorem del_loners_examples :
    delLoners [true, false, true, false, false, true] 3 3 = [true, true, true, false, false, true] ∧
      delLoners [true, false, false, true, false, false, true, false, false] 9 3 =
        [true, true, true, true, true, true, true, false, false] ∧
      delLoners [true, false, false, true, false, false] 9 3 = [true, false, false, true, false, false] := by
  decide +kernel

/-- **fixtime_idempotent** — fixing an already-fixed record changes nothing (numeric `sr`, the rate
of the record; nearest rule, or previous-value rule with `0 ≤ previous_value_tol < 1`; `base=None`):
for the uniform time vector `t0 + k/sr`, `k < L`, `L ≥ 2` — which is what `fixtime` returns
(`tnew_uniform`) — `_mk_initial_tnew` returns that very vector (alignment shift `0`), and every new
time selects its own sample under both rules.  A uniform vector has no 3-sigma outlier times
(`uniform_has_no_outlier_times`) and the output of a run with `deldrops` has no drop-outs, so nothing
is removed before this point either. -/
theorem fixtime_idempotent (t0 sr : ℚ) (hsr : 0 < sr) (L : Nat) (hL : 2 ≤ L) (r : Tnew)
    (h : mkInitialTnew (grid0 t0 sr L) sr = some r) (tol : ℚ) (htol0 : 0 ≤ tol) (htol1 : tol < 1) :
    r.tnew = grid0 t0 sr L ∧ r.delt = 0 ∧
      ∀ (k : Nat) (hk : k < (grid0 t0 sr L).length),
        closest (grid0 t0 sr L) (grid0 t0 sr L)[k] = some (k : Int) ∧
          prevIdx ((grid0 t0 sr L).map (· - 1 / sr * tol)) (grid0 t0 sr L)[k] = k := by
  obtain ⟨h1, h2⟩ := mkInitialTnew_grid t0 sr hsr L hL r h
  have hdt : (0 : ℚ) < 1 / sr := by positivity
  have hstrict : (grid0 t0 sr L).Pairwise (· < ·) := by
    rw [List.pairwise_iff_getElem]
    intro i j hi hj hij
    rw [getElem_grid0, getElem_grid0]
    have : (i : ℚ) < (j : ℚ) := by exact_mod_cast hij
    have : (i : ℚ) / sr < (j : ℚ) / sr := div_lt_div_of_pos_right this hsr
    linarith
  refine ⟨h1, h2, fun k hk => ⟨closest_self _ hstrict (by rw [length_grid0]; exact hL) k hk, ?_⟩⟩
  apply prev_self_shift _ hstrict (1 / sr * tol) (by positivity)
  intro j hj
  rw [getElem_grid0, getElem_grid0]
  push_cast
  have : 1 / sr * tol < 1 / sr * 1 := by
    apply mul_lt_mul_of_pos_left htol1 hdt
  have e : t0 + ((j : ℚ) + 1) / sr - (t0 + (j : ℚ) / sr) = 1 / sr := by ring
  rw [e]; linarith

/-- `_del_outtimes` removes nothing from a uniform time vector: no point of `t0 + k/sr`, `k < L`,
`L ≥ 2`, is more than 3 standard deviations from the mean (the documented "end points are at 1.73
sigma"), so with no drop-outs every sample is kept (`outtimes_removed_exactly`) -/
theorem uniform_has_no_outlier_times (t0 sr : ℚ) (hsr : 0 < sr) (L : Nat) (hL : 2 ≤ L) (k : Nat)
    (hk : k < (grid0 t0 sr L).length) :
    outlierAt (grid0 t0 sr L) (grid0 t0 sr L)[k] = false := by
  rw [getElem_grid0]
  exact outlierAt_grid t0 sr hsr L hL k (by rwa [length_grid0] at hk)

/-- … and such a record exists for every start, rate and length: the routine does not raise on it -/
theorem fixtime_idempotent_inhabited (t0 sr : ℚ) (hsr : 0 < sr) (L : Nat) (hL : 2 ≤ L) :
    ∃ r, mkInitialTnew (grid0 t0 sr L) sr = some r :=
  mkInitialTnew_isSome _ sr hsr (grid0_sorted t0 sr hsr L) (by rw [length_grid0]; exact hL)

/-! ## non-vacuity -/

/-- `auto_sr_def`: a record with a gap — the most frequent rate wins over the average -/
example : (srCalcs [1, 1, 4]).map (fun s => (s.dsr, s.modeSr, s.aveSr, s.byMode, s.defsr)) =
    some (1 / 5, 1, 1 / 2, false, 2 / 5) := by decide +kernel

/-- `outtimes_removed_exactly`: hypotheses inhabited (no drop-outs, 13 times) -/
example : (List.replicate 13 false).length = ([3, 16, 18, 19, 33, 39, 43, 45, 49, 52, 57, 58, 166] : List ℚ).length := by
  decide

/-- `alignment_shift_bound`: a record that takes the length-mismatch branch -/
example : (mkInitialTnew [0, 9/8, 9/4, 27/8, 9/2, 45/8, 27/4, 63/8, 9] 1).map (fun r => (r.align, r.mismatch, r.delt)) =
    some (true, true, 0) := by decide +kernel

end PyYetiVerif.C19
