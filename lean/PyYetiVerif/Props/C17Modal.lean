import PyYetiVerif.Lemmas.NewmarkModal
import PyYetiVerif.Props.C17Conv
import PyYetiVerif.Props.C17Vel
/-!
# C17 (continued) — COUPLED systems through the modal transformation

Property theorems only (helpers in `Lemmas/NewmarkModal.lean`).

Setting: `V` a real inner product space (ℝⁿ), `M`, `B`, `K` linear maps on it (full matrices), `S` the solver
instance built from them (`solve` inverts `A = M/h² + B/2h + K/3`, `S.A1 = A⁻¹A1`, `S.A0 = A⁻¹A0` — the
specification of `lu_factor / lu_solve`, as in `newmark_is_documented`), and a simultaneously diagonalising pair
`(Φ, Ψ)`: `M Φ = Ψ diag(m)`, `B Φ = Ψ diag(b)`, `K Φ = Ψ diag(k)`, `Φ` onto, `Ψ` one-to-one.  For symmetric positive
definite `M`, symmetric `K` and Rayleigh damping `B = αM + βK` (or any `B` diagonalised by the same modes) `Φ` is the
matrix of the modes of `K x = λ M x` and `Ψ = M Φ diag(m)⁻¹`; the spectral theorem that produces the pair is not
proved here (it is an input, measured by the oracle on the generated systems).

* `newmark_modal_decomposition` — the history `Newmark.run` returns for the coupled system with
  `d0 = Φ q0`, `v0 = Φ p0`, `F_j = Ψ φ_j` is `Φ` applied, step by step, to the histories of the SCALAR runs
  `(m_i, b_i, k_i)` with data `(q0_i, p0_i, φ_{j,i})`.
* `newmark_converges_modal_full` — hence global convergence for coupled matrices: if every modal coordinate `q_i` of
  the exact solution `u(t) = Φ q(t)` has four derivatives bounded by `M₃ᵢ`, `M₄ᵢ` on `[0, T]`, then for every `h > 0`
  `‖d_n − u(t_n)‖ ≤ Σ_i ‖Φ e_i‖ (K₁ᵢ |φ_i(0) − k_i q_i(0) − b_i q_i'(0)| h + K₂ᵢ h²)` with the explicit scalar constants
  `K₁ᵢ = convK1 m_i b_i k_i T`, `K₂ᵢ = convK2 m_i b_i k_i T M₃ᵢ M₄ᵢ` and the mode-shape norms `‖Φ e_i‖`
  (their size against `‖Ψ⁻¹‖` is the conditioning of the modal basis).  Second order iff every modal start-up is
  balanced, i.e. `F(0) = K u₀ + B v₀`.
* `newmark_velocity_converges_modal_full` — the returned velocities of the coupled system (`v_0 = v0`, centred differences)
  converge with the same order: error `≤ Σ_i ‖Φ e_i‖ (R_i/√m_i + M₃ᵢ h²/6)`.
-/
namespace PyYetiVerif.C17
open PyYetiVerif.Newmark Set

section modal
variable {ι : Type} {V : Type} [NormedAddCommGroup V] [InnerProductSpace ℝ V]
attribute [local instance 10] moduleVecOps

/-- the coupled run is `Φ` of the scalar runs -/
theorem newmark_modal_decomposition (S : Sys V ℝ) (M B K : V →ₗ[ℝ] V) (Φ Ψ : (ι → ℝ) →ₗ[ℝ] V)
    (mm bb kk : ι → ℝ) (h : ℝ)
    (hSh : S.h = h) (hSK : ∀ x, S.K x = K x) (hSB : ∀ x, S.B x = B x)
    (hsolve : ∀ x, fullA M B K h (S.solve x) = x)
    (hA1 : ∀ x, fullA M B K h (S.A1 x) = fullA1 M K h x)
    (hA0 : ∀ x, fullA M B K h (S.A0 x) = fullA0 M B K h x)
    (hMΦ : ∀ q, M (Φ q) = Ψ (fun i => mm i * q i)) (hBΦ : ∀ q, B (Φ q) = Ψ (fun i => bb i * q i))
    (hKΦ : ∀ q, K (Φ q) = Ψ (fun i => kk i * q i))
    (hΨ : Function.Injective Ψ) (hΦ : Function.Surjective Φ)
    (hA : ∀ i, coefA (mm i) (bb i) (kk i) h ≠ 0)
    (φ : ℕ → ι → ℝ) (q0 p0 : ι → ℝ) (n : ℕ) :
    ∃ hh, run S (fun _ _ => 0) ((List.range (n + 2)).map fun j => Ψ (φ j)) (Φ q0) (Φ p0) = some hh ∧
      hh.d = (List.range (n + 2)).map (fun j => Φ (fun i =>
        dseq (scalarSys (mm i) (bb i) (kk i) h) (fun j => φ j i) (q0 i) (p0 i) 0 j)) ∧
      ∀ i, ∃ hi, run (scalarSys (mm i) (bb i) (kk i) h) (fun _ _ => 0)
          ((List.range (n + 2)).map fun j => φ j i) (q0 i) (p0 i) = some hi ∧
        hi.d = (List.range (n + 2)).map
          (dseq (scalarSys (mm i) (bb i) (kk i) h) (fun j => φ j i) (q0 i) (p0 i) 0) := by
  have H : ModalSys S M B K Φ Ψ mm bb kk h :=
    ⟨hSh, hSK, hSB, hsolve, hA1, hA0, hMΦ, hBΦ, hKΦ, hΨ, hΦ, hA⟩
  obtain ⟨hh, hrun, hd, -⟩ := run_eq_dseq S (fun j => Ψ (φ j)) (Φ q0) (Φ p0) 0 n
  refine ⟨hh, hrun, ?_, fun i => ?_⟩
  · rw [hd]
    exact List.map_congr_left fun j _ => H.dseq_Phi φ q0 p0 j
  · obtain ⟨hi, h1, h2, -⟩ := run_eq_dseq (scalarSys (mm i) (bb i) (kk i) h) (fun j => φ j i) (q0 i) (p0 i) 0 n
    exact ⟨hi, h1, h2⟩

/-- **Global convergence of SolveNewmark for coupled, modally damped systems.** -/
theorem newmark_converges_modal_full [Fintype ι] [DecidableEq ι] (S : Sys V ℝ) (M B K : V →ₗ[ℝ] V)
    (Φ Ψ : (ι → ℝ) →ₗ[ℝ] V) (mm bb kk : ι → ℝ) (T : ℝ) (M3 M4 : ι → ℝ)
    (hm : ∀ i, 0 < mm i) (hb : ∀ i, 0 ≤ bb i) (hk : ∀ i, 0 ≤ kk i)
    (hMΦ : ∀ q, M (Φ q) = Ψ (fun i => mm i * q i)) (hBΦ : ∀ q, B (Φ q) = Ψ (fun i => bb i * q i))
    (hKΦ : ∀ q, K (Φ q) = Ψ (fun i => kk i * q i))
    (hΨ : Function.Injective Ψ) (hΦ : Function.Surjective Φ)
    (q q1 q2 q3 q4 φf : ι → ℝ → ℝ)
    (hq : ∀ i t, HasDerivAt (q i) (q1 i t) t) (hq1 : ∀ i t, HasDerivAt (q1 i) (q2 i t) t)
    (hq2 : ∀ i t, HasDerivAt (q2 i) (q3 i t) t) (hq3 : ∀ i t, HasDerivAt (q3 i) (q4 i t) t)
    (hM3 : ∀ i, ∀ t ∈ Icc 0 T, |q3 i t| ≤ M3 i) (hM4 : ∀ i, ∀ t ∈ Icc 0 T, |q4 i t| ≤ M4 i)
    (hode : ∀ i, ∀ t ∈ Icc 0 T, mm i * q2 i t + bb i * q1 i t + kk i * q i t = φf i t)
    (h : ℝ) (n : ℕ) (hh : 0 < h) (hnT : ((n : ℝ) + 1) * h ≤ T)
    (hSh : S.h = h) (hSK : ∀ x, S.K x = K x) (hSB : ∀ x, S.B x = B x)
    (hsolve : ∀ x, fullA M B K h (S.solve x) = x)
    (hA1 : ∀ x, fullA M B K h (S.A1 x) = fullA1 M K h x)
    (hA0 : ∀ x, fullA M B K h (S.A0 x) = fullA0 M B K h x) :
    ∃ hist, run S (fun _ _ => 0)
        ((List.range (n + 2)).map fun j : ℕ => Ψ (fun i => φf i ((j : ℝ) * h)))
        (Φ (fun i => q i 0)) (Φ (fun i => q1 i 0)) = some hist ∧ hist.d.length = n + 2 ∧
      ∀ j (hj : j < hist.d.length), ‖hist.d[j] - Φ (fun i => q i ((j : ℝ) * h))‖
        ≤ ∑ i, ‖Φ (Pi.single i 1)‖ *
            (convK1 (mm i) (bb i) (kk i) T * |φf i 0 - (kk i * q i 0 + bb i * q1 i 0)| * h
              + convK2 (mm i) (bb i) (kk i) T (M3 i) (M4 i) * h ^ 2) := by
  have hA : ∀ i, coefA (mm i) (bb i) (kk i) h ≠ 0 := by
    intro i
    have h1 : 0 < mm i / (h * h) := div_pos (hm i) (mul_pos hh hh)
    have h2 : 0 ≤ bb i / (2 * h) := div_nonneg (hb i) (by positivity)
    have h3 : 0 ≤ kk i / 3 := div_nonneg (hk i) (by norm_num)
    simp only [coefA]
    linarith
  obtain ⟨hist, hrun, hd, hsc⟩ := newmark_modal_decomposition S M B K Φ Ψ mm bb kk h hSh hSK hSB hsolve hA1
    hA0 hMΦ hBΦ hKΦ hΨ hΦ hA (fun (j : ℕ) i => φf i ((j : ℝ) * h)) (fun i => q i 0) (fun i => q1 i 0) n
  refine ⟨hist, hrun, by rw [hd]; simp, ?_⟩
  intro j hj
  have hjn : j < n + 2 := by rw [hd] at hj; simpa using hj
  have hget : hist.d[j] = Φ (fun i => dseq (scalarSys (mm i) (bb i) (kk i) h)
      (fun (j : ℕ) => φf i ((j : ℝ) * h)) (q i 0) (q1 i 0) 0 j) := by
    simp [hd]
  rw [hget, ← map_sub]
  refine le_trans (norm_modal_le Φ _) (Finset.sum_le_sum fun i _ => ?_)
  rw [mul_comm]
  refine mul_le_mul_of_nonneg_left ?_ (norm_nonneg _)
  -- the scalar theorem, mode `i`
  obtain ⟨hi, hri, hli, hbi⟩ := newmark_converges_scalar (mm i) (bb i) (kk i) T (M3 i) (M4 i) (hm i) (hb i)
    (hk i) (q i) (q1 i) (q2 i) (q3 i) (q4 i) (φf i) (hq i) (hq1 i) (hq2 i) (hq3 i) (hM3 i) (hM4 i) (hode i)
    h n hh hnT
  obtain ⟨hi', hri', hdi'⟩ := hsc i
  have : hi = hi' := by
    have := hri.symm.trans hri'
    exact Option.some.inj this
  subst this
  have hb' := hbi j (by rw [hli]; exact hjn)
  have hgi : hi.d[j]'(by rw [hli]; exact hjn) = dseq (scalarSys (mm i) (bb i) (kk i) h)
      (fun (j : ℕ) => φf i ((j : ℝ) * h)) (q i 0) (q1 i 0) 0 j := by
    simp [hdi']
  rw [hgi] at hb'
  exact hb'

/-- **Velocities of coupled, modally damped systems converge** with the order of the displacements: `v_0` is the given
initial velocity and for `1 ≤ j ≤ nt − 2` the error is at most `Σ_i ‖Φ e_i‖ (R_i/√m_i + M₃ᵢ h²/6)`, `R_i` the energy radius
`convR` of mode `i`. -/
theorem newmark_velocity_converges_modal_full [Fintype ι] [DecidableEq ι] (S : Sys V ℝ) (M B K : V →ₗ[ℝ] V)
    (Φ Ψ : (ι → ℝ) →ₗ[ℝ] V) (mm bb kk : ι → ℝ) (T : ℝ) (M3 M4 : ι → ℝ)
    (hm : ∀ i, 0 < mm i) (hb : ∀ i, 0 ≤ bb i) (hk : ∀ i, 0 ≤ kk i)
    (hMΦ : ∀ q, M (Φ q) = Ψ (fun i => mm i * q i)) (hBΦ : ∀ q, B (Φ q) = Ψ (fun i => bb i * q i))
    (hKΦ : ∀ q, K (Φ q) = Ψ (fun i => kk i * q i))
    (hΨ : Function.Injective Ψ) (hΦ : Function.Surjective Φ)
    (q q1 q2 q3 q4 φf : ι → ℝ → ℝ)
    (hq : ∀ i t, HasDerivAt (q i) (q1 i t) t) (hq1 : ∀ i t, HasDerivAt (q1 i) (q2 i t) t)
    (hq2 : ∀ i t, HasDerivAt (q2 i) (q3 i t) t) (hq3 : ∀ i t, HasDerivAt (q3 i) (q4 i t) t)
    (hM3 : ∀ i, ∀ t ∈ Icc 0 T, |q3 i t| ≤ M3 i) (hM4 : ∀ i, ∀ t ∈ Icc 0 T, |q4 i t| ≤ M4 i)
    (hode : ∀ i, ∀ t ∈ Icc 0 T, mm i * q2 i t + bb i * q1 i t + kk i * q i t = φf i t)
    (h : ℝ) (n : ℕ) (hh : 0 < h) (hnT : ((n : ℝ) + 1) * h ≤ T)
    (hSh : S.h = h) (hSK : ∀ x, S.K x = K x) (hSB : ∀ x, S.B x = B x)
    (hsolve : ∀ x, fullA M B K h (S.solve x) = x)
    (hA1 : ∀ x, fullA M B K h (S.A1 x) = fullA1 M K h x)
    (hA0 : ∀ x, fullA M B K h (S.A0 x) = fullA0 M B K h x) :
    ∃ hist, run S (fun _ _ => 0)
        ((List.range (n + 2)).map fun j : ℕ => Ψ (fun i => φf i ((j : ℝ) * h)))
        (Φ (fun i => q i 0)) (Φ (fun i => q1 i 0)) = some hist ∧
      hist.v[0]? = some (Φ (fun i => q1 i 0)) ∧
      ∀ i0, i0 < n → ∃ x, hist.v[i0 + 1]? = some x ∧
        ‖x - Φ (fun i => q1 i (((i0 + 1 : ℕ) : ℝ) * h))‖
          ≤ ∑ i, ‖Φ (Pi.single i 1)‖ *
              (convR (mm i) (bb i) (kk i) T (M3 i) (M4 i) |φf i 0 - (kk i * q i 0 + bb i * q1 i 0)| h / √(mm i)
                + M3 i * h ^ 2 / 6) := by
  have hA : ∀ i, coefA (mm i) (bb i) (kk i) h ≠ 0 := by
    intro i
    have h1 : 0 < mm i / (h * h) := div_pos (hm i) (mul_pos hh hh)
    have h2 : 0 ≤ bb i / (2 * h) := div_nonneg (hb i) (by positivity)
    have h3 : 0 ≤ kk i / 3 := div_nonneg (hk i) (by norm_num)
    simp only [coefA]
    linarith
  have H : ModalSys S M B K Φ Ψ mm bb kk h :=
    ⟨hSh, hSK, hSB, hsolve, hA1, hA0, hMΦ, hBΦ, hKΦ, hΨ, hΦ, hA⟩
  obtain ⟨hist, hrun, -, -, hv0, hvi, -, -, -, -⟩ := newmark_velocity_is_central_difference S
    (fun j : ℕ => Ψ (fun i => φf i ((j : ℝ) * h))) (Φ (fun i => q i 0)) (Φ (fun i => q1 i 0)) 0 n
  refine ⟨hist, hrun, hv0, fun i0 hi0 => ⟨_, hvi i0 hi0, ?_⟩⟩
  have hd := H.dseq_Phi (fun (j : ℕ) i => φf i ((j : ℝ) * h)) (fun i => q i 0) (fun i => q1 i 0)
  rw [hd (i0 + 2), hd i0, hSh]
  set D2 : ι → ℝ := fun i => dseq (scalarSys (mm i) (bb i) (kk i) h) (fun (j : ℕ) => φf i ((j : ℝ) * h))
    (q i 0) (q1 i 0) 0 (i0 + 2) with hD2
  set D0 : ι → ℝ := fun i => dseq (scalarSys (mm i) (bb i) (kk i) h) (fun (j : ℕ) => φf i ((j : ℝ) * h))
    (q i 0) (q1 i 0) 0 i0 with hD0
  have e : VecOps.sdiv (Φ D2 - Φ D0) ((2 : ℝ) * h) - Φ (fun i => q1 i (((i0 + 1 : ℕ) : ℝ) * h))
      = Φ (fun i => (D2 i - D0 i) / (2 * h) - q1 i (((i0 + 1 : ℕ) : ℝ) * h)) := by
    simp only [VecOps.sdiv, ← map_sub, ← map_smul]
    congr 1
    funext i
    simp only [Pi.sub_apply, Pi.smul_apply, smul_eq_mul]
    ring
  rw [e]
  refine le_trans (norm_modal_le Φ _) (Finset.sum_le_sum fun i _ => ?_)
  rw [mul_comm]
  refine mul_le_mul_of_nonneg_left ?_ (norm_nonneg _)
  exact scalar_velocity_bound (mm i) (bb i) (kk i) T (M3 i) (M4 i) (hm i) (hb i) (hk i) (q i) (q1 i) (q2 i)
    (q3 i) (q4 i) (φf i) (hq i) (hq1 i) (hq2 i) (hq3 i) (hM3 i) (hM4 i) (hode i) h n hh hnT i0 hi0

end modal

/-! ## non-vacuity -/

/-- the modal hypotheses are inhabited by `V = ℝ`, `ι = Unit`, `Φ = Ψ =` evaluation, `M = B = K = id`:
`M (Φ q) = Ψ (1 · q)`, `Φ` onto, `Ψ` one-to-one -/
example : ∃ (Φ : (Unit → ℝ) →ₗ[ℝ] ℝ), (∀ q, (LinearMap.id : ℝ →ₗ[ℝ] ℝ) (Φ q) = Φ (fun i => 1 * q i)) ∧
    Function.Injective Φ ∧ Function.Surjective Φ := by
  refine ⟨LinearMap.proj (), fun q => by simp, ?_, fun x => ⟨fun _ => x, rfl⟩⟩
  intro a b hab
  funext i
  cases i
  exact hab

end PyYetiVerif.C17
