import PyYetiVerif.Lemmas.FindapNeg
import PyYetiVerif.Props.C10Fde
/-!
# C10 (continued) — `fdepsd` bookkeeping: amplitude levels, cumulative counts, the G formulas,
scaling in `Q`, the `resp` switch, and quadratic scaling for a factor of either sign

Property theorems only; model `Model/Fde.lean`, `Model/FdePsd.lean`.
-/
set_option linter.unusedSectionVars false
set_option linter.unusedVariables false
namespace PyYetiVerif.C10
open PyYetiVerif.Fde

section field
variable {α : Type} [Field α] [LinearOrder α] [IsStrictOrderedRing α]

/-- `binamps[j, k] = (k / nbins) · Amax[j]` for `k = 0 … nbins-1`: `nbins` linearly spaced LEFT bin
boundaries from `0` up to `Amax·(nbins-1)/nbins` (the next one would be `Amax` itself); the levels
are per frequency (each row is scaled by its own `Amax`). -/
theorem binamps_formula (nbins : Nat) (am : α) :
    (binAmps nbins am).length = nbins ∧
      ∀ k, k < nbins → (binAmps nbins am)[k]? = some (((k : α) / (nbins : α)) * am) := by
  unfold binAmps
  refine ⟨by simp, ?_⟩
  intro k hk
  simp [List.getElem?_map, List.getElem?_range hk]

/-- `count[j, k] = Σ count[amp ≥ binamps[j, k]]`: each entry is the summed count of the cycles AT
or above its level (`≥`, not `>`: a cycle exactly on a level is included). -/
theorem count_is_upper_cumulative (cycles : List (α × α)) (levels : List α) :
    (counts cycles levels).length = levels.length ∧
      ∀ (k : Nat) (l : α), levels[k]? = some l →
        (counts cycles levels)[k]? = some (((cycles.filter fun c => decide (l ≤ c.1)).map (·.2)).sum) := by
  unfold counts
  refine ⟨by simp, ?_⟩
  intro k l hl
  simp only [List.getElem?_map, hl, Option.map_some, cumCount, Option.some.injEq]
  congr 2
  apply List.filter_congr
  intro c _
  by_cases h : c.1 < l
  · simp [h, not_le.mpr h]
  · simp [h, not_lt.mp h]

/-- the cumulative counts are non-increasing along non-decreasing levels (as a list) -/
theorem counts_antitone (cycles : List (α × α)) (hc : ∀ c ∈ cycles, 0 ≤ c.2) (levels : List α)
    (hs : levels.Pairwise (· ≤ ·)) : (counts cycles levels).Pairwise (· ≥ ·) := by
  unfold counts
  rw [List.pairwise_map]
  exact hs.imp fun h => cumCount_antitone cycles hc _ _ h

/-- `bincount[k] = count[k] − count[k+1]`, the last one `count[-1]` -/
theorem bincount_diff (ct : List α) :
    (binCount ct).length = ct.length ∧
      (∀ k a b, ct[k]? = some a → ct[k + 1]? = some b → (binCount ct)[k]? = some (a - b)) ∧
      (∀ a, ct.getLast? = some a → (binCount ct).getLast? = some a) := by
  induction ct with
  | nil => simp [binCount]
  | cons c r ih =>
      cases r with
      | nil =>
          refine ⟨rfl, ?_, ?_⟩
          · intro k a b h1 h2; simp at h2
          · intro a h; simpa [binCount] using h
      | cons d r' =>
          obtain ⟨i1, i2, i3⟩ := ih
          refine ⟨by simp [binCount, i1], ?_, ?_⟩
          · intro k a b h1 h2
            cases k with
            | zero =>
                simp only [List.getElem?_cons_zero, zero_add, List.getElem?_cons_succ, Option.some.injEq] at h1 h2
                subst h1; subst h2; simp [binCount]
            | succ k =>
                simp only [List.getElem?_cons_succ] at h1 h2
                simp only [binCount, List.getElem?_cons_succ]
                exact i2 k a b h1 h2
          · intro a h
            rw [List.getLast?_cons_cons] at h
            have := i3 a h
            cases r' with
            | nil => simpa [binCount] using this
            | cons e r'' =>
                simp only [binCount] at this ⊢
                rw [List.getLast?_cons_cons]
                exact this

end field

/-! ### the G formulas -/

/-- **`psd_G_formulas`** (the returned row), with `N0 = f·T0`:
`absacce`: `G1 = Amax²/(Q·π·f·ln N0)`, `G2 = G2max/(Q·π·f·ln N0)`, `G_b = var_test_b/((Q·π/2)·f)`;
`pvelo`:   `G1 = Amax²·4π·f/(Q·ln N0)`, `G2 = G2max·4π·f/(Q·ln N0)`, `G_b = var_test_b·(8π/Q)·f`;
`var_test_4 = √(Df4/Dt4)/k`, `var_test_8 = (Df8/Dt8)^(1/4)/k`, `var_test_12 = (Df12/Dt12)^(1/6)/k` with
the `Dt_b` the code solves with and `k = 1` (`absacce`), `k = 2` (`pvelo`). -/
theorem psd_G_formulas (resp : Resp) (Q f T0 am g2m df4 df8 df12 : ℝ) :
    let p := psdOut resp Q f T0 am g2m df4 df8 df12
    let L := Real.log (f * T0)
    (match resp with
      | .absacce => p.g1 = am * am / (Q * Real.pi * f * L) ∧ p.g2 = g2m / (Q * Real.pi * f * L) ∧
          p.g4 = p.v4 / ((Q * Real.pi / 2) * f) ∧ p.g8 = p.v8 / ((Q * Real.pi / 2) * f) ∧
          p.g12 = p.v12 / ((Q * Real.pi / 2) * f) ∧
          p.v4 = Real.sqrt (df4 / p.dt4) ∧ p.v8 = (df8 / p.dt8) ^ ((1 : ℝ) / 4) ∧
          p.v12 = (df12 / p.dt12) ^ ((1 : ℝ) / 6)
      | .pvelo => p.g1 = (am * am * 4 * Real.pi * f) / (Q * L) ∧ p.g2 = (g2m * 4 * Real.pi * f) / (Q * L) ∧
          p.g4 = p.v4 * ((8 * Real.pi / Q) * f) ∧ p.g8 = p.v8 * ((8 * Real.pi / Q) * f) ∧
          p.g12 = p.v12 * ((8 * Real.pi / Q) * f) ∧
          p.v4 = Real.sqrt (df4 / p.dt4) / 2 ∧ p.v8 = (df8 / p.dt8) ^ ((1 : ℝ) / 4) / 2 ∧
          p.v12 = (df12 / p.dt12) ^ ((1 : ℝ) / 6) / 2) := by
  intro p L
  cases resp
  · refine ⟨?_, ?_, ?_, ?_, ?_, ?_, ?_, ?_⟩ <;>
      simp only [p, L, psdOut, psdRow, log_def, sqrt_def, pow_def, pi_def] <;> push_cast <;> rfl
  · refine ⟨?_, ?_, ?_, ?_, ?_, ?_, ?_, ?_⟩ <;>
      simp only [p, L, psdOut, psdRow, log_def, sqrt_def, pow_def, pi_def] <;> push_cast <;> first | rfl | ring

/-- **`Q` for a fixed cycle table**: all five PSDs are inversely proportional to `Q`; the peak
amplitudes, `var_test` and `di_test` do not depend on it.  (The cycle table itself depends on `Q`
through the SDOF filter; this is the bookkeeping part only.) -/
theorem psd_inverse_in_Q (resp : Resp) (k Q f T0 am g2m df4 df8 df12 : ℝ) (hk : 0 < k) (hQ : 0 < Q)
    (hf : 0 < f) (hL : Real.log (f * T0) ≠ 0) :
    let p := psdOut resp Q f T0 am g2m df4 df8 df12
    let q := psdOut resp (k * Q) f T0 am g2m df4 df8 df12
    q.g1 = p.g1 / k ∧ q.g2 = p.g2 / k ∧ q.g4 = p.g4 / k ∧ q.g8 = p.g8 / k ∧ q.g12 = p.g12 / k ∧
      q.v4 = p.v4 ∧ q.v8 = p.v8 ∧ q.v12 = p.v12 ∧ q.dto4 = p.dto4 ∧ q.dto8 = p.dto8 ∧ q.dto12 = p.dto12 := by
  intro p q
  have hpi := Real.pi_pos
  cases resp
  · refine ⟨?_, ?_, ?_, ?_, ?_, ?_, ?_, ?_, ?_, ?_, ?_⟩ <;>
      simp only [p, q, psdOut, psdRow, log_def, sqrt_def, pow_def, pi_def] <;> push_cast <;> field_simp
  · refine ⟨?_, ?_, ?_, ?_, ?_, ?_, ?_, ?_, ?_, ?_, ?_⟩ <;>
      simp only [p, q, psdOut, psdRow, log_def, sqrt_def, pow_def, pi_def] <;> push_cast <;> field_simp

/-- **the `resp` switch for a fixed table**: `G1` and `G2` of `pvelo` are those of `absacce` times
`(2πf)²` (pseudo-velocity = acceleration / ω). -/
theorem resp_switch_G1_G2 (Q f T0 am g2m df4 df8 df12 : ℝ) (hQ : 0 < Q) (hf : 0 < f)
    (hL : Real.log (f * T0) ≠ 0) :
    let a := psdOut .absacce Q f T0 am g2m df4 df8 df12
    let v := psdOut .pvelo Q f T0 am g2m df4 df8 df12
    v.g1 = (2 * Real.pi * f) ^ 2 * a.g1 ∧ v.g2 = (2 * Real.pi * f) ^ 2 * a.g2 := by
  intro a v
  have hpi := Real.pi_pos
  simp only [a, v, psdOut, psdRow, log_def, pi_def]
  push_cast
  constructor <;> field_simp <;> ring

/-! ### quadratic scaling, factor of either sign; the linear front end as a specification -/

/-- negating the filtered response changes nothing: same `srs`, `var`, cycle table, hence the same
row of every output. -/
theorem fdeFreq_neg (resp : Resp) (Q f T0 tol : ℝ) (nbins : Nat) (y : List ℝ) :
    fdeFreq resp Q f T0 nbins tol (y.map (- ·)) = fdeFreq resp Q f T0 nbins tol y := by
  unfold fdeFreq
  rw [srsPeak_neg, cyclesOf_neg, variance_neg]

/-- **`psd_quadratic_scaling_full`**: multiplying the filtered response by ANY `c ≠ 0` multiplies
`srs`, `amp` (peakamp) and `binamps` by `|c|`, `var`, `var_test` and all five PSDs by `c² = |c|²`,
`di_sig` by `|c| ^ b`, and leaves `count`, `bincount`, `di_test` unchanged. -/
theorem psd_quadratic_scaling_full (resp : Resp) (c Q f T0 tol : ℝ) (hc : c ≠ 0) (hQ : 0 < Q) (nbins : Nat)
    (y : List ℝ) (hdom : InDomain resp f T0) :
    fdeFreq resp Q f T0 nbins tol (y.map (c * ·))
      = (fdeFreq resp Q f T0 nbins tol y).map (scaleFreq |c|) := by
  rcases lt_or_gt_of_ne hc with hneg | hpos
  · have e : y.map (c * ·) = (y.map (- ·)).map ((-c) * ·) := by
      rw [List.map_map]; apply List.map_congr_left; intro v _; simp
    rw [e, psd_quadratic_scaling_signal resp (-c) Q f T0 tol (by linarith) hQ nbins _ hdom, fdeFreq_neg,
      abs_of_neg hneg]
  · rw [psd_quadratic_scaling_signal resp c Q f T0 tol hpos hQ nbins y hdom, abs_of_pos hpos]

/-- what the oracle's `×4` / `×(−4)` runs sample: a front end (detrend, windowends, high-pass
`lfilter`, resample) and an SDOF filter that commute with scalar multiplication. -/
def IsLinear (F : List ℝ → List ℝ) : Prop := ∀ (c : ℝ) (y : List ℝ), F (y.map (c * ·)) = (F y).map (c * ·)

/-- **the whole chain `sig ↦ front end ↦ SDOF filter ↦ counting`**: if the front end `F` and the
filter `H` are homogeneous (specification `IsLinear`, sampled by the oracle), scaling the INPUT
signal by any `c ≠ 0` scales the outputs as in `psd_quadratic_scaling_full`. -/
theorem psd_quadratic_scaling_input (F H : List ℝ → List ℝ) (hF : IsLinear F) (hH : IsLinear H)
    (resp : Resp) (c Q f T0 tol : ℝ) (hc : c ≠ 0) (hQ : 0 < Q) (nbins : Nat) (sig : List ℝ)
    (hdom : InDomain resp f T0) :
    fdeFreq resp Q f T0 nbins tol (H (F (sig.map (c * ·))))
      = (fdeFreq resp Q f T0 nbins tol (H (F sig))).map (scaleFreq |c|) := by
  rw [hF c sig, hH c (F sig)]
  exact psd_quadratic_scaling_full resp c Q f T0 tol hc hQ nbins _ hdom

/-! ### non-vacuity -/

example : IsLinear (fun y => y) := fun c y => rfl
example : IsLinear (fun y => y.map (2 * ·)) := by
  intro c y; simp only [List.map_map]; apply List.map_congr_left; intro v _; simp only [Function.comp]; ring
example : (counts ([(1, 1 / 2), (2, 1)] : List (Rat × Rat)) [0, 1, 2]) = [3 / 2, 3 / 2, 1] := by decide +kernel

end PyYetiVerif.C10
