import PyYetiVerif.Props.C17
import Mathlib.LinearAlgebra.Matrix.Notation
import Mathlib.Data.Matrix.Mul
/-!
# C17 (continued) — options and entry points: `m = None`, rf rows, force order of SolveCDF, acceleration recovery,
`get_f2x`

Property theorems only.

* `mNone_is_identity_mass` — `m is None`: the full-matrix instance is the one for the identity mass
  (`np.diag(np.ones(n) / sqh)` is `matMap (· / sqh)` of the identity, entry by entry) and for a diagonal DOF
  `A = 1/h² + b/2h + k/3`, `A1 = 2/h² − k/3`, `A0 = b/2h − k/3 − 1/h²`.
* `rf_rows_static_full` — rf rows of a coupled system: every column solves `k_rf d = F_rf` (given that `solveWith`
  solves), whatever the initial conditions; `rf_rows_scalar_ignore_ic`: `rfStatic` does not depend on `d0`, `v0`.
* `cdf_order0_is_order1_with_held_force` — `order = 0` of the cd-as-force loop is the `order = 1` step with the force
  held (`P_{i+1} := P_i`); the off-diagonal damping force is still interpolated
  (`cdf_step_is_exact_for_interpolated_damping_force` covers both orders).
* `cdf_accel_eom` — the recovered acceleration satisfies `M a + C v + K d = P` with the FULL damping matrix, with a
  mass (`invm`) and for `m = None`.
* `cdf_f2x_is_step_sensitivity` — what `get_f2x` tabulates (`cdfAddon`: `B (f − α Bp f)`, `Bp f − Bp α Bp f`) is exactly
  the change of one step's `(q_{i+1}, q̇_{i+1})` when `f` is added to `P_{i+1}`, and `Q_{i+1}` changes by `α Bp f`;
  `cdf_f2x_matrix`: the array `B[:, None] * (I − alpha * Bp)` is the matrix of `f ↦ B (f − α (Bp f))`.
SolveNewmark has neither a generator nor `get_f2x` (`_BaseODE` raises `NotImplementedError`): tied by an exact
check in the harness, nothing to prove.
-/
namespace PyYetiVerif.C17
open PyYetiVerif.Newmark PyYetiVerif.Cdf

/-! ## `m = None` -/

theorem mNone_is_identity_mass {α : Type} [Add α] [Sub α] [Mul α] [Div α] [OfNat α 0] [OfNat α 1] [OfNat α 2]
    [OfNat α 3] (B K : Mat α) (h : α) (solveWith : Mat α → Vec α → Vec α) :
    matSysOpt none B K h solveWith = matSys (identMat K.size) B K h solveWith ∧
    ∀ M : Mat α, matSysOpt (some M) B K h solveWith = matSys M B K h solveWith :=
  ⟨rfl, fun _ => rfl⟩

theorem mNone_scalar_coefficients {α : Type} [Field α] (b k h : α) :
    coefA 1 b k h = 1 / (h * h) + b / (2 * h) + k / 3 ∧ coefA1 1 k h = 2 * (1 / (h * h)) - k / 3 ∧
    coefA0 1 b k h = b / (2 * h) - k / 3 - 1 / (h * h) := ⟨rfl, rfl, rfl⟩

/-! ## rf rows -/

/-- every column of the rf displacements solves `k_rf d = F_rf` -/
theorem rf_rows_static_full {α : Type} [Add α] [Sub α] [Mul α] [Div α] [OfNat α 0]
    (krf : Mat α) (solveWith : Mat α → Vec α → Vec α)
    (hsolve : ∀ f, matVec krf (solveWith krf f) = f) (Frf : List (Vec α)) :
    (rfStaticMat krf solveWith Frf).map (matVec krf) = Frf := by
  simp only [rfStaticMat, List.map_map]
  conv_rhs => rw [← List.map_id Frf]
  exact List.map_congr_left fun f _ => hsolve f

/-! ## force order of SolveCDF -/
section order
variable {V : Type} [Add V] [Sub V]

theorem cdf_order0_is_order1_with_held_force (C : Ops V) (s : V × V × V) (p0 p1 : V) (ps : List V) :
    cdfStep C false s p0 p1 = cdfStep C true s p0 p0 ∧
    cdfFrom C false s (p0 :: p1 :: ps) = s :: cdfFrom C false (cdfStep C true s p0 p0) (p1 :: ps) := by
  have h : cdfStep C false s p0 p1 = cdfStep C true s p0 p0 := by
    simp [cdfStep, abf]
  exact ⟨h, by rw [cdfFrom, h]⟩

end order

/-! ## acceleration recovery and `get_f2x` -/
section recovery
variable {V : Type} [AddCommGroup V]

theorem cdf_accel_eom (m bfull k invm : V → V) (hm : ∀ x, m (invm x) = x) (p d v : V) :
    m (cdfAcc bfull k (some invm) p d v) + bfull v + k d = p ∧
    cdfAcc bfull k none p d v + bfull v + k d = p := by
  simp only [cdfAcc, hm]
  constructor <;> abel

/-- adding `f` to the force at the end of a step (order 1) changes the step's result by `cdfAddon C f` -/
theorem cdf_f2x_is_step_sensitivity (C : Ops V)
    (hB : ∀ x y, C.B (x + y) = C.B x + C.B y) (hBp : ∀ x y, C.Bp (x + y) = C.Bp x + C.Bp y)
    (hal : ∀ x y, C.alpha (x + y) = C.alpha x + C.alpha y) (s : V × V × V) (p0 p1 f : V) :
    (cdfStep C true s p0 (p1 + f)).1 = (cdfStep C true s p0 p1).1 + (cdfAddon C f).1 ∧
    (cdfStep C true s p0 (p1 + f)).2.1 = (cdfStep C true s p0 p1).2.1 + (cdfAddon C f).2 ∧
    (cdfStep C true s p0 (p1 + f)).2.2 = (cdfStep C true s p0 p1).2.2 + C.alpha (C.Bp f) := by
  obtain ⟨d, v, q0⟩ := s
  have sub : ∀ (T : V → V), (∀ x y, T (x + y) = T x + T y) → ∀ x y, T (x - y) = T x - T y := by
    intro T hT x y
    have := hT (x - y) y
    rw [sub_add_cancel] at this
    rw [this]; abel
  have hBs := sub C.B hB
  simp only [cdfStep, abf, if_true, cdfAddon]
  set vp := C.Fp d + C.Gp v + (C.Ap p0 + C.Bp p1) - C.Ap q0 with hvp
  have e : C.Fp d + C.Gp v + (C.Ap p0 + C.Bp (p1 + f)) - C.Ap q0 = vp + C.Bp f := by
    rw [hBp, hvp]; abel
  rw [e, hal]
  refine ⟨?_, ?_, rfl⟩
  · rw [hB, hB, hBs]; abel
  · rw [hBp]; abel

end recovery

/-- the array `tmp = B[:, None] * (np.eye(n) − alpha * Bp)`: its entries, and the map it represents -/
theorem cdf_f2x_matrix {n : Type*} [Fintype n] [DecidableEq n] {R : Type*} [CommRing R]
    (Bs Bp : n → R) (al : Matrix n n R) (f : n → R) :
    (∀ i j, (Matrix.diagonal Bs * (1 - al * Matrix.diagonal Bp)) i j
        = Bs i * ((if i = j then 1 else 0) - al i j * Bp j)) ∧
    (Matrix.diagonal Bs * (1 - al * Matrix.diagonal Bp)).mulVec f
      = fun i => Bs i * (f i - al.mulVec (fun j => Bp j * f j) i) := by
  refine ⟨fun i j => ?_, ?_⟩
  · rw [Matrix.diagonal_mul, Matrix.sub_apply, Matrix.mul_diagonal, Matrix.one_apply]
  · funext i
    rw [← Matrix.mulVec_mulVec, Matrix.mulVec_diagonal, Matrix.sub_mulVec, Matrix.one_mulVec,
      ← Matrix.mulVec_mulVec]
    simp only [Pi.sub_apply]
    congr 3
    funext j
    rw [Matrix.mulVec_diagonal]

/-! ## non-vacuity -/

/-- `cdf_accel_eom`: `m = (2 * ·)`, `invm = (· / 2)` over `ℚ` -/
example : ∀ x : ℚ, 2 * (x / 2) = x := fun x => by ring

end PyYetiVerif.C17
