import PyYetiVerif.Lemmas.Op4
import PyYetiVerif.Lemmas.Op4File
/-!
# C04 — OUTPUT4 write followed by read is the identity

Property theorems only (helper lemmas live in `Lemmas/Op4.lean`).  The model
`PyYetiVerif.Op4` (Model/Op4.lean) is tied to pyyeti/nastran/op4.py by the constants translator
(`Generated/Op4Consts.lean`) and by exact correspondence of written bytes / text, decoded values
and listings (harness/props/c04.py).

Reading of the property.  A column of a matrix is a `List Entry`; an element is a pair of IEEE bit
patterns.  "Identical values" is `canonCol`: what was written comes back bit for bit, except that an
element equal to zero (`±0.0`, both parts for complex) that lies outside every written string
comes back as `+0.0`, and a real matrix has no imaginary part.  The theorems are at the level of
the 32-bit word stream of one column record (either byte order); `bytes_roundtrip` and
`double_words_roundtrip` carry this down to bytes.

The two places where the unchanged code does **not** satisfy the property are explicit:
* `pack_fits_i32`: the packed nonbigmat string header fits `struct.pack('i', …)` iff
  `L + 1 < 32768`; `nonbigmat_overflow_example` is the 16384-row real string (finding F2);
* `fmtE_width`: a formatted value has the announced width `digits + 7` iff it is not a negative
  value with a three-digit exponent; `ascii_overflow_example` is `-2.5e-120` (finding F3).
-/
namespace PyYetiVerif.C04
open PyYetiVerif.Op4 PyYetiVerif.Generated.Op4Consts

/-- `_sparse_col_stats`: the runs concatenate to the input (so they partition it in order), every
run is non-empty, and the lengths add up to the number of indices. -/
theorem colStats_spec (r : List Nat) :
    expand (colStats r) = r ∧ (∀ p ∈ colStats r, 1 ≤ p.2) ∧
      ((colStats r).map (·.2)).sum = r.length :=
  ⟨expand_colStats r, colStats_pos r, colStats_sum r⟩

/-- the runs are maximal: a run never continues where the previous one stops -/
theorem colStats_maximal (r : List Nat) : Maximal (colStats r) := colStats_maximal' r

/-- the word count announced in the column header is exactly what the reader's
`nwords -= L + 1` (nonbigmat) / `nwords -= L + 2` (bigmat) loop subtracts, so it ends at zero -/
theorem nwords_consumed (cplx : Bool) (ss : List (Nat × List Entry)) :
    nwordsNonbig cplx ss = (ss.map fun s => s.2.length * 2 * mult cplx + 1).sum ∧
      nwordsBig cplx ss = (ss.map fun s => s.2.length * 2 * mult cplx + 2).sum := by
  induction ss with
  | nil => simp [nwordsNonbig, nwordsBig, sumLens]
  | cons s t ih =>
    rw [nwordsNonbig_cons, nwordsBig_cons, ih.1, ih.2]
    simp only [List.map_cons, List.sum_cons]
    exact ⟨trivial, trivial⟩

/-- unpacking a packed string header gives back row and length, for all lengths -/
theorem unpack_pack (irow L : Nat) (_h₁ : 1 ≤ irow) (h₂ : irow < 65536) :
    unpackIS (packIS irow L) = (irow, L) := unpack_pack' irow L h₂

/-- `struct.pack('i', IS)` succeeds iff `L + 1 < 32768` — the hypothesis *is* the boundary -/
theorem pack_fits_i32 (irow L : Nat) (h₁ : 1 ≤ irow) (h₂ : irow < 65536) :
    packIS irow L < 2 ^ 31 ↔ L + 1 < 32768 := by
  unfold packIS isShiftW
  simp only [Nat.shiftLeft_eq]
  omega

/-- nonbigmat: the strings of a column record decode to the column (rows < 65536, the layout's
domain; no hypothesis on the string lengths is needed at word level) -/
theorem column_roundtrip_nonbigmat (e : Endian) (cplx : Bool) (col : List Entry) (rest : List Nat)
    (hrows : col.length < rows4bigmat) :
    decodeColNonbig e cplx col.length (nwordsNonbig cplx (strings cplx col))
        ((strings cplx col).flatMap (nonbigStringWords e cplx) ++ rest)
      = some (canonCol cplx col, rest) :=
  decodeColNonbig_enc e cplx col rest hrows

/-- bigmat: the strings of a column record decode to the column (any number of rows) -/
theorem column_roundtrip_bigmat (e : Endian) (cplx : Bool) (col : List Entry) (rest : List Nat) :
    decodeColBig e cplx col.length (nwordsBig cplx (strings cplx col))
        ((strings cplx col).flatMap (bigStringWords e cplx) ++ rest)
      = some (canonCol cplx col, rest) :=
  decodeColBig_enc e cplx col rest

/-- dense: the column record written for a column whose non-zero rows are `s :: tl` (first `s`,
last `getLast`) is `[reclen, c+1, s+1, 2·elems] ++ values ++ [reclen]`, and its payload decodes to
a column of the same length in which every non-zero element is the written one bit for bit and
every zero element (`±0.0`) is a zero; the hypothesis `nzIdx … = s :: tl` only says that the column
is not all zero (an all-zero column writes no record). -/
theorem column_roundtrip_dense (e : Endian) (cplx : Bool) (c : Nat) (col : List Entry) (rest : List Nat)
    (s : Nat) (tl : List Nat) (h : nzIdx cplx col = s :: tl) :
    let seg := denseSeg col s tl
    let elems := seg.length * mult cplx
    encColDense e cplx c col
        = [3 * 4 + elems * 8, c + 1, s + 1, 2 * elems] ++ valWords e cplx seg ++ [3 * 4 + elems * 8] ∧
    ∃ X, decodeColDense e cplx col.length (s + 1) (2 * elems) (valWords e cplx seg ++ rest) = some (X, rest) ∧
      X.length = col.length ∧
      ∀ (i : Nat) (x : Entry), col[i]? = some x → ∃ y : Entry, X[i]? = some y ∧
        (x.isZero cplx = false → y = normE cplx x) ∧ (x.isZero cplx = true → y.isZero cplx = true) :=
  ⟨encColDense_eq e cplx c col s tl h, decodeColDense_enc e cplx col rest s tl h⟩

/-- a valid name (identifier of at most 8 ASCII characters) comes back lower-cased -/
theorem name_roundtrip (count : Nat) (name : List Nat) (hid : isIdent name = true)
    (hlen : name.length ≤ 8) : checkName count (nameField name) = name.map lowerB :=
  checkName_nameField count name hid hlen

/-- the nonbigmat writer fails (`struct.error`) exactly when some string does not fit -/
theorem nonbigmat_writes_iff (e : Endian) (m : Mat) :
    (encMatWords e .nonbigmat m).isSome ↔ m.cols.all (stringsFit m.cplx) = true := by
  unfold encMatWords
  split <;> simp_all

/-- F2: a real string of 16384 rows starting at row 1 does not fit, 16383 rows do -/
theorem nonbigmat_overflow_example :
    fitsI32 (packIS 1 (16384 * 2 * mult false)) = false ∧
      fitsI32 (packIS 1 (16383 * 2 * mult false)) = true ∧
      fitsI32 (packIS 1 (8192 * 2 * mult true)) = false := by
  decide

/-- a double survives the trip through its two file words, in either byte order -/
theorem double_words_roundtrip (e : Endian) (ds rest : List Nat) :
    takeDs e ds.length (ds.flatMap (dWords e) ++ rest) = some (ds, rest) :=
  takeDs_flatMap e ds rest

/-- words survive the trip through bytes, in either byte order -/
theorem bytes_roundtrip (e : Endian) (ws : List Nat) (h : ∀ w ∈ ws, w < 2 ^ 32) :
    wordsOfBytes e (bytesOfWords e ws) = ws := by
  induction ws with
  | nil => rfl
  | cons w t ih =>
    have hw := h w (List.mem_cons_self)
    have ht := ih fun x hx => h x (List.mem_cons_of_mem _ hx)
    unfold bytesOfWords at ht ⊢
    cases e <;>
      simp only [List.flatMap_cons, wordBytes, List.cons_append, List.nil_append, wordsOfBytes, ht,
        bytesWord, List.cons.injEq, and_true] <;> omega

/-- width of `'%{digits+7}.{digits}E' % x` for a finite double: the announced field width
`digits + 7` unless the value is negative with a three-digit exponent, and then it is one more -/
theorem fmtE_width (d b : Nat) (hd : 1 ≤ d) :
    ((fmtE d b).length = d + 7 ↔ ¬ ((sci d b).neg = true ∧ 100 ≤ (sci d b).e10.natAbs)) ∧
      ((sci d b).neg = true ∧ 100 ≤ (sci d b).e10.natAbs → (fmtE d b).length = d + 8) := by
  have he := sci_e10_bound d b
  unfold fmtE numlen numlenBase expdigits
  rw [length_padLeft, sciChars_length d _ hd he]
  cases (sci d b).neg <;> by_cases h : (sci d b).e10.natAbs < 100 <;> simp [h] <;> omega

/-- F3: `-2.5e-120` with 16 digits is 24 characters in a 23-character field; `2.5e-120` fits -/
theorem ascii_overflow_example :
    (sci 16 0xA719D28F47B4D525).neg = true ∧ (sci 16 0xA719D28F47B4D525).e10 = -120 := by
  decide +kernel

/-- the binary writer succeeds exactly when every string of every matrix written in the nonbigmat
layout fits its packed header (`stringsFit`, i.e. `L + 1 < 32768` by `pack_fits_i32`); otherwise
`struct.pack` raises (finding F2) -/
theorem file_writes_iff (e : Endian) (ms : List (Layout × Mat)) :
    (encFileWords e ms).isSome = true ↔
      ∀ p ∈ ms, p.1 = .nonbigmat → p.2.cols.all (stringsFit p.2.cplx) = true :=
  encFileWords_isSome e ms

/-- **Whole files.**  For every list of matrices (each with the layout `write` resolved for it),
either byte order: if the writer produces the word stream `ws` (for the nonbigmat layout this is
the hypothesis that every string fits, `file_writes_iff`), the reader `rdFile` decodes `ws` to
exactly one `Dec` per matrix, in file order, and each `Dec` carries the written name field, the
row count (negated for bigmat), column count, form and type, and puts that rebuild — by
`applyPuts`, the dense read — the columns `decCol` of the written matrix (`decCol_spec`: identical
values up to the sign of zeros outside the written strings).
Hypotheses (`Mat.Wf`): every column has `rows` entries, `rows < 2^28`, fewer than `2^31 - 1`
columns, `form < 2^31`, name bytes below 256; nonbigmat only below 65536 rows (above, `write`
switches to bigmat: `resolveLayout`). -/
theorem file_roundtrip_binary (e : Endian) (ms : List (Layout × Mat)) (ws : List Nat)
    (hw : ∀ p ∈ ms, p.2.Wf ∧ (p.1 = .nonbigmat → p.2.rows < rows4bigmat))
    (henc : encFileWords e ms = some ws) :
    ∃ ds, rdFile e (ws.length + 1) ws = some ds ∧ DecsOf ms ds :=
  rdFile_enc e ms ws (ws.length + 1) henc (by have := encFileWords_length e ms ws henc; omega) hw

/-- what the rebuilt column is: same length; a non-zero element is the written one bit for bit
(a real matrix has no imaginary part); a zero element (`±0.0`) is a zero; and in the two sparse
layouts it is exactly `canonCol` (every unwritten zero is `+0.0`) -/
theorem decCol_spec (lay : Layout) (cplx : Bool) (col : List Entry) :
    (decCol lay cplx col).length = col.length ∧
      (∀ (i : Nat) (x : Entry), col[i]? = some x → ∃ y : Entry, (decCol lay cplx col)[i]? = some y ∧
        (x.isZero cplx = false → y = normE cplx x) ∧ (x.isZero cplx = true → y.isZero cplx = true)) ∧
      (lay ≠ .dense → decCol lay cplx col = canonCol cplx col) :=
  ⟨decCol_length lay cplx col, decCol_entry lay cplx col, decCol_sparse lay cplx col⟩

/-- non-vacuity of `file_roundtrip_binary`: a two-matrix file that the writer accepts -/
example :
    let m1 : Mat := { name := [97], form := 2, cplx := false, rows := 3,
                      cols := [[(0, 0), (1, 0), (2, 0)], [(0, 0), (0, 0), (0, 0)]] }
    let m2 : Mat := { name := [98, 50], form := 1, cplx := true, rows := 1, cols := [[(5, 6)]] }
    (encFileWords .big [(.nonbigmat, m1), (.bigmat, m2)]).isSome = true ∧ m1.cols.all (stringsFit m1.cplx) = true := by
  decide

/-- non-vacuity of `column_roundtrip_dense` and `name_roundtrip` -/
example : nzIdx false [(0, 0), (7, 0), (9223372036854775808, 0), (8, 0), (0, 0)] = 1 :: [3] ∧
    isIdent [75, 97, 95, 49] = true ∧ checkName 0 (nameField [75, 97, 95, 49]) = [107, 97, 95, 49] := by
  decide

/-- non-vacuity: a column with two strings, encoded and decoded in both sparse layouts -/
example :
    let col : List Entry := [(0, 0), (1, 0), (2, 0), (0, 0), (9223372036854775808, 0), (3, 0)]
    strings false col = [(1, [(1, 0), (2, 0)]), (5, [(3, 0)])] ∧
      canonCol false col = [(0, 0), (1, 0), (2, 0), (0, 0), (0, 0), (3, 0)] := by
  decide

end PyYetiVerif.C04
