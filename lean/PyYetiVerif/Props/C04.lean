import PyYetiVerif.Lemmas.Op4
import PyYetiVerif.Lemmas.Op4File
import PyYetiVerif.Lemmas.Op4Bytes
import PyYetiVerif.Lemmas.Op4AsciiPuts
import PyYetiVerif.Lemmas.Op4AsciiHalf
import PyYetiVerif.Lemmas.Op4Coo
import PyYetiVerif.Lemmas.Op4Input
import PyYetiVerif.Lemmas.Op4ReadBack
import PyYetiVerif.Lemmas.Op4AsciiDir
import PyYetiVerif.Lemmas.Op4AsciiCoo
/-!
# C04 — OUTPUT4 write followed by read is the identity

Property theorems only (helper lemmas live in `Lemmas/Op4*.lean`).  The models — `PyYetiVerif.Op4`
(Model/Op4.lean: both writers, the binary reader, `%E`) and `PyYetiVerif.Op4A` (Model/Op4Ascii.lean:
the ASCII reader) — are tied to pyyeti/nastran/op4.py by the constants translator
(`Generated/Op4Consts.lean`) and by exact correspondence of written bytes / text, decoded values,
listings, single fields and blocks (harness/props/c04.py).

Reading of the property.  A column of a matrix is a `List Entry`; an element is a pair of IEEE bit
patterns.  "Identical values" for binary is `decCol`/`canonCol`: what was written comes back bit for
bit, except that an element equal to zero (`±0.0`, both parts for complex) that lies outside every
written string comes back as `+0.0`, and a real matrix has no imaginary part.  The column theorems are
at the level of the 32-bit word stream of one column record (either byte order), `file_roundtrip_binary`
at the level of the word stream of a file, `file_roundtrip_bytes` at the level of bytes with names and
format detection.  For ASCII see the second half of the file.

Findings F2 and F3 are repaired in /repo (27f7d6b, 7ee1407); what they were stays visible:
* `pack_fits_i32`: a packed nonbigmat string header fits `struct.pack('i', …)` iff `L + 1 < 32768`;
  `nonbigmat_overflow_example` is the 16384-row real string (finding F2).  The writer now splits such a string
  (`_split_strings`): the writer model is `encMatWordsFx` of Model/Op4Fixed.lean and the whole-file theorems for it are in
  Props/C04Fix.lean (`file_writes_fixed`, `file_roundtrip_binary_domain_fixed`, `file_roundtrip_bytes_domain_fixed`);
  `encMatWords` below is the encoder without the split, which is the writer whenever no string exceeds
  `16383 // multiplier` rows (`writer_eq_unsplit`), and `file_writes_iff` says where that encoder is defined;
* (repaired in /repo, fix 7ee1407; the model follows the repaired code) `fmtE_width`: `fmt % x` has the announced width
  `digits + 7` iff it is not a negative value with a three-digit exponent (`ascii_overflow_example`: `-2.5e-120`, finding
  F3); `numform(x)` prints such a value with one digit less and always has the announced width.
(Finding F49 — the record length of a scipy.sparse input in the binary dense layout was computed in numpy int32
scalars and wrapped from a 2 GiB column record on — is repaired in /repo (`s = int(…)`, `e = int(…)`): the model
follows the repaired code, `write_sparse_eq_write_dense` holds without any size hypothesis, and the oracle
`_oracle_f49` of the thorough tier guards the regression.)

Second half of the file (after the ASCII half): the writer's true domain (`write_domain`,
`file_roundtrip_binary_domain`), the sparse views of the readers (`coo_view_correct`, `sparse_auto_rule`, ASCII:
`sparse_views_ascii`), sparse inputs (`write_sparse_eq_write_dense`), `write` on its arguments
(`write_input_normalised`), `float(decimal)` (`read_back_bits*`), `dir` on ASCII files (`dir_matches_load_ascii`).
-/
namespace PyYetiVerif.C04
open PyYetiVerif.Op4 PyYetiVerif.Op4A PyYetiVerif.Generated.Op4Consts

/-- `_sparse_col_stats`: the runs concatenate to the input (so they partition it in order), every
run is non-empty, and the lengths add up to the number of indices. -/
theorem colStats_spec (r : List Nat) :
    expand (colStats r) = r ∧ (∀ p ∈ colStats r, 1 ≤ p.2) ∧
      ((colStats r).map (·.2)).sum = r.length :=
  ⟨expand_colStats r, colStats_pos r, colStats_sum r⟩

/-- the runs are maximal: a run never continues where the previous one stops -/
theorem colStats_maximal (r : List Nat) : Maximal (colStats r) := colStats_maximal' r

/-- the word count announced in the column header is exactly what the reader's
`nwords -= L + 1` (nonbigmat) / `nwords -= L + 2` (bigmat) loop subtracts, so it ends at zero -/
theorem nwords_consumed (cplx : Bool) (ss : List (Nat × List Entry)) :
    nwordsNonbig cplx ss = (ss.map fun s => s.2.length * 2 * mult cplx + 1).sum ∧
      nwordsBig cplx ss = (ss.map fun s => s.2.length * 2 * mult cplx + 2).sum := by
  induction ss with
  | nil => simp [nwordsNonbig, nwordsBig, sumLens]
  | cons s t ih =>
    rw [nwordsNonbig_cons, nwordsBig_cons, ih.1, ih.2]
    simp only [List.map_cons, List.sum_cons]
    exact ⟨trivial, trivial⟩

/-- unpacking a packed string header gives back row and length, for all lengths -/
theorem unpack_pack (irow L : Nat) (_h₁ : 1 ≤ irow) (h₂ : irow < 65536) :
    unpackIS (packIS irow L) = (irow, L) := unpack_pack' irow L h₂

/-- `struct.pack('i', IS)` succeeds iff `L + 1 < 32768` — the hypothesis *is* the boundary -/
theorem pack_fits_i32 (irow L : Nat) (h₁ : 1 ≤ irow) (h₂ : irow < 65536) :
    packIS irow L < 2 ^ 31 ↔ L + 1 < 32768 := by
  unfold packIS isShiftW
  simp only [Nat.shiftLeft_eq]
  omega

/-- nonbigmat: the strings of a column record decode to the column (rows < 65536, the layout's
domain; no hypothesis on the string lengths is needed at word level) -/
theorem column_roundtrip_nonbigmat (e : Endian) (cplx : Bool) (col : List Entry) (rest : List Nat)
    (hrows : col.length < rows4bigmat) :
    decodeColNonbig e cplx col.length (nwordsNonbig cplx (strings cplx col))
        ((strings cplx col).flatMap (nonbigStringWords e cplx) ++ rest)
      = some (canonCol cplx col, rest) :=
  decodeColNonbig_enc e cplx col rest hrows

/-- bigmat: the strings of a column record decode to the column (any number of rows) -/
theorem column_roundtrip_bigmat (e : Endian) (cplx : Bool) (col : List Entry) (rest : List Nat) :
    decodeColBig e cplx col.length (nwordsBig cplx (strings cplx col))
        ((strings cplx col).flatMap (bigStringWords e cplx) ++ rest)
      = some (canonCol cplx col, rest) :=
  decodeColBig_enc e cplx col rest

/-- dense: the column record written for a column whose non-zero rows are `s :: tl` (first `s`,
last `getLast`) is `[reclen, c+1, s+1, 2·elems] ++ values ++ [reclen]`, and its payload decodes to
a column of the same length in which every non-zero element is the written one bit for bit and
every zero element (`±0.0`) is a zero; the hypothesis `nzIdx … = s :: tl` only says that the column
is not all zero (an all-zero column writes no record). -/
theorem column_roundtrip_dense (e : Endian) (cplx : Bool) (c : Nat) (col : List Entry) (rest : List Nat)
    (s : Nat) (tl : List Nat) (h : nzIdx cplx col = s :: tl) :
    let seg := denseSeg col s tl
    let elems := seg.length * mult cplx
    encColDense e cplx c col
        = [3 * 4 + elems * 8, c + 1, s + 1, 2 * elems] ++ valWords e cplx seg ++ [3 * 4 + elems * 8] ∧
    ∃ X, decodeColDense e cplx col.length (s + 1) (2 * elems) (valWords e cplx seg ++ rest) = some (X, rest) ∧
      X.length = col.length ∧
      ∀ (i : Nat) (x : Entry), col[i]? = some x → ∃ y : Entry, X[i]? = some y ∧
        (x.isZero cplx = false → y = normE cplx x) ∧ (x.isZero cplx = true → y.isZero cplx = true) :=
  ⟨encColDense_eq e cplx c col s tl h, decodeColDense_enc e cplx col rest s tl h⟩

/-- a valid name (identifier of at most 8 ASCII characters) comes back lower-cased -/
theorem name_roundtrip (count : Nat) (name : List Nat) (hid : isIdent name = true)
    (hlen : name.length ≤ 8) : checkName count (nameField name) = name.map lowerB :=
  checkName_nameField count name hid hlen

/-- the nonbigmat writer fails (`struct.error`) exactly when some string does not fit -/
theorem nonbigmat_writes_iff (e : Endian) (m : Mat) :
    (encMatWords e .nonbigmat m).isSome ↔ m.cols.all (stringsFit m.cplx) = true := by
  unfold encMatWords
  split <;> simp_all

/-- F2: a real string of 16384 rows starting at row 1 does not fit, 16383 rows do -/
theorem nonbigmat_overflow_example :
    fitsI32 (packIS 1 (16384 * 2 * mult false)) = false ∧
      fitsI32 (packIS 1 (16383 * 2 * mult false)) = true ∧
      fitsI32 (packIS 1 (8192 * 2 * mult true)) = false := by
  decide

/-- a double survives the trip through its two file words, in either byte order -/
theorem double_words_roundtrip (e : Endian) (ds rest : List Nat) :
    takeDs e ds.length (ds.flatMap (dWords e) ++ rest) = some (ds, rest) :=
  takeDs_flatMap e ds rest

/-- words survive the trip through bytes, in either byte order -/
theorem bytes_roundtrip (e : Endian) (ws : List Nat) (h : ∀ w ∈ ws, w < 2 ^ 32) :
    wordsOfBytes e (bytesOfWords e ws) = ws := by
  induction ws with
  | nil => rfl
  | cons w t ih =>
    have hw := h w (List.mem_cons_self)
    have ht := ih fun x hx => h x (List.mem_cons_of_mem _ hx)
    unfold bytesOfWords at ht ⊢
    cases e <;>
      simp only [List.flatMap_cons, wordBytes, List.cons_append, List.nil_append, wordsOfBytes, ht,
        bytesWord, List.cons.injEq, and_true] <;> omega

/-- width of `'%{digits+7}.{digits}E' % x` (`fmtE0`, the first attempt of `numform`) for a finite double: the
announced field width `digits + 7` unless the value is negative with a three-digit exponent (`Wide`), and then it is
one more — the defect of finding F3, which `numform` repairs by printing such a value with one digit less:
`numform(x)` (`fmtE`) is exactly `digits + 7` wide for EVERY finite double, and is `fmt % x` for a value that fits -/
theorem fmtE_width (d b : Nat) (hd : 1 ≤ d) :
    (fmtE d b).length = d + 7 ∧ (Wide d b = false → fmtE d b = fmtE0 d b ∧ (fmtE0 d b).length = d + 7) ∧
      (Wide d b = true → (fmtE0 d b).length = d + 8 ∧
        fmtE d b = padLeft (numlen d) (sciChars (d - 1) (sci (d - 1) b))) := by
  have hn : numlen d = d + 7 := by unfold numlen numlenBase expdigits; omega
  refine ⟨by rw [fmtE_length d b hd, hn], ?_, ?_⟩
  · intro h
    refine ⟨by rw [fmtE_eq d b hd, h]; rfl, by rw [fmtE0_length_narrow d b hd h, hn]⟩
  · intro h
    refine ⟨?_, by rw [fmtE_eq d b hd, h]; rfl⟩
    have he := sci_e10_bound d b
    unfold Wide at h
    simp only [Bool.and_eq_true, decide_eq_true_eq] at h
    unfold fmtE0 numlen numlenBase expdigits
    rw [length_padLeft, sciChars_length d _ hd he]
    have h2 : ¬ (sci d b).e10.natAbs < 100 := by omega
    simp [h.1, h2]; omega

/-- `-2.5e-120` with 16 digits is `Wide` (24 characters in a 23-character field: the failing input of F3); it is
printed with 15 digits -/
theorem ascii_overflow_example :
    (sci 16 0xA719D28F47B4D525).neg = true ∧ (sci 16 0xA719D28F47B4D525).e10 = -120 ∧
      Wide 16 0xA719D28F47B4D525 = true := by
  decide +kernel

/-- the binary writer succeeds exactly when every string of every matrix written in the nonbigmat
layout fits its packed header (`stringsFit`, i.e. `L + 1 < 32768` by `pack_fits_i32`); otherwise
`struct.pack` raises (finding F2) -/
theorem file_writes_iff (e : Endian) (ms : List (Layout × Mat)) :
    (encFileWords e ms).isSome = true ↔
      ∀ p ∈ ms, p.1 = .nonbigmat → p.2.cols.all (stringsFit p.2.cplx) = true :=
  encFileWords_isSome e ms

/-- **Whole files.**  For every list of matrices (each with the layout `write` resolved for it),
either byte order: if the writer produces the word stream `ws` (for the nonbigmat layout this is
the hypothesis that every string fits, `file_writes_iff`), the reader `rdFile` decodes `ws` to
exactly one `Dec` per matrix, in file order, and each `Dec` carries the written name field, the
row count (negated for bigmat), column count, form and type, and puts that rebuild — by
`applyPuts`, the dense read — the columns `decCol` of the written matrix (`decCol_spec`: identical
values up to the sign of zeros outside the written strings).
Hypotheses (`Mat.Wf`): every column has `rows` entries, `rows < 2^28`, fewer than `2^31 - 1`
columns, `form < 2^31`, name bytes below 256; nonbigmat only below 65536 rows (above, `write`
switches to bigmat: `resolveLayout`). -/
theorem file_roundtrip_binary (e : Endian) (ms : List (Layout × Mat)) (ws : List Nat)
    (hw : ∀ p ∈ ms, p.2.Wf ∧ (p.1 = .nonbigmat → p.2.rows < rows4bigmat))
    (henc : encFileWords e ms = some ws) :
    ∃ ds, rdFile e (ws.length + 1) ws = some ds ∧ DecsOf ms ds :=
  rdFile_enc e ms ws (ws.length + 1) henc (by have := encFileWords_length e ms ws henc; omega) hw

/-- what the rebuilt column is: same length; a non-zero element is the written one bit for bit
(a real matrix has no imaginary part); a zero element (`±0.0`) is a zero; and in the two sparse
layouts it is exactly `canonCol` (every unwritten zero is `+0.0`) -/
theorem decCol_spec (lay : Layout) (cplx : Bool) (col : List Entry) :
    (decCol lay cplx col).length = col.length ∧
      (∀ (i : Nat) (x : Entry), col[i]? = some x → ∃ y : Entry, (decCol lay cplx col)[i]? = some y ∧
        (x.isZero cplx = false → y = normE cplx x) ∧ (x.isZero cplx = true → y.isZero cplx = true)) ∧
      (lay ≠ .dense → decCol lay cplx col = canonCol cplx col) :=
  ⟨decCol_length lay cplx col, decCol_entry lay cplx col, decCol_sparse lay cplx col⟩

/-- non-vacuity of `file_roundtrip_binary`: a two-matrix file that the writer accepts -/
example :
    let m1 : Mat := { name := [97], form := 2, cplx := false, rows := 3,
                      cols := [[(0, 0), (1, 0), (2, 0)], [(0, 0), (0, 0), (0, 0)]] }
    let m2 : Mat := { name := [98, 50], form := 1, cplx := true, rows := 1, cols := [[(5, 6)]] }
    (encFileWords .big [(.nonbigmat, m1), (.bigmat, m2)]).isSome = true ∧ m1.cols.all (stringsFit m1.cplx) = true := by
  decide

/-- non-vacuity of `column_roundtrip_dense` and `name_roundtrip` -/
example : nzIdx false [(0, 0), (7, 0), (9223372036854775808, 0), (8, 0), (0, 0)] = 1 :: [3] ∧
    isIdent [75, 97, 95, 49] = true ∧ checkName 0 (nameField [75, 97, 95, 49]) = [107, 97, 95, 49] := by
  decide

/-- non-vacuity: a column with two strings, encoded and decoded in both sparse layouts -/
example :
    let col : List Entry := [(0, 0), (1, 0), (2, 0), (0, 0), (9223372036854775808, 0), (3, 0)]
    strings false col = [(1, [(1, 0), (2, 0)]), (5, [(3, 0)])] ∧
      canonCol false col = [(0, 0), (1, 0), (2, 0), (0, 0), (0, 0), (3, 0)] := by
  decide

/-- **Whole files, at the level of bytes.**  `file_roundtrip_binary`, `bytes_roundtrip`,
`name_roundtrip` and the format detection composed into one statement about `op4.write` followed by
`op4.load(into='list', sparse=False)`: if the binary writer produces the byte string `bytes` for a
non-empty list of matrices (either byte order, every matrix with its resolved layout), then the
reader — `_decode_format` on the first bytes, 32-bit words from the bytes, `_loadop4_binary` until
the end of the file, `_check_name`, the puts applied to zero matrices — returns exactly
`canonFile ms`: per matrix, in file order, the lower-cased name, the shape, form and type, and the
columns `decCol` (`decCol_spec`: bit-identical values; `-0.0` outside the written strings reads as
`+0.0`).  Hypotheses (`Mat.WfB`): `Mat.Wf` with `rows < 2^27`, a valid name of at most 8 characters,
elements that are 64-bit patterns; nonbigmat only below 65536 rows.  (An empty list of matrices
writes an empty file, which `op4.load` refuses: `decodeBytes [] = none`.) -/
theorem file_roundtrip_bytes (e : Endian) (ms : List (Layout × Mat)) (bytes : List Nat) (hne : ms ≠ [])
    (hw : ∀ p ∈ ms, p.2.WfB ∧ (p.1 = .nonbigmat → p.2.rows < rows4bigmat))
    (henc : encFileBytes e ms = some bytes) :
    decodeBytes bytes = some (canonFile ms) := by
  unfold encFileBytes at henc
  cases hws : encFileWords e ms with
  | none => rw [hws] at henc; cases henc
  | some ws =>
    rw [hws] at henc
    simp only [Option.map_some, Option.some.injEq] at henc
    subst henc
    have hlt := encFileWords_lt32 e ms ws (fun p hp => (hw p hp).1) hws
    obtain ⟨ds, hds, hdecs⟩ := file_roundtrip_binary e ms ws (fun p hp => ⟨(hw p hp).1.wf, (hw p hp).2⟩) hws
    -- the first word is the record length of the header record
    obtain ⟨ws', hws'⟩ : ∃ ws', ws = 24 :: ws' := by
      cases ms with
      | nil => exact absurd rfl hne
      | cons p t =>
        obtain ⟨lay, m⟩ := p
        simp only [encFileWords] at hws
        cases ha : encMatWords e lay m with
        | none => simp [ha] at hws
        | some a =>
          cases hb : encFileWords e t with
          | none => simp [ha, hb] at hws
          | some b =>
            simp only [ha, hb, Option.bind_eq_bind, Option.bind_some, Option.some.injEq] at hws
            rw [← hws, encMatWords_eq e lay m a ha]
            simp only [headerWords, hdrReclen, List.cons_append, List.append_assoc]
            exact ⟨_, rfl⟩
    unfold decodeBytes
    rw [hws', decodeFormat_enc e ws', ← hws']
    simp only [wordsOfBytes_bytesOfWords e ws hlt, hds]
    exact toRMats_decs ms ds 0 hdecs fun p hp => ⟨(hw p hp).1.name_ident, (hw p hp).1.name_len⟩

/-- an empty file is refused (`RuntimeError: … is empty or nearly empty`): the round trip needs at
least one matrix -/
theorem empty_file_refused : decodeBytes [] = none ∧ encFileBytes .little [] = some [] := by
  decide

/-! ## The ASCII half

The reader model is `PyYetiVerif.Op4A` (Model/Op4Ascii.lean): the file is cut into its lines
(`linesOf`), integers are read by `pyInt?`, a value field by `pyFloat?`, whose result `Dec10` is the
*exact decimal the field denotes* `(-1)^neg · man · 10^exp`.  "Identical values to the requested
number of digits" is therefore two statements: the decimal read back **is** the decimal printed
(`file_roundtrip_ascii`, `ascii_entry_spec`: `decOf d x = (sign, the d+1 digit mantissa, e10 - d)`),
and the decimal printed is within half a unit of its last digit of the double (`ascii_value_half_unit`,
with `sci_mantissa_digits`: the mantissa really has `d + 1` digits, so `e10` is the decimal exponent).
Every written value fits its field: a negative value with a three-digit exponent (`Wide`) is printed with one digit less
(repair of finding F3: `fmtE_width`, `ascii_overflow_example`), so `decOf d b` is `decOf0 (d - 1) b` for it. -/

/-- the writer's value lines are exactly `chunkLines`: the fields, `perline` to a line, every line
terminated (so whatever follows starts a new line) -/
theorem value_lines (d : Nat) (hp : 1 ≤ perline d) (ds : List Nat) (tail : List Char) :
    linesOf (valueLines d ds.length ds ++ tail)
      = chunkLines (perline d) ds.length (ds.map (fmtE d)) ++ linesOf tail :=
  valLines_isLines d hp ds tail

/-- **ascii_slicing.**  For every field width `numlen ≥ 1`, every `perline ≥ 1` and every list of
fields of that width (any count: the last line may be partial, and the list may be empty), written
`perline` to a line: `_get_ascii_block` consumes exactly those lines and the reader's slices
`s[0:n], s[n:2n], …` of the block are exactly the written fields (with `D → E` applied when the
file is in D format). -/
theorem ascii_slicing (g : Cfg) (hw : 1 ≤ g.numlen) (hp : 1 ≤ g.perline) (fs : List (List Char)) (rest : List (List Char))
    (hwidth : ∀ f ∈ fs, f.length = g.numlen) (hD : g.dformat = true → ∀ f ∈ fs, ∀ c ∈ f, c ≠ 'D') :
    fields g.numlen fs.length (getBlock g fs.length (chunkLines g.perline fs.length fs ++ rest)).1 = fs ∧
      (getBlock g fs.length (chunkLines g.perline fs.length fs ++ rest)).2 = rest := by
  have hf := fields_chunkLines g.numlen g.perline hw hp fs.length fs (Nat.le_refl _) hwidth
  cases hdf : g.dformat with
  | false =>
    have hb := getBlock_chunkLines g hp fs.length fs rest (Nat.le_refl _)
    have hg : g = { g with dformat := false } := by cases g; simp_all
    rw [← hg] at hb
    rw [hb]; exact ⟨hf, rfl⟩
  | true =>
    have hb := getBlock_chunkLines' g hp fs.length fs rest (Nat.le_refl _) (hD hdf)
    rw [hb]; exact ⟨hf, rfl⟩

/-- the width hypothesis of `ascii_slicing` holds for every printed value (F3 repaired) -/
theorem fits_iff_width (d b : Nat) (hd : 1 ≤ d) : (fmtE d b).length = numlen d := fmtE_length d b hd

/-- **ascii_column_roundtrip_dense**: the values of a dense column record (any segment, real or
complex) come back as the printed decimals, in order, and exactly the value lines are consumed -/
theorem ascii_column_roundtrip_dense (g : Cfg) (d : Nat) (cplx : Bool) (hg : GoodCfg g d cplx) (hd : 1 ≤ d)
    (hp : 1 ≤ perline d) (seg : List Entry) (rest : List (List Char)) :
    ∃ blk, getBlock g (segDs cplx seg).length (valLines d (segDs cplx seg) ++ rest) = (blk, rest) ∧
      readVals g blk (segDs cplx seg).length = some (seg.map (aEntry d cplx)) :=
  readVals_valLines g d cplx hg hd hp seg (fun b _ => fits_all d b hd) rest

/-- **ascii_column_roundtrip_bigmat**: for *every* list of strings `(first row, elements)` — any
partition, adjacent strings, zeros inside a string — the bigmat string loop returns, string by
string, the 0-based row and the printed decimals, and stops exactly after the last value line -/
theorem ascii_column_roundtrip_bigmat (g : Cfg) (d : Nat) (cplx : Bool) (hg : GoodCfg g d cplx) (hd : 1 ≤ d)
    (hp : 1 ≤ perline d) (ss : List (Nat × List Entry)) (rest : List (List Char)) (fuel : Nat) (hf : ss.length ≤ fuel)
    (hw : ∀ s ∈ ss, s.2.length * 2 * mult cplx + 1 < 10 ^ 8 ∧ s.1 + 1 < 10 ^ 8) :
    rdStrBig g fuel (nwordsBig cplx ss) (ss.flatMap (bigStrLines d cplx) ++ rest)
      = some (ss.map (fun s => (s.1, s.2.map (aEntry d cplx))), rest) :=
  rdStrBig_enc g d cplx hg hd hp rest ss fuel hf (fun _ _ b _ => fits_all d b hd) hw

/-- **ascii_column_roundtrip_nonbigmat**: the same for the packed `IS` header, rows below 65536 -/
theorem ascii_column_roundtrip_nonbigmat (g : Cfg) (d : Nat) (cplx : Bool) (hg : GoodCfg g d cplx) (hd : 1 ≤ d)
    (hp : 1 ≤ perline d) (ss : List (Nat × List Entry)) (rest : List (List Char)) (fuel : Nat) (hf : ss.length ≤ fuel)
    (hw : ∀ s ∈ ss, s.1 + 1 < 65536) :
    rdStrNonbig g fuel (nwordsNonbig cplx ss) (ss.flatMap (nonbigStrLines d cplx) ++ rest)
      = some (ss.map (fun s => (s.1, s.2.map (aEntry d cplx))), rest) :=
  rdStrNonbig_enc g d cplx hg hd hp rest ss fuel hf (fun _ _ b _ => fits_all d b hd) hw

/-- the lines `bigStrLines` / `nonbigStrLines` are what the writer prints for a string -/
theorem string_lines (d : Nat) (hp : 1 ≤ perline d) (cplx : Bool) (s : Nat × List Entry) (tail : List Char) :
    linesOf (fmtInt 8 ((s.2.length : Int) * 2 * (mult cplx : Int) + 1) ++ fmtInt 8 ((s.1 : Int) + 1) ++ ['\n'] ++
        valueLines d (segDs cplx s.2).length (segDs cplx s.2) ++ tail) = bigStrLines d cplx s ++ linesOf tail ∧
    linesOf (fmtInt 11 ((packIS (s.1 + 1) (s.2.length * 2 * mult cplx) : Nat) : Int) ++ ['\n'] ++
        valueLines d (segDs cplx s.2).length (segDs cplx s.2) ++ tail) = nonbigStrLines d cplx s ++ linesOf tail :=
  ⟨bigStr_isLines d hp cplx s tail, nonbigStr_isLines d hp cplx s tail⟩

/-- the title line written by `_write_ascii_header` is read back by `_loadop4_ascii`: columns, rows
(negative for bigmat), form, type, the name field, and `perline` / `numlen` from `1P,{n}E{w}.{d}`
(also with the 16-character fields and the `|I16` suffix above 9 999 999 rows) -/
theorem header_roundtrip_ascii (d : Nat) (m : Mat) (big : Bool) (hwf : WfA m) (hp : 1 ≤ perline d) :
    rdHeader (asciiHeader d m big) = some (some (hdrOf d m big)) :=
  rdHeader_asciiHeader d m big hwf hp

/-- **file_roundtrip_ascii.**  For every non-empty list of matrices (each with the layout `write`
resolved for it) written with `d` digits, `1 ≤ d ≤ 73`: `op4.load` on the text (`loadAscii`: format
detection, `_dformat`, the loop of `listload`) returns exactly one `ADec` per matrix, in file order,
carrying the written name field, rows (negated for bigmat), columns, form, type, the announced
`perline`/`numlen`, and puts that rebuild (`applyPutsA`, the dense read) a matrix related entry by
entry (`ReadOf`, see `ascii_entry_spec`) to the columns `decCol` of `file_roundtrip_binary`.
Hypotheses (`MatOK`): columns of `rows` entries, `6·rows < 10^8` and `ncols + 1 < 10^8`, `form < 10^8`
(the 8-character integer fields), a valid name of at most 8 characters, nonbigmat only below 65536
rows.  Every finite double is admitted: a negative value with a three-digit exponent is written with one digit less
(`fmtE_width`; finding F3 is repaired). -/
theorem file_roundtrip_ascii (d : Nat) (hd : 1 ≤ d) (hd' : d ≤ 73) (ms : List (Layout × Mat)) (hne : ms ≠ [])
    (hok : ∀ p ∈ ms, MatOK d p) :
    ∃ ds, loadAscii (encFileAscii d ms) = some ds ∧ List.Forall₂ (ADecOf d) ms ds := by
  have hp : 1 ≤ perline d := by
    unfold perline numlen numlenBase expdigits lineWidth
    exact (Nat.le_div_iff_mul_le (by omega)).2 (by omega)
  exact loadAscii_enc d hd hp ms hne hok

/-- the printed zero: sign aside, a double that is `±0.0` prints (and reads back) with mantissa 0 -/
theorem decOf_zero (d b : Nat) (h : isZeroD b = true) : (decOf d b).man = 0 := by
  unfold isZeroD at h
  have hb : b % 9223372036854775808 = 0 := by simpa using h
  have h1 : b / 4503599627370496 % 2048 = 0 := by omega
  have h2 : b % 4503599627370496 = 0 := by omega
  unfold decOf
  split <;> simp [decOf0, sciDec, sci, sciOf, h1, h2]

/-- what `ReadOf` means entry by entry: if the written column holds `x` at row `i`, the column the
ASCII reader rebuilds holds `y` there, where for a non-zero `x` (bit patterns) `y` is exactly the
printed decimal(s) of `x` — `aEntry d cplx x = (decOf d re, decOf d im)` — and for a zero `x` both
parts of `y` have mantissa 0 (the value is 0) -/
theorem ascii_entry_spec (d : Nat) (lay : Layout) (cplx : Bool) (col : List Entry) (colA : List AEntry)
    (h : List.Forall₂ (ReadOf d cplx) (decCol lay cplx col) colA) (i : Nat) (x : Entry) (hx : col[i]? = some x) :
    ∃ y : AEntry, colA[i]? = some y ∧
      (x.isZero cplx = false → y = aEntry d cplx x) ∧
      (x.isZero cplx = true → y.1.man = 0 ∧ y.2.man = 0) := by
  obtain ⟨yb, hyb, hnz, hz⟩ := decCol_entry lay cplx col i x hx
  obtain ⟨y, hy, hrel⟩ := forall₂_getElem? h i yb hyb
  refine ⟨y, hy, ?_, ?_⟩
  · intro hxz
    have hyb' := hnz hxz
    rcases hrel with hr | ⟨hr, _⟩
    · rw [hr, hyb', aEntry_normE]
    · exfalso
      have : (normE cplx x).isZero cplx = true := by rw [← hyb', hr]; exact isZero_zero cplx
      rw [isZero_normE] at this
      rw [hxz] at this; cases this
  · intro hxz
    have hzz := hz hxz
    rcases hrel with hr | ⟨_, hr⟩
    · rw [hr]
      unfold aEntry
      cases cplx
      · simp only [Entry.isZero, Bool.false_eq_true, if_false] at hzz
        exact ⟨decOf_zero d _ hzz, rfl⟩
      · simp only [Entry.isZero, if_true, Bool.and_eq_true] at hzz
        exact ⟨decOf_zero d _ hzz.1, decOf_zero d _ hzz.2⟩
    · rw [hr]; exact ⟨rfl, rfl⟩

/-- the mantissa printed for a double has exactly `d + 1` digits (or is 0): the bisection of the
`%E` model finds the decimal exponent, so `e10` below is the exponent of the leading digit -/
theorem sci_mantissa_digits (d b : Nat) :
    (sci d b).mant < 10 ^ (d + 1) ∧ ((sci d b).mant = 0 ∨ 10 ^ d ≤ (sci d b).mant) := sci_mant d b

/-- **to the requested number of digits.**  The decimal read back for a double `b` printed with `d` digits after the
point differs from the exact value of the double, `bitsVal b = (-1)^s · m · 2^e2`, by at most half a unit of the last
printed digit: `|read − x| ≤ ½ · 10^(e10 − d)`, and `½ · 10^(e10' − (d − 1))` for a negative value with a three-digit
exponent (`Wide`: printed with `d − 1` digits, `e10'` its exponent at that precision); rational arithmetic, no
rounding anywhere -/
theorem ascii_value_half_unit (d b : Nat) :
    (Wide d b = false → |Dec10.toRat (decOf d b) - bitsVal b| ≤ 1 / 2 * (10 : ℚ) ^ ((sci d b).e10 - (d : Int))) ∧
    (Wide d b = true →
      |Dec10.toRat (decOf d b) - bitsVal b| ≤ 1 / 2 * (10 : ℚ) ^ ((sci (d - 1) b).e10 - ((d - 1 : Nat) : Int))) :=
  decOf_err d b

/-- what a value field reads as: `float(fmtE d b)` is the printed decimal, whatever the width -/
theorem field_roundtrip (d b : Nat) (hd : 1 ≤ d) : pyFloat? (fmtE d b) = some (decOf d b) := pyFloat_fmtE d b hd

/-- non-vacuity of the ASCII theorems: a matrix the hypotheses admit (two strings in one column, a
3-digit positive exponent), a value that does not fit (F3), and a title line -/
example :
    let m : Mat := { name := [75, 97], form := 2, cplx := false, rows := 4,
                     cols := [[(0x3FF8000000000000, 0), (0, 0), (0x58EEFB1178484135, 0), (0, 0)]] }
    isIdent m.name = true ∧ strings false m.cols.head! = [(0, [(0x3FF8000000000000, 0)]), (2, [(0x58EEFB1178484135, 0)])] ∧
      (sci 3 0x58EEFB1178484135).e10 = 120 ∧ (sci 3 0x58EEFB1178484135).neg = false ∧
      (sci 3 0xA719D28F47B4D525).neg = true ∧ (sci 3 0xA719D28F47B4D525).e10 = -120 ∧
      decOf 3 0x3FF8000000000000 = { neg := false, man := 1500, exp := -3 } := by
  decide +kernel

example : rdHeader "       2      -3       2       2A       1P,3E23.16\n".toList
    = some (some { cols := 2, rows := -3, form := 2, mtype := 2, name := "A       ".toList, perline := 3, numlen := 23 }) := by
  decide +kernel

example : fields 3 3 "abcdefgh".toList = ["abc".toList, "def".toList, "gh".toList] ∧
    pyFloat? " -2.50E-120".toList = some { neg := true, man := 250, exp := -122 } ∧
    pyInt? "   -12 \n".toList = some (-12) := by
  decide +kernel

/-! ## The true domain, the sparse views, sparse inputs

`Model/Op4Sparse.lean` adds: `writeFileWords` (the binary writer with every `struct.pack('i', …)` checked),
the writers' scipy.sparse input branches (`encMatWordsSp`, `encMatAsciiSp`), and `cooToDense`
(`coo_matrix(...).toarray()`). -/

/-- **The writer's domain.**  `writeFileWords` succeeds only if every dimension is at most `2^31 - 1`
(`ValueError` above), `cols + 1`, `form` and every column record length `recLen` fit a signed 32-bit integer
(`struct.error` otherwise: Python / int64 arithmetic on the ndarray path), and the nonbigmat strings fit
(`file_writes_iff`); and then it writes what `encFileWords` writes. -/
theorem write_domain (e : Endian) (ms : List (Layout × Mat)) (ws : List Nat) (h : writeFileWords e ms = .ok ws) :
    encFileWords e ms = some ws ∧ ∀ p ∈ ms, p.2.rows < 2 ^ 31 ∧ p.2.cols.length + 1 < 2 ^ 31 ∧ p.2.form < 2 ^ 31 ∧
      ∀ col ∈ p.2.cols, recLen p.1 p.2.cplx col < 2 ^ 31 :=
  writeFileWords_ok e ms ws h

/-- the record length is what the column record announces: `12 + 8·elems` for a dense record (`elems` = first
to last non-zero row, times 2 for complex), `4·(3 + nwords)` for the two sparse layouts -/
theorem recLen_spec (cplx : Bool) (col : List Entry) (s : Nat) (tl : List Nat) (h : nzIdx cplx col = s :: tl) :
    recLen .dense cplx col = 3 * 4 + ((s :: tl).getLast (by simp) - s + 1) * mult cplx * 8 ∧
      recLen .bigmat cplx col = (3 + nwordsBig cplx (strings cplx col)) * 4 ∧
      recLen .nonbigmat cplx col = (3 + nwordsNonbig cplx (strings cplx col)) * 4 := by
  refine ⟨?_, (recLen_sparse .bigmat cplx col s tl h).1, (recLen_sparse .bigmat cplx col s tl h).2⟩
  simp only [recLen]
  split
  · next h' => rw [h] at h'; cases h'
  · next s' tl' h' => rw [h] at h'; cases h'; rfl

/-- **file_roundtrip_binary on the true domain** (replaces `rows < 2^28` of `file_roundtrip_binary` by what the
writer really needs): whenever the checked writer succeeds on matrices whose columns have `rows` entries and
whose name bytes are bytes, the reader decodes the words to one `Dec` per matrix, in order, with `DecOf` (name
field, shape, form, type, puts that rebuild `decCol`), and moreover the column reader `_get_funcs` chose
(`layOf`), what `sparse=None` resolves to (`autoOf`) and the puts themselves are the stated ones. -/
theorem file_roundtrip_binary_domain (e : Endian) (ms : List (Layout × Mat)) (ws : List Nat)
    (hcols : ∀ p ∈ ms, (∀ col ∈ p.2.cols, col.length = p.2.rows) ∧ (∀ b ∈ p.2.name, b < 256) ∧
      (p.1 = .nonbigmat → p.2.rows < rows4bigmat))
    (hwr : writeFileWords e ms = .ok ws) :
    ∃ ds, rdFile e (ws.length + 1) ws = some ds ∧ List.Forall₂ (DecOfX e) ms ds := by
  obtain ⟨henc, hdom⟩ := writeFileWords_ok e ms ws hwr
  refine rdFile_encX e ms ws (ws.length + 1) henc (by have := encFileWords_length e ms ws henc; omega) ?_
  intro p hp
  obtain ⟨h1, h2, h3, h4⟩ := hdom p hp
  exact ⟨⟨(hcols p hp).1, h1, h2, h3, (hcols p hp).2.1, h4⟩, (hcols p hp).2.2⟩

/-- the same at the level of bytes: `decodeBytes` of the bytes written on the true domain is `canonFile` -/
theorem file_roundtrip_bytes_domain (e : Endian) (ms : List (Layout × Mat)) (bytes : List Nat) (hne : ms ≠ [])
    (hw : ∀ p ∈ ms, p.2.WfDB p.1 ∧ (p.1 = .nonbigmat → p.2.rows < rows4bigmat))
    (henc : encFileBytes e ms = some bytes) :
    decodeBytes bytes = some (canonFile ms) := by
  unfold encFileBytes at henc
  cases hws : encFileWords e ms with
  | none => rw [hws] at henc; cases henc
  | some ws =>
    rw [hws] at henc
    simp only [Option.map_some, Option.some.injEq] at henc
    subst henc
    have hlt := encFileWords_lt32' e ms ws (fun p hp => (hw p hp).1) hws
    obtain ⟨ds, hds, hdecs⟩ := rdFile_encX e ms ws (ws.length + 1) hws
      (by have := encFileWords_length e ms ws hws; omega) (fun p hp => ⟨(hw p hp).1.wf, (hw p hp).2⟩)
    obtain ⟨ws', hws'⟩ : ∃ ws', ws = 24 :: ws' := by
      cases ms with
      | nil => exact absurd rfl hne
      | cons p t =>
        obtain ⟨lay, m⟩ := p
        simp only [encFileWords] at hws
        cases ha : encMatWords e lay m with
        | none => simp [ha] at hws
        | some a =>
          cases hb : encFileWords e t with
          | none => simp [ha, hb] at hws
          | some b =>
            simp only [ha, hb, Option.bind_eq_bind, Option.bind_some, Option.some.injEq] at hws
            rw [← hws, encMatWords_eq e lay m a ha]
            simp only [headerWords, hdrReclen, List.cons_append, List.append_assoc]
            exact ⟨_, rfl⟩
    unfold decodeBytes
    rw [hws', decodeFormat_enc e ws', ← hws']
    simp only [wordsOfBytes_bytesOfWords e ws hlt, hds]
    exact toRMats_decs ms ds 0 (decsOf_of_X e ms ds hdecs) fun p hp => ⟨(hw p hp).1.name_ident, (hw p hp).1.name_len⟩

/-- **sparse_auto_rule.**  What `sparse=None` returns for a matrix written in layout `lay`
(`DecOfX … d → d.sparseAuto = autoOf lay m`, `file_roundtrip_binary_domain`): a sparse matrix iff the layout is
bigmat and the matrix has rows, or nonbigmat and the matrix is not all zero; never for the dense layout.  In
the remaining cases (`autoOf = false`) the written words **are** those of the dense layout, so no reader could
tell: the rule is "dense iff the file is a dense-layout file". -/
theorem sparse_auto_rule (e : Endian) (lay : Layout) (m : Mat) (hlen : ∀ col ∈ m.cols, col.length = m.rows) :
    (autoOf lay m = true ↔ (lay = .bigmat ∧ 0 < m.rows) ∨
        (lay = .nonbigmat ∧ ∃ col ∈ m.cols, nzIdx m.cplx col ≠ [])) ∧
      (autoOf lay m = false → encMatWords e lay m = encMatWords e .dense m) := by
  constructor
  · cases lay
    · simp [autoOf]
    · simp [autoOf]
    · simp [autoOf, List.any_eq_true]
  · intro h
    cases lay
    · rfl
    · have hr : m.rows = 0 := by simpa [autoOf] using h
      have hz : ∀ col ∈ m.cols, nzIdx m.cplx col = [] := by
        intro col hcol
        have hl := hlen col hcol
        rw [hr] at hl
        have : col = [] := List.length_eq_zero_iff.1 hl
        subst this
        rfl
      have h1 := (recsOf_eq_nil_iff e .bigmat m.cplx m.cols 0).2 hz
      have h2 := (recsOf_eq_nil_iff e .dense m.cplx m.cols 0).2 hz
      simp only [encMatWords, Option.some.injEq]
      have e1 := encCols_recs e .bigmat m.cplx m.cols 0
      have e2 := encCols_recs e .dense m.cplx m.cols 0
      simp only [encCol] at e1 e2
      rw [e1, e2, h1, h2]
      simp [headerWords, hr]
    · have hz := (autoOf_nonbigmat_false m).1 h
      have h1 := (recsOf_eq_nil_iff e .nonbigmat m.cplx m.cols 0).2 hz
      have h2 := (recsOf_eq_nil_iff e .dense m.cplx m.cols 0).2 hz
      have hfit : m.cols.all (stringsFit m.cplx) = true := by
        rw [List.all_eq_true]
        intro col hcol
        simp [stringsFit, strings_nil m.cplx col (hz col hcol)]
      simp only [encMatWords, hfit, if_true, Option.some.injEq]
      have e1 := encCols_recs e .nonbigmat m.cplx m.cols 0
      have e2 := encCols_recs e .dense m.cplx m.cols 0
      simp only [encCol] at e1 e2
      rw [e1, e2, h1, h2]

/-- which rows of a column the file stores: the sparse layouts exactly the non-zero rows (`±0.0` is never
stored), the dense layout every row from the first to the last non-zero one — explicit zeros included -/
theorem storedIdx_spec (lay : Layout) (cplx : Bool) (col : List Entry) (r : Nat) :
    (lay ≠ .dense → (r ∈ storedIdx lay cplx col ↔ ∃ x, col[r]? = some x ∧ x.isZero cplx = false)) ∧
      (∀ s tl, nzIdx cplx col = s :: tl →
        (r ∈ storedIdx .dense cplx col ↔ s ≤ r ∧ r ≤ (s :: tl).getLast (by simp))) ∧
      (nzIdx cplx col = [] → storedIdx lay cplx col = []) := by
  refine ⟨?_, ?_, storedIdx_zero lay cplx col⟩
  · intro h
    cases lay
    · exact absurd rfl h
    · simp only [storedIdx]; exact mem_nzIdx cplx col r
    · simp only [storedIdx]; exact mem_nzIdx cplx col r
  · intro s tl h
    have hsorted := (nzIdxFrom_sorted cplx col 0).1
    have hs_le : s ≤ (s :: tl).getLast (by simp) := by
      have := (sorted_bounds (nzIdx cplx col) (by rw [h]; simp) hsorted s (by rw [h]; exact List.mem_cons_self)).2
      simpa [h] using this
    simp only [storedIdx, h, List.mem_range'_1]
    omega

/-- **coo_view_correct.**  For a file written on the true domain, `op4.load(sparse=True)` returns per matrix
the COO triplets `cooList`: column by column, for every stored row `r` (`storedIdx_spec`) the triplet
`(r, c, value)`, rows ascending — the value being the written bit pattern (`cooEntry`: for complex the parts
pass through `re + 1j*im`).  And `.toarray()` of it (`cooToDense`, for any addition with `0.0 + v = pz v`) is
the dense read `decCol` with `-0.0 ↦ +0.0`. -/
theorem coo_view_correct (e : Endian) (ms : List (Layout × Mat)) (ds : List Dec)
    (h : List.Forall₂ (DecOfX e) ms ds) :
    List.Forall₂ (fun (p : Layout × Mat) (d : Dec) =>
      cooOfPuts p.2.cplx d.puts = cooList p.1 p.2.cplx 0 p.2.cols ∧
      ((∀ col ∈ p.2.cols, col.length = p.2.rows) →
        ∀ add : Entry → Entry → Entry, (∀ v, add (0, 0) v = pz v) →
        cooToDense add p.2.rows p.2.cols.length (cooOfPuts p.2.cplx d.puts) =
          p.2.cols.map fun col => (decCol p.1 p.2.cplx col).map fun y => pz (cooEntry p.2.cplx y))) ms ds := by
  induction h with
  | nil => exact List.Forall₂.nil
  | @cons p d ps ds hd _ ih =>
    refine List.Forall₂.cons ?_ ih
    obtain ⟨_, _, _, hputs⟩ := hd
    have h1 : cooOfPuts p.2.cplx d.puts = cooList p.1 p.2.cplx 0 p.2.cols := by
      rw [hputs]; exact recsOf_coo e p.1 p.2.cplx p.2.cols 0
    refine ⟨h1, ?_⟩
    intro hlen add hadd
    rw [h1]
    exact cooToDense_cooList add hadd p.1 p.2.cplx p.2.rows p.2.cols hlen

/-- **write_sparse_eq_write_dense.**  For every scipy.sparse input (stored triplets in any order, duplicates,
explicit zeros; `add` is the addition that sums duplicates), every layout and byte order: the *checked* binary
writer on the sparse input (`writeOneWords … (.sp …)`: the `else  # sparse matrix` branches with every
`struct.pack` checked) does exactly what the checked ndarray writer `writeMatWords` does on the ndarray
`denseMat` — the found value where `sp.find` has one, `+0.0` elsewhere: the same words when it succeeds, the same
refusal (`ValueError` / `struct.error`) when it does not; in particular the words of the two branches agree
(`encMatWordsSp = encMatWords`), and so does the ASCII text.  No size hypothesis. -/
theorem write_sparse_eq_write_dense (add : Nat → Nat → Nat) (e : Endian) (d : Nat) (lay : Layout) (name : List Nat)
    (form : Nat) (A : SpIn) :
    writeOneWords add e lay (.sp name form A) = writeMatWords e lay (denseMat add name form A) ∧
      encMatWordsSp add e lay name form A = encMatWords e lay (denseMat add name form A) ∧
      encMatAsciiSp add d lay name form A = encMatAscii d lay (denseMat add name form A) :=
  ⟨writeOneWords_dense add e lay (.sp name form A), encMatWordsSp_eq add e lay name form A,
    encMatAsciiSp_eq add d lay name form A⟩

/-- what the ndarray of a sparse input holds: at `(r, c)` the sum of the values stored there (in storage order)
unless there is none or the sum is `±0.0`, and then `+0.0` -/
theorem denseMat_entry (add : Nat → Nat → Nat) (name : List Nat) (form : Nat) (A : SpIn) (r c : Nat)
    (hr : r < A.rows) (hc : c < A.ncols) :
    ((denseMat add name form A).cols[c]?.bind (·[r]?)) = some ((foundAt add A r c).getD (0, 0)) ∧
      (foundAt add A r c = none ↔ ∀ v, sumVals add (valsAt A.trip r c) = some v → v.isZero A.cplx = true) := by
  constructor
  · simp [denseMat, denseCol, hr, hc]
  · unfold foundAt
    cases sumVals add (valsAt A.trip r c) with
    | none => simp
    | some v => by_cases hz : v.isZero A.cplx = true <;> simp [hz]

/-- non-vacuity: a sparse input with a duplicate, an explicit zero and unsorted storage; its ndarray; the three
layouts written both ways; the COO view and `.toarray()` of a two-string column -/
example :
    let A : SpIn := { rows := 4, ncols := 2, cplx := false,
                      trip := [(3, 0, (5, 0)), (0, 0, (7, 0)), (1, 1, (0, 0)), (0, 0, (7, 0)), (2, 1, (9, 0))] }
    let add : Nat → Nat → Nat := fun a b => a + b
    colEntries add A 0 = [(0, (14, 0)), (3, (5, 0))] ∧ colEntries add A 1 = [(2, (9, 0))] ∧
      (denseMat add [97] 2 A).cols = [[(14, 0), (0, 0), (0, 0), (5, 0)], [(0, 0), (0, 0), (9, 0), (0, 0)]] ∧
      encMatWordsSp add .little .dense [97] 2 A = encMatWords .little .dense (denseMat add [97] 2 A) ∧
      encMatWordsSp add .big .bigmat [97] 2 A = encMatWords .big .bigmat (denseMat add [97] 2 A) ∧
      encMatWordsSp add .big .nonbigmat [97] 2 A = encMatWords .big .nonbigmat (denseMat add [97] 2 A) := by
  decide

example :
    let col : List Entry := [(0, 0), (1, 0), (negZero, 0), (3, 0), (0, 0)]
    storedIdx .dense false col = [1, 2, 3] ∧ storedIdx .bigmat false col = [1, 3] ∧
      cooList .dense false 0 [col] = [(1, 0, (1, 0)), (2, 0, (negZero, 0)), (3, 0, (3, 0))] ∧
      cooToDense (fun a b => if a = (0, 0) then pz b else b) 5 1 (cooList .dense false 0 [col])
        = [[(0, 0), (1, 0), (0, 0), (3, 0), (0, 0)]] ∧
      decCol .dense false col = [(0, 0), (1, 0), (negZero, 0), (3, 0), (0, 0)] := by
  decide

example :
    let z : Mat := { name := [97], form := 2, cplx := false, rows := 3, cols := [[(0, 0), (0, 0), (0, 0)]] }
    autoOf .nonbigmat z = false ∧ autoOf .bigmat z = true ∧ autoOf .dense z = false ∧
      (writeFileWords .little [(.nonbigmat, z)]).toOption = encFileWords .little [(.dense, z)] := by
  decide

/-! ## `write` on its arguments (Model/Op4Input.lean) -/

/-- `np.atleast_2d`: a 0-d input is 1×1, a 1-d input of `n` elements is **1×n**, a 2-d input keeps its
shape, anything above raises -/
theorem ensure_2d_shapes (n r c : Nat) (rest : List Nat) :
    atleast2d [] = some (1, 1) ∧ atleast2d [n] = some (1, n) ∧ atleast2d [r, c] = some (r, c) ∧
      atleast2d (n :: r :: c :: rest) = none :=
  ⟨rfl, rfl, rfl, rfl⟩

/-- a 1-d array is written as one row: the matrix handed to the writer has `rows = 1` and one column per
element (not one column of `n` rows) -/
theorem vector_input_is_row (close : Entry → Entry → Bool) (add : Nat → Nat → Nat) (name : Name) (form : Nat)
    (a : NdIn) (n : Nat) (hshape : a.shape = [n]) (hlen : a.elems.length = n) :
    normOne close add name (some form) (.nd a) =
      some (.nd { name := name, form := form, cplx := a.cplx, rows := 1,
                  cols := a.elems.map fun x => [entryOfRaw a.cplx x] }) := by
  simp only [normOne, hshape, atleast2d, Option.getD_some, colsOfNd_vector a n hlen]

/-- **write_input_normalised.**  Whatever `write` is given — a mapping or lists / single values for names,
matrices and forms; 0-d, 1-d or 2-d arrays of any real or complex dtype; scipy.sparse matrices — if `prepare`
succeeds (no array with more than two dimensions) then
* the binary file is the file the checked ndarray writer `writeFileWords` produces for the *normalised* list
  `(layout, w.dense)`: 2-d double-precision matrices (`atleast2d`, `Raw.toD`, `denseMat`) with checked names and
  resolved forms and layouts — the same words or the same refusal — and every ASCII matrix is the text of
  `encMatAscii` for it;
* as many matrices are written as the shortest of the three argument lists has entries (`zip`), in order, and
  the `k`-th one is the `k`-th name (through `_check_write_names` with index `k`), matrix and form. -/
theorem write_input_normalised (close : Entry → Entry → Bool) (add : Nat → Nat → Nat) (e : Endian) (d : Nat)
    (opt : Option Layout) (names : NamesArg) (mats : MatsArg) (forms : FormsArg) (ws : List (Layout × WMat))
    (hprep : prepare close add opt names mats forms = some ws) :
    writeAllWords add e ws = writeFileWords e (ws.map fun p => (p.1, p.2.dense add)) ∧
      (∀ p ∈ ws, writeOneAscii add d p.1 p.2 = encMatAscii d p.1 (p.2.dense add)) ∧
      ws.length = min (plumb names mats forms).1.length
        (min (plumb names mats forms).2.1.length (plumb names mats forms).2.2.length) ∧
      ∀ (k : Nat) (p : Layout × WMat), ws[k]? = some p →
        ∃ n m f, (plumb names mats forms).1[k]? = some n ∧ (plumb names mats forms).2.1[k]? = some m ∧
          (plumb names mats forms).2.2[k]? = some f ∧ normOne close add (writeName k n) f m = some p.2 ∧
          p.1 = resolveLayout opt p.2.isSparse p.2.rows := by
  refine ⟨writeAllWords_dense add e ws, fun p _ => writeOneAscii_dense add d p.1 p.2, ?_, ?_⟩
  all_goals
    unfold prepare at hprep
    dsimp only at hprep
    split at hprep
    · cases hprep
  · have h := (mapM_some_get _ _ ws hprep).1
    rw [h, zip3_length, checkNames_length]
  · intro k p hp
    obtain ⟨x, hx, hfx⟩ := (mapM_some_get _ _ ws hprep).2 k p hp
    obtain ⟨h1, h2, h3⟩ := zip3_get _ _ _ k x hx
    rw [checkNames_get] at h1
    cases hn : (plumb names mats forms).1[k]? with
    | none => rw [hn] at h1; cases h1
    | some n =>
      rw [hn] at h1
      simp only [Option.map_some, Nat.zero_add, Option.some.injEq] at h1
      refine ⟨n, x.2.1, x.2.2, rfl, h2, h3, ?_⟩
      obtain ⟨xn, xm, xf⟩ := x
      simp only at h1 hfx ⊢
      cases hno : normOne close add xn xf xm with
      | none => simp [hno] at hfx
      | some w =>
        simp only [hno, Option.map_some, Option.some.injEq] at hfx
        subst hfx
        subst h1
        exact ⟨hno, rfl⟩

/-- the plumbing of the three argument forms: a mapping contributes its items in order with the form from a
`(matrix, form)` value; otherwise single values become one-element lists and `forms=None` one `None` per name -/
theorem plumb_spec (items : List (Name × DictVal)) (ns : List Name) (n : Name) (ms : List MatIn) (m : MatIn)
    (f : Nat) (fs : List (Option Nat)) (mats : MatsArg) (forms : FormsArg) :
    (plumb (.dict items) mats forms).1 = items.map (·.1) ∧
      plumb (.list ns) (.list ms) .none = (ns, ms, List.replicate ns.length none) ∧
      plumb (.one n) (.one m) (.one f) = ([n], [m], [some f]) ∧
      plumb (.list ns) (.list ms) (.list fs) = (ns, ms, fs) :=
  ⟨rfl, rfl, rfl, rfl⟩

/-- every `write` call replaces the file (`open(filename, "wb")`): after any sequence of calls the file holds
what the last call wrote -/
theorem write_replaces_file {α} (init : List α) (calls : List (List α)) (last : List α) :
    fileAfter init (calls ++ [last]) = last := by
  induction calls with
  | nil => rfl
  | cons c t ih =>
    cases t with
    | nil => rfl
    | cons c2 t2 => simpa [fileAfter] using ih

/-- non-vacuity of the input theorems: a dictionary with a float32 vector, an integer scalar and a `(matrix,
form)` pair; `forms` shorter than `names` drops the rest -/
example :
    let v : MatIn := .nd { shape := [3], cplx := false, elems := [(.f32 0x3FC00000, .f64 0), (.int 0, .f64 0), (.int (-2), .f64 0)] }
    let s : MatIn := .nd { shape := [], cplx := false, elems := [(.bool true, .f64 0)] }
    let close : Entry → Entry → Bool := fun a b => a == b
    let add : Nat → Nat → Nat := fun a b => a + b
    (prepare close add none (.dict [([118], .mat v), ([49], .pair s (some 9))]) (.list []) .none).map
        (fun ws => ws.map fun p => (p.1, p.2.dense add)) =
      some [(.dense, { name := [118], form := 2, cplx := false, rows := 1,
                       cols := [[(0x3FF8000000000000, 0)], [(0, 0)], [(0xC000000000000000, 0)]] }),
            (.dense, { name := [109, 49], form := 9, cplx := false, rows := 1, cols := [[(0x3FF0000000000000, 0)]] })] ∧
      ((prepare close add none (.list [[97], [98]]) (.list [v, s]) (.list [some 1])).map List.length) = some 1 ∧
      prepare close add none (.one [97]) (.one (.nd { shape := [1, 1, 1], cplx := false, elems := [] })) .none = none := by
  decide +kernel

/-! ## The last step of the ASCII round trip: `float(decimal)`

`Model/Op4AsciiBits.lean`: `decBits x` is the double CPython's `float()` returns for the exact decimal `x` (the
correctly rounded `PyFloat.toBits`). -/

/-- what the printed decimal is: `decOf0 d` (`d` digits) unless the value is `Wide`, and then `decOf0 (d - 1)` -/
theorem decOf_cases (d b : Nat) :
    (Wide d b = false → decOf d b = decOf0 d b) ∧ (Wide d b = true → decOf d b = decOf0 (d - 1) b) := by
  constructor <;> intro h <;> simp [decOf, h]

/-- **read_back_bits.**  A *normal* double printed with `digits ≥ 16` (17 or more significant digits) reads back
bit-identical — for a negative value with a three-digit exponent (`Wide`), which is printed with one digit less,
from `digits ≥ 17` on (hypothesis `Wide d b = false ∨ 17 ≤ d`): the field `fmtE d b` denotes the decimal `decOf d b`
(`field_roundtrip`), which lies within half a unit of its last digit of the double (`ascii_value_half_unit`), and
that is less than half (at the bottom of a binade: a quarter) of the spacing of the doubles there, so
round-to-nearest returns the double. -/
theorem read_back_bits (d b : Nat) (hd : 16 ≤ d) (hd' : d ≤ 5000) (hb : IsNormal b)
    (hw : Wide d b = false ∨ 17 ≤ d) :
    (pyFloat? (fmtE d b)).map decBits = some b := by
  rw [field_roundtrip d b (by omega), Option.map_some]
  cases hwd : Wide d b with
  | false => rw [(decOf_cases d b).1 hwd, decBits_decOf_normal d b hd hd' hb]
  | true =>
    have h17 : 17 ≤ d := by rcases hw with h | h; · rw [hwd] at h; cases h
                            · exact h
    rw [(decOf_cases d b).2 hwd, decBits_decOf_normal (d - 1) b (by omega) (by omega) hb]

/-- **read_back_bits, subnormals and zeros**: a subnormal double (exponent field 0) and `±0.0` read back
bit-identical too — the spacing is `2^-1074` whatever the magnitude (same hypothesis on `Wide` values: every
negative subnormal is one) -/
theorem read_back_bits_subnormal (d b : Nat) (hd : 16 ≤ d) (hd' : d ≤ 5000) (hb64 : b < 2 ^ 64)
    (hef : b / 2 ^ 52 % 2048 = 0) (hw : Wide d b = false ∨ 17 ≤ d) :
    (pyFloat? (fmtE d b)).map decBits = some b := by
  rw [field_roundtrip d b (by omega), Option.map_some]
  have key : ∀ k, 16 ≤ k → k ≤ 5000 → decBits (decOf0 k b) = b := by
    intro k hk hk'
    by_cases hmf : b % 4503599627370496 = 0
    · rw [decBits_decOf_zero k b hk' hb64 (by norm_num at hef; omega)]
    · rw [decBits_decOf_subnormal k b hk hk' hb64 (by norm_num at hef; exact hef) hmf]
  cases hwd : Wide d b with
  | false => rw [(decOf_cases d b).1 hwd, key d hd hd']
  | true =>
    have h17 : 17 ≤ d := by rcases hw with h | h; · rw [hwd] at h; cases h
                            · exact h
    rw [(decOf_cases d b).2 hwd, key (d - 1) (by omega) (by omega)]

/-- every finite double: `digits ≥ 16` (`≥ 17` for a `Wide` value) makes the ASCII round trip of a value exact -/
theorem read_back_bits_finite (d b : Nat) (hd : 16 ≤ d) (hd' : d ≤ 5000) (hb64 : b < 2 ^ 64)
    (hfin : isFiniteD b = true) (hw : Wide d b = false ∨ 17 ≤ d) :
    (pyFloat? (fmtE d b)).map decBits = some b := by
  by_cases hef : b / 2 ^ 52 % 2048 = 0
  · exact read_back_bits_subnormal d b hd hd' hb64 hef hw
  · apply read_back_bits d b hd hd' _ hw
    refine ⟨hb64, ?_, ?_⟩
    · norm_num at hef; omega
    · unfold isFiniteD at hfin
      have : b / 4503599627370496 % 2048 ≠ 2047 := by simpa using hfin
      omega

/-- 16 significant digits are not enough: `0.30000000000000004` printed with `digits = 15` reads back as `0.3`;
with `digits = 16` it reads back as itself (non-vacuity of `read_back_bits`, also at the bottom of a binade and
for the smallest normal and a subnormal double) -/
theorem read_back_needs_17 :
    decBits (decOf0 15 0x3FD3333333333334) = 0x3FD3333333333333 ∧
      decBits (decOf0 16 0x3FD3333333333334) = 0x3FD3333333333334 ∧ IsNormal 0x3FD3333333333334 ∧
      decBits (decOf0 16 0x4340000000000000) = 0x4340000000000000 ∧
      decBits (decOf0 16 0x0010000000000000) = 0x0010000000000000 ∧
      decBits (decOf0 16 0x8000000000000001) = 0x8000000000000001 := by
  refine ⟨by decide +kernel, by decide +kernel, ⟨by decide, by decide, by decide⟩, by decide +kernel,
    by decide +kernel, by decide +kernel⟩

/-! ## `op4.dir` on ASCII files -/

/-- **dir_matches_load_ascii.**  For every non-empty list of matrices written by the ASCII writer with `d`
digits (`1 ≤ d ≤ 73`; the hypotheses of `file_roundtrip_ascii`), `op4.dir` — `_skipop4_ascii`, which counts
lines from the column and string headers without reading a value — lists exactly what `op4.load` returns:
per matrix, in file order, the name field, `|rows|`, the columns, form and type (`ADec.listing`).  The listing
itself (`dirAscii … = some (ms.map listingOf)`) does not need the values to fit their fields: the skipper never
slices a value line. -/
theorem dir_matches_load_ascii (d : Nat) (hd : 1 ≤ d) (hd' : d ≤ 73) (ms : List (Layout × Mat)) (hne : ms ≠ [])
    (hok : ∀ p ∈ ms, MatOK d p) :
    dirAscii (encFileAscii d ms) = some (ms.map listingOf) ∧
      ∃ ds, loadAscii (encFileAscii d ms) = some ds ∧ dirAscii (encFileAscii d ms) = some (ds.map ADec.listing) := by
  have hp : 1 ≤ perline d := by
    unfold perline numlen numlenBase expdigits lineWidth
    exact (Nat.le_div_iff_mul_le (by omega)).2 (by omega)
  have hdir := dirAscii_enc d hp ms hne fun p hp' => ⟨(hok p hp').1, (hok p hp').2⟩
  obtain ⟨ds, hds, hrel⟩ := loadAscii_enc d hd hp ms hne hok
  exact ⟨hdir, ds, hds, by rw [hdir, listing_of_decs d ms ds hrel]⟩

/-- non-vacuity: the listing of a two-matrix file, one of them bigmat (negative rows in the file) -/
example :
    let m1 : Mat := { name := [75, 97], form := 2, cplx := false, rows := 4,
                      cols := [[(0x3FF8000000000000, 0), (0, 0), (0x4000000000000000, 0), (0, 0)]] }
    let m2 : Mat := { name := [66], form := 6, cplx := true, rows := 1, cols := [[(0x3FF0000000000000, 0x4000000000000000)]] }
    dirAscii (encFileAscii 9 [(.bigmat, m1), (.dense, m2)]) =
      some [("KA      ".toList, 4, 1, 2, 2), ("B       ".toList, 1, 1, 6, 4)] := by
  decide +kernel

/-- **sparse_views_ascii.**  The sparse views of the ASCII reader on a written file (hypotheses of
`file_roundtrip_ascii`): per matrix, `sparse=True` returns the triplets `cooListA` — the stored rows of
`storedIdx_spec`, column by column, each with the printed decimal(s) `aEntry d cplx x` of the stored element —
the column reader is `layOf` and `sparse=None` resolves to `autoOf` exactly as for binary files
(`sparse_auto_rule`); all on top of `ADecOf` (`file_roundtrip_ascii`). -/
theorem sparse_views_ascii (d : Nat) (hd : 1 ≤ d) (hd' : d ≤ 73) (ms : List (Layout × Mat)) (hne : ms ≠ [])
    (hok : ∀ p ∈ ms, MatOK d p) :
    ∃ ds, loadAscii (encFileAscii d ms) = some ds ∧
      List.Forall₂ (fun (p : Layout × Mat) (a : ADec) => ADecOf d p a ∧ a.layout = layOf p.1 p.2 ∧
        a.sparseAuto = autoOf p.1 p.2 ∧ cooOfPutsA a.puts = cooListA d p.1 p.2.cplx 0 p.2.cols) ms ds := by
  have hp : 1 ≤ perline d := by
    unfold perline numlen numlenBase expdigits lineWidth
    exact (Nat.le_div_iff_mul_le (by omega)).2 (by omega)
  exact loadAscii_encX d hd hp ms hne hok

end PyYetiVerif.C04
