import PyYetiVerif.Lemmas.FindapDups
import PyYetiVerif.Props.C10Locate
/-!
# C10 (continued) — `locate.find_duplicates` does what its documentation says

`Findap.findDuplicates` (the sorted-neighbour code: `argsort`, `abs(diff) <= tol`, either neighbour,
scattered back) equals `Findap.dupSpec` (the documented meaning: "True for any value that is
repeated anywhere else in the vector", within `tol`) for every tolerance and every vector.
Property theorems only; helper lemmas in `Lemmas/FindapDups.lean`.
-/
set_option linter.unusedVariables false
namespace PyYetiVerif.C10
open PyYetiVerif.Findap PyYetiVerif.Findap.Dups

section
variable {α : Type} [Field α] [LinearOrder α] [IsStrictOrderedRing α]

/-- **`find_duplicates` = its documentation**, for every tolerance (negative included) and every
vector (fewer than two values included). -/
theorem find_duplicates_eq_spec (tol : α) (v : List α) : findDuplicates tol v = dupSpec tol v := by
  unfold findDuplicates
  split
  · rename_i hlt
    match v, hlt with
    | [], _ => rfl
    | [a], _ => simp [dupSpec]
    | a :: b :: r, hlt => simp only [List.length_cons] at hlt; omega
  · dsimp only
    have hperm : (v.zipIdx.mergeSort fun a b => !decide (b.1 < a.1)).Perm v.zipIdx :=
      List.mergeSort_perm _ _
    have hsorted0 := List.pairwise_mergeSort (le := fun (a b : α × Nat) => !decide (b.1 < a.1))
      (by
        intro a b c hab hbc
        simp only [Bool.not_eq_true', decide_eq_false_iff_not, not_lt] at *
        exact le_trans hab hbc)
      (by
        intro a b
        simp only [Bool.or_eq_true, Bool.not_eq_true', decide_eq_false_iff_not, not_lt]
        exact le_total _ _) v.zipIdx
    generalize (v.zipIdx.mergeSort fun a b => !decide (b.1 < a.1)) = s at hperm hsorted0 ⊢
    have hsorted : (s.map (·.1)).Pairwise (· ≤ ·) := by
      rw [List.pairwise_map]
      refine hsorted0.imp ?_
      intro a b h
      simpa using h
    have hnodup : (s.map (·.2)).Nodup := by
      rw [(hperm.map _).nodup_iff]
      show (List.map Prod.snd v.zipIdx).Nodup
      rw [List.zipIdx_map_snd]
      exact List.nodup_range'
    apply List.ext_getElem
    · simp [dupSpec]
    · intro p h1 h2
      have hp : p < v.length := by simpa using h1
      simp only [List.getElem_map, List.getElem_range, dupSpec, List.getElem_zipIdx, Nat.zero_add]
      rw [← hperm.any_eq]
      split
      · rename_i q hq
        obtain ⟨k, hk, hkp, hqk⟩ := placed_some s (fun k =>
          (List.map (fun p => !decide (tol < absd p.2 p.1))
            ((List.map (fun x => x.1) s).zip (List.map (fun x => x.1) s).tail)).getD k false ||
          decide (0 < k) && (List.map (fun p => !decide (tol < absd p.2 p.1))
            ((List.map (fun x => x.1) s).zip (List.map (fun x => x.1) s).tail)).getD (k - 1) false) p q hq
        rw [hqk, flag_eq_any tol s hsorted hnodup k hk]
        have hmem : s[k] ∈ v.zipIdx := hperm.mem_iff.mp (List.getElem_mem hk)
        have hv := List.mem_zipIdx_iff_getElem?.mp hmem
        rw [hkp, List.getElem?_eq_getElem hp] at hv
        have hv' : v[p] = s[k].1 := Option.some.inj hv
        rw [hkp, hv']
      · rename_i hq
        exfalso
        have hmem : (v[p], p) ∈ s := hperm.mem_iff.mpr (List.mem_zipIdx_iff_getElem?.mpr (by simp))
        obtain ⟨k, hk, hkp⟩ := List.mem_iff_getElem.mp hmem
        exact placed_none s (fun k =>
          (List.map (fun p => !decide (tol < absd p.2 p.1))
            ((List.map (fun x => x.1) s).zip (List.map (fun x => x.1) s).tail)).getD k false ||
          decide (0 < k) && (List.map (fun p => !decide (tol < absd p.2 p.1))
            ((List.map (fun x => x.1) s).zip (List.map (fun x => x.1) s).tail)).getD (k - 1) false) p hq k hk (by rw [hkp])

/-- the same, position by position, in plain terms: `find_duplicates(v, tol)[p]` is `True` iff some
OTHER position `q` holds a value with `|v[q] - v[p]| ≤ tol` (non-strict: a difference of exactly `tol`
is a duplicate; `tol = 0`: exactly the repeated values). -/
theorem find_duplicates_iff (tol : α) (v : List α) (p : Nat) (hp : p < v.length) :
    (findDuplicates tol v)[p]? = some true ↔
      ∃ q, ∃ hq : q < v.length, q ≠ p ∧ |v[q] - v[p]| ≤ tol := by
  rw [find_duplicates_eq_spec]
  simp only [dupSpec, List.getElem?_map, List.getElem?_zipIdx, List.getElem?_eq_getElem hp,
    Option.map_some, Option.some.injEq, List.any_eq_true, Bool.and_eq_true, decide_eq_true_eq,
    Bool.not_eq_true', decide_eq_false_iff_not, not_lt, absd_eq_abs, zero_add]
  constructor
  · rintro ⟨⟨x, q⟩, hm, hne, hle⟩
    obtain ⟨hq, hx⟩ := List.getElem?_eq_some_iff.mp (List.mem_zipIdx_iff_getElem?.mp hm)
    simp only at hq hx hne hle
    exact ⟨q, hq, hne, by rw [hx]; exact hle⟩
  · rintro ⟨q, hq, hne, hle⟩
    exact ⟨(v[q], q), List.mem_zipIdx_iff_getElem?.mpr (List.getElem?_eq_getElem hq), hne, hle⟩

theorem find_duplicates_length (tol : α) (v : List α) : (findDuplicates tol v).length = v.length := by
  rw [find_duplicates_eq_spec]; simp [dupSpec]

/-- **a larger tolerance flags a superset**: every position flagged with `tol` is flagged with any
`tol' ≥ tol` (corollary of `find_duplicates_iff`). -/
theorem find_duplicates_monotone_tol (tol tol' : α) (h : tol ≤ tol') (v : List α) (p : Nat)
    (hf : (findDuplicates tol v)[p]? = some true) : (findDuplicates tol' v)[p]? = some true := by
  have hp : p < v.length := by
    have := (List.getElem?_eq_some_iff.mp hf).1
    rwa [find_duplicates_length] at this
  obtain ⟨q, hq, hne, hle⟩ := (find_duplicates_iff tol v p hp).mp hf
  exact (find_duplicates_iff tol' v p hp).mpr ⟨q, hq, hne, le_trans hle h⟩

/-- a negative tolerance flags nothing -/
theorem find_duplicates_neg_tol (tol : α) (v : List α) (h : tol < 0) :
    findDuplicates tol v = v.map fun _ => false := by
  rw [find_duplicates_eq_spec]
  apply List.ext_getElem
  · simp [dupSpec]
  · intro p h1 h2
    simp only [dupSpec, List.getElem_map]
    rw [List.any_eq_false]
    intro q _
    have : ∀ x : α, tol < absd q.1 x := by
      intro x; rw [absd_eq_abs]; exact lt_of_lt_of_le h (abs_nonneg _)
    simp [this]

end

example : dupSpec (0 : Rat) [0, 10, 2, 2, 6, 10, 10] =
    [false, true, true, true, false, true, true] := by decide +kernel

theorem find_duplicates_example : findDuplicates (0 : Rat) [0, 10, 2, 2, 6, 10, 10] =
    [false, true, true, true, false, true, true] := by
  rw [find_duplicates_eq_spec]; decide +kernel

end PyYetiVerif.C10
