import PyYetiVerif.Lemmas.BulkMulti
import PyYetiVerif.Lemmas.BulkSetMulti
import PyYetiVerif.Lemmas.BulkDmigX
/-!
# C13 — files that hold the cards of several readers

Property theorems only (helper lemmas: `Lemmas/BulkMulti.lean`, `Lemmas/BulkSetMulti.lean`).  The real use of the
readers: ONE file with several DMIG matrices, GRID, CORD2x, SPOINT, CSUPER, EXTRN, TABLED1 cards, comment lines, foreign
cards and case-control SET statements, read by each reader in turn.  `Seg` / `FileOK` (Model/BulkMulti.lean) describe
such a file for the card readers, `SSeg` / `SetFileOK` for `rdsets`.  Tied to pyyeti/nastran/bulk.py by the stream
`multi-file` (every reader of the real code and of the model on the same interleaved files) and by the oracle
(each reader returns on the interleaved file exactly what it returns on its own cards alone).
-/
namespace PyYetiVerif.C13
open PyYetiVerif.Bulk

/-- **Each card reader returns exactly its own cards' content, regardless of the other cards present.**  On a
well-formed file reader `k` of the family `ps` (whatever `keep_name`) returns the values of the card blocks it owns, in
file order — and that is also what it returns on the file from which every other segment has been removed.  In
particular no reader consumes the first line of the card that follows one of its own. -/
theorem readers_independent (ps : List (Txt → Bool)) (segs : List Seg) (h : FileOK ps segs) (k : Nat) (hk : k < ps.length)
    (keep : Bool) :
    rdcardsBy (ps.getD k fun _ => false) keep (fileOf segs) = ownCards keep k segs ∧
    rdcardsBy (ps.getD k fun _ => false) keep (fileOf (segs.filter (Seg.ownedBy k))) = ownCards keep k segs := by
  refine ⟨rdcardsBy_segs ps keep k hk segs h, ?_⟩
  rw [rdcardsBy_segs ps keep k hk _ (fileOK_filter ps k segs h), ownCards_filter]

/-- the typed readers on one shared file: `rddmig` (plain and with `expanded` / `square`), `rdgrids`, `rdcord2cards`,
`rdspoints`, `rdcsupers`, `rdextrn`, `rdtabled1` each return what they return on their own cards alone -/
theorem typed_readers_independent (segs : List Seg) (h : FileOK bulkReaders segs) :
    rdDmig (fileOf segs) = rdDmig (fileOf (segs.filter (Seg.ownedBy 0))) ∧
    (∀ o, rdDmigX o (fileOf segs) = rdDmigX o (fileOf (segs.filter (Seg.ownedBy 0)))) ∧
    rdGrids (fileOf segs) = rdGrids (fileOf (segs.filter (Seg.ownedBy 1))) ∧
    rdCord2 (fileOf segs) = rdCord2 (fileOf (segs.filter (Seg.ownedBy 2))) ∧
    rdSpoints (fileOf segs) = rdSpoints (fileOf (segs.filter (Seg.ownedBy 3))) ∧
    rdCsupers (fileOf segs) = rdCsupers (fileOf (segs.filter (Seg.ownedBy 4))) ∧
    rdExtrn (fileOf segs) = rdExtrn (fileOf (segs.filter (Seg.ownedBy 5))) ∧
    rdTabled1 (txt "tabled1") (fileOf segs) = rdTabled1 (txt "tabled1") (fileOf (segs.filter (Seg.ownedBy 6))) := by
  have key : ∀ (k : Nat) (hk : k < bulkReaders.length) (keep : Bool),
      rdcardsBy (bulkReaders.getD k fun _ => false) keep (fileOf segs) =
        rdcardsBy (bulkReaders.getD k fun _ => false) keep (fileOf (segs.filter (Seg.ownedBy k))) := by
    intro k hk keep
    obtain ⟨a, b⟩ := readers_independent bulkReaders segs h k hk keep
    rw [a, b]
  have d := key 0 (by decide) false
  have g := key 1 (by decide) false
  have c := key 2 (by decide) true
  have s := key 3 (by decide) false
  have cs := key 4 (by decide) false
  have e := key 5 (by decide) false
  have t := key 6 (by decide) false
  simp only [bulkReaders, List.getD_cons_zero, List.getD_cons_succ] at d g c s cs e t
  refine ⟨?_, fun o => ?_, ?_, ?_, ?_, ?_, ?_, ?_⟩
  · unfold rdDmig; rw [rdcards_eq_By, rdcards_eq_By, d]
  · unfold rdDmigX; rw [rdcards_eq_By, rdcards_eq_By, d]
  · unfold rdGrids; rw [rdcards_eq_By, rdcards_eq_By, g]
  · unfold rdCord2; rw [c]
  · unfold rdSpoints; rw [rdcards_eq_By, rdcards_eq_By, s]
  · unfold rdCsupers; rw [rdcards_eq_By, rdcards_eq_By, cs]
  · unfold rdExtrn; rw [rdcards_eq_By, rdcards_eq_By, e]
  · unfold rdTabled1; rw [rdcards_eq_By, rdcards_eq_By, t]

/-- **`rdsets` on a file with several SET statements between other lines** (comments, blank lines, cards — anything
that is neither a SET header nor `BEGIN BULK`): every statement written as by `wtset` (any grouping of its tokens into
lines) is returned with exactly its ids, in file order, a repeated set id overwriting the earlier one; nothing else
is returned and no line after a statement is consumed by it. -/
theorem sets_in_file (segs : List SSeg) (h : SetFileOK segs) : rdSets (setFileOf segs) = some (setsOf [] segs) :=
  rdSets_segs segs h

/-- the text of `wtset` is such a statement (tokens not longer than `max_length`) -/
theorem wtset_is_segment (setid : Int) (ids : List Int) (maxLen : Nat) (hs : 0 ≤ setid) (hne : ids ≠ [])
    (hn : ∀ x ∈ ids, 0 ≤ x) (h : ∀ t ∈ setTokens setid ids, t.length ≤ maxLen) (r : List SSeg) (hr : SetFileOK r) :
    ∃ T1 Gs, setLines setid ids maxLen = (SSeg.set setid (compress ids) T1 Gs).lines ∧
      SetFileOK (SSeg.set setid (compress ids) T1 Gs :: r) ∧
      setsOf [] [SSeg.set setid (compress ids) T1 Gs] = [(Val.int setid, ids)] := by
  obtain ⟨T1, Gs, e, hGs, hfl⟩ := setLines_segment setid ids maxLen hne h
  refine ⟨T1, Gs, e, ⟨hs, compress_ne_nil ids hne, compress_nonneg ids hn, hGs, hfl, hr⟩, ?_⟩
  simp [setsOf, dictPut, compress_expand]

/-! ### non-vacuity: one file, three readers -/

/-- a DMIG matrix, a comment, two GRID cards (one 16 wide with its continuation line), a foreign card, a CORD2R card
with two continuation lines, a blank line -/
def exFile : List Seg :=
  [.card 0 (txt "DMIG    K              0       6       2       0       0               2") [],
   .card 0 (txt "DMIG*   K                              1               1")
     [txt "*                      1               1 3.000000000D+00"],
   .junk [txt "$ grids"],
   .card 1 (txt "GRID           7       0    1.00    2.00    3.00       0") [],
   .card 1 (txt "GRID*                  8               0      1.00000000      2.00000000")
     [txt "*             3.00000000               0"],
   .junk [txt "PARAM   POST    -1"],
   .card 2 (txt "CORD2R*              10               0  0.00000000e+00  0.00000000e+00*")
     [txt "*         0.00000000e+00  0.00000000e+00  0.00000000e+00  1.00000000e+00*",
      txt "*         1.00000000e+00  0.00000000e+00  0.00000000e+00"],
   .junk [[]]]

example : FileOK bulkReaders exFile := fileOKb_sound _ _ (by decide)

example : (rdcardsBy cord2Match true (fileOf exFile)).length = 1 ∧ (rdcards (txt "grid") (fileOf exFile)).length = 2 ∧
    (rdcards (txt "dmig") (fileOf exFile)).length = 2 := by
  have h : FileOK bulkReaders exFile := fileOKb_sound _ _ (by decide)
  refine ⟨?_, ?_, ?_⟩
  · have := (readers_independent bulkReaders exFile h 2 (by decide) true).1
    simp only [bulkReaders, List.getD_cons_zero, List.getD_cons_succ] at this
    rw [this]; rfl
  · rw [rdcards_eq_By]
    have := (readers_independent bulkReaders exFile h 1 (by decide) false).1
    simp only [bulkReaders, List.getD_cons_zero, List.getD_cons_succ] at this
    rw [this]; rfl
  · rw [rdcards_eq_By]
    have := (readers_independent bulkReaders exFile h 0 (by decide) false).1
    simp only [bulkReaders, List.getD_cons_zero, List.getD_cons_succ] at this
    rw [this]; rfl

/-- the boundary condition is what a reader needs: a line of blanks after an 8-wide card IS a continuation line for
`_rdfixed` (it starts with one of `" +"`), so such a file is not well formed -/
example : isCont .f8 (txt "        ") = true ∧ isCont .f8 (txt "$ comment") = false ∧ isCont .f8 [] = false := by decide

/-- two SET statements between comments -/
example : rdSets [txt "$ sets", txt "SET 7 = 1 THRU 3, ", txt "5", txt "DISP = ALL", txt "SET 9 = 4"] =
    some [(.int 7, [1, 2, 3, 5]), (.int 9, [4])] := by decide

end PyYetiVerif.C13
