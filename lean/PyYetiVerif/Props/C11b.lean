import PyYetiVerif.Lemmas.Op4VariantsReadDense
import PyYetiVerif.Lemmas.Op4VariantsReadCut
/-!
# C11 (continued) — the binary OUTPUT4 reader, every physical variant

Property theorems only.  `Model/Op4VariantsRead.lean` (namespace `Op4VR`) is a transcription of pyYeti's binary
OUTPUT4 reader — `_op4open_read` / `_decode_format`, `_loadop4_binary`, `_get_funcs`, `_rd_dense_binary`,
`_rd_bigmat_binary`, `_rd_nonbigmat_binary`, `_skipop4_binary`, `_check_name`, the loops of `listload(namelist)`
and `dir` — generic over the byte order and key width it detects and over the precision each matrix header
announces, with `_rowsCutoff` as a parameter.  `Model/Op4Variants.lean` (`encVFile`) is the independent encoder
of the same variants (it shares no code with pyYeti; the files it writes are read by the real `op4.load` in
the correspondence check).  The reader model is tied to op4.py by exact correspondence on generated files,
on every binary sample file shipped in pyyeti/tests and on truncated files (driver command `rd4`).

Variants: `Variant = (byte order) × (32/64-bit keys) × (single/double)`; a matrix `VMat` carries its layout
(dense / bigmat / nonbigmat), the sign of the row count in the header and, per present column, an arbitrary
list of strings `(first row, reals)` — any partition, adjacent strings, strings of length one, zeros inside
strings, in any order.  `VMatOk` collects what the format itself requires (keys and record lengths
representable, identifier name that fits the name field, column indices inside the matrix, one run of values
per dense record, bigmat ⇔ negative or ≥ 65536 rows for the sparse layouts, rows below 2¹⁶ in a packed
nonbigmat header).
-/
namespace PyYetiVerif.C11
open PyYetiVerif.Op4 (Endian Layout lowerB)
open PyYetiVerif.Op4V (Variant VStr VMat encVFile encVMat headerRec)
open PyYetiVerif.Op4VR

/-- **op4_variant_file_roundtrip.**  For EVERY variant `v` (byte order × key width × precision), every value of
`_rowsCutoff`, every non-empty list of admissible matrices — each with its own layout, real or complex, any
partition of its columns into strings: the reader run on the bytes of `encVFile v ms` (format detection on
the first bytes, then `_loadop4_binary` until the end of the file) returns exactly one `VDec` per matrix, in
file order, with the lower-cased name, the header integers, the column reader `_get_funcs` picks and, as puts
`(row, column, reals)` in file order, exactly the strings that were encoded. -/
theorem op4_variant_file_roundtrip (v : Variant) (cut : Int) (ms : List VMat) (hne : ms ≠ [])
    (hok : ∀ m ∈ ms, VMatOk v m) :
    loadBytes cut [] (encVFile v ms) = .ok (ms.map (decOf v)) := by
  unfold loadBytes
  rw [detect_enc v ms hne]
  simp only
  have hf : ms.length < (encVFile v ms).length + 1 := by have := length_le_encVFile v ms; omega
  rw [loadLoop_enc v cut [] ms 0 _ hok hf]
  congr 1
  apply List.filter_eq_self.2
  intro d _
  simp [skipped]

/-- **skip_positions_variants.**  `_skipop4_binary` and `_loadop4_binary` end at the same place, for every
variant: behind the header record of an encoded matrix, followed by arbitrary bytes `rest`, the full read
returns the matrix and leaves exactly `rest`, and the skipper leaves exactly `rest`. -/
theorem skip_positions_variants (v : Variant) (cut : Int) (m : VMat) (hm : VMatOk v m) (rest : List Nat) :
    rdHdr (v2 v) (encVMat v m ++ rest) = .ok (some (hdrOf v m, bodyBytes v m ++ rest)) ∧
      rdBody (v2 v) cut (hdrOf v m) (bodyBytes v m ++ rest)
        = .ok ((decOf v m).layout, (decOf v m).sparseAuto, (decOf v m).puts, rest) ∧
      skipCols (v2 v) (hdrOf v m).cols ((bodyBytes v m ++ rest).length + 1) 0 (bodyBytes v m ++ rest) = .ok rest := by
  refine ⟨?_, rdBody_enc v cut m hm rest, skipBody_enc v m hm rest⟩
  rw [encVMat_eq, List.append_assoc]
  exact rdHdr_enc v m hm _

/-- **dir_matches_load_variants.**  Listings match reads, for every variant: `dir` on an encoded file returns,
in order, exactly the name, `|rows|`, columns, form and type of the matrices `load` returns. -/
theorem dir_matches_load_variants (v : Variant) (cut : Int) (ms : List VMat) (hne : ms ≠ [])
    (hok : ∀ m ∈ ms, VMatOk v m) :
    ∃ ds, loadBytes cut [] (encVFile v ms) = .ok ds ∧ dirBytes (encVFile v ms) = .ok (ds.map VDec.listing) ∧
      ds.map VDec.listing = ms.map fun m =>
        (m.name.map lowerB, ((m.rows : Nat) : Int), ((m.ncols : Nat) : Int), ((m.form : Nat) : Int),
          ((Op4V.mtypeV v m.cplx : Nat) : Int)) := by
  refine ⟨_, op4_variant_file_roundtrip v cut ms hne hok, ?_, ?_⟩
  · unfold dirBytes
    rw [detect_enc v ms hne]
    simp only
    have hf : ms.length < (encVFile v ms).length + 1 := by have := length_le_encVFile v ms; omega
    rw [dirLoop_enc v ms 0 _ hok hf, List.map_map]
    rfl
  · rw [List.map_map]
    apply List.map_congr_left
    intro m _
    simp only [Function.comp, VDec.listing, decOf, rowsKey]
    by_cases h : m.negRows = true
    · simp only [h, if_true]; split <;> first | (congr 2; omega) | omega | rfl
    · simp only [h]; split <;> first | (congr 2; omega) | omega | rfl

/-- the name test of `_loadop4_binary` is list membership, i.e. EXACT equality with one of the given names:
a matrix is read iff there is no name list or its (lower-cased) name equals an entry of the list — a name that
is a proper prefix (or any other substring) of an entry does not match -/
theorem namelist_test_exact (pl : List (List Nat)) (name : List Nat) :
    skipped pl name = false ↔ pl = [] ∨ ∃ p ∈ pl, p = name := by
  unfold skipped
  cases pl with
  | nil => simp
  | cons a t =>
    simp only [List.isEmpty_cons, Bool.not_false, Bool.true_and, Bool.not_eq_false', List.contains_eq_mem,
      decide_eq_true_eq, reduceCtorEq, false_or]
    constructor
    · intro h; exact ⟨name, h, rfl⟩
    · rintro ⟨p, hp, rfl⟩; exact hp

/-- **named_subset_is_filter (OUTPUT4 binary).**  For every variant and every name list `pl`,
`load(file, namelist=pl, into='list')` equals the filter of the full read by the name test
(`namelist_test_exact`): all occurrences of a repeated name are kept, in file order (list mode); the matrices
not asked for are skipped by `_skipop4_binary` and every one met — read or skipped — advances the name counter. -/
theorem named_subset_is_filter_binary (v : Variant) (cut : Int) (pl : List (List Nat)) (ms : List VMat) (hne : ms ≠ [])
    (hok : ∀ m ∈ ms, VMatOk v m) :
    ∃ full, loadBytes cut [] (encVFile v ms) = .ok full ∧
      loadBytes cut pl (encVFile v ms) = .ok (full.filter fun d => !skipped pl d.name) := by
  refine ⟨_, op4_variant_file_roundtrip v cut ms hne hok, ?_⟩
  unfold loadBytes
  rw [detect_enc v ms hne]
  simp only
  have hf : ms.length < (encVFile v ms).length + 1 := by have := length_le_encVFile v ms; omega
  exact loadLoop_enc v cut pl ms 0 _ hok hf

/-- **cutoff_irrelevant (OUTPUT4), part 1: the two value-reading paths are the same function of the bytes.**
Whenever the `n ≥ 0` reals announced are present, `struct.unpack(numform % n, fp.read(bytesreal * n))` (used
below `_rowsCutoff`) and `numpy.fromfile(fp, numform2, n)` (used from `_rowsCutoff` on) return the same bit
patterns and leave the same bytes; so the value read does not depend on the cut-off. -/
theorem op4_cutoff_paths_agree (e : Endian) (w : Nat) (hw : 0 < w) (n : Int) (s : List Nat) (hn : 0 ≤ n)
    (hav : n.toNat * w ≤ s.length) (c₁ c₂ : Int) (v : Op2.V2) (wp : Nat) :
    valsStruct e w n s = valsFromfile e w n s ∧
      rdVals ⟨⟨e, v.bit64⟩, c₁, wp, w⟩ n s = rdVals ⟨⟨e, v.bit64⟩, c₂, wp, w⟩ n s := by
  have h := valsStruct_eq_valsFromfile e w hw n s hn hav
  refine ⟨h, ?_⟩
  unfold rdVals
  simp only
  split <;> split <;> simp [h]

/-- **cutoff_irrelevant, part 2**: the whole read of an encoded file does not depend on `_rowsCutoff` (every
string of every column may lie on either side of it) -/
theorem op4_cutoff_irrelevant_enc (v : Variant) (c₁ c₂ : Int) (pl : List (List Nat)) (ms : List VMat) (hne : ms ≠ [])
    (hok : ∀ m ∈ ms, VMatOk v m) :
    loadBytes c₁ pl (encVFile v ms) = loadBytes c₂ pl (encVFile v ms) := by
  obtain ⟨f1, hf1, h1⟩ := named_subset_is_filter_binary v c₁ pl ms hne hok
  obtain ⟨f2, hf2, h2⟩ := named_subset_is_filter_binary v c₂ pl ms hne hok
  rw [op4_variant_file_roundtrip v c₁ ms hne hok] at hf1
  rw [op4_variant_file_roundtrip v c₂ ms hne hok] at hf2
  cases hf1
  cases hf2
  rw [h1, h2]

/-- **cutoff_irrelevant (OUTPUT4), on every byte string.**  No encoder: for EVERY file `f`, every name list and
any two values of `_rowsCutoff`, if the read with the first cut-off succeeds then the read with the second
succeeds and returns the same matrices — the two value-reading paths on either side of the cut-off are the same
function of the bytes wherever a read succeeds.  (Where `struct.unpack` raises on a string cut short by the end
of the file, `numpy.fromfile` returns fewer values and the failure comes one read later.) -/
theorem op4_cutoff_irrelevant (c₁ c₂ : Int) (pl : List (List Nat)) (f : List Nat) (ds : List VDec)
    (h : loadBytes c₁ pl f = .ok ds) : loadBytes c₂ pl f = .ok ds := by
  unfold loadBytes at h ⊢
  cases hd : detect f with
  | error e => rw [hd] at h; cases h
  | ok o =>
    cases o with
    | none => rw [hd] at h; cases h
    | some v =>
      rw [hd] at h
      exact loadLoop_indep v c₁ c₂ pl _ _ _ ds h

/-- **decoded to exactly the encoded matrix, whatever the partition.**  `applyPuts` is the dense read
(`X[r : r + len(Y), c] = Y` for every put, numpy semantics, on a zero matrix of `ncols` columns of `m·rows`
stored reals, `m = 2` for complex).  If every put is a slice of its column of `target` holding whole elements,
and every non-zero stored real of `target` lies in some put — the strings may touch, overlap, hold zeros, come
in any order, in any column order — the matrix rebuilt is `target`.  With `op4_variant_file_roundtrip` (the
puts read are the strings encoded, `mem_puts_iff`) this is: any two partitions of the same matrix, in any
variant and layout, are read as the same matrix. -/
theorem op4_variant_dense_matrix (m rows ncols : Nat) (target : List (List Nat)) (puts : List Put)
    (ht : Shape target ncols (m * rows)) (hok : ∀ p ∈ puts, PutOk m rows ncols target p)
    (hcov : ∀ j < ncols, ∀ i < m * rows, get2 target j i ≠ 0 → ∃ p ∈ puts, covers m p j i) :
    applyPuts m rows ncols puts = .ok target :=
  applyPuts_partition m rows ncols target puts ht hok hcov

/-- the puts of an encoded matrix are exactly its strings -/
theorem mem_puts_iff (v : Variant) (m : VMat) (p : Put) :
    p ∈ (decOf v m).puts ↔ ∃ q ∈ m.cols, ∃ s ∈ q.2, p = (s.1, q.1, s.2) :=
  mem_putsOfCols m.cols p

/-- **list mode keeps every occurrence, dict mode the last one.**  `listload` returns the matrices in file order
(`op4_variant_file_roundtrip`, `named_subset_is_filter_binary`: all occurrences of a repeated name);
`dctload` stores them with `dct[name] = X` in that order, so `dct[name]` is the LAST matrix of that name
(`lastOcc`), whatever dictionary it started from -/
theorem dct_keeps_last {α} (k : List Nat) (l : List (List Nat × α)) :
    lookupD k (dctOf l) = lastOcc k l := by
  unfold dctOf
  rw [lookup_dctOf k l []]
  cases lastOcc k l <;> rfl

/-- **namelist_is_filter** (any multiset of names in the file, any name list).  For an encoded file whose matrix
names may repeat anywhere: `load(file, namelist=pl, into='list')` is the filter of the full read by the name test —
EVERY occurrence of a requested name, in file order (the scan does not stop after the first hit) — and
`read(file, namelist=pl)[k]` (dict mode: `dct[name] = X` over that list) is, for every requested name `k`, the LAST
matrix named `k` in the whole file. -/
theorem namelist_is_filter (v : Variant) (cut : Int) (pl : List (List Nat)) (ms : List VMat) (hne : ms ≠ [])
    (hok : ∀ m ∈ ms, VMatOk v m) :
    ∃ full named, loadBytes cut [] (encVFile v ms) = .ok full ∧ loadBytes cut pl (encVFile v ms) = .ok named ∧
      named = full.filter (fun d => !skipped pl d.name) ∧
      ∀ k, skipped pl k = false →
        lookupD k (dctOf (named.map fun d => (d.name, d))) = lastOcc k (full.map fun d => (d.name, d)) := by
  obtain ⟨full, hfull, hnamed⟩ := named_subset_is_filter_binary v cut pl ms hne hok
  refine ⟨full, _, hfull, hnamed, rfl, ?_⟩
  intro k hk
  rw [dct_keeps_last]
  have := lastOcc_filter (α := VDec) (fun n => !skipped pl n) k (by simp [hk]) (full.map fun d => (d.name, d))
  rw [← this, List.filter_map]
  rfl

/-! ### non-vacuity: admissible matrices in every layout, for a 64-bit single precision big-endian file and for a
32-bit double precision little-endian one; a column cut into two adjacent strings, a string of length one, a
stored zero; an empty matrix with a negative row count -/

def exBig : VMat := ⟨[75, 65, 65], 6, false, 5, 3, .bigmat, true, [(0, [(0, [5, 6]), (2, [7]), (4, [0])]), (2, [(1, [9])])]⟩
def exNonbig : VMat := ⟨[109, 49], 2, true, 4, 2, .nonbigmat, false, [(1, [(0, [1, 2, 3, 4]), (3, [5, 6])])]⟩
def exDense : VMat := ⟨[68], 1, false, 3, 2, .dense, false, [(0, [(1, [8, 9])]), (1, [(0, [1, 2, 3])])]⟩
def exEmpty : VMat := ⟨[90, 95, 49], 2, false, 70000, 4, .bigmat, true, []⟩

example : ∀ m ∈ [exBig, exNonbig, exDense, exEmpty], VMatOk ⟨.big, true, true⟩ m ∧ VMatOk ⟨.little, false, false⟩ m := by
  decide

/-- what the four example matrices are read as (names, header rows, chosen reader, `sparse=None`, puts) -/
example : [exBig, exNonbig, exDense, exEmpty].map (decOf ⟨.big, true, true⟩)
    = [⟨[107, 97, 97], -5, 3, 6, 1, .bigmat, true, [(0, 0, [5, 6]), (2, 0, [7]), (4, 0, [0]), (1, 2, [9])]⟩,
       ⟨[109, 49], 4, 2, 2, 3, .nonbigmat, true, [(0, 1, [1, 2, 3, 4]), (3, 1, [5, 6])]⟩,
       ⟨[100], 3, 2, 1, 1, .dense, false, [(1, 0, [8, 9]), (0, 1, [1, 2, 3])]⟩,
       ⟨[122, 95, 49], -70000, 4, 2, 1, .bigmat, true, []⟩] := by
  decide

/-- the name test is exact: `ka` is a prefix of `kaa` and does not select it; `kaa` does -/
example : skipped [[107, 97]] [107, 97, 97] = true ∧ skipped [[107, 97, 97]] [107, 97, 97] = false ∧
    skipped [] [107, 97, 97] = false := by decide

/-- two partitions of the same 5 × 1 column (one with adjacent strings and a stored zero, one with a single
string) satisfy the hypotheses of `op4_variant_dense_matrix` for the same target; a repeated name in dict mode -/
example : Shape [[0, 5, 6, 0, 7]] 1 (1 * 5) ∧
    (∀ p ∈ [((1 : Nat), (0 : Nat), [5, 6]), (3, 0, [0, 7])], PutOk 1 5 1 [[0, 5, 6, 0, 7]] p) ∧
    (∀ p ∈ [((0 : Nat), (0 : Nat), [0, 5, 6, 0, 7])], PutOk 1 5 1 [[0, 5, 6, 0, 7]] p) := by
  refine ⟨⟨rfl, by simp⟩, ?_, ?_⟩
  · intro p hp
    simp only [List.mem_cons, List.not_mem_nil, or_false] at hp
    rcases hp with rfl | rfl
    · exact ⟨by decide, by decide, by decide, fun k hk => by
        have : k = 0 ∨ k = 1 := by simp at hk; omega
        rcases this with rfl | rfl <;> rfl⟩
    · exact ⟨by decide, by decide, by decide, fun k hk => by
        have : k = 0 ∨ k = 1 := by simp at hk; omega
        rcases this with rfl | rfl <;> rfl⟩
  · intro p hp
    simp only [List.mem_cons, List.not_mem_nil, or_false] at hp
    subst hp
    exact ⟨by decide, by decide, by decide, fun k hk => by
      have : k = 0 ∨ k = 1 ∨ k = 2 ∨ k = 3 ∨ k = 4 := by simp at hk; omega
      rcases this with rfl | rfl | rfl | rfl | rfl <;> rfl⟩

example : lookupD [107] (dctOf [([107], 1), ([109], 2), ([107], 3)]) = some 3 ∧
    (dctOf [([107], 1), ([109], 2), ([107], 3)]).map (·.1) = [[107], [109]] := by decide

/-- a file with the names kaa, maa, kaa, pha, pha: the name test keeps every occurrence; dict mode the last -/
example : ([[107, 97, 97], [109, 97, 97], [107, 97, 97], [112, 104, 97], [112, 104, 97]].filter
      fun n => !skipped [[112, 104, 97]] n) = [[112, 104, 97], [112, 104, 97]] ∧
    lastOcc [107, 97, 97] [([107, 97, 97], 1), ([109, 97, 97], 2), ([107, 97, 97], 3)] = some 3 := by decide

end PyYetiVerif.C11
