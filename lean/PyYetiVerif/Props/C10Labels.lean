import PyYetiVerif.Model.BinifyLabels
import PyYetiVerif.Props.C10
import Mathlib.Algebra.Order.Floor.Ring
import Mathlib.Data.Rat.Floor
import Mathlib.Tactic.Linarith
import Mathlib.Tactic.Positivity
/-!
# C10 (continued) — `binify` labels and packaging, `sigcount` as a composition

`Model/BinifyLabels.lean`: `_getlabels`, `use_pandas`, `retbins`, `sigcount`.  Tied by the exact
`bx` / `sx` streams of harness/props/c10.py (labels compared as strings).
-/
set_option linter.unusedVariables false
namespace PyYetiVerif.C10
open PyYetiVerif.Binify

/-- the label number is within half a unit in the last printed place of the edge -/
theorem roundHalfEven_close (x : ℚ) : |((roundHalfEven x : ℤ) : ℚ) - x| ≤ 1 / 2 := by
  have hf : x.floor = ⌊x⌋ := by rw [Rat.floor_def', Rat.floor_def]
  have h1 : ((⌊x⌋ : ℤ) : ℚ) ≤ x := Int.floor_le x
  have h2 : x < ((⌊x⌋ : ℤ) : ℚ) + 1 := Int.lt_floor_add_one x
  unfold roundHalfEven
  simp only [hf]
  rw [abs_le]
  split
  · constructor <;> linarith
  · split
    · push_cast; constructor <;> linarith
    · rename_i a b
      split
      · constructor <;> linarith
      · push_cast; constructor <;> linarith

/-- **when labels cannot collide**: two edges more than `10^-precision` apart get different
label numbers (strictly increasing), so a bin wider than one unit in the last printed place never
has equal lower and upper label, and consecutive bins never share a label. -/
theorem labels_distinct_of_gap (p : Nat) (a b : ℚ) (h : 1 < (b - a) * (10 : ℚ) ^ p) :
    labelNum p a < labelNum p b := by
  unfold labelNum
  have ha := abs_le.mp (roundHalfEven_close (a * (10 : ℚ) ^ p))
  have hb := abs_le.mp (roundHalfEven_close (b * (10 : ℚ) ^ p))
  have : ((roundHalfEven (a * (10 : ℚ) ^ p) : ℤ) : ℚ) < ((roundHalfEven (b * (10 : ℚ) ^ p) : ℤ) : ℚ) := by
    have e : (b - a) * (10 : ℚ) ^ p = b * (10 : ℚ) ^ p - a * (10 : ℚ) ^ p := by ring
    linarith
  exact_mod_cast this

/-- **when they do**: three edges `1.0001, 1.0002, 1.0003` with the default `precision=3` all
print as `1.000` — both bins get the same label (the DataFrame then has two equal column names). -/
theorem label_collision_example :
    labelNum 3 (10001 / 10000) = 1000 ∧ labelNum 3 (10002 / 10000) = 1000 ∧
      labelNum 3 (10003 / 10000) = 1000 := by
  refine ⟨by decide +kernel, by decide +kernel, by decide +kernel⟩

/-- one label per bin -/
theorem getLabels_length (right : Bool) (p : Nat) (bins : List Rat) :
    (getLabels right p bins).length = bins.length - 1 := by
  induction bins with
  | nil => rfl
  | cons a t ih =>
      cases t with
      | nil => rfl
      | cons b t' =>
          simp only [getLabels, List.length_cons] at ih ⊢
          omega

/-- **packaging**: `binify` returns the table of `_binify` unchanged; with `use_pandas` its index
are the mean-bin labels and its columns the amplitude-bin labels (names "Mean" / "Amp"), one per
bin; with `retbins` the very edges the table was counted with. -/
theorem binify_packaging (right : Bool) (p : Nat) (retbins usePandas check : Bool)
    (ampS meanS : BinSpec Rat) (cycles : List (Rat × Rat × Rat)) (T : List (List Rat)) (ampb aveb : List Rat)
    (h : binifyApi right check ampS meanS cycles = .table T ampb aveb) :
    ∃ r, binifyFull right p retbins usePandas check ampS meanS cycles = .ok r ∧ r.table = T ∧
      (usePandas = true → r.index = some (getLabels right p aveb) ∧ r.columns = some (getLabels right p ampb) ∧
        r.names = some ("Mean", "Amp") ∧ (getLabels right p aveb).length = aveb.length - 1 ∧
        (getLabels right p ampb).length = ampb.length - 1) ∧
      (usePandas = false → r.index = none ∧ r.columns = none ∧ r.names = none) ∧
      (retbins = true → r.bins = some (ampb, aveb)) ∧ (retbins = false → r.bins = none) := by
  unfold binifyFull
  rw [h]
  refine ⟨_, rfl, rfl, ?_, ?_, ?_, ?_⟩
  · intro hu; subst hu
    exact ⟨rfl, rfl, rfl, getLabels_length _ _ _, getLabels_length _ _ _⟩
  · intro hu; subst hu; exact ⟨rfl, rfl, rfl⟩
  · intro hr; subst hr; rfl
  · intro hr; subst hr; rfl

/-- **`sigcount = binify ∘ rainflow ∘ findap`** (`check_bounds` at its default): the signal goes
through the default `findap` with `tol = 1e-6`, the selected samples through `rainflow`, the
`[amp, mean, count] = [range/2, (a+b)/2, 0.5 | 1]` rows through `binify`; an empty signal or fewer
than two reversals is a `ValueError`. -/
theorem sigcount_is_composition (tol : Rat) (right : Bool) (p : Nat) (retbins usePandas : Bool)
    (ampS meanS : BinSpec Rat) (y : List Rat) :
    sigcountFull tol right p retbins usePandas ampS meanS y =
      match Findap.findapDefFix tol y with
      | none => .valueError
      | some m =>
          match Rainflow.rainflowApi (Findap.select m y) with
          | none => .valueError
          | some t => binifyFull right p retbins usePandas true ampS meanS
              (t.map fun c => (c.rng / 2, c.sum / 2, if c.full then 1 else 1 / 2)) := by
  unfold sigcountFull cycleRows
  cases Findap.findapDefFix tol y with
  | none => rfl
  | some m =>
      simp only []
      cases Rainflow.rainflowApi (Findap.select m y) <;> rfl

/-- hence with integer bin counts `sigcount` conserves the rainflow count: the table total is the
summed count of the cycle table, every cycle inside a bin of both axes (`binify_auto_conserves`). -/
theorem sigcount_auto_conserves (tol : Rat) (right : Bool) (p : Nat) (na nm : Nat) (hna : 0 < na) (hnm : 0 < nm)
    (y : List Rat) (c : Rat × Rat × Rat) (cs : List (Rat × Rat × Rat)) (h : cycleRows tol y = some (c :: cs)) :
    ∃ r, sigcountFull tol right p true false (.scalar na) (.scalar nm) y = .ok r ∧
      tableSum r.table = ((c :: cs).map (·.2.2)).sum := by
  obtain ⟨T, ampb, aveb, e, hs, _⟩ := binify_auto_conserves right true na nm hna hnm c cs
  unfold sigcountFull
  rw [h]
  simp only [binifyFull, e]
  exact ⟨_, rfl, hs⟩

/-! ### non-vacuity -/

example : getLabels true 3 [499 / 125, 6, 8] = ["(3.992, 6.000]", "(6.000, 8.000]"] := by decide +kernel
example : (1 : ℚ) < ((6 : ℚ) - 499 / 125) * (10 : ℚ) ^ 3 := by norm_num
example : cycleRows (1 / 1000000) [0, 2, -1, 3, 0] =
    some [(1, 1, 1 / 2), (3 / 2, 1 / 2, 1 / 2), (2, 1, 1 / 2), (3 / 2, 3 / 2, 1 / 2)] := by decide +kernel

end PyYetiVerif.C10
