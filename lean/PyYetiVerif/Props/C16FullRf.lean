import PyYetiVerif.Props.C16FullRoutine
import PyYetiVerif.Lemmas.ApplyUfFullRf
/-!
# C16 — uncertainty factors with full modal matrices: the whole routine WITH residual flexibility

Property theorems only.  `Props/C16FullRoutine.lean` covers `rfmodes = None`; here `rfmodes` is ANY
index list `rf` of distinct modes at or above `nrb` (in any order, as `np.ix_` / fancy indexing take
it), or — through `normRf` — a boolean mask or a single integer.  `dataRf …` enumerates the well-shaped
inputs of `applyFull`; the elastic partition is `eOf n nrb rf` (`flippv(rfmodes, n)[nrb:]`), the
residual-flexibility partition `idxOf rf _`.  `Function.extend idx w base` is "rows `idx` hold `w`, all
other rows hold `base`": the result of `x[idx] = w` when every row is written at most once.
-/
namespace PyYetiVerif.C16
open PyYetiVerif.ApplyUf PyYetiVerif.ApplyUfFull

section partition
variable {n : Nat}

/-- ★ the three partitions `rb | el | rf` cover `0 … n-1` and are pairwise disjoint: every row of
every output array is written exactly once (by the rigid-body zeroing / scaling, by the elastic
scatter or by the residual-flexibility scatter). -/
theorem rows_partition (nrb : Nat) (h : nrb ≤ n) (rf : List Nat) (hlo : ∀ i ∈ rf, nrb ≤ i)
    (hhi : ∀ i ∈ rf, i < n) (j : Fin n) :
    (j.val < nrb ∧ (¬∃ p, idxOf rf hhi p = j) ∧ ¬∃ q, eOf n nrb rf q = j) ∨
    (¬j.val < nrb ∧ (∃ p, idxOf rf hhi p = j) ∧ ¬∃ q, eOf n nrb rf q = j) ∨
    (¬j.val < nrb ∧ (¬∃ p, idxOf rf hhi p = j) ∧ ∃ q, eOf n nrb rf q = j) := by
  have he : (∃ q, eOf n nrb rf q = j) ↔ nrb ≤ j.val ∧ j.val < n ∧ j.val ∉ rf := by
    unfold eOf
    rw [exists_idxOf, mem_elasticIdx n nrb h rf hlo]
  rw [he, exists_idxOf]
  by_cases h1 : j.val < nrb
  · left
    exact ⟨h1, fun hm => by have := hlo _ hm; omega, fun hm => by omega⟩
  · right
    by_cases h2 : j.val ∈ rf
    · left
      exact ⟨h1, h2, fun hm => hm.2.2 h2⟩
    · right
      exact ⟨h1, h2, by omega, j.isLt, h2⟩

end partition

section routine
variable {α : Type} [Field α] {n : Nat}

/-- ★ the whole routine on full matrices WITH residual-flexibility modes, for any number of columns:
with `e` the elastic and `r` the residual-flexibility partition,

* `a`, `v`: rigid-body rows scale by `ruf·suf`, residual-flexibility rows are zeroed, elastic rows
  scale by `euf·duf`;
* `d_static`: elastic rows `euf·suf·inv(k[e,e])·F`, `F = m a + b v + k d` on the elastic partition;
  residual-flexibility rows `euf·suf·inv(k[r,r])·(k[r,r]·d[r]) = euf·suf·d[r]`; rigid-body rows zero;
* `d_dynamic`: elastic rows `−euf·duf·inv(k[e,e])·(m a + b v)`; all other rows zero;
* `d = d_static + d_dynamic`. -/
theorem uf_scaling_full_routine_rf (uf : Uf α) (nrb : Nat) (h : nrb < n) (rf : List Nat)
    (hnd : rf.Nodup) (hhi : ∀ i ∈ rf, i < n) (m : Option (ArgM n α)) (b : ArgM n α)
    (K : Matrix (Fin n) (Fin n) α)
    (KeeInv : Matrix (Fin (elasticIdx n nrb rf).length) (Fin (elasticIdx n nrb rf).length) α)
    (KrrInv : Matrix (Fin rf.length) (Fin rf.length) α)
    (cs : List ((Fin n → α) × (Fin n → α) × (Fin n → α)))
    (hE : K.submatrix (eOf n nrb rf) (eOf n nrb rf) * KeeInv = 1)
    (hR : K.submatrix (idxOf rf hhi) (idxOf rf hhi) * KrrInv = 1) :
    (applyFull none (dataRf nrb rf m b K KeeInv KrrInv)
        (cs.map fun c => ⟨toL c.1, toL c.2.1, toL c.2.2⟩) uf).1
      = cs.map fun c =>
          let e := eOf n nrb rf
          let r := idxOf rf hhi
          let av := (mMat (m.map (ArgM.blockBy e))).mulVec (fun i => c.1 (e i))
            + (b.blockBy e).mat.mulVec (fun i => c.2.1 (e i))
          let F := av + (K.submatrix e e).mulVec (fun i => c.2.2 (e i))
          let ds := Function.extend r ((uf.euf * uf.suf) • fun i => c.2.2 (r i))
            (Function.extend e ((uf.euf * uf.suf) • KeeInv.mulVec F) 0)
          let dd := Function.extend e (-((uf.euf * uf.duf) • KeeInv.mulVec av)) 0
          ⟨toL fun j => if j.val < nrb then c.1 j * (uf.ruf * uf.suf)
              else (if rf.contains j.val then 0 else c.1 j) * (uf.euf * uf.duf),
            toL fun j => if j.val < nrb then c.2.1 j * (uf.ruf * uf.suf)
              else (if rf.contains j.val then 0 else c.2.1 j) * (uf.euf * uf.duf),
            toL (ds + dd), toL ds, toL dd⟩ := by
  have hne : ((dataRf nrb rf m b K KeeInv KrrInv).nrb == (dataRf nrb rf m b K KeeInv KrrInv).n)
      = false := by
    simp only [dataRf, beq_eq_false_iff_ne]
    omega
  rw [applyFull_none _ _ _ hne, List.map_map]
  apply List.map_congr_left
  intro c _
  simp only [Function.comp_apply]
  rw [blocksOf_dataRf nrb rf hhi, colOf_dataRf nrb rf hhi]
  obtain ⟨-, -, ⟨ds, hds, -, hdse⟩, ⟨dd, hdd, -, hdde⟩, -, hdr⟩ :=
    uf_scaling_full uf (m.map (ArgM.blockBy (eOf n nrb rf))) (b.blockBy (eOf n nrb rf))
      (K.submatrix (eOf n nrb rf) (eOf n nrb rf)) KeeInv
      (K.submatrix (idxOf rf hhi) (idxOf rf hhi)) KrrInv
      (fun i => c.1 (eOf n nrb rf i)) (fun i => c.2.1 (eOf n nrb rf i))
      (fun i => c.2.2 (eOf n nrb rf i)) (fun i => c.2.2 (idxOf rf hhi i)) hE hR
  unfold assemble
  have hrf : (dataRf nrb rf m b K KeeInv KrrInv).rf = rf := rfl
  have hn : (dataRf nrb rf m b K KeeInv KrrInv).n = n := rfl
  have hnrb : (dataRf nrb rf m b K KeeInv KrrInv).nrb = nrb := rfl
  simp only [hrf, hn, hnrb, hds, hdd, hdr, scaleAV_toL, replicate_zero_toL]
  rw [scatter_idxOf _ (elasticIdx_lt n nrb rf) (nodup_elasticIdx n nrb rf),
    scatter_idxOf _ (elasticIdx_lt n nrb rf) (nodup_elasticIdx n nrb rf),
    scatter_idxOf rf hhi hnd, vadd_toL, hdse, hdde]
  rfl

/-- ★ unit factors leave the solution unchanged, whole routine WITH residual flexibility — up to what
the routine documents: `a`, `v` come back except on the residual-flexibility rows (zeroed), `d` comes
back on the elastic AND residual-flexibility rows and is zeroed on the rigid-body rows. -/
theorem uf_unit_full_routine_rf (nrb : Nat) (h : nrb < n) (rf : List Nat)
    (hnd : rf.Nodup) (hlo : ∀ i ∈ rf, nrb ≤ i) (hhi : ∀ i ∈ rf, i < n)
    (m : Option (ArgM n α)) (b : ArgM n α) (K : Matrix (Fin n) (Fin n) α)
    (KeeInv : Matrix (Fin (elasticIdx n nrb rf).length) (Fin (elasticIdx n nrb rf).length) α)
    (KrrInv : Matrix (Fin rf.length) (Fin rf.length) α)
    (cs : List ((Fin n → α) × (Fin n → α) × (Fin n → α)))
    (hE : K.submatrix (eOf n nrb rf) (eOf n nrb rf) * KeeInv = 1)
    (hR : K.submatrix (idxOf rf hhi) (idxOf rf hhi) * KrrInv = 1) :
    ((applyFull none (dataRf nrb rf m b K KeeInv KrrInv)
        (cs.map fun c => ⟨toL c.1, toL c.2.1, toL c.2.2⟩) ⟨1, 1, 1, 1⟩).1.map
          fun o => (o.a, o.v, o.d))
      = cs.map fun c =>
          (toL fun j : Fin n => if rf.contains j.val then 0 else c.1 j,
           toL fun j : Fin n => if rf.contains j.val then 0 else c.2.1 j,
           toL fun j : Fin n => if nrb ≤ j.val then c.2.2 j else 0) := by
  rw [uf_scaling_full_routine_rf ⟨1, 1, 1, 1⟩ nrb h rf hnd hhi m b K KeeInv KrrInv cs hE hR,
    List.map_map]
  apply List.map_congr_left
  intro c _
  have hE' : KeeInv * K.submatrix (eOf n nrb rf) (eOf n nrb rf) = 1 := mul_eq_one_comm.1 hE
  have hrb : ∀ j : Fin n, j.val < nrb → ¬ rf.contains j.val = true := by
    intro j hj hc
    have := hlo _ (by simpa using hc)
    omega
  simp only [Function.comp_apply, mul_one, one_smul, Prod.mk.injEq]
  refine ⟨?_, ?_, ?_⟩
  · congr 1
    funext j
    split_ifs with h1 h2 <;> simp_all
  · congr 1
    funext j
    split_ifs with h1 h2 <;> simp_all
  · congr 1
    funext j
    simp only [Pi.add_apply]
    rcases rows_partition nrb h.le rf hlo hhi j with ⟨h1, h2, h3⟩ | ⟨h1, ⟨p, hp⟩, h3⟩ | ⟨h1, h2, ⟨q, hq⟩⟩
    · rw [Function.extend_apply' _ _ _ h2, Function.extend_apply' _ _ _ h3,
        Function.extend_apply' _ _ _ h3]
      simp [Nat.not_le.2 h1]
    · rw [← hp, (idxOf_injective rf hhi hnd).extend_apply, hp, Function.extend_apply' _ _ _ h3]
      simp [Nat.le_of_not_lt h1]
    · rw [Function.extend_apply' _ _ _ h2, ← hq, (eOf_injective n nrb rf).extend_apply,
        (eOf_injective n nrb rf).extend_apply]
      simp only [Matrix.mulVec_add, Matrix.mulVec_mulVec, hE', Matrix.one_mulVec, Pi.add_apply,
        Pi.neg_apply]
      have : nrb ≤ (eOf n nrb rf q).val := by rw [hq]; omega
      simp only [this, if_true]
      ring

/-- ★ the caller-owned `save` cache is transparent WITH residual flexibility as well: ANY sequence of
factor tuples applied to the same well-shaped modal data while sharing one cache (started empty, as
`DR_Event.apply_uf` does, or holding what an earlier call on that data left) returns, tuple by tuple,
the closed form of `uf_scaling_full_routine_rf`; in particular the saved factorisations of `k[e,e]`
and `k[r,r]` are the ones the uncached call would compute. -/
theorem cache_transparent_full_rf (ufs : List (Uf α)) (nrb : Nat) (rf : List Nat)
    (m : Option (ArgM n α)) (b : ArgM n α) (K : Matrix (Fin n) (Fin n) α)
    (KeeInv : Matrix (Fin (elasticIdx n nrb rf).length) (Fin (elasticIdx n nrb rf).length) α)
    (KrrInv : Matrix (Fin rf.length) (Fin rf.length) α)
    (cs : List ((Fin n → α) × (Fin n → α) × (Fin n → α)))
    (save : Option (SaveBlock α)) :
    let D := dataRf nrb rf m b K KeeInv KrrInv
    let cols : List (FullCol α) := cs.map fun c => ⟨toL c.1, toL c.2.1, toL c.2.2⟩
    (save = none ∨ save = some ⟨(cols.map (colOf D)).map (preBlock (blocksOf D)),
      (blocksOf D).kinvE, (blocksOf D).kinvR⟩) →
    applyFullSeq save D cols ufs = ufs.map fun uf => (applyFull none D cols uf).1 := by
  intro D cols hs
  exact cache_transparent_full D cols ufs save hs

end routine

section forms

/-- ★ the boolean form of `rfmodes` names the same modes as the index form: a mask over the `n`
modes that is `True` exactly on the (increasing) index list `l` is normalised to `l`; a single
integer is the one-element list; `None` is the empty list.  Hence all three theorems above apply to
every form of `rfmodes`. -/
theorem rf_forms_agree (n : Nat) (l : List Nat) (hs : l.Pairwise (· < ·)) (hhi : ∀ i ∈ l, i < n)
    (i : Nat) :
    normRf (.mask (List.ofFn fun j : Fin n => l.contains j.val)) = l ∧
    normRf (.index l) = l ∧ normRf (.scalar i) = [i] ∧ normRf .none = [] := by
  refine ⟨?_, rfl, rfl, rfl⟩
  simp only [normRf, nonzero_eq_filter, List.length_ofFn]
  have hf : (List.range n).filter (fun i => (List.ofFn fun j : Fin n => l.contains j.val).getD i false)
      = (List.range n).filter fun i => l.contains i := by
    apply List.filter_congr
    intro i hi
    simp only [List.mem_range] at hi
    simp [List.getD_eq_getElem?_getD, hi]
  rw [hf]
  apply List.Perm.eq_of_pairwise (le := (· < ·))
  · intro a b _ _ hab hba
    omega
  · exact List.Pairwise.filter _ List.pairwise_lt_range
  · exact hs
  · rw [List.perm_ext_iff_of_nodup ((List.nodup_range).filter _) (hs.imp (fun h => Nat.ne_of_lt h))]
    intro a
    simp only [List.mem_filter, List.mem_range, List.contains_eq_mem, decide_eq_true_eq]
    exact ⟨fun h => h.2, fun h => ⟨hhi a h, h⟩⟩

end forms

/-! ### non-vacuity -/

/-- one rigid-body mode and residual-flexibility mode 2 of a 4-mode system: the elastic partition is
`[1, 3]` (not contiguous), `k[e,e] = [[2,1],[1,1]]` and `k[r,r] = [[4]]` with their inverses inhabit
`hE`, `hR` (the coupling entries 7, 9 are ignored), and the routine returns the closed form on a
concrete column with unit factors (checked by evaluation) -/
example : elasticIdx 4 1 [2] = [1, 3] := by decide

example :
    let D : FullData ℚ := ⟨4, 1, [2], none, .vec [0, 1, 0, 2],
      [[0, 0, 0, 0], [0, 2, 7, 1], [0, 9, 4, 9], [0, 1, 7, 1]], [[1, -1], [-1, 2]], [[1/4]]⟩
    ((applyFull none D [⟨[1, 2, 3, 4], [0, 0, 0, 0], [5, 6, 7, 8]⟩] ⟨1, 1, 1, 1⟩).1.map
      fun o => (o.a, o.d)) = [([1, 2, 0, 4], [0, 6, 7, 8])] := by
  intro D
  decide +kernel

/-- `rf_forms_agree`: a mask over 5 modes for the index list `[2, 4]` -/
example : normRf (.mask [false, false, true, false, true]) = [2, 4] := by decide

end PyYetiVerif.C16
