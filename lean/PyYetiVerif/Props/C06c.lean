import PyYetiVerif.Lemmas.RigidBodyGuyan
import PyYetiVerif.Lemmas.Coord
import Mathlib.Data.Matrix.ColumnRowPartitioned
import Mathlib.Data.Matrix.Block
import Mathlib.LinearAlgebra.Matrix.NonsingularInverse
import Mathlib.Tactic.IntervalCases
/-!
# C06 (extension) — geometric claims of `rbdispchk`, `mk_net_drms`, `rbmultchk`; `cbtf` at 0 Hz

Property theorems only.  Executable definitions: `Model/RigidBodyGuyan.lean` (`rbdispNode`,
`rbdispErr`, `rbdispWarn`, `netDrm`, `resultant`, `rbmult`, `cbtfStaticFrc`) and, for the 3x3
algebra and the rigid-body rows of a grid in any output system, `Model/Coord.lean` (property C14,
whose lemmas `inv_mul_self`, `gridRb_factor` are reused).
-/
set_option linter.unusedVariables false
set_option linter.unusedSimpArgs false
set_option linter.unusedSectionVars false
namespace PyYetiVerif.C06
open PyYetiVerif.RigidBody

/-! ## rbdispchk -/

section disp
open PyYetiVerif.Coord

/-- ★ `rbdispchk` recovers the grid coordinates from rigid-body displacement rows.  If the three
translation rows of a node are `[F, F·(-(d×))]` - the rigid-body rows of a node at offset `d` from
the reference point, expressed in ANY non-singular local basis `F` (rectangular, cylindrical or
spherical output system) - then the coordinates `_rbdispchk` reports are exactly `d`, the diagonal
of `rb` and the three skew differences vanish, the node's error is `0`, and no warning is issued
for any tolerance `tol ≥ 0`. -/
theorem rbdispchk_recovers_coords (F : M3 ℝ) (h : F.det ≠ 0) (d : Coord.V3 ℝ) :
    rbdispNode (F.mul M3.one) (F.mul (skewNeg d)) = ⟨d, Coord.V3.zero, Coord.V3.zero⟩ ∧
      rbdispErr (rbdispNode (F.mul M3.one) (F.mul (skewNeg d))) = 0 ∧
      ∀ tol : ℝ, 0 ≤ tol → rbdispWarn (rbdispNode (F.mul M3.one) (F.mul (skewNeg d))) tol = false := by
  have hR : (F.mul M3.one).inv.mul (F.mul (skewNeg d)) = skewNeg d := by
    rw [mul_one3, ← mul_assoc3, inv_mul_self F h, one_mul3]
  have hN : rbdispNode (F.mul M3.one) (F.mul (skewNeg d)) = ⟨d, Coord.V3.zero, Coord.V3.zero⟩ := by
    simp only [rbdispNode, hR]
    simp only [skewNeg, Coord.V3.zero]
    congr 1 <;> (ext <;> simp)
  refine ⟨hN, ?_, ?_⟩
  · rw [hN]
    simp [rbdispErr, Coord.V3.zero, RbOps.abs, pyMax_zero]
  · intro tol htol
    rw [hN]
    have hmc : 0 ≤ pyMax (pyMax |d.x| |d.y|) |d.z| :=
      pyMax_nonneg (pyMax_nonneg (abs_nonneg _) (abs_nonneg _)) (abs_nonneg _)
    simp only [rbdispWarn, rbdispErr, Coord.V3.zero, RbOps.abs, abs_zero, pyMax_zero, RbOps.gt,
      decide_eq_false_iff_not, not_lt]
    exact mul_nonneg hmc htol

/-- for the rows `rbgeom_uset` produces for a grid at `p` with output system `co` (reference point
`ref`): `rbdispchk` returns `p - ref` with zero error (reuses C14's factorisation of `gridRb`) -/
theorem rbdispchk_recovers_grid (co : CoordInfo ℝ) (p ref : Coord.V3 ℝ) (hT : IsFrame co.T)
    (h : FixupsActive co p) :
    rbdispNode (gridRb co p ref).tl (gridRb co p ref).tr = ⟨p.sub ref, Coord.V3.zero, Coord.V3.zero⟩ ∧
      rbdispErr (rbdispNode (gridRb co p ref).tl (gridRb co p ref).tr) = 0 := by
  have hf := localFrame_isFrame co p hT h.offAxis
  have hdet : (localFrameT co p).det ≠ 0 := by
    rw [← det_transpose, hf.2]; exact one_ne_zero
  rw [gridRb_factor co p ref h]
  have := rbdispchk_recovers_coords (localFrameT co p) hdet (p.sub ref)
  exact ⟨this.1, this.2.1⟩

/-- ★ the coordinates `_cbcoordchk` prints.  The stiffness-based modes are normalised to the identity on the reference
grid, `rbs_g = RB_g · RB_ref⁻¹`; with `RB_g = [Fg, Fg·(-(d×))]` (grid `g` at offset `d = p_g - p_ref`, local basis `Fg`) and
`RB_ref = diag(Fr, Fr)` (a rotation `Fr`: basic → local axes of the reference grid) the translation rows handed to
`rbdispchk` are `[Fg·Frᵀ, Fg·(-(d×))·Frᵀ]`, and the routine returns `Fr·d` - the location relative to the reference grid
IN THE LOCAL COORDINATE SYSTEM OF THE REFERENCE GRID, as the report says - with zero pattern error. -/
theorem coordchk_coords_local (Fg Fr : M3 ℝ) (hg : Fg.det ≠ 0) (hr : IsFrame Fr.transpose) (d : Coord.V3 ℝ) :
    rbdispNode (Fg.mul Fr.transpose) ((Fg.mul (skewNeg d)).mul Fr.transpose)
      = ⟨Fr.mulVec d, Coord.V3.zero, Coord.V3.zero⟩ := by
  have h1 : Fr.transpose.mul Fr = M3.one := by
    have := hr.mul_transpose; rwa [transpose_transpose] at this
  have hA : (Fg.mul Fr.transpose).det ≠ 0 := by
    rw [det_mul, hr.2, mul_one]; exact hg
  -- `Fg · X = (Fg Frᵀ) · (Fr X)`
  have hsplit : (Fg.mul (skewNeg d)).mul Fr.transpose
      = (Fg.mul Fr.transpose).mul (Fr.mul ((skewNeg d).mul Fr.transpose)) := by
    rw [mul_assoc3 Fg Fr.transpose, ← mul_assoc3 Fr.transpose Fr, h1, one_mul3, mul_assoc3]
  have hR : (Fg.mul Fr.transpose).inv.mul ((Fg.mul (skewNeg d)).mul Fr.transpose)
      = Fr.mul ((skewNeg d).mul Fr.transpose) := by
    rw [hsplit, ← mul_assoc3, inv_mul_self _ hA, one_mul3]
  obtain ⟨c0, c1, c2⟩ := frame_rows_cross Fr hr
  have e0 := Coord.V3.ext_iff.1 c0
  have e1 := Coord.V3.ext_iff.1 c1
  have e2 := Coord.V3.ext_iff.1 c2
  simp only [Coord.V3.cross] at e0 e1 e2
  simp only [rbdispNode, hR]
  simp only [skewNeg, M3.mul, M3.transpose, M3.col0, M3.col1, M3.col2, M3.vecMul, M3.mulVec, Coord.V3.dot,
    Coord.V3.zero]
  congr 1
  · ext
    · linear_combination d.x * e0.1 + d.y * e0.2.1 + d.z * e0.2.2
    · linear_combination d.x * e1.1 + d.y * e1.2.1 + d.z * e1.2.2
    · linear_combination d.x * e2.1 + d.y * e2.2.1 + d.z * e2.2.2
  · ext <;> ring
  · ext <;> ring

/-- non-vacuity and the docstring example of `rbdispchk`: node at (1, 2, 3), identity basis -/
example : (rbdispNode (M3.one : M3 ℝ) (skewNeg ⟨1, 2, 3⟩)).coords = ⟨1, 2, 3⟩ := by
  have := (rbdispchk_recovers_coords M3.one (by simp [M3.det, M3.one, Coord.V3.dot, Coord.V3.cross]) ⟨1, 2, 3⟩).1
  rw [mul_one3, one_mul3] at this
  rw [this]

/-- a deviation from the pattern IS reported: an entry `e` on the diagonal of the right half gives
error `|e|` (here `e = 1/2` with all coordinates zero, so the warning is issued for `tol = 1e-4`) -/
example : rbdispWarn (rbdispNode (M3.one : M3 ℝ) ⟨⟨1 / 2, 0, 0⟩, ⟨0, 0, 0⟩, ⟨0, 0, 0⟩⟩) (1 / 10 ^ 4) = true := by
  simp [rbdispWarn, rbdispErr, rbdispNode, M3.inv, M3.mul, M3.one, M3.det, M3.ofCols, M3.transpose,
    M3.col0, M3.col1, M3.col2, M3.vecMul, Coord.V3.dot, Coord.V3.cross, Coord.V3.sdiv, pyMax, RbOps.abs, RbOps.gt]
  norm_num [abs_of_pos]

end disp

/-! ## mk_net_drms: the net-force recovery matrix is the resultant -/

section net
variable {K : Type} [CommRing K]

/-- ★ the net-force rows `rb.T @ F` of `mk_net_drms` ARE the resultant: for the geometry-based
rigid-body modes `rb = rbgeom(grids, ref)` of `ng` boundary grids and any boundary force vector
`F` (force and moment per grid), rows 0-2 are the sum of the grid forces and rows 3-5 the sum of the
grid moments plus `(p_g - ref) × f_g`, i.e. every grid load moved to the reference point. -/
theorem net_force_is_resultant (ng : Nat) (p : Nat → V3 K) (r : V3 K) (F : Nat → K) (j : Nat)
    (hj : j < 6) :
    sumN (6 * ng) (fun k => rbgeom p r k j * F k) = resultant ng p r F j := by
  rw [sumN_six_blocks]
  unfold resultant
  apply sumN_congr
  intro g _
  have e0 := rbgeom_row p r g 0 j (by norm_num)
  simp only [add_zero] at e0
  rw [e0, rbgeom_row p r g 1 j (by norm_num), rbgeom_row p r g 2 j (by norm_num),
    rbgeom_row p r g 3 j (by norm_num), rbgeom_row p r g 4 j (by norm_num),
    rbgeom_row p r g 5 j (by norm_num)]
  exact rbBlock_resultant (p g) r _ _ _ _ _ _ j hj

/-- ★ `ifltma = rb.T @ Mcb[bset]` (and `ifltmd = rb.T @ Kcb[bset, bset]`) applied to any response
vector `a` is the resultant at the reference point of the boundary forces `Mcb[bset, :] @ a`. -/
theorem net_drm_is_resultant (ng n : Nat) (p : Nat → V3 K) (r : V3 K) (M : NMat K) (bi : Nat → Nat)
    (a : Nat → K) (j : Nat) (hj : j < 6) :
    sumN n (fun c => netDrm (6 * ng) (rbgeom p r) M bi j c * a c)
      = resultant ng p r (fun k => sumN n fun c => M (bi k) c * a c) j := by
  rw [← net_force_is_resultant ng p r _ j hj]
  unfold netDrm
  have : ∀ c, (sumN (6 * ng) fun k => rbgeom p r k j * M (bi k) c) * a c
      = sumN (6 * ng) fun k => rbgeom p r k j * M (bi k) c * a c := fun c => (sumN_mul_right _ _ _).symm
  simp only [this]
  rw [sumN_swap]
  apply sumN_congr
  intro k _
  rw [← sumN_mul_left]
  apply sumN_congr
  intro c _
  ring

/-- non-vacuity: one grid at (0, 2, 0), reference at the origin, unit force along x: the resultant
moment about z is `-2` (`r × f = (0,2,0) × (1,0,0) = (0,0,-2)`) -/
example : resultant 1 (fun _ => (⟨0, 2, 0⟩ : V3 ℤ)) ⟨0, 0, 0⟩ (fun k => if k = 0 then 1 else 0) 5 = -2 := by
  simp [resultant, sumN, pick6]

/-- boundary grids with rectangular local output systems (`rbgeom_uset`, no polar fix-up): the net
force of LOCAL force components is the resultant of the same loads turned to basic axes by the
grid's transform (`u[3:6]` of the grid's uset rows, columns = local axes in basic) -/
theorem net_force_is_resultant_local (ng : Nat) (u : NMat ℝ) (r : V3 ℝ) (F : Nat → ℝ) (j : Nat)
    (hj : j < 6) :
    sumN (6 * ng) (fun k => rbgeomUset u (fun _ => false) (fun _ => false) r k j * F k)
      = resultant ng (fun g => ⟨u (6 * g) 0, u (6 * g) 1, u (6 * g) 2⟩) r
          (fun k =>
            let g := k / 6
            let a := k % 6
            if a < 3 then u (6 * g + 3 + a) 0 * F (6 * g) + u (6 * g + 3 + a) 1 * F (6 * g + 1)
              + u (6 * g + 3 + a) 2 * F (6 * g + 2)
            else u (6 * g + a) 0 * F (6 * g + 3) + u (6 * g + a) 1 * F (6 * g + 4)
              + u (6 * g + a) 2 * F (6 * g + 5)) j := by
  rw [sumN_six_blocks]
  unfold resultant
  apply sumN_congr
  intro g _
  have hd : ∀ a, a < 6 → (6 * g + a) / 6 = g ∧ (6 * g + a) % 6 = a := fun a ha => ⟨by omega, by omega⟩
  have h0 : (6 * g) / 6 = g ∧ (6 * g) % 6 = 0 := ⟨by omega, by omega⟩
  simp only [rbgeomUset, h0.1, h0.2, (hd 1 (by norm_num)).1, (hd 1 (by norm_num)).2,
    (hd 2 (by norm_num)).1, (hd 2 (by norm_num)).2, (hd 3 (by norm_num)).1, (hd 3 (by norm_num)).2,
    (hd 4 (by norm_num)).1, (hd 4 (by norm_num)).2, (hd 5 (by norm_num)).1, (hd 5 (by norm_num)).2]
  interval_cases j <;> simp [usetBlock, rbBlock, pick6] <;> ring

/-- `rbmultchk` returns `drm[:, bset] @ rb`: for a DRM that recovers the displacement of a point
from the boundary motion (`drm[:, bset] = rbgeom(points, ·)`-like rows), the product with the
rigid-body modes is the rigid-body motion of those points - the model's `rbmult` is that product -/
theorem rbmult_eq_mul (nr nb : Nat) (drm rb : NMat K) (bset : Nat → Nat) (i : Fin nr) (j : Fin 6) :
    rbmult nb drm rb bset i j =
      (Matrix.of (fun (a : Fin nr) (k : Fin nb) => drm a (bset k)) *
        Matrix.of (fun (k : Fin nb) (c : Fin 6) => rb k c)) i j := by
  simp [rbmult, Matrix.mul_apply, sumN_eq_sum_fin]

end net

/-! ## cbtf at 0 Hz -/

section static
open Matrix
variable {b q F : Type} [Fintype b] [Fintype q] [DecidableEq b] [DecidableEq q] [Field F]

/-- ★ `cbtf` at exactly 0 Hz (static limit).  The code sets the boundary velocity and displacement
to zero there (`pvnz` false), solves the q-set with the right-hand side `-Mqb·ab`, for which the
specification of `SolveUnc.fsolve` at `s = 0` is `Kqq·dq = -Mqb·ab`, and returns zero modal
acceleration.  Then the returned force is `Mbb·ab` - the statically condensed (Guyan) boundary mass
times the enforced acceleration - the full equations of motion hold with
`a = (ab, 0)`, `v = 0`, `d = (0, dq)` for the Craig-Bampton form `K = diag(Kbb, Kqq)`, and for
invertible `Kqq` the modal displacement is the static one, `dq = -Kqq⁻¹·Mqb·ab`. -/
theorem cbtf_static_limit (Mbb Bbb Kbb : Matrix b b F) (Mbq Bbq : Matrix b q F) (Mqb Bqb : Matrix q b F)
    (Mqq Bqq Kqq : Matrix q q F) (ab : b → F) (dq : q → F)
    (hq : Kqq *ᵥ dq = Bqb *ᵥ (0 : b → F) - Mqb *ᵥ ab) :
    let a : b ⊕ q → F := Sum.elim ab 0
    let v : b ⊕ q → F := 0
    let d : b ⊕ q → F := Sum.elim 0 dq
    let frc : b → F := Mbb *ᵥ ab + Mbq *ᵥ (0 : q → F) + (Bbb *ᵥ (0 : b → F) + Bbq *ᵥ (0 : q → F))
      + Kbb *ᵥ (0 : b → F)
    frc = Mbb *ᵥ ab ∧
      Matrix.fromBlocks Mbb Mbq Mqb Mqq *ᵥ a + Matrix.fromBlocks Bbb Bbq Bqb Bqq *ᵥ v
        + Matrix.fromBlocks Kbb 0 0 Kqq *ᵥ d = Sum.elim frc 0 ∧
      (IsUnit Kqq.det → dq = -(Kqq⁻¹ *ᵥ (Mqb *ᵥ ab))) := by
  intro a v d frc
  have hfrc : frc = Mbb *ᵥ ab := by simp [frc]
  refine ⟨hfrc, ?_, ?_⟩
  · rw [hfrc]
    ext i
    rcases i with i | i
    · simp [a, v, d, Matrix.fromBlocks_mulVec]
    · have := congrFun hq i
      simp only [Matrix.mulVec_zero, zero_sub, Pi.neg_apply] at this
      simp [a, v, d, Matrix.fromBlocks_mulVec, this]
  · intro hK
    have h1 : Kqq⁻¹ *ᵥ (Kqq *ᵥ dq) = dq := by
      rw [Matrix.mulVec_mulVec, Matrix.nonsing_inv_mul _ hK, Matrix.one_mulVec]
    rw [← h1, hq]
    simp [Matrix.mulVec_neg]

/-- the model's 0 Hz force is `Mbb·ab` of the block its index map cuts out of `M` -/
theorem cbtfStaticFrc_eq (nb : Nat) (M : NMat F) (bset : Nat → Nat) (a : Nat → F) (i : Fin nb) :
    cbtfStaticFrc nb M bset a i =
      (Matrix.of (fun r c : Fin nb => M (bset r) (bset c)) *ᵥ fun k : Fin nb => a k) i := by
  simp [cbtfStaticFrc, Matrix.mulVec, dotProduct, sumN_eq_sum_fin]

/-- non-vacuity: the 1-D docstring chain of `cbtf` has `Mbb = 16` (total mass 4+5+7); with a unit
base acceleration and `Kqq = 1`, `Mqb = 3` the static modal displacement is `-3` -/
example : (!![(1 : ℚ)] *ᵥ fun _ : Fin 1 => (-3 : ℚ)) = !![(0 : ℚ)] *ᵥ (0 : Fin 1 → ℚ) - !![(3 : ℚ)] *ᵥ fun _ => 1 := by
  ext i; fin_cases i; simp [Matrix.mulVec, dotProduct]

end static

end PyYetiVerif.C06
