import Mathlib.LinearAlgebra.Matrix.NonsingularInverse
import Mathlib.LinearAlgebra.Matrix.Trace
import Mathlib.Tactic.NoncommRing
import Mathlib.Tactic.Abel
import PyYetiVerif.Lemmas.NTCbtf
import PyYetiVerif.Lemmas.NT
import PyYetiVerif.Model.NTPack
import PyYetiVerif.Props.C15
/-!
# C15 (part c) — `frclim.ntfl` complete

Reciprocity (swapping source and load), change of boundary coordinates, units, frequency-by-frequency
independence, the `(b × freq × b)` packing, the loop body against the formulas of `Model/NT.lean`,
the packaging of `As`.  Ring-level statements hold in ANY (non-commutative) ring; matrix statements
for Mathlib matrices over a commutative ring with arbitrary finite index types.
-/
namespace PyYetiVerif.C15
open PyYetiVerif.NT Matrix

/-! ## swapping the roles of source and load -/

/-- the "parallel sum" is symmetric in its arguments: `Ml (Ms+Ml)⁻¹ Ms = Ms (Ms+Ml)⁻¹ Ml` -/
theorem parallel_sum_comm {R : Type} [Ring R] [Inv R] (Ms Ml : R)
    (hl : (Ms + Ml)⁻¹ * (Ms + Ml) = 1) (hr : (Ms + Ml) * (Ms + Ml)⁻¹ = 1) :
    Ml * (Ms + Ml)⁻¹ * Ms = Ms * (Ms + Ml)⁻¹ * Ml := by
  have key : ∀ T Ti : R, Ti * T = 1 → T * Ti = 1 → (T - Ms) * Ti * Ms = Ms * Ti * (T - Ms) := by
    intro T Ti h1 h2
    rw [sub_mul, sub_mul, h2, one_mul, mul_sub, mul_assoc Ms Ti T, h1, mul_one]
  have := key (Ms + Ml) (Ms + Ml)⁻¹ hl hr
  rwa [add_sub_cancel_left] at this

/-- ★ `nt_reciprocity`.  Exchange the roles of source and load (same free acceleration `As`): the
response ratios add up to one (`R_swapped = 1 - R`), so do the interface accelerations
(`A_swapped = As - A`), and the interface FORCE is the same.  Any ring; `Ms + Ml` two-sided
invertible. -/
theorem nt_reciprocity {R : Type} [Ring R] [Inv R] (Ms Ml As : R)
    (hl : (Ms + Ml)⁻¹ * (Ms + Ml) = 1) (hr : (Ms + Ml) * (Ms + Ml)⁻¹ = 1) :
    ntMr Ms Ml + ntMr Ml Ms = 1 ∧ ntA Ms Ml As + ntA Ml Ms As = As ∧
      ntF Ms Ml As = ntF Ml Ms As := by
  have hMr : ntMr Ms Ml + ntMr Ml Ms = 1 := by
    show (Ms + Ml)⁻¹ * Ms + (Ml + Ms)⁻¹ * Ml = 1
    rw [add_comm Ml Ms, ← mul_add, hl]
  refine ⟨hMr, ?_, ?_⟩
  · show ntMr Ms Ml * As + ntMr Ml Ms * As = As
    rw [← add_mul, hMr, one_mul]
  · show Ml * ((Ms + Ml)⁻¹ * Ms * As) = Ms * ((Ml + Ms)⁻¹ * Ml * As)
    rw [add_comm Ml Ms, ← mul_assoc, ← mul_assoc, ← mul_assoc, ← mul_assoc,
      parallel_sum_comm Ms Ml hl hr]

section matrices
variable {b m K : Type} [Fintype b] [DecidableEq b] [CommRing K]

/-- ★ `nt_reciprocity` for `b × b` apparent masses and `b × m` accelerations -/
theorem nt_reciprocity_matrix (Ms Ml : Matrix b b K) (As : Matrix b m K)
    (hT : IsUnit (Ms + Ml).det) :
    ntMr Ms Ml + ntMr Ml Ms = 1 ∧ ntA Ms Ml As + ntA Ml Ms As = As ∧
      ntF Ms Ml As = ntF Ml Ms As := by
  have hl := nonsing_inv_mul _ hT
  have hr := mul_nonsing_inv _ hT
  have hMr : ntMr Ms Ml + ntMr Ml Ms = 1 := (nt_reciprocity Ms Ml 0 hl hr).1
  refine ⟨hMr, ?_, ?_⟩
  · show ntMr Ms Ml * As + ntMr Ml Ms * As = As
    rw [← Matrix.add_mul, hMr, Matrix.one_mul]
  · show Ml * ((Ms + Ml)⁻¹ * Ms * As) = Ms * ((Ml + Ms)⁻¹ * Ml * As)
    rw [add_comm Ml Ms, ← Matrix.mul_assoc, ← Matrix.mul_assoc, ← Matrix.mul_assoc,
      ← Matrix.mul_assoc, parallel_sum_comm Ms Ml hl hr]

/-- symmetric reciprocity: for SYMMETRIC apparent masses the operator `As ↦ F` is symmetric -/
theorem nt_force_operator_symmetric (Ms Ml : Matrix b b K) (hs : Msᵀ = Ms) (hl : Mlᵀ = Ml)
    (hT : IsUnit (Ms + Ml).det) :
    (Ml * (Ms + Ml)⁻¹ * Ms)ᵀ = Ml * (Ms + Ml)⁻¹ * Ms := by
  rw [transpose_mul, transpose_mul, transpose_nonsing_inv, transpose_add, hs, hl, ← Matrix.mul_assoc]
  exact (parallel_sum_comm Ms Ml (nonsing_inv_mul _ hT) (mul_nonsing_inv _ hT)).symm

/-! ## change of boundary coordinates, units -/

/-- ★ `ntfl_congruence`.  `Ms → P Ms Q`, `Ml → P Ml Q`, `As → Q⁻¹ As` (new boundary coordinates
`x = Q x'`; `P = Qᵀ` for the work-conjugate forces, but any invertible `P` will do): the interface
acceleration transforms like the coordinates, `A' = Q⁻¹ A`, the force like forces, `F' = P F`, the
ratio matrix by similarity, `TAM' = P TAM Q`. -/
theorem ntfl_congruence (P Q Ms Ml : Matrix b b K) (As : Matrix b m K)
    (hP : IsUnit P.det) (hQ : IsUnit Q.det) :
    ntMr (P * Ms * Q) (P * Ml * Q) = Q⁻¹ * ntMr Ms Ml * Q ∧
    ntA (P * Ms * Q) (P * Ml * Q) (Q⁻¹ * As) = Q⁻¹ * ntA Ms Ml As ∧
    ntF (P * Ms * Q) (P * Ml * Q) (Q⁻¹ * As) = P * ntF Ms Ml As ∧
    tam (P * Ms * Q) (P * Ml * Q) = P * tam Ms Ml * Q := by
  have hsum : P * Ms * Q + P * Ml * Q = P * (Ms + Ml) * Q := by
    rw [Matrix.mul_add, Matrix.add_mul]
  have hMr : ntMr (P * Ms * Q) (P * Ml * Q) = Q⁻¹ * ntMr Ms Ml * Q := by
    show (P * Ms * Q + P * Ml * Q)⁻¹ * (P * Ms * Q) = Q⁻¹ * ((Ms + Ml)⁻¹ * Ms) * Q
    rw [hsum, Matrix.mul_inv_rev, Matrix.mul_inv_rev]
    simp only [Matrix.mul_assoc]
    rw [nonsing_inv_mul_cancel_left P _ hP]
  have hA : ntA (P * Ms * Q) (P * Ml * Q) (Q⁻¹ * As) = Q⁻¹ * ntA Ms Ml As := by
    show ntMr (P * Ms * Q) (P * Ml * Q) * (Q⁻¹ * As) = Q⁻¹ * (ntMr Ms Ml * As)
    rw [hMr]
    simp only [Matrix.mul_assoc]
    rw [mul_nonsing_inv_cancel_left Q _ hQ]
  refine ⟨hMr, hA, ?_, ?_⟩
  · show P * Ml * Q * ntA (P * Ms * Q) (P * Ml * Q) (Q⁻¹ * As) = P * (Ml * ntA Ms Ml As)
    rw [hA]
    simp only [Matrix.mul_assoc]
    rw [mul_nonsing_inv_cancel_left Q _ hQ]
  · show P * Ms * Q + P * Ml * Q = P * (Ms + Ml) * Q
    exact hsum

/-- what `ntfl` returns as `R` is the DIAGONAL of the ratio matrix: under a change of boundary
coordinates only its sum (the trace) is kept … -/
theorem ntfl_R_trace_invariant (P Q Ms Ml : Matrix b b K) (hP : IsUnit P.det) (hQ : IsUnit Q.det) :
    (ntMr (P * Ms * Q) (P * Ml * Q)).trace = (ntMr Ms Ml).trace := by
  rw [(ntfl_congruence (m := b) P Q Ms Ml 0 hP hQ).1, Matrix.trace_mul_comm, ← Matrix.mul_assoc,
    mul_nonsing_inv _ hQ, Matrix.one_mul]

/-- ★ `ntfl_scaling`.  Mass unit times `c`, acceleration unit times `d`: `R` unchanged, `A` times
`d`, `F` times `c d`, `TAM` times `c`. -/
theorem ntfl_scaling (c d : K) (hc : IsUnit c) (Ms Ml : Matrix b b K) (As : Matrix b m K) :
    ntMr (c • Ms) (c • Ml) = ntMr Ms Ml ∧
    ntA (c • Ms) (c • Ml) (d • As) = d • ntA Ms Ml As ∧
    ntF (c • Ms) (c • Ml) (d • As) = (c * d) • ntF Ms Ml As ∧
    tam (c • Ms) (c • Ml) = c • tam Ms Ml := by
  have hP : IsUnit (c • (1 : Matrix b b K)).det := by
    rw [Matrix.det_smul, Matrix.det_one, mul_one]; exact hc.pow _
  have h1 : IsUnit (1 : Matrix b b K).det := by rw [Matrix.det_one]; exact isUnit_one
  have e : ∀ X : Matrix b b K, c • X = c • (1 : Matrix b b K) * X * 1 := fun X => by
    rw [Matrix.mul_one, Matrix.smul_mul, Matrix.one_mul]
  obtain ⟨g1, g2, g3, g4⟩ := ntfl_congruence (c • (1 : Matrix b b K)) 1 Ms Ml (d • As) hP h1
  rw [← e, ← e] at g1 g2 g3 g4
  simp only [inv_one, Matrix.one_mul, Matrix.mul_one] at g1 g2 g3 g4
  have lin : ntA Ms Ml (d • As) = d • ntA Ms Ml As := by
    show ntMr Ms Ml * (d • As) = d • (ntMr Ms Ml * As)
    rw [Matrix.mul_smul]
  refine ⟨g1, by rw [g2, lin], ?_, ?_⟩
  · rw [g3]
    show c • (1 : Matrix b b K) * (Ml * ntA Ms Ml (d • As)) = (c * d) • (Ml * ntA Ms Ml As)
    rw [lin, Matrix.smul_mul, Matrix.one_mul, Matrix.mul_smul, smul_smul]
  · rw [g4, Matrix.smul_mul, Matrix.one_mul]

end matrices

/-- … the individual entries of `R` are NOT invariant: source `diag(1, 2)`, load `1`, new
coordinates `Q = [[1, 1], [1, 2]]`, `P = Qᵀ`: `R₀ = 1/2` becomes `1/3` -/
theorem ntfl_R_not_invariant :
    ∃ P Q Ms Ml : Matrix (Fin 2) (Fin 2) ℚ, IsUnit P.det ∧ IsUnit Q.det ∧ P = Qᵀ ∧
      (ntMr (P * Ms * Q) (P * Ml * Q)) 0 0 ≠ (ntMr Ms Ml) 0 0 := by
  refine ⟨!![1, 1; 1, 2], !![1, 1; 1, 2], !![1, 0; 0, 2], 1, ?_, ?_, ?_, ?_⟩
  · simp [Matrix.det_fin_two]; norm_num
  · simp [Matrix.det_fin_two]; norm_num
  · ext i j; fin_cases i <;> fin_cases j <;> rfl
  · simp only [ntMr]
    rw [Matrix.inv_def, Matrix.inv_def]
    simp [Matrix.det_fin_two, Matrix.adjugate_fin_two, Matrix.mul_apply, Fin.sum_univ_two]
    norm_num


/-! ## the array-level routine: packaging, frequency by frequency -/

/-- ★ `ntfl_pointwise`.  Column `j` of every output (`A F R TAM`, and the ratio matrix) depends only
on column `j` of the inputs: two sets of flat arrays that agree on the offsets `(i, j, k)`, `(i, j)`
of frequency `j` give the same column `j` — whatever stands elsewhere, whatever `solve` is. -/
theorem ntfl_pointwise {α : Type} [Zero α] [Add α] [Mul α] (z : α) (b nf : Nat)
    (solve : (Fin b → Fin b → α) → (Fin b → Fin b → α) → (Fin b → Fin b → α))
    (sam lam as sam' lam' as' : Array α) (j : Nat)
    (hs : ∀ i k, i < b → k < b → sam.getD (idx3 nf b i j k) z = sam'.getD (idx3 nf b i j k) z)
    (hl : ∀ i k, i < b → k < b → lam.getD (idx3 nf b i j k) z = lam'.getD (idx3 nf b i j k) z)
    (ha : ∀ i, i < b → as.getD (idx2 nf i j) z = as'.getD (idx2 nf i j) z) :
    ntflF z b nf solve sam lam as j = ntflF z b nf solve sam' lam' as' j := by
  have e1 : slice3F z sam nf b j = slice3F z sam' nf b j := by
    funext i k; exact hs i.1 k.1 i.2 k.2
  have e2 : slice3F z lam nf b j = slice3F z lam' nf b j := by
    funext i k; exact hl i.1 k.1 i.2 k.2
  have e3 : col2F z as nf b j = col2F z as' nf b j := by
    funext i; exact ha i.1 i.2
  simp only [ntflF, e1, e2, e3]

/-- reading frequency `j` out of a packed `(b × freq × b)` array gives back the matrix of
frequency `j` (the layout is a bijection between `(i, j, k)` and the flat offsets) -/
theorem slice3F_pack3F {α : Type} (z : α) (b nf : Nat) (f : Nat → Nat → Nat → α) (j : Nat)
    (hj : j < nf) (i k : Fin b) : slice3F z (pack3F b nf f) nf b j i k = f i.1 j k.1 := by
  have hb : 0 < b := Nat.lt_of_le_of_lt (Nat.zero_le _) i.2
  have hlt : idx3 nf b i.1 j k.1 < b * nf * b := layout_in_bounds nf b i.1 j k.1 i.2 hj k.2
  unfold slice3F pack3F
  rw [Array.getD_eq_getD_getElem?, Array.getElem?_ofFn]
  simp only [hlt, dite_true, Option.getD_some]
  unfold idx3
  have h1 : ((i.1 * nf + j) * b + k.1) % b = k.1 := by
    rw [Nat.add_comm, Nat.add_mul_mod_self_right, Nat.mod_eq_of_lt k.2]
  have h2 : ((i.1 * nf + j) * b + k.1) / b = i.1 * nf + j := by
    rw [Nat.add_comm, Nat.add_mul_div_right _ _ hb, Nat.div_eq_of_lt k.2, Nat.zero_add]
  have h3 : (i.1 * nf + j) % nf = j := by
    rw [Nat.add_comm, Nat.add_mul_mod_self_right, Nat.mod_eq_of_lt hj]
  have h4 : ((i.1 * nf + j) * b + k.1) / (nf * b) = i.1 := by
    rw [Nat.mul_comm nf b, ← Nat.div_div_eq_div_mul, h2, Nat.add_comm,
      Nat.add_mul_div_right _ _ (Nat.lt_of_le_of_lt (Nat.zero_le _) hj), Nat.div_eq_of_lt hj,
      Nat.zero_add]
  rw [h1, h2, h3, h4]

section model_link
variable {K : Type} [CommRing K] {b : Nat}

/-- ★ the loop body of `ntfl` computes the formulas of `Model/NT.lean` (`ntMr`, `ntA`, `ntF`,
`tam` — what `nt_algebra`, `nt_equals_coupled`, … are about), for ANY `solve` that meets the
specification of `la.solve` on this input, `(Ms + Ml) · solve (Ms + Ml) Ms = Ms`. -/
theorem ntflColF_spec
    (solve : (Fin b → Fin b → K) → (Fin b → Fin b → K) → (Fin b → Fin b → K))
    (Ms Ml : Fin b → Fin b → K) (as : Fin b → K)
    (hT : IsUnit (Matrix.of Ms + Matrix.of Ml).det)
    (hsolve : (Matrix.of Ms + Matrix.of Ml) * Matrix.of (solve (fun i k => Ms i k + Ml i k) Ms)
      = Matrix.of Ms) :
    let o := ntflColF solve Ms Ml as
    Matrix.of o.Mr = ntMr (Matrix.of Ms) (Matrix.of Ml) ∧
    o.A = (ntMr (Matrix.of Ms) (Matrix.of Ml)).mulVec as ∧
    o.F = (Matrix.of Ml).mulVec ((ntMr (Matrix.of Ms) (Matrix.of Ml)).mulVec as) ∧
    (∀ i, o.R i = ntMr (Matrix.of Ms) (Matrix.of Ml) i i) ∧
    Matrix.of o.TAM = tam (Matrix.of Ms) (Matrix.of Ml) := by
  intro o
  have hMr : Matrix.of o.Mr = ntMr (Matrix.of Ms) (Matrix.of Ml) := by
    show Matrix.of (solve (fun i k => Ms i k + Ml i k) Ms) = (Matrix.of Ms + Matrix.of Ml)⁻¹ * Matrix.of Ms
    have h := congrArg (fun Y => (Matrix.of Ms + Matrix.of Ml)⁻¹ * Y) hsolve
    beta_reduce at h
    rw [nonsing_inv_mul_cancel_left _ _ hT] at h
    exact h
  have hA : o.A = (ntMr (Matrix.of Ms) (Matrix.of Ml)).mulVec as := by
    rw [← hMr]
    show look (tab (fmulVec _ as)) = _
    rw [look_tab, fmulVec_eq]
    rfl
  refine ⟨hMr, hA, ?_, ?_, rfl⟩
  · rw [← hA]
    show fmulVec Ml o.A = _
    rw [fmulVec_eq]
  · intro i
    rw [← hMr]
    rfl

/-- the column form used by `nt_algebra_matrix` / `nt_equals_coupled` (`m = Unit`): `ntA`, `ntF`
of a one-column matrix are the `mulVec`s above -/
theorem ntA_col (Ms Ml : Matrix (Fin b) (Fin b) K) (as : Fin b → K) :
    ntA Ms Ml (Matrix.replicateCol Unit as) = Matrix.replicateCol Unit ((ntMr Ms Ml).mulVec as) ∧
    ntF Ms Ml (Matrix.replicateCol Unit as)
      = Matrix.replicateCol Unit (Ml.mulVec ((ntMr Ms Ml).mulVec as)) := by
  have h : ntA Ms Ml (Matrix.replicateCol Unit as) = Matrix.replicateCol Unit ((ntMr Ms Ml).mulVec as) := by
    show ntMr Ms Ml * Matrix.replicateCol Unit as = _
    rw [Matrix.replicateCol_mulVec]
  refine ⟨h, ?_⟩
  show Ml * ntA Ms Ml (Matrix.replicateCol Unit as) = _
  rw [h, ← Matrix.replicateCol_mulVec]

end model_link

/-! ## packaging of `As` -/

/-- broadcasting with one boundary DOF: a 1-d `As` of length `nf` (it becomes `1 × nf`) is accepted
exactly when there is ONE boundary DOF; with more the routine ends in numpy's `ValueError` -/
theorem packAs_vector (r nf : Nat) :
    packAs nf [r, nf, r] [r, nf, r] [nf]
      = if r = 1 then .ok ([1, nf], [1, nf, 1]) else .error "ValueError" := by
  by_cases h : r = 1
  · subst h; simp [packAs, atleast2d]
  · have h' : ¬ 1 = r := fun e => h e.symm
    simp [packAs, atleast2d, h, h']

/-- a 2-d `As` with the right shape is accepted, a frequency axis of another length is the
routine's own `ValueError` -/
theorem packAs_matrix (r nf ca : Nat) :
    packAs nf [r, nf, r] [r, nf, r] [r, ca]
      = if ca = nf then .ok ([r, nf], [r, nf, r]) else .error "ValueError" := by
  by_cases h : ca = nf
  · subst h; simp [packAs, atleast2d]
  · have h' : ¬ nf = ca := fun e => h e.symm
    simp [packAs, atleast2d, h, h']


/-! ## non-vacuity -/

/-- `nt_reciprocity` on the numbers of the `ntfl` doctest: source 25, load 20 -/
example : ((25 : ℚ) + 20)⁻¹ * (25 + 20) = 1 ∧ ((25 : ℚ) + 20) * (25 + 20)⁻¹ = 1 ∧
    ntMr (25 : ℚ) 20 + ntMr (20 : ℚ) 25 = 1 ∧ ntF (25 : ℚ) 20 (9 : ℚ) = ntF (20 : ℚ) 25 (9 : ℚ) := by
  refine ⟨by norm_num, by norm_num, ?_, ?_⟩ <;> norm_num [ntMr, ntF, ntA]

/-- `ntfl_congruence` / `ntfl_scaling`: invertible, non-commuting `P`, `Q` exist; `c = 2` is a unit -/
example : ∃ P Q : Matrix (Fin 2) (Fin 2) ℚ, IsUnit P.det ∧ IsUnit Q.det ∧ P * Q ≠ Q * P ∧ IsUnit (2 : ℚ) := by
  refine ⟨!![1, 1; 0, 1], !![1, 0; 1, 1], ?_, ?_, ?_, by norm_num⟩
  · simp [Matrix.det_fin_two]
  · simp [Matrix.det_fin_two]
  · intro h
    have := congrFun (congrFun h 0) 0
    simp [Matrix.mul_apply, Fin.sum_univ_two] at this

/-- `ntflColF_spec`: one boundary DOF, `solve` the exact division; hypotheses hold and `R = 5/9` -/
example :
    let solve : (Fin 1 → Fin 1 → ℚ) → (Fin 1 → Fin 1 → ℚ) → (Fin 1 → Fin 1 → ℚ) :=
      fun T X i k => X i k / T 0 0
    let Ms : Fin 1 → Fin 1 → ℚ := fun _ _ => 25
    let Ml : Fin 1 → Fin 1 → ℚ := fun _ _ => 20
    IsUnit (Matrix.of Ms + Matrix.of Ml).det ∧
    (Matrix.of Ms + Matrix.of Ml) * Matrix.of (solve (fun i k => Ms i k + Ml i k) Ms) = Matrix.of Ms ∧
    (ntflColF solve Ms Ml (fun _ => 9)).R 0 = 5 / 9 := by
  intro solve Ms Ml
  refine ⟨?_, ?_, ?_⟩
  · simp [Matrix.det_unique, Ms, Ml]; norm_num
  · ext i k
    simp [Matrix.mul_apply, solve, Ms, Ml]; norm_num
  · simp [ntflColF, solve, Ms, Ml]; norm_num

end PyYetiVerif.C15
