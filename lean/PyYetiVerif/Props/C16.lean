import PyYetiVerif.Lemmas.Extrema
import PyYetiVerif.Lemmas.ApplyUf
import Mathlib.Algebra.Order.Ring.Abs
import Mathlib.Algebra.Order.Ring.Int
import Mathlib.Algebra.Order.Field.Rat
import Mathlib.Algebra.Field.Basic
import Mathlib.Tactic.Ring
import Mathlib.Tactic.FieldSimp
/-!
# C16 — loads-analysis extrema, envelopes and uncertainty factors are bookkept right

Property theorems only (helper lemmas live in `Lemmas/`, the specification predicates
`FirstBest` / `IsNanMax` in `Spec/Extrema.lean`).  The models `Model/Extrema.lean` and
`Model/ApplyUf.lean` are tied to `pyyeti/cla/_utilities.py`, `dr_results.py`, `dr_event.py` by the
correspondence check in `harness/props/c16.py`.

Reading of the property.  One row of a category is followed through a history of calls.  A call
contributes, per tracked column, a triple `Tr` = (value or NaN, abscissa, label).  "The extreme
table holds the true maximum over all cases, the case label and abscissa at which it was attained"
is `FirstBest id all r`: `r` is one of the triples (so value, abscissa and label belong together),
no value is larger, and — a fact about the code rather than a demand of the property — it is the
first such case in call order.  `FirstBest` has exactly one solution (`spec_determines_result`), so
nothing is left open.
-/
namespace PyYetiVerif.C16
open PyYetiVerif.Extrema PyYetiVerif.ApplyUf

section twocol
variable {α X L : Type} [LinearOrder α]

/-- ★ two-column `cla.extrema` after ANY non-empty history of calls: column 0 is the NaN-ignoring
maximum of the case maxima, column 1 the minimum of the case minima, each with the abscissa and
label of the first case attaining it. -/
theorem ext_is_fold_max (m : Tr α X L × Tr α X L) (ms : List (Tr α X L × Tr α X L)) :
    ∃ c, run2 (m :: ms) = some c ∧
      FirstBest id ((m :: ms).map (·.1)) c.hi ∧
      FirstBest OrderDual.toDual ((m :: ms).map (·.2)) c.lo := by
  refine ⟨_, run2_cons m ms, ?_, ?_⟩
  · exact runTr_firstBest keyOrder_gt _ _
  · exact runTr_firstBest keyOrder_lt _ _

omit [LinearOrder α] in
/-- the specification has exactly one solution: value, abscissa and label are all determined -/
theorem spec_determines_result {β : Type} [LinearOrder β] (key : α → β) (all : List (Tr α X L))
    (r r' : Tr α X L) (h : FirstBest key all r) (h' : FirstBest key all r') : r = r' :=
  firstBest_unique h h'

/-- ★ the VALUES (not the tie labels) do not depend on the order of the cases -/
theorem ext_values_order_independent (m m' : Tr α X L × Tr α X L)
    (ms ms' : List (Tr α X L × Tr α X L)) (hp : (m :: ms).Perm (m' :: ms')) :
    ∃ c c', run2 (m :: ms) = some c ∧ run2 (m' :: ms') = some c' ∧
      c.hi.v = c'.hi.v ∧ c.lo.v = c'.lo.v := by
  obtain ⟨c, hc, h1, h2⟩ := ext_is_fold_max m ms
  obtain ⟨c', hc', h1', h2'⟩ := ext_is_fold_max m' ms'
  refine ⟨c, c', hc, hc', ?_, ?_⟩
  · have := firstBest_perm_key (hp.map (·.1)) h1 h1'
    simpa using this
  · exact Option.map_injective OrderDual.toDual.injective
      (firstBest_perm_key (hp.map (·.2)) h2 h2')

/-- ★ envelope of the parts (`form_extreme`, `merge`, nested events): running `extrema` over the
results of any grouping of the cases into consecutive non-empty groups gives exactly what one pass
over all the cases gives — value, abscissa and label (labels passed through unchanged, i.e.
`doappend = 3`; other `doappend` settings only rewrite the label strings). -/
theorem envelope_of_parts (g : (Tr α X L × Tr α X L) × List (Tr α X L × Tr α X L))
    (gs : List ((Tr α X L × Tr α X L) × List (Tr α X L × Tr α X L)))
    (parts : List (Cur α X L))
    (hparts : ((g :: gs).map fun g => run2 (g.1 :: g.2)) = parts.map some) :
    ∃ p ps, parts = p :: ps ∧
      run2 ((p.hi, p.lo) :: ps.map fun c => (c.hi, c.lo))
        = run2 (g.1 :: (g.2 ++ gs.flatMap fun g => g.1 :: g.2)) := by
  rcases parts with _ | ⟨p, ps⟩
  · simp at hparts
  · refine ⟨p, ps, rfl, ?_⟩
    simp only [List.map_cons, List.cons.injEq, run2_cons, Option.some.injEq] at hparts
    obtain ⟨hp, hps⟩ := hparts
    have hps' : ps = gs.map fun g =>
        (⟨runTr gtB g.1.1 (g.2.map (·.1)), runTr ltB g.1.2 (g.2.map (·.2))⟩ : Cur α X L) := by
      apply List.map_injective_iff.2 (Option.some_injective _)
      rw [← hps]
      simp
    rw [run2_cons, run2_cons, ← hp, hps']
    congr 2
    · have := foldl_groups (keyOrder_gt (α := α)) (runTr gtB g.1.1 (g.2.map (·.1)))
        (gs.map fun g => (g.1.1, g.2.map (·.1)))
      simp only [runTr, List.map_map, Function.comp_def, List.map_append, List.foldl_append,
        List.map_flatMap, List.map_cons] at this ⊢
      simpa [List.flatMap_map, Function.comp_def] using this
    · have := foldl_groups (keyOrder_lt (α := α)) (runTr ltB g.1.2 (g.2.map (·.2)))
        (gs.map fun g => (g.1.2, g.2.map (·.2)))
      simp only [runTr, List.map_map, Function.comp_def, List.map_append, List.foldl_append,
        List.map_flatMap, List.map_cons] at this ⊢
      simpa [List.flatMap_map, Function.comp_def] using this

/-- ★ time-domain data recovery of one row (`maxmin` per case, then `extrema` with the case
name) over ANY non-empty list of load cases: the stored maximum is the first-best over ALL samples
of ALL cases — its label is the case and its abscissa the time at which it occurs; likewise the
minimum.  (Consequence of the associativity behind `envelope_of_parts`.) -/
theorem time_recovery_is_global_extreme (c : L × List (Option α) × List X)
    (cs : List (L × List (Option α) × List X)) (cur : Option (Cur α X L))
    (per : List (Tr α X Nat × Tr α X Nat)) (h : timeRow (c :: cs) = some (cur, per)) :
    ∃ r, cur = some r ∧ FirstBest id ((c :: cs).flatMap samples) r.hi ∧
      FirstBest OrderDual.toDual ((c :: cs).flatMap samples) r.lo := by
  rcases timeRow_inv (c :: cs) cur per h with ⟨hnil, -⟩ | ⟨r, t, ts, hsome, hflat, rhi, rlo⟩
  · simp at hnil
  · refine ⟨r, hsome, ?_, ?_⟩
    · rw [hflat, rhi]
      exact runTr_firstBest keyOrder_gt _ _
    · rw [hflat, rlo]
      exact runTr_firstBest keyOrder_lt _ _

/-- ★ SRS envelopes (`_compute_srs`) equal the NaN-ignoring maximum over the cases … -/
theorem srs_env_is_max (first : Option α) (rest : List (Option α)) :
    IsNanMax (first :: rest) (srsEnv first rest) := srsEnv_isNanMax first rest

/-- … which is unique, hence independent of the case order … -/
theorem srs_env_order_independent (f f' : Option α) (r r' : List (Option α))
    (hp : (f :: r).Perm (f' :: r')) : srsEnv f r = srsEnv f' r' := by
  have h := srsEnv_isNanMax f r
  have h' := srsEnv_isNanMax f' r'
  refine isNanMax_unique h ⟨hp.symm.subset h'.1, fun w hw => h'.2 w (hp.subset hw)⟩

/-- … and `form_extreme`, which starts from a copy of the first part's envelope and folds every
part (the first one again) into it, gives the same. -/
theorem srs_env_form (first : Option α) (rest : List (Option α)) :
    srsEnvForm first rest = srsEnv first rest := by
  simp [srsEnvForm, srsEnv, fmaxO_self]

end twocol

section percase
variable {β : Type}

/-- per-case columns (`mx[:, j]`, `mn[:, j]`, `mx_x`, `mn_x`): after any sequence of writes with
distinct case numbers below `n`, column `j` holds what was written for case `j`, the array keeps
its length, and columns never written keep their fill. -/
theorem percase_columns (n : Nat) (fill : β) (ws : List (Nat × β))
    (hnd : (ws.map (·.1)).Nodup) :
    (record n fill ws).length = n ∧
    (∀ j v, (j, v) ∈ ws → j < n → (record n fill ws)[j]? = some v) ∧
    (∀ j, j < n → j ∉ ws.map (·.1) → (record n fill ws)[j]? = some fill) := by
  refine ⟨by simp [record, foldl_set_length], fun j v hmem hj => ?_, fun j hj hnot => ?_⟩
  · exact foldl_set_get _ ws hnd j v hmem (by simpa using hj)
  · rw [record, foldl_set_get_of_notMem _ _ _ hnot]
    simp [hj]

end percase

section onecol
variable {α X L : Type} [Ring α] [LinearOrder α] [IsStrictOrderedRing α]

/-- ★ one-column `cla.extrema` (the code after fix e548f60): column 0 holds the value of largest
magnitude with its sign, column 1 the value of smallest magnitude, each with the abscissa and label
of the first case attaining that magnitude. -/
theorem ext_is_fold_absmax_onecol (m : Tr α X L) (ms : List (Tr α X L)) :
    ∃ c, run1 (m :: ms) = some c ∧
      FirstBest (fun a : α => |a|) (m :: ms) c.hi ∧
      FirstBest (fun a : α => OrderDual.toDual |a|) (m :: ms) c.lo := by
  refine ⟨_, run1_cons m ms, ?_, ?_⟩
  · exact runTr_firstBest keyOrder_absGt _ _
  · exact runTr_firstBest keyOrder_absLt _ _

end onecol

/-- why fix e548f60 was needed (finding F6): the update as it was before the fix — the new column
compared with BOTH stored columns — ends the history `5, 1, 3` with maximum `3`. -/
theorem onecol_broadcast_counterexample :
    (run1Old [(⟨some 5, (), "c0"⟩ : Tr Int Unit String), ⟨some 1, (), "c1"⟩,
        ⟨some 3, (), "c2"⟩]).map (fun c => (c.hi.v, c.hi.lab))
      = some (some 3, "c2")
    ∧ (run1 [(⟨some 5, (), "c0"⟩ : Tr Int Unit String), ⟨some 1, (), "c1"⟩,
        ⟨some 3, (), "c2"⟩]).map (fun c => (c.hi.v, c.hi.lab, c.lo.v, c.lo.lab))
      = some (some 5, "c0", some 1, "c1") := by
  decide

section uf
variable {α : Type} [Field α]

/-- ★ `d = d_static + d_dynamic` for every kind of mode and every factor tuple -/
theorem uf_split (uf : Uf α) (md : Mode α) (s : Sample α) (pre : Pre α) :
    (applyMode uf md s pre).d = (applyMode uf md s pre).dStatic + (applyMode uf md s pre).dDynamic := by
  unfold applyMode
  cases md.kind <;> rfl

/-- ★ unit factors leave the solution unchanged — up to what the routine documents: rigid-body
displacements and residual-flexibility accelerations / velocities are zeroed. -/
theorem uf_unit (md : Mode α) (s : Sample α) (hk : md.kind ≠ .rb → md.k ≠ 0) :
    let o := applyMode ⟨1, 1, 1, 1⟩ md s (preCalc md s)
    (md.kind = .el → o.a = s.a ∧ o.v = s.v ∧ o.d = s.d) ∧
    (md.kind = .rf → o.a = 0 ∧ o.v = 0 ∧ o.d = s.d) ∧
    (md.kind = .rb → o.a = s.a ∧ o.v = s.v ∧ o.d = 0) := by
  intro o
  refine ⟨fun h => ?_, fun h => ?_, fun h => ?_⟩
  · have hk' : md.k ≠ 0 := hk (by simp [h])
    simp only [o, applyMode, preCalc, h]
    refine ⟨by ring, by ring, ?_⟩
    field_simp
    ring
  · have hk' : md.k ≠ 0 := hk (by simp [h])
    simp only [o, applyMode, preCalc, h]
    refine ⟨by ring, by ring, ?_⟩
    field_simp
    ring
  · simp only [o, applyMode, h]
    refine ⟨by ring, by ring, by ring⟩

/-- ★ each part scales by the documented product: rigid-body `a, v` by `ruf·suf` (`d` zeroed);
elastic `a, v` by `euf·duf`, elastic static displacement by `euf·suf`, dynamic by `euf·duf`, so
`d_el = euf·(suf·F − duf·(m a + b v))/k` with `F = m a + b v + k d`; residual-flexibility
displacement by `euf·suf` (`a, v` zeroed). -/
theorem uf_scaling (uf : Uf α) (md : Mode α) (s : Sample α) (hk : md.kind ≠ .rb → md.k ≠ 0) :
    let o := applyMode uf md s (preCalc md s)
    let av := mTimes md.m s.a + md.b * s.v
    (md.kind = .rb → o.a = uf.ruf * uf.suf * s.a ∧ o.v = uf.ruf * uf.suf * s.v ∧ o.d = 0 ∧
        o.dStatic = 0 ∧ o.dDynamic = 0) ∧
    (md.kind = .el → o.a = uf.euf * uf.duf * s.a ∧ o.v = uf.euf * uf.duf * s.v ∧
        o.dStatic = uf.euf * uf.suf * ((av + md.k * s.d) / md.k) ∧
        o.dDynamic = -(uf.euf * uf.duf * (av / md.k)) ∧
        o.d = uf.euf * (uf.suf * (av + md.k * s.d) - uf.duf * av) / md.k) ∧
    (md.kind = .rf → o.a = 0 ∧ o.v = 0 ∧ o.dDynamic = 0 ∧ o.dStatic = uf.euf * uf.suf * s.d ∧
        o.d = uf.euf * uf.suf * s.d) := by
  intro o av
  refine ⟨fun h => ?_, fun h => ?_, fun h => ?_⟩
  · simp only [o, applyMode, h]
    refine ⟨by ring, by ring, by ring, trivial, trivial⟩
  · have hk' : md.k ≠ 0 := hk (by simp [h])
    simp only [o, av, applyMode, preCalc, h]
    refine ⟨by ring, by ring, by field_simp, by field_simp, ?_⟩
    field_simp
    ring
  · have hk' : md.k ≠ 0 := hk (by simp [h])
    simp only [o, applyMode, preCalc, h]
    refine ⟨by ring, by ring, trivial, by field_simp, ?_⟩
    field_simp
    ring

end uf

section cache
variable {α : Type} [Add α] [Mul α] [Neg α] [Div α] [OfNat α 0]

/-- ★ the caller-owned `save` cache is transparent: for ANY sequence of factor tuples applied to
the same modal data while sharing one cache (started empty, as `DR_Event.apply_uf` does, or
already filled by earlier calls on that data), every result equals the uncached result. -/
theorem cache_transparent (modes : List (Mode α)) (sol : Sol α) (ufs : List (Uf α))
    (save : Option (List (List (Pre α)))) (h : save = none ∨ save = some (preAll modes sol)) :
    applyUfSeq save modes sol ufs = ufs.map fun uf => (applyUf none modes sol uf).1 :=
  applyUfSeq_eq modes sol ufs save h

end cache

/-! ### non-vacuity -/

/-- the hypotheses of `envelope_of_parts` are inhabited: two groups of two and one case(s) -/
example : ∃ parts : List (Cur Int Unit String),
    ([(((⟨some 1, (), "a"⟩, ⟨some 0, (), "a"⟩) : Tr Int Unit String × Tr Int Unit String),
        [((⟨some 4, (), "b"⟩, ⟨none, (), "b"⟩) : Tr Int Unit String × Tr Int Unit String)]),
      ((⟨some 4, (), "c"⟩, ⟨some (-2), (), "c"⟩), [])].map fun g => run2 (g.1 :: g.2))
      = parts.map some :=
  ⟨[⟨⟨some 4, (), "b"⟩, ⟨some 0, (), "a"⟩⟩, ⟨⟨some 4, (), "c"⟩, ⟨some (-2), (), "c"⟩⟩], by decide⟩

/-- `ext_values_order_independent`: a genuine permutation with a tie and a NaN -/
example : ([((⟨some 2, (), "a"⟩, ⟨none, (), "a"⟩) : Tr Int Unit String × Tr Int Unit String),
      (⟨some 2, (), "b"⟩, ⟨some 1, (), "b"⟩)]).Perm
    [(⟨some 2, (), "b"⟩, ⟨some 1, (), "b"⟩), (⟨some 2, (), "a"⟩, ⟨none, (), "a"⟩)] :=
  List.Perm.swap _ _ _

/-- `time_recovery_is_global_extreme`: the pipeline accepts two cases with a tie and a NaN -/
example : ∃ cur per, timeRow [("A", [some (1 : Int), none, some 3], [(0 : Nat), 1, 2]),
    ("B", [some 3, some (-1), none], [0, 1, 2])] = some (cur, per) := ⟨_, _, rfl⟩

/-- `uf_unit` / `uf_scaling`: an elastic mode with non-zero stiffness exists (over `ℚ`) -/
example : ∃ md : Mode ℚ, md.kind = .el ∧ (md.kind ≠ .rb → md.k ≠ 0) :=
  ⟨⟨.el, some 2, 3, 4⟩, rfl, fun _ => by norm_num⟩

/-- `percase_columns`: writes in permuted case order -/
example : (([(2, "c"), (0, "a"), (1, "b")] : List (Nat × String)).map (·.1)).Nodup := by decide

/-- `cache_transparent`: both admissible cache states occur (the second after one call) -/
example : (applyUf (none : Option (List (List (Pre ℚ)))) [⟨.el, none, 1, 2⟩] [[⟨1, 2, 3⟩]]
    ⟨1, 1, 1, 1⟩).2 = some (preAll [⟨.el, none, 1, 2⟩] [[⟨1, 2, 3⟩]]) := rfl

end PyYetiVerif.C16
