import PyYetiVerif.Lemmas.Findap
import PyYetiVerif.Lemmas.FindapFix
/-!
# C10 — HISTORY: what held of `findap` as its text was BEFORE the repairs f8f6e40 / 4b29dcf

NOT part of the property claims (none of these names is in THEOREMS): statements about the pre-fix
models `Findap.findapDef`, `Findap.findapSeq` (`Model/Findap.lean`), kept so that the change made
by the repairs is stated exactly: the default variant alternated / reached the extremes only under
`NoSubTolDrift` (F4), the numba variant reached them only within `2·stol` (F22), could read `nxt`
unbound (F14), and the variants differed without any drift (F23); `prefix_eq_current_on_fast_path`
says where the old and the current default variant coincide.
-/
namespace PyYetiVerif.C10.PreFix
open PyYetiVerif.Findap

section findap
variable {α : Type} [Field α] [LinearOrder α] [IsStrictOrderedRing α]

/-! ### numba (sequential) variant -/

theorem seqSt_cases (st : α) (h0 : 0 ≤ st) (y : List α) (l : List (Nat × α))
    (h : findapSeqSt st y = .sel l) :
    (∃ a r, y = a :: r ∧ l.head? = some (0, a)) ∧ Alt (l.map (·.2)) ∧
      ∀ v ∈ y, (∃ s ∈ l.map (·.2), v ≤ s + 2 * st) ∧ (∃ s ∈ l.map (·.2), s ≤ v + 2 * st) := by
  match y, h with
  | [], h => simp [findapSeqSt] at h
  | [a], h =>
      simp only [findapSeqSt, SeqRes.sel.injEq] at h; subst h
      refine ⟨⟨a, [], rfl, rfl⟩, by simp [Alt, AltFrom], ?_⟩
      intro v hv; simp at hv; subst hv
      exact ⟨⟨v, by simp, by linarith⟩, ⟨v, by simp, by linarith⟩⟩
  | [a, b], h =>
      simp only [findapSeqSt] at h
      split at h
      · simp only [SeqRes.sel.injEq] at h; subst h
        rename_i hab
        refine ⟨⟨a, [b], rfl, rfl⟩, ?_, ?_⟩
        · rcases hab with hab | hab
          · left; simp [AltFrom, hab]
          · right; simp [AltFrom, hab]
        · intro v hv
          exact ⟨⟨v, by simpa using hv, by linarith⟩, ⟨v, by simpa using hv, by linarith⟩⟩
      · simp only [SeqRes.sel.injEq] at h; subst h
        rename_i hab
        have hab' : a = b := le_antisymm (not_lt.mp fun h => hab (Or.inr h)) (not_lt.mp fun h => hab (Or.inl h))
        refine ⟨⟨a, [b], rfl, rfl⟩, by simp [Alt, AltFrom], ?_⟩
        intro v hv
        have : v = a := by rcases List.mem_cons.mp hv with h | h <;> simp_all
        subst this
        exact ⟨⟨v, by simp, by linarith⟩, ⟨v, by simp, by linarith⟩⟩
  | a :: b :: c :: r, h =>
      simp only [findapSeqSt] at h
      split at h
      · rename_i hs
        simp only [SeqRes.sel.injEq] at h; subst h
        refine ⟨⟨a, _, rfl, rfl⟩, by simp [Alt, AltFrom], ?_⟩
        intro v hv
        have hva : |v - a| ≤ st := by
          rcases List.mem_cons.mp hv with rfl | hv
          · simpa using h0
          · exact skipInit_none st a _ 1 hs v hv
        have := abs_le.mp hva
        exact ⟨⟨a, by simp, by linarith⟩, ⟨a, by simp, by linarith⟩⟩
      · cases h
      · rename_i cur j x r' hs
        simp only [SeqRes.sel.injEq] at h; subst h
        obtain ⟨pre, hpre, hclose, hsig⟩ := skipInit_some st a _ 1 cur j (x :: r') hs
        have hm : (decide (a < cur) = true → a + st < cur) := by
          intro hd
          have : a < cur := by simpa using hd
          rw [abs_of_pos (by linarith)] at hsig; linarith
        have hv' : (decide (a < cur) = false → cur + st < a) := by
          intro hd
          have hle : cur ≤ a := not_lt.mp (by simpa using hd)
          have hne : cur ≠ a := by
            rintro rfl; simp at hsig; linarith
          rw [abs_of_neg (by have := lt_of_le_of_ne hle hne; linarith)] at hsig; linarith
        have hnn : |cur - cur| ≤ st := by simpa using h0
        refine ⟨⟨a, _, rfl, rfl⟩, ?_, ?_⟩
        · have := loop_alt st h0 (x :: r') (decide (a < cur)) cur j cur cur (j + 1) a hm hv' hnn
          simp only [List.map_cons]
          by_cases hd : a < cur
          · left; simpa [hd] using this
          · right; simpa [hd] using this
        · obtain ⟨⟨su, hsu, hbu⟩, hau⟩ :=
            loop_upper st h0 (x :: r') (decide (a < cur)) cur j cur cur (j + 1) a hm hv' hnn
          obtain ⟨⟨sl, hsl, hbl⟩, hal⟩ :=
            loop_lower st h0 (x :: r') (decide (a < cur)) cur j cur cur (j + 1) a hm hv' hnn
          simp only [List.map_cons]
          intro v hv
          rcases List.mem_cons.mp hv with rfl | hv
          · exact ⟨⟨v, by simp, by linarith⟩, ⟨v, by simp, by linarith⟩⟩
          · rw [hpre] at hv
            rcases List.mem_append.mp hv with hv | hv
            · have := abs_le.mp (hclose v hv)
              exact ⟨⟨a, by simp, by linarith⟩, ⟨a, by simp, by linarith⟩⟩
            · rcases List.mem_cons.mp hv with rfl | hv
              · exact ⟨⟨su, hsu, by linarith⟩, ⟨sl, hsl, by linarith⟩⟩
              · exact ⟨hau v hv, hal v hv⟩

/-- the first sample is always selected (numba variant) -/
theorem seq_first_selected (tol : α) (y : List α) (l : List (Nat × α))
    (h : findapSeq tol y = .sel l) : ∃ a r, y = a :: r ∧ l.head? = some (0, a) :=
  (seqSt_cases _ (stol_nonneg tol y) y l h).1

/-- the selected samples strictly alternate between maxima and minima (numba variant) -/
theorem seq_alternates (tol : α) (y : List α) (l : List (Nat × α))
    (h : findapSeq tol y = .sel l) : Alt (l.map (·.2)) :=
  (seqSt_cases _ (stol_nonneg tol y) y l h).2.1

/-- every sample — in particular the global maximum and minimum — is within `2·stol` of a
selected sample, from above and from below (numba variant).  With `stol` in place of `2·stol`
the statement is false: `seq_end_rule_counterexample`. -/
theorem seq_extremes_within_two_stol (tol : α) (y : List α) (l : List (Nat × α))
    (h : findapSeq tol y = .sel l) :
    ∀ v ∈ y, (∃ s ∈ l.map (·.2), v ≤ s + 2 * stol tol y) ∧ (∃ s ∈ l.map (·.2), s ≤ v + 2 * stol tol y) :=
  (seqSt_cases _ (stol_nonneg tol y) y l h).2.2

/-! ### default (vectorised) variant -/

/-- the first sample is always selected (default variant) -/
theorem default_first_selected (tol : α) (y : List α) (m : List Bool)
    (h : findapDef tol y = some m) : m.head? = some true := by
  unfold findapDef at h
  match y, h with
  | [], h => simp [findapDefSt] at h
  | [a], h => simp only [findapDefSt, Option.some.injEq] at h; subst h; rfl
  | a :: b :: r, h =>
      simp only [findapDefSt, Option.some.injEq] at h; subst h
      have : ∀ l : List α, l ≠ [] → (pvOf l).head? = some true := by
        intro l hl
        match l, hl with
        | [_], _ => rfl
        | [_, _], _ => rfl
        | _ :: _ :: _ :: _, _ => rfl
      generalize hp : pvOf (select (true :: uniqMask (stol tol (a :: b :: r)) a (b :: r)) (a :: b :: r)) = pv
      have := this (select (true :: uniqMask (stol tol (a :: b :: r)) a (b :: r)) (a :: b :: r)) (by simp [select])
      rw [hp] at this
      cases pv with
      | nil => simp at this
      | cons p pv' => simp only [List.head?_cons, Option.some.injEq] at this; subst this; simp [expand]

theorem defaultSt_partial (st : α) (h0 : 0 ≤ st) (y : List α) (m : List Bool)
    (h : findapDefSt st y = some m) (hd : NoSubTolDrift st y) :
    Alt ((selOf m y 0).map (·.2)) ∧
      ∀ v ∈ y, (∃ s ∈ (selOf m y 0).map (·.2), v ≤ s + st) ∧ (∃ s ∈ (selOf m y 0).map (·.2), s ≤ v + st) := by
  match y, h with
  | [], h => simp [findapDefSt] at h
  | [a], h =>
      simp only [findapDefSt, Option.some.injEq] at h; subst h
      refine ⟨by simp [selOf, Alt, AltFrom], ?_⟩
      intro v hv; simp at hv; subst hv
      exact ⟨⟨v, by simp [selOf], by linarith⟩, ⟨v, by simp [selOf], by linarith⟩⟩
  | a :: b :: r, h =>
      simp only [findapDefSt, Option.some.injEq] at h; subst h
      have hlen : (true :: uniqMask st a (b :: r)).length = (a :: b :: r).length := by
        simp [uniqMask_length]
      rw [selOf_expand _ _ _ 0 hlen (pvOf_length _)]
      obtain ⟨hdist, hclose⟩ := heads_spec st (b :: r) a a (by simpa using h0) hd
      have hsel : select (true :: uniqMask st a (b :: r)) (a :: b :: r)
          = a :: select (uniqMask st a (b :: r)) (b :: r) := rfl
      rw [hsel]
      obtain ⟨h1, h2, h3⟩ := pvOf_spec _ hdist
      refine ⟨h1, ?_⟩
      intro v hv
      have : ∃ w ∈ a :: select (uniqMask st a (b :: r)) (b :: r), |v - w| ≤ st := by
        rcases List.mem_cons.mp hv with rfl | hv
        · exact ⟨v, by simp, by simpa using h0⟩
        · exact hclose v hv
      obtain ⟨w, hw, hvw⟩ := this
      have := abs_le.mp hvw
      obtain ⟨s, hs, hws⟩ := h2 w hw
      obtain ⟨s', hs', hws'⟩ := h3 w hw
      exact ⟨⟨s, hs, by linarith⟩, ⟨s', hs', by linarith⟩⟩

/-- PARTIAL (finding F4): without sub-tolerance drift the samples selected by the default
variant strictly alternate.  Full strength (no hypothesis) is false:
`default_drift_counterexample`. -/
theorem default_alternates_partial (tol : α) (y : List α) (m : List Bool)
    (h : findapDef tol y = some m) (hd : NoSubTolDrift (stol tol y) y) :
    Alt ((selOf m y 0).map (·.2)) :=
  (defaultSt_partial _ (stol_nonneg tol y) y m h hd).1

/-- PARTIAL (finding F4): without sub-tolerance drift every sample — in particular the global
maximum and minimum — is within `stol` of a sample selected by the default variant. -/
theorem default_extremes_partial (tol : α) (y : List α) (m : List Bool)
    (h : findapDef tol y = some m) (hd : NoSubTolDrift (stol tol y) y) :
    ∀ v ∈ y, (∃ s ∈ (selOf m y 0).map (·.2), v ≤ s + stol tol y) ∧
      (∃ s ∈ (selOf m y 0).map (·.2), s ≤ v + stol tol y) :=
  (defaultSt_partial _ (stol_nonneg tol y) y m h hd).2

end findap

/-! ### counterexamples (concrete rational signals) -/

/-- F4: `[0, 1, 2, 0]`, `tol = 0.51` (`stol = 1.02`): the run `0, 1, 2` drifts by `2 > stol`;
the default variant selects the values `[0, 0]` — no alternation, and the maximum `2` is missed
by more than `stol`.  So `NoSubTolDrift` cannot be dropped from the `…_partial` theorems. -/
theorem default_drift_counterexample :
    let y : List Rat := [0, 1, 2, 0]
    let tol : Rat := 51 / 100
    findapDef tol y = some [true, false, false, true] ∧ stol tol y = 51 / 50 ∧
      ¬ NoSubTolDrift (stol tol y) y ∧ ¬ Alt ([0, 0] : List Rat) ∧ (0 : Rat) + 51 / 50 < 2 := by
  refine ⟨by decide +kernel, by decide +kernel, by decide +kernel, ?_, by decide +kernel⟩
  simp [Alt, AltFrom]

/-- F22: numba variant on `[-100, 0, 4, -4]`, `tol = 0.05` (`stol = 5`, no drift): the end rule
marks the last sample instead of the held one; the selected values are `-100, -4` and the
maximum `4` is missed by `8 > stol`. -/
theorem seq_end_rule_counterexample :
    let y : List Rat := [-100, 0, 4, -4]
    let tol : Rat := 1 / 20
    findapSeq tol y = .sel [(0, -100), (3, -4)] ∧ stol tol y = 5 ∧
      NoSubTolDrift (stol tol y) y ∧ (-4 : Rat) + 5 < 4 := by
  refine ⟨by decide +kernel, by decide +kernel, by decide +kernel, by decide +kernel⟩

/-- F14: numba variant on `[1, 1, 4]`: the first significant change is the last sample, the
`for` loop does not run and `nxt` is read unbound. -/
theorem seq_unbound_counterexample :
    findapSeq (1 / 1000000 : Rat) [1, 1, 4] = .unbound ∧
      findapDef (1 / 1000000 : Rat) [1, 1, 4] = some [true, false, true] := by
  refine ⟨by decide +kernel, by decide +kernel⟩

/-- F23: `[0, 80, 83, 78, 160]`, `tol = 0.05` (`stol = 4.1`, no drift): the step `83 → 78`
exceeds `stol` but lands within `stol` of the run head `80`; the default variant selects
indices `0, 1, 3, 4`, the numba variant `0, 4`. -/
theorem variants_differ_counterexample :
    let y : List Rat := [0, 80, 83, 78, 160]
    let tol : Rat := 1 / 20
    NoSubTolDrift (stol tol y) y ∧ findapDef tol y = some [true, true, false, true, true] ∧
      findapSeq tol y = .sel [(0, 0), (4, 160)] := by
  refine ⟨by decide +kernel, by decide +kernel, by decide +kernel⟩


/-- where `_unique_kept`'s vectorised test passes the current default variant returns what the
pre-fix one returned -/
theorem prefix_eq_current_on_fast_path {α : Type} [Field α] [LinearOrder α] [IsStrictOrderedRing α]
    (tol : α) (a : α) (r : List α) (hf : fastOK (stol tol (a :: r)) a r = true) :
    findapDefFix tol (a :: r) = findapDef tol (a :: r) :=
  defFixSt_fast _ a r hf

example : findapDef (1 / 1000000 : Rat) [1, 2, 3, 4, 4, -2, -2, 0]
    = some [true, false, false, true, false, true, false, true] := by decide +kernel
example : NoSubTolDrift (stol (1 / 1000000 : Rat) [1, 2, 3, 4, 4, -2, -2, 0]) [1, 2, 3, 4, 4, -2, -2, 0] := by
  decide +kernel
example : findapSeq (1 / 1000000 : Rat) [1, 2, 3, 4, 4, -2, -2, 0]
    = .sel [(0, 1), (3, 4), (5, -2), (7, 0)] := by decide +kernel

end PyYetiVerif.C10.PreFix
