import PyYetiVerif.Lemmas.Op2ReadSel
/-!
# C11 (continued) — OUTPUT2 `rdop2mats(names, which)`: named subset = filter, which occurrence

Property theorems only.  `Model/Op2ReadForms.lean` transcribes `rdop2mats` with a name list (`_get_valid_names`,
`_has_match`: `patt.upper()`, a trailing `*` is a prefix wildcard, otherwise equality; `_get_unique`) and the
`which` argument (an index into the occurrences of a name, Python style, or `"all"`).
-/
namespace PyYetiVerif.C11
open PyYetiVerif.Op2 PyYetiVerif.Op2R PyYetiVerif.Op2RF

/-- **the name predicate is exact match unless the pattern ends in `*`.**  For a non-empty pattern,
`_has_match` tests the block name against the UPPER-CASED pattern: if the upper-cased pattern ends in `*` the
name has to start with the rest of it; otherwise the name has to EQUAL it — a plain pattern does not match a
name it is merely a prefix of.  (The block name itself is not case-folded: a block whose stored name has a
lower-case letter is matched by no pattern.) -/
theorem op2_name_test_exact (name patt : List Nat) (hne : patt ≠ []) :
    matchPat name patt = .ok (matchB name patt) ∧
      ((patt.map upperB).getLast? ≠ some 42 → (matchB name patt = true ↔ name = patt.map upperB)) ∧
      ((patt.map upperB).getLast? = some 42 →
        (matchB name patt = true ↔ (patt.map upperB).dropLast <+: name)) := by
  refine ⟨matchPat_pure name patt hne, ?_, ?_⟩
  · intro h
    unfold matchB
    simp only [h, if_false, beq_iff_eq]
  · intro h
    unfold matchB
    simp only [h, if_true, List.isPrefixOf_iff_prefix]

/-- `_has_match(name, names)` for non-empty patterns: some pattern matches -/
theorem op2_has_match_any (name : List Nat) (pats : List (List Nat)) (h : ∀ p ∈ pats, p ≠ []) :
    hasMatch name pats = .ok (pats.any (matchB name)) := hasMatch_pure name pats h

/-- **named_subset_is_filter (OUTPUT2).**  Whenever `rdop2mats(which=w)` returns `L` (name → the matrices `w`
selects), `rdop2mats(names=pats, which=w)` with a non-empty list of non-empty patterns returns exactly the
entries of `L` whose name passes the name test, in the same order, with the same matrices. -/
theorem op2_named_subset_is_filter (v : V2) (f : List Nat) (dir : List Entry) (w : Which) (pats : List (List Nat))
    (hne : pats ≠ []) (hp : ∀ p ∈ pats, p ≠ []) (L : List (List Nat × List Mat))
    (h : rdMatsSel v f dir none w = .ok L) :
    rdMatsSel v f dir (some pats) w = .ok (L.filter fun x => pats.any (matchB x.1)) :=
  rdMatsSel_named v f dir w pats hne hp L h

/-- `which` is a Python index into the file-order list of the blocks of one name: `0` the first, `-1` the last
(the default), `"all"` every one; an index outside the list is an IndexError -/
theorem op2_which_indexing {α} (l : List α) :
    pick (.idx 0) l = (match l.head? with | some x => .ok [x] | none => .error .index) ∧
      pick (.idx (-1)) l = (match l.getLast? with | some x => .ok [x] | none => .error .index) ∧
      pick .all l = .ok l ∧
      (∀ i : Nat, i < l.length → pick (.idx i) l = .ok (l[i]?.toList)) ∧
      (∀ i : Nat, 0 < i → i ≤ l.length → pick (.idx (-(i : Int))) l = .ok (l[l.length - i]?.toList)) := by
  refine ⟨?_, ?_, rfl, ?_, ?_⟩
  · cases l <;> rfl
  · cases l with
    | nil => rfl
    | cons a t =>
      have h1 : ¬ ((-1 : Int) + ((a :: t).length : Int) < 0) := by simp only [List.length_cons]; omega
      have h2 : ((-1 : Int) + ((a :: t).length : Int)).toNat = t.length := by simp only [List.length_cons]; omega
      have h3 : (a :: t)[t.length]? = (a :: t).getLast? := by
        rw [List.getLast?_eq_getElem?]; simp
      simp only [pick, show ((-1 : Int) < 0) from by omega, if_true, h1, if_false, h2, h3]
      cases (a :: t).getLast? <;> rfl
  · intro i hi
    have h1 : ¬ ((i : Int) < 0) := by omega
    simp only [pick, h1, if_false, Int.toNat_natCast]
    rw [List.getElem?_eq_getElem hi]; rfl
  · intro i hi hl
    have h0 : (-(i : Int)) < 0 := by omega
    have h1 : ¬ (-(i : Int) + (l.length : Int) < 0) := by omega
    have h2 : (-(i : Int) + (l.length : Int)).toNat = l.length - i := by omega
    simp only [pick, h0, if_true, h1, if_false, h2]
    rw [List.getElem?_eq_getElem (by omega)]; rfl

/-- **which occurrence is returned**, on an encoded file: `rdop2mats(which=w)` returns the distinct matrix names
in order of first appearance, each with the matrices of the blocks `w` picks among the blocks of that name in
file order (`whichMats`) -/
theorem op2_which_occurrence (v : V2) (date : List Int) (label : List Nat) (bs : List Block)
    (hb : ∀ b ∈ bs, BlockOk v b) (hc : ∀ b ∈ bs, ContentOk v b) (w : Which) :
    rdMatsSel v (encOp2 v date label bs) (entriesFrom v (header v date label).length bs) none w = whichMats v bs w :=
  rdMatsSel_enc v date label bs hb hc w

/-! ### non-vacuity: `KAA`, `KAAX`, `KAA` again — a plain name, a wildcard, lower-case input, which -/

def kaa : List Nat := [75, 65, 65]
def kaax : List Nat := [75, 65, 65, 88]

example : matchB kaax [107, 97, 97] = false ∧ matchB kaa [107, 97, 97] = true ∧ matchB kaax [107, 97, 42] = true ∧
    matchB kaa [107, 97, 97, 42] = true ∧ matchB [107, 97, 97] [107, 97, 97] = false := by decide

example : pick (.idx 0) [1, 2, 3] = .ok [1] ∧ pick (.idx (-1)) [1, 2, 3] = .ok [3] ∧ pick (.idx (-3)) [1, 2, 3] = .ok [1] ∧
    pick (.idx 3) [1, 2, 3] = .error .index ∧ pick (.idx (-4)) [1, 2, 3] = .error .index ∧
    pick .all [1, 2, 3] = .ok [1, 2, 3] := ⟨rfl, rfl, rfl, rfl, rfl, rfl⟩

end PyYetiVerif.C11
