import PyYetiVerif.Lemmas.Bulk
/-!
# C13 — bulk-data writers and readers are mutual inverses (structural layer)

Property theorems only (helper lemmas live in `Lemmas/Bulk.lean`).  The model
`PyYetiVerif.Bulk` is tied to `pyyeti/nastran/bulk.py` by the exact-text correspondence check
(harness/props/c13.py): writers character for character, readers field for field.

Level of the statements: id lists, card fields and physical lines.  A written field is related to
the value the reader returns for it by `Fld.val` (for integers and words; the decimal rendering /
parsing of one field is C12's subject and is tied here by correspondence only).  `rangeI a b` is
Python's `range(a, b + 1)`.

Not proved here (see PARTIAL in the harness module): the converse direction of `dmig_roundtrip`
(no assignment other than a true matrix term) and the pandas assembly of `rddmig`, the
character-level SET reader, GRID/CORD2x/USET.
-/
namespace PyYetiVerif.C13
open PyYetiVerif.Bulk

/-- THRU expansion inverts THRU compression, for every id list (sorted or not, with repeats). -/
theorem thru_roundtrip (ids : List Int) : expand (compress ids) = ids := by
  cases ids with
  | nil => rfl
  | cons x xs => simpa [compress, rangeI_self] using expand_compressAux xs (Int.le_refl x)

/-- THRU is emitted exactly for maximal runs of length ≥ 2 (`_find_sequence`: `end > start`):
every THRU item has `a < b`, and no two neighbouring items could have been merged. -/
theorem thru_maximal (ids : List Int) :
    (∀ it ∈ compress ids, it.Proper) ∧ NoMerge (compress ids) := by
  cases ids with
  | nil => exact ⟨by simp [compress], trivial⟩
  | cons x xs => exact ⟨compressAux_proper xs x x, compressAux_noMerge xs (Int.le_refl x)⟩

/-- `wtnasints`, any list and any start field: the lines concatenate to the input, there is always
a first line, it holds at most `10 - start` fields and every later line 1 … 8 fields. -/
theorem nasints_layout {α : Type} (start : Nat) (ints : List α) :
    (nasintsLines start ints).flatten = ints ∧
    ∃ f r, nasintsLines start ints = f :: r ∧ f.length ≤ 10 - start ∧
      ∀ l ∈ r, l.length ≤ 8 ∧ 0 < l.length :=
  ⟨nasintsLines_flatten start ints, nasintsLines_shape start ints⟩

/-- the text of `wtnasints`: with the `8·(start-1)` columns the caller has already written the
first line ends at or before column 72, and so does every continuation line — provided each
integer fits its 8-column field. -/
theorem nasints_columns (start : Nat) (hs : 1 ≤ start ∧ start ≤ 10) (ints : List Int)
    (hw : ∀ x ∈ ints, (dec x).length ≤ 8) :
    ∃ f r, nasintsText start ints = f :: r ∧ 8 * (start - 1) + f.length ≤ 72 ∧
      ∀ l ∈ r, l.length ≤ 72 := by
  obtain ⟨f, r, h, hf, hr⟩ := nasintsLines_shape start ints
  have hmem : ∀ l ∈ f :: r, ∀ x ∈ l, (dec x).length ≤ 8 := by
    intro l hl x hx
    apply hw
    rw [← nasintsLines_flatten start ints, h]
    exact List.mem_flatten.mpr ⟨l, hl, hx⟩
  refine ⟨fmtInts f, r.map fun l => blanks 8 ++ fmtInts l, by simp [nasintsText, h], ?_, ?_⟩
  · rw [fmtInts_length f (hmem f (by simp))]; omega
  · intro l hl
    simp only [List.mem_map] at hl
    obtain ⟨l', hl', rfl⟩ := hl
    have := (hr l' hl').1
    rw [List.length_append, blanks_length, fmtInts_length l' (hmem l' (by simp [hl']))]
    omega

/-- `wtspoints` → `rdspoints`: the cards written by `_wt_with_thru` (a THRU triple alone on its
card, at most 8 ids per card) are read back to the id list, for every id list. -/
theorem spoint_roundtrip (ids : List Int) :
    spointCards ((thruCards [] (compress ids)).map fun c => c.map Fld.val) = some ids ∧
    ∀ c ∈ thruCards [] (compress ids), c.length ≤ 8 ∧ 0 < c.length := by
  refine ⟨?_, thruCards_width _ [] (by simp)⟩
  have := spoint_cards (compress ids) []
  simp only [List.nil_append, thru_roundtrip] at this
  have e : rdF = fun c => spointCard (c.map Fld.val) := rfl
  rw [e] at this
  simpa [spointCards, List.map_map, Function.comp_def] using this

/-- `wtcsuper`: grids come back in order from the written fields and every line of the card
(24 columns of prefix, first line 6 ids, then 8 per line) stays within 72 columns. -/
theorem csuper_roundtrip (superid : Int) (grids : List Int)
    (hs : (dec superid).length ≤ 8) (hw : ∀ x ∈ grids, (dec x).length ≤ 8) :
    (nasintsLines 4 grids).flatten = grids ∧ ∀ l ∈ csuperLines superid grids, l.length ≤ 72 := by
  refine ⟨nasintsLines_flatten 4 grids, ?_⟩
  obtain ⟨f, r, h, hf, hr⟩ := nasints_columns 4 (by omega) grids hw
  intro l hl
  have h0 : (padL 8 (dec 0)).length = 8 := padL_length (by decide)
  have h1 := padL_length hs
  simp only [csuperLines, h, prefixFirst, List.mem_cons] at hl
  rcases hl with hl | hl
  · subst hl
    simp only [List.length_append, h0, h1, txt]
    have : "CSUPER  ".toList.length = 8 := by decide
    omega
  · exact hr l hl

/-- `wtextrn` → `rdextrn(expand=False)`: the id/DOF pairs come back from the flat field list. -/
theorem extrn_roundtrip (pairs : List (Int × Int)) :
    pairUp (nasintsLines 2 (interleave pairs)).flatten = some pairs := by
  rw [nasintsLines_flatten, pairUp_interleave]

/-- `wtset`: for every `max_length` that is at least the longest token, wrapping only inserts
line breaks between tokens (the groups concatenate to the token list `SET n = ` followed by the
item tokens of the compressed ids) and the items expand to the ids. -/
theorem set_wrap_roundtrip (setid : Int) (ids : List Int) (maxLen : Nat)
    (h : ∀ t ∈ setTokens setid ids, t.length ≤ maxLen) :
    (wrapGroups maxLen (setTokens setid ids)).flatten =
        (Bulk.txt "SET " ++ dec setid ++ Bulk.txt " = ") :: setBody (compress ids) ∧
      expand (compress ids) = ids :=
  ⟨wrapGroups_flatten maxLen _ h, thru_roundtrip ids⟩

/-- every line written by `_wrap_text_lines` fits `max_length` (tokens not longer than it). -/
theorem wrap_line_length (maxLen : Nat) (toks : List Txt) (h : ∀ t ∈ toks, t.length ≤ maxLen) :
    ∀ line ∈ wrapLines maxLen toks, line.length ≤ maxLen := by
  intro line hl
  simp only [wrapLines, List.mem_map] at hl
  obtain ⟨g, hg, rfl⟩ := hl
  exact wrapGroups_fits maxLen toks h g hg

/-- `wttabled1` → `rdtabled1`, every number of points (0, 1, fewer than a line, exactly filling
lines, with remainder) and both widths: the header line(s) padded by the reader to 8 fields, the
data lines of 4 (2) pairs and the final `ENDT` give back exactly the pair list through
`vec[8:-1:2], vec[9:-1:2]`.  (Proved for the repaired writer, fix 9aba476.) -/
theorem tabled1_layout (wide : Bool) (tid : Txt) (pairs : List (Txt × Txt)) :
    tablePairs (cardVals ([] : Txt) (if wide then 4 else 8)
      ((if wide then [[tid], []] else [[tid]]) ++ tabled1Rows wide pairs)) = some pairs :=
  tabled1_fields wide tid pairs

/-- column slicing of one written line (`_rdfixed`: `s[j : j + n]` from column 8): a line made of
an 8-column lead and equal-width fields, the last possibly shorter (`ENDT`), slices back into
exactly those fields. -/
theorem fixed_field_slicing (w : Nat) (hw : 0 < w) (lead : Txt) (hlead : lead.length = 8)
    (fs : List Txt) (last : Txt) (h : ∀ f ∈ fs, f.length = w) (hl : 0 < last.length ∧ last.length ≤ w) :
    chunks w ((lead ++ (fs ++ [last]).flatten).drop 8) = fs ++ [last] := by
  rw [← hlead, List.drop_left]
  simpa using chunks_uniform w hw last hl fs h

/-- `wtdmig` card structure: one column card per non-null column, in column order, labelled with
the column id (DOF 0 for form 9); under it the row terms in row order; a term `(row label, v)` is
written under column `j` exactly when `v` is the non-zero matrix term of a row `i` carrying that
label, from the diagonal down (`i ≥ j`) for form 6 and from row 0 otherwise. -/
theorem dmig_structure (d : Dmig) :
    d.cards.map (·.1) = ((List.range d.colids.length).filter d.colWritten).map d.colLabel ∧
    (∀ c ∈ d.cards, (c.2.map (·.1)).Sublist d.rowids) ∧
    (∀ j rl v, (rl, v) ∈ d.colEntries j ↔
      v ≠ (0, 0) ∧ ∃ i, (if d.form = 6 then j else 0) ≤ i ∧ d.rowids[i]? = some rl ∧ d.At i j v) := by
  refine ⟨by simp [Dmig.cards, List.map_map, Function.comp_def], ?_, fun j rl v => mem_colEntries d j rl v⟩
  intro c hc
  simp only [Dmig.cards, List.mem_map] at hc
  obtain ⟨j, _, rfl⟩ := hc
  unfold Dmig.colEntries
  exact ((List.filter_sublist.trans (List.drop_sublist _ _)).map _).trans (zip_fst_sublist _ _)

/-- form 6 is chosen only for an exactly mirrored frame with identical row and column index
lists (repair b85c17b of finding F9). -/
theorem dmig_form6_iff (d : Dmig) :
    d.form = 6 ↔ d.single = false ∧ d.rowids = d.colids ∧ d.symm = true := by
  unfold Dmig.form
  cases hs : d.single
  · simp only [Bool.false_eq_true, if_false, true_and]
    constructor
    · intro h
      split at h
      · exact absurd h (by decide)
      · split at h
        · assumption
        · exact absurd h (by decide)
    · rintro ⟨h1, h2⟩
      have : ¬ d.rowids.length ≠ d.colids.length := by rw [h1]; simp
      rw [if_neg this, if_pos ⟨h1, h2⟩]
  · simp

/-- `wtdmig` → `rddmig` on the field-list level (single number fields are assumed to round-trip,
C12), forms 1/2/6/9: every non-zero term `m[i][j] = v` of a well-shaped frame is among the
assignments `rddmig` performs, at (row label `i`, column label `j`) — written directly for forms
1/2/9 and for the lower triangle of form 6, through the reader's mirror assignment for the upper
triangle of form 6. -/
theorem dmig_roundtrip (d : Dmig) (hshape : d.m.length = d.rowids.length)
    (i j : Nat) (rl v : Int × Int) (hj : j < d.colids.length)
    (hr : d.rowids[i]? = some rl) (hat : d.At i j v) (hv : v ≠ (0, 0)) :
    (rl, d.colLabel j, v) ∈ d.readBack := by
  have direct : ∀ i j rl, j < d.colids.length → d.rowids[i]? = some rl → d.At i j v →
      (if d.form = 6 then j else 0) ≤ i → (rl, d.colLabel j, v) ∈ d.entries := by
    intro i j rl hj hr hat hs
    exact (mem_entries d rl _ v).mpr ⟨j, hj, colWritten_of_At d i j v hat hv, rfl,
      (mem_colEntries d j rl v).mpr ⟨hv, i, hs, hr, hat⟩⟩
  unfold Dmig.readBack
  by_cases h6 : d.form = 6
  · rw [if_pos h6, List.mem_flatMap]
    obtain ⟨hsingle, hids, hsym⟩ := (dmig_form6_iff d).mp h6
    by_cases hij : j ≤ i
    · exact ⟨_, direct i j rl hj hr hat (by simp [h6, hij]), by simp⟩
    · -- upper triangle: the mirrored term is written under column `i`
      have hi : i < d.rowids.length := by
        rcases List.getElem?_eq_some_iff.mp hr with ⟨h, _⟩; exact h
      have hjr : j < d.rowids.length := by rw [hids]; exact hj
      obtain ⟨row, hrow, hval⟩ := hat
      have hrowj : ∃ row', d.m[j]? = some row' := by
        have : j < d.m.length := by omega
        exact ⟨d.m[j], by simp [this]⟩
      obtain ⟨row', hrow'⟩ := hrowj
      have hs := hsym
      unfold Dmig.symm at hs
      rw [List.all_eq_true] at hs
      have hs1 := hs i (List.mem_range.mpr hi)
      rw [List.all_eq_true] at hs1
      have hs2 := hs1 j (List.mem_range.mpr hj)
      have hat' : d.At j i v := by
        refine ⟨row', hrow', ?_⟩
        simp only [List.getD_eq_getElem?_getD, hrow, hrow', Option.getD_some, beq_iff_eq] at hs2 hval ⊢
        rw [← hs2]; exact hval
      have hlabj : d.rowids[j]? = some (d.colLabel j) := by
        simp [Dmig.colLabel, hsingle, hids, List.getD_eq_getElem?_getD, hj]
      have hlabi : d.colLabel i = rl := by
        have : d.colids[i]? = some rl := by rw [← hids]; exact hr
        simp [Dmig.colLabel, hsingle, List.getD_eq_getElem?_getD, this]
      have hi' : i < d.colids.length := by rw [← hids]; exact hi
      have := direct j i (d.colLabel j) hi' hlabj hat' (by simp [h6]; omega)
      rw [hlabi] at this
      exact ⟨_, this, by simp⟩
  · rw [if_neg h6]
    exact direct i j rl hj hr hat (by simp [h6])

/-- form 9 (single-level column index): the NCOL written on the header card is the largest column
number — an upper bound of all column numbers that is attained. -/
theorem dmig_ncol_form9 (d : Dmig) (hs : d.single = true) :
    (∀ c ∈ d.colids, c.1 ≤ d.ncol) ∧ (d.colids ≠ [] → ∃ c ∈ d.colids, c.1 = d.ncol) := by
  unfold Dmig.ncol
  rw [if_pos hs]
  cases hc : d.colids with
  | nil => simp
  | cons h t =>
      obtain ⟨_, h2, h3⟩ := foldl_max_spec (h :: t) h.1
      refine ⟨h2, fun _ => ?_⟩
      rcases h3 with h3 | h3
      · exact ⟨h, by simp, by simpa using h3.symm⟩
      · exact h3

/-- the header card: NCOL (`Dmig.ncol`: the column count, or the largest column number for form 9)
is the field in columns 65-72, after eight 8-column fields. -/
theorem dmig_header_ncol (d : Dmig) (hn : d.name.length ≤ 8) (hm : (dec d.mtype).length ≤ 8) :
    ∃ pre, d.lines.head? = some (pre ++ padL 8 (dec d.ncol)) ∧ pre.length = 64 := by
  have hf : (dec (d.form : Int)).length ≤ 8 := by
    rcases form_cases d with h | h | h | h <;> rw [h] <;> decide
  have h0 : (dec 0).length ≤ 8 := by decide
  have hD : (txt "DMIG").length ≤ 8 := by decide
  refine ⟨_, by simp only [Dmig.lines, List.head?_cons]; rfl, ?_⟩
  simp only [List.length_append, padL_length hf, padL_length hm, padL_length h0, padR_length hn,
    padR_length hD, blanks_length]

/-! ### non-vacuity -/

example : compress [1, 2, 3, 5, 7, 8] = [.thru 1 3, .one 5, .thru 7 8] := by decide
example : expand [.thru 1 3, .one 5, .thru 7 8] = [1, 2, 3, 5, 7, 8] := by decide
example : (nasintsLines 4 (List.range 17)).map List.length = [6, 8, 3] := by
  simp [nasintsLines, chunks, List.range, List.range.loop]
example : thruCards [] (compress [1, 2, 3, 5]) =
    [[.int 1, .word (txt "THRU"), .int 3], [.int 5]] := by decide
example : (tabled1Rows false [(['a'], ['b'])]).map List.length = [3] := by
  simp [tabled1Rows, fullChunks, txt]
example : (tabled1Rows true [(['a'], ['b']), (['c'], ['d'])]).map List.length = [4, 1] := by
  simp [tabled1Rows, fullChunks, txt]

/-- a symmetric 2×2 frame: form 6, lower triangle only (the second column card has no rows) -/
example : ({ name := ['K'], single := false, mtype := 2, rowids := [(1, 1), (1, 2)],
             colids := [(1, 1), (1, 2)], m := [[(3, 0), (5, 0)], [(5, 0), (0, 0)]] } : Dmig).cards =
    [((1, 1), [((1, 1), (3, 0)), ((1, 2), (5, 0))]), ((1, 2), [])] := by decide
/-- the input of finding F9 (1×1, row id (1,1), column id (2,1)) is form 1 in the repaired writer -/
example : ({ name := ['K'], single := false, mtype := 2, rowids := [(1, 1)], colids := [(2, 1)],
             m := [[(5, 0)]] } : Dmig).form = 1 := by decide
/-- form 9 with column numbers 2, 5, 9: NCOL = 9 -/
example : ({ name := ['P'], single := true, mtype := 2, rowids := [(1, 1)],
             colids := [(2, 0), (5, 0), (9, 0)], m := [[(1, 0), (0, 0), (4, 0)]] } : Dmig).ncol = 9 := by decide

end PyYetiVerif.C13
