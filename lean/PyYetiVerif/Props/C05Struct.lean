import PyYetiVerif.Lemmas.RainflowStruct
import PyYetiVerif.Props.C05
/-!
# C05, third part — structure of the table

All statements are about the model `Rainflow.rainflow` (tied to the source by `Props/C05Gen.lean`
and the correspondence check) and hold for EVERY input sequence (ties, plateaus, monotone runs
included) unless a hypothesis says otherwise.
-/
namespace PyYetiVerif.C05
open PyYetiVerif.Rainflow

section generic
variable {α : Type} [Sub α] [Add α] [LT α] [DecidableLT α]

/-- **rows appear in the order their cycles are closed**: if `r` is listed before `q` then
`q` is `Later` than `r` — after a FULL cycle `(s, e)` both its points and everything between them
are gone, so `q` lies entirely before `s`, entirely after `e`, or strictly encloses `[s, e]`; after a
HALF cycle everything before its stop is gone, so `q` starts at or after `r.e`.  In particular an
enclosed cycle is always listed before the enclosing one. -/
theorem rows_in_closing_order (pts : List α) : (rainflow pts).Pairwise Later :=
  rainflow_closing pts

/-- full cycles are nested or disjoint (no partial overlap, no shared point), and of two nested
ones the inner is listed first -/
theorem full_cycles_laminar (pts : List α) :
    (rainflow pts).Pairwise fun r q => r.full = true → q.full = true →
      (q.e < r.s ∨ r.e < q.s ∨ (q.s < r.s ∧ r.e < q.e)) := by
  refine (rows_in_closing_order pts).imp ?_
  intro r q h hr _
  simpa [Later, hr] using h

/-- every point index is the start of at most one row and the stop of at most one row -/
theorem starts_stops_unique (pts : List α) :
    ((rainflow pts).map (·.s)).Nodup ∧ ((rainflow pts).map (·.e)).Nodup := by
  have hord : ∀ c ∈ rainflow pts, c.s < c.e := fun c hc => (cycle_values pts c hc).1
  have key : (rainflow pts).Pairwise fun r q => r.s ≠ q.s ∧ r.e ≠ q.e := by
    have h := rows_in_closing_order pts
    have h' : (rainflow pts).Pairwise fun r q => (r.s < r.e ∧ q.s < q.e) ∧ Later r q := by
      rw [List.pairwise_and_iff]
      refine ⟨?_, h⟩
      rw [List.pairwise_iff_forall_sublist]
      intro a b hab
      have := hab.subset
      exact ⟨hord a (this (by simp)), hord b (this (by simp))⟩
    refine h'.imp ?_
    intro r q ⟨⟨h1, h2⟩, h3⟩
    unfold Later at h3
    split at h3 <;> omega
  constructor
  · rw [List.nodup_iff_pairwise_ne, List.pairwise_map]
    exact key.imp fun h => h.1
  · rw [List.nodup_iff_pairwise_ne, List.pairwise_map]
    exact key.imp fun h => h.2

/-- **the half cycles** (those of step 5 and those of step 6), in table order, form ONE chain from
the first point to the last: the first starts at offset 0, each starts where the previous one
stopped (`stopᵢ = startᵢ₊₁`), the last stops at `L - 1`.  (In particular the residual half cycles
of step 6 are the consecutive pairs of the final stack.) -/
theorem residual_half_cycles_chain (pts : List α) (hne : pts ≠ []) :
    Chain 0 ((rainflow pts).filter fun c => !c.full) (pts.length - 1) :=
  rainflow_half_chain pts hne

/-- offsets are only labels: a repeated FIRST point adds one zero-range half cycle `(0, 1)` in front
and shifts every offset of the rest by one — stated for every element type in which no range is
below `absd x x` -/
theorem duplicate_first (x : α) (rest : List α) (h0 : ∀ y : α, ¬ absd x y < absd x x) :
    rainflow (x :: x :: rest) = mkCyc false (x, 0) (x, 1) :: (rainflow (x :: rest)).map (shiftCyc 1) :=
  duplicate_first_aux x rest h0

end generic

section field
variable {α : Type} [Field α] [LinearOrder α] [IsStrictOrderedRing α]

/-- every counted range is at most the overall range of the input -/
theorem range_le_overall (pts : List α) (lo hi : α) (hb : ∀ x ∈ pts, lo ≤ x ∧ x ≤ hi)
    (c : Cyc α) (hc : c ∈ rainflow pts) : c.rng ≤ hi - lo := by
  obtain ⟨_, _, a, b, ha, hb', hr, _⟩ := cycle_values_abs pts c hc
  have h1 := hb a (List.mem_of_getElem? ha)
  have h2 := hb b (List.mem_of_getElem? hb')
  rw [hr, abs_le]
  constructor <;> linarith [h1.1, h1.2, h2.1, h2.2]

/-- `duplicate_first` in an ordered field: the zero-range row is `[0, x + x, half, 0, 1]` -/
theorem duplicate_first_field (x : α) (rest : List α) :
    rainflow (x :: x :: rest) = ⟨0, x + x, false, 0, 1⟩ :: (rainflow (x :: rest)).map (shiftCyc 1) := by
  have h := duplicate_first x rest (by
    intro y; rw [absd_eq_abs, absd_eq_abs, sub_self, abs_zero]; exact not_lt.mpr (abs_nonneg _))
  rw [h]
  simp [mkCyc, absd_eq_abs]

/-- FULL STATEMENT of `duplicate_insertion` (FALSE, see `duplicate_insertion_not_harmless`): "inserting a
copy of a point next to itself changes the table only by a zero-range entry".  What the code does
with a plateau inside the sequence: while the stack is `x :: w :: rest` with `w ≠ x`, reading a copy
`x'` of `x` changes nothing, and the next point `y` then counts `(x, x')` as ONE FULL cycle of range
zero and discards BOTH points — the stack continues as `reduce (y :: w :: rest)`, i.e. `y` is
compared with `w` as if `x` had never been read. -/
theorem plateau_erases_point (x x' y w : α × Nat) (rest : List (α × Nat)) (rows : List (Cyc α))
    (hx : x'.1 = x.1) (hw : w.1 ≠ x.1) :
    step (step (x :: w :: rest, rows) x') y
      = ((reduce (y :: w :: rest)).1,
         rows ++ (⟨0, x.1 + x.1, true, x.2, x'.2⟩ : Cyc α) :: (reduce (y :: w :: rest)).2) := by
  have h := plateau_step x x' y w rest rows
    (by rw [absd_eq_abs, absd_eq_abs, hx, sub_self, abs_zero]; exact abs_pos.mpr (sub_ne_zero.mpr hw))
    (by rw [absd_eq_abs, absd_eq_abs, hx, sub_self, abs_zero]; exact not_lt.mpr (abs_nonneg _))
  rw [h]
  simp [mkCyc, absd_eq_abs, hx]

end field

/-- the naive reading of `duplicate_insertion` fails: `[0, 5, 1]` has half cycles of range 5 and 4;
with the peak repeated, `[0, 5, 5, 1]`, the peak is counted as a zero-range full cycle and LOST:
what remains is one half cycle of range 1 -/
theorem duplicate_insertion_not_harmless :
    rainflow ([0, 5, 1] : List Int) = [⟨5, 5, false, 0, 1⟩, ⟨4, 6, false, 1, 2⟩] ∧
    rainflow ([0, 5, 5, 1] : List Int) = [⟨0, 10, true, 1, 2⟩, ⟨1, 1, false, 0, 3⟩] := by
  decide +kernel

/-- a point inside a monotone run is NOT removable either: `[0, 2, 3, 5]` counts the run's inner
step `(2, 3)` as a full cycle of range 1, `[0, 5]` is one half cycle of range 5 -/
theorem monotone_points_are_counted :
    rainflow ([0, 2, 3, 5] : List Int) = [⟨1, 5, true, 1, 2⟩, ⟨5, 5, false, 0, 3⟩] ∧
    rainflow ([0, 5] : List Int) = [⟨5, 5, false, 0, 1⟩] := by
  decide +kernel

/-! ### non-vacuity: the ASTM example -/

-- closing order on the ASTM example: the full cycle (4,5) is listed before the half cycle (3,6) that
-- encloses it; the six half cycles chain 0-1-2-3-6-7-8
example : (rainflow ([-2, 1, -3, 5, -1, 3, -4, 4, -2] : List Int)).map (fun c => (c.full, c.s, c.e)) =
    [(false, 0, 1), (false, 1, 2), (true, 4, 5), (false, 2, 3), (false, 3, 6), (false, 6, 7), (false, 7, 8)] := by
  decide +kernel

example : Later (⟨4, 2, true, 4, 5⟩ : Cyc Int) ⟨9, 1, false, 3, 6⟩ := by simp [Later]
example : ¬ Later (⟨9, 1, false, 3, 6⟩ : Cyc Int) ⟨4, 2, true, 4, 5⟩ := by simp [Later]

end PyYetiVerif.C05
