import PyYetiVerif.Lemmas.ExtremaHeapRefine
/-!
# C16 — forming an envelope does not modify its parts (object identity)

Property theorems only.  Model: `Model/ExtremaHeap.lean` — `cla.extrema` (two-column branch) over a
store of arrays and label lists, with every copy the code makes written as an allocation; tied by the
`heap` stream of `harness/props/c16.py` (the parts of a `form_extreme` call compared cell by cell with
the model's store after the call, exact).
-/
namespace PyYetiVerif.C16
open PyYetiVerif.Extrema PyYetiVerif.ExtremaHeap

section frame
variable {α X L : Type} [LT α] [DecidableLT α]

/-- ★ `form_extreme` / `merge` / repeated `cla.extrema` calls into one accumulator that starts empty do
not modify the parts: whatever objects existed before (the `ext`, `ext_x` arrays and label lists of
ALL events, whether or not they are handed in, in whatever order and however often), after ANY
history of calls every one of them holds exactly what it held — the accumulator only ever writes into
objects it allocated itself (the copies listed in the model header). -/
theorem form_extreme_does_not_modify_parts (nanX : X) (h h' : Heap α X L)
    (hist : List (MmRef × LabArg L × Option (LabArg L))) (cur' : Option CatRef)
    (hs : run true nanX h none hist = some (h', cur')) :
    h'.vals.take h.vals.length = h.vals ∧ h'.xs.take h.xs.length = h.xs ∧
    h'.labs.take h.labs.length = h.labs ∧
    ∀ c, cur' = some c → h.vals.length ≤ c.ext ∧ (∀ r, c.extx = some r → h.xs.length ≤ r) ∧
      h.labs.length ≤ c.maxcase ∧ h.labs.length ≤ c.mincase := by
  obtain ⟨⟨hk, -⟩, ho⟩ := run_frame h.size nanX hist h h' none cur'
    ⟨Nat.le_refl _, Nat.le_refl _, Nat.le_refl _⟩ (fun c hc => by cases hc) hs
  rw [below_size] at hk
  have h1 := congrArg Heap.vals hk
  have h2 := congrArg Heap.xs hk
  have h3 := congrArg Heap.labs hk
  exact ⟨h1, h2, h3, ho⟩

end frame

section refine
variable {α X L : Type} [LT α] [DecidableLT α]

/-- ★ the store model computes what the value model computes: for ANY history of calls into an
accumulator that starts empty, whose arguments are objects that existed before (`InRange`) — with
abscissae given by all, some or none of the calls; a call without `ext_x` is read as handing in the
NaN abscissa `nanX` —, the calls can be read back from the ORIGINAL store as `(max, min)` triples `ms`,
and what the accumulator holds in the end is `run2 ms` — the running extreme of `Props/C16.lean`
(`ext_is_fold_max`, `envelope_of_parts`, … therefore speak about the implementation's objects, not only
about values; since fix 19ddbb5 also when only some of the calls carry abscissae). -/
theorem heap_run_is_run2 (nanX : X) (h h' : Heap α X L)
    (hist : List (MmRef × LabArg L × Option (LabArg L))) (cur' : Option CatRef)
    (hr : ∀ e ∈ hist, InRange h.size e)
    (hs : run true nanX h none hist = some (h', cur')) :
    ∃ ms, hist.mapM (readCall h nanX) = some ms ∧
      cur'.bind (fun c => readCat h' c nanX) = run2 ms := by
  obtain ⟨ms, hms, ha⟩ := run_spec h.size nanX h hist h h' none cur' none
    (Keeps.refl _ h ⟨Nat.le_refl _, Nat.le_refl _, Nat.le_refl _⟩) (Or.inl ⟨rfl, rfl⟩) hr hs
  refine ⟨ms, hms, ?_⟩
  rcases ha with ⟨h0, h1⟩ | ⟨c, r, h0, h1, hh, -, -⟩
  · rw [h0, run2, h1]
    rfl
  · rw [h0, run2, h1]
    exact readCat_of_holds h' c r nanX hh

end refine

/-- the copy is what the theorem rests on: with `curext.ext_x = mm.ext_x` on the first call (the
aliasing variant, `copyX = false`) the second call writes the abscissa of ITS maximum into the first
part's `ext_x` array (`(0, 0)` becomes `(7, 0)`), while the faithful model leaves it alone. -/
theorem aliased_first_call_modifies_part :
    let h : Heap Int Int String :=
      ⟨[(some 1, some 0), (some 5, some 0)], [(0, 0), (7, 7)], []⟩
    let hist : List (MmRef × LabArg String × Option (LabArg String)) :=
      [(⟨0, some 0⟩, .str "A", none), (⟨1, some 1⟩, .str "B", none)]
    ((run false (-1) h none hist).map fun r => r.1.xs.take 2) = some [(7, 0), (7, 7)] ∧
    ((run true (-1) h none hist).map fun r => r.1.xs.take 2) = some [(0, 0), (7, 7)] := by
  decide

/-! ### non-vacuity -/

/-- a history of three calls (labels as a string, as a list, minimum labels given) runs through, and
the accumulator read back from the store is the value-level result of `run2` -/
example :
    let h : Heap Int Int String :=
      ⟨[(some 1, some 0), (some 5, none), (some 5, some (-2))], [(0, 1), (2, 3), (4, 5)], ["l1", "l2"]⟩
    let hist : List (MmRef × LabArg String × Option (LabArg String)) :=
      [(⟨0, some 0⟩, .str "A", none), (⟨1, some 1⟩, .list 0, some (.list 1)),
       (⟨2, some 2⟩, .str "C", some (.str "c"))]
    ((run true (-1) h none hist).bind fun r => r.2.bind fun c => readCat r.1 c 0)
      = run2 [(⟨some 1, 0, "A"⟩, ⟨some 0, 1, "A"⟩), (⟨some 5, 2, "l1"⟩, ⟨none, 3, "l2"⟩),
              (⟨some 5, 4, "C"⟩, ⟨some (-2), 5, "c"⟩)] := by
  decide

/-- a history in which only the SECOND call carries abscissae: the maximum stays the first call's (NaN
abscissa `-1`), the minimum is the second call's with its abscissa — what `run2` gives on the triples
read with `nanX = -1` -/
example :
    let h : Heap Int Int String := ⟨[(some 9, some 0), (some 5, some (-2))], [(4, 5)], []⟩
    let hist : List (MmRef × LabArg String × Option (LabArg String)) :=
      [(⟨0, none⟩, .str "A", none), (⟨1, some 0⟩, .str "B", none)]
    ((run true (-1) h none hist).bind fun r => r.2.bind fun c => readCat r.1 c (-1))
      = some ⟨⟨some 9, -1, "A"⟩, ⟨some (-2), 5, "B"⟩⟩ ∧
    run2 [(⟨some 9, -1, "A"⟩, ⟨some 0, -1, "A"⟩), (⟨some 5, 4, "B"⟩, ⟨some (-2), 5, "B"⟩)]
      = some (⟨⟨some 9, -1, "A"⟩, ⟨some (-2), 5, "B"⟩⟩ : Cur Int Int String) := by
  decide

/-- `heap_run_is_run2`: the hypothesis on a call is inhabited (a call of the history above: label
lists handed in, abscissae given) -/
example : InRange (3, 3, 2) ((⟨1, some 1⟩, .list 0, some (.list 1)) :
    MmRef × LabArg String × Option (LabArg String)) :=
  ⟨by decide, fun r h => by cases h; decide, fun r h => by cases h; decide,
    fun r h => by cases h; decide⟩

end PyYetiVerif.C16
