import PyYetiVerif.Lemmas.BulkGrid
/-!
# C13 — `writer.vecwrite` argument packaging, `wtgrids` → `rdgrids`

Property theorems only (helper lemmas: `Lemmas/BulkGrid.lean`, `Lemmas/BulkText.lean`).  The model
`Model/BulkGrid.lean` is tied to `pyyeti/writer.py:vecwrite` and `pyyeti/nastran/bulk.py`
(`wtgrids`, `rdgrids`) by exact-text / exact-value correspondence streams (harness/props/c13.py).

Level: physical lines.  Identifiers and integer fields are read back exactly (the integer field
codec `int(format(n)) = n` is proved); a coordinate is an opaque formatted field `f` of the right
width and the theorem says the reader returns `nasScan f` for it (`parse(format(x)) ≈ x` is C12).
-/
namespace PyYetiVerif.C13
open PyYetiVerif.Bulk

/-- `vecwrite`, the `length` rule: whenever the call is accepted, *every* argument longer than 1 has
exactly the row count `n` (in particular a length-1 argument standing after an `N`-vector cannot
reset the row count, and two different lengths > 1 are refused); and if no argument is longer than 1
one row is written. -/
theorem vecwrite_length_rule (lens : List (Option Nat)) (n : Nat) (h : vecLength 1 lens = some n) :
    (∀ c, some c ∈ lens → 1 < c → c = n) ∧ ((∀ c, some c ∈ lens → c ≤ 1) → n = 1) := by
  obtain ⟨_, h2, h3⟩ := vecLength_sound lens 1 n h
  exact ⟨h2, fun hall => h3 (Nat.le_refl 1) hall⟩

/-- two vector arguments longer than 1 whose lengths differ raise ValueError wherever they stand -/
theorem vecwrite_mismatch_raises {α : Type} (args : List (VArg α)) (l₁ l₂ : List α) (h1 : VArg.vec l₁ ∈ args)
    (h2 : VArg.vec l₂ ∈ args) (g1 : 1 < l₁.length) (g2 : 1 < l₂.length) (hne : l₁.length ≠ l₂.length) :
    vecRows args = .valueError :=
  vecRows_mismatch args l₁ l₂ h1 h2 g1 g2 hne

/-- `vecwrite` writes, for every admissible packaging (scalars, length-1 vectors = repeated scalars,
`n`-vectors, in any order), row `i` = element `i` of every argument expanded to an `n`-vector; the
expansions all have length `n`, so no argument is dropped from a row. -/
theorem vecwrite_broadcast {α : Type} (args : List (VArg α)) (n : Nat) (hn : 1 ≤ n)
    (hc : ∀ a ∈ args, a.Compat n) (hfound : n = 1 ∨ ∃ l, VArg.vec l ∈ args ∧ l.length = n) :
    vecRows args = .ok ((List.range n).map fun i => args.filterMap fun a => (a.bc n)[i]?) ∧
      ∀ a ∈ args, (a.bc n).length = n :=
  ⟨vecRows_broadcast args n hn hc hfound, fun a ha => VArg.bc_length n a (hc a ha)⟩

/-- `wtgrids`, every documented packaging (`cp`, `cd`, `ps`, `seid` scalar / length-1 / length-`N`,
`xyz` with 1 row or `N` rows, `N = len(grids) ≥ 1`): the text is the text of the fully expanded
call, `N` cards. -/
theorem wtgrids_packaging (g : GridIn) (h : g.Compat) :
    gridLines g = .ok (g.rows.flatMap fun r => gridCard g.wide (r.fields g.w g.short)) ∧ g.rows.length = g.n :=
  ⟨gridLines_rows g h, g.rows_length h⟩

/-- `xyz` with `M` rows, `1 < M ≠ N > 1`: ValueError -/
theorem wtgrids_mismatch_raises (g : GridIn) (h1 : 1 < g.ids.length) (h2 : 1 < g.xyz.length)
    (hne : g.ids.length ≠ g.xyz.length) : gridLines g = .valueError := by
  have := vecRows_mismatch g.args (g.ids.map (fmtI g.w)) (g.xyz.map (·.1)) (by simp [GridIn.args]) (by simp [GridIn.args])
    (by simpa using h1) (by simpa using h2) (by simpa using hne)
  simp [gridLines, this]

/-- `rdgrids (wtgrids …)` on physical lines, 8- and 16-wide, short form and the form with PS / SEID,
for every admissible packaging: one row per grid, in order, `[id, cp, x, y, z, cd, ps, seid]` with the
integers exact, blank PS / SEID read as 0 and each coordinate what `nas_sscanf` makes of its written
field.  Hypotheses: every integer fits its field and the coordinate fields are exactly 8 (16)
columns, without `$` or comma, not ending in white space. -/
theorem grid_roundtrip (g : GridIn) (h : g.Compat) (hc : ∀ r ∈ g.rows, r.Clean g.w) :
    ∃ lines, gridLines g = .ok lines ∧ rdGrids lines = .rows (g.rows.map GRow.vals) := by
  refine ⟨_, gridLines_rows g h, ?_⟩
  have hne : g.rows ≠ [] := by
    intro e
    have := g.rows_length h
    rw [e] at this
    have := h.1
    simp at *; omega
  have := rdGrids_rows g.wide g.short g.rows hne hc (fun hs => g.short_rows hs) [] (by simp)
  rw [List.nil_append] at this
  exact this

/-! ### non-vacuity -/

/-- the seeded change's input: `wtgrids(f, [101, 102, 105], 0, [[1.5, -2.25, 3.125]], 12)` — an
`N`-vector followed by length-1 vectors: three rows -/
example : vecLength 1 [some 3, none, some 1, some 1, some 1, none] = some 3 := by decide
example : vecLength 1 [some 3, some 2] = none := by decide
example : (VArg.vec [7]).bc 3 = [7, 7, 7] := by decide
example : (vecRows [VArg.vec [1, 2, 3], .scalar 0, .vec [9]]) matches .ok [[1, 0, 9], [2, 0, 9], [3, 0, 9]] := by decide

def exGrid : GridIn :=
  { ids := [101, 102], cp := .scalar 0, xyz := [(txt "    1.50", txt "   -2.25", txt "    3.12")], cd := .vec [12],
    ps := .scalar none, seid := .scalar none, wide := false }

example : exGrid.Compat := by
  simp [GridIn.Compat, exGrid, GridIn.n, VArg.Compat]

example : (gridLines exGrid) matches .ok [_, _] := by decide

/-- the hypotheses of `grid_roundtrip` are inhabited (one-row `xyz`, length-1 `cd` for two grids) -/
example : ∀ r ∈ exGrid.rows, r.Clean exGrid.w := by
  have hrows : exGrid.rows = [⟨101, 0, txt "    1.50", txt "   -2.25", txt "    3.12", 12, none, none⟩,
      ⟨102, 0, txt "    1.50", txt "   -2.25", txt "    3.12", 12, none, none⟩] := by decide
  have cf : ∀ f ∈ [txt "    1.50", txt "   -2.25", txt "    3.12"], CleanField 8 f := by
    intro f hf
    simp only [List.mem_cons, List.not_mem_nil, or_false] at hf
    rcases hf with rfl | rfl | rfl <;>
      exact ⟨⟨by decide, by decide, by decide⟩, by intro c hc; simp [txt] at hc; subst hc; decide⟩
  intro r hr
  rw [hrows] at hr
  simp only [List.mem_cons, List.not_mem_nil, or_false] at hr
  rcases hr with rfl | rfl <;>
    exact ⟨cf _ (by simp), cf _ (by simp), cf _ (by simp), by decide, by decide, by decide, by simp, by simp⟩

end PyYetiVerif.C13
