import PyYetiVerif.Lemmas.BinifyCell
import PyYetiVerif.Props.C10Bins
/-!
# C10 (continued) — the `binify` table cell by cell

`T[i, j]` (row = mean bin `i`, column = amplitude bin `j`, as `_binify` lays the matrix out:
`markov_matrix[bim, bir] += cycles[k, 2]`) is the sum of the counts of exactly the cycles whose
mean lies in mean bin `i` AND whose amplitude lies in amplitude bin `j`, with the edge convention
of `np.digitize`: `lo < x ≤ hi` for `right=True`, `lo ≤ x < hi` for `right=False` (`Binify.inBin`).

Property theorems only.  Model: `Model/Binify.lean`; helper lemmas: `Lemmas/BinifyCell.lean`.
-/
set_option linter.unusedSectionVars false
set_option linter.unusedVariables false
namespace PyYetiVerif.C10
open PyYetiVerif.Binify

section core
variable {α : Type} [LinearOrder α] {β : Type} [AddCommMonoid β]

/-- **cell-by-cell sum formula** of `_binify(ensure_boundaries=True)`: for every cycle list and
all strictly increasing edge vectors the call returns a table `T`, and for every mean bin `i`
(edges `lom = bins_mean[i]`, `him = bins_mean[i+1]`) and every amplitude bin `j` (edges
`loa = bins_range[j]`, `hia = bins_range[j+1]`) the entry `T[i, j]` exists and equals the sum of the
counts (`cycles[k, 2]`, 0.5 or 1) of the cycles with `inBin right loa hia amp` and
`inBin right lom him mean` — right-closed intervals for `right=True`, left-closed otherwise.  A
cycle outside either range contributes to no cell. -/
theorem binify_cell_sum (right : Bool) (br bm : List α) (hr : List.Pairwise (· < ·) br)
    (hm : List.Pairwise (· < ·) bm) (cycles : List (α × α × β)) :
    ∃ T, binifyCore right true br bm cycles = some T ∧
      ∀ (i j : Nat) (lom him loa hia : α), bm[i]? = some lom → bm[i + 1]? = some him →
        br[j]? = some loa → br[j + 1]? = some hia →
        cell T i j = some (((cycles.filter fun c => decide (inBin right loa hia c.1) &&
          decide (inBin right lom him c.2.1)).map (·.2.2)).sum) := by
  obtain ⟨T, e, _, _, _⟩ := binify_conserves_2d right br bm hr hm cycles
  refine ⟨T, e, ?_⟩
  intro i j lom him loa hia h1 h2 h4 h5
  have hi : i + 1 < bm.length := (List.getElem?_eq_some_iff.mp h2).1
  have hj : j + 1 < br.length := (List.getElem?_eq_some_iff.mp h5).1
  have := binifyLoop_cell right br bm hr hm i j lom him loa hia h1 h2 h4 h5 cycles _ T e
  rw [this, cell_zeros _ _ i j (by omega) (by omega)]
  simp [cellCounts]

/-- the unguarded loop (`ensure_boundaries=False`, what `binify` runs when no bound check failed)
has the same cells whenever every cycle is inside both ranges (otherwise Python's index `-1` would
wrap around into the LAST bin, or the index `n` raise `IndexError`: `binifyLoop`). -/
theorem binify_cell_sum_unguarded (right : Bool) (br bm : List α) (hr : List.Pairwise (· < ·) br)
    (hm : List.Pairwise (· < ·) bm) (cycles : List (α × α × β))
    (hc : ∀ c ∈ cycles, Covered right br c.1 ∧ Covered right bm c.2.1) :
    ∃ T, binifyCore right false br bm cycles = some T ∧
      ∀ (i j : Nat) (lom him loa hia : α), bm[i]? = some lom → bm[i + 1]? = some him →
        br[j]? = some loa → br[j + 1]? = some hia →
        cell T i j = some (((cycles.filter fun c => decide (inBin right loa hia c.1) &&
          decide (inBin right lom him c.2.1)).map (·.2.2)).sum) := by
  obtain ⟨T, e, h⟩ := binify_cell_sum right br bm hr hm cycles
  refine ⟨T, ?_, h⟩
  unfold binifyCore at e ⊢
  rw [binifyLoop_ensure_irrelevant right br bm hr hm cycles _ hc]
  exact e

/-- a cycle is counted in at most one cell: the intervals of two different bins of an increasing
edge vector are disjoint (so the cell sums of `binify_cell_sum` never count a cycle twice). -/
theorem bins_disjoint (right : Bool) (bins : List α) (hs : List.Pairwise (· < ·) bins) (x : α)
    (k k' : Nat) (lo hi lo' hi' : α) (h1 : bins[k]? = some lo) (h2 : bins[k + 1]? = some hi)
    (h3 : bins[k']? = some lo') (h4 : bins[k' + 1]? = some hi')
    (hx : inBin right lo hi x) (hx' : inBin right lo' hi' x) : k = k' := by
  have a := (digitize_eq_iff right x bins k lo hi hs h1 h2).mpr hx
  have b := (digitize_eq_iff right x bins k' lo' hi' hs h3 h4).mpr hx'
  omega

end core

section api
variable {α : Type} [Field α] [LinearOrder α] [IsStrictOrderedRing α]

/-- the table `binify` returns for explicit increasing edge vectors (default `check_bounds=True`)
is the table of the guarded loop, whichever loop ran -/
theorem binify_explicit_is_guarded (right : Bool) (ab mb : List α) (ha : increasing ab = true)
    (hb : increasing mb = true) (ha2 : ab ≠ []) (hb2 : mb ≠ []) (c : α × α × α) (cs : List (α × α × α)) :
    ∃ T, binifyApi right true (.vector ab) (.vector mb) (c :: cs) = .table T ab mb ∧
      binifyCore right true ab mb (c :: cs) = some T := by
  have pa := increasing_pairwise ab ha
  have pm := increasing_pairwise mb hb
  obtain ⟨amx, e1, h1⟩ := maxOf_spec c.1 (cs.map (·.1))
  obtain ⟨amn, e2, h2⟩ := minOf_spec c.1 (cs.map (·.1))
  obtain ⟨mmx, e3, h3⟩ := maxOf_spec c.2.1 (cs.map (·.2.1))
  obtain ⟨mmn, e4, h4⟩ := minOf_spec c.2.1 (cs.map (·.2.1))
  obtain ⟨a0, ha0⟩ : ∃ b0, ab.head? = some b0 := by
    cases ab with
    | nil => exact absurd rfl ha2
    | cons a t => exact ⟨a, rfl⟩
  obtain ⟨al, hal⟩ : ∃ bl, ab.getLast? = some bl := ⟨ab.getLast ha2, List.getLast?_eq_some_getLast ha2⟩
  obtain ⟨m0, hm0⟩ : ∃ b0, mb.head? = some b0 := by
    cases mb with
    | nil => exact absurd rfl hb2
    | cons a t => exact ⟨a, rfl⟩
  obtain ⟨ml, hml⟩ : ∃ bl, mb.getLast? = some bl := ⟨mb.getLast hb2, List.getLast?_eq_some_getLast hb2⟩
  simp only [binifyApi, List.map_cons] at e1 e2 e3 e4 ⊢
  rw [e1, e2, e3, e4]
  simp only [binsFor, getbinsVector, ha, hb, if_true, ha0, hal, hm0, hml, Option.map_some, Bool.true_and]
  generalize hfa : (if right then !decide (a0 < (fixRange amx amn).2) || decide (al < (fixRange amx amn).1)
      else decide ((fixRange amx amn).2 < a0) || !decide ((fixRange amx amn).1 < al)) = fa
  generalize hfm : (if right then !decide (m0 < (fixRange mmx mmn).2) || decide (ml < (fixRange mmx mmn).1)
      else decide ((fixRange mmx mmn).2 < m0) || !decide ((fixRange mmx mmn).1 < ml)) = fm
  cases hflag : (fa || fm)
  · simp only [Bool.or_eq_false_iff] at hflag
    have mem1 : ∀ d ∈ c :: cs, d.1 ∈ c.1 :: cs.map (·.1) := by
      intro d hd
      rcases List.mem_cons.mp hd with rfl | hd
      · simp
      · exact List.mem_cons_of_mem _ (List.mem_map.mpr ⟨d, hd, rfl⟩)
    have mem2 : ∀ d ∈ c :: cs, d.2.1 ∈ c.2.1 :: cs.map (·.2.1) := by
      intro d hd
      rcases List.mem_cons.mp hd with rfl | hd
      · simp
      · exact List.mem_cons_of_mem _ (List.mem_map.mpr ⟨d, hd, rfl⟩)
    have cov : ∀ d ∈ c :: cs, Covered right ab d.1 ∧ Covered right mb d.2.1 := fun d hd =>
      ⟨(explicit_bins_range right ab pa d.1).mpr (range_of_flag right ab a0 al ha0 hal amx amn d.1
          (le_trans (min_le_right _ _) (h2 _ (mem1 d hd))) (le_trans (h1 _ (mem1 d hd)) (le_max_left _ _))
          (by rw [hfa]; exact hflag.1)),
        (explicit_bins_range right mb pm d.2.1).mpr (range_of_flag right mb m0 ml hm0 hml mmx mmn d.2.1
          (le_trans (min_le_right _ _) (h4 _ (mem2 d hd))) (le_trans (h3 _ (mem2 d hd)) (le_max_left _ _))
          (by rw [hfm]; exact hflag.2))⟩
    obtain ⟨T, eT, _⟩ := binify_conserves_2d right ab mb pa pm (c :: cs)
    refine ⟨T, ?_, eT⟩
    have : binifyCore right false ab mb (c :: cs) = binifyCore right true ab mb (c :: cs) := by
      unfold binifyCore
      exact binifyLoop_ensure_irrelevant right ab mb pa pm (c :: cs) _ cov
    simp only [this, eT]
  · obtain ⟨T, eT, _⟩ := binify_conserves_2d right ab mb pa pm (c :: cs)
    refine ⟨T, ?_, eT⟩
    simp only [eT]

/-- **`binify` with explicit bin vectors, cell by cell** (default `check_bounds=True`): the
returned table has, in row `i` / column `j`, the summed count of the cycles whose mean is in
`meanbins[i] … meanbins[i+1]` and whose amplitude is in `ampbins[j] … ampbins[j+1]` (right-closed
for `right=True`, left-closed for `right=False`); cycles outside the vectors are in no cell. -/
theorem binify_explicit_cell_sum (right : Bool) (ab mb : List α) (ha : increasing ab = true)
    (hb : increasing mb = true) (ha2 : ab ≠ []) (hb2 : mb ≠ []) (c : α × α × α) (cs : List (α × α × α)) :
    ∃ T, binifyApi right true (.vector ab) (.vector mb) (c :: cs) = .table T ab mb ∧
      ∀ (i j : Nat) (lom him loa hia : α), mb[i]? = some lom → mb[i + 1]? = some him →
        ab[j]? = some loa → ab[j + 1]? = some hia →
        cell T i j = some ((((c :: cs).filter fun d => decide (inBin right loa hia d.1) &&
          decide (inBin right lom him d.2.1)).map (·.2.2)).sum) := by
  obtain ⟨T, e, eT⟩ := binify_explicit_is_guarded right ab mb ha hb ha2 hb2 c cs
  obtain ⟨T', eT', h⟩ := binify_cell_sum right ab mb (increasing_pairwise ab ha)
    (increasing_pairwise mb hb) (c :: cs)
  rw [eT] at eT'
  cases eT'
  exact ⟨T, e, h⟩

/-- **`binify` with automatically generated bins, cell by cell** (integer `ampbins`, `meanbins`;
exact arithmetic): the returned table has in every cell the summed count of the cycles of that
amplitude × mean interval of the RETURNED edges, and (`binify_auto_conserves`) every cycle is in
some cell. -/
theorem binify_auto_cell_sum (right check : Bool) (na nm : Nat) (hna : 0 < na) (hnm : 0 < nm)
    (c : α × α × α) (cs : List (α × α × α)) :
    ∃ T ampb aveb, binifyApi right check (.scalar na) (.scalar nm) (c :: cs) = .table T ampb aveb ∧
      ampb.length = na + 1 ∧ aveb.length = nm + 1 ∧
      ∀ (i j : Nat) (lom him loa hia : α), aveb[i]? = some lom → aveb[i + 1]? = some him →
        ampb[j]? = some loa → ampb[j + 1]? = some hia →
        cell T i j = some ((((c :: cs).filter fun d => decide (inBin right loa hia d.1) &&
          decide (inBin right lom him d.2.1)).map (·.2.2)).sum) := by
  obtain ⟨amx, e1, h1⟩ := maxOf_spec c.1 (cs.map (·.1))
  obtain ⟨amn, e2, h2⟩ := minOf_spec c.1 (cs.map (·.1))
  obtain ⟨mmx, e3, h3⟩ := maxOf_spec c.2.1 (cs.map (·.2.1))
  obtain ⟨mmn, e4, h4⟩ := minOf_spec c.2.1 (cs.map (·.2.1))
  have cov : ∀ d ∈ c :: cs, Covered right (getbinsScalar na amx amn right) d.1 ∧
      Covered right (getbinsScalar nm mmx mmn right) d.2.1 := by
    intro d hd
    have m1 : d.1 ∈ c.1 :: cs.map (·.1) := by
      rcases List.mem_cons.mp hd with rfl | hd
      · simp
      · exact List.mem_cons_of_mem _ (List.mem_map.mpr ⟨d, hd, rfl⟩)
    have m2 : d.2.1 ∈ c.2.1 :: cs.map (·.2.1) := by
      rcases List.mem_cons.mp hd with rfl | hd
      · simp
      · exact List.mem_cons_of_mem _ (List.mem_map.mpr ⟨d, hd, rfl⟩)
    exact ⟨(auto_bins_cover na hna amx amn right).2.2 d.1 (le_trans (min_le_right _ _) (h2 _ m1))
        (le_trans (h1 _ m1) (le_max_left _ _)),
      (auto_bins_cover nm hnm mmx mmn right).2.2 d.2.1 (le_trans (min_le_right _ _) (h4 _ m2))
        (le_trans (h3 _ m2) (le_max_left _ _))⟩
  obtain ⟨T, eT, hT⟩ := binify_cell_sum_unguarded right (getbinsScalar na amx amn right)
    (getbinsScalar nm mmx mmn right) (auto_bins_cover na hna amx amn right).1
    (auto_bins_cover nm hnm mmx mmn right).1 (c :: cs) cov
  refine ⟨T, _, _, ?_, (auto_bins_cover na hna amx amn right).2.1,
    (auto_bins_cover nm hnm mmx mmn right).2.1, hT⟩
  simp only [binifyApi, List.map_cons] at e1 e2 e3 e4 ⊢
  rw [e1, e2, e3, e4]
  simp only [binsFor, Bool.or_self, eT]

end api

/-! ### non-vacuity -/

/-- amplitude edges `[1, 2, 3, 4]`, mean edges `[0, 1, 2]`, `right=True`: cell (mean bin 0, amplitude
bin 0) = `1/2 + 1/4` (two cycles, one ON the upper amplitude edge 2: right-closed), cell (1, 0) = 1,
cell (1, 2) = 2 (on both upper edges); the cycle ON the first amplitude edge and the one above the
last mean edge are in no cell. -/
example :
    let cyc : List (Rat × Rat × Rat) :=
      [(2, 1, 1 / 2), (1, 1, 1), (3 / 2, 2, 1), (3, 5, 1 / 2), (3 / 2, 1 / 2, 1 / 4), (4, 2, 2)]
    binifyCore true true ([1, 2, 3, 4] : List Rat) [0, 1, 2] cyc = some [[3 / 4, 0, 0], [1, 0, 2]] ∧
    cell [[3 / 4, 0, 0], [1, 0, (2 : Rat)]] 0 0 = some (3 / 4) ∧
    ((cyc.filter fun c => decide (inBin true 1 2 c.1) && decide (inBin true 0 1 c.2.1)).map (·.2.2)).sum = 3 / 4 ∧
    ((cyc.filter fun c => decide (inBin true 3 4 c.1) && decide (inBin true 1 2 c.2.1)).map (·.2.2)).sum = 2 ∧
    ((cyc.filter fun c => decide (inBin true 2 3 c.1) && decide (inBin true 1 2 c.2.1)).map (·.2.2)).sum = 0 := by
  decide +kernel
/-- `right=False`: the cycle ON the first amplitude edge is now in bin 0, the one ON the edge 2 in bin 1 -/
example :
    binifyCore false true ([1, 2, 3, 4] : List Rat) [0, 1, 2]
      [(2, 1, (1 : Rat) / 2), (1, 1, 1), (3 / 2, 0, 1 / 4)] = some [[1 / 4, 0, 0], [1, 1 / 2, 0]] := by
  decide +kernel
example : increasing ([1, 2, 3, 4] : List Rat) = true ∧ List.Pairwise (· < ·) ([0, 1, 2] : List Rat) := by
  decide +kernel

end PyYetiVerif.C10
