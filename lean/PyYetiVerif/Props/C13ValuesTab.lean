import PyYetiVerif.Lemmas.BulkTabDefault
/-!
# C13 — `wttabled1` with its default pair format: VALUES, for every finite value

Property theorems only.  The default case of `wttabled1` (`form == "{:16.9E}{:16.9E}"`) formats every value through
`_dmig_field` since fix 328435d of finding F65; its model is `Model/BulkTabDefault.tabled1LinesDefault`, tied to the code by the
exact-text stream `wttabled1` (driver command `tabled1d`) and by the translator (the default-form test and the per-value helper
call are extracted: `tabDefaultTest`, `tabPreHelper`, `tabPreForm` in `Generated/BulkFormats.lean`).
-/
namespace PyYetiVerif.C13
open PyYetiVerif.Bulk PyYetiVerif.PyFloat PyYetiVerif.NasFloat

/-- **`rdtabled1 (wttabled1 (tid, t, d))`, default format `{:16.9E}{:16.9E}` (every value through `_dmig_field`, fix
328435d of finding F65), on physical lines, as VALUES — for EVERY finite value**, no fit hypothesis.  The table comes back pair by pair; every abscissa /
ordinate is the decimal its field shows, within half a unit of its tenth significant digit (of the ninth for a negative
value with a three-digit exponent). -/
theorem tabled1_roundtrip_values (name : Txt) (tid : Int) (tab : List (Dbl × Dbl))
    (hname : name ≠ [] ∧ name.length + 1 ≤ 8 ∧ '$' ∉ name ∧ ',' ∉ name ∧ '*' ∉ name) (htid : (dec tid).length ≤ 16)
    (hden : ∀ p ∈ tab, 0 < p.1.den ∧ 0 < p.2.den) (hr : ∀ p ∈ tab, InRange p.1 ∧ InRange p.2) :
    rdTabled1 name (tabled1LinesDefault name tid tab) =
        some [(Val.int tid, tab.map fun p => (dmigRead p.1, dmigRead p.2))] ∧
      ∀ p ∈ tab, Near (dmigRead p.1) (dblRat p.1) (dmigBound p.1) ∧ Near (dmigRead p.2) (dblRat p.2) (dmigBound p.2) := by
  have hE : ('E' : Char) = 'e' ∨ 'E' = 'E' ∨ 'E' = 'D' := Or.inr (Or.inl rfl)
  have hin : TabIn true name tid (tabDefaultPairs tab) := by
    refine ⟨hname.1, by simpa using hname.2.1, hname.2.2.1, hname.2.2.2.1, hname.2.2.2.2, by simpa using htid, ?_⟩
    intro q hq
    obtain ⟨p, hp, rfl⟩ := List.mem_map.mp hq
    have c1 := dmigFld_clean 'E' hE p.1 (hden p hp).1 (hr p hp).1
    have c2 := dmigFld_clean 'E' hE p.2 (hden p hp).2 (hr p hp).2
    exact ⟨c1.1.1, c2.1.1, c1.1.2.1, c2.1.2.1, c2.2⟩
  refine ⟨?_, fun p hp => ⟨dmigRead_near p.1 (hden p hp).1, dmigRead_near p.2 (hden p hp).2⟩⟩
  unfold tabled1LinesDefault
  rw [rdTabled1_written true name tid _ hin]
  unfold tabDefaultPairs
  rw [List.map_map]
  congr 3
  apply List.map_congr_left
  intro p _
  simp [Function.comp, nasScan_dmigFld 'E' hE, arr_dmigRead]

/-- every double (every 64-bit pattern that is not inf / nan; `dblOf` maps those to 0) satisfies the hypotheses on the
values: the round trip asks nothing of the numbers -/
theorem tabled1_all_doubles (name : Txt) (tid : Int) (bits : List (Nat × Nat))
    (hname : name ≠ [] ∧ name.length + 1 ≤ 8 ∧ '$' ∉ name ∧ ',' ∉ name ∧ '*' ∉ name) (htid : (dec tid).length ≤ 16) :
    rdTabled1 name (tabled1LinesDefault name tid (bits.map fun b => (termVal b.1, termVal b.2))) =
      some [(Val.int tid, bits.map fun b => (dmigRead (termVal b.1), dmigRead (termVal b.2)))] := by
  have h := (tabled1_roundtrip_values name tid (bits.map fun b => (termVal (b.1 : Int), termVal (b.2 : Int))) hname htid
    (by intro p hp; obtain ⟨b, _, rfl⟩ := List.mem_map.mp hp; exact ⟨termVal_den_pos _, termVal_den_pos _⟩)
    (by intro p hp; obtain ⟨b, _, rfl⟩ := List.mem_map.mp hp; exact ⟨termVal_inRange _, termVal_inRange _⟩)).1
  rw [h, List.map_map]
  rfl

/-- HISTORY of fix 328435d: when every value fits its field in `'{:16.9E}'` the writer produces the text it produced before
the fix (`tabPairsBeforeFix`) -/
theorem tabled1_default_eq_before_fix (name : Txt) (tid : Int) (tab : List (Dbl × Dbl))
    (hfit : ∀ p ∈ tab, (fmtE 9 p.1).length ≤ 16 ∧ (fmtE 9 p.2).length ≤ 16) :
    tabled1LinesDefault name tid tab = tabled1Lines true name tid (tabPairsBeforeFix tab) := by
  unfold tabled1LinesDefault tabDefaultPairs tabPairsBeforeFix
  congr 1
  apply List.map_congr_left
  intro p hp
  simp [dmigFld, (hfit p hp).1, (hfit p hp).2]

/-- the fields differ exactly for a negative value with a three-digit exponent (finite `x`) -/
theorem tabled1_default_differs_iff (x : Dbl) (hd : 0 < x.den) (hr : InRange x) :
    dmigFld 'E' x ≠ pyE 16 9 'E' x ↔ x.neg = true ∧ (expDigits (eExp 9 x)).length = 3 := by
  rw [← dmig_fallback_iff x hd hr]
  constructor
  · intro h hfit
    exact h (by simp [dmigFld, hfit])
  · intro hfit heq
    have h16 := dmigFld_length 'E' x hd hr
    rw [heq] at h16
    have : 16 < (pyE 16 9 'E' x).length := by
      have : (fmtE 9 x).length ≤ (pyE 16 9 'E' x).length := by
        simp [pyE, padL]
      omega
    omega

/-- HISTORY of finding F65 (`wttabled1`, repaired by 328435d; not a property theorem of the present code): the pair format
`{:16.9E}{:16.9E}` applied to the values directly had no fallback.  For `x = −1e100` the ordinate field was 17 characters and the
16 columns the reader slices off read as `−1e10`, not as the value written; `_dmig_field` writes `-1.00000000D+100` /
`-1.00000000E+100` and reads back `−1·10^100`. -/
theorem tabled1_field_overflow_history :
    (pyE 16 9 'E' ⟨true, 10 ^ 100, 1⟩).length = 17 ∧ ¬ (fmtE 9 ⟨true, 10 ^ 100, 1⟩).length ≤ 16 ∧
    nasScan ((pyE 16 9 'E' ⟨true, 10 ^ 100, 1⟩).take 16) = .num (-1000000000) 1 ∧
    readE 9 ⟨true, 10 ^ 100, 1⟩ = .num (-1000000000) 91 ∧
    (dmigFld 'D' ⟨true, 10 ^ 100, 1⟩ = txt "-1.00000000D+100" ∧ dmigRead ⟨true, 10 ^ 100, 1⟩ = .num (-100000000) 92) := by
  refine ⟨?_, ?_, ?_, ?_, ?_, ?_⟩ <;> decide +kernel

/-! ### non-vacuity: the input of finding F65 (fixed by 328435d) -/

/-- `wttabled1(f, 1, [0., 1.], [-1e100, 1.])`, the ordinate is `-1.00000000E+100`, sixteen characters, and
`rdtabled1` returns `−1·10^100` (before the fix: `tabled1_field_overflow_history`) -/
example : tabled1LinesDefault (txt "TABLED1") 1 [(⟨false, 0, 1⟩, ⟨true, 10 ^ 100, 1⟩), (⟨false, 1, 1⟩, ⟨false, 1, 1⟩)] =
      [txt "TABLED1*               1", txt "*",
       txt "*        0.000000000E+00-1.00000000E+100 1.000000000E+00 1.000000000E+00", txt "*       ENDT"] ∧
    dmigRead ⟨true, 10 ^ 100, 1⟩ = .num (-100000000) 92 := by
  have h0 : dmigFld 'E' ⟨false, 0, 1⟩ = txt " 0.000000000E+00" := by decide +kernel
  have h1 : dmigFld 'E' ⟨true, 10 ^ 100, 1⟩ = txt "-1.00000000E+100" := by decide +kernel
  have h2 : dmigFld 'E' ⟨false, 1, 1⟩ = txt " 1.000000000E+00" := by decide +kernel
  refine ⟨?_, by decide +kernel⟩
  simp only [tabled1LinesDefault, tabDefaultPairs, List.map_cons, List.map_nil, h0, h1, h2]
  simp [tabled1Lines, tabled1Rows, fullChunks]
  decide

end PyYetiVerif.C13
