import PyYetiVerif.Model.FdePsdInf
import PyYetiVerif.Props.C10Fde
/-!
# C10 (continued) — `G2 ≥ G1` including the division by zero of the `G2max` loop

`G2_ge_G1_loop` (Props/C10Fde.lean) assumes that every examined level's cumulative count is BELOW
the total.  When a level at or above `Amax/3` has the total count (all cycles at or above that
level: e.g. a constant-amplitude cycle table) and is selected, `fdepsd` computes
`x[k] * y1 / (y1 - y[k])` with `y[k] == y1`: numpy returns `+inf`.  `Fde.g2maxX`
(Model/FdePsdInf.lean) models that value; here the hypothesis is weakened to what the cumulative
counts always satisfy (`0 < count ≤ total`) and the conclusion is "`+inf` or a finite value
`≥ Amax²`" — never `-inf`, never NaN.  Property theorems only.
-/
set_option linter.unusedSectionVars false
set_option linter.unusedVariables false
namespace PyYetiVerif.C10
open PyYetiVerif.Fde

/-- **`G2 ≥ G1` for the loop as the code runs it, division by zero included**: with `Amax > 0` and
cumulative counts that are positive and at most the total `Count[j, 0]` on every examined level
(`count_is_upper_cumulative`, `counts_antitone`), the value of `G2max[j]` is either `+inf` (the
selected level's count EQUALS the total) or finite and `≥ Amax²`; it is never `-inf` or NaN. -/
theorem G2_ge_G1_loop_full (am : ℝ) (ham : 0 < am) (lv : List ℝ) (c0 : ℝ) (cs : List ℝ)
    (h : ∀ p ∈ lv.zip (c0 :: cs), am / 3 ≤ p.1 → 0 < p.2 ∧ p.2 ≤ c0) :
    g2maxX am lv (c0 :: cs) = .pinf ∨ ∃ v, g2maxX am lv (c0 :: cs) = .fin v ∧ am * am ≤ v := by
  unfold g2maxX
  simp only []
  cases hc : g2cands am (TransOps.log c0) lv (c0 :: cs) with
  | nil => exact Or.inr ⟨_, rfl, le_refl _⟩
  | cons t ts =>
      simp only []
      split
      · rename_i hpos
        have hmem : argmaxT t ts ∈ g2cands am (TransOps.log c0) lv (c0 :: cs) := by
          rw [hc]; exact argmaxT_mem ts t
        obtain ⟨p, hp, hthr, e1, e2, e3⟩ := g2cands_mem am _ lv (c0 :: cs) _ hmem
        obtain ⟨hp0, hpc⟩ := h p hp hthr
        have hp1 : 0 < p.1 := by linarith
        have hx : 0 < p.1 * p.1 := by positivity
        rw [e3] at hpos
        rw [e1, e2]
        rcases lt_or_eq_of_le hpc with hlt | heq
        · right
          have hlog := Real.log_lt_log hp0 hlt
          have hden : 0 < TransOps.log c0 - Real.log p.2 := by
            show 0 < Real.log c0 - Real.log p.2
            linarith
          have hz : isZero (TransOps.log c0 - Real.log p.2) = false := by
            simp [isZero, hden]
          refine ⟨_, by simp only [divX, hz]; rfl, ?_⟩
          have := G2_ge_G1 (p.1 * p.1) (am * am) (Real.log p.2) (Real.log c0) hx
            (by positivity) hlog hpos
          unfold g2update at this
          exact le_of_lt this
        · left
          rw [heq] at hpos ⊢
          have hz : isZero (TransOps.log c0 - Real.log c0) = true := by
            have : (TransOps.log c0 : ℝ) - Real.log c0 = 0 := sub_self _
            simp [isZero, this]
          have hy1 : 0 < Real.log c0 := by
            unfold tantheta at hpos
            simp only [log_def] at hpos
            have h2 : 0 < am * am := by positivity
            have e : (Real.log c0 - (Real.log c0 - Real.log c0 * (p.1 * p.1) / (am * am))) / (p.1 * p.1)
                = Real.log c0 / (am * am) := by field_simp; ring
            rw [e] at hpos
            by_contra hn
            have := div_nonpos_of_nonpos_of_nonneg (not_lt.mp hn) h2.le
            linarith
          have hnum : 0 < p.1 * p.1 * (TransOps.log c0 : ℝ) := mul_pos hx hy1
          simp only [divX, hz, if_true, hnum]
      · exact Or.inr ⟨_, rfl, le_refl _⟩

/-- where the old hypothesis holds (every examined level's count below the total) the extended
model is the field model: `g2maxX = fin g2max`, so `G2_ge_G1_loop` is the finite case of
`G2_ge_G1_loop_full`. -/
theorem g2maxX_eq_g2max_of_lt (am : ℝ) (ham : 0 < am) (lv : List ℝ) (c0 : ℝ) (cs : List ℝ)
    (h : ∀ p ∈ lv.zip (c0 :: cs), am / 3 ≤ p.1 → 0 < p.2 ∧ p.2 < c0) :
    g2maxX am lv (c0 :: cs) = .fin (g2max am lv (c0 :: cs)) := by
  unfold g2maxX g2max
  simp only []
  cases hc : g2cands am (TransOps.log c0) lv (c0 :: cs) with
  | nil => rfl
  | cons t ts =>
      simp only []
      split
      · have hmem : argmaxT t ts ∈ g2cands am (TransOps.log c0) lv (c0 :: cs) := by
          rw [hc]; exact argmaxT_mem ts t
        obtain ⟨p, hp, hthr, e1, e2, e3⟩ := g2cands_mem am _ lv (c0 :: cs) _ hmem
        obtain ⟨hp0, hpc⟩ := h p hp hthr
        have hlog := Real.log_lt_log hp0 hpc
        have hden : 0 < TransOps.log c0 - (argmaxT t ts).2.1 := by
          rw [e2]; show 0 < Real.log c0 - Real.log p.2; linarith
        have hz : isZero (TransOps.log c0 - (argmaxT t ts).2.1) = false := by
          simp [isZero, hden]
        simp only [divX, hz]
        rfl
      · rfl

/-- the infinite case occurs: amplitude levels `[0, 1]`, `Amax = 1`, BOTH cumulative counts equal
to the same `c > 1` (every cycle has amplitude 1): the level `1` is examined, `tantheta = ln c > 0`,
and `G2max = 1 · ln c / (ln c − ln c) = +inf`. -/
theorem g2maxX_inf_example (c : ℝ) (hc : 1 < c) : g2maxX 1 [0, 1] [c, c] = .pinf := by
  have hl : 0 < Real.log c := Real.log_pos hc
  have h3 : ¬ ((1 : ℝ) < 3⁻¹) := by norm_num
  simp [g2maxX, g2cands, argmaxT, divX, isZero, tanth, g1y, log_def, h3, hl]

/-! ### non-vacuity -/

example : ∀ p ∈ ([0, 1] : List ℝ).zip [2, 2], (1 : ℝ) / 3 ≤ p.1 → 0 < p.2 ∧ p.2 ≤ 2 := by
  intro p hp _
  simp only [List.zip_cons_cons, List.zip_nil_right, List.mem_cons, List.not_mem_nil, or_false] at hp
  rcases hp with rfl | rfl <;> norm_num

end PyYetiVerif.C10
