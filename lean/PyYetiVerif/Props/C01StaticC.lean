import PyYetiVerif.Lemmas.SuCoefStatic
/-!
# C01 — the linear solves of the coupled paths: static initial state and acceleration

Model: `Model/SuCoefStatic.lean` (`linSolve`, `staticCoupledEl`, `scatterEl`, `accelRhs`,
`calcAcceCoupled`, `massSolve`), transcribing the coupled branches of `_init_dv` and
`_calc_acce_kdof` and the `lu_solve`s of the stepping loops.  `np.linalg.solve` / `lu_solve` are
Gaussian elimination with partial pivoting in the model; it is proved (not assumed) to return a
solution, over any field: the statements below hold for the rationals the driver computes with and
for the reals.

* `lin_solve_spec`                     whatever the solver returns solves the system
* `static_ic_coupled_is_equilibrium`   `static_ic=True`, `d0=None`, coupled system: `K d(0) = F(0)` on
                                       the elastic rows, rigid-body rows start at zero, and the elastic
                                       equations are in equilibrium (`F − B v − K d = 0` there for `v = 0`)
* `static_ic_coupled_accel_zero`       hence the acceleration `_calc_acce_kdof` returns for the elastic
                                       partition (the `kdof` of `SolveUnc`'s coupled path) is zero at
                                       the first sample when `v0` is not given
* `accel_coupled_eom`                  the returned acceleration satisfies `M a + B v + K d = F`
                                       (`M = 1` for `m is None`) at every sample
* `mass_solve_spec`                    `imf = lu_solve(invm, force)`, `rbforce = lu_solve(imrb, force[rb])`:
                                       `M imf = force`
-/
namespace PyYetiVerif.C01
open PyYetiVerif.SuCoef Matrix

variable {α : Type} [Field α]

/-- the model's `np.linalg.solve` / `lu_solve`: a returned vector solves the system -/
theorem lin_solve_spec {n : ℕ} (isZero : α → Bool) (hz : ∀ x, isZero x = true ↔ x = 0)
    (absLt : α → α → Bool) (A : Fin n → Fin n → α) (b x : Fin n → α)
    (h : linSolve isZero absLt A b = some x) : of A *ᵥ x = b :=
  linSolve_solves isZero hz absLt A b x h

/-- `imf = la.lu_solve(self.invm, force[kdof])` (or `force[kdof]` when `m is None`) -/
theorem mass_solve_spec {n : ℕ} (isZero : α → Bool) (hz : ∀ x, isZero x = true ↔ x = 0)
    (absLt : α → α → Bool) (M : Option (Fin n → Fin n → α)) (f x : Fin n → α)
    (h : massSolve isZero absLt M f = some x) :
    (match M with | none => (1 : Matrix (Fin n) (Fin n) α) | some M => of M) *ᵥ x = f := by
  cases M with
  | none =>
    simp only [massSolve, Option.some.injEq] at h
    simp [h]
  | some M => exact linSolve_solves isZero hz absLt M f x h

/-- the coupled static initial state.  `K`: the non-rf stiffness; `el i`: the row of the `i`-th elastic
equation; `elPos`: its inverse (`none` on rigid-body rows).  If `_init_dv`'s static branch returns `x`
for the elastic rows then `d(0) = scatterEl elPos x` satisfies `K d(0) = F(0)` on every elastic row
(with the whole row of `K`: the rigid-body entries of `d(0)` are zero), the rigid-body rows are zero,
and for any damping the elastic rows of `F − B·0 − K d(0)` vanish: static equilibrium. -/
theorem static_ic_coupled_is_equilibrium {n ne : ℕ} (isZero : α → Bool)
    (hz : ∀ x, isZero x = true ↔ x = 0) (absLt : α → α → Bool)
    (B K : Fin n → Fin n → α) (el : Fin ne → Fin n) (elPos : Fin n → Option (Fin ne))
    (hpos : ∀ g i, elPos g = some i ↔ el i = g) (F0 : Fin n → α) (x : Fin ne → α)
    (hx : staticCoupledEl isZero absLt (fun i j => K (el i) (el j)) (fun i => F0 (el i)) = some x) :
    (∀ i, (of K *ᵥ scatterEl elPos x) (el i) = F0 (el i)) ∧
    (∀ g, elPos g = none → scatterEl elPos x g = 0) ∧
    (∀ i, accelRhs B K (scatterEl elPos x) (fun _ => 0) F0 (el i) = 0) := by
  -- the elastic block equation
  have hblock : of (fun i j => K (el i) (el j)) *ᵥ x = fun i => F0 (el i) := by
    unfold staticCoupledEl at hx
    split at hx
    · exact linSolve_solves isZero hz absLt _ _ x hx
    · rename_i hany
      simp only [Option.some.injEq] at hx
      subst hx
      have h0 : ∀ i, F0 (el i) = 0 := by
        intro i
        by_contra hne
        apply hany
        rw [List.any_eq_true]
        refine ⟨F0 (el i), ?_, ?_⟩
        · rw [List.mem_ofFn]; exact ⟨i, rfl⟩
        · cases hzi : isZero (F0 (el i)) with
          | true => exact absurd ((hz _).1 hzi) hne
          | false => rfl
      funext i
      simp [Matrix.mulVec, dotProduct, h0]
  have hinj : Function.Injective el := by
    intro i j hij
    have h1 : elPos (el j) = some i := (hpos (el j) i).2 hij
    have h2 : elPos (el j) = some j := (hpos (el j) j).2 rfl
    rw [h1] at h2
    exact Option.some.inj h2
  have hsc : ∀ i, scatterEl elPos x (el i) = x i := by
    intro i
    simp only [scatterEl, (hpos (el i) i).2 rfl]
  have hnone : ∀ g, elPos g = none → scatterEl elPos x g = 0 := by
    intro g hg
    simp only [scatterEl, hg]
  have hrow : ∀ i, (of K *ᵥ scatterEl elPos x) (el i) = F0 (el i) := by
    intro i
    have hb := congrFun hblock i
    simp only [Matrix.mulVec, dotProduct, of_apply] at hb ⊢
    rw [← hb]
    -- split the full row sum into the elastic columns (image of `el`) and the others (zero entries)
    have hsum : ∑ g, K (el i) g * scatterEl elPos x g
        = ∑ g ∈ Finset.univ.image el, K (el i) g * scatterEl elPos x g := by
      symm
      apply Finset.sum_subset (Finset.subset_univ _)
      intro g _ hg
      have : elPos g = none := by
        cases hp : elPos g with
        | none => rfl
        | some j =>
          exfalso
          apply hg
          rw [Finset.mem_image]
          exact ⟨j, Finset.mem_univ j, (hpos g j).1 hp⟩
      rw [hnone g this, mul_zero]
    rw [hsum, Finset.sum_image (fun a _ b _ hab => hinj hab)]
    exact Finset.sum_congr rfl fun j _ => by rw [hsc j]
  refine ⟨hrow, hnone, fun i => ?_⟩
  have := hrow i
  rw [accelRhs_eq]
  simp only [Pi.sub_apply, this]
  have hv : (of B *ᵥ fun _ => (0 : α)) (el i) = 0 := by simp [Matrix.mulVec, dotProduct]
  rw [hv]
  ring

/-- the acceleration returned by `_calc_acce_kdof` satisfies the equation of motion at the sample
(`M = 1` when `m is None`) -/
theorem accel_coupled_eom {n : ℕ} (isZero : α → Bool) (hz : ∀ x, isZero x = true ↔ x = 0)
    (absLt : α → α → Bool) (M : Option (Fin n → Fin n → α)) (B K : Fin n → Fin n → α)
    (d v f a : Fin n → α) (h : calcAcceCoupled isZero absLt M B K d v f = some a) :
    (match M with | none => (1 : Matrix (Fin n) (Fin n) α) | some M => of M) *ᵥ a
      + of B *ᵥ v + of K *ᵥ d = f := by
  have := mass_solve_spec isZero hz absLt M _ a h
  rw [this, accelRhs_eq]
  abel

/-- with `static_ic` and no `v0`, the acceleration of the elastic partition (the `kdof` of
`SolveUnc`'s coupled path: `m, b, k` shrunk to the elastic set) is zero at the first sample, for a
non-singular elastic mass -/
theorem static_ic_coupled_accel_zero {ne : ℕ} (isZero : α → Bool) (hz : ∀ x, isZero x = true ↔ x = 0)
    (absLt : α → α → Bool) (Mee : Option (Fin ne → Fin ne → α)) (Bee Kee : Fin ne → Fin ne → α)
    (hdet : ∀ M, Mee = some M → (of M).det ≠ 0)
    (F0el x a : Fin ne → α) (hx : staticCoupledEl isZero absLt Kee F0el = some x)
    (ha : calcAcceCoupled isZero absLt Mee Bee Kee x (fun _ => 0) F0el = some a) : a = 0 := by
  have heq := static_ic_coupled_is_equilibrium isZero hz absLt Bee Kee id some
    (by intro g i; simp [eq_comm]) F0el x hx
  have hrhs : accelRhs Bee Kee x (fun _ => 0) F0el = 0 := by
    funext i
    have h3 := heq.2.2 i
    have hs : scatterEl (some : Fin ne → Option (Fin ne)) x = x := by funext g; rfl
    rw [hs] at h3
    exact h3
  have hm := mass_solve_spec isZero hz absLt Mee _ a ha
  rw [hrhs] at hm
  cases Mee with
  | none => simpa using hm
  | some M =>
    have hd := hdet M rfl
    exact (Matrix.eq_zero_of_mulVec_eq_zero hd hm)

/-! ### non-vacuity: a 2×2 system over ℚ solved by the model's elimination -/

/-- `K_ee = [[2, 1], [1, 3]]`, `F0 = (3, 4)`: `x = (1, 1)` -/
example : (staticCoupledEl (fun x : ℚ => x == 0) (fun a b => decide (|a| < |b|))
      (fun i j => (![![2, 1], ![1, 3]] : Fin 2 → Fin 2 → ℚ) i j) ![3, 4]).map (fun x => [x 0, x 1])
    = some [1, 1] := by
  decide +kernel
