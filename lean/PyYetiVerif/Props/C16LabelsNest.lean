import PyYetiVerif.Lemmas.ExtremaLabelsNest
import PyYetiVerif.Props.C16Labels
/-!
# C16 — nested `'extreme'` levels over events that list different rows

Property theorem only.  `form_extreme` forms the envelope of every group first and then the envelope
of those envelopes (`Model/ExtremaTree.lean`); with rows that differ from event to event the lower
envelopes already have merged row lists.  `form_extreme_nested_by_label_values`: for every row label
the VALUES of the upper envelope are those of one pass over all the events of all the groups — the
envelope of the parts, by name, through the levels.  (Labels and abscissae at ties follow the
traversal order and `doappend`, see `form_extreme_by_label` and `nested_envelope_is_recursive_extrema`.)
-/
namespace PyYetiVerif.C16
open PyYetiVerif.Extrema PyYetiVerif.ExtremaLabels

section nest
variable {α X Lb : Type} [LinearOrder α] [DecidableEq Lb]

/-- what the upper level reads from the envelope `a` of the group `e0 :: es` for the row `l`: nothing
when no event of the group lists `l`, else the group's own by-label fold (relabelled) -/
theorem upper_row (d d' nc : Nat) (l : Lb) (e0 : Ev α X Lb) (es : List (Ev α X Lb))
    (a : Acc α X Lb) (u : Ev α X Lb) (h0 : EvOk e0) (hes : ∀ e ∈ es, EvOk e)
    (ha : formCat d nc none (e0 :: es) = .ok (some a)) (hu : u.cat = accToCat a) :
    ((∃ e ∈ e0 :: es, l ∈ e.cat.labels) →
        evRow d' l u = some (relabel u.case u.useExt d' (rowFold d l (e0 :: es)))) ∧
    ((¬ ∃ e ∈ e0 :: es, l ∈ e.cat.labels) → evRow d' l u = none) := by
  obtain ⟨a', ha', -, hnd, hmem, hlen, -, -, -, hrow⟩ := form_extreme_by_label d nc e0 es h0 hes
  rw [ha] at ha'
  simp only [Except.ok.injEq, Option.some.injEq] at ha'
  subst ha'
  constructor
  · intro hex
    have hl : l ∈ a.labels := (hmem l).2 hex
    have hi : a.labels.idxOf l < a.labels.length := List.idxOf_lt_length_iff.2 hl
    have := hrow (a.labels.idxOf l) hi
    rw [List.getElem_idxOf] at this
    simp only [evRow, hu, accToCat, rowAt_of_mem hl]
    rw [List.getElem?_map, this]
    rfl
  · intro hex
    have hl : l ∉ a.labels := fun h => hex ((hmem l).1 h)
    simp [evRow, hu, accToCat, rowAt_of_notMem hl]

/-- ★ nested levels, rows by name: let every group `g` of events (any rows, any order) have its
envelope `a_g` formed, and let the upper level run over events `u_g` whose category is that envelope.
Then for every row label the maximum and minimum of the upper envelope are those of ONE PASS over all
the events of all the groups. -/
theorem form_extreme_nested_by_label_values (d d' : Nat) (l : Lb)
    (gs : List (Nat × Ev α X Lb × List (Ev α X Lb))) (accs : List (Acc α X Lb)) (us : List (Ev α X Lb))
    (hok : ∀ g ∈ gs, EvOk g.2.1 ∧ ∀ e ∈ g.2.2, EvOk e)
    (hacc : List.Forall₂ (fun g a => formCat d g.1 none (g.2.1 :: g.2.2) = .ok (some a)) gs accs)
    (hus : List.Forall₂ (fun u a => u.cat = accToCat a) us accs) :
    (rowFold d' l us).hi.v = (rowFold d l (gs.flatMap fun g => g.2.1 :: g.2.2)).hi.v ∧
    (rowFold d' l us).lo.v = (rowFold d l (gs.flatMap fun g => g.2.1 :: g.2.2)).lo.v := by
  have key : ∀ (sel : Cur α (Option X) String → Option α)
      (hsel : ∀ c u b n, sel (relabel c u b n) = sel n)
      (better : α → α → Bool)
      (hfold : ∀ (dd : Nat) (es : List (Ev α X Lb)),
        sel (rowFold dd l es) = ((es.filterMap (evRow dd l)).map sel).foldl (pickO better) none),
      (us.filterMap (evRow d' l)).map sel
        = upperVals better (gs.map fun g => ((g.2.1 :: g.2.2).filterMap (evRow d l)).map sel) ∧
      ((gs.flatMap fun g => g.2.1 :: g.2.2).filterMap (evRow d l)).map sel
        = (gs.map fun g => ((g.2.1 :: g.2.2).filterMap (evRow d l)).map sel).flatten := by
    intro sel hsel better hfold
    induction gs generalizing accs us with
    | nil =>
      cases hacc
      cases hus
      exact ⟨rfl, rfl⟩
    | cons g gs ih =>
      cases hacc with
      | cons hga hacc' =>
        cases hus with
        | cons hua hus' =>
          rename_i a accs' u us'
          obtain ⟨ih1, ih2⟩ := ih accs' us' (fun g' hg' => hok g' (List.mem_cons_of_mem _ hg')) hacc' hus'
          obtain ⟨hg0, hgs⟩ := hok g List.mem_cons_self
          obtain ⟨hyes, hno⟩ := upper_row d d' g.1 l g.2.1 g.2.2 a u hg0 hgs hga hua
          refine ⟨?_, ?_⟩
          · rw [List.map_cons, upperVals]
            by_cases hex : ∃ e ∈ g.2.1 :: g.2.2, l ∈ e.cat.labels
            · obtain ⟨e, he, hle⟩ := hex
              have hne : ((g.2.1 :: g.2.2).filterMap (evRow d l)).map sel ≠ [] := by
                have hlen : e.cat.rows.length = e.cat.labels.length := by
                  rcases List.mem_cons.1 he with rfl | he'
                  · exact hg0.len
                  · exact (hgs e he').len
                obtain ⟨r, hr⟩ := Option.isSome_iff_exists.1 ((evRow_isSome_iff d l e hlen).2 hle)
                intro hnil
                have : r ∈ (g.2.1 :: g.2.2).filterMap (evRow d l) := List.mem_filterMap.2 ⟨e, he, hr⟩
                rw [List.map_eq_nil_iff] at hnil
                rw [hnil] at this
                cases this
              rw [List.filterMap_cons_some (hyes ⟨e, he, hle⟩), List.map_cons, hsel, hfold, if_neg hne, ih1]
              rfl
            · have hnil : (g.2.1 :: g.2.2).filterMap (evRow d l) = [] := by
                rw [List.filterMap_eq_nil_iff]
                intro e he
                exact evRow_eq_none fun hle => hex ⟨e, he, hle⟩
              rw [List.filterMap_cons_none (hno hex), hnil, ih1]
              rfl
          · simp only [List.flatMap_cons, List.filterMap_append, List.map_append, List.map_cons,
              List.flatten_cons, ih2]
  obtain ⟨h1, h2⟩ := key (·.hi.v) (fun _ _ _ _ => rfl) gtB (fun dd es => rowFold_hi_v dd l es)
  obtain ⟨h3, h4⟩ := key (·.lo.v) (fun _ _ _ _ => rfl) ltB (fun dd es => rowFold_lo_v dd l es)
  constructor
  · rw [rowFold_hi_v, rowFold_hi_v, h1, h2]
    exact foldl_upperVals (keyOrder_gt (α := α)) _ none
  · rw [rowFold_lo_v, rowFold_lo_v, h3, h4]
    exact foldl_upperVals (keyOrder_lt (α := α)) _ none

end nest

/-- non-vacuity: two groups whose events list different rows; the upper level over their envelopes -/
example :
    let row : Int → Int → Cur Int (Option Int) String :=
      fun hi lo => ⟨⟨some hi, some 0, "x"⟩, ⟨some lo, some 1, "x"⟩⟩
    let A : Ev Int Int String := ⟨0, "A", false, ⟨["a", "b"], true, [row 2 0, row 3 (-4)]⟩⟩
    let B : Ev Int Int String := ⟨1, "B", false, ⟨["b", "c"], true, [row 7 (-9), row 1 1]⟩⟩
    let C : Ev Int Int String := ⟨0, "C", false, ⟨["c", "a"], true, [row 5 5, row 9 (-1)]⟩⟩
    (formCat 2 2 none [A, B]).toOption.join.map (fun a => (accToCat a).labels) = some ["a", "b", "c"] ∧
    (formCat 2 1 none [C]).toOption.join.map (fun a => (accToCat a).labels) = some ["c", "a"] ∧
    EvOk A ∧ EvOk B ∧ EvOk C := by
  intro row A B C
  refine ⟨by decide +kernel, by decide +kernel, ?_, ?_, ?_⟩ <;>
    exact ⟨by decide, by decide, fun h => absurd h (by decide)⟩

end PyYetiVerif.C16
