import PyYetiVerif.Lemmas.OrderStats
import PyYetiVerif.Lemmas.KFactor
import Mathlib.Tactic.NormNum
import Mathlib.Analysis.Real.Sqrt
/-!
# C20 — tolerance-limit factors and order statistics meet their definitions

Property theorems only (helper lemmas live in `Lemmas/`).

**Order statistics** (`pyyeti.stats.order_stats`).  `X ~ Binomial(n, q)`, `q = 1 - p`, is the
number of samples above the `p`-quantile; the `r`-th largest sample exceeds that quantile iff
`X ≥ r`.  `tail n r q = P(X ≥ r)` is the confidence (`which = 'c'`: `binom.sf(r - 1, n, 1 - p)`),
`rank n q c` is `which = 'r'` (`binom.ppf(1 - c, n, 1 - p)`), `nSearch r q c` is `which = 'n'`
(`ceil` of the `brentq` root after the doubling bracket search; `none` = `ValueError`).  The
models are tied to the code by exact correspondence on short-decimal `(p, c)` (harness/props/c20.py).
All theorems hold over every linearly ordered field (so for real `p`, `c`), not only over `ℚ`.

Ties.  `binom.ppf` returns the smallest `k` with `cdf(k) ≥ 1 - c`, i.e. the largest rank whose
confidence is *strictly* above `c`, while `'n'` returns the smallest size whose confidence is
`≥ c`.  The two readings differ only when some confidence equals `c` exactly (`tie_example`),
which no floating-point evaluation can decide; `rank_extremal` is the unconditional statement,
`rank_extremal_ge` the `≥` form under the explicit no-tie hypothesis.

**k-factors** (`ksingle`, `kdouble`).  Lean has no executable special functions, so these are
proved *relative to the specification* `KFactor.Spec` of the library kernels (strictly increasing
cdfs, `ppf` their inverses, stochastic ordering of the non-central t family); the harness
evaluates the same defining equations with scipy on every run.  The limit `n → ∞` of `ksingle` is in
Props/C20Limit.lean, the root finders (`'p'` query, `_getr`'s Newton loop) in Props/C20Root.lean, the public
entry points (dispatch, broadcasting, argument arrays) in Props/C20Api.lean; what is still open is listed
in PARTIAL of harness/props/c20.py.
-/
set_option linter.unusedSectionVars false
namespace PyYetiVerif.C20
open PyYetiVerif.OrderStats PyYetiVerif.KFactor

section orderstats
variable {α : Type} [Field α] [LinearOrder α] [IsStrictOrderedRing α]

/-- the model's `1 - cdf(r - 1)` is the upper binomial sum `Σ_{k=r}^{n} C(n,k) q^k (1-q)^{n-k}`. -/
theorem tail_def (n r : ℕ) (q : α) :
    tail n r q = ∑ k ∈ Finset.Ico r (n + 1), (n.choose k : α) * q ^ k * (1 - q) ^ (n - k) :=
  tail_eq_sum n r q

/-- Pascal recurrence: the `(r+1)`-th largest of `n + 1` samples exceeds the quantile iff the new
sample does and the `r`-th largest of the others does, or it does not and the `(r+1)`-th does. -/
theorem tail_succ (n r : ℕ) (q : α) :
    tail (n + 1) (r + 1) q = q * tail n r q + (1 - q) * tail n (r + 1) q :=
  tail_succ_succ n r q

/-- confidence decreases with the rank. -/
theorem tail_antitone_r {q : α} (h0 : 0 ≤ q) (h1 : q ≤ 1) (n : ℕ) {r r' : ℕ} (h : r ≤ r') :
    tail n r' q ≤ tail n r q :=
  tail_antitone h0 h1 n h

/-- confidence increases with the sample size. -/
theorem tail_monotone_n {q : α} (h0 : 0 ≤ q) (h1 : q ≤ 1) (r : ℕ) {n n' : ℕ} (h : n ≤ n') :
    tail n r q ≤ tail n' r q :=
  tail_monotone h0 h1 r h

/-- confidence decreases with the coverage `p = 1 - q` (so the `'p'` query, which solves
`tail n r (1 - p) = c` for `p`, returns the largest coverage demonstrated at confidence `c`). -/
theorem tail_monotone_q {q q' : α} (h0 : 0 ≤ q) (h : q ≤ q') (h1 : q' ≤ 1) (n r : ℕ) :
    tail n r q ≤ tail n r q' :=
  tail_mono_q h0 h h1 n r

/-- it is a probability. -/
theorem tail_bounds {q : α} (h0 : 0 ≤ q) (h1 : q ≤ 1) (n r : ℕ) :
    0 ≤ tail n r q ∧ tail n r q ≤ 1 ∧ tail n 0 q = 1 ∧ (n < r → tail n r q = 0) :=
  ⟨tail_nonneg h0 h1 n r, tail_le_one h0 h1 n r, tail_zero n q, fun h => tail_of_lt h q⟩

/-- `order_stats('r')`: the returned rank is extremal — rank `k` has confidence above `c` exactly
when `k ≤ rank`; in particular `rank` itself qualifies and `rank + 1` does not.  (`rank = 0`
means "not enough samples", as the docstring says.) -/
theorem rank_extremal {q c : α} (h0 : 0 ≤ q) (h1 : q ≤ 1) (hc0 : 0 ≤ c) (hc1 : c < 1) (n k : ℕ) :
    c < tail n k q ↔ k ≤ rank n q c := by
  constructor
  · intro h
    by_contra hk
    have h2 : rank n q c + 1 ≤ k := by omega
    have := (tail_antitone h0 h1 n h2).trans (rank_at (n := n) (q := q) hc0)
    exact absurd h (not_lt.2 this)
  · intro h
    cases k with
    | zero => rw [tail_zero]; exact hc1
    | succ k => exact rank_below (by omega)

/-- the adjacent integer fails, and the answer never exceeds the sample size. -/
theorem rank_succ_fails {q c : α} (hc0 : 0 ≤ c) (n : ℕ) :
    tail n (rank n q c + 1) q ≤ c ∧ rank n q c ≤ n :=
  ⟨rank_at hc0, rank_le n q c⟩

/-- the `≥` reading ("largest rank whose confidence is at least `c`") holds whenever the
confidence of the next rank is not *exactly* `c`. -/
theorem rank_extremal_ge {q c : α} (h0 : 0 ≤ q) (h1 : q ≤ 1) (hc0 : 0 ≤ c) (hc1 : c < 1) (n : ℕ)
    (hnt : tail n (rank n q c + 1) q ≠ c) (k : ℕ) : c ≤ tail n k q ↔ k ≤ rank n q c := by
  rw [← rank_extremal h0 h1 hc0 hc1]
  constructor
  · intro h
    rcases lt_or_eq_of_le h with h | h
    · exact h
    · by_contra hk
      have hk' : rank n q c + 1 ≤ k := by
        by_contra h3
        exact hk ((rank_extremal h0 h1 hc0 hc1 n k).2 (by omega))
      have a := tail_antitone h0 h1 n hk'
      have b := rank_at (n := n) (q := q) hc0
      simp only at a
      exact hnt (le_antisymm b (h ▸ a))
  · exact le_of_lt

/-- the no-tie hypothesis is necessary: one sample, `p = c = 1/2`.  The first (only) rank has
confidence exactly `1/2`, the rank query answers 0 and the sample-size query answers 1. -/
theorem tie_example :
    tail 1 1 (1 / 2 : ℚ) = 1 / 2 ∧ rank 1 (1 / 2 : ℚ) (1 / 2) = 0 ∧
      nSearch 1 (1 / 2 : ℚ) (1 / 2) = some 1 := by
  refine ⟨?_, ?_, ?_⟩
  · norm_num [tail, lower, pmf, OrderStats.choose]
  · simp only [rank, rankGo, pmf, OrderStats.choose]; norm_num
  · simp only [nSearch, nSearchL, meets, tail, lower, pmf, OrderStats.choose]; norm_num

/-- `order_stats('n')`: the returned sample size is extremal — size `m` meets confidence `c` for
rank `r` exactly when `n ≤ m`; in particular `n` meets it, `n - 1` does not, and `n ≥ r`
(the boundary `n = r`, finding F10, is the first branch of `nSearchL`). -/
theorem n_extremal {q c : α} (h0 : 0 ≤ q) (h1 : q ≤ 1) (hc : 0 < c) {L r n : ℕ} (hr : 1 ≤ r)
    (h : nSearchL L r q c = some n) (m : ℕ) : c ≤ tail m r q ↔ n ≤ m :=
  nSearchL_spec h0 h1 hc hr h m

/-- spelled out: meets, predecessor fails, at least `r`. -/
theorem n_extremal_adjacent {q c : α} (h0 : 0 ≤ q) (h1 : q ≤ 1) (hc : 0 < c) {L r n : ℕ} (hr : 1 ≤ r)
    (h : nSearchL L r q c = some n) :
    c ≤ tail n r q ∧ (∀ m, m < n → tail m r q < c) ∧ r ≤ n := by
  have key := n_extremal h0 h1 hc hr h
  refine ⟨(key n).2 le_rfl, fun m hm => ?_, ?_⟩
  · by_contra h2
    have := (key m).1 (not_lt.1 h2); omega
  · by_contra h2
    have h3 := (key n).2 le_rfl
    rw [tail_of_lt (by omega)] at h3
    exact absurd hc (not_lt.2 h3)

/-- the boundary `n = r` (F10): when `r` samples already meet the confidence the answer is `r`. -/
theorem n_eq_r {q c : α} {L r : ℕ} (h : c ≤ tail r r q) : nSearchL L r q c = some r := by
  simp [nSearchL, meets, h]

/-- the search gives up (`ValueError`) only if the answer exceeds `r · 2^(L+1)` (`r · 2^31` in the
code): whenever some size up to that bound meets the confidence, an answer is returned. -/
theorem n_total {q c : α} (h0 : 0 ≤ q) (h1 : q ≤ 1) {L r m : ℕ} (hr : 1 ≤ r)
    (hm : c ≤ tail m r q) (hb : m ≤ r * 2 ^ (L + 1)) : ∃ n, nSearchL L r q c = some n := by
  cases h : nSearchL L r q c with
  | some n => exact ⟨n, rfl⟩
  | none =>
    have := nSearchL_none hr h
    exact absurd (hm.trans (tail_monotone h0 h1 r hb)) (not_le.2 this)

/-- with enough samples any confidence below 1 is reached (`q > 0`; Archimedean fields such as
`ℚ` and `ℝ` — false for an infinitesimal `q`), … -/
theorem confidence_eventually [Archimedean α] {q c : α} (h0 : 0 < q) (h1 : q ≤ 1) (hc : c < 1)
    (r : ℕ) : ∃ N, ∀ n, N ≤ n → c ≤ tail n r q :=
  tail_eventually h0 h1 hc r

/-- … so the sample-size query has an answer, found once enough doublings are allowed (with the
code's 30: exactly when the answer is at most `r · 2^31`, `n_total`). -/
theorem n_exists [Archimedean α] {q c : α} (h0 : 0 < q) (h1 : q ≤ 1) (hc : c < 1) {r : ℕ}
    (hr : 1 ≤ r) : ∃ L n, nSearchL L r q c = some n := by
  obtain ⟨N, hN⟩ := tail_eventually h0 h1 hc r
  refine ⟨N, n_total h0.le h1 hr (hN N le_rfl) ?_⟩
  have h2 : N < 2 ^ N := Nat.lt_two_pow_self
  have h3 : 2 ^ N ≤ 2 ^ (N + 1) := Nat.pow_le_pow_right (by omega) (by omega)
  calc N ≤ 1 * 2 ^ (N + 1) := by omega
    _ ≤ r * 2 ^ (N + 1) := Nat.mul_le_mul_right _ hr

/-- mutual consistency of the query forms `'c'`, `'r'`, `'n'`: if the sample-size query answers
`n` for `(r, c)` then (1) any sample size at which the rank query answers at least `r` is at
least `n`; (2) at `n` itself the rank query answers at least `r` unless the confidence there is
exactly `c`; (3) the confidence query at `(n, r)` returns at least `c` and at `(n - 1, r)` less;
(4) asking the rank query for a confidence strictly below the confidence of `(n₀, r₀)` returns at
least `r₀`, and asking the size query for exactly that confidence returns at most `n₀`. -/
theorem queries_consistent {q c : α} (h0 : 0 ≤ q) (h1 : q ≤ 1) (hc0 : 0 < c) (hc1 : c < 1)
    {L r n : ℕ} (hr : 1 ≤ r) (h : nSearchL L r q c = some n) :
    (∀ m, r ≤ rank m q c → n ≤ m) ∧ (tail n r q ≠ c → r ≤ rank n q c) ∧
      (c ≤ tail n r q ∧ (0 < n → tail (n - 1) r q < c)) ∧
      (∀ n₀ r₀, c < tail n₀ r₀ q → r₀ ≤ rank n₀ q c) ∧
      (∀ n₀, tail n₀ r q = c → n ≤ n₀) := by
  have key := n_extremal h0 h1 hc0 hr h
  have rk := fun m k => rank_extremal h0 h1 hc0.le hc1 (q := q) (c := c) m k
  refine ⟨fun m hm => (key m).1 ((rk m r).2 hm).le, fun hne => ?_, ⟨(key n).2 le_rfl, fun hn => ?_⟩,
    fun n₀ r₀ hlt => (rk n₀ r₀).1 hlt, fun n₀ he => (key n₀).1 he.ge⟩
  · exact (rk n r).1 (lt_of_le_of_ne ((key n).2 le_rfl) (Ne.symm hne))
  · exact (n_extremal_adjacent h0 h1 hc0 hr h).2.1 (n - 1) (by omega)

/-- non-vacuity: the documented example `order_stats('n', p=.99, c=.90, r=4) = 667` is far too
large for kernel evaluation; a small instance of every query form instead
(`p = 3/4`: `T(3,1) = 37/64`, so with `c = 1/2`: rank 1 at `n = 3`, and 3 samples are needed). -/
example :
    tail 3 1 (1 / 4 : ℚ) = 37 / 64 ∧ rank 3 (1 / 4 : ℚ) (1 / 2) = 1 ∧
      nSearch 1 (1 / 4 : ℚ) (1 / 2) = some 3 := by
  have m1 : meets 1 (1 / 4 : ℚ) (1 / 2) 1 = false := by
    norm_num [meets, tail, lower, pmf, OrderStats.choose]
  have m2 : meets 1 (1 / 4 : ℚ) (1 / 2) 2 = false := by
    norm_num [meets, tail, lower, pmf, OrderStats.choose]
  have m3 : meets 1 (1 / 4 : ℚ) (1 / 2) 3 = true := by
    norm_num [meets, tail, lower, pmf, OrderStats.choose]
  have m4 : meets 1 (1 / 4 : ℚ) (1 / 2) 4 = true := by
    norm_num [meets, tail, lower, pmf, OrderStats.choose]
  refine ⟨?_, ?_, ?_⟩
  · norm_num [tail, lower, pmf, OrderStats.choose]
  · simp only [rank, rankGo, pmf, OrderStats.choose]; norm_num
  · rw [nSearch, nSearchL, show (30 : ℕ) = 28 + 1 + 1 from rfl]
    simp only [m1, bracket, m2, m4, Nat.reduceMul, Bool.false_eq_true, if_false, if_true]
    simp [bisect]; simpa using m3

end orderstats

section kfactor
variable {α : Type} [Field α] [LinearOrder α] [IsStrictOrderedRing α]
variable {o : Ops α} {nctCdf : α → α → α → α} {chi2Cdf : α → α → α}

/-- `ksingle` meets its defining probability statement: `√n · k` is the `c`-quantile of the
non-central t distribution with `n - 1` degrees of freedom and non-centrality `√n · z_p`. -/
theorem ksingle_def (S : Spec o nctCdf chi2Cdf) {p c n : α} (hc0 : 0 < c) (hc1 : c < 1)
    (hn : 0 < n) :
    nctCdf (n - 1) (o.sqrt n * o.normPpf p) (o.sqrt n * ksingle o p c n) = c := by
  have hs := (S.sqrt_pos n hn).ne'
  have : o.sqrt n * ksingle o p c n = o.nctPpf c (n - 1) (o.sqrt n * o.normPpf p) := by
    unfold ksingle pnonc; field_simp
  rw [this]; exact S.nctCdf_ppf c _ _ hc0 hc1

/-- `ksingle` increases with the confidence. -/
theorem ksingle_strictMono_c (S : Spec o nctCdf chi2Cdf) {p c c' n : α} (hc0 : 0 < c)
    (h : c < c') (hc1 : c' < 1) (hn : 0 < n) : ksingle o p c n < ksingle o p c' n := by
  unfold ksingle
  exact div_lt_div_of_pos_right (S.nctPpf_lt_c _ _ hc0 h hc1) (S.sqrt_pos n hn)

/-- `ksingle` increases with the coverage. -/
theorem ksingle_strictMono_p (S : Spec o nctCdf chi2Cdf) {p p' c n : α} (hp0 : 0 < p)
    (h : p < p') (hp1 : p' < 1) (hc0 : 0 < c) (hc1 : c < 1) (hn : 0 < n) :
    ksingle o p c n < ksingle o p' c n := by
  unfold ksingle pnonc
  have hs := S.sqrt_pos n hn
  exact div_lt_div_of_pos_right
    (S.nctPpf_lt_nc _ hc0 hc1 (mul_lt_mul_of_pos_left (S.normPpf_lt hp0 h hp1) hs)) hs

/-- the loop of `_getr` stops moving exactly at a solution of the documented integral equation
`Φ(1/√n + R) − Φ(1/√n − R) = prob`. -/
theorem getr_fixed_point (S : Spec o nctCdf chi2Cdf) (n prob r : α) :
    newtonStep o n prob r = r ↔ getrResidual o n prob r = 0 := by
  have hd := (S.getrDen_pos n r).ne'
  unfold newtonStep
  constructor
  · intro h
    have : getrResidual o n prob r / getrDen o n r = 0 := by linarith
    rcases div_eq_zero_iff.1 this with h | h
    · exact h
    · exact absurd h hd
  · intro h; rw [h]; simp

/-- the solution is unique, increases with `prob`, and is positive for `prob > 0`. -/
theorem getr_strictMono (S : Spec o nctCdf chi2Cdf) {n p p' r r' : α}
    (h : getrResidual o n p r = 0) (h' : getrResidual o n p' r' = 0) (hp : p < p') : r < r' := by
  by_contra hr
  have hr' : r' ≤ r := not_lt.1 hr
  unfold getrResidual at h h'
  simp only at h h'
  have a := S.normCdf_strictMono.monotone (show 1 / o.sqrt n + r' ≤ 1 / o.sqrt n + r by linarith)
  have b := S.normCdf_strictMono.monotone (show 1 / o.sqrt n - r ≤ 1 / o.sqrt n - r' by linarith)
  linarith

theorem getr_pos (S : Spec o nctCdf chi2Cdf) {n p r : α} (h : getrResidual o n p r = 0)
    (hp : 0 < p) : 0 < r := by
  by_contra hr
  have hr' : r ≤ 0 := not_lt.1 hr
  unfold getrResidual at h
  simp only at h
  have a := S.normCdf_strictMono.monotone (show 1 / o.sqrt n + r ≤ 1 / o.sqrt n - r by linarith)
  linarith

/-- `kdouble` solves its two documented equations: with `R` the solution of the coverage
equation, `(n - 1) R² / k²` is the `(1 - c)`-quantile of chi-square with `n - 1` degrees of
freedom. -/
theorem kdouble_def (S : Spec o nctCdf chi2Cdf) {p c n r : α} (hc0 : 0 < c) (hc1 : c < 1)
    (hn : 1 < n) (hp : 0 < p) (hr : getrResidual o n p r = 0) :
    o.normCdf (1 / o.sqrt n + r) - o.normCdf (1 / o.sqrt n - r) = p ∧
      chi2Cdf (n - 1) ((n - 1) * r ^ 2 / kdoubleOf o c n r ^ 2) = 1 - c := by
  have hr0 := (getr_pos S hr hp).ne'
  refine ⟨by unfold getrResidual at hr; simp only at hr; linarith, ?_⟩
  have hchi := S.chi2Ppf_pos (1 - c) (n - 1) (by linarith) (by linarith)
  have hn1 : 0 < n - 1 := by linarith
  have hq : 0 ≤ (n - 1) / o.chi2Ppf (1 - c) (n - 1) := (div_pos hn1 hchi).le
  have hs := S.sqrt_mul_self _ hq
  have hsp := (S.sqrt_pos _ (div_pos hn1 hchi)).ne'
  have : (n - 1) * r ^ 2 / kdoubleOf o c n r ^ 2 = o.chi2Ppf (1 - c) (n - 1) := by
    unfold kdoubleOf
    rw [mul_pow, pow_two (o.sqrt _), hs]
    field_simp
  rw [this]; exact S.chi2Cdf_ppf _ _ (by linarith) (by linarith)

/-- `kdouble` increases with the confidence. -/
theorem kdouble_strictMono_c (S : Spec o nctCdf chi2Cdf) {c c' n r : α} (hc0 : 0 < c)
    (h : c < c') (hc1 : c' < 1) (hn : 1 < n) (hr : 0 < r) :
    kdoubleOf o c n r < kdoubleOf o c' n r := by
  unfold kdoubleOf
  have hn1 : 0 < n - 1 := by linarith
  have h1 := S.chi2Ppf_lt (n - 1) (show 0 < 1 - c' by linarith) (show 1 - c' < 1 - c by linarith)
    (by linarith)
  have hpos := S.chi2Ppf_pos (1 - c') (n - 1) (by linarith) (by linarith)
  have h2 : (n - 1) / o.chi2Ppf (1 - c) (n - 1) < (n - 1) / o.chi2Ppf (1 - c') (n - 1) :=
    div_lt_div_of_pos_left hn1 hpos h1
  exact mul_lt_mul_of_pos_right
    (S.sqrt_lt (div_pos hn1 (hpos.trans h1)) h2) hr

/-- `kdouble` increases with the coverage. -/
theorem kdouble_strictMono_p (S : Spec o nctCdf chi2Cdf) {p p' c n r r' : α} (hc0 : 0 < c)
    (hc1 : c < 1) (hn : 1 < n) (hr : getrResidual o n p r = 0)
    (hr' : getrResidual o n p' r' = 0) (hp : p < p') :
    kdoubleOf o c n r < kdoubleOf o c n r' := by
  unfold kdoubleOf
  have hchi := S.chi2Ppf_pos (1 - c) (n - 1) (by linarith) (by linarith)
  exact mul_lt_mul_of_pos_left (getr_strictMono S hr hr' hp)
    (S.sqrt_pos _ (div_pos (by linarith) hchi))

/-- non-vacuity of the specification: its clauses are jointly satisfiable (over `ℝ`, with the real
square root and a toy location family in place of the distributions), so the theorems above are
not vacuous.  That scipy's `norm`, `nct`, `chi2` satisfy the clauses is the trusted part; the
harness measures the residuals of the resulting equations on every run. -/
example : ∃ (o : Ops ℝ) (nct : ℝ → ℝ → ℝ → ℝ) (chi : ℝ → ℝ → ℝ), Spec o nct chi :=
  ⟨⟨Real.sqrt, fun _ => 1, id, id, fun c _ nc => c + nc, fun pr _ => pr, 1⟩, fun _ nc x => x - nc,
    fun _ x => x,
    { sqrt_pos := fun _ h => Real.sqrt_pos.2 h
      sqrt_mul_self := fun _ h => Real.mul_self_sqrt h
      exp_pos := fun _ => one_pos
      spi_pos := one_pos
      normCdf_strictMono := strictMono_id
      normCdf_ppf := fun _ _ _ => rfl
      nctCdf_strictMono := fun _ nc a b h => by simp only; linarith
      nctCdf_ppf := fun c _ nc _ _ => by simp
      nctCdf_anti_nc := fun _ x a b h => by simp only; linarith
      chi2Cdf_strictMono := fun _ a _ b _ h => h
      chi2Cdf_ppf := fun _ _ _ _ => rfl
      chi2Ppf_pos := fun _ _ h _ => h }⟩

end kfactor
end PyYetiVerif.C20
