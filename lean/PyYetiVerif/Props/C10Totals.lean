import PyYetiVerif.Lemmas.BinifyTotals
import PyYetiVerif.Props.C10Cell
/-!
# C10 (continued) — the `binify` table total derived from the cells

`binify_cell_sum` (Props/C10Cell.lean) gives every entry `T[i, j]` of the `_binify` table as the
summed count of the cycles of that mean × amplitude interval; `binify_conserves_2d`
(Props/C10Bins.lean) gives the table TOTAL by following the loop.  Here the total is re-derived
from the cells: the bins of an increasing edge vector partition its range (`one_axis_partition`),
so summing the cell sums over ALL cells (rows = adjacent mean edges `bm.zip bm.tail`, columns =
adjacent amplitude edges `br.zip br.tail`) counts every cycle inside both ranges exactly once and
every other cycle never (`binify_total_from_cells`); a table with known cells has the double sum of
its cells as total (`table_sum_eq_cells`); together: `binify_conserves_2d_from_cells`.

ONE formulation is used throughout: bins are the adjacent-edge pairs `bins.zip bins.tail`; the
`i`-th pair is `(bins[i], bins[i+1])` (`Binify.zip_tail_getElem?`).

Property theorems only.  Model: `Model/Binify.lean`; helper lemmas: `Lemmas/BinifyTotals.lean`.
-/
set_option linter.unusedSectionVars false
set_option linter.unusedVariables false
namespace PyYetiVerif.C10
open PyYetiVerif.Binify

section core
variable {α : Type} [LinearOrder α] {β : Type} [AddCommMonoid β]

/-- **one axis**: the bins of an increasing edge vector partition its range — summing a weight
`w` over the bins that contain `x` gives `w` if `x` is inside the documented range
(`b[0] < x ≤ b[-1]` / `b[0] ≤ x < b[-1]`) and `0` otherwise, i.e. `x` is in exactly one bin or in
none. -/
theorem one_axis_partition (right : Bool) (bins : List α) (hs : List.Pairwise (· < ·) bins)
    (w : β) (x : α) :
    ((bins.zip bins.tail).map fun e => if inBin right e.1 e.2 x then w else 0).sum
      = if inRange right bins x = true then w else 0 :=
  axis_sum right w x bins hs

/-- **the total from the cells**: the sum over all cells (mean bins × amplitude bins) of the cell
sums of `binify_cell_sum` is the summed count of exactly the cycles inside BOTH ranges — each such
cycle is in exactly one cell, every other cycle in none. -/
theorem binify_total_from_cells (right : Bool) (br bm : List α) (hr : List.Pairwise (· < ·) br)
    (hm : List.Pairwise (· < ·) bm) (cycles : List (α × α × β)) :
    (((bm.zip bm.tail).map fun m => ((br.zip br.tail).map fun a =>
        (cellCounts right a.1 a.2 m.1 m.2 cycles).sum).sum).sum)
      = ((cycles.filter fun c => inRange right br c.1 && inRange right bm c.2.1).map (·.2.2)).sum :=
  cells_total right br bm hr hm cycles

/-- **shape lemma**: a `len(bm)-1 × len(br)-1` table whose entry `T[i, j]` is `f m a` for the
`i`-th adjacent-edge pair `m = (bm[i], bm[i+1])` and the `j`-th pair `a = (br[j], br[j+1])` has
the double sum of the `f m a` as its `tableSum` (no order hypothesis is needed here). -/
theorem table_sum_eq_cells (br bm : List α) (T : List (List β)) (f : α × α → α × α → β)
    (hT : T.length = bm.length - 1) (hrow : ∀ row ∈ T, row.length = br.length - 1)
    (hc : ∀ (i j : Nat) (lom him loa hia : α), bm[i]? = some lom → bm[i + 1]? = some him →
      br[j]? = some loa → br[j + 1]? = some hia → cell T i j = some (f (lom, him) (loa, hia))) :
    tableSum T = ((bm.zip bm.tail).map fun m => ((br.zip br.tail).map fun a => f m a).sum).sum := by
  apply tableSum_of_cells T (bm.zip bm.tail) (br.zip br.tail) f
  · rw [hT, zip_tail_length]
  · intro row h; rw [hrow row h, zip_tail_length]
  · intro i j m a h1 h2
    obtain ⟨a1, a2⟩ := (zip_tail_getElem? bm i m).mp h1
    obtain ⟨a3, a4⟩ := (zip_tail_getElem? br j a).mp h2
    exact hc i j m.1 m.2 a.1 a.2 a1 a2 a3 a4

/-- **`binify_conserves_2d` re-derived from the cells**: `_binify(ensure_boundaries=True)` returns
a table whose total is the summed count of the cycles inside both ranges.  The VALUE of the total
comes from `binify_cell_sum` (each entry), `table_sum_eq_cells` (total = double sum of the entries)
and `binify_total_from_cells` (the bins partition the ranges); only the SHAPE of the table (number
of rows, row lengths — the first two conjuncts after the equation) is taken from
`binify_conserves_2d`, its `tableSum` conjunct is not used. -/
theorem binify_conserves_2d_from_cells (right : Bool) (br bm : List α)
    (hr : List.Pairwise (· < ·) br) (hm : List.Pairwise (· < ·) bm) (cycles : List (α × α × β)) :
    ∃ T, binifyCore right true br bm cycles = some T ∧
      tableSum T = ((cycles.filter fun c => inRange right br c.1 && inRange right bm c.2.1).map (·.2.2)).sum := by
  obtain ⟨T, e, hcell⟩ := binify_cell_sum right br bm hr hm cycles
  obtain ⟨T', e', l1, l2, _⟩ := binify_conserves_2d right br bm hr hm cycles
  rw [e] at e'
  cases e'
  refine ⟨T, e, ?_⟩
  rw [table_sum_eq_cells br bm T
    (fun m a => (cellCounts right a.1 a.2 m.1 m.2 cycles).sum) l1 l2
    (fun i j lom him loa hia h1 h2 h3 h4 => hcell i j lom him loa hia h1 h2 h3 h4)]
  exact binify_total_from_cells right br bm hr hm cycles

/-- a cycle outside either range contributes to NO cell: for every mean bin `(lom, him)` and every
amplitude bin `(loa, hia)` the cell's count list is unchanged by it. -/
theorem binify_uncovered_in_no_cell (right : Bool) (br bm : List α) (hr : List.Pairwise (· < ·) br)
    (hm : List.Pairwise (· < ·) bm) (c : α × α × β) (cs : List (α × α × β))
    (h : ¬ (inRange right br c.1 = true ∧ inRange right bm c.2.1 = true))
    (i j : Nat) (lom him loa hia : α) (h1 : bm[i]? = some lom) (h2 : bm[i + 1]? = some him)
    (h4 : br[j]? = some loa) (h5 : br[j + 1]? = some hia) :
    cellCounts right loa hia lom him (c :: cs) = cellCounts right loa hia lom him cs := by
  unfold cellCounts
  rw [List.filter_cons_of_neg]
  simp only [Bool.and_eq_true, decide_eq_true_eq]
  rintro ⟨ca, cm⟩
  exact h ⟨(inRange_iff_covered right br hr c.1).mpr ⟨j, loa, hia, h4, h5, ca⟩,
    (inRange_iff_covered right bm hm c.2.1).mpr ⟨i, lom, him, h1, h2, cm⟩⟩

end core

/-! ### non-vacuity -/

/-- amplitude edges `[1, 2, 3, 4]`, mean edges `[0, 1, 2]`, `right=True`: the six cell sums
`3/4, 0, 0 / 1, 0, 2` add up to `15/4`, the summed count of the four covered cycles (the cycle ON
the first amplitude edge and the one above the last mean edge are in no cell), and this is the
total of the table `_binify` returns. -/
example :
    let cyc : List (Rat × Rat × Rat) :=
      [(2, 1, 1 / 2), (1, 1, 1), (3 / 2, 2, 1), (3, 5, 1 / 2), (3 / 2, 1 / 2, 1 / 4), (4, 2, 2)]
    let br : List Rat := [1, 2, 3, 4]
    let bm : List Rat := [0, 1, 2]
    List.Pairwise (· < ·) br ∧ List.Pairwise (· < ·) bm ∧
    bm.zip bm.tail = [(0, 1), (1, 2)] ∧
    ((bm.zip bm.tail).map fun m => (br.zip br.tail).map fun a =>
        (cellCounts true a.1 a.2 m.1 m.2 cyc).sum) = [[3 / 4, 0, 0], [1, 0, 2]] ∧
    (((bm.zip bm.tail).map fun m => ((br.zip br.tail).map fun a =>
        (cellCounts true a.1 a.2 m.1 m.2 cyc).sum).sum).sum) = 15 / 4 ∧
    ((cyc.filter fun c => inRange true br c.1 && inRange true bm c.2.1).map (·.2.2)).sum = 15 / 4 ∧
    binifyCore true true br bm cyc = some [[3 / 4, 0, 0], [1, 0, 2]] ∧
    tableSum ([[3 / 4, 0, 0], [1, 0, 2]] : List (List Rat)) = 15 / 4 := by
  decide +kernel
/-- one axis, `right=False`: `1` (ON the first edge) is in exactly one bin, `4` (ON the last edge) in none -/
example :
    (((([1, 2, 3, 4] : List Rat).zip [2, 3, 4]).map fun e => if inBin false e.1 e.2 1 then (1 : Rat) else 0) = [1, 0, 0]) ∧
    (((([1, 2, 3, 4] : List Rat).zip [2, 3, 4]).map fun e => if inBin false e.1 e.2 4 then (1 : Rat) else 0) = [0, 0, 0]) ∧
    inRange false ([1, 2, 3, 4] : List Rat) 1 = true ∧ inRange false ([1, 2, 3, 4] : List Rat) 4 = false := by
  decide +kernel

end PyYetiVerif.C10
