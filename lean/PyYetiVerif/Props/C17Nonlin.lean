import PyYetiVerif.Lemmas.NewmarkNonlin
import PyYetiVerif.Props.C17
/-!
# C17 (continued) — nonlinear force terms of SolveNewmark (`def_nonlin`, `_get_nonlin`, `sol.z`)

Property theorems only (helpers in `Lemmas/NewmarkNonlin.lean`; the model of `def_nonlin` is
`Newmark.defNonlin` / `getNonlin` / `zOut` / `runCalls` in `Model/Newmark.lean`).

* `newmark_nonlin_is_documented` — with the dictionary `{key_i: (func_i, T_i)}` the history `run` returns satisfies the
  documented recurrence `A u_{n+2} = (F_{n+2} + F_{n+1} + F_n)/3 + N_{n+1} + A1 u_{n+1} + A0 u_n` with
  `N_j = Σ_i T_i @ func_i(d, j, h)` evaluated EXPLICITLY: `N_{n+1}` sees the step index `n + 1` and the history
  `[u_{n+1}, u_n, …, u_0, u₋₁]` — nothing of `u_{n+2}` (no predictor) — exactly the lag of the docstring; the start-up
  uses `N_0` on `[u_0, u₋₁]` and the extra step `N_{nt−1}`.  The pre-multiplication `T' = A⁻¹ T` is undone by `A`.
* `nonlin_zero_is_linear` — an empty dictionary (`def_nonlin({})`) and callbacks that return zeros give the linear
  solver's history.
* `nonlin_z_is_callback_output` — `sol.z[key_i][:, j] = func_i(d, j, h)` on the history `[d_j, …, d_0, u₋₁]`.
* `def_nonlin_call_sequence` — ANY call sequence on one solver object (caller arrays overwritten in place,
  `def_nonlin` with array objects, `tsolve`): every `tsolve` returns what a FRESH solver returns given `def_nonlin` with
  the VALUES the arrays held when `def_nonlin` was last called (`specCalls`); in particular
  `def_nonlin_copies_at_call`: overwriting a transform array after `def_nonlin` changes nothing until `def_nonlin` is
  called again, and then the new values are used (no cache keyed by the array object).
-/
namespace PyYetiVerif.C17
open PyYetiVerif.Newmark

section documented
variable {α V : Type} [Field α] [CharZero α] [AddCommGroup V] [Module α V]
attribute [local instance] moduleVecOps

/-- the documented recurrence with the nonlinear force lagged as documented -/
theorem newmark_nonlin_is_documented (S : Sys V α) (dct : List ((Nat → List V → List α) × List V))
    (A : V →ₗ[α] V) (A1 A0 : V → V)
    (hsolve : ∀ x, A (S.solve x) = x) (hA1 : ∀ x, A (S.A1 x) = A1 x) (hA0 : ∀ x, A (S.A0 x) = A0 x)
    (F0 F1 : V) (rest : List V) (d0 v0 : V) :
    (∀ j hs, A (getNonlin 0 (defNonlin S dct) j hs) = getNonlin 0 (rawTerms dct) j hs) ∧
    ∃ (hh : Hist V) (Y : List V) (fl fp : V) (fs : List V),
      run S (getNonlin 0 (defNonlin S dct)) (F0 :: F1 :: rest) d0 v0 = some hh ∧
      hh.d = d0 :: Y.reverse ∧ hh.d.length = rest.length + 2 ∧
      (F1 :: rest).reverse ++ [S.K d0 + S.B v0, S.K (d0 - S.h • v0) + S.B v0] = fl :: fp :: fs ∧
      Documented (α := α) A A1 A0 (getNonlin 0 (rawTerms dct)) (hh.de :: (Y ++ [d0, d0 - S.h • v0]))
        (((2 : α) • fl - fp) :: fl :: fp :: fs) :=
  ⟨A_getNonlin A S hsolve dct,
    newmark_is_documented S (getNonlin 0 (defNonlin S dct)) (getNonlin 0 (rawTerms dct)) A A1 A0 hsolve hA1
      hA0 (A_getNonlin A S hsolve dct) F0 F1 rest d0 v0⟩

/-- no terms, or terms whose callbacks return zeros: the linear history -/
theorem nonlin_zero_is_linear (S : Sys V α) (F : List V) (d0 v0 : V) :
    run S (getNonlin 0 (defNonlin S [])) F d0 v0 = run S (fun _ _ => 0) F d0 v0 ∧
    ∀ dct : List ((Nat → List V → List α) × List V),
      (∀ ft ∈ dct, ∀ j hs, ∀ z ∈ ft.1 j hs, z = 0) →
      run S (getNonlin 0 (defNonlin S dct)) F d0 v0 = run S (fun _ _ => 0) F d0 v0 := by
  refine ⟨rfl, fun dct hz => ?_⟩
  have : getNonlin 0 (defNonlin S dct) = fun _ _ => (0 : V) := by
    funext j hs
    exact getNonlin_zero S dct hz j hs
  rw [this]

end documented

/-- `sol.z`: entry `(i, j)` is the `i`-th callback on step `j` and the history up to `d_j` -/
theorem nonlin_z_is_callback_output {α V : Type} (terms : List (NlTerm α V)) (um : V) (ds : List V)
    (i j : Nat) (t : NlTerm α V) (hi : terms[i]? = some t) (hj : j < ds.length) :
    ((zOut terms um ds)[i]?.bind fun row => row[j]?) = some (t.func j ((ds.take (j + 1)).reverse ++ [um])) := by
  simp [zOut, histAt, hi, List.getElem?_range hj]

section calls
variable {α V : Type} [Add V] [Sub V] [VecOps α V] [Mul α] [OfNat α 2] [OfNat α 3]

/-- a call sequence on a new object equals its specification by values -/
theorem def_nonlin_call_sequence (S : Sys V α) (zero : V) (store : Nat → List V)
    (cs : List (NlCall α V)) :
    runCalls S zero { store := store, obj := [] } cs = specCalls S zero { store := store, cur := [] } cs :=
  runCalls_eq_specCalls S zero cs _ _ rfl rfl

/-- `def_nonlin` copies (pre-multiplies) at the call: a later in-place change of the caller's array is not seen by
`tsolve` until `def_nonlin` is called again — and IS seen after that -/
theorem def_nonlin_copies_at_call (S : Sys V α) (zero : V) (store : Nat → List V)
    (f : Nat → List V → List α) (id : Nat) (new : List V) (F : List V) (d0 v0 : V) :
    runCalls S zero { store := store, obj := [] }
        [.defNonlin [(f, id)], .setArr id new, .tsolve F d0 v0, .defNonlin [(f, id)], .tsolve F d0 v0]
      = [run S (getNonlin zero (defNonlin S [(f, store id)])) F d0 v0,
         run S (getNonlin zero (defNonlin S [(f, new)])) F d0 v0] := by
  simp [runCalls, NlWorld.exec, defNonlin]

end calls

/-! ## non-vacuity -/

/-- a one-term dictionary over `ℚ` whose pre-multiplied form differs from the raw one: `A = 2` (`solve x = x/2`),
`T = [1]`, `z = [3]`: `T' @ z = 3/2`, `A (T' @ z) = 3 = T @ z` -/
example : applyT (α := ℚ) (0 : ℚ) ([(1 : ℚ)].map fun x => x / 2) [(3 : ℚ)] = 3 / 2 ∧
    applyT (α := ℚ) (0 : ℚ) [(1 : ℚ)] [(3 : ℚ)] = 3 := by
  constructor <;> norm_num [applyT, VecOps.smul]

end PyYetiVerif.C17
