import PyYetiVerif.Lemmas.NewmarkNonlin
import PyYetiVerif.Props.C17
/-!
# C17 (continued) — nonlinear force terms of SolveNewmark (`def_nonlin`, `_get_nonlin`, `sol.z`)

Property theorems only (helpers in `Lemmas/NewmarkNonlin.lean`; the model of `def_nonlin` is
`Newmark.defNonlin` / `getNonlin` / `zOut` / `runCalls` in `Model/Newmark.lean`).

* `newmark_nonlin_is_documented` — with the dictionary `{key_i: (func_i, T_i)}` the history `run` returns satisfies the
  documented recurrence `A u_{n+2} = (F_{n+2} + F_{n+1} + F_n)/3 + N_{n+1} + A1 u_{n+1} + A0 u_n` with
  `N_j = Σ_i T_i @ func_i(d, j, h)` evaluated EXPLICITLY: `N_{n+1}` sees the step index `n + 1` and the history
  `[u_{n+1}, u_n, …, u_0, u₋₁]` — nothing of `u_{n+2}` (no predictor) — exactly the lag of the docstring; the start-up
  uses `N_0` on `[u_0, u₋₁]` and the extra step `N_{nt−1}`.  The pre-multiplication `T' = A⁻¹ T` is undone by `A`.
* `nonlin_zero_is_linear` — an empty dictionary (`def_nonlin({})`) and callbacks that return zeros give the linear
  solver's history.
* `nonlin_z_is_callback_output` — `sol.z[key_i][:, j] = func_i(d, j, h)` on the history `[d_j, …, d_0, u₋₁]`.
* `def_nonlin_call_sequence` — ANY call sequence on one solver object (caller arrays overwritten in place,
  `def_nonlin` with array objects, `tsolve`): every `tsolve` returns what a FRESH solver returns given `def_nonlin` with
  the VALUES the arrays held when `def_nonlin` was last called (`specCalls`); in particular
  `def_nonlin_copies_at_call`: overwriting a transform array after `def_nonlin` changes nothing until `def_nonlin` is
  called again, and then the new values are used (no cache keyed by the array object).
* `nonlin_rf_nonrf_part_is_run`, `nonlin_rf_placement_irrelevant` — with an rf partition (ANY placement of the rf rows) the
  non-rf part of `tsolve` is `run` on the non-rf partition with the callbacks handed the non-rf rows at every step, so the
  theorems above hold uniformly and permuting where the rf equations sit does not change the non-rf solution (finding
  F63, repaired in /repo 62d98b6: the start-up used to hand the callbacks the full-size array).
-/
namespace PyYetiVerif.C17
open PyYetiVerif.Newmark

section documented
variable {α V : Type} [Field α] [CharZero α] [AddCommGroup V] [Module α V]
attribute [local instance] moduleVecOps

/-- the documented recurrence with the nonlinear force lagged as documented -/
theorem newmark_nonlin_is_documented (S : Sys V α) (dct : List ((Nat → List V → List α) × List V))
    (A : V →ₗ[α] V) (A1 A0 : V → V)
    (hsolve : ∀ x, A (S.solve x) = x) (hA1 : ∀ x, A (S.A1 x) = A1 x) (hA0 : ∀ x, A (S.A0 x) = A0 x)
    (F0 F1 : V) (rest : List V) (d0 v0 : V) :
    (∀ j hs, A (getNonlin 0 (defNonlin S dct) j hs) = getNonlin 0 (rawTerms dct) j hs) ∧
    ∃ (hh : Hist V) (Y : List V) (fl fp : V) (fs : List V),
      run S (getNonlin 0 (defNonlin S dct)) (F0 :: F1 :: rest) d0 v0 = some hh ∧
      hh.d = d0 :: Y.reverse ∧ hh.d.length = rest.length + 2 ∧
      (F1 :: rest).reverse ++ [S.K d0 + S.B v0, S.K (d0 - S.h • v0) + S.B v0] = fl :: fp :: fs ∧
      Documented (α := α) A A1 A0 (getNonlin 0 (rawTerms dct)) (hh.de :: (Y ++ [d0, d0 - S.h • v0]))
        (((2 : α) • fl - fp) :: fl :: fp :: fs) :=
  ⟨A_getNonlin A S hsolve dct,
    newmark_is_documented S (getNonlin 0 (defNonlin S dct)) (getNonlin 0 (rawTerms dct)) A A1 A0 hsolve hA1
      hA0 (A_getNonlin A S hsolve dct) F0 F1 rest d0 v0⟩

/-- no terms, or terms whose callbacks return zeros: the linear history -/
theorem nonlin_zero_is_linear (S : Sys V α) (F : List V) (d0 v0 : V) :
    run S (getNonlin 0 (defNonlin S [])) F d0 v0 = run S (fun _ _ => 0) F d0 v0 ∧
    ∀ dct : List ((Nat → List V → List α) × List V),
      (∀ ft ∈ dct, ∀ j hs, ∀ z ∈ ft.1 j hs, z = 0) →
      run S (getNonlin 0 (defNonlin S dct)) F d0 v0 = run S (fun _ _ => 0) F d0 v0 := by
  refine ⟨rfl, fun dct hz => ?_⟩
  have : getNonlin 0 (defNonlin S dct) = fun _ _ => (0 : V) := by
    funext j hs
    exact getNonlin_zero S dct hz j hs
  rw [this]

end documented

/-- `sol.z`: entry `(i, j)` is the `i`-th callback on step `j` and the history up to `d_j` -/
theorem nonlin_z_is_callback_output {α V : Type} (terms : List (NlTerm α V)) (um : V) (ds : List V)
    (i j : Nat) (t : NlTerm α V) (hi : terms[i]? = some t) (hj : j < ds.length) :
    ((zOut terms um ds)[i]?.bind fun row => row[j]?) = some (t.func j ((ds.take (j + 1)).reverse ++ [um])) := by
  simp [zOut, histAt, hi, List.getElem?_range hj]

section calls
variable {α V : Type} [Add V] [Sub V] [VecOps α V] [Mul α] [OfNat α 2] [OfNat α 3]

/-- a call sequence on a new object equals its specification by values -/
theorem def_nonlin_call_sequence (S : Sys V α) (zero : V) (store : Nat → List V)
    (cs : List (NlCall α V)) :
    runCalls S zero { store := store, obj := [] } cs = specCalls S zero { store := store, cur := [] } cs :=
  runCalls_eq_specCalls S zero cs _ _ rfl rfl

/-- `def_nonlin` copies (pre-multiplies) at the call: a later in-place change of the caller's array is not seen by
`tsolve` until `def_nonlin` is called again — and IS seen after that -/
theorem def_nonlin_copies_at_call (S : Sys V α) (zero : V) (store : Nat → List V)
    (f : Nat → List V → List α) (id : Nat) (new : List V) (F : List V) (d0 v0 : V) :
    runCalls S zero { store := store, obj := [] }
        [.defNonlin [(f, id)], .setArr id new, .tsolve F d0 v0, .defNonlin [(f, id)], .tsolve F d0 v0]
      = [run S (getNonlin zero (defNonlin S [(f, store id)])) F d0 v0,
         run S (getNonlin zero (defNonlin S [(f, new)])) F d0 v0] := by
  simp [runCalls, NlWorld.exec, defNonlin]

end calls


/-! ## nonlinear terms together with an rf partition (after fix 62d98b6, finding F63) -/
section rf
variable {α : Type} [Add α] [Sub α] [Mul α] [Div α] [OfNat α 0] [OfNat α 1] [OfNat α 2] [OfNat α 3]

/-- For ANY placement of the rf equations the non-rf part of `tsolve` is `Newmark.run` on the non-rf partition of
`m, b, k, force, d0, v0`, with the nonlinear term `nl` handed the non-rf rows at every step, step 0 included: so
`newmark_nonlin_is_documented` (stated for `run`) describes it uniformly - no special first step. -/
theorem nonlin_rf_nonrf_part_is_run (n : Nat) (rf : List Nat) (M : Option (Mat α)) (B K : Mat α) (h : α)
    (solveWith : Mat α → Vec α → Vec α) (nl : Sys (Vec α) α → Nat → List (Vec α) → Vec α)
    (F : List (Vec α)) (d0 v0 : Vec α) :
    tsolveNonrf n rf M B K h solveWith nl F d0 v0
      = run (matSysOpt (M.map (pickMat (nonrfOf n rf))) (pickMat (nonrfOf n rf) B) (pickMat (nonrfOf n rf) K) h
            solveWith)
          (nl (matSysOpt (M.map (pickMat (nonrfOf n rf))) (pickMat (nonrfOf n rf) B) (pickMat (nonrfOf n rf) K) h
            solveWith))
          (F.map (pick (nonrfOf n rf))) (pick (nonrfOf n rf) d0) (pick (nonrfOf n rf) v0) ∧
    (nonrfOf n rf ≠ [] → ∀ hh, tsolveNonrf n rf M B K h solveWith nl F d0 v0 = some hh →
      ∃ drf, tsolveRf n rf M B K h solveWith nl F d0 v0
        = some (List.zipWith (scatter n (nonrfOf n rf) rf) hh.d drf,
            hh.v.map (fun x => scatter n (nonrfOf n rf) rf x ⟨Array.replicate rf.length 0⟩),
            hh.a.map (fun x => scatter n (nonrfOf n rf) rf x ⟨Array.replicate rf.length 0⟩))) := by
  refine ⟨rfl, fun hne hh hrun => ⟨rfStaticMat (pickMat rf K) solveWith (F.map (pick rf)), ?_⟩⟩
  have hemp : (nonrfOf n rf).isEmpty = false := by
    cases hl : nonrfOf n rf with
    | nil => exact absurd hl hne
    | cons _ _ => rfl
  simp only [tsolveRf, hemp, hrun]
  rfl

/-- **Where the rf equations sit is irrelevant**: two systems (possibly of different size and with the rf rows at
different places - in particular a row permutation of one another) whose non-rf partitions of `m, b, k`, force and
initial conditions coincide have the same non-rf solution, nonlinear terms included.  (Before fix 62d98b6 the
callbacks saw the full-size array at step 0 and this was false: finding F63.) -/
theorem nonlin_rf_placement_irrelevant (n n' : Nat) (rf rf' : List Nat) (M M' : Option (Mat α)) (B B' K K' : Mat α)
    (h : α) (solveWith : Mat α → Vec α → Vec α) (nl : Sys (Vec α) α → Nat → List (Vec α) → Vec α)
    (F F' : List (Vec α)) (d0 d0' v0 v0' : Vec α)
    (hM : M.map (pickMat (nonrfOf n rf)) = M'.map (pickMat (nonrfOf n' rf')))
    (hB : pickMat (nonrfOf n rf) B = pickMat (nonrfOf n' rf') B')
    (hK : pickMat (nonrfOf n rf) K = pickMat (nonrfOf n' rf') K')
    (hF : F.map (pick (nonrfOf n rf)) = F'.map (pick (nonrfOf n' rf')))
    (hd : pick (nonrfOf n rf) d0 = pick (nonrfOf n' rf') d0')
    (hv : pick (nonrfOf n rf) v0 = pick (nonrfOf n' rf') v0') :
    tsolveNonrf n rf M B K h solveWith nl F d0 v0 = tsolveNonrf n' rf' M' B' K' h solveWith nl F' d0' v0' := by
  simp only [tsolveNonrf, hM, hB, hK, hF, hd, hv]

end rf

/-! ## non-vacuity -/

/-- `nonlin_rf_placement_irrelevant`: the hypotheses hold for a row permutation that moves the rf row from the front to
the back: rows `[1, 2]` of `(a, b, c)` are rows `[0, 1]` of `(b, c, a)` -/
example : nonrfOf 3 [0] = [1, 2] ∧ nonrfOf 3 [2] = [0, 1] ∧
    (pick [1, 2] (⟨#[10, 20, 30]⟩ : Vec Nat)).a = (pick [0, 1] (⟨#[20, 30, 10]⟩ : Vec Nat)).a := by decide

/-- a one-term dictionary over `ℚ` whose pre-multiplied form differs from the raw one: `A = 2` (`solve x = x/2`),
`T = [1]`, `z = [3]`: `T' @ z = 3/2`, `A (T' @ z) = 3 = T @ z` -/
example : applyT (α := ℚ) (0 : ℚ) ([(1 : ℚ)].map fun x => x / 2) [(3 : ℚ)] = 3 / 2 ∧
    applyT (α := ℚ) (0 : ℚ) [(1 : ℚ)] [(3 : ℚ)] = 3 := by
  constructor <;> norm_num [applyT, VecOps.smul]

end PyYetiVerif.C17
