import PyYetiVerif.Props.C12Foreign
import PyYetiVerif.Lemmas.NasCardsMultiParts
/-!
# C12 — `rdcards(..., keep_comments=True)`: where the kept comment lines stand

A file assembled from comment lines `$…` and written cards (`wtcard8/16/16d`, any names).  The code
collects every comment line it passes in `comment_list` and empties that list into the result
only when it stores a card.  So, in the result:

* a matching card is preceded by exactly the comment lines that stand between the end of the
  previous matching card and its own first line — including those in front of, and behind, any
  foreign card in between (a foreign card does not flush the pending comments, they are neither
  dropped nor attached to the foreign card);
* the comment lines after the last matching card come at the very end;
* with `keep_comments=False` the result is the same list without the comment entries.
-/
namespace PyYetiVerif.C12
open PyYetiVerif.PyFloat PyYetiVerif.NasFloat PyYetiVerif.NasCards

/-- **`kept_comments_placement`**: reading, into a list with `keep_comments=True`, a file made of
comment lines and written cards gives `place [] parts` (`Lemmas/NasCardsMultiPlace`, rules restated
in `kept_comments_rules`), for any matcher (name or regular expression), `blank`, `keep_name`. -/
theorem kept_comments_placement (o : RdOpts) (m : Str → Bool) (parts : List FilePart)
    (hrv : o.retVar = .list) (hkc : o.keepComments = true) (hok : ∀ p ∈ parts, p.OK) :
    rdcardsFull o m (fileLines (fileOf parts)) =
      finishRd o (effBlank o)
        (place (cardValG true (effBlank o)) (effBlank o) o.keepName [] (parts.map (FilePart.seg m))) := by
  unfold rdcardsFull rdcardsT
  have e1 : effTolist o = true := by simp [effTolist, hrv]
  simp only [e1, hkc, Bool.true_and, Bool.and_self]
  rw [prepLines_parts m parts hok]
  unfold rdItems
  rw [rdItemsGo_place _ _ _ _ (segsOK_parts m parts hok)]

/-- **the rules of the placement** (`pend` = the comment lines pending): at the end of the file
the pending comments are appended; a comment line becomes pending; a card block that gives no card
(a foreign card) leaves the pending comments pending; a card block that gives cards gets the
pending comments in front of it, and nothing is pending behind it. -/
theorem kept_comments_rules (cv : Str → NasVal) (bl : NasVal) (keep : Bool) (pend : List Str)
    (raw : Str) (A : List TLine) (ss : List Seg) :
    place cv bl keep pend [] = pend.map .comment ∧
    place cv bl keep pend (.cmt raw :: ss) = place cv bl keep (pend ++ [raw]) ss ∧
    (rdItems cv bl keep A = [] → place cv bl keep pend (.blk A :: ss) = place cv bl keep pend ss) ∧
    (rdItems cv bl keep A ≠ [] → place cv bl keep pend (.blk A :: ss) =
      pend.map .comment ++ rdItems cv bl keep A ++ place cv bl keep [] ss) := by
  refine ⟨rfl, rfl, ?_, ?_⟩
  · intro h; simp [place, h]
  · intro h
    have : (rdItems cv bl keep A).isEmpty = false := by
      cases hx : rdItems cv bl keep A with
      | nil => exact absurd hx h
      | cons a b => rfl
    simp [place, this]

/-- **a written card of another name is a block that gives no card** (so the comments around it
stay pending for the next matching card): `name` as in `rdcards_foreign_written`. -/
theorem kept_comments_foreign_card (cv : Str → NasVal) (bl : NasVal) (keep : Bool) (name other text : Str)
    (hname : ∃ c0 t, name = c0 :: t ∧ isLetter c0 = true) (hlen : name.length ≤ 8)
    (hw : WrittenCard other text)
    (hnp : (lower name).isPrefixOf (lower (ljust 8 other)) = false) :
    rdItems cv bl keep (prepLines false (prefixMatch name) (fileLines text)) = [] := by
  unfold rdItems
  rw [rdItemsGo_noMatch]
  · rfl
  · intro t ht
    simp only [prepLines, List.mem_map] at ht
    obtain ⟨l, hl, rfl⟩ := ht
    have hnt : ∀ c ∈ l, c ≠ '\t' := by
      intro c hc
      apply (written_block other text hw).2 c
      obtain ⟨_, ⟨b, hb⟩ | ⟨a, b, hb⟩⟩ := fileLines_mem text l hl
      · rw [hb]; simp [hc]
      · rw [hb]; simp [hc]
    simp only [prepLine, Bool.false_and, Bool.false_eq_true, if_false, expandTabs_noTab l hnt, true_and]
    exact written_card_lines_no_match name other text hname hlen hw hnp l hl

/-- **`kept_comments_erase`**: with `keep_comments=False` the items read are those read with
`keep_comments=True` without the comment entries (the matcher does not match a comment line — a
name never does; the comment lines hold no tab). -/
theorem kept_comments_erase (cv : Str → NasVal) (bl : NasVal) (keep : Bool) (m : Str → Bool)
    (parts : List FilePart) (hok : ∀ p ∈ parts, p.OK)
    (hm : ∀ body, FilePart.comment body ∈ parts → m (('$' :: body) ++ ['\n']) = false)
    (htab : ∀ body, FilePart.comment body ∈ parts → ∀ c ∈ body, c ≠ '\t') :
    rdItems cv bl keep (prepLines false m (fileLines (fileOf parts))) =
      noComments (rdItems cv bl keep (prepLines true m (fileLines (fileOf parts)))) := by
  have hblock : ∀ t ∈ parts.map FilePart.text, BlockText t := by
    intro t ht
    obtain ⟨p, hp, rfl⟩ := List.mem_map.1 ht
    cases p with
    | comment body => exact ⟨⟨_, rfl⟩, by simp [FilePart.text]⟩
    | card nm text => exact (written_block nm text (hok _ hp)).1
  rw [prepLines_parts m parts hok]
  unfold fileOf
  rw [rdItems_texts cv bl keep m _ hblock]
  conv_rhs => unfold rdItems
  rw [rdItemsGo_place _ _ _ _ (segsOK_parts m parts hok), noComments_place]
  simp only [List.map_map]
  congr 1
  apply List.map_congr_left
  intro p hp
  cases p with
  | comment body =>
    have hnt : ∀ c ∈ ('$' :: body) ++ ['\n'], c ≠ '\t' := by
      intro c hc
      simp only [List.cons_append, List.mem_cons, List.mem_append, List.not_mem_nil, or_false] at hc
      rcases hc with rfl | h | rfl
      · decide
      · exact htab body hp c h
      · decide
    simp only [Function.comp, FilePart.text, FilePart.seg, fileLines_comment body (hok _ hp), prepLines,
      List.map_cons, List.map_nil, prepLine, Bool.false_and, Bool.false_eq_true, if_false,
      expandTabs_noTab _ hnt, hm body hp]
    simp [rdItems, rdItemsGo]
  | card nm text =>
    simp only [Function.comp, FilePart.text, FilePart.seg]
    unfold rdItems
    exact (noComments_rdItemsGo cv bl keep _ _ (prepLines_noCmt m _)).symm

/-- non-vacuity: two `GRID` cards, a foreign `CORD2R` card between them and three comments — one in
front of the first card, one in front of and one behind the foreign card: the last two both stand
in front of the second `GRID` card; without `keep_comments` the same cards alone. -/
example : ∃ parts : List FilePart, (∀ p ∈ parts, p.OK) ∧
    fileOf parts = "$ one\nGRID           1       2\n$ two\nCORD2R         7\n$ three\nGRID           3\n".toList ∧
    rdcardsFull ⟨none, .list, .float, false, true⟩ (prefixMatch "GRID".toList) (fileLines (fileOf parts)) =
      .list [.comment "$ one\n".toList, .card [.int 1, .int 2], .comment "$ two\n".toList,
        .comment "$ three\n".toList, .card [.int 3]] ∧
    rdcardsFull ⟨none, .list, .float, false, false⟩ (prefixMatch "GRID".toList) (fileLines (fileOf parts)) =
      .list [.card [.int 1, .int 2], .card [.int 3]] := by
  have hint : ∀ (n : Int) (toks : List Tok), (∀ t ∈ toks, t = Tok.int n) → (intStr n).length ≤ 8 →
      ∀ t ∈ toks, CardField 8 (enc 8 formatFloat8 t) := by
    intro n toks h hl t ht
    rw [h t ht]
    exact cardField_int 8 _ n hl
  have hG : NameOK "GRID".toList := ⟨⟨'G', "RID".toList, rfl, by decide⟩, by decide, by decide⟩
  have hC : NameOK "CORD2R".toList := ⟨⟨'C', "ORD2R".toList, rfl, by decide⟩, by decide, by decide⟩
  have h12 : ∀ t ∈ [Tok.int 1, Tok.int 2], CardField 8 (enc 8 formatFloat8 t) := by
    intro t ht
    simp only [List.mem_cons, List.not_mem_nil, or_false] at ht
    rcases ht with rfl | rfl
    · exact cardField_int 8 _ 1 (by decide +kernel)
    · exact cardField_int 8 _ 2 (by decide +kernel)
  refine ⟨[.comment " one".toList,
      .card "GRID".toList ((wtcard8 "GRID".toList [.int 1, .int 2]).get (by decide)),
      .comment " two".toList,
      .card "CORD2R".toList ((wtcard8 "CORD2R".toList [.int 7]).get (by decide)),
      .comment " three".toList,
      .card "GRID".toList ((wtcard8 "GRID".toList [.int 3]).get (by decide))], ?_, by decide +kernel,
    by decide +kernel, by decide +kernel⟩
  intro p hp
  simp only [List.mem_cons, List.not_mem_nil, or_false] at hp
  rcases hp with rfl | rfl | rfl | rfl | rfl | rfl
  · exact (by decide : ∀ c ∈ " one".toList, c ≠ '\n')
  · exact ⟨hG, Or.inl ⟨[.int 1, .int 2], h12, by simp⟩⟩
  · exact (by decide : ∀ c ∈ " two".toList, c ≠ '\n')
  · exact ⟨hC, Or.inl ⟨[.int 7], hint 7 [.int 7] (by simp) (by decide +kernel), by simp⟩⟩
  · exact (by decide : ∀ c ∈ " three".toList, c ≠ '\n')
  · exact ⟨hG, Or.inl ⟨[.int 3], hint 3 [.int 3] (by simp) (by decide +kernel), by simp⟩⟩

end PyYetiVerif.C12
