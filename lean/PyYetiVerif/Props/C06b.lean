import PyYetiVerif.Lemmas.RigidBodyGuyan
import PyYetiVerif.Props.C06
/-!
# C06 (extension) — the free-free eigenproblem preparation of `_solve_eig` and the zero-stiffness
trimming of `_cbcoordchk`

Property theorems only.  The executable definitions are those of `Model/RigidBodyGuyan.lean`.
`linalg.solve` enters as data with its specification (`(-Kzz)·psi = Kzx`); `eigsh` is outside (its
eigenpairs of the REDUCED pencil are what the theorems take as given).
-/
set_option linter.unusedVariables false
set_option linter.unusedSimpArgs false
set_option linter.unusedSectionVars false
namespace PyYetiVerif.C06
open PyYetiVerif.RigidBody Matrix

section guyan
variable {x z R : Type} [Fintype x] [Fintype z] [DecidableEq x] [DecidableEq z] [CommRing R]

/-- ★ Guyan reduction of massless DOF (`_solve_eig`, cb.py:2310-2346).  For `M = diag(Mxx, 0)`,
`K = [[Kxx, Kxz],[Kzx, Kzz]]` with `Kzz` invertible and `psi` meeting the specification of
`linalg.solve(-Kzz, Kzx)`: `(vx, vz)` is an eigenvector of the FULL pencil for the (finite)
eigenvalue `lam` **iff** `vx` is an eigenvector of the reduced pencil
`(Kxx + Kxz·psi, Mxx)` for `lam` and `vz = psi·vx` (the static back expansion the code applies);
and an expanded vector is zero only if its reduced part is. -/
theorem guyan_preserves_eigenpairs (Kxx : Matrix x x R) (Kxz : Matrix x z R) (Kzx : Matrix z x R)
    (Kzz : Matrix z z R) (Mxx : Matrix x x R) (psi : Matrix z x R) (hK : IsUnit Kzz.det)
    (hpsi : (-Kzz) * psi = Kzx) (lam : R) (vx : x → R) (vz : z → R) :
    (Matrix.fromBlocks Kxx Kxz Kzx Kzz *ᵥ Sum.elim vx vz
        = lam • (Matrix.fromBlocks Mxx 0 0 0 *ᵥ Sum.elim vx vz)
      ↔ (Kxx + Kxz * psi) *ᵥ vx = lam • (Mxx *ᵥ vx) ∧ vz = psi *ᵥ vx) ∧
    (vz = psi *ᵥ vx → (Sum.elim vx vz = 0 ↔ vx = 0)) := by
  have hinv : Kzz⁻¹ * Kzz = 1 := Matrix.nonsing_inv_mul _ hK
  -- the second block row forces the static expansion
  have key : Kzx *ᵥ vx + Kzz *ᵥ vz = 0 → vz = psi *ᵥ vx := by
    intro h
    have h1 : Kzz *ᵥ vz = Kzz *ᵥ (psi *ᵥ vx) := by
      have : Kzx *ᵥ vx = -(Kzz *ᵥ (psi *ᵥ vx)) := by
        rw [← hpsi, Matrix.mulVec_mulVec, Matrix.neg_mul, Matrix.neg_mulVec]
      rw [this] at h
      have := eq_neg_of_add_eq_zero_right h
      simpa using this
    have := congrArg (fun w => Kzz⁻¹ *ᵥ w) h1
    simpa [Matrix.mulVec_mulVec, ← Matrix.mul_assoc, hinv] using this
  have back : vz = psi *ᵥ vx → Kzx *ᵥ vx + Kzz *ᵥ vz = 0 := by
    intro h
    rw [h, ← hpsi, Matrix.mulVec_mulVec]
    simp [Matrix.neg_mulVec]
  refine ⟨?_, ?_⟩
  · rw [Matrix.fromBlocks_mulVec, Matrix.fromBlocks_mulVec]
    simp only [Sum.elim_comp_inl, Sum.elim_comp_inr, Matrix.zero_mulVec, add_zero]
    constructor
    · intro h
      have hx := congrFun h
      have h2 : Kzx *ᵥ vx + Kzz *ᵥ vz = 0 := by
        ext i
        have := hx (Sum.inr i)
        simpa using this
      have hvz := key h2
      refine ⟨?_, hvz⟩
      ext i
      have := hx (Sum.inl i)
      simp only [Sum.elim_inl, Pi.smul_apply, Pi.add_apply] at this
      rw [Matrix.add_mulVec, Pi.add_apply, ← Matrix.mulVec_mulVec, ← hvz]
      simpa using this
    · rintro ⟨h1, h2⟩
      have hb := back h2
      ext i
      rcases i with i | i
      · have := congrFun h1 i
        rw [Matrix.add_mulVec, Pi.add_apply, ← Matrix.mulVec_mulVec, ← h2] at this
        simpa using this
      · have := congrFun hb i
        simpa using this
  · intro h
    constructor
    · intro h0
      ext i
      have := congrFun h0 (Sum.inl i)
      simpa using this
    · intro h0
      ext i
      rcases i with i | i
      · simp [h0]
      · simp [h, h0]

/-- the model's `guyanK` is `Kxx + Kxz·psi` of the blocks its index maps cut out of `k` -/
theorem guyanK_eq_blocks (nx nz : Nat) (k psi : NMat R) (xs zs : Nat → Nat) (i j : Fin nx) :
    guyanK nz k xs zs psi i j =
      (Matrix.of (fun a b : Fin nx => k (xs a) (xs b)) +
        Matrix.of (fun (a : Fin nx) (t : Fin nz) => k (xs a) (zs t)) *
          Matrix.of (fun (t : Fin nz) (b : Fin nx) => psi t b)) i j := by
  simp [guyanK, Matrix.mul_apply, sumN_eq_sum_fin]

/-- the model's specification residual of `psi` is `(-Kzz)·psi - Kzx` of those blocks -/
theorem psiResid_eq_blocks (nx nz : Nat) (k psi : NMat R) (xs zs : Nat → Nat) (t : Fin nz) (j : Fin nx) :
    psiResid nz k xs zs psi t j =
      ((-Matrix.of (fun a b : Fin nz => k (zs a) (zs b))) *
          Matrix.of (fun (s : Fin nz) (b : Fin nx) => psi s b) -
        Matrix.of (fun (a : Fin nz) (b : Fin nx) => k (zs a) (xs b))) t j := by
  simp [psiResid, Matrix.mul_apply, sumN_eq_sum_fin]

/-- the model's back expansion puts `v` on the DOF with mass and `psi·v` on the massless ones -/
theorem guyanExpand_rows (xl zl : List Nat) (psi v : NMat R) (hx : xl.Nodup) (hz : zl.Nodup)
    (hd : ∀ i ∈ zl, i ∉ xl) (c : Nat) :
    (∀ a (ha : a < xl.length), guyanExpand xl.length xl zl psi v xl[a] c = v a c) ∧
      (∀ t (ht : t < zl.length), guyanExpand xl.length xl zl psi v zl[t] c
        = ∑ a : Fin xl.length, psi t a * v a c) := by
  constructor
  · intro a ha
    simp [guyanExpand, idxIn_getElem hx ha]
  · intro t ht
    have h1 : idxIn xl zl[t] = none := idxIn_of_not_mem (hd _ (List.getElem_mem ht))
    simp [guyanExpand, h1, idxIn_getElem hz ht, sumN_eq_sum_fin]

/-- non-vacuity: `K = [[2,-1],[-1,1]]`, `M = diag(1, 0)`: `psi = [1]`, reduced pencil `(1, 1)`;
`(1, 1)` is an eigenvector of the full pencil for `lam = 1`. -/
example : (Matrix.fromBlocks !![(2 : ℚ)] !![(-1 : ℚ)] !![(-1 : ℚ)] !![(1 : ℚ)] *ᵥ
      Sum.elim (fun _ : Fin 1 => (1 : ℚ)) (fun _ : Fin 1 => (1 : ℚ))
    = (1 : ℚ) • (Matrix.fromBlocks !![(1 : ℚ)] 0 0 (0 : Matrix (Fin 1) (Fin 1) ℚ) *ᵥ
      Sum.elim (fun _ : Fin 1 => (1 : ℚ)) (fun _ : Fin 1 => (1 : ℚ)))) := by
  have h := (guyan_preserves_eigenpairs !![(2 : ℚ)] !![(-1 : ℚ)] !![(-1 : ℚ)] !![(1 : ℚ)] !![(1 : ℚ)]
    !![(1 : ℚ)] (by simp [Matrix.det_fin_one]) (by ext i j; fin_cases i; fin_cases j; simp) 1
    (fun _ => 1) (fun _ => 1)).1
  refine h.2 ⟨?_, ?_⟩
  · ext i; fin_cases i; simp [Matrix.mulVec, dotProduct]; norm_num
  · ext i; fin_cases i; simp [Matrix.mulVec, dotProduct]

/-- ★ null columns (zero in both mass and stiffness, cb.py:2292-2308, 2348-2352): the eigenpairs of
the trimmed pencil, extended by ZERO rows as the code does, are eigenpairs of the full pencil, and
conversely the kept part of any eigenvector of the full pencil is an eigenvector of the trimmed
one. -/
theorem null_trim_sound {n : Type} [Fintype n] [DecidableEq n] (Kn Mn : Matrix n n R) (lam : R)
    (vn : n → R) (vz : z → R) :
    (Matrix.fromBlocks Kn 0 0 (0 : Matrix z z R) *ᵥ Sum.elim vn vz
        = lam • (Matrix.fromBlocks Mn 0 0 (0 : Matrix z z R) *ᵥ Sum.elim vn vz))
      ↔ Kn *ᵥ vn = lam • (Mn *ᵥ vn) := by
  rw [Matrix.fromBlocks_mulVec, Matrix.fromBlocks_mulVec]
  simp only [Sum.elim_comp_inl, Sum.elim_comp_inr, Matrix.zero_mulVec, add_zero]
  constructor
  · intro h
    ext i
    have := congrFun h (Sum.inl i)
    simpa using this
  · intro h
    ext i
    rcases i with i | i
    · have := congrFun h i
      simpa using this
    · simp

/-- the model's `nullExpand` puts the rows of `v` on the kept DOF and zero on the others -/
theorem nullExpand_rows (keep : List Nat) (v : NMat R) (hk : keep.Nodup) (c : Nat) :
    (∀ a (ha : a < keep.length), nullExpand keep v keep[a] c = v a c) ∧
      (∀ i, i ∉ keep → nullExpand keep v i c = 0) := by
  constructor
  · intro a ha
    simp [nullExpand, idxIn_getElem hk ha]
  · intro i hi
    simp [nullExpand, idxIn_of_not_mem hi]

end guyan

/-! ## `_cbcoordchk`: zero-stiffness trimming -/

section trim
variable {o r z R : Type} [Fintype o] [Fintype r] [Fintype z] [DecidableEq o] [DecidableEq r]
  [DecidableEq z] [CommRing R]

/-- ★ what the zero-stiffness trimming of `_cbcoordchk` (cb.py:2082-2094, 2144-2148) does, for a
valid model.  Boundary DOF split into reference `r`, other kept `o` and zero-stiffness `z`;
`Kbb = diag([[Krr, Kro],[Kor, Koo]], 0)`; the true rigid-body modes `[1; Ro; Rz]` satisfy `Kbb·RB = 0`
and `Koo` is invertible.  The routine returns `rbs = [1; -Koo⁻¹Kor; 0]`.  Then
(1) on every kept DOF `rbs` IS the true rigid-body mode (so every quantity computed from kept rows -
the translation rows `rbdispchk` reads, hence the coordinates and the reported maximum error - is
the one of the true modes);
(2) `Kbb·rbs = 0`: the grounding check is unaffected by the zero rows;
(3) the `refpoint_chk` quantity `Krr - Kro·Koo⁻¹·Kor` vanishes;
(4) without the trimming the "other" block `diag(Koo, 0)` is singular as soon as one DOF was
trimmed, i.e. `linalg.solve` could not have been used. -/
theorem coordchk_trim_sound (Krr : Matrix r r R) (Kro : Matrix r o R) (Kor : Matrix o r R)
    (Koo : Matrix o o R) (Ro : Matrix o r R) (Rz : Matrix z r R) (hK : IsUnit Koo.det)
    (h : Matrix.fromBlocks (Matrix.fromBlocks Krr Kro Kor Koo) 0 0 (0 : Matrix z z R) *
        Matrix.fromRows (Matrix.fromRows (1 : Matrix r r R) Ro) Rz = 0) :
    Matrix.fromRows (1 : Matrix r r R) (-(Koo⁻¹ * Kor)) = Matrix.fromRows 1 Ro ∧
      Matrix.fromBlocks (Matrix.fromBlocks Krr Kro Kor Koo) 0 0 (0 : Matrix z z R) *
        Matrix.fromRows (Matrix.fromRows (1 : Matrix r r R) (-(Koo⁻¹ * Kor))) (0 : Matrix z r R) = 0 ∧
      Krr - Kro * (Koo⁻¹ * Kor) = 0 ∧
      (Nonempty z → (Matrix.fromBlocks Koo 0 0 (0 : Matrix z z R)).det = 0) := by
  rw [Matrix.fromBlocks_mul_fromRows] at h
  have h' := (Matrix.fromRows_ext_iff _ _ _ _).1 (h.trans Matrix.fromRows_zero.symm)
  have hk : Matrix.fromBlocks Krr Kro Kor Koo * Matrix.fromRows (1 : Matrix r r R) Ro = 0 := by
    simpa using h'.1
  obtain ⟨h1, h2⟩ := stiffness_rb_eq_geometry Krr Kro Kor Koo Ro hK hk
  refine ⟨by rw [h1], ?_, h2, ?_⟩
  · rw [Matrix.fromBlocks_mul_fromRows, h1, hk]
    simp
  · intro hz
    have := hz
    rw [Matrix.det_fromBlocks_zero₂₁, Matrix.det_zero, mul_zero]

/-- non-vacuity: reference DOF with `Krr = 1`, one other DOF `Koo = 1`, `Kor = Kro = -1` (a unit
spring), one zero-stiffness DOF: the hypothesis holds with `Ro = 1`, `Rz` arbitrary. -/
example : Matrix.fromBlocks (Matrix.fromBlocks !![(1 : ℚ)] !![(-1 : ℚ)] !![(-1 : ℚ)] !![(1 : ℚ)]) 0 0
      (0 : Matrix (Fin 1) (Fin 1) ℚ) *
    Matrix.fromRows (Matrix.fromRows (1 : Matrix (Fin 1) (Fin 1) ℚ) !![(1 : ℚ)]) !![(7 : ℚ)] = 0 := by
  rw [Matrix.fromBlocks_mul_fromRows, Matrix.fromBlocks_mul_fromRows]
  have e1 : !![(1 : ℚ)] * (1 : Matrix (Fin 1) (Fin 1) ℚ) + !![(-1 : ℚ)] * !![(1 : ℚ)] = 0 := by
    ext i j; fin_cases i; fin_cases j; simp
  have e2 : !![(-1 : ℚ)] * (1 : Matrix (Fin 1) (Fin 1) ℚ) + !![(1 : ℚ)] * !![(1 : ℚ)] = 0 := by
    ext i j; fin_cases i; fin_cases j; simp
  simp only [e1, e2, Matrix.zero_mul, add_zero, Matrix.fromRows_zero]

/-- the reference DOF after trimming (`refpoint_bool[nz].nonzero()[0]`): position `t` of the kept
list is returned exactly when the kept DOF `keep[t]` is a reference DOF -/
theorem trimRef_spec (keep ref : List Nat) (t : Nat) :
    t ∈ trimRef keep ref ↔ ∃ h : t < keep.length, keep[t] ∈ ref := by
  unfold trimRef
  rw [mem_idxWhere]
  constructor
  · rintro ⟨s, hs, rfl, hl⟩
    have hs' : s < keep.length := by simpa using hs
    refine ⟨by simpa using hs', ?_⟩
    simpa using hl
  · rintro ⟨ht, hm⟩
    exact ⟨t, by simpa using ht, by simp, by simpa using hm⟩

example : trimRef [0, 1, 2, 3, 4, 5, 6, 7, 8, 12] [12, 0, 1, 2, 3, 4] = [0, 1, 2, 3, 4, 9] := by decide

end trim

end PyYetiVerif.C06
