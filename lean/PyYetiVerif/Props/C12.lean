import PyYetiVerif.Lemmas.NasFloat
import PyYetiVerif.Lemmas.NasCards
/-!
# C12 — Nastran number fields: exact width, best precision; cards round-trip

Property theorems only.  The models (`Model/PyFloat`, `Model/NasFloat`, `Model/NasCards`) are tied
to `pyyeti/nastran/bulk.py` by (a) the translator `harness/translate/c12_nasfloat.py`, which
regenerates `Generated/NasFloatTables.lean` (the decade if-chains of `format_float8/16` and the
constants of the scientific helpers) on every run — the model *interprets* those tables, and
`table_rows_ok` is re-proved by `decide` on what the source says now — and (b) the exact string
correspondence of `harness/props/c12.py`.

A number is a fraction `± num / den` (`PyFloat.Dbl`); the theorems hold for every such fraction
(all rationals), of which the finite doubles are a subset.
-/
namespace PyYetiVerif.C12
open PyYetiVerif.PyFloat PyYetiVerif.NasFloat PyYetiVerif.Generated.NasFloat

/-- Every fixed-notation row of the generated 8- and 16-wide tables satisfies the width side
condition `RowOK` (bound `10^k`, full field `σ + k + 1 + p = W`, so `p` is the largest precision
that fits), the rows tile the line decade by decade without gap or overlap, and the final branches
start at the carry guard `10·B − ½`. -/
theorem table_rows_ok :
    TableOK 8 pos8 neg8 posLast8 negLast8 ∧ TableOK 16 pos16 neg16 posLast16 negLast16 := by
  decide

/-- Width of a fixed-notation branch, for every row satisfying `RowOK` and every fraction
`x = ± num/den` below the row's bound: the branch of `format_floatW` emits exactly `W`
characters — also when rounding carries into the next decade (`9.9999996 → 10.`). -/
theorem fixed_branch_width (W : Nat) (c : Sci) (neg : Bool) (r : Row) (hr : RowOK W neg r)
    (x : Dbl) (hneg : x.neg = neg) (hx : x.num * r.den < r.num * x.den) :
    (rowBody W c neg r x).length = W :=
  rowBody_length W c neg r hr x hneg hx

/-- The same over ℚ, as planned in DESIGN.md (Appendix A): for every rational `x` of the row's sign
with `|x| <` the row's bound. -/
theorem fixed_branch_width_rat (W : Nat) (c : Sci) (neg : Bool) (r : Row) (hr : RowOK W neg r)
    (x : ℚ) (hneg : decide (x < 0) = neg) (hx : |x| < (r.num : ℚ) / (r.den : ℚ)) :
    (rowBody W c neg r (ofRat x)).length = W := by
  have hd : r.den = 1 := hr.2.1
  apply rowBody_length W c neg r hr (ofRat x) hneg
  rw [hd] at hx ⊢
  simp only [Nat.cast_one, div_one] at hx
  exact rat_bound x r.num hx

/-- …in particular for the rows of the tables extracted from the source. -/
theorem fixed_branch_width_tables (x : Dbl) :
    (∀ r ∈ pos8, isFixed r = true → x.neg = false → x.num * r.den < r.num * x.den →
      (rowBody 8 sci8 false r x).length = 8) ∧
    (∀ r ∈ neg8, isFixed r = true → x.neg = true → x.num * r.den < r.num * x.den →
      (rowBody 8 sci8 true r x).length = 8) ∧
    (∀ r ∈ pos16, isFixed r = true → x.neg = false → x.num * r.den < r.num * x.den →
      (rowBody 16 sci16 false r x).length = 16) ∧
    (∀ r ∈ neg16, isFixed r = true → x.neg = true → x.num * r.den < r.num * x.den →
      (rowBody 16 sci16 true r x).length = 16) := by
  obtain ⟨⟨p8, n8, _⟩, ⟨p16, n16, _⟩⟩ := table_rows_ok
  exact ⟨fun r hr hf hn hx => fixed_branch_width 8 _ false r (p8 r hr hf) x hn hx,
    fun r hr hf hn hx => fixed_branch_width 8 _ true r (n8 r hr hf) x hn hx,
    fun r hr hf hn hx => fixed_branch_width 16 _ false r (p16 r hr hf) x hn hx,
    fun r hr hf hn hx => fixed_branch_width 16 _ true r (n16 r hr hf) x hn hx⟩

/-- non-vacuity: the hypotheses are inhabited — the `(-10, -1]` row of the 8-wide table at
`x = -9.999996` (a value that rounds to the next power of ten). -/
example : ∃ r ∈ neg8, ∃ x : Dbl, isFixed r = true ∧ RowOK 8 true r ∧ x.neg = true ∧
    x.num * r.den < r.num * x.den ∧ (rowBody 8 sci8 true r x).length = 8 :=
  ⟨⟨10, 1, true, 5, 2, 0, 1⟩, by decide, ⟨true, 9999996, 1000000⟩, by decide, by decide, rfl, by decide,
    fixed_branch_width 8 sci8 true _ (by decide) _ rfl (by decide)⟩

/-- Accuracy of the rounding step of a fixed-notation branch (`'%.pf'`): the integer `N` whose
digits are printed satisfies `|N/10^p − num/den| ≤ ½·10^{-p}` (stated without division).
[partial: that `strip`/`replace`/`nas_sscanf` preserve the value of the digits is established by
the correspondence and the oracle, not proved.] -/
theorem fixed_branch_accuracy_partial (p : Nat) (x : Dbl) (hden : 0 < x.den) :
    let N := rheDiv (x.num * 10 ^ p) x.den
    2 * (N * x.den) ≤ 2 * (x.num * 10 ^ p) + x.den ∧ 2 * (x.num * 10 ^ p) ≤ 2 * (N * x.den) + x.den :=
  rheDiv_err _ _ hden

/-- Below the carry guard `M − ½` (`M = 10^(W-2)`) the integer written by the final negative
branch, `int(round(x, 0))`, stays below `M`: it has at most `W − 2` digits, so `-ddddddd.` fits. -/
theorem carry_guard_sound (x : Dbl) (M : Nat) (hM : 1 ≤ M) (h : 2 * x.num < (2 * M - 1) * x.den) :
    (roundInt x).natAbs < M := by
  have := rheDiv_lt_of_lt_half x.num x.den M hM h
  unfold roundInt
  split_ifs <;> simpa using this

/-! ## cards -/
section cards
open PyYetiVerif.NasCards

/-- an integer field written by `wtcardW` (`f"{n:Wd}"`) is read back by the card reader as the same
integer, for every integer and every width. -/
theorem int_field_roundtrip (W : Nat) (fmt : Dbl → Str) (n : Int) :
    cardVal (enc W fmt (.int n)) = .int n := by
  simp [cardVal, enc, nasSscanf_int_field]

/-- a blank field (and the empty string) is read back as the blank value `""`. -/
theorem blank_field_roundtrip (W : Nat) (fmt : Dbl → Str) :
    cardVal (enc W fmt .blank) = .str [] ∧ cardVal (enc W fmt (.str [])) = .str [] := by
  constructor <;> simp [enc, cardVal_blank]

/-- One physical line, any field width `n`: the reader's `while j <= 72 - n and length > j` loop
applied to `name field ++ f₁ ++ … ++ f_k` (each `fᵢ` exactly `n` wide, the line within 72 columns)
returns exactly `k` values, the `i`-th read from `fᵢ` — no field is skipped, split or read twice. -/
theorem line_roundtrip (n : Nat) (hn : 0 < n) (pre : Str) (hpre : pre.length = 8) (fs : List Str)
    (hfs : ∀ f ∈ fs, f.length = n) (hfit : 8 + fs.length * n ≤ 72) :
    fieldsOf n (pre ++ fs.flatten) (pre ++ fs.flatten).length = fs.map cardVal := by
  have hlen : (pre ++ fs.flatten).length = 8 + fs.length * n := by
    rw [List.length_append, hpre]
    congr 1
    induction fs with
    | nil => simp
    | cons f rest ih =>
      have hf := hfs f List.mem_cons_self
      have := ih (fun g hg => hfs g (List.mem_cons_of_mem _ hg))
        (by simp only [List.length_cons] at hfit; nlinarith)
      simp only [List.flatten_cons, List.length_append, List.length_cons, this, hf]; ring
  rw [hlen]
  unfold fieldsOf
  apply fieldsLoop_flatten n hn _ fs hfs 8 72 _ hfit
  · have : fs.length * n ≤ 64 := by omega
    have : fs.length * 1 ≤ fs.length * n := Nat.mul_le_mul_left _ hn
    omega
  · rw [← hpre, List.drop_left]

/-- [partial] A small-field card of at most eight data fields (one physical line): `wtcard8` writes
`name field ++ fields ++ "\n"` and the reader's field loop returns the fields one for one.
Missing for the full `card_roundtrip` (established by the exact correspondence only): the
right-strip of the physical line (trailing blanks are dropped), continuation lines with their
blank padding, card-name matching, the large-field line structure and the comma form. -/
theorem card_line_roundtrip_partial (name : Str) (hname : name.length ≤ 8) (toks : List Tok)
    (hlen : toks.length ≤ 8) (hw : ∀ t ∈ toks, (enc 8 formatFloat8 t).length = 8) :
    let line := ljust 8 name ++ (toks.map (enc 8 formatFloat8)).flatten
    wtcard8 name toks = some (line ++ ['\n']) ∧
      fieldsOf 8 line line.length = toks.map fun t => cardVal (enc 8 formatFloat8 t) := by
  intro line
  constructor
  · have : ¬ name.length > 8 := by omega
    simp [wtcard8, this, line, body8_flatten formatFloat8 toks 0 (by omega)]
  · have h := line_roundtrip 8 (by norm_num) (ljust 8 name) (by simp [ljust]; omega)
      (toks.map (enc 8 formatFloat8)) (by
        intro f hf
        obtain ⟨t, ht, rfl⟩ := List.mem_map.1 hf
        exact hw t ht) (by simp only [List.length_map]; omega)
    rw [List.map_map] at h
    exact h

/-- non-vacuity: the hypotheses of `card_line_roundtrip_partial` hold for integer and blank fields
that fit the field. -/
example : ∀ t ∈ [Tok.int 101, Tok.blank, Tok.int (-7)], (enc 8 formatFloat8 t).length = 8 := by
  intro t ht
  simp only [List.mem_cons, List.mem_nil_iff, or_false] at ht
  rcases ht with rfl | rfl | rfl
  · have : (intStr 101).length ≤ 8 := by
      have := natDigits_length_le 2 101 (by norm_num); simp [intStr]; omega
    simp [enc, rjust]; omega
  · simp [enc]
  · have : (intStr (-7)).length ≤ 8 := by
      have := natDigits_length_le 0 7 (by norm_num); simp [intStr]; omega
    simp [enc, rjust]; omega

end cards

end PyYetiVerif.C12
