import PyYetiVerif.Lemmas.NasFloat
import PyYetiVerif.Lemmas.NasFloatRat
import PyYetiVerif.Lemmas.NasFloatLast
import PyYetiVerif.Lemmas.NasFloatChain
import PyYetiVerif.Lemmas.NasCards
import PyYetiVerif.Lemmas.NasCardsTrip
import PyYetiVerif.Lemmas.NasCardsLarge
import PyYetiVerif.Lemmas.NasCardsComma
/-!
# C12 — Nastran number fields: exact width, best precision; cards round-trip

Property theorems only.  The models (`Model/PyFloat`, `Model/NasFloat`, `Model/NasCards`) are tied
to `pyyeti/nastran/bulk.py` by (a) the translator `harness/translate/c12_nasfloat.py`, which
regenerates `Generated/NasFloatTables.lean` (the decade if-chains of `format_float8/16` and the
constants of the scientific helpers) on every run — the model *interprets* those tables, and
`table_rows_ok` is re-proved by `decide` on what the source says now — and (b) the exact string
correspondence of `harness/props/c12.py`.

A number is a fraction `± num / den` (`PyFloat.Dbl`); the theorems hold for every such fraction
(all rationals), of which the finite doubles are a subset.
-/
namespace PyYetiVerif.C12
open PyYetiVerif.PyFloat PyYetiVerif.NasFloat PyYetiVerif.Generated.NasFloat

/-- Every fixed-notation row of the generated 8- and 16-wide tables satisfies the width side
condition `RowOK` (bound `10^k`, full field `σ + k + 1 + p = W`, so `p` is the largest precision
that fits), the rows tile the line decade by decade without gap or overlap, and the final branches
start at the carry guard `10·B − ½`. -/
theorem table_rows_ok :
    TableOK 8 pos8 neg8 posLast8 negLast8 ∧ TableOK 16 pos16 neg16 posLast16 negLast16 := by
  decide

/-- Width of a fixed-notation branch, for every row satisfying `RowOK` and every fraction
`x = ± num/den` below the row's bound: the branch of `format_floatW` emits exactly `W`
characters — also when rounding carries into the next decade (`9.9999996 → 10.`). -/
theorem fixed_branch_width (W : Nat) (c : Sci) (neg : Bool) (r : Row) (hr : RowOK W neg r)
    (x : Dbl) (hneg : x.neg = neg) (hx : x.num * r.den < r.num * x.den) :
    (rowBody W c neg r x).length = W :=
  rowBody_length W c neg r hr x hneg hx

/-- The same over ℚ, as planned in DESIGN.md (Appendix A): for every rational `x` of the row's sign
with `|x| <` the row's bound. -/
theorem fixed_branch_width_rat (W : Nat) (c : Sci) (neg : Bool) (r : Row) (hr : RowOK W neg r)
    (x : ℚ) (hneg : decide (x < 0) = neg) (hx : |x| < (r.num : ℚ) / (r.den : ℚ)) :
    (rowBody W c neg r (ofRat x)).length = W := by
  have hd : r.den = 1 := hr.2.1
  apply rowBody_length W c neg r hr (ofRat x) hneg
  rw [hd] at hx ⊢
  simp only [Nat.cast_one, div_one] at hx
  exact rat_bound x r.num hx

/-- …in particular for the rows of the tables extracted from the source. -/
theorem fixed_branch_width_tables (x : Dbl) :
    (∀ r ∈ pos8, isFixed r = true → x.neg = false → x.num * r.den < r.num * x.den →
      (rowBody 8 sci8 false r x).length = 8) ∧
    (∀ r ∈ neg8, isFixed r = true → x.neg = true → x.num * r.den < r.num * x.den →
      (rowBody 8 sci8 true r x).length = 8) ∧
    (∀ r ∈ pos16, isFixed r = true → x.neg = false → x.num * r.den < r.num * x.den →
      (rowBody 16 sci16 false r x).length = 16) ∧
    (∀ r ∈ neg16, isFixed r = true → x.neg = true → x.num * r.den < r.num * x.den →
      (rowBody 16 sci16 true r x).length = 16) := by
  obtain ⟨⟨p8, n8, _⟩, ⟨p16, n16, _⟩⟩ := table_rows_ok
  exact ⟨fun r hr hf hn hx => fixed_branch_width 8 _ false r (p8 r hr hf) x hn hx,
    fun r hr hf hn hx => fixed_branch_width 8 _ true r (n8 r hr hf) x hn hx,
    fun r hr hf hn hx => fixed_branch_width 16 _ false r (p16 r hr hf) x hn hx,
    fun r hr hf hn hx => fixed_branch_width 16 _ true r (n16 r hr hf) x hn hx⟩

/-- non-vacuity: the hypotheses are inhabited — the `(-10, -1]` row of the 8-wide table at
`x = -9.999996` (a value that rounds to the next power of ten). -/
example : ∃ r ∈ neg8, ∃ x : Dbl, isFixed r = true ∧ RowOK 8 true r ∧ x.neg = true ∧
    x.num * r.den < r.num * x.den ∧ (rowBody 8 sci8 true r x).length = 8 :=
  ⟨⟨10, 1, true, 5, 2, 0, 1⟩, by decide, ⟨true, 9999996, 1000000⟩, by decide, by decide, rfl, by decide,
    fixed_branch_width 8 sci8 true _ (by decide) _ rfl (by decide)⟩

/-! ## the reader on emitted fields -/

/-- `nas_sscanf` on the grammar of emitted real fields (`Spec/NasFloatField`:
`' '* [-] digit* '.' digit* [[D](+|-)digit+]`, at least one mantissa digit, exponent ≤ 5000): every
well-formed field, with any left padding, is read as a *real* (never as an integer, a string or a
blank) — the double nearest (ties to even) to the decimal `± ip.fp · 10^{±exp}` the field denotes.
Covers the `d → e` rewriting and the sign-as-exponent rewriting `s[0] + s[1:].replace("+","e+")
.replace("-","e-")` (`1.5-3`, `-1.5+10`, `.5-3`, `1.D+0`). -/
theorem sscanf_parses_field (f : Fld) (hwf : f.wf = true) (pad : Nat) (k : Bool) :
    nasSscanf (List.replicate pad ' ' ++ f.text) k = .flt (toBits f.dec.1 f.dec.2.1 f.dec.2.2) :=
  nasSscanf_field f hwf pad k

/-- the same with the grammar as a decidable predicate on strings: whatever the recogniser
`fieldOf?` accepts is read as the real nearest to the decimal of the recognised field. -/
theorem sscanf_parses_recognised (s : Str) (f : Fld) (h : fieldOf? s = some f) (k : Bool) :
    nasSscanf s k = .flt (toBits f.dec.1 f.dec.2.1 f.dec.2.2) :=
  nasSscanf_of_fieldOf? s f h k

/-- non-vacuity: `1.5-3`, `-1.235+7` (sign as exponent), `1.2345678D+0`, `-.5` are in the grammar -/
example : (fieldOf? "   1.5-3".toList).isSome ∧ (fieldOf? "-1.235+7".toList).isSome ∧
    (fieldOf? "    1.2345678D+0".toList).isSome ∧ (fieldOf? "     -.5".toList).isSome ∧
    fieldOf? "     123".toList = none ∧ fieldOf? "GRID".toList = none := by decide

/-! ## fixed-notation branches end to end -/

/-- **Accuracy of a fixed-notation branch, end to end.**  For a row satisfying `RowOK` and every
fraction `x = ± num/den` of the row's sign with `10^-p ≤ |x|` (one unit of the last decimal), the
branch emits a well-formed field `f` of the grammar, right-justified (`strip(" 0")`,
`replace("-0.", "-.")` preserve the value of the printed digits); `nas_sscanf` reads the emitted
text back as the real nearest to the decimal of `f`; and that decimal is within half a unit of the
last decimal of `x`: `|field − x| ≤ ½·10^-p`. -/
theorem fixed_branch_accuracy (W : Nat) (c : Sci) (neg : Bool) (r : Row) (hr : RowOK W neg r)
    (x : Dbl) (hneg : x.neg = neg) (hden : 0 < x.den) (hlo : x.den ≤ x.num * 10 ^ r.prec) (k : Bool) :
    ∃ f : Fld, f.wf = true ∧ f.ex = none ∧ f.neg = neg ∧ f.fp.length ≤ r.prec ∧
      rowBody W c neg r x = rjust W f.text ∧
      nasSscanf (rowBody W c neg r x) k = .flt (toBits f.dec.1 f.dec.2.1 f.dec.2.2) ∧
      |decRat f.dec - dblRat x| ≤ 1 / 2 * (10 : ℚ) ^ (-(r.prec : Int)) := by
  simp only [RowOK] at hr
  obtain ⟨_, _, _, hp, hk3, hkind, _⟩ := hr
  have hkind' : r.kind = 2 ∨ (r.kind = 3 ∧ neg = true) := by
    rcases hkind with h | h
    · exact Or.inl h
    · exact Or.inr ⟨h, (hk3.1 h).1⟩
  have hshape := rowBody_shape W c neg r hp hkind' x hneg
  have hN : 0 < rheDiv (x.num * 10 ^ r.prec) x.den :=
    rheDiv_ge _ _ 1 hden (by simpa using hlo)
  refine ⟨_, fixedFld_wf _ _ _ _ hN, rfl, rfl, (fixedFld_val _ _ _ _).1, hshape, ?_,
    fixed_rat_err neg _ r.prec x hden hneg⟩
  rw [hshape, rjust]
  exact nasSscanf_field _ (fixedFld_wf _ _ _ _ hN) _ k

/-- **`p` is the largest precision that fits**: no fixed-notation field `[-]ip.fp` of at most `W`
characters for a number of the row's sign with `k` integer digits (`10^(k-1) ≤ ip`, `k` the row's
decade) carries more than the row's `p` decimals — so the half unit `½·10^-p` of
`fixed_branch_accuracy` is the best a `W`-wide fixed-notation field can do. -/
theorem fixed_precision_maximal (W : Nat) (neg : Bool) (r : Row) (hr : RowOK W neg r) (f : Fld)
    (hwf : f.wf = true) (hex : f.ex = none) (hneg : f.neg = neg) (hlen : f.text.length ≤ W)
    (hdec : 10 ^ (W - ((if neg then 1 else 0) + 1 + r.prec)) ≤ 10 * digitsVal f.ip) :
    f.fp.length ≤ r.prec := by
  simp only [RowOK] at hr
  obtain ⟨hW, _, _, _, _, _, _⟩ := hr
  obtain ⟨hip, _, _, _⟩ := wf_parts f hwf
  have hlt := digitsVal_lt f.ip hip
  have hk : W - ((if neg then 1 else 0) + 1 + r.prec) ≤ f.ip.length := by
    by_contra hcon
    have h1 : f.ip.length + 1 ≤ W - ((if neg then 1 else 0) + 1 + r.prec) := by omega
    have h2 : 10 ^ (f.ip.length + 1) ≤ 10 ^ (W - ((if neg then 1 else 0) + 1 + r.prec)) :=
      Nat.pow_le_pow_right (by norm_num) h1
    rw [pow_succ] at h2
    omega
  have htext : f.text.length = (if neg then 1 else 0) + f.ip.length + 1 + f.fp.length := by
    rcases f with ⟨fneg, ip, fp, ex⟩
    simp only at hex hneg
    subst hex hneg
    cases fneg <;> simp [Fld.text, Fld.mant, Fld.exText] <;> omega
  omega

/-- non-vacuity: the `[1, 10)` row of the 8-wide positive table at `x = 9.9999996` (a value that
rounds to the next power of ten) satisfies every hypothesis of `fixed_branch_accuracy`. -/
example : ∃ r ∈ pos8, ∃ x : Dbl, RowOK 8 false r ∧ x.neg = false ∧ 0 < x.den ∧
    x.den ≤ x.num * 10 ^ r.prec ∧ x.num * r.den < r.num * x.den :=
  ⟨⟨10, 1, true, 6, 2, 0, 1⟩, by decide, ⟨false, 99999996, 10000000⟩, by decide, rfl, by decide,
    by decide, by decide⟩

/-! ## scientific fall-backs -/

/-- the constants of `_format_scientific8`, `_format_scientific16`, `format_double16` as extracted
from the source satisfy `SciOK`: the field fills the width exactly for either sign and 1–3 exponent
digits, at least one decimal, first rounding ≥ 2 digits finer than the second, `10^ePrec < 2^50`. -/
theorem sci_consts_ok : SciOK 8 sci8 0 ∧ SciOK 16 sci16 0 ∧ SciOK 16 dbl16 1 := by decide

/-- **Scientific fall-backs: width, grammar, read-back and accuracy** (generic in the constants).
For constants satisfying `SciOK` and every fraction `x` with `10^-999 ≤ |x| < 10^999`, the body
of `_format_scientificW` / `format_double16` returns exactly `W` characters; they are a well-formed
field of the grammar of the sign of `x` (with the `D` mark iff asked for), which `nas_sscanf` reads
back as the real nearest to its decimal; and that decimal is within
`(½·10^-P + ½·10^-q)·10^E` of `x` — half a unit of the last of the `P` decimals the width leaves
for that sign and exponent `E`, plus half a unit of the `q`-decimal first rounding (`q ≥ P + 2`:
the 1 % slack of the two-stage rounding; measured maximum 0.5045 units). -/
theorem sci_width_accuracy (W : Nat) (c : Sci) (dm : Bool) (hc : SciOK W c (if dm then 1 else 0))
    (x : Dbl) (hn : 0 < x.num) (hd : 0 < x.den)
    (hlo : x.den ≤ 10 ^ 999 * x.num) (hhi : x.num < 10 ^ 999 * x.den) (k : Bool) :
    (sciCore W c (if dm then ['D'] else []) x).length = W ∧
    ∃ f : Fld, f.wf = true ∧ sciCore W c (if dm then ['D'] else []) x = rjust W f.text ∧
      f.neg = x.neg ∧ (∃ e, f.ex = some e ∧ e.dmark = dm) ∧
      nasSscanf (sciCore W c (if dm then ['D'] else []) x) k =
        .flt (toBits f.dec.1 f.dec.2.1 f.dec.2.2) ∧
      |decRat f.dec - dblRat x| ≤
        (1 / 2 * (10 : ℚ) ^ (-(sciPrec c x.neg (natDigits f.expVal.natAbs).length : Int)) +
          1 / 2 * (10 : ℚ) ^ (-(c.ePrec : Int))) * (10 : ℚ) ^ f.expVal := by
  obtain ⟨f, hwf, hshape, hlen, hneg, _, _, hex, hacc⟩ := sciCore_main W c dm hc x hn hd hlo hhi
  refine ⟨?_, f, hwf, hshape, hneg, hex, ?_, hacc⟩
  · rw [hshape]; exact rjust_length_of_le _ _ hlen
  · rw [hshape, rjust]; exact nasSscanf_field f hwf _ k

/-- `_format_scientific8`, `_format_scientific16` and `format_double16` themselves (zero included:
`0.` / `0.D+0`): exactly 8 / 16 / 16 characters for every fraction with `10^-999 ≤ |x| < 10^999`
or `x = 0`. -/
theorem sci_width (x : Dbl) (hd : 0 < x.den)
    (hr : x.num = 0 ∨ (x.den ≤ 10 ^ 999 * x.num ∧ x.num < 10 ^ 999 * x.den)) :
    (formatScientific8 x).length = 8 ∧ (formatScientific16 x).length = 16 ∧
      (formatDouble16 x).length = 16 := by
  obtain ⟨h8, h16, hd16⟩ := sci_consts_ok
  rcases Nat.eq_zero_or_pos x.num with h0 | hn
  · have hz : x.isZero = true := by simp [Dbl.isZero, h0]
    simp [formatScientific8, formatScientific16, formatScientific, formatDouble16, hz, rjust]
  · have hz : x.isZero = false := by
      have : x.num ≠ 0 := by omega
      simp [Dbl.isZero, this]
    rcases hr with h0 | ⟨hlo, hhi⟩
    · omega
    · refine ⟨?_, ?_, ?_⟩
      · simpa [formatScientific8, formatScientific, hz] using
          (sci_width_accuracy 8 sci8 false h8 x hn hd hlo hhi true).1
      · simpa [formatScientific16, formatScientific, hz] using
          (sci_width_accuracy 16 sci16 false h16 x hn hd hlo hhi true).1
      · simpa [formatDouble16, hz] using
          (sci_width_accuracy 16 dbl16 true hd16 x hn hd hlo hhi true).1

/-- non-vacuity: `x = 99999.6` (rounds up to the next power of ten in both stages) and
`x = -1.5e-100` (three exponent digits) satisfy the hypotheses. -/
example : ∃ x y : Dbl, 0 < x.num ∧ 0 < x.den ∧ x.den ≤ 10 ^ 999 * x.num ∧ x.num < 10 ^ 999 * x.den ∧
    0 < y.num ∧ 0 < y.den ∧ y.den ≤ 10 ^ 999 * y.num ∧ y.num < 10 ^ 999 * y.den ∧ y.neg = true ∧
    (formatScientific8 x).length = 8 ∧ (formatDouble16 y).length = 16 :=
  ⟨⟨false, 999996, 10⟩, ⟨true, 15, 10 ^ 101⟩, by decide, by decide, by decide +kernel,
    by decide +kernel, by decide, by decide +kernel, by decide +kernel, by decide +kernel, rfl,
    (sci_width _ (by decide) (Or.inr ⟨by decide +kernel, by decide +kernel⟩)).1,
    (sci_width _ (by decide +kernel) (Or.inr ⟨by decide +kernel, by decide +kernel⟩)).2.2⟩

/-! ## the small-magnitude mixed branches and the final integer branches -/

/-- **Small-magnitude mixed branch, positive chain** (`value < 0.001`: scientific field, or
`.000ddd` when that is as wide at most and reads back as the same double).  For every positive
fraction in `10^-999 ≤ x < 10^999` (and, where the 8-wide formatter's final `strip(" 0")` applies,
`10^-9 ≤ x < 10^-1`: the exponent is one non-zero digit) the branch returns exactly `W`
characters, a well-formed field that `nas_sscanf` reads back as the real nearest to its decimal;
the field is either the scientific field of `sci_width_accuracy` (same bound) or the fixed field
of precision `p` (within `½·10^-p` of `x`). -/
theorem small_branch_pos (W p : Nat) (c : Sci) (hc : SciOK W c 0) (hp : 1 ≤ p) (x : Dbl)
    (hneg : x.neg = false) (hn : 0 < x.num) (hd : 0 < x.den)
    (hlo : x.den ≤ 10 ^ 999 * x.num) (hhi : x.num < 10 ^ 999 * x.den)
    (h8 : W = 8 → x.den ≤ 10 ^ 9 * x.num ∧ x.num * 10 ^ 1 < x.den) (k : Bool) :
    (smallPos W p c x).length = W ∧
    ∃ f : Fld, f.wf = true ∧ smallPos W p c x = rjust W f.text ∧
      nasSscanf (smallPos W p c x) k = .flt (toBits f.dec.1 f.dec.2.1 f.dec.2.2) ∧
      (sciCore W c [] x = rjust W f.text ∨
        (f = fixedFld false true p (rheDiv (x.num * 10 ^ p) x.den) ∧
          |decRat f.dec - dblRat x| ≤ 1 / 2 * (10 : ℚ) ^ (-(p : Int)))) := by
  obtain ⟨f, hwf, hlen, hshape, hcase⟩ := smallPos_good W p c hc hp x hneg hn hd hlo hhi h8
  refine ⟨by rw [hshape]; exact rjust_length_of_le _ _ hlen, f, hwf, hshape, ?_, ?_⟩
  · rw [hshape, rjust]; exact nasSscanf_field f hwf _ k
  · rcases hcase with h | h
    · exact Or.inl h
    · exact Or.inr ⟨h, by rw [h]; exact fixed_rat_err false true p x hd hneg⟩

/-- **Small-magnitude mixed branch, negative chain** (`value > -0.01`: scientific field, or
`-.000ddd` when that is as wide at most and reads back as the same double).  For every negative
fraction in range with `|x| ≥ 10^-(p+1)` (`p`, `p+1` not multiples of ten: `tables_format_ok`) the
branch returns exactly `W` characters, a well-formed field read back as the real nearest to its
decimal.  When `x` rounds to zero at precision `p` (`|x| ≤ ½·10^-p`: the double just below the
literal `5e-7` / `5e-15`) the comparison `float(field1) == float("-0.")` is false — the scientific
field does not read as zero (`toBits_nonzero`) — and the scientific field is returned. -/
theorem small_branch_neg (W p : Nat) (c : Sci) (hc : SciOK W c 0) (hp : 1 ≤ p) (hp2 : p + 1 ≤ 250)
    (hpd : p % 10 ≠ 0 ∧ (p + 1) % 10 ≠ 0) (x : Dbl)
    (hneg : x.neg = true) (hn : 0 < x.num) (hd : 0 < x.den)
    (hlo : x.den ≤ 10 ^ 999 * x.num) (hhi : x.num < 10 ^ 999 * x.den)
    (hlow : x.den ≤ 10 ^ (p + 1) * x.num)
    (h8 : W = 8 → x.den ≤ 10 ^ 9 * x.num ∧ x.num * 10 ^ 1 < x.den) (k : Bool) :
    (smallNeg W p c x).length = W ∧
    ∃ f : Fld, f.wf = true ∧ smallNeg W p c x = rjust W f.text ∧
      nasSscanf (smallNeg W p c x) k = .flt (toBits f.dec.1 f.dec.2.1 f.dec.2.2) ∧
      (sciCore W c [] x = rjust W f.text ∨
        (f = fixedFld true true p (rheDiv (x.num * 10 ^ p) x.den) ∧
          |decRat f.dec - dblRat x| ≤ 1 / 2 * (10 : ℚ) ^ (-(p : Int)))) := by
  obtain ⟨f, hwf, hlen, hshape, hcase⟩ := smallNeg_good W p c hc hp hp2 hpd x hneg hn hd hlo hhi hlow h8
  refine ⟨by rw [hshape]; exact rjust_length_of_le _ _ hlen, f, hwf, hshape, ?_, ?_⟩
  · rw [hshape, rjust]; exact nasSscanf_field f hwf _ k
  · rcases hcase with h | h
    · exact Or.inl h
    · exact Or.inr ⟨h, by rw [h]; exact fixed_rat_err true true p x hd hneg⟩

/-- **Final branches** (`dddddddd.` and `-ddddddd.`): below the carry guard (`x < 10^(W-1) − ½`,
resp. `|x| < 10^(W-2) − ½`: `table_rows_ok` shows the guards of the tables are these) the branch
returns exactly `W` characters, the rounded integer with a decimal point — a well-formed field
read back as a real, within half a unit of `x`. -/
theorem last_branches (W : Nat) (c : Sci) (hW : 3 ≤ W) (x : Dbl) (hd : 0 < x.den) (k : Bool) :
    (x.neg = false → 2 * x.num < (2 * 10 ^ (W - 1) - 1) * x.den →
      (lastPos W c (1, 1) x).length = W ∧
      ∃ f : Fld, f.wf = true ∧ lastPos W c (1, 1) x = rjust W f.text ∧
        nasSscanf (lastPos W c (1, 1) x) k = .flt (toBits f.dec.1 f.dec.2.1 f.dec.2.2) ∧
        |decRat f.dec - dblRat x| ≤ 1 / 2) ∧
    (x.neg = true → 2 * x.num < (2 * 10 ^ (W - 2) - 1) * x.den →
      (lastNeg W c (1, W - 1) x).length = W ∧
      ∃ f : Fld, f.wf = true ∧ lastNeg W c (1, W - 1) x = rjust W f.text ∧
        nasSscanf (lastNeg W c (1, W - 1) x) k = .flt (toBits f.dec.1 f.dec.2.1 f.dec.2.2) ∧
        |decRat f.dec - dblRat x| ≤ 1 / 2) := by
  constructor
  · intro hneg hg
    obtain ⟨fp, hfp, hshape, hlen⟩ := lastPos_shape W c (by omega) x hneg hd hg
    have hwf := intFld_wf false (rheDiv x.num x.den) fp hfp
    refine ⟨by rw [hshape]; exact rjust_length_of_le _ _ hlen, _, hwf, hshape, ?_,
      int_rat_err false x hd hneg fp hfp⟩
    rw [hshape, rjust]; exact nasSscanf_field _ hwf _ k
  · intro hneg hg
    obtain ⟨hshape, hlen⟩ := lastNeg_shape W c hW x hneg hd hg
    have hrabs : (roundInt x).natAbs = rheDiv x.num x.den := by
      unfold roundInt; simp [hneg]
    have hwf := intFld_wf (decide (roundInt x < 0)) (roundInt x).natAbs [] (Or.inl rfl)
    refine ⟨by rw [hshape]; exact rjust_length_of_le _ _ hlen, _, hwf, hshape, ?_, ?_⟩
    · rw [hshape, rjust]; exact nasSscanf_field _ hwf _ k
    · -- the sign written is that of the rounded integer: `-0` is written `0.`
      rw [hrabs]
      by_cases hr0 : rheDiv x.num x.den = 0
      · have hz : roundInt x = 0 := by unfold roundInt; simp [hneg, hr0]
        have hr := rheDiv_rat x.num x.den hd
        rw [hr0] at hr ⊢
        rw [intFld_rat _ 0 [] (Or.inl rfl)]
        unfold dblRat
        rw [hneg]
        simp only [Nat.cast_zero, mul_zero, if_true, zero_sub] at hr ⊢
        rw [abs_neg] at hr ⊢
        simpa using hr
      · have hlt : roundInt x < 0 := by
          unfold roundInt; simp [hneg]; omega
        have : decide (roundInt x < 0) = true := by simpa using hlt
        rw [this]
        exact int_rat_err true x hd hneg [] (Or.inl rfl)

/-- non-vacuity: `x = 0.0005` in the 8-wide mixed branch (precision 7), `x = -0.0005` in the
negative one (precision 6), `x = 1234567.4` and `x = -123456.4` in the final branches. -/
example : (∃ x : Dbl, x.neg = false ∧ 0 < x.num ∧ 0 < x.den ∧ x.den ≤ 10 ^ 999 * x.num ∧
      x.num < 10 ^ 999 * x.den ∧ x.den ≤ 10 ^ 9 * x.num ∧ x.num * 10 ^ 1 < x.den) ∧
    (∃ x : Dbl, x.neg = true ∧ 0 < x.num ∧ x.den ≤ 10 ^ (6 + 1) * x.num ∧ x.num * 10 ^ 1 < x.den) ∧
    (∃ x : Dbl, x.neg = false ∧ 0 < x.den ∧ 2 * x.num < (2 * 10 ^ (8 - 1) - 1) * x.den) ∧
    (∃ x : Dbl, x.neg = true ∧ 0 < x.den ∧ 2 * x.num < (2 * 10 ^ (8 - 2) - 1) * x.den) :=
  ⟨⟨⟨false, 5, 10000⟩, rfl, by decide, by decide, by decide +kernel, by decide +kernel, by decide,
     by decide⟩,
   ⟨⟨true, 5, 10000⟩, rfl, by decide, by decide, by decide⟩,
   ⟨⟨false, 12345674, 10⟩, rfl, by decide, by decide⟩,
   ⟨⟨true, 1234564, 10⟩, rfl, by decide, by decide⟩⟩

/-! ## the formatters as a whole -/

/-- the decidable side conditions of the if-chain dispatch hold for the tables extracted from the
source: every literal bound as the double the code compares with (sign, exactness of the powers
of ten and of the carry guards), `RowOK` of every fixed-notation row, the lower bound each row
inherits from the failed test before it (`≥ 10^-p`: the row never rounds to zero; `≥ 10^-9` and
`< 10^-1` for the 8-wide mixed rows), the final branches' guards. -/
theorem tables_format_ok :
    FormatOK 8 pos8 neg8 posLast8 negLast8 ∧ FormatOK 16 pos16 neg16 posLast16 negLast16 := by
  decide

/-- **`format_float8` and `format_float16` as a whole** (the if-chains interpreted from the
generated tables, every branch): for every fraction `x` that is zero or has
`10^-999 ≤ |x| < 10^999` — in particular every finite double — the result has exactly 8 / 16
characters, is a well-formed field of the emitted grammar and is read back by `nas_sscanf` as the
real nearest to its decimal.  (The accuracy of each branch is in `fixed_branch_accuracy`,
`sci_width_accuracy`, `small_branch_pos`, `small_branch_neg`, `last_branches`.) -/
theorem format_float_total (x : Dbl) (hd : 0 < x.den)
    (hr : x.num = 0 ∨ (x.den ≤ 10 ^ 999 * x.num ∧ x.num < 10 ^ 999 * x.den)) (k : Bool) :
    ((formatFloat8 x).length = 8 ∧ ∃ f : Fld, f.wf = true ∧ formatFloat8 x = rjust 8 f.text ∧
        nasSscanf (formatFloat8 x) k = .flt (toBits f.dec.1 f.dec.2.1 f.dec.2.2)) ∧
    ((formatFloat16 x).length = 16 ∧ ∃ f : Fld, f.wf = true ∧ formatFloat16 x = rjust 16 f.text ∧
        nasSscanf (formatFloat16 x) k = .flt (toBits f.dec.1 f.dec.2.1 f.dec.2.2)) := by
  obtain ⟨h8, h16⟩ := tables_format_ok
  obtain ⟨s8, s16, _⟩ := sci_consts_ok
  constructor
  · have hg := formatFloat_good 8 sci8 pos8 neg8 posLast8 negLast8 s8 (by norm_num) h8 x hd hr
    have e : formatFloat8 x = (if geZero x then chain 8 sci8 false (lastPos 8 sci8 posLast8) pos8 x
        else chain 8 sci8 true (lastNeg 8 sci8 negLast8) neg8 x) := rfl
    rw [← e] at hg
    exact ⟨hg.length, hg.scan k⟩
  · have hg := formatFloat_good 16 sci16 pos16 neg16 posLast16 negLast16 s16 (by norm_num) h16 x hd hr
    have e : formatFloat16 x = (if geZero x then chain 16 sci16 false (lastPos 16 sci16 posLast16) pos16 x
        else chain 16 sci16 true (lastNeg 16 sci16 negLast16) neg16 x) := rfl
    rw [← e] at hg
    exact ⟨hg.length, hg.scan k⟩

/-- non-vacuity: zero, `x = -4.99999999999999977e-07` (the double just below the literal `5e-7`,
which rounds to zero at the negative mixed branch's precision) and `x = 9999999.4999` satisfy the
hypotheses. -/
example : (∃ x : Dbl, 0 < x.den ∧ x.num = 0) ∧
    (∃ x : Dbl, x.neg = true ∧ 0 < x.den ∧ x.den ≤ 10 ^ 999 * x.num ∧ x.num < 10 ^ 999 * x.den ∧
      2 * (x.num * 10 ^ 6) ≤ x.den ∧ mge x (litDbl 1 2000000)) :=
  ⟨⟨⟨false, 0, 1⟩, by decide, rfl⟩,
   ⟨⟨true, (litDbl 1 2000000).num, (litDbl 1 2000000).den⟩, rfl, by decide +kernel, by decide +kernel,
     by decide +kernel, by decide +kernel, by decide +kernel⟩⟩

/-- Below the carry guard `M − ½` (`M = 10^(W-2)`) the integer written by the final negative
branch, `int(round(x, 0))`, stays below `M`: it has at most `W − 2` digits, so `-ddddddd.` fits. -/
theorem carry_guard_sound (x : Dbl) (M : Nat) (hM : 1 ≤ M) (h : 2 * x.num < (2 * M - 1) * x.den) :
    (roundInt x).natAbs < M := by
  have := rheDiv_lt_of_lt_half x.num x.den M hM h
  unfold roundInt
  split_ifs <;> simpa using this

/-! ## cards -/
section cards
open PyYetiVerif.NasCards

/-- an integer field written by `wtcardW` (`f"{n:Wd}"`) is read back by the card reader as the same
integer, for every integer and every width. -/
theorem int_field_roundtrip (W : Nat) (fmt : Dbl → Str) (n : Int) :
    cardVal (enc W fmt (.int n)) = .int n := by
  simp [cardVal, enc, nasSscanf_int_field]

/-- a blank field (and the empty string) is read back as the blank value `""`. -/
theorem blank_field_roundtrip (W : Nat) (fmt : Dbl → Str) :
    cardVal (enc W fmt .blank) = .str [] ∧ cardVal (enc W fmt (.str [])) = .str [] := by
  constructor <;> simp [enc, cardVal_blank]

/-- One physical line, any field width `n`: the reader's `while j <= 72 - n and length > j` loop
applied to `name field ++ f₁ ++ … ++ f_k` (each `fᵢ` exactly `n` wide, the line within 72 columns)
returns exactly `k` values, the `i`-th read from `fᵢ` — no field is skipped, split or read twice. -/
theorem line_roundtrip (n : Nat) (hn : 0 < n) (pre : Str) (hpre : pre.length = 8) (fs : List Str)
    (hfs : ∀ f ∈ fs, f.length = n) (hfit : 8 + fs.length * n ≤ 72) :
    fieldsOf n (pre ++ fs.flatten) (pre ++ fs.flatten).length = fs.map cardVal := by
  have hlen : (pre ++ fs.flatten).length = 8 + fs.length * n := by
    rw [List.length_append, hpre]
    congr 1
    induction fs with
    | nil => simp
    | cons f rest ih =>
      have hf := hfs f List.mem_cons_self
      have := ih (fun g hg => hfs g (List.mem_cons_of_mem _ hg))
        (by simp only [List.length_cons] at hfit; nlinarith)
      simp only [List.flatten_cons, List.length_append, List.length_cons, this, hf]; ring
  rw [hlen]
  unfold fieldsOf
  apply fieldsLoop_flatten n hn _ fs hfs 8 72 _ hfit
  · have : fs.length * n ≤ 64 := by omega
    have : fs.length * 1 ≤ fs.length * n := Nat.mul_le_mul_left _ hn
    omega
  · rw [← hpre, List.drop_left]

/-- [partial] A small-field card of at most eight data fields (one physical line): `wtcard8` writes
`name field ++ fields ++ "\n"` and the reader's field loop returns the fields one for one.
Missing for the full `card_roundtrip` (established by the exact correspondence only): the
right-strip of the physical line (trailing blanks are dropped), continuation lines with their
blank padding, card-name matching, the large-field line structure and the comma form. -/
theorem card_line_roundtrip_partial (name : Str) (hname : name.length ≤ 8) (toks : List Tok)
    (hlen : toks.length ≤ 8) (hw : ∀ t ∈ toks, (enc 8 formatFloat8 t).length = 8) :
    let line := ljust 8 name ++ (toks.map (enc 8 formatFloat8)).flatten
    wtcard8 name toks = some (line ++ ['\n']) ∧
      fieldsOf 8 line line.length = toks.map fun t => cardVal (enc 8 formatFloat8 t) := by
  intro line
  constructor
  · have : ¬ name.length > 8 := by omega
    simp [wtcard8, this, line, body8_flatten formatFloat8 toks 0 (by omega)]
  · have h := line_roundtrip 8 (by norm_num) (ljust 8 name) (by simp [ljust]; omega)
      (toks.map (enc 8 formatFloat8)) (by
        intro f hf
        obtain ⟨t, ht, rfl⟩ := List.mem_map.1 hf
        exact hw t ht) (by simp only [List.length_map]; omega)
    rw [List.map_map] at h
    exact h

/-- non-vacuity: the hypotheses of `card_line_roundtrip_partial` hold for integer and blank fields
that fit the field. -/
example : ∀ t ∈ [Tok.int 101, Tok.blank, Tok.int (-7)], (enc 8 formatFloat8 t).length = 8 := by
  intro t ht
  simp only [List.mem_cons, List.mem_nil_iff, or_false] at ht
  rcases ht with rfl | rfl | rfl
  · have : (intStr 101).length ≤ 8 := by
      have := natDigits_length_le 2 101 (by norm_num); simp [intStr]; omega
    simp [enc, rjust]; omega
  · simp [enc]
  · have : (intStr (-7)).length ≤ 8 := by
      have := natDigits_length_le 0 7 (by norm_num); simp [intStr]; omega
    simp [enc, rjust]; omega

/-- a string field that is a Nastran name (letter first, no white space inside), left-justified
in any width, is read back as the same string. -/
theorem str_field_roundtrip (W : Nat) (fmt : Dbl → Str) (c0 : Char) (t : Str)
    (hc0 : isLetter c0 = true) (hws : ∀ c ∈ c0 :: t, isWs c = false) :
    cardVal (enc W fmt (.str (c0 :: t))) = .str (c0 :: t) := by
  have : enc W fmt (.str (c0 :: t)) = (c0 :: t) ++ List.replicate (W - (c0 :: t).length) ' ' := by
    simp [enc, ljust]
  rw [this, cardVal, nasSscanf_name c0 t _ hc0 hws]

/-- which formatted fields satisfy the side condition `CardField` of the card theorems: blanks,
integers that fit, names that fit, and every real field of the emitted grammar that fits (by
`fixed_branch_accuracy` / `sci_width_accuracy` the formatters' outputs are of this form). -/
theorem card_fields_ok (W : Nat) (fmt : Dbl → Str) :
    CardField W (enc W fmt .blank) ∧
    (∀ n : Int, (intStr n).length ≤ W → CardField W (enc W fmt (.int n))) ∧
    (∀ s : Str, s ≠ [] → s.length ≤ W → (∀ c ∈ s, isWs c = false ∧ c ≠ '$' ∧ c ≠ ',') →
      CardField W (enc W fmt (.str s))) ∧
    (∀ f : Fld, f.wf = true → f.text.length ≤ W → CardField W (rjust W f.text)) := by
  refine ⟨cardField_blank W, fun n h => cardField_int W fmt n h, ?_, fun f h1 h2 => cardField_fld W f h1 h2⟩
  intro s hne hlen hch
  have : enc W fmt (.str s) = ljust W s := by
    cases s with
    | nil => exact absurd rfl hne
    | cons a t => simp [enc]
  rw [this]
  exact cardField_ljust W s hlen hch

/-- **`card_roundtrip`, small-field form** (`wtcard8`): for every card name (letter first, at most
8 characters, no `*`) and every list of fields — any length, so any number of `+` continuation
lines, blanks anywhere — whose formatted fields are card fields (`card_fields_ok`), the generic
reader finds exactly one card in the written text and, up to trailing blank fields, returns the
name (when kept) followed by the value of every written field, field for field:
`rdcards (wtcard8 fields) = canon fields`.  The exact list (blank padding of continued lines, the
trailing blanks of the last physical line dropped) is `wtcard8_rdcards`. -/
theorem card_roundtrip_small (name : Str) (toks : List Tok) (keep : Bool) (hname : NameOK name)
    (hstar : ∀ c ∈ name, c ≠ '*') (hf : ∀ t ∈ toks, CardField 8 (enc 8 formatFloat8 t)) :
    ∃ text r, wtcard8 name toks = some text ∧ rdcards name keep text = [r] ∧
      dtb r = (if keep then [NasVal.str name] else []) ++
        dtb (toks.map fun t => cardVal (enc 8 formatFloat8 t)) :=
  wtcard8_roundtrip name toks keep hname hstar hf

/-- **`card_roundtrip`, large-field forms** (`wtcard16`, `wtcard16d`): 16-wide fields, four per
line, `*` continuation lines, the `*` in column 73 before every second line break and the final
`*` line that makes the line count even.  For every card name ending in `*` (letter first, at most
8 characters) and every list of fields whose formatted fields are card fields, the generic reader
finds exactly one card and, up to trailing blank fields, returns the name (when kept) followed by
the value of every written field. -/
theorem card_roundtrip_large (name : Str) (toks : List Tok) (keep : Bool) (hname : NameOK name)
    (hstar : name.getLast? = some '*') :
    ((∀ t ∈ toks, CardField 16 (enc 16 formatFloat16 t)) →
      ∃ text r, wtcard16 name toks = some text ∧ rdcards name keep text = [r] ∧
        dtb r = (if keep then [NasVal.str name] else []) ++
          dtb (toks.map fun t => cardVal (enc 16 formatFloat16 t))) ∧
    ((∀ t ∈ toks, CardField 16 (enc 16 formatDouble16 t)) →
      ∃ text r, wtcard16d name toks = some text ∧ rdcards name keep text = [r] ∧
        dtb r = (if keep then [NasVal.str name] else []) ++
          dtb (toks.map fun t => cardVal (enc 16 formatDouble16 t))) :=
  ⟨fun hf => wtcard16_roundtrip formatFloat16 name toks keep hname hstar hf,
   fun hf => wtcard16_roundtrip formatDouble16 name toks keep hname hstar hf⟩

/-- **`card_roundtrip`, free-field (comma) form** (`_rdcomma`): for a card written as
`NAME,f1,…,f8` with continuation lines `+,f9,…` or `,f9,…` (at most 8 tokens per line; tokens
without comma, `$`, newline or white space at their right end; **lines of any length** — the
reader does not cut a free-field line at column 72 or anywhere else), the generic reader finds
exactly one card: the name (when kept) followed by the values of the tokens, every continued line
padded with blanks to 8 fields. -/
theorem card_roundtrip_comma (name : Str) (keep : Bool) (hname : NameOK name) (c0 : List Str)
    (hc0ne : c0 ≠ []) (hc0len : c0.length ≤ 8) (hc0 : ∀ t ∈ c0, TokOK t)
    (conts : List (Str × List Str))
    (hconts : ∀ p ∈ conts, ContOK p.1 p.2 ∧ p.2.length ≤ 8 ∧ ∀ t ∈ p.2, TokOK t) :
    rdcards name keep (commaText name c0 conts) =
      [(if keep then [NasVal.str name] else []) ++
        glue 8 ((c0 :: conts.map Prod.snd).map (List.map cardVal))] :=
  comma_rdcards name keep hname c0 hc0ne hc0len hc0 conts hconts

/-- **fixed-field and free-field forms read identically**: whenever, line by line, the values of
the free-field tokens `ws` and of the fixed fields `vs` agree up to trailing blanks (a continued
free-field line may omit its trailing blank fields), the free-field reading `glue 8 ws`
(`card_roundtrip_comma`) and the fixed-field reading `glue 8 (vs.map dtb)` (`wtcard8_rdcards`) are
equal up to trailing blanks, and both are the fields themselves. -/
theorem card_fixed_comma_agree (ws vs : List (List NasVal)) (hw : ∀ w ∈ ws, w.length ≤ 8)
    (hsame : ws.map dtb = vs.map dtb) (hok : GlueOK 8 vs) :
    dtb (glue 8 ws) = dtb (glue 8 (vs.map dtb)) ∧ dtb (glue 8 ws) = dtb vs.flatten :=
  fixed_comma_agree ws vs hw hsame hok

/-- non-vacuity: a free-field card whose first line is 78 characters long, continued by a line
that starts with the comma. -/
example : ∃ (name : Str) (c0 : List Str) (conts : List (Str × List Str)), NameOK name ∧ c0 ≠ [] ∧
    c0.length ≤ 8 ∧ (∀ t ∈ c0, TokOK t) ∧
    (∀ p ∈ conts, ContOK p.1 p.2 ∧ p.2.length ≤ 8 ∧ ∀ t ∈ p.2, TokOK t) ∧
    (commaLine name c0).length = 78 := by
  refine ⟨"CORD2R".toList, List.replicate 8 "-1.23456".toList, [([], ["7".toList])],
    ⟨⟨'C', "ORD2R".toList, rfl, by decide⟩, by decide, by decide⟩, by simp, by simp, ?_, ?_, by decide⟩
  · intro t ht
    rw [List.eq_of_mem_replicate ht]
    exact ⟨by decide, by decide⟩
  · intro p hp
    simp only [List.mem_cons, List.not_mem_nil, or_false] at hp
    subst hp
    refine ⟨Or.inr ⟨rfl, by simp⟩, by simp, ?_⟩
    intro t ht
    simp only [List.mem_cons, List.not_mem_nil, or_false] at ht
    subst ht
    exact ⟨by decide, by decide⟩

/-- non-vacuity: a card of 19 fields (three physical lines) with blanks spanning a line end. -/
example : ∃ (name : Str) (toks : List Tok), NameOK name ∧ (∀ c ∈ name, c ≠ '*') ∧ toks.length = 19 ∧
    ∀ t ∈ toks, CardField 8 (enc 8 formatFloat8 t) := by
  refine ⟨"GRID".toList, List.replicate 6 (Tok.int 7) ++ List.replicate 5 Tok.blank ++ List.replicate 8 (Tok.int (-3)),
    ⟨⟨'G', "RID".toList, rfl, by decide⟩, by decide, by decide⟩, by decide, by simp, ?_⟩
  intro t ht
  simp only [List.mem_append, List.mem_replicate] at ht
  rcases ht with (⟨_, rfl⟩ | ⟨_, rfl⟩) | ⟨_, rfl⟩
  · exact cardField_int 8 _ 7 (by
      have := natDigits_length_le 0 7 (by norm_num); simp [intStr]; omega)
  · exact cardField_blank 8
  · exact cardField_int 8 _ (-3) (by
      have := natDigits_length_le 0 3 (by norm_num); simp [intStr]; omega)

end cards

end PyYetiVerif.C12
