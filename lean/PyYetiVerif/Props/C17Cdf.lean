import PyYetiVerif.Props.C17
import Mathlib.LinearAlgebra.Matrix.Notation
import Mathlib.Tactic.NoncommRing
import Mathlib.Tactic.Abel
/-!
# C17 (continued) — coupled damping as force: `alpha`, and what one step is exact for

Property theorems only.

* `cdf_alpha_identity` — for ANY `C = C_od` (no symmetry) and `D = diag(Bp)` in any ring, with `Z` the
  two-sided inverse of `I + D C` (the `la.solve` of `SolveUnc.__init__`): `I − C Z D` is the two-sided inverse
  of `I + C D` and `alpha = C Z = (I + C D)⁻¹ C` (push-through), `alpha (I + D C) = C`.
* `cdf_alpha_transpose_solve` — what `la.solve(tmp.T, bo.T).T` is: if `tmpᵀ X = boᵀ` then `Xᵀ tmp = bo`, with
  `tmp = I + diag(Bp) bo`; so the code's `alpha` is `bo (I + Bp bo)⁻¹`.
* `cdf_alpha_transposed_variant_differs` — the look-alike `(I + C_odᵀ Bp)⁻¹ C_od` (correct only for symmetric
  `C_od`) is a different matrix already for a 2×2 non-symmetric `C_od`.
* `cdf_step_is_exact_for_interpolated_damping_force` — one pass of the `alpha` loop (either `order`) IS one
  pass of `SolveUnc`'s uncoupled loop (`uncStep`, exact for a force that is linear over the step — property
  C01) applied to the force `P − Q` whose off-diagonal damping part `Q = C_od q̇` is interpolated linearly
  between its value at the start of the step and its (implicitly determined) value at the end: the documented
  approximation, and the only one.  `cdf_run_is_unc_with_damping_force`: the same for a whole history.
-/
namespace PyYetiVerif.C17
open PyYetiVerif.Cdf

/-! ## alpha -/
section alpha
variable {R : Type*} [Ring R]

/-- push-through identity, no symmetry and no commutativity assumed -/
theorem cdf_alpha_identity (C D Z : R) (hZl : Z * (1 + D * C) = 1) (hZr : (1 + D * C) * Z = 1) :
    (1 + C * D) * (1 - C * Z * D) = 1 ∧ (1 - C * Z * D) * (1 + C * D) = 1 ∧
    C * Z = (1 - C * Z * D) * C ∧ C * Z * (1 + D * C) = C := by
  have h1 : Z + D * C * Z = 1 := by rw [← hZr]; noncomm_ring
  have h2 : Z + Z * D * C = 1 := by rw [← hZl]; noncomm_ring
  refine ⟨?_, ?_, ?_, ?_⟩
  · calc (1 + C * D) * (1 - C * Z * D) = 1 + C * D - C * (Z + D * C * Z) * D := by noncomm_ring
      _ = 1 := by rw [h1]; noncomm_ring
  · calc (1 - C * Z * D) * (1 + C * D) = 1 + C * D - C * (Z + Z * D * C) * D := by noncomm_ring
      _ = 1 := by rw [h2]; noncomm_ring
  · calc C * Z = C * (Z + Z * D * C) - C * Z * D * C := by noncomm_ring
      _ = (1 - C * Z * D) * C := by rw [h2]; noncomm_ring
  · rw [mul_assoc, hZl, mul_one]

end alpha

/-- `alpha = la.solve(tmp.T, bo.T).T` with `tmp = I + Bp[:, None] * bo` satisfies `alpha tmp = bo` -/
theorem cdf_alpha_transpose_solve {n : Type*} [Fintype n] [DecidableEq n] {R : Type*} [CommRing R]
    (bo : Matrix n n R) (Bp : n → R) (X : Matrix n n R)
    (hX : (1 + Matrix.diagonal Bp * bo).transpose * X = bo.transpose) :
    X.transpose * (1 + Matrix.diagonal Bp * bo) = bo := by
  have := congrArg Matrix.transpose hX
  rwa [Matrix.transpose_mul, Matrix.transpose_transpose, Matrix.transpose_transpose] at this

/-- the transposed look-alike gives a different `alpha` for a non-symmetric `C_od`:
`C = [[0,1],[0,0]]`, `Bp = (1,1)`: `alpha = C (I + C)⁻¹ = [[0,1],[0,0]]` but
`(I + Cᵀ)⁻¹ C = [[0,1],[0,−1]]`. -/
theorem cdf_alpha_transposed_variant_differs :
    ∃ C D Y X : Matrix (Fin 2) (Fin 2) ℤ, D = 1 ∧ Y * (1 + D * C) = C ∧
      (1 + C.transpose * D) * X = C ∧ X ≠ Y := by
  refine ⟨!![0, 1; 0, 0], 1, !![0, 1; 0, 0], !![0, 1; 0, -1], rfl, ?_, ?_, ?_⟩
  · decide
  · decide
  · decide

/-! ## one step is exact for the linearly interpolated damping force -/
section step
variable {V : Type} [AddCommGroup V]

/-- One pass of `_solve_real_unc_cdforces` from a state with `Q = C_od q̇` equals one pass of
`_solve_real_unc_inner_loop` (order 1: force linear over the step) with the force `P_i − C_od q̇_i` at the
start and `P_end − C_od q̇_{i+1}` at the end of the step, `P_end = P_{i+1}` (`order = 1`) or `P_i` (`order = 0`),
where `q̇_{i+1}` is the step's own new velocity; and the carried `Q` is again `C_od q̇_{i+1}`. -/
theorem cdf_step_is_exact_for_interpolated_damping_force (C : Ops V) (Z : V → V)
    (hα : ∀ x, C.alpha x = C.bo (Z x)) (hZ : ∀ x, Z x + C.Bp (C.bo (Z x)) = x)
    (hA : ∀ x y, C.A (x - y) = C.A x - C.A y) (hB : ∀ x y, C.B (x - y) = C.B x - C.B y)
    (hAp : ∀ x y, C.Ap (x - y) = C.Ap x - C.Ap y) (hBp : ∀ x y, C.Bp (x - y) = C.Bp x - C.Bp y)
    (order1 : Bool) (d v p0 p1 : V) :
    ((cdfStep C order1 (d, v, C.bo v) p0 p1).1, (cdfStep C order1 (d, v, C.bo v) p0 p1).2.1)
      = uncStep C true (d, v) (p0 - C.bo v)
          ((if order1 then p1 else p0) - C.bo (cdfStep C order1 (d, v, C.bo v) p0 p1).2.1) ∧
    (cdfStep C order1 (d, v, C.bo v) p0 p1).2.2 = C.bo (cdfStep C order1 (d, v, C.bo v) p0 p1).2.1 := by
  have h0 : cdfStep C order1 (d, v, C.bo v) p0 p1
      = cdfStep C true (d, v, C.bo v) p0 (if order1 then p1 else p0) := by
    cases order1 <;> simp [cdfStep, abf]
  rw [h0]
  obtain ⟨e1, e2, e3⟩ := cdf_is_documented C Z hα hZ hA hB hAp hBp d v p0 (if order1 then p1 else p0)
  refine ⟨?_, e1⟩
  simp only [uncStep, abf, if_true]
  refine Prod.ext ?_ ?_
  · exact e3.trans (add_assoc _ _ _)
  · exact e2.trans (add_assoc _ _ _)

theorem cdfFrom_head (C : Ops V) (o : Bool) (s : V × V × V) (p : V) (ps : List V) :
    ∃ t, cdfFrom C o s (p :: ps) = s :: t := by
  cases ps with
  | nil => exact ⟨[], rfl⟩
  | cons q qs => exact ⟨_, rfl⟩

/-- Whole history (`order = 1`): the displacement/velocity history of the cd-as-force solver is what
`SolveUnc`'s uncoupled loop produces for the force history `P_i − C_od q̇_i`, `q̇_i` the solver's own velocities. -/
theorem cdf_run_is_unc_with_damping_force (C : Ops V) (Z : V → V)
    (hα : ∀ x, C.alpha x = C.bo (Z x)) (hZ : ∀ x, Z x + C.Bp (C.bo (Z x)) = x)
    (hA : ∀ x y, C.A (x - y) = C.A x - C.A y) (hB : ∀ x y, C.B (x - y) = C.B x - C.B y)
    (hAp : ∀ x y, C.Ap (x - y) = C.Ap x - C.Ap y) (hBp : ∀ x y, C.Bp (x - y) = C.Bp x - C.Bp y)
    (d0 v0 : V) (P : List V) :
    (cdfRun C true d0 v0 P).map (fun s => (s.1, s.2.1))
      = uncFrom C true (d0, v0)
          (List.zipWith (fun p s => p - C.bo s.2.1) P (cdfRun C true d0 v0 P)) := by
  have main : ∀ (P : List V) (d v : V),
      (cdfFrom C true (d, v, C.bo v) P).map (fun s => (s.1, s.2.1))
        = uncFrom C true (d, v)
            (List.zipWith (fun p s => p - C.bo s.2.1) P (cdfFrom C true (d, v, C.bo v) P)) := by
    intro P
    induction P with
    | nil => intro d v; simp [cdfFrom, uncFrom]
    | cons p0 P ih =>
      intro d v
      cases P with
      | nil => simp [cdfFrom, uncFrom]
      | cons p1 ps =>
        obtain ⟨hs, hq⟩ := cdf_step_is_exact_for_interpolated_damping_force C Z hα hZ hA hB hAp hBp
          true d v p0 p1
        simp only [if_true] at hs
        set s' := cdfStep C true (d, v, C.bo v) p0 p1 with hs'
        obtain ⟨t, ht⟩ := cdfFrom_head C true s' p1 ps
        have ih' := ih s'.1 s'.2.1
        have hs'' : (s'.1, s'.2.1, C.bo s'.2.1) = s' := by rw [← hq]
        rw [hs''] at ih'
        simp only [cdfFrom, ← hs', List.map_cons, List.zipWith_cons_cons]
        rw [ht] at ih' ⊢
        simp only [List.zipWith_cons_cons, List.map_cons] at ih' ⊢
        rw [uncFrom, ← hs, ← ih']
  exact main P d0 v0

end step

/-! ## non-vacuity -/

/-- `cdf_alpha_identity`: the scalar case `C = 3`, `D = 2`, `Z = 1/7` over `ℚ` -/
example : (1 / 7 : ℚ) * (1 + 2 * 3) = 1 ∧ (1 + 2 * 3 : ℚ) * (1 / 7) = 1 := by norm_num

end PyYetiVerif.C17
