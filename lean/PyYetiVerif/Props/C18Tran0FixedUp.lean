import PyYetiVerif.Lemmas.UsetTranFixed
import PyYetiVerif.Props.C18TranM
/-!
C18, the CANDIDATE FIX of finding F69, `formtran` for `se != 0` (`Model/UsetTranFixed.formtranUpFixed`; /repo is NOT patched):
`formtran_partition_identity` for the patched routine.  The statement and the proof are those of `Props/C18Tran.lean` with the
`[id, dof]` table of the g-set (`iddofG`, see `iddofG_is_gset_rows`) in the place of the whole table: the position `p` that ties a
requested DOF to its row of `t`, `o`, `m`, `q`, `s` (positions within the g-set) is now a position in the table those positions
refer to.  `formtran_aset_identity` / `formtran_columns_are_target_set` do not involve `iddof`; on a table without extra points
all of `Props/C18Tran*.lean` carries over through `formtranFixed_eq_current`.
-/
set_option linter.constructorNameAsVariable false
set_option linter.unusedSectionVars false
namespace PyYetiVerif.C18
open PyYetiVerif.Uset PyYetiVerif.Locate

section fixedUp
variable {κ : Type} [LinearOrder κ] (mkKey : Nat → Nat → κ)
variable {α : Type} [Add α] [Mul α] [OfNat α 0] [OfNat α 1] [DecidableEq α]

/-- **patched formtran, general path** (`se != 0`, some requested DOF outside the a-set): one row per requested DOF in
request order; the row of DOF `d` is `TranRow` of the g-set position `p` whose `[id, dof]` is exactly `d`. -/
theorem formtran_partition_identity_fixed (mk : Masks) (tbl : List Row) (got goq gm : Option (M α)) (req : Request)
    (out : M α) (dof : List (Nat × Nat)) (pvdof : List Nat) (a : List Bool) (t_a q_a : List Nat)
    (h : formtranUpFixed mkKey mk tbl got goq gm req = .ok (out, dof))
    (hpv : mkdofpv mk.p tbl (.mask mk.g) req true = .ok (pvdof, dof))
    (ha : mksetpv (tbl.map (·.2.2)) mk.g mk.a = .ok a)
    (hgen : pvdof.all (fun i => a[i]? == some true) = false)
    (hta : setPos tbl mk.a mk.t = .ok t_a) (hqa : setPos tbl mk.a mk.q = .ok q_a)
    (hdis : ∀ c ∈ t_a, c ∉ q_a) :
    ∃ (idg : List κ) (t o m q s : List Nat) (gotM goqM : M α) (pvm : List Nat) (mRows : List (List α)),
      iddofG mkKey mk tbl = .ok idg ∧
      setPos tbl mk.g mk.t = .ok t ∧ setPos tbl mk.g mk.o = .ok o ∧ setPos tbl mk.g mk.q = .ok q ∧
      setPos tbl mk.g mk.s = .ok s ∧
      (mRows ≠ [] → setPos tbl mk.g mk.m = .ok m ∧ ∃ (gmM gmSel : M α) (t_n o_n q_n : List Nat),
        gm = some gmM ∧ List.Forall₂ (fun i y => gmM.r[i]? = some y) pvm gmSel.r ∧
        setPos tbl mk.n mk.t = .ok t_n ∧ setPos tbl mk.n mk.o = .ok o_n ∧ setPos tbl mk.n mk.q = .ok q_n ∧
        mBlock gmSel gotM goqM gotM.c goqM.c t_a q_a t_n o_n q_n = .ok mRows) ∧
      (∀ g, got = some g → gotM = g) ∧ (∀ g, goq = some g → goqM = g) ∧
      (got = none → ∀ r ∈ gotM.r, r.length = gotM.c) ∧ (goq = none → ∀ r ∈ goqM.r, r.length = goqM.c) ∧
      out.c = gotM.c + goqM.c ∧
      List.Forall₂ (fun d row => ∃ p, idg[p]? = some (mkKey d.1 d.2) ∧
        TranRow (gotM.c + goqM.c) t o m q s t_a q_a gotM goqM pvm mRows p row) dof out.r := by
  unfold formtranUpFixed formtranUpWith at h
  rw [hpv, hta, hqa, ha] at h
  obtain ⟨pd, hpd, h⟩ := bind_ok h
  cases liftE_ok hpd
  simp only at h
  obtain ⟨ta', hta', h⟩ := bind_ok h
  cases hta'
  obtain ⟨qa', hqa', h⟩ := bind_ok h
  cases hqa'
  obtain ⟨a', ha', h⟩ := bind_ok h
  cases liftE_ok ha'
  rw [hgen] at h
  simp only [Bool.false_eq_true, if_false] at h
  obtain ⟨x, hx, h⟩ := bind_ok h
  obtain ⟨idg, hidg, h⟩ := bind_ok h
  obtain ⟨rows, hrows, h⟩ := bind_ok h
  obtain ⟨o', ho', h⟩ := bind_ok h
  simp only [Except.ok.injEq, Prod.mk.injEq] at h
  obtain ⟨rfl, _⟩ := h
  obtain ⟨t, o, q, s, ht, ho, hq, hs, hft, hfo, hfq, hfs, hgot, hgoq, hgot0, hgoq0, hpm, hpmok, htn⟩ :=
    upSelectWith_spec hx
  -- distinct columns
  have hnt : t_a.Nodup := by
    unfold setPos at hta
    cases hm : mksetpv (tbl.map (·.2.2)) mk.a mk.t with
    | error e => rw [hm] at hta; cases hta
    | ok l =>
        rw [hm] at hta
        simp only [Except.map, liftE, Except.ok.injEq] at hta
        rw [← hta]
        exact (positions_sorted l).imp (fun h => Nat.ne_of_lt h)
  have hnq : q_a.Nodup := by
    unfold setPos at hqa
    cases hm : mksetpv (tbl.map (·.2.2)) mk.a mk.q with
    | error e => rw [hm] at hqa; cases hqa
    | ok l =>
        rw [hm] at hqa
        simp only [Except.map, liftE, Except.ok.injEq] at hqa
        rw [← hqa]
        exact (positions_sorted l).imp (fun h => Nat.ne_of_lt h)
  -- the blocks
  unfold upBlocks at hrows
  obtain ⟨tRows, htR, hrows⟩ := bind_ok hrows
  obtain ⟨oRows, hoR, hrows⟩ := bind_ok hrows
  obtain ⟨mRows, hmR, hrows⟩ := bind_ok hrows
  obtain ⟨qRows, hqR, hrows⟩ := bind_ok hrows
  simp only [Except.ok.injEq] at hrows
  let w := x.gotM.c + x.goqM.c
  -- the m-set part
  obtain ⟨m, pvm, hmset, hfm⟩ : ∃ (m pvm : List Nat),
      (mRows ≠ [] → setPos tbl mk.g mk.m = .ok m ∧ ∃ (gmM gmSel : M α) (t_n o_n q_n : List Nat),
        gm = some gmM ∧ List.Forall₂ (fun i y => gmM.r[i]? = some y) pvm gmSel.r ∧
        setPos tbl mk.n mk.t = .ok t_n ∧ setPos tbl mk.n mk.o = .ok o_n ∧ setPos tbl mk.n mk.q = .ok q_n ∧
        mBlock gmSel x.gotM x.goqM x.gotM.c x.goqM.c t_a q_a t_n o_n q_n = .ok mRows) ∧
      List.Forall₂ (fun p row => ∃ (i k : Nat), m[i]? = some p ∧ pvm[k]? = some i ∧ mRows[k]? = some row ∧
          row.length = w)
        (match x.pm with | some y => y.1 | none => []) mRows := by
    cases hpmv : x.pm with
    | none =>
        rw [hpmv] at hmR
        simp only [pure, Except.pure, Except.ok.injEq] at hmR
        subst hmR
        exact ⟨[], [], fun hne => absurd rfl hne, .nil⟩
    | some y =>
        obtain ⟨v, hv⟩ := hpmok
        rw [hv] at hpm
        simp only at hpm
        rw [hpmv] at hpm
        rw [← hpm] at hv
        obtain ⟨htn1, htn2, htn3⟩ := htn y hpmv
        obtain ⟨m', g'⟩ := y
        obtain ⟨m, gmM, pv, hm, hgm, hfm, _, hfg⟩ := procMsetWith_spec hv
        rw [hpmv] at hmR
        simp only at hmR
        have hl := mBlock_length hmR
        refine ⟨m, pv, fun _ => ⟨hm, gmM, g', _, _, _, hgm, hfg, htn1, htn2, htn3, hmR⟩, ?_⟩
        simp only
        apply forall₂_of_getElem? (by rw [hl, ← hfg.length_eq, hfm.length_eq])
        intro k p row hp hrow
        obtain ⟨i, hik, hi⟩ := forall₂_getElem?' hfm k p hp
        exact ⟨i, k, hi, hik, hrow, mBlock_row_length hmR row (List.mem_of_getElem? hrow)⟩
  have hT := forall₂_join hft (eyeBlock_spec htR hnt)
  have hO := forall₂_join hfo (oBlock_spec hoR hnt hnq hdis)
  have hQ := forall₂_join hfq (eyeBlock_spec hqR hnq)
  have hS : List.Forall₂ (fun p row => ∃ (i : Nat), s[i]? = some p ∧ row = zeroRow (α := α) w) x.s'
      (x.s'.map fun _ => zeroRow w) := by
    rw [List.forall₂_map_right_iff]
    apply forall₂_of_getElem? rfl
    intro k p p' hp hp'
    rw [hp] at hp'; simp only [Option.some.injEq] at hp'; subst hp'
    obtain ⟨i, _, hi⟩ := forall₂_getElem?' hfs k p hp
    exact ⟨i, hi, rfl⟩
  have hall : List.Forall₂ (TranRow w t o m q s t_a q_a x.gotM x.goqM pvm mRows) x.sets rows := by
    rw [← hrows]
    unfold UpSel.sets
    refine List.rel_append (List.rel_append (List.rel_append (List.rel_append ?_ ?_) ?_) ?_) ?_
    · exact hT.imp fun p row ⟨i, _, hi, c, hc, hr⟩ => Or.inl ⟨i, c, hi, hc, hr⟩
    · exact hO.imp fun p row ⟨i, _, hi, g, hg, hr⟩ => Or.inr (Or.inl ⟨i, g, hi, hg, hr⟩)
    · exact hfm.imp fun p row h => Or.inr (Or.inr (Or.inl h))
    · exact hQ.imp fun p row ⟨i, _, hi, c, hc, hr⟩ => Or.inr (Or.inr (Or.inr (Or.inl ⟨i, c, hi, hc, hr⟩)))
    · exact hS.imp fun p row h => Or.inr (Or.inr (Or.inr (Or.inr h)))
  have hre := reorder_spec ho' hall.length_eq.symm
    (by rw [mkdofpv_lengths hpv]; simp [dofRows])
  refine ⟨idg, t, o, m, q, s, x.gotM, x.goqM, pvm, mRows, hidg, ht, ho, hq, hs, hmset, hgot, hgoq, hgot0, hgoq0, hre.1, ?_⟩
  have h2 := hre.2
  unfold dofRows at h2
  rw [List.forall₂_map_left_iff] at h2
  refine h2.imp ?_
  rintro d row ⟨j, p, hj, hp, hr⟩
  obtain ⟨row', hrow', hT'⟩ := forall₂_getElem? hall j p hj
  rw [hr] at hrow'
  simp only [Option.some.injEq] at hrow'
  subst hrow'
  exact ⟨p, hp, hT'⟩

end fixedUp

section fixedUpM
variable {κ : Type} [LinearOrder κ] (mkKey : Nat → Nat → κ)
variable {α : Type} [Semiring α] [DecidableEq α]

/-- **patched formtran, m-set rows = GM composed with the n-set transform** (`formtran_mset_composition` for the patched
routine; entries in a semiring) -/
theorem formtran_mset_composition_fixed (mk : Masks) (tbl : List Row) (got goq gm : Option (M α)) (req : Request)
    (out : M α) (dof : List (Nat × Nat)) (pvdof : List Nat) (a : List Bool) (t_a q_a : List Nat)
    (h : formtranUpFixed mkKey mk tbl got goq gm req = .ok (out, dof))
    (hpv : mkdofpv mk.p tbl (.mask mk.g) req true = .ok (pvdof, dof))
    (ha : mksetpv (tbl.map (·.2.2)) mk.g mk.a = .ok a)
    (hgen : pvdof.all (fun i => a[i]? == some true) = false)
    (hta : setPos tbl mk.a mk.t = .ok t_a) (hqa : setPos tbl mk.a mk.q = .ok q_a)
    (hdis : ∀ c ∈ t_a, c ∉ q_a)
    (hgotw : ∀ g, got = some g → ∀ r ∈ g.r, r.length = g.c)
    (hgoqw : ∀ g, goq = some g → ∀ r ∈ g.r, r.length = g.c) :
    ∃ (idg : List κ) (t o m q s : List Nat) (gotM goqM : M α) (pvm : List Nat) (mRows : List (List α)),
      iddofG mkKey mk tbl = .ok idg ∧
      List.Forall₂ (fun d row => ∃ p, idg[p]? = some (mkKey d.1 d.2) ∧
        TranRow (gotM.c + goqM.c) t o m q s t_a q_a gotM goqM pvm mRows p row ∧
        ∀ (i k : Nat), m[i]? = some p → pvm[k]? = some i → mRows[k]? = some row →
          ∃ (gmM : M α) (g : List α) (t_n o_n q_n : List Nat), gm = some gmM ∧ gmM.r[i]? = some g ∧
            setPos tbl mk.n mk.t = .ok t_n ∧ setPos tbl mk.n mk.o = .ok o_n ∧ setPos tbl mk.n mk.q = .ok q_n ∧
            MRow gotM.c goqM.c t_a q_a t_n o_n q_n gotM goqM g row) dof out.r := by
  obtain ⟨idg, t, o, m, q, s, gotM, goqM, pvm, mRows, hidg, _, _, _, _, hmset, hg1, hg2, hg10, hg20, _, hall⟩ :=
    formtran_partition_identity_fixed mkKey mk tbl got goq gm req out dof pvdof a t_a q_a h hpv ha hgen hta hqa hdis
  refine ⟨idg, t, o, m, q, s, gotM, goqM, pvm, mRows, hidg, hall.imp ?_⟩
  rintro d row ⟨p, hp, hT⟩
  refine ⟨p, hp, hT, ?_⟩
  intro i k _ hik hrow
  have hne : mRows ≠ [] := by
    intro he; rw [he] at hrow; simp at hrow
  obtain ⟨_, gmM, gmSel, t_n, o_n, q_n, hgm, hsel, h1, h2, h3, hmB⟩ := hmset hne
  have hgotr : ∀ r ∈ gotM.r, r.length = gotM.c := by
    cases hgot : got with
    | none => exact hg10 hgot
    | some g => rw [hg1 g hgot]; exact hgotw g hgot
  have hgoqr : ∀ r ∈ goqM.r, r.length = goqM.c := by
    cases hgoq : goq with
    | none => exact hg20 hgoq
    | some g => rw [hg2 g hgoq]; exact hgoqw g hgoq
  have hnt : t_a.Nodup := by
    unfold setPos at hta
    cases hm : mksetpv (tbl.map (·.2.2)) mk.a mk.t with
    | error e => rw [hm] at hta; cases hta
    | ok l =>
        rw [hm] at hta
        simp only [Except.map, liftE, Except.ok.injEq] at hta
        rw [← hta]
        exact (positions_sorted l).imp (fun h => Nat.ne_of_lt h)
  have hnq : q_a.Nodup := by
    unfold setPos at hqa
    cases hm : mksetpv (tbl.map (·.2.2)) mk.a mk.q with
    | error e => rw [hm] at hqa; cases hqa
    | ok l =>
        rw [hm] at hqa
        simp only [Except.map, liftE, Except.ok.injEq] at hqa
        rw [← hqa]
        exact (positions_sorted l).imp (fun h => Nat.ne_of_lt h)
  have hM := mBlock_spec hmB hgotr hgoqr hnt hnq hdis
  obtain ⟨g, hg, hMRow⟩ := forall₂_getElem?' hM k row hrow
  obtain ⟨g', hg', hsel'⟩ := forall₂_getElem? hsel k i hik
  rw [hg] at hg'
  simp only [Option.some.injEq] at hg'
  subst hg'
  exact ⟨gmM, g, t_n, o_n, q_n, hgm, hsel', h1, h2, h3, hMRow⟩

end fixedUpM

/-! ## non-vacuity: `se != 0` with an extra point in front - scalar points 9 (e), 1 (b), 2 (o), 3 (q), 4 (m) -/

section examples
open PyYetiVerif.Generated.UsetMask
set_option linter.unusedSimpArgs false

/-- `exTblM` of `Props/C18TranM.lean` behind an extra point -/
def exTblMx : List Row := (9, 0, 2048) :: exTblM

/-- the request `[(4, 0), (2, 0)]` (an m-set and an o-set DOF): the patched routine answers as the current one does on the table
without the extra point (`u_m = 3 u_t + 4 u_q`, `u_o = 2 u_t + 3 u_q`); the current routine, with the extra point in front,
raises `RuntimeError` -/
example : formtranUpFixed (α := Int) exKey exMasks exTblMx (some ⟨[[2]], 1⟩) (some ⟨[[3]], 1⟩) (some ⟨[[1, 1, 1]], 3⟩)
      (.rows [(4, 0), (2, 0)]) = .ok (⟨[[3, 4], [2, 3]], 2⟩, [(4, 0), (2, 0)]) ∧
    formtranUp (α := Int) exKey exMasks exTblM (some ⟨[[2]], 1⟩) (some ⟨[[3]], 1⟩) (some ⟨[[1, 1, 1]], 3⟩)
      (.rows [(4, 0), (2, 0)]) = .ok (⟨[[3, 4], [2, 3]], 2⟩, [(4, 0), (2, 0)]) ∧
    formtranUp (α := Int) exKey exMasks exTblMx (some ⟨[[2]], 1⟩) (some ⟨[[3]], 1⟩) (some ⟨[[1, 1, 1]], 3⟩)
      (.rows [(4, 0), (2, 0)]) = .error .runtime := by
  simp [formtranUpFixed, formtranUpWith, upSelectWith, procMsetWith, iddofG, rowsOfMask,
    formtranUp, mkdofpv, mksetpv, expanddof, expanddof2, expandRow, digits, digitsRev, mkdofpvKeys, argsort,
    lookup, searchsortedLeft, key, List.mergeSort, List.zipIdx, List.MergeSort.Internal.splitInTwo,
    exMasks, Masks.ofTable, exTblMx, exTblM, mask, v_p, v_g, v_n, v_f, v_a, v_q, v_r, v_b, v_c, v_o, v_s, v_m, v_e, v_l, v_t,
    inSet, liftE, setPos, positions, upSelect, selSet, selIn, takeIdx, matIntersect, lookupAll, iddofOf, dofRows, exKey,
    procMset, upBlocks, eyeBlock, oBlock, mBlock, colsAt, rowsAt, anyCols, dot, addM, rowComb, addRow, smulRow,
    scatterRows, setCols, unitRow, zeroRow, reorder, UpSel.sets,
    bind, Except.bind, pure, Except.pure, Except.map, List.mapM_cons, List.mapM_nil]

end examples

end PyYetiVerif.C18
