import PyYetiVerif.Lemmas.BulkDmigX
import PyYetiVerif.Props.C13
/-!
# C13 — `rddmig(expanded=True)` and `rddmig(square=True)`

Property theorems only (helper lemmas: `Lemmas/BulkDmigX.lean`).  `dmigOneX o` is the model of
`rddmig._cards_to_df` with the options `o = ⟨expanded, square⟩` (`Model/BulkDmigX.lean`:
`_add_iddof_expanded`, `_mk_index`, `_prep_dataframe`); `dmigOne` is the plain reader of
`Props/C13Dmig.lean`.  Both are tied to pyyeti/nastran/bulk.py by the reader stream `rddmig-options`
(frames compared cell by cell for the four option combinations on written and re-rendered texts).

`expOf p` is what the expanded reader makes of a label: the six labels `(id, 1) … (id, 6)` for a grid
label (`dof > 0`), `(id, 0)` for a scalar point.  `Consistent l`: no id occurs in `l` both with DOF 0 and
with a DOF > 0 (the reader decides the kind of an id at its first occurrence).
-/
namespace PyYetiVerif.C13
open PyYetiVerif.Bulk

/-- with both options off the option reader is the plain reader, on every card list -/
theorem rddmig_default_is_plain (h : List Val) (nm : Txt) (cc : List (List Val)) :
    dmigOneX ⟨false, false⟩ h nm cc = dmigOne h nm cc :=
  dmigOneX_default h nm cc

/-- the options only re-index: whatever the option reader returns on ANY card list holds the cells of
the plain reader (same assignments, same mirror rule, same real / complex rule) -/
theorem rddmig_options_same_cells (o : RdOpt) (h : List Val) (nm : Txt) (cc : List (List Val)) (r : DmigRead)
    (hx : dmigOneX o h nm cc = some r) :
    ∃ r0, dmigOne h nm cc = some r0 ∧ r.name = r0.name ∧ r.form = r0.form ∧ r.mtype = r0.mtype ∧
      r.entries = r0.entries ∧ r.cell = r0.cell := by
  obtain ⟨colL, ents, rows, cols, hp, _, rfl⟩ := dmigOneX_some o h nm cc r hx
  rw [dmigOne_eq_parse, hp]
  exact ⟨_, rfl, rfl, rfl, rfl, rfl, cell_congr _ _ rfl rfl rfl⟩

/-- `square=True` on any card list: nothing changes unless the matrix is form 1; a form-1 matrix gets
the union of the plain row and column index on both axes (sorted, duplicate-free); the cells are the
plain cells — in particular NO mirror assignment is made (that is form 6 only). -/
theorem rddmig_square_index (sq : Bool) (h : List Val) (nm : Txt) (cc : List (List Val)) (r0 : DmigRead)
    (h0 : dmigOne h nm cc = some r0) :
    ∃ r, dmigOneX ⟨false, sq⟩ h nm cc = some r ∧ r.cell = r0.cell ∧
      (KeySorted r.rows ∧ r.rows.Nodup ∧ KeySorted r.cols ∧ r.cols.Nodup) ∧
      (∀ q, q ∈ r.rows ↔ q ∈ r0.rows ∨ (unionIdx ⟨false, sq⟩ r0.form = true ∧ q ∈ r0.cols)) ∧
      (∀ q, q ∈ r.cols ↔ q ∈ r0.cols ∨ (unionIdx ⟨false, sq⟩ r0.form = true ∧ q ∈ r0.rows)) ∧
      (unionIdx ⟨false, sq⟩ r0.form = true → r.cols = r.rows) ∧
      ((sq = false ∨ r0.form ≠ .int 1) → r = r0) := by
  rw [dmigOne_eq_parse] at h0
  cases hp : dmigParse cc with
  | none => rw [hp] at h0; simp at h0
  | some pe =>
    obtain ⟨colL, ents⟩ := pe
    rw [hp] at h0
    simp only [Option.map_some, Option.some.injEq] at h0
    subst h0
    simp only [dmigOneX, hp, dmigIndex_plain]
    refine ⟨_, rfl, cell_congr _ _ rfl rfl rfl, ?_⟩
    simp only
    by_cases h6 : (h.getD 2 .blank == Val.int 6) = true
    · have hu : unionIdx ⟨false, sq⟩ (h.getD 2 .blank) = true := unionIdx_of6 _ _ h6
      rw [if_pos hu, if_pos h6, if_pos h6]
      refine ⟨⟨(sortSet_spec _).1, (sortSet_spec _).2.1, (sortSet_spec _).1, (sortSet_spec _).2.1⟩, ?_, ?_,
        fun _ => rfl, fun _ => rfl⟩ <;> intro q <;> simp only [hu, true_and, or_self]
    · have h6' : (h.getD 2 .blank == Val.int 6) = false := by simpa using h6
      by_cases hu : unionIdx ⟨false, sq⟩ (h.getD 2 .blank) = true
      · have h1 : h.getD 2 .blank = Val.int 1 ∧ sq = true := by
          unfold unionIdx at hu
          rw [h6'] at hu
          simpa using hu
        rw [if_pos hu, if_neg h6, if_neg h6]
        refine ⟨⟨(sortSet_spec _).1, (sortSet_spec _).2.1, (sortSet_spec _).1, (sortSet_spec _).2.1⟩, ?_, ?_,
          fun _ => rfl, ?_⟩
        · intro q; simp only [(sortSet_spec _).2.2, List.mem_append, hu, true_and]
        · intro q; simp only [(sortSet_spec _).2.2, List.mem_append, hu, true_and]; exact Or.comm
        · rintro (hs | hf)
          · rw [h1.2] at hs; exact absurd hs (by decide)
          · exact absurd h1.1 hf
      · rw [if_neg hu, if_neg h6, if_neg h6]
        refine ⟨⟨(sortSet_spec _).1, (sortSet_spec _).2.1, (sortSet_spec _).1, (sortSet_spec _).2.1⟩, ?_, ?_,
          fun hh => absurd hh hu, fun _ => rfl⟩ <;> intro q <;> simp only [hu, Bool.false_eq_true, false_and, or_false]

/-- `expanded=True` on any card list whose labels use every id consistently (scalar point or grid):
the row index is the sorted, duplicate-free expansion of the plain row index — of the plain row and
column index together for form 6 and for form 1 with `square=True`, the column index then being the
same list; the column index of a form-9 matrix is `1 … NCOL` from the header card; the cells are the
plain cells. -/
theorem rddmig_expanded_index (sq : Bool) (h : List Val) (nm : Txt) (cc : List (List Val)) (r0 r : DmigRead)
    (h0 : dmigOne h nm cc = some r0) (hx : dmigOneX ⟨true, sq⟩ h nm cc = some r)
    (hc : if (r0.form == Val.int 9) = true then Consistent r0.rows else Consistent (r0.rows ++ r0.cols)) :
    r.cell = r0.cell ∧
      (KeySorted r.rows ∧ r.rows.Nodup ∧ KeySorted r.cols ∧ r.cols.Nodup) ∧
      (∀ q, q ∈ r.rows ↔ ∃ p, (p ∈ r0.rows ∨ (unionIdx ⟨true, sq⟩ r0.form = true ∧ p ∈ r0.cols)) ∧ q ∈ expOf p) ∧
      ((r0.form == Val.int 9) = true → ∃ n, h.getD 7 .blank = Val.int n ∧ r.cols = colRange n) ∧
      ((r0.form == Val.int 9) = false →
        ∀ q, q ∈ r.cols ↔ ∃ p, (p ∈ r0.cols ∨ (unionIdx ⟨true, sq⟩ r0.form = true ∧ p ∈ r0.rows)) ∧ q ∈ expOf p) ∧
      (unionIdx ⟨true, sq⟩ r0.form = true → r.cols = r.rows) := by
  obtain ⟨colL, ents, rows, cols, hp, hi, rfl⟩ := dmigOneX_some _ h nm cc r hx
  rw [dmigOne_eq_parse, hp] at h0
  simp only [Option.map_some, Option.some.injEq] at h0
  subst h0
  simp only at hc ⊢
  refine ⟨cell_congr _ _ rfl rfl rfl, ?_⟩
  -- membership in the plain index lists
  have hrows6 : (h.getD 2 .blank == Val.int 6) = true →
      ∀ p, p ∈ sortSet (ents.flatten.map (·.1) ++ colL) ↔ p ∈ ents.flatten.map (·.1) ∨ p ∈ colL := by
    intro _ p; rw [(sortSet_spec _).2.2]; simp
  by_cases h6 : (h.getD 2 .blank == Val.int 6) = true
  · have hu : unionIdx ⟨true, sq⟩ (h.getD 2 .blank) = true := unionIdx_of6 _ _ h6
    have h9 : (h.getD 2 .blank == Val.int 9) = false := unionIdx_ne9 _ _ hu
    simp only [h6, if_true, h9, Bool.false_eq_true, if_false] at hc ⊢
    have hc' : Consistent (ents.flatten.map (·.1) ++ colL) :=
      hc.mono (fun p hp => by
        have := (hrows6 h6 p).mpr (by simpa using hp)
        exact List.mem_append.mpr (Or.inl this))
    obtain ⟨hs, hr, _, hcl, hsame⟩ := dmigIndex_expanded sq _ _ _ _ _ _ hi (by rw [h9]; exact hc')
    refine ⟨hs, ?_, fun hh => absurd hh (by decide), ?_, hsame⟩
    · intro q; rw [hr q]
      simp only [hu, true_and, hrows6 h6]
      constructor
      · rintro ⟨p, hp, hq⟩; exact ⟨p, Or.inl hp, hq⟩
      · rintro ⟨p, hp | hp, hq⟩ <;> exact ⟨p, hp, hq⟩
    · intro _ q; rw [hcl h9 q]
      simp only [hu, true_and, hrows6 h6]
      constructor
      · rintro ⟨p, hp, hq⟩; exact ⟨p, Or.inl hp.symm, hq⟩
      · rintro ⟨p, hp | hp, hq⟩ <;> exact ⟨p, hp.symm, hq⟩
  · simp only [h6, Bool.false_eq_true, if_false] at hc ⊢
    have hc' : if (h.getD 2 .blank == Val.int 9) = true then Consistent (ents.flatten.map (·.1))
        else Consistent (ents.flatten.map (·.1) ++ colL) := by
      split at hc <;> rename_i h9
      · rw [if_pos h9]; exact hc.mono (fun p hp => (sortSet_spec _).2.2 p |>.mpr hp)
      · rw [if_neg h9]
        exact hc.mono (fun p hp => by
          rcases List.mem_append.mp hp with hp | hp
          · exact List.mem_append.mpr (Or.inl ((sortSet_spec _).2.2 p |>.mpr hp))
          · exact List.mem_append.mpr (Or.inr ((sortSet_spec _).2.2 p |>.mpr hp)))
    obtain ⟨hs, hr, h9c, hcl, hsame⟩ := dmigIndex_expanded sq _ _ _ _ _ _ hi hc'
    refine ⟨hs, ?_, h9c, ?_, hsame⟩
    · intro q; rw [hr q]; simp only [(sortSet_spec _).2.2]
    · intro h9 q; rw [hcl h9 q]; simp only [(sortSet_spec _).2.2]

/-! ## on the cards of `wtdmig` -/

/-- every DOF is 0 … 6 and every form-9 column number is at least 1 -/
def DofOK (d : Dmig) : Prop :=
  (∀ p ∈ d.rowids, 0 ≤ p.2 ∧ p.2 ≤ 6) ∧
    (if d.single = true then ∀ c ∈ d.colids, 1 ≤ c.1 else ∀ p ∈ d.colids, 0 ≤ p.2 ∧ p.2 ≤ 6)

/-- the written labels use every id consistently (form 9: column NUMBERS are no ids) -/
def IdsConsistent (d : Dmig) : Prop :=
  Consistent (d.rowids ++ if d.single = true then [] else d.colids)

/-- `form == 6 or (form == 1 and square)` for a written matrix -/
def unionW (d : Dmig) (sq : Bool) : Prop := d.form = 6 ∨ (d.form = 1 ∧ sq = true)

theorem unionIdx_written (o : RdOpt) (d : Dmig) : unionIdx o (Val.int d.form) = true ↔ unionW d o.square := by
  unfold unionIdx unionW
  simp only [Bool.or_eq_true, Bool.and_eq_true, beq_iff_eq, Val.int.injEq]
  have a : ((d.form : Int) = 6) ↔ d.form = 6 := by omega
  have b : ((d.form : Int) = 1) ↔ d.form = 1 := by omega
  rw [a, b]

/-- **`rddmig(wtdmig(X), expanded=True[, square=True])`**, one statement, forms 1/2/6/9 and types 1–4,
for a well-shaped frame with duplicate-free row and column labels, DOF 0 … 6, every id used either as a
scalar point or as a grid, form-9 column numbers ≥ 1:
 * the row index is sorted, duplicate-free and consists of ALL SIX DOF of every grid id (the single label
   `(id, 0)` of every scalar point) that carries a non-zero term in a row — for form 6 and for form 1
   with `square=True` also in a column, and the column index is then the same list;
 * the column index of a form-9 matrix is `1 … NCOL`, NCOL the largest column number (`dmig_ncol_form9`);
 * every written term sits at its own (row id, column id) — value `enc re`, imaginary part 0 for the
   real types; zero terms read 0; the upper triangle of a form-6 matrix through the mirror assignment —
   and its labels are in the index; **all other positions are 0**. -/
theorem rddmig_expanded_spec (enc : Int → Val) (d : Dmig) (sq : Bool) (hshape : d.m.length = d.rowids.length)
    (hrn : d.rowids.Nodup) (hcn : d.ColsNodup) (hdof : DofOK d) (hcons : IdsConsistent d) :
    ∃ r, dmigOneX ⟨true, sq⟩ d.headerVals (lower d.name) (d.written enc) = some r ∧
      (KeySorted r.rows ∧ r.rows.Nodup ∧ KeySorted r.cols ∧ r.cols.Nodup) ∧
      (∀ q, q ∈ r.rows ↔ ∃ p, (NzRow d p ∨ (unionW d sq ∧ NzCol d p)) ∧ q ∈ expOf p) ∧
      (d.single = true → r.cols = colRange d.ncol) ∧
      (d.single = false → ∀ q, q ∈ r.cols ↔ ∃ p, (NzCol d p ∨ (unionW d sq ∧ NzRow d p)) ∧ q ∈ expOf p) ∧
      (unionW d sq → r.cols = r.rows) ∧
      (∀ i j rl v, d.rowids[i]? = some rl → j < d.colids.length → d.At i j v →
        r.cell rl (d.colLabel j) =
          if v = (0, 0) then (Val.int 0, Val.int 0) else (enc v.1, if d.mtype < 3 then Val.int 0 else enc v.2)) ∧
      (∀ i j rl v, d.rowids[i]? = some rl → j < d.colids.length → d.At i j v → v ≠ (0, 0) →
        rl ∈ r.rows ∧ d.colLabel j ∈ r.cols) ∧
      (∀ rl cl, (¬ ∃ i j v, d.rowids[i]? = some rl ∧ j < d.colids.length ∧ d.colLabel j = cl ∧ d.At i j v ∧ v ≠ (0, 0)) →
        r.cell rl cl = (Val.int 0, Val.int 0)) ∧
      r.frame = r.rows.map fun rl => r.cols.map fun cl => r.cell rl cl := by
  have hw := dmigOneX_written ⟨true, sq⟩ enc d (lower d.name)
  have h9iff : ((Val.int d.form == Val.int 9) = true) ↔ d.single = true := by
    rw [beq_iff_eq, Val.int.injEq, ← form9_iff]; omega
  cases hi : dmigIndex ⟨true, sq⟩ (.int d.form) (.int d.ncol) (d.entries.map (·.1)) (d.cards.map (·.1)) with
  | none =>
    exfalso
    unfold dmigIndex at hi
    simp only [if_true] at hi
    split at hi <;> simp at hi
  | some rc =>
    obtain ⟨rows, cols⟩ := rc
    rw [hi] at hw
    simp only [Option.map_some] at hw
    refine ⟨_, hw, ?_⟩
    simp only
    -- the labels fed to the index builder are written labels
    have hrowsub : ∀ p ∈ d.entries.map (·.1), p ∈ d.rowids := by
      intro p hp
      obtain ⟨i, _, _, _, _, hr, _⟩ := (mem_entryRows d p).mp hp
      exact List.mem_of_getElem? hr
    have hcolsub : d.single = false → ∀ p ∈ d.cards.map (·.1), p ∈ d.colids := by
      intro hs p hp
      exact nzCol_mem d hs p ((nzCol_iff d p).mpr hp)
    have hc : if (Val.int d.form == Val.int 9) = true then Consistent (d.entries.map (·.1))
        else Consistent (d.entries.map (·.1) ++ d.cards.map (·.1)) := by
      unfold IdsConsistent at hcons
      split
      · exact hcons.mono (fun p hp => List.mem_append.mpr (Or.inl (hrowsub p hp)))
      · rename_i h9
        have hs : d.single = false := by
          cases hd : d.single
          · rfl
          · exact absurd (h9iff.mpr hd) h9
        rw [hs] at hcons
        simp only [Bool.false_eq_true, if_false] at hcons
        exact hcons.mono (fun p hp => by
          rcases List.mem_append.mp hp with hp | hp
          · exact List.mem_append.mpr (Or.inl (hrowsub p hp))
          · exact List.mem_append.mpr (Or.inr (hcolsub hs p hp)))
    obtain ⟨hs, hr, h9c, hcl, hsame⟩ := dmigIndex_expanded sq _ _ _ _ _ _ hi hc
    have hu := unionIdx_written ⟨true, sq⟩ d
    simp only at hu
    have hcell : ∀ rl cl,
        DmigRead.cell ⟨lower d.name, .int d.form, .int d.mtype, rows, cols, d.entries.map (d.encE enc)⟩ rl cl =
          (d.readFrame enc (lower d.name)).cell rl cl := by
      intro rl cl
      exact congrFun (congrFun (cell_congr _ (d.readFrame enc (lower d.name)) rfl rfl rfl) rl) cl
    -- membership of the labels of a non-zero term
    have hrowmem : ∀ q, q ∈ rows ↔ ∃ p, (NzRow d p ∨ (unionW d sq ∧ NzCol d p)) ∧ q ∈ expOf p := by
      intro q
      rw [hr q]
      constructor
      · rintro ⟨p, hp, hq⟩
        refine ⟨p, ?_, hq⟩
        rcases hp with hp | ⟨hun, hp⟩
        · left; rw [nzRow_iff d hshape]; split
          · exact Or.inl hp
          · exact hp
        · exact Or.inr ⟨hu.mp hun, (nzCol_iff d p).mpr hp⟩
      · rintro ⟨p, hp, hq⟩
        refine ⟨p, ?_, hq⟩
        rcases hp with hp | ⟨hun, hp⟩
        · rw [nzRow_iff d hshape] at hp
          split at hp
          · rename_i h6
            rcases hp with hp | hp
            · exact Or.inl hp
            · exact Or.inr ⟨hu.mpr (Or.inl h6), hp⟩
          · exact Or.inl hp
        · exact Or.inr ⟨hu.mpr hun, (nzCol_iff d p).mp hp⟩
    have hcolmem : d.single = false → ∀ q, q ∈ cols ↔ ∃ p, (NzCol d p ∨ (unionW d sq ∧ NzRow d p)) ∧ q ∈ expOf p := by
      intro hsingle q
      have h9 : (Val.int d.form == Val.int 9) = false := by
        cases hb : (Val.int d.form == Val.int 9)
        · rfl
        · rw [h9iff.mp hb] at hsingle; exact absurd hsingle (by decide)
      rw [hcl h9 q]
      constructor
      · rintro ⟨p, hp, hq⟩
        refine ⟨p, ?_, hq⟩
        rcases hp with hp | ⟨hun, hp⟩
        · exact Or.inl ((nzCol_iff d p).mpr hp)
        · right; refine ⟨hu.mp hun, ?_⟩
          rw [nzRow_iff d hshape]; split
          · exact Or.inl hp
          · exact hp
      · rintro ⟨p, hp, hq⟩
        refine ⟨p, ?_, hq⟩
        rcases hp with hp | ⟨hun, hp⟩
        · exact Or.inl ((nzCol_iff d p).mp hp)
        · rw [nzRow_iff d hshape] at hp
          split at hp
          · rcases hp with hp | hp
            · exact Or.inr ⟨hu.mpr hun, hp⟩
            · exact Or.inl hp
          · exact Or.inr ⟨hu.mpr hun, hp⟩
    refine ⟨hs, hrowmem, ?_, hcolmem, fun hun => hsame (hu.mpr hun), ?_, ?_, ?_, rfl⟩
    · intro hsingle
      obtain ⟨n, hn, hcols⟩ := h9c (h9iff.mpr hsingle)
      rw [hcols]; injection hn with hn; rw [hn]
    · intro i j rl v hi' hj hat
      rw [hcell]
      exact cell_written enc d _ hshape hrn hcn i j rl v hi' hj hat
    · intro i j rl v hi' hj hat hv
      have hrl : rl ∈ d.rowids := List.mem_of_getElem? hi'
      refine ⟨(hrowmem rl).mpr ⟨rl, Or.inl ⟨i, j, v, hi', hj, hat, hv⟩, self_mem_expOf rl (hdof.1 rl hrl)⟩, ?_⟩
      cases hsingle : d.single
      · have hcm : d.colLabel j ∈ d.colids := nzCol_mem d hsingle _ ⟨i, j, v, hj, rfl, hat, hv⟩
        have hd2 := hdof.2
        rw [hsingle] at hd2
        simp only [Bool.false_eq_true, if_false] at hd2
        exact (hcolmem hsingle _).mpr ⟨d.colLabel j, Or.inl ⟨i, j, v, hj, rfl, hat, hv⟩,
          self_mem_expOf _ (hd2 _ hcm)⟩
      · obtain ⟨n, hn, hcols⟩ := h9c (h9iff.mpr hsingle)
        injection hn with hn
        rw [hcols, mem_colRange, ← hn]
        have hd2 := hdof.2
        rw [hsingle] at hd2
        simp only [if_true] at hd2
        have hcj : d.colids[j]'hj ∈ d.colids := List.getElem_mem hj
        have hlab : d.colLabel j = ((d.colids[j]'hj).1, 0) := by
          simp [Dmig.colLabel, hsingle, List.getD_eq_getElem?_getD, List.getElem?_eq_getElem hj]
        rw [hlab]
        exact ⟨rfl, hd2 (d.colids[j]'hj) hcj, (dmig_ncol_form9 d hsingle).1 (d.colids[j]'hj) hcj⟩
    · intro rl cl hno
      rw [hcell]
      exact cell_zero_elsewhere enc d _ hshape rl cl hno

/-- **`rddmig(wtdmig(X), square=True)`** (`expanded=False`), forms 1/2/6/9, types 1–4: the index is the plain
index — for form 1 (and, as always, form 6) the union of the labels of the non-null rows and columns on both
axes; every written term sits at its own (row id, column id), all other positions are 0 — so the union
index of a form-1 matrix is filled with zeros and NOT mirrored (symmetric completion is form 6 only); and
for every form other than 1 the result is exactly the plain result. -/
theorem rddmig_square_spec (enc : Int → Val) (d : Dmig) (sq : Bool) (hshape : d.m.length = d.rowids.length)
    (hrn : d.rowids.Nodup) (hcn : d.ColsNodup) :
    ∃ r, dmigOneX ⟨false, sq⟩ d.headerVals (lower d.name) (d.written enc) = some r ∧
      (KeySorted r.rows ∧ r.rows.Nodup ∧ KeySorted r.cols ∧ r.cols.Nodup) ∧
      (∀ q, q ∈ r.rows ↔ NzRow d q ∨ (unionW d sq ∧ NzCol d q)) ∧
      (∀ q, q ∈ r.cols ↔ NzCol d q ∨ (unionW d sq ∧ NzRow d q)) ∧
      (unionW d sq → r.cols = r.rows) ∧
      (∀ i j rl v, d.rowids[i]? = some rl → j < d.colids.length → d.At i j v →
        r.cell rl (d.colLabel j) =
          if v = (0, 0) then (Val.int 0, Val.int 0) else (enc v.1, if d.mtype < 3 then Val.int 0 else enc v.2)) ∧
      (∀ rl cl, (¬ ∃ i j v, d.rowids[i]? = some rl ∧ j < d.colids.length ∧ d.colLabel j = cl ∧ d.At i j v ∧ v ≠ (0, 0)) →
        r.cell rl cl = (Val.int 0, Val.int 0)) ∧
      ((sq = false ∨ d.form ≠ 1) → r = d.readFrame enc (lower d.name)) ∧
      r.frame = r.rows.map fun rl => r.cols.map fun cl => r.cell rl cl := by
  obtain ⟨r, hx, hcell, hs, hr, hcl, hsame, heq⟩ :=
    rddmig_square_index sq d.headerVals (lower d.name) (d.written enc) _ (dmigOne_written enc d (lower d.name))
  have hu := unionIdx_written ⟨false, sq⟩ d
  simp only at hu
  have hform : (d.readFrame enc (lower d.name)).form = Val.int d.form := rfl
  rw [hform] at hr hcl hsame heq
  refine ⟨r, hx, hs, ?_, ?_, fun h => hsame (hu.mpr h), ?_, ?_, ?_, rfl⟩
  · intro q
    rw [hr q, mem_readFrame_rows enc d _ hshape, mem_readFrame_cols enc d _ hshape, hu]
    rfl
  · intro q
    rw [hcl q, mem_readFrame_rows enc d _ hshape, mem_readFrame_cols enc d _ hshape, hu]
    rfl
  · intro i j rl v hi hj hat
    rw [hcell]
    exact cell_written enc d _ hshape hrn hcn i j rl v hi hj hat
  · intro rl cl hno
    rw [hcell]
    exact cell_zero_elsewhere enc d _ hshape rl cl hno
  · rintro (h | h)
    · exact heq (Or.inl h)
    · refine heq (Or.inr ?_)
      intro e
      injection e with e
      exact h (by omega)

/-- on the physical lines of `wtdmig` (clean frame: `dmig_lines_cards`): `rddmig(f, expanded, square)`
returns exactly one frame, the one the two theorems above describe with `enc` = `nas_sscanf` of the
written value field -/
theorem rddmig_options_on_lines (o : RdOpt) (d : Dmig) (hc : d.Clean) :
    rdDmigX o d.lines = (dmigOneX o d.headerVals (lower d.name) (d.written d.encT)).map fun r => [r] :=
  rdDmigX_lines o d hc

/-! ### non-vacuity and the three behaviours side by side -/

/-- a form-1 matrix (asymmetric 2×2 over rows (1,3), (10,0) and columns (1,1), (10,0); the docstring's
example made square) -/
def exSq : Dmig :=
  { name := txt "MAT", single := false, mtype := 2, rowids := [(1, 3), (10, 0)], colids := [(1, 1), (10, 0)],
    m := [[(12, 0), (0, 0)], [(100, 0), (7, 0)]] }

example : exSq.form = 1 ∧ DofOK exSq ∧ IdsConsistent exSq ∧ exSq.rowids.Nodup := by
  refine ⟨by decide, ⟨by decide, by decide⟩, ?_, by decide⟩
  unfold IdsConsistent Consistent; decide

/-- plain: rows (1,3), (10,0); columns (1,1), (10,0) -/
example : (dmigOneX ⟨false, false⟩ exSq.headerVals (txt "mat") (exSq.written Val.int)).map (fun r => (r.rows, r.cols)) =
    some ([(1, 3), (10, 0)], [(1, 1), (10, 0)]) := by rw [dmigOneX_written]; decide
/-- square: the union (1,1), (1,3), (10,0) on both axes, zero filled, NOT mirrored: the cell at row (1,1),
column (1,3) stays 0 although row (1,3), column (1,1) holds 12 -/
example : (dmigOneX ⟨false, true⟩ exSq.headerVals (txt "mat") (exSq.written Val.int)).map (fun r => (r.rows, r.frame)) =
    some ([(1, 1), (1, 3), (10, 0)],
      [[(.int 0, .int 0), (.int 0, .int 0), (.int 0, .int 0)],
       [(.int 12, .int 0), (.int 0, .int 0), (.int 0, .int 0)],
       [(.int 100, .int 0), (.int 0, .int 0), (.int 7, .int 0)]]) := by rw [dmigOneX_written]; decide
/-- expanded: all six DOF of grid 1, the single label of scalar point 10 -/
example : (dmigOneX ⟨true, false⟩ exSq.headerVals (txt "mat") (exSq.written Val.int)).map (fun r => (r.rows, r.cols)) =
    some ([(1, 1), (1, 2), (1, 3), (1, 4), (1, 5), (1, 6), (10, 0)], [(1, 1), (1, 2), (1, 3), (1, 4), (1, 5), (1, 6), (10, 0)]) := by
  rw [dmigOneX_written]; decide

/-- form 9 with column numbers 2 and 5: `expanded=True` gives the columns 1 … 5, the written columns at
their own numbers, zeros elsewhere -/
example :
    let d : Dmig := { name := ['P'], single := true, mtype := 1, rowids := [(7, 0)], colids := [(2, 0), (5, 0)],
                      m := [[(3, 0), (4, 0)]] }
    (dmigOneX ⟨true, false⟩ d.headerVals ['p'] (d.written Val.int)).map (fun r => (r.cols, r.frame)) =
      some ([(1, 0), (2, 0), (3, 0), (4, 0), (5, 0)],
        [[(.int 0, .int 0), (.int 3, .int 0), (.int 0, .int 0), (.int 0, .int 0), (.int 4, .int 0)]]) := by
  intro d; rw [dmigOneX_written]; decide

/-- the consistency hypothesis is what the reader needs: an id first met as a scalar point (DOF 0) is not
expanded when it comes again with DOF 3 — the label (5, 3) is then missing from the index -/
example : (expandAll ([], []) [(5, 0), (5, 3)]).2 = [(5, 0)] := by decide

end PyYetiVerif.C13
