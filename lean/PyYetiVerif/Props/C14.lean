import PyYetiVerif.Lemmas.Coord
/-!
# C14 — coordinate systems and rigid-body geometry are mutually consistent

Property theorems only (helper lemmas live in `Lemmas/Coord.lean`).  Everything is stated about the
polymorphic definitions of `Model/Coord.lean` instantiated at `ℝ` (`atan2 y x := Complex.arg (x + iy)`,
angles in degrees); the same definitions run at `Float` in `Drivers/C14.lean` and are compared with
pyyeti/nastran/n2p.py by the correspondence check.  Round-off is outside these statements.

* `abc_orthonormal`, `mkCoord_orthonormal`, `chain_orthonormal`: the A-B-C construction gives a
  right-handed orthonormal triad (z along AB, C in the +x half of the xz-plane), and so does every
  system of a resolved chain whose cards are non-collinear (read in their reference system).
* `cyl_roundtrip`, `cyl_roundtrip_inv`, `sph_roundtrip`: forward ∘ inverse is the identity off the
  polar axis; inverse ∘ forward for cylindrical coordinates in the principal range.
* `chain_consistent_point / _rect / _cyl`, `chain_compose`: a point entered in a system and queried
  back in it is itself; querying in another rectangular system composes the two rigid maps.
* `rb_is_rigid`, `local_frame_orthonormal`: the `rbgeom_uset` rows of a grid are
  `R_gridᵀ · [I, -(p - ref)×; 0, I]` — applied to a rigid motion (translation `t`, rotation `ω` of the
  reference point) they give `R_gridᵀ (t + ω × (p - ref))`, `R_gridᵀ ω`, with `R_grid` the unit tangent
  frame of the coordinate curves at the grid (rectangular / cylindrical / spherical), which is a
  right-handed orthonormal triad.
* `rbmove_consistent`, `rbmove_rows`: `rbmove` is reference-point consistent (every branch of
  `rbgeom_uset`, also on the polar axis).
* `rbcoords_recovers`: `rbcoords` returns `p - ref`.
* `replace_basic_rigid`: `replace_basic_cs` preserves inter-grid distances, relative local-frame
  orientations and every grid's coordinates in its own (moved) output system.
-/
namespace PyYetiVerif.C14
open PyYetiVerif.Coord

/-! ## A-B-C construction and chains -/

theorem abc_orthonormal (a b c : V3 ℝ) (h : NonCollinear a b c) :
    ∃ x y z : V3 ℝ, abcTriad a b c = M3.ofCols x y z ∧
      z = normalize (b.sub a) ∧ y = normalize (z.cross (c.sub a)) ∧ x = y.cross z ∧
      x.dot x = 1 ∧ y.dot y = 1 ∧ z.dot z = 1 ∧ x.dot y = 0 ∧ y.dot z = 0 ∧ x.dot z = 0 ∧
      x.cross y = z :=
  abcTriad_spec a b c h

theorem mkCoord_orthonormal (ref : CoordInfo ℝ) (typ : CType) (A B C : V3 ℝ) (hT : IsFrame ref.T)
    (h : NonCollinear (toRect ref.typ A) (toRect ref.typ B) (toRect ref.typ C)) :
    IsFrame (mkCoord ref typ A B C).T :=
  mkCoord_isFrame ref typ A B C hT h

/-- every system of a resolved chain (any depth, any type mix) has a right-handed orthonormal
transform, provided each card's three points, read in its reference system, are not collinear -/
theorem chain_orthonormal (specs : List (CsSpec ℝ)) (l : List (CoordInfo ℝ)) (h : resolve specs = some l)
    (hnc : ∀ pre s suf acc r, specs = pre ++ s :: suf → resolve pre = some acc → acc[s.ref]? = some r →
        NonCollinear (toRect r.typ s.A) (toRect r.typ s.B) (toRect r.typ s.C)) :
    ∀ ci ∈ l, IsFrame ci.T :=
  chain_frames specs l h hnc

example : NonCollinear (⟨0, 0, 0⟩ : V3 ℝ) ⟨0, 0, 1⟩ ⟨1, 0, 0⟩ := by
  simp [NonCollinear, V3.sub, V3.cross, V3.zero]

/-! ## forward / inverse maps -/

theorem cyl_roundtrip (g : V3 ℝ) (h : 0 < g.x * g.x + g.y * g.y) :
    toRect .cyl (fromRect .cyl g) = g :=
  cyl_fwd_inv g h

theorem cyl_roundtrip_inv (a : V3 ℝ) (hr : 0 < a.x) (hlo : -180 < a.y) (hhi : a.y ≤ 180) :
    fromRect .cyl (toRect .cyl a) = a :=
  cyl_inv_fwd a hr hlo hhi

theorem sph_roundtrip (g : V3 ℝ) (h : 0 < g.x * g.x + g.y * g.y) :
    toRect .sph (fromRect .sph g) = g :=
  sph_fwd_inv g h

example : (0 : ℝ) < (⟨1, 0, 0⟩ : V3 ℝ).x * (⟨1, 0, 0⟩ : V3 ℝ).x + (⟨1, 0, 0⟩ : V3 ℝ).y * (⟨1, 0, 0⟩ : V3 ℝ).y := by
  norm_num

/-- a basic point queried in a system (of any type) and entered again in it is the same point -/
theorem chain_consistent_point (ci : CoordInfo ℝ) (p : V3 ℝ) (hT : IsFrame ci.T)
    (hoff : ci.typ ≠ .rect →
      0 < (ci.T.transpose.mulVec (p.sub ci.origin)).x * (ci.T.transpose.mulVec (p.sub ci.origin)).x
        + (ci.T.transpose.mulVec (p.sub ci.origin)).y * (ci.T.transpose.mulVec (p.sub ci.origin)).y) :
    locBasic ci (getCoordinates ci p) = p := by
  have key : ci.origin.add (ci.T.mulVec (ci.T.transpose.mulVec (p.sub ci.origin))) = p := by
    rw [hT.mulVec_transpose]; coord_ring
  unfold locBasic getCoordinates
  cases hc : ci.typ with
  | rect => simpa [toRect, fromRect] using key
  | cyl => rw [cyl_fwd_inv _ (hoff (by simp [hc]))]; exact key
  | sph => rw [sph_fwd_inv _ (hoff (by simp [hc]))]; exact key

theorem chain_consistent_rect (ci : CoordInfo ℝ) (a : V3 ℝ) (hT : IsFrame ci.T) (hc : ci.typ = .rect) :
    getCoordinates ci (locBasic ci a) = a := by
  unfold locBasic getCoordinates
  rw [hc, add_sub_cancel_left3, hT.transpose_mulVec]; rfl

theorem chain_consistent_cyl (ci : CoordInfo ℝ) (a : V3 ℝ) (hT : IsFrame ci.T) (hc : ci.typ = .cyl)
    (hr : 0 < a.x) (hlo : -180 < a.y) (hhi : a.y ≤ 180) :
    getCoordinates ci (locBasic ci a) = a := by
  unfold locBasic getCoordinates
  rw [hc, add_sub_cancel_left3, hT.transpose_mulVec]
  exact cyl_inv_fwd a hr hlo hhi

/-- entering in rectangular system 1 and querying in rectangular system 2 composes the rigid maps -/
theorem chain_compose (c1 c2 : CoordInfo ℝ) (a : V3 ℝ) (h1 : c1.typ = .rect) (h2 : c2.typ = .rect) :
    getCoordinates c2 (locBasic c1 a)
      = (c2.T.transpose.mulVec (c1.origin.sub c2.origin)).add ((c2.T.transpose.mul c1.T).mulVec a) := by
  unfold locBasic getCoordinates
  rw [h1, h2]
  simp only [toRect, fromRect]
  coord_ring

/-! ## rigid-body modes -/

/-- `rbgeom_uset` rows of a grid applied to a rigid motion of the reference point -/
theorem rb_is_rigid (co : CoordInfo ℝ) (p ref t ω : V3 ℝ) (h : FixupsActive co p) :
    gridRb co p ref = Rb.lmul (localFrameT co p) (rigid (p.sub ref)) ∧
    (gridRb co p ref).apply t ω
      = ((localFrameT co p).mulVec (t.add (ω.cross (p.sub ref))), (localFrameT co p).mulVec ω) := by
  rw [gridRb_factor co p ref h]
  exact ⟨rfl, lmul_rigid_apply _ _ _ _⟩

/-- the local frame used by `rb_is_rigid` is a right-handed orthonormal triad -/
theorem local_frame_orthonormal (co : CoordInfo ℝ) (p : V3 ℝ) (hT : IsFrame co.T)
    (h : FixupsActive co p) : IsFrame (localFrameT co p).transpose :=
  localFrame_isFrame co p hT h.offAxis

/-- transformed to basic by the grid's local frame, the rows are the geometry-only modes of `rbgeom` -/
theorem rb_matches_geometry (co : CoordInfo ℝ) (p ref : V3 ℝ) (hT : IsFrame co.T)
    (h : FixupsActive co p) :
    Rb.lmul (localFrameT co p).transpose (gridRb co p ref) = rigid (p.sub ref) := by
  have hf := (localFrame_isFrame co p hT h.offAxis).mul_transpose
  rw [transpose_transpose] at hf
  rw [gridRb_factor co p ref h, lmul_lmul, hf, lmul_one]

example : FixupsActive (⟨.cyl, V3.zero, M3.one⟩ : CoordInfo ℝ) ⟨1, 0, 0⟩ := by
  simp only [FixupsActive]
  coord_simp
  norm_num

example : FixupsActive (⟨.sph, V3.zero, M3.one⟩ : CoordInfo ℝ) ⟨1, 0, 0⟩ := by
  simp only [FixupsActive]
  coord_simp
  norm_num

theorem rbmove_consistent (co : CoordInfo ℝ) (p old new : V3 ℝ) :
    (gridRb co p old).mul (rigid (old.sub new)) = gridRb co p new :=
  gridRb_mul_rigid co p old new

/-- the 6x6 block product is what `rbmove` computes row by row -/
theorem rbmove_rows (r : Rb ℝ) (d : V3 ℝ) : (r.mul (rigid d)).rows = r.rows.map (rbmoveRow d) :=
  rows_mul_rigid r d

theorem rbcoords_recovers (co : CoordInfo ℝ) (p ref : V3 ℝ) (hT : IsFrame co.T)
    (h : FixupsActive co p) : rbcoordsGrid (gridRb co p ref) = p.sub ref := by
  rw [gridRb_factor co p ref h]
  apply rbcoords_lmul_rigid
  have hf := localFrame_isFrame co p hT h.offAxis
  rw [← det_transpose, hf.2]; exact one_ne_zero

/-! ## replacing the basic system -/

theorem replace_basic_rigid (A B C : V3 ℝ) (hABC : NonCollinear A B C) (g h : GridR ℝ) :
    ((replaceBasic A B C g).p.sub (replaceBasic A B C h).p).dot
        ((replaceBasic A B C g).p.sub (replaceBasic A B C h).p) = (g.p.sub h.p).dot (g.p.sub h.p) ∧
    (replaceBasic A B C g).co.T.transpose.mul (replaceBasic A B C h).co.T = g.co.T.transpose.mul h.co.T ∧
    (replaceBasic A B C g).co.T.transpose.mulVec
        ((replaceBasic A B C g).p.sub (replaceBasic A B C g).co.origin)
      = g.co.T.transpose.mulVec (g.p.sub g.co.origin) := by
  have hF : IsFrame (mkCoord (basic : CoordInfo ℝ) .rect A B C).T :=
    mkCoord_isFrame basic .rect A B C IsFrame.one hABC
  simp only [replaceBasic]
  generalize (mkCoord (basic : CoordInfo ℝ) .rect A B C).T = T at hF
  have e1 : ∀ u v : V3 ℝ, ((T.mulVec u).add A).sub ((T.mulVec v).add A) = T.mulVec (u.sub v) := by
    intro u v; coord_ring
  refine ⟨?_, ?_, ?_⟩
  · rw [e1, hF.dot_mulVec]
  · rw [transpose_mul, mul_assoc3, ← mul_assoc3 T.transpose, hF.1, one_mul3]
  · rw [e1, transpose_mul, ← mulVec_mulVec, hF.transpose_mulVec]

end PyYetiVerif.C14
