import PyYetiVerif.Lemmas.Coord
import PyYetiVerif.Lemmas.CoordSph
import PyYetiVerif.Lemmas.CoordRbe3
import PyYetiVerif.Lemmas.CoordRbe3Um
import PyYetiVerif.Lemmas.CoordChain
import PyYetiVerif.Lemmas.CoordBuild
import PyYetiVerif.Lemmas.CoordRbe3Wrap
import PyYetiVerif.Lemmas.CoordAxis
import PyYetiVerif.Lemmas.CoordReal
/-!
# C14 — coordinate systems and rigid-body geometry are mutually consistent

Property theorems only (helper lemmas live in `Lemmas/Coord.lean`).  Everything is stated about the
polymorphic definitions of `Model/Coord.lean` instantiated at `ℝ` (`atan2 y x := Complex.arg (x + iy)`,
angles in degrees); the same definitions run at `Float` in `Drivers/C14.lean` and are compared with
pyyeti/nastran/n2p.py by the correspondence check.  Round-off is outside these statements.

* `abc_orthonormal`, `mkCoord_orthonormal`, `chain_orthonormal`: the A-B-C construction gives a
  right-handed orthonormal triad (z along AB, C in the +x half of the xz-plane), and so does every
  system of a resolved chain whose cards are non-collinear (read in their reference system).
* `cyl_roundtrip`, `cyl_roundtrip_inv`, `sph_roundtrip`: forward ∘ inverse is the identity off the
  polar axis; inverse ∘ forward for cylindrical coordinates in the principal range.
* `chain_consistent_point / _rect / _cyl`, `chain_compose`: a point entered in a system and queried
  back in it is itself; querying in another rectangular system composes the two rigid maps.
* `rb_is_rigid`, `local_frame_orthonormal`: the `rbgeom_uset` rows of a grid are
  `R_gridᵀ · [I, -(p - ref)×; 0, I]` — applied to a rigid motion (translation `t`, rotation `ω` of the
  reference point) they give `R_gridᵀ (t + ω × (p - ref))`, `R_gridᵀ ω`, with `R_grid` the unit tangent
  frame of the coordinate curves at the grid (rectangular / cylindrical / spherical), which is a
  right-handed orthonormal triad.
* `rbmove_consistent`, `rbmove_rows`: `rbmove` is reference-point consistent (every branch of
  `rbgeom_uset`, also on the polar axis).
* `rbcoords_recovers`: `rbcoords` returns `p - ref`.
* `replace_basic_rigid`: `replace_basic_cs` preserves inter-grid distances, relative local-frame
  orientations and every grid's coordinates in its own (moved) output system.
* `sph_roundtrip_inv`, `chain_consistent_sph`, `sph_branch_safe`, `sph_branch_abs_needed`: inverse ∘ forward
  for spherical coordinates in the principal range; the `|sin φ| > |cos φ|` choice always divides by a
  number of magnitude ≥ 1/√2, the choice without absolute values divides by 0 at φ = 180°.
* `rbcoords_recovers_all`: `rbcoords` needs only an orthonormal output transform (every branch).
* `rbe3_normal_invertible`, `rbe3_alg_reproduces`, `rbe3_reproduces_rb`, `rbe3_rigid_motion`: `formrbe3`
  maps the rigid-body modes (relative to any reference point) of the independent DOF to those of the
  dependent DOF when the weights are positive and the independent rows have full column rank (the
  normal-equations argument), for every exact `solve`; `rbe3_um_indep`, `rbe3_um_mixed`, `rbe3_um_dep`: the
  three `UM_List` re-partitions keep that property; `um_plan_branch`, `um_plan_indep`, `um_plan_dep`: the
  branch the DOF bookkeeping takes is determined by where the m-set DOF lie; `rbe3_um_any`,
  `rbe3_um_any_grids`: branch choice, re-partition and final reordering together, for every admissible
  `UM_List`.
* `chain_order_irrelevant`, `chain_circular_refused`, `chain_resolved`: `build_coords` does not depend on
  the order of the cards, refuses reference cycles / undefined references, and every entry of its
  dictionary is the A-B-C construction of its card relative to the entry of the card's reference.
* `build_coords_resolves_iff`, `build_coords_unresolved_error`, `build_coords_levels_are_depths`,
  `build_coords_order_is_topological`, `build_coords_independent_of_card_order`, `build_coords_duplicates`:
  `build_coords` as a whole (id sort, duplicate handling, the level loop with `ref_ids` = the systems resolved in
  the last pass, `argsort` by level, `mkusetcoordinfo` in that order): it returns a dictionary iff cards with the
  same id are equal and every reference chain ends in 0; otherwise the error is the one named; the level of a card
  is the length of its reference chain; every card is processed after the card of its reference system, for any
  ids and any depth; the result depends only on the set of cards.
* `formrbe3_is_rbe3Grid_on_sorted_lists`, `formrbe3_row_order`, `formrbe3_group_order`, `formrbe3_um_order`,
  `formrbe3_weights_scale_invariant`, `formrbe3_rigid_body_exact`: the list-level packaging of `formrbe3`
  (`Ind_List` / `UM_List` expansion, look-up of uset rows, sorting into uset order, partition of the table).
* `cyl_roundtrip_everywhere`, `sph_roundtrip_everywhere`, `cyl_axis_convention`, `sph_axis_convention`,
  `chain_consistent_point_everywhere`, `rb_axis_convention`: the polar axis; `rbgeom_uset_axis_angles_exact`:
  azimuths of exactly 0 / 90 / 180 / 270 degrees.
-/
namespace PyYetiVerif.C14
open PyYetiVerif.Coord

/-! ## A-B-C construction and chains -/

theorem abc_orthonormal (a b c : V3 ℝ) (h : NonCollinear a b c) :
    ∃ x y z : V3 ℝ, abcTriad a b c = M3.ofCols x y z ∧
      z = normalize (b.sub a) ∧ y = normalize (z.cross (c.sub a)) ∧ x = y.cross z ∧
      x.dot x = 1 ∧ y.dot y = 1 ∧ z.dot z = 1 ∧ x.dot y = 0 ∧ y.dot z = 0 ∧ x.dot z = 0 ∧
      x.cross y = z :=
  abcTriad_spec a b c h

theorem mkCoord_orthonormal (ref : CoordInfo ℝ) (typ : CType) (A B C : V3 ℝ) (hT : IsFrame ref.T)
    (h : NonCollinear (toRect ref.typ A) (toRect ref.typ B) (toRect ref.typ C)) :
    IsFrame (mkCoord ref typ A B C).T :=
  mkCoord_isFrame ref typ A B C hT h

/-- every system of a resolved chain (any depth, any type mix) has a right-handed orthonormal
transform, provided each card's three points, read in its reference system, are not collinear -/
theorem chain_orthonormal (specs : List (CsSpec ℝ)) (l : List (CoordInfo ℝ)) (h : resolve specs = some l)
    (hnc : ∀ pre s suf acc r, specs = pre ++ s :: suf → resolve pre = some acc → acc[s.ref]? = some r →
        NonCollinear (toRect r.typ s.A) (toRect r.typ s.B) (toRect r.typ s.C)) :
    ∀ ci ∈ l, IsFrame ci.T :=
  chain_frames specs l h hnc

example : NonCollinear (⟨0, 0, 0⟩ : V3 ℝ) ⟨0, 0, 1⟩ ⟨1, 0, 0⟩ := by
  simp [NonCollinear, V3.sub, V3.cross, V3.zero]

/-! ## forward / inverse maps -/

theorem cyl_roundtrip (g : V3 ℝ) (h : 0 < g.x * g.x + g.y * g.y) :
    toRect .cyl (fromRect .cyl g) = g :=
  cyl_fwd_inv g h

theorem cyl_roundtrip_inv (a : V3 ℝ) (hr : 0 < a.x) (hlo : -180 < a.y) (hhi : a.y ≤ 180) :
    fromRect .cyl (toRect .cyl a) = a :=
  cyl_inv_fwd a hr hlo hhi

theorem sph_roundtrip (g : V3 ℝ) (h : 0 < g.x * g.x + g.y * g.y) :
    toRect .sph (fromRect .sph g) = g :=
  sph_fwd_inv g h

example : (0 : ℝ) < (⟨1, 0, 0⟩ : V3 ℝ).x * (⟨1, 0, 0⟩ : V3 ℝ).x + (⟨1, 0, 0⟩ : V3 ℝ).y * (⟨1, 0, 0⟩ : V3 ℝ).y := by
  norm_num

/-- a basic point queried in a system (of any type) and entered again in it is the same point -/
theorem chain_consistent_point (ci : CoordInfo ℝ) (p : V3 ℝ) (hT : IsFrame ci.T)
    (hoff : ci.typ ≠ .rect →
      0 < (ci.T.transpose.mulVec (p.sub ci.origin)).x * (ci.T.transpose.mulVec (p.sub ci.origin)).x
        + (ci.T.transpose.mulVec (p.sub ci.origin)).y * (ci.T.transpose.mulVec (p.sub ci.origin)).y) :
    locBasic ci (getCoordinates ci p) = p := by
  have key : ci.origin.add (ci.T.mulVec (ci.T.transpose.mulVec (p.sub ci.origin))) = p := by
    rw [hT.mulVec_transpose]; coord_ring
  unfold locBasic getCoordinates
  cases hc : ci.typ with
  | rect => simpa [toRect, fromRect] using key
  | cyl => rw [cyl_fwd_inv _ (hoff (by simp [hc]))]; exact key
  | sph => rw [sph_fwd_inv _ (hoff (by simp [hc]))]; exact key

theorem chain_consistent_rect (ci : CoordInfo ℝ) (a : V3 ℝ) (hT : IsFrame ci.T) (hc : ci.typ = .rect) :
    getCoordinates ci (locBasic ci a) = a := by
  unfold locBasic getCoordinates
  rw [hc, add_sub_cancel_left3, hT.transpose_mulVec]; rfl

theorem chain_consistent_cyl (ci : CoordInfo ℝ) (a : V3 ℝ) (hT : IsFrame ci.T) (hc : ci.typ = .cyl)
    (hr : 0 < a.x) (hlo : -180 < a.y) (hhi : a.y ≤ 180) :
    getCoordinates ci (locBasic ci a) = a := by
  unfold locBasic getCoordinates
  rw [hc, add_sub_cancel_left3, hT.transpose_mulVec]
  exact cyl_inv_fwd a hr hlo hhi

/-- entering in rectangular system 1 and querying in rectangular system 2 composes the rigid maps -/
theorem chain_compose (c1 c2 : CoordInfo ℝ) (a : V3 ℝ) (h1 : c1.typ = .rect) (h2 : c2.typ = .rect) :
    getCoordinates c2 (locBasic c1 a)
      = (c2.T.transpose.mulVec (c1.origin.sub c2.origin)).add ((c2.T.transpose.mul c1.T).mulVec a) := by
  unfold locBasic getCoordinates
  rw [h1, h2]
  simp only [toRect, fromRect]
  coord_ring

/-! ## rigid-body modes -/

/-- `rbgeom_uset` rows of a grid applied to a rigid motion of the reference point -/
theorem rb_is_rigid (co : CoordInfo ℝ) (p ref t ω : V3 ℝ) (h : FixupsActive co p) :
    gridRb co p ref = Rb.lmul (localFrameT co p) (rigid (p.sub ref)) ∧
    (gridRb co p ref).apply t ω
      = ((localFrameT co p).mulVec (t.add (ω.cross (p.sub ref))), (localFrameT co p).mulVec ω) := by
  rw [gridRb_factor co p ref h]
  exact ⟨rfl, lmul_rigid_apply _ _ _ _⟩

/-- the local frame used by `rb_is_rigid` is a right-handed orthonormal triad -/
theorem local_frame_orthonormal (co : CoordInfo ℝ) (p : V3 ℝ) (hT : IsFrame co.T)
    (h : FixupsActive co p) : IsFrame (localFrameT co p).transpose :=
  localFrame_isFrame co p hT h.offAxis

/-- transformed to basic by the grid's local frame, the rows are the geometry-only modes of `rbgeom` -/
theorem rb_matches_geometry (co : CoordInfo ℝ) (p ref : V3 ℝ) (hT : IsFrame co.T)
    (h : FixupsActive co p) :
    Rb.lmul (localFrameT co p).transpose (gridRb co p ref) = rigid (p.sub ref) := by
  have hf := (localFrame_isFrame co p hT h.offAxis).mul_transpose
  rw [transpose_transpose] at hf
  rw [gridRb_factor co p ref h, lmul_lmul, hf, lmul_one]

example : FixupsActive (⟨.cyl, V3.zero, M3.one⟩ : CoordInfo ℝ) ⟨1, 0, 0⟩ := by
  simp only [FixupsActive]
  coord_simp
  norm_num

example : FixupsActive (⟨.sph, V3.zero, M3.one⟩ : CoordInfo ℝ) ⟨1, 0, 0⟩ := by
  simp only [FixupsActive]
  coord_simp
  norm_num

theorem rbmove_consistent (co : CoordInfo ℝ) (p old new : V3 ℝ) :
    (gridRb co p old).mul (rigid (old.sub new)) = gridRb co p new :=
  gridRb_mul_rigid co p old new

/-- the 6x6 block product is what `rbmove` computes row by row -/
theorem rbmove_rows (r : Rb ℝ) (d : V3 ℝ) : (r.mul (rigid d)).rows = r.rows.map (rbmoveRow d) :=
  rows_mul_rigid r d

theorem rbcoords_recovers (co : CoordInfo ℝ) (p ref : V3 ℝ) (hT : IsFrame co.T)
    (h : FixupsActive co p) : rbcoordsGrid (gridRb co p ref) = p.sub ref := by
  rw [gridRb_factor co p ref h]
  apply rbcoords_lmul_rigid
  have hf := localFrame_isFrame co p hT h.offAxis
  rw [← det_transpose, hf.2]; exact one_ne_zero

/-! ## replacing the basic system -/

theorem replace_basic_rigid (A B C : V3 ℝ) (hABC : NonCollinear A B C) (g h : GridR ℝ) :
    ((replaceBasic A B C g).p.sub (replaceBasic A B C h).p).dot
        ((replaceBasic A B C g).p.sub (replaceBasic A B C h).p) = (g.p.sub h.p).dot (g.p.sub h.p) ∧
    (replaceBasic A B C g).co.T.transpose.mul (replaceBasic A B C h).co.T = g.co.T.transpose.mul h.co.T ∧
    (replaceBasic A B C g).co.T.transpose.mulVec
        ((replaceBasic A B C g).p.sub (replaceBasic A B C g).co.origin)
      = g.co.T.transpose.mulVec (g.p.sub g.co.origin) := by
  have hF : IsFrame (mkCoord (basic : CoordInfo ℝ) .rect A B C).T :=
    mkCoord_isFrame basic .rect A B C IsFrame.one hABC
  simp only [replaceBasic]
  generalize (mkCoord (basic : CoordInfo ℝ) .rect A B C).T = T at hF
  have e1 : ∀ u v : V3 ℝ, ((T.mulVec u).add A).sub ((T.mulVec v).add A) = T.mulVec (u.sub v) := by
    intro u v; coord_ring
  refine ⟨?_, ?_, ?_⟩
  · rw [e1, hF.dot_mulVec]
  · rw [transpose_mul, mul_assoc3, ← mul_assoc3 T.transpose, hF.1, one_mul3]
  · rw [e1, transpose_mul, ← mulVec_mulVec, hF.transpose_mulVec]

/-! ## spherical coordinates: inverse ∘ forward, and the branch choice -/

/-- `getcoordinates (addgrid a) = a` in a spherical system for `r > 0`, `0 < θ < 180`, `-180 < φ ≤ 180` -/
theorem sph_roundtrip_inv (a : V3 ℝ) (hr : 0 < a.x) (hth0 : 0 < a.y) (hth1 : a.y < 180)
    (hlo : -180 < a.z) (hhi : a.z ≤ 180) :
    fromRect .sph (toRect .sph a) = a :=
  sph_inv_fwd a hr hth0 hth1 hlo hhi

theorem chain_consistent_sph (ci : CoordInfo ℝ) (a : V3 ℝ) (hT : IsFrame ci.T) (hc : ci.typ = .sph)
    (hr : 0 < a.x) (hth0 : 0 < a.y) (hth1 : a.y < 180) (hlo : -180 < a.z) (hhi : a.z ≤ 180) :
    getCoordinates ci (locBasic ci a) = a := by
  unfold locBasic getCoordinates
  rw [hc, add_sub_cancel_left3, hT.transpose_mulVec]
  exact sph_inv_fwd a hr hth0 hth1 hlo hhi

example : (0 : ℝ) < (⟨1, 90, 180⟩ : V3 ℝ).x ∧ (0 : ℝ) < (⟨1, 90, 180⟩ : V3 ℝ).y
    ∧ (⟨1, 90, 180⟩ : V3 ℝ).y < 180 ∧ -180 < (⟨1, 90, 180⟩ : V3 ℝ).z ∧ (⟨1, 90, 180⟩ : V3 ℝ).z ≤ 180 := by
  norm_num

/-- the divisor chosen by `|sin φ| > |cos φ|` is never small -/
theorem sph_branch_safe (p : ℝ) :
    1 / 2 ≤ (if |Real.cos p| < |Real.sin p| then Real.sin p else Real.cos p) ^ 2 :=
  sph_divisor_large p

/-- at `(r, θ, φ) = (1, 90°, 180°)` the choice `sin φ > cos φ` (no absolute values) picks `sin φ = 0` as
the divisor and returns `θ = 0`, while `getcoordinates` returns `θ = 90` -/
theorem sph_branch_abs_needed :
    let g : V3 ℝ := ⟨-1, 0, 0⟩
    let phi := Complex.arg ⟨g.x, g.y⟩
    phi = Real.pi ∧ Real.cos phi < Real.sin phi ∧
    Complex.arg ⟨g.z, g.y / Real.sin phi⟩ = 0 ∧
    (fromRect .sph g).y = 90 :=
  Coord.sph_branch_abs_needed

/-! ## `rbcoords`: minimal hypothesis -/

theorem rbcoords_recovers_all (co : CoordInfo ℝ) (p ref : V3 ℝ) (hT : IsFrame co.T) :
    rbcoordsGrid (gridRb co p ref) = p.sub ref := by
  have dT : co.T.transpose.det ≠ 0 := hT.det_transpose_ne
  have dz : ∀ t : ℝ, (rotzT t).det = 1 := fun t => by
    rw [← det_transpose]; exact (rotzT_frame t).2
  have ds : ∀ t : ℝ, (sphT t).det = 1 := fun t => by
    rw [← det_transpose]; exact (sphT_frame t).2
  unfold gridRb
  cases co.typ <;> simp only [] <;> (try split_ifs) <;> (try simp only [lmul_lmul]) <;>
    (apply rbcoords_lmul_rigid; (try simp only [det_mul, dz, ds, one_mul]); exact dT)

example : rbcoordsGrid (gridRb (⟨.sph, V3.zero, M3.one⟩ : CoordInfo ℝ) ⟨0, 0, 2⟩ ⟨1, 1, 1⟩)
    = (⟨0, 0, 2⟩ : V3 ℝ).sub ⟨1, 1, 1⟩ :=
  rbcoords_recovers_all _ _ _ IsFrame.one

example (g h : GridR ℝ) := replace_basic_rigid ⟨0, 0, 0⟩ ⟨0, 0, 1⟩ ⟨1, 0, 0⟩
  (by simp [NonCollinear, V3.sub, V3.cross, V3.zero]) g h

/-! ## `formrbe3` -/

/-- positive weights and full column rank of the independent rows make `rbᵀ W rb` invertible -/
theorem rbe3_normal_invertible {m k : ℕ} (R : Mx ℝ m k) (w : Fin m → ℝ) (hw : ∀ i, 0 < w i)
    (hR : Function.Injective (toM R).mulVec) :
    IsUnit (toM (fun j i => R i j * w i : Mx ℝ k m) * toM R).det :=
  normal_isUnit (toM R) w hw hR

/-- the least-squares step over any field: `rbe3 · rb = T[dd]` for every exact `solve` -/
theorem rbe3_alg_reproduces {K : Type} [Field K] {m nd : ℕ}
    (solve : Solver K) (hs : ExactSolve solve)
    (rb : Mx K m 6) (w : Fin m → K) (T : Mx K 6 6) (dd : Fin nd → Fin 6)
    (hA : IsUnit (toM (fun j i => rb i j * w i : Mx K 6 m) * toM rb).det) :
    toM (rbe3Alg solve rb w T dd).mx * toM rb = toM (T.selRows dd) :=
  rbe3Alg_mul_rb solve hs rb w T dd hA

/-- `formrbe3` (no `UM_List`): the interpolation matrix times the `rbgeom_uset` rows of the independent
DOF (relative to any reference point `ref`) is the `rbgeom_uset` rows of the dependent DOF, for any
dependent / independent grids in any output systems (q-set grids included), any component selection,
positive weights, and independent rows of full column rank -/
theorem rbe3_reproduces_rb {m nd : ℕ} (solve : Solver ℝ)
    (hs : ExactSolve solve) (grids : List (GridR ℝ)) (dep : GridR ℝ) (dd : Fin nd → Fin 6)
    (ind : Fin m → IndDof ℝ) (hw : ∀ k, 0 < (ind k).w)
    (hrank : Function.Injective (toM (indRows ind dep.p)).mulVec) (ref : V3 ℝ) :
    toM (rbe3Grid solve grids dep dd ind).mx * toM (indRows ind ref)
      = toM ((gridRowsMx dep ref).selRows dd) :=
  rbe3Grid_mul_indRows solve hs grids dep dd ind hw hrank ref

/-- … hence any rigid motion `x = (t, ω)` of the reference point, seen at the independent DOF, is
mapped to the same rigid motion seen at the dependent DOF -/
theorem rbe3_rigid_motion {m nd : ℕ} (solve : Solver ℝ)
    (hs : ExactSolve solve) (grids : List (GridR ℝ)) (dep : GridR ℝ) (dd : Fin nd → Fin 6)
    (ind : Fin m → IndDof ℝ) (hw : ∀ k, 0 < (ind k).w)
    (hrank : Function.Injective (toM (indRows ind dep.p)).mulVec) (ref : V3 ℝ) (x : Fin 6 → ℝ) :
    (toM (rbe3Grid solve grids dep dd ind).mx).mulVec ((toM (indRows ind ref)).mulVec x)
      = (toM ((gridRowsMx dep ref).selRows dd)).mulVec x := by
  rw [Matrix.mulVec_mulVec, rbe3Grid_mul_indRows solve hs grids dep dd ind hw hrank ref]

/-- the rows used by `formrbe3` are those of `rbgeom_uset` (`usetRb`, the subject of `rb_is_rigid`) -/
theorem rbe3_rows_are_rbgeom_uset (g : GridR ℝ) (ref : V3 ℝ) :
    (usetRb [some g] ref).map row6 = (gridRowsMx g ref).toLists := by
  cases hq : g.q <;>
    simp [usetRb, gridRowsMx, hq, Rb.rows, row6, V3.toList, Mx.toLists, List.ofFn_succ, Rb.toMx,
      Rb.rowAt, v6, zeroRow, Mx.zero, V3.zero, List.replicate]

/-- the rank hypothesis holds as soon as the independent DOF contain the three translations of three
grids that are not on one line (any output systems, any further DOF) -/
theorem rbe3_fullrank_three_grids {m : ℕ} (ind : Fin m → IndDof ℝ) (ref : V3 ℝ) (g1 g2 g3 : GridR ℝ)
    (hq : g1.q = false ∧ g2.q = false ∧ g3.q = false)
    (hT : IsFrame g1.co.T ∧ IsFrame g2.co.T ∧ IsFrame g3.co.T)
    (hnc : NonCollinear g1.p g2.p g3.p)
    (hcov : ∀ g, g = g1 ∨ g = g2 ∨ g = g3 → ∀ c : Fin 6, c.val < 3 → ∃ k, (ind k).g = g ∧ (ind k).dof = c) :
    Function.Injective (toM (indRows ind ref)).mulVec :=
  indRows_fullrank_of_three ind ref g1 g2 g3 hq hT hnc hcov

/-- `formrbe3` with the translations of three non-collinear grids among the independent DOF -/
theorem rbe3_reproduces_rb_three_grids {m nd : ℕ} (solve : Solver ℝ)
    (hs : ExactSolve solve) (grids : List (GridR ℝ)) (dep : GridR ℝ) (dd : Fin nd → Fin 6)
    (ind : Fin m → IndDof ℝ) (hw : ∀ k, 0 < (ind k).w) (g1 g2 g3 : GridR ℝ)
    (hq : g1.q = false ∧ g2.q = false ∧ g3.q = false)
    (hT : IsFrame g1.co.T ∧ IsFrame g2.co.T ∧ IsFrame g3.co.T)
    (hnc : NonCollinear g1.p g2.p g3.p)
    (hcov : ∀ g, g = g1 ∨ g = g2 ∨ g = g3 → ∀ c : Fin 6, c.val < 3 → ∃ k, (ind k).g = g ∧ (ind k).dof = c)
    (ref : V3 ℝ) :
    toM (rbe3Grid solve grids dep dd ind).mx * toM (indRows ind ref)
      = toM ((gridRowsMx dep ref).selRows dd) :=
  rbe3Grid_mul_indRows solve hs grids dep dd ind hw
    (indRows_fullrank_of_three ind dep.p g1 g2 g3 hq hT hnc hcov) ref

example : ExactSolve (K := ℝ) invSolve := invSolve_exact

example : (∀ k, 0 < (exInd k).w) ∧ Function.Injective (toM (indRows exInd V3.zero)).mulVec :=
  ⟨fun _ => by simp [exInd], exInd_fullrank⟩

/-- `UM_List` inside the independent set (`rbe3 = solve(rbe3[:, m], [I, -rbe3[:, n]])`): if `R` maps the
independent motion `Zi` to the dependent motion `Zd`, the new matrix maps (dependent, remaining
independent) motion to the m-set motion -/
theorem rbe3_um_indep {K : Type} [Field K] {nd ni q s : ℕ}
    (solve : Solver K) (hs : ExactSolve solve) (R : Mx K nd ni)
    (im : Fin nd → Fin ni) (inn : Fin q → Fin ni) (hp : IsPartition im inn)
    (hRm : IsUnit (toM (R.selCols im)).det)
    (Zi : Mx K ni s) (Zd : Mx K nd s) (h : toM R * toM Zi = toM Zd) :
    toM (umIndep solve R im inn).mx * toM (Mx.vstack Zd (Zi.selRows inn)) = toM (Zi.selRows im) :=
  umIndep_spec solve hs R im inn hp hRm Zi Zd h

/-- mixed m-set (`E = solve(C, [I, -D])`, `F = A E + [0, B]`) -/
theorem rbe3_um_mixed {K : Type} [Field K] {nd ni r c q s : ℕ}
    (solve : Solver K) (hs : ExactSolve solve) (R : Mx K nd ni)
    (dm : Fin r → Fin nd) (dn : Fin c → Fin nd) (im : Fin c → Fin ni) (inn : Fin q → Fin ni)
    (hp : IsPartition im inn) (hC : IsUnit (toM ((R.selRows dn).selCols im)).det)
    (Zi : Mx K ni s) (Zd : Mx K nd s) (h : toM R * toM Zi = toM Zd) :
    toM (umMixed solve R dm dn im inn).mx * toM (Mx.vstack (Zd.selRows dn) (Zi.selRows inn))
      = toM (Mx.vstack (Zd.selRows dm) (Zi.selRows im)) :=
  umMixed_spec solve hs R dm dn im inn hp hC Zi Zd h

/-- m-set = dependent set: the rows are only selected / reordered -/
theorem rbe3_um_dep {K : Type} [Field K] {nd ni r s : ℕ} (R : Mx K nd ni) (dm : Fin r → Fin nd)
    (Zi : Mx K ni s) (Zd : Mx K nd s) (h : toM R * toM Zi = toM Zd) :
    toM (R.selRows dm) * toM Zi = toM (Zd.selRows dm) := by
  rw [selRows_mul, h]

example : IsPartition (fun _ : Fin 1 => (⟨1, by decide⟩ : Fin 3))
    (fun i : Fin 2 => (⟨2 * i.val, by omega⟩ : Fin 3)) := by
  constructor
  · intro a b h
    rcases a with a | a <;> rcases b with b | b <;> simp [Fin.ext_iff] at h ⊢ <;> omega
  · intro y
    fin_cases y
    · exact ⟨Sum.inr 0, rfl⟩
    · exact ⟨Sum.inl 0, rfl⟩
    · exact ⟨Sum.inr 1, rfl⟩

/-- which `UM_List` branch `formrbe3` takes: by where the m-set DOF lie, nothing else -/
theorem um_plan_branch {ddof idof mdof : List Nat} {nuset : Nat} {p : UmPlan}
    (h : umPlan ddof idof mdof nuset = some p) :
    (p.branch = .indep ↔ ∀ k ∈ mdof, k ∉ ddof) ∧
    (p.branch = .dep ↔ (∃ k ∈ mdof, k ∈ ddof) ∧ ∀ k ∈ mdof, k ∉ idof) ∧
    (p.branch = .mixed ↔ (∃ k ∈ mdof, k ∈ ddof) ∧ ∃ k ∈ mdof, k ∈ idof) :=
  umPlan_spec h

/-- the branch "m-set inside the independent set": no m-set DOF is dependent, all are independent -/
theorem um_plan_indep {ddof idof mdof : List Nat} {nuset : Nat} {p : UmPlan}
    (h : umPlan ddof idof mdof nuset = some p) (hb : p.branch = .indep) :
    (∀ k ∈ mdof, k ∉ ddof ∧ k ∈ idof) ∧ p.im = positions idof mdof
      ∧ p.inn = complIdx (positions idof mdof) idof.length :=
  umPlan_indep h hb

/-- the branch "m-set = dependent DOF": no m-set DOF is independent -/
theorem um_plan_dep {ddof idof mdof : List Nat} {nuset : Nat} {p : UmPlan}
    (h : umPlan ddof idof mdof nuset = some p) (hb : p.branch = .dep) :
    (∀ k ∈ mdof, k ∉ idof) ∧ p.dm = positions ddof mdof :=
  umPlan_dep h hb

/-- **any admissible `UM_List`** (branch choice, re-partition and final reordering together): DOF are named
by their uset rows; `ddof` = dependent DOF, `idof` = independent DOF in uset order, `mdof` = the m-set
(duplicate-free, inside `ddof ∪ idof`, as many as `ddof`).  If `R` maps the independent rigid-body rows `Zi`
to the dependent ones `Zd`, then whatever `umPlan` decides, the matrix `Y` returned by `umApplyMx` has one row
per m-set DOF and one column per remaining DOF (uset order) and maps the rigid-body rows of the remaining
DOF to the rigid-body rows of the m-set DOF — provided the block the branch inverts is invertible -/
theorem rbe3_um_any {K : Type} [Field K] {s : ℕ} {ddof idof mdof : List ℕ} {nuset : ℕ}
    (adm : UmAdmissible ddof idof mdof nuset) (solve : Solver K) (hs : ExactSolve solve)
    (R : Mx K ddof.length idof.length) (Zi : Mx K idof.length s) (Zd : Mx K ddof.length s)
    (h : toM R * toM Zi = toM Zd) (hd0 : 0 < ddof.length) (hi0 : 0 < idof.length)
    {p : UmPlan} (hp : umPlan ddof idof mdof nuset = some p)
    {Y : Mx K p.rowOrd.length p.colOrd.length} (hY : umApplyMx solve hd0 hi0 R p = some Y)
    (hinvI : p.branch = .indep → ∀ hl : p.im.length = ddof.length,
      IsUnit (toM (R.selCols fun i => idxMap p.im idof.length hi0 (Fin.cast hl.symm i))).det)
    (hinvM : p.branch = .mixed → ∀ hl : p.dn.length = p.im.length,
      IsUnit (toM ((R.selRows fun i => idxMap p.dn ddof.length hd0 (Fin.cast hl.symm i)).selCols
        (idxMap p.im idof.length hi0))).det) :
    Repro (zKey ddof idof Zd Zi) Y mdof (restKeys ddof idof mdof nuset)
      ∧ p.rowOrd.length = mdof.length ∧ p.colOrd.length = (restKeys ddof idof mdof nuset).length :=
  umApplyMx_repro adm solve hs R Zi Zd h hd0 hi0 hp hY hinvI hinvM

/-- … for `formrbe3`'s own matrix: with positive weights and independent rows of full column rank, every
admissible `UM_List` gives a matrix that reproduces rigid-body motion (relative to any point `ref`) with the
m-set as dependent DOF -/
theorem rbe3_um_any_grids {ddof idof mdof : List ℕ} {nuset : ℕ}
    (adm : UmAdmissible ddof idof mdof nuset) (solve : Solver ℝ) (hs : ExactSolve solve)
    (grids : List (GridR ℝ)) (dep : GridR ℝ) (dd : Fin ddof.length → Fin 6)
    (ind : Fin idof.length → IndDof ℝ) (hw : ∀ k, 0 < (ind k).w)
    (hrank : Function.Injective (toM (indRows ind dep.p)).mulVec) (ref : V3 ℝ)
    (hd0 : 0 < ddof.length) (hi0 : 0 < idof.length)
    {p : UmPlan} (hp : umPlan ddof idof mdof nuset = some p)
    {Y : Mx ℝ p.rowOrd.length p.colOrd.length}
    (hY : umApplyMx solve hd0 hi0 (rbe3Grid solve grids dep dd ind).mx p = some Y)
    (hinvI : p.branch = .indep → ∀ hl : p.im.length = ddof.length,
      IsUnit (toM ((rbe3Grid solve grids dep dd ind).mx.selCols
        fun i => idxMap p.im idof.length hi0 (Fin.cast hl.symm i))).det)
    (hinvM : p.branch = .mixed → ∀ hl : p.dn.length = p.im.length,
      IsUnit (toM (((rbe3Grid solve grids dep dd ind).mx.selRows
        fun i => idxMap p.dn ddof.length hd0 (Fin.cast hl.symm i)).selCols
        (idxMap p.im idof.length hi0))).det) :
    Repro (zKey ddof idof ((gridRowsMx dep ref).selRows dd) (indRows ind ref)) Y mdof
        (restKeys ddof idof mdof nuset)
      ∧ p.rowOrd.length = mdof.length ∧ p.colOrd.length = (restKeys ddof idof mdof nuset).length :=
  umApplyMx_repro adm solve hs _ _ _
    (rbe3Grid_mul_indRows solve hs grids dep dd ind hw hrank ref) hd0 hi0 hp hY hinvI hinvM

/-- the admissibility conditions are inhabited (the first regression input of 959e8e9) -/
example : UmAdmissible [24, 25, 26, 27, 28, 29] [0, 1, 2, 6, 7, 8, 12, 13, 14, 18, 19, 20]
    [0, 24, 25, 26, 27, 28] 30 :=
  ⟨by decide, by decide, by decide, by decide, by decide, by decide⟩

/-- the two inputs that went wrong before the repair 959e8e9 (truth value of an index array): the m-set
holds the first independent DOF (uset row 0) and five dependent DOF -> mixed branch, 5 + 1 = 6 rows -/
example : (umPlan [24, 25, 26, 27, 28, 29] [0, 1, 2, 6, 7, 8, 12, 13, 14, 18, 19, 20]
      [0, 24, 25, 26, 27, 28] 30).map (fun p => (p.branch, p.dm, p.dn, p.im, p.rowOrd.length))
    = some (.mixed, [0, 1, 2, 3, 4], [5], [0], 6) := by decide

/-- … and the m-set is the single (first) dependent DOF -> "m-set = dependent DOF", one row -/
example : (umPlan [26] [0, 1, 2, 6, 7, 8, 12, 13, 14, 18, 19, 20] [26] 30).map
    (fun p => (p.branch, p.dm, p.rowOrd.length)) = some (.dep, [0], 1) := by decide

/-- … and the first dependent DOF with five independent DOF -> mixed branch (used to raise) -/
example : (umPlan [24, 25, 26, 27, 28, 29] [0, 1, 2, 6, 7, 8, 12, 13, 14, 18, 19, 20]
      [1, 2, 6, 8, 13, 24] 30).map (fun p => (p.branch, p.dm, p.im, p.rowOrd.length))
    = some (.mixed, [0], [1, 2, 3, 5, 7], 6) := by decide

example : (umPlan [24, 25, 26, 27, 28, 29] [0, 1, 2, 6, 7, 8] [0, 1, 2, 6, 7, 8] 30).map (·.branch)
    = some .indep := by decide

/-! ## chaining bookkeeping of `build_coords` -/

/-- the dictionary does not depend on the order in which the cards are given (equal duplicates allowed) -/
theorem chain_order_irrelevant {l₁ l₂ : List (Card (CsBody ℝ))} (hp : l₁.Perm l₂) (hc : NoConflict l₁) :
    buildCoords l₁ = buildCoords l₂ :=
  buildCoords_eq_of_perm hp hc

/-- ids in a set `S` closed under reference that does not contain 0 — a reference cycle, or a chain ending
at an id that no card defines — are refused: no dictionary is returned -/
theorem chain_circular_refused (S : Nat → Prop) (cards : List (Card (CsBody ℝ)))
    (hcl : ∀ c ∈ cards, S c.cid → S c.ref) (h0 : ¬ S 0) (hex : ∃ c ∈ cards, S c.cid) :
    ∀ d, buildCoords cards ≠ .ok d :=
  buildCoords_refuses_closed (fun _ _ h => of_decide_eq_true h) S cards hcl h0 hex

/-- a two-cycle `5 → 7 → 5` next to a valid card -/
example (b : CsBody ℝ) : ∀ d, buildCoords [⟨1, 0, b⟩, ⟨5, 7, b⟩, ⟨7, 5, b⟩] ≠ .ok d :=
  chain_circular_refused (fun x => x = 5 ∨ x = 7) _
    (by intro c hc; simp at hc; rcases hc with rfl | rfl | rfl <;> simp)
    (by simp) ⟨⟨5, 7, b⟩, by simp, by simp⟩

/-- cards with the same id but different content are refused (`RuntimeError: duplicate but unequal …`);
together with `chain_order_irrelevant` (whose hypothesis is the negation) this covers every input -/
theorem chain_dup_unequal_refused (cards : List (Card (CsBody ℝ))) (h : ¬ NoConflict cards) :
    ∃ c, buildCoords cards = .error (.dupUnequal c) :=
  buildCoords_refuses_conflict (fun _ _ h => of_decide_eq_true h) cards h

/-- a returned dictionary has the basic system under 0, every card's id as a key, and every entry is
`mkCoord` (the A-B-C construction) of a card relative to the entry of that card's reference -/
theorem chain_resolved {cards : List (Card (CsBody ℝ))} {d : CoordRef ℝ} (hne : cards ≠ [])
    (h : buildCoords cards = .ok d) :
    d.lookup 0 = some basic ∧
    (∀ c ∈ cards, ∃ v, d.lookup c.cid = some v) ∧
    (∀ x v, d.lookup x = some v → (x = 0 ∧ v = basic) ∨
      ∃ c ∈ cards, c.cid = x ∧ ∃ r, d.lookup c.ref = some r ∧ v = cardInfo r c) :=
  buildCoords_resolved (fun _ _ h => of_decide_eq_true h) hne h

/-! ## `build_coords` as a whole -/

/-- **`build_coords` returns a dictionary iff the cards are well founded**: (positive ids) cards with the same id
are equal, and the reference chain of every card ends in 0 — the reference graph restricted to the cards is a
forest rooted in the basic system -/
theorem build_coords_resolves_iff (cards : List (Card (CsBody ℝ))) (hpos : ∀ c ∈ cards, c.cid ≠ 0) :
    (∃ d, buildCoords cards = .ok d) ↔ NoConflict cards ∧ ∀ c ∈ cards, Rooted cards c.cid :=
  buildCoords_ok_iff real_beqSound real_beqRefl cards hpos

/-- … otherwise it raises: unequal duplicates → "duplicate but unequal …" (`chain_dup_unequal_refused`); a chain
that does not end in 0 → `RuntimeError("Could not resolve coordinate systems. Need these coordinate cards: …")`,
and the ids printed are `ref_ids`, the ids of the deepest level that *did* resolve (`[0]` when none did), not the
ids that are missing -/
theorem build_coords_unresolved_error (cards : List (Card (CsBody ℝ))) (hpos : ∀ c ∈ cards, c.cid ≠ 0)
    (hnc : NoConflict cards) (hex : ∃ c ∈ cards, ¬ Rooted cards c.cid) :
    ∃ k f, buildCoords cards = .error (.unresolved f) ∧ (∀ x, x ∈ f ↔ RootedAt cards k x) ∧
      ∀ y, ¬ RootedAt cards (k + 1) y :=
  buildCoords_unresolved real_beqSound real_beqRefl cards hpos hnc hex

/-- `selected[pv] = loop`: when the loop ends every card has been selected exactly with the length of its
reference chain (and the cards are those given, once each, in id order) -/
theorem build_coords_levels_are_depths (cards : List (Card (CsBody ℝ))) (hpos : ∀ c ∈ cards, c.cid ≠ 0)
    {r : List (Card (CsBody ℝ) × Nat)} (h : buildLevels cards = .ok r) :
    (∀ c, c ∈ r.map (·.1) ↔ c ∈ cards) ∧ (r.map (·.1)).Pairwise (fun a b => a.cid < b.cid) ∧
      ∀ p ∈ r, p.2 ≠ 0 ∧ RootedAt cards p.2 p.1.cid := by
  have hnc : NoConflict cards := by
    by_contra hcon
    obtain ⟨x, hx⟩ := buildLevels_refuses_conflict (csBody_beqSound real_beqSound) cards hcon
    rw [hx] at h; cases h
  rcases buildLevels_spec (csBody_beqSound real_beqSound) (csBody_beqRefl real_beqRefl) cards hpos hnc with
    ⟨r', h1, h2, h3, h4⟩ | ⟨k', f', h1, _⟩
  · rw [h1] at h; cases h; exact ⟨h2, h3, h4⟩
  · rw [h1] at h; cases h

/-- **the order in which the cards are resolved is topological**: `np.argsort(selected)` hands every card to
`mkusetcoordinfo` after the card that defines its reference system — for any ids (increasing, decreasing or mixed
along a chain) and any depth -/
theorem build_coords_order_is_topological {cards order : List (Card (CsBody ℝ))}
    (hpos : ∀ c ∈ cards, c.cid ≠ 0) (h : buildOrder cards = .ok order) :
    ∀ pre c suf, order = pre ++ c :: suf → c.ref = 0 ∨ ∃ c' ∈ pre, c'.cid = c.ref :=
  buildOrder_topological (csBody_beqSound real_beqSound) (csBody_beqRefl real_beqRefl) hpos h

/-- a chain three deep whose ids decrease along the chain (10 → 20 → 30 → basic): resolved 30, 20, 10 -/
example : (match buildOrder [(⟨10, 20, ()⟩ : Card Unit), ⟨20, 30, ()⟩, ⟨30, 0, ()⟩] with
    | .ok l => l.map (·.cid) | .error _ => []) = [30, 20, 10] := by
  have hs : sortCards [(⟨10, 20, ()⟩ : Card Unit), ⟨20, 30, ()⟩, ⟨30, 0, ()⟩]
      = [⟨10, 20, ()⟩, ⟨20, 30, ()⟩, ⟨30, 0, ()⟩] := by
    simp [sortCards, List.mergeSort, List.MergeSort.Internal.splitInTwo]
  simp only [buildOrder, buildLevels, hs]
  decide +kernel

/-- … four deep with mixed ids, cards given in a scrambled order, one equal duplicate: (id, level) -/
example : (match buildLevels [(⟨7, 40, ()⟩ : Card Unit), ⟨40, 3, ()⟩, ⟨3, 99, ()⟩, ⟨99, 0, ()⟩, ⟨5, 0, ()⟩,
      ⟨40, 3, ()⟩] with
    | .ok l => l.map (fun p => (p.1.cid, p.2)) | .error _ => [])
    = [(3, 2), (5, 1), (7, 4), (40, 3), (99, 1)] := by
  have hs : sortCards [(⟨7, 40, ()⟩ : Card Unit), ⟨40, 3, ()⟩, ⟨3, 99, ()⟩, ⟨99, 0, ()⟩, ⟨5, 0, ()⟩, ⟨40, 3, ()⟩]
      = [⟨3, 99, ()⟩, ⟨5, 0, ()⟩, ⟨7, 40, ()⟩, ⟨40, 3, ()⟩, ⟨40, 3, ()⟩, ⟨99, 0, ()⟩] := by
    simp [sortCards, List.mergeSort, List.MergeSort.Internal.splitInTwo]
  simp only [buildLevels, hs]
  decide +kernel

/-- **the result does not depend on the order of the cards — for every input**: the same dictionary, or the same
error with the same payload (no hypothesis: unequal duplicates, cycles, missing references included) -/
theorem build_coords_independent_of_card_order {l₁ l₂ : List (Card (CsBody ℝ))} (hp : l₁.Perm l₂) :
    buildCoords l₁ = buildCoords l₂ :=
  buildCoords_eq_of_perm_all real_beqSound real_beqRefl hp

/-- the id reported with "duplicate but unequal coordinate systems detected. cid = …" is the *smallest* id that
two different cards share -/
theorem build_coords_dup_error_cid {cards : List (Card (CsBody ℝ))} {c : Nat}
    (h : buildCoords cards = .error (.dupUnequal c)) :
    (∃ a ∈ cards, ∃ b ∈ cards, a.cid = c ∧ b.cid = c ∧ a ≠ b) ∧
    (∀ a ∈ cards, ∀ b ∈ cards, a.cid = b.cid → a.cid < c → a = b) := by
  apply buildLevels_conflict_cid (csBody_beqSound real_beqSound) (csBody_beqRefl real_beqRefl)
  unfold buildCoords at h
  split at h
  · cases h
  · simp only [buildOrder, bind, Except.bind, Except.map] at h
    cases hb : buildLevels cards with
    | error e =>
      rw [hb] at h
      simp only [Except.error.injEq] at h
      rw [h]
    | ok r =>
      exfalso
      rw [hb] at h
      simp only [] at h
      -- `mkusetcoordinfo` never reports a duplicate
      have : ∀ (o : List (Card (CsBody ℝ))) (d : CoordRef ℝ), addCards d o ≠ .error (.dupUnequal c) := by
        intro o
        induction o with
        | nil => intro d h; simp [addCards, pure, Except.pure] at h
        | cons x t ih =>
          intro d h
          simp only [addCards, List.foldlM_cons, bind, Except.bind] at h
          cases hx : addCard d x with
          | error e =>
            rw [hx] at h
            unfold addCard at hx
            split at hx
            · cases hx
            · split at hx
              · simp only [Except.error.injEq] at hx h
                rw [← hx] at h
                cases h
              · cases hx
          | ok d' =>
            rw [hx] at h
            exact ih d' h
      exact this _ _ h

/-- **duplicates**: the result depends only on the *set* of cards — any number of equal copies of a card, in any
positions, changes nothing (unequal copies are refused: `chain_dup_unequal_refused`) -/
theorem build_coords_duplicates {l₁ l₂ : List (Card (CsBody ℝ))} (hm : ∀ c, c ∈ l₁ ↔ c ∈ l₂)
    (hc : NoConflict l₁) : buildCoords l₁ = buildCoords l₂ :=
  buildCoords_eq_of_mem_iff real_beqSound real_beqRefl hm hc

example (c : Card (CsBody ℝ)) (cards : List (Card (CsBody ℝ))) (hc : c ∈ cards) (hn : NoConflict cards) :
    buildCoords (c :: cards) = buildCoords cards := by
  refine (build_coords_duplicates (fun x => ?_) hn).symm
  simp only [List.mem_cons]
  constructor
  · exact Or.inr
  · intro h
    rcases h with h | h
    · rw [h]; exact hc
    · exact h

example (b : CsBody ℝ) : NoConflict [(⟨10, 20, b⟩ : Card (CsBody ℝ)), ⟨20, 30, b⟩, ⟨30, 0, b⟩] ∧
    ∀ c ∈ [(⟨10, 20, b⟩ : Card (CsBody ℝ)), ⟨20, 30, b⟩, ⟨30, 0, b⟩],
      Rooted [(⟨10, 20, b⟩ : Card (CsBody ℝ)), ⟨20, 30, b⟩, ⟨30, 0, b⟩] c.cid := by
  have r30 : RootedAt [(⟨10, 20, b⟩ : Card (CsBody ℝ)), ⟨20, 30, b⟩, ⟨30, 0, b⟩] 1 30 :=
    .step ⟨30, 0, b⟩ (by simp) rfl .zero
  have r20 : RootedAt [(⟨10, 20, b⟩ : Card (CsBody ℝ)), ⟨20, 30, b⟩, ⟨30, 0, b⟩] 2 20 :=
    .step ⟨20, 30, b⟩ (by simp) rfl r30
  have r10 : RootedAt [(⟨10, 20, b⟩ : Card (CsBody ℝ)), ⟨20, 30, b⟩, ⟨30, 0, b⟩] 3 10 :=
    .step ⟨10, 20, b⟩ (by simp) rfl r20
  constructor
  · intro x hx y hy hxy
    simp only [List.mem_cons, List.mem_nil_iff, or_false] at hx hy
    rcases hx with rfl | rfl | rfl <;> rcases hy with rfl | rfl | rfl <;> simp_all
  · intro c hc
    simp only [List.mem_cons, List.mem_nil_iff, or_false] at hc
    rcases hc with rfl | rfl | rfl
    · exact ⟨3, r10⟩
    · exact ⟨2, r20⟩
    · exact ⟨1, r30⟩

/-! ## the list-level packaging of `formrbe3` -/

/-- **`formrbe3` (no `UM_List`) is `rbe3Grid` on the sorted lists**: if the packaging succeeds (`packRbe3`:
`DOF_dep` / `Ind_List` expanded, the dependent grid found, every independent DOF that is a row of the table
looked up) the result is the matrix of `rbe3Grid` (the subject of `rbe3_reproduces_rb`) whose rows follow the
digits of `DOF_dep` (`(d + 5) % 6` = Python's `[d - 1]`) and whose columns are the independent DOF sorted into
strictly increasing uset rows — the list `Ind_List` names, reduced to rows of the table, sorted -/
theorem formrbe3_is_rbe3Grid_on_sorted_lists (solve : Solver ℝ) {u : UsetTab ℝ} {gdep dofdep : Nat}
    {il : List (IndGroup ℝ)} {p : Rbe3Packed ℝ} (hp : packRbe3 u gdep dofdep il none = some p)
    (hni : 0 < p.inds.length) :
    (p.inds.Pairwise fun a b => a.1 < b.1) ∧
    (∃ a, indRowsOf u il = some a ∧
      p.inds = (sortByRow a (usetDof u).length).map fun e => (e.1, e.2.2)) ∧
    formrbe3W solve u gdep dofdep il none
      = some (rbe3Grid solve p.grids p.dep
          (fun i : Fin p.ddofs.length => (⟨p.ddofs[i] % 6, Nat.mod_lt _ (by decide)⟩ : Fin 6))
          (fun k : Fin p.inds.length => (p.inds[k]).2)).mx.toLists :=
  formrbe3W_none_eq solve hp hni

/-- … and with distinct independent DOF the sorted list is a permutation of the named one (nothing is lost,
nothing is doubled, every weight stays with its DOF) -/
theorem formrbe3_sorted_is_perm {u : UsetTab ℝ} {il : List (IndGroup ℝ)} {a : List (Nat × Nat × IndDof ℝ)}
    (h : indRowsOf u il = some a) (hnd : (a.map (·.1)).Nodup) :
    (sortByRow a (usetDof u).length).Perm a :=
  sortByRow_perm hnd (indRowsOf_lt h)

/-- **row and column order do not depend on the order of the lists**: two `Ind_List`s that name the same
independent DOF with the same weights in any two orders (groups reordered, ids reordered, groups split or
merged) give the same result, with or without a `UM_List`: the columns follow the uset rows -/
theorem formrbe3_row_order (solve : Solver ℝ) {u : UsetTab ℝ} {gdep dofdep : Nat} {il₁ il₂ : List (IndGroup ℝ)}
    {um : Option (List (Nat × Nat))} {a b : List (Nat × Nat × IndDof ℝ)}
    (h₁ : indRowsOf u il₁ = some a) (h₂ : indRowsOf u il₂ = some b) (hp : a.Perm b)
    (hnd : (a.map (·.1)).Nodup) :
    formrbe3W solve u gdep dofdep il₁ um = formrbe3W solve u gdep dofdep il₂ um := by
  unfold formrbe3W
  rw [packRbe3_eq_of_perm h₁ h₂ hp hnd]

/-- in particular the `DOF_Ind, GRIDS_Ind` pairs of `Ind_List` may be given in any order -/
theorem formrbe3_group_order (solve : Solver ℝ) {u : UsetTab ℝ} {gdep dofdep : Nat} {il₁ il₂ : List (IndGroup ℝ)}
    {um : Option (List (Nat × Nat))} {a : List (Nat × Nat × IndDof ℝ)} (hperm : il₁.Perm il₂)
    (h₁ : indRowsOf u il₁ = some a) (hnd : (a.map (·.1)).Nodup) :
    formrbe3W solve u gdep dofdep il₁ um = formrbe3W solve u gdep dofdep il₂ um := by
  obtain ⟨b, h₂, hp⟩ := indRowsOf_perm hperm h₁
  exact formrbe3_row_order solve h₁ h₂ hp hnd

/-- … and the `GRID_MSET, DOF_MSET` pairs of `UM_List` too (the rows follow the uset rows of the m-set) -/
theorem formrbe3_um_order (solve : Solver ℝ) (u : UsetTab ℝ) (gdep dofdep : Nat) (il : List (IndGroup ℝ))
    (l₁ l₂ : List (Nat × Nat)) {m₁ m₂ : List (Nat × Nat)} (h₁ : expandDof l₁ = some m₁)
    (h₂ : expandDof l₂ = some m₂) (hp : m₁.Perm m₂) :
    formrbe3W solve u gdep dofdep il (some l₁) = formrbe3W solve u gdep dofdep il (some l₂) :=
  formrbe3W_um_order solve u gdep dofdep il l₁ l₂ h₁ h₂ hp

/-- **a common factor on all weights changes nothing** (`c > 0`; positive weights, independent rows of full
column rank, exact solver; with or without a `UM_List`) -/
theorem formrbe3_weights_scale_invariant (solve : Solver ℝ) (hs : ExactSolve solve) (u : UsetTab ℝ)
    (gdep dofdep : Nat) (il : List (IndGroup ℝ)) (um : Option (List (Nat × Nat))) (c : ℝ) (hc : 0 < c)
    {p : Rbe3Packed ℝ} (hp : packRbe3 u gdep dofdep il um = some p)
    (hw : ∀ k : Fin p.inds.length, 0 < (p.inds[k]).2.w)
    (hrank : Function.Injective (toM (indRows (fun k : Fin p.inds.length => (p.inds[k]).2) p.dep.p)).mulVec) :
    formrbe3W solve u gdep dofdep (il.map (scaleGroup c)) um = formrbe3W solve u gdep dofdep il um :=
  formrbe3W_scale solve hs u gdep dofdep il um c hc.ne' hp hw hrank

/-- **`formrbe3` reproduces rigid-body motion exactly**: the returned matrix times the `rbgeom_uset` rows of the
(sorted) independent DOF, relative to any point, is the `rbgeom_uset` rows of the dependent DOF — when the
independent rows have full column rank (the independent set is statically determinate or over-determined) and
the weights are positive -/
theorem formrbe3_rigid_body_exact (solve : Solver ℝ) (hs : ExactSolve solve) {u : UsetTab ℝ}
    {gdep dofdep : Nat} {il : List (IndGroup ℝ)} {p : Rbe3Packed ℝ}
    (hp : packRbe3 u gdep dofdep il none = some p) (hni : 0 < p.inds.length)
    (hw : ∀ k : Fin p.inds.length, 0 < (p.inds[k]).2.w)
    (hrank : Function.Injective (toM (indRows (fun k : Fin p.inds.length => (p.inds[k]).2) p.dep.p)).mulVec)
    (ref : V3 ℝ) :
    ∃ R : Mx ℝ p.ddofs.length p.inds.length,
      formrbe3W solve u gdep dofdep il none = some R.toLists ∧
      toM R * toM (indRows (fun k : Fin p.inds.length => (p.inds[k]).2) ref)
        = toM ((gridRowsMx p.dep ref).selRows
            fun i : Fin p.ddofs.length => (⟨p.ddofs[i] % 6, Nat.mod_lt _ (by decide)⟩ : Fin 6)) :=
  ⟨_, (formrbe3W_none_eq solve hp hni).2.2,
    rbe3Grid_mul_indRows solve hs p.grids p.dep _ _ hw hrank ref⟩

/-- the packaging on a small table (grid 5, scalar point 7, grids 9 and 3): `Ind_List = [12, [9, 5], [3, 2.], 3]`,
dependent `(3, 31)`: columns in uset order — grid 5 components 1, 2 (rows 0, 1), grid 9 components 1, 2 (rows 7,
8), grid 3 component 3 (row 15) —, dependent rows 2, 0 (digits 3, 1) with uset rows 15, 13 -/
example :
    (packRbe3 [(5, some exGrid), (7, none), (9, some exGrid), (3, some exGrid)] 3 31
        [⟨12, none, [9, 5]⟩, ⟨3, some 2, [3]⟩] none).map
      (fun p => (p.inds.map (·.1), p.inds.map (·.2.dof.val), p.ddofs, p.dkeys, p.nuset))
    = some ([0, 1, 7, 8, 15], [0, 1, 0, 1, 2], [2, 0], [15, 13], 19) := by
  decide +kernel

/-! ## the polar axis, and azimuths of exactly 0 / 90 / 180 / 270 degrees -/

/-- forward ∘ inverse is the identity at *every* point of a cylindrical system, the axis included -/
theorem cyl_roundtrip_everywhere (g : V3 ℝ) : toRect .cyl (fromRect .cyl g) = g := cyl_fwd_inv_all g

/-- … and of a spherical system, the polar axis and the origin included -/
theorem sph_roundtrip_everywhere (g : V3 ℝ) : toRect .sph (fromRect .sph g) = g := sph_fwd_inv_all g

/-- **what `getcoordinates` returns on the axis of a cylindrical system**: `(0, 0, z)` — `θ = atan2(0, 0) = 0` —
so a location entered as `(0, θ, z)` comes back as `(0, 0, z)`: the same point, the azimuth normalised to 0 -/
theorem cyl_axis_convention (θ z : ℝ) :
    fromRect .cyl (⟨0, 0, z⟩ : V3 ℝ) = ⟨0, 0, z⟩ ∧
    fromRect .cyl (toRect .cyl (⟨0, θ, z⟩ : V3 ℝ)) = ⟨0, 0, z⟩ ∧
    toRect .cyl (fromRect .cyl (toRect .cyl (⟨0, θ, z⟩ : V3 ℝ))) = toRect .cyl ⟨0, θ, z⟩ :=
  ⟨cyl_axis z, cyl_axis_inv_fwd θ z, cyl_fwd_inv_all _⟩

/-- … on the polar axis of a spherical system: `(|z|, 0 or 180, 0)` -/
theorem sph_axis_convention (z : ℝ) :
    fromRect .sph (⟨0, 0, z⟩ : V3 ℝ) = ⟨|z|, if z < 0 then 180 else 0, 0⟩ := sph_axis z

/-- a basic point queried in a system of any type and entered again in that system is the same point — at every
point, also on the polar axis and at the origin of a cylindrical / spherical system (`chain_consistent_point`
without its off-axis hypothesis) -/
theorem chain_consistent_point_everywhere (ci : CoordInfo ℝ) (p : V3 ℝ) (hT : IsFrame ci.T) :
    locBasic ci (getCoordinates ci p) = p := locBasic_getCoordinates_all ci p hT

/-- `rbgeom_uset` for a grid *on* the polar axis of its output system: the polar fix-up is skipped and the rows
are expressed in the local frame of azimuth 0 (cylindrical: the system's own axes), resp. of
`(θ, φ) = (0 | 180°, 0)` (spherical) — the angles `getcoordinates` reports there -/
theorem rb_axis_convention (co : CoordInfo ℝ) (p ref : V3 ℝ)
    (hx : (co.T.transpose.mulVec (p.sub co.origin)).x = 0)
    (hy : (co.T.transpose.mulVec (p.sub co.origin)).y = 0) :
    (co.typ = .cyl → gridRb co p ref = Rb.lmul ((rotzT (0 : ℝ)).mul co.T.transpose) (rigid (p.sub ref))) ∧
    (co.typ = .sph → (1 : ℝ) / 10 ^ 8 < |(co.T.transpose.mulVec (p.sub co.origin)).z| →
      gridRb co p ref = Rb.lmul
        ((sphT (if (co.T.transpose.mulVec (p.sub co.origin)).z < 0 then Real.pi else 0)).mul co.T.transpose)
        (rigid (p.sub ref))) :=
  ⟨fun h => (gridRb_cyl_axis co p ref h hx hy).2, fun h hz => gridRb_sph_axis co p ref h hx hy hz⟩

/-- **exact values at azimuths of 0 / 90 / 180 / 270 degrees**: for a grid whose position in its cylindrical
output system lies on the `k`-th coordinate half-line of the local `xy`-plane (resp., spherical: on the equator
at that azimuth) the `rbgeom_uset` rows are `(Q_k · Tᵀ) · [I, -(p - ref)×; 0, I]` with `Q_k` a matrix of entries
0, ±1 — a rational expression of `T`, `p`, `ref` (exactly rational for rational data) -/
theorem rbgeom_uset_axis_angles_exact (co : CoordInfo ℝ) (p ref : V3 ℝ) (k : Fin 4)
    (hray : OnRay (co.T.transpose.mulVec (p.sub co.origin)).x (co.T.transpose.mulVec (p.sub co.origin)).y k)
    (hfix : (1 : ℝ) / 10 ^ 8 < |(co.T.transpose.mulVec (p.sub co.origin)).y|
      + |(co.T.transpose.mulVec (p.sub co.origin)).x|) :
    (co.typ = .cyl → gridRb co p ref = Rb.lmul ((quarterRot k).mul co.T.transpose) (rigid (p.sub ref))) ∧
    (co.typ = .sph → (co.T.transpose.mulVec (p.sub co.origin)).z = 0 →
      gridRb co p ref = Rb.lmul ((quarterSph k).mul co.T.transpose) (rigid (p.sub ref))) :=
  ⟨fun h => gridRb_cyl_on_ray co p ref h k hray hfix, fun h hz => gridRb_sph_on_ray co p ref h k hray hz hfix⟩

/-- a grid at `θ = 180°` of a cylindrical system (the input family of a recorded seeded change): rows
`diag(-1, -1, 1) · Tᵀ · …` -/
example (ref : V3 ℝ) :
    gridRb (⟨.cyl, V3.zero, M3.one⟩ : CoordInfo ℝ) ⟨-2, 0, 5⟩ ref
      = Rb.lmul ((quarterRot 2).mul (M3.one : M3 ℝ).transpose) (rigid ((⟨-2, 0, 5⟩ : V3 ℝ).sub ref)) := by
  refine (rbgeom_uset_axis_angles_exact _ _ _ 2 ?_ ?_).1 rfl
  · simp only [OnRay]; coord_simp; norm_num
  · coord_simp; norm_num

end PyYetiVerif.C14
