import PyYetiVerif.Lemmas.OrderStatsRoot
import PyYetiVerif.Lemmas.KFactorNewton
import PyYetiVerif.Lemmas.KFactor
import Mathlib.Tactic.NormNum
/-!
# C20 — the root finders: the `'p'` query (`brentq`) and `_getr`'s Newton loop

* `tail_strictMono_q`       the confidence is strictly increasing in the exceedance probability on `(0, 1)`;
* `p_query_exists_unique`   over `ℝ`: for `1 ≤ r ≤ n` and `0 < c < 1` there is exactly one coverage `p ∈ (0, 1)`
  with confidence `c` (intermediate value theorem for the confidence polynomial + strict monotonicity);
* `p_query_defined_iff`     `order_stats('p')` raises (no sign change on `[0, 1]`) exactly when `r = 0` or `r > n`;
* `bisect_brackets_root`    for ANY strictly monotone function: a point inside a sign-change bracket is
  within the bracket's width of THE root — the guarantee of every bracketing solver (`brentq` included:
  its result lies in a final bracket of width `≤ xtol + rtol·|x|`, scipy's defaults `2·10⁻¹²`, `4ε`);
* `p_query_bracket`         the model `pQuery iters` (bisection on `[0, 1]`) is within `2^-(iters+1)` of the root;
* `newton_monotone_convex`  `_getr`: for the shape that its iteration function has on `R ≥ 0` (increasing and
  concave: stated as the explicit hypothesis `Newton.Concave`, measured by the oracle on every run) Newton's
  iterates are, from the first one on, nondecreasing and bounded by the root, and the stopping test
  `|r - rold| ≤ tol` is reached for every `tol > 0`.
-/
set_option linter.unusedSectionVars false
namespace PyYetiVerif.C20
open PyYetiVerif.OrderStats PyYetiVerif.KFactor PyYetiVerif.Generated

section ordered
variable {α : Type} [Field α] [LinearOrder α] [IsStrictOrderedRing α]

/-- the confidence strictly increases with the exceedance probability `q = 1 - p` inside `(0, 1)`, for
every rank the sample can show (`1 ≤ r ≤ n`): so a coverage with a given confidence is unique. -/
theorem tail_strictMono_q {q q' : α} (h0 : 0 < q) (hqq : q < q') (h1 : q' < 1) {n r : ℕ} (hr : 1 ≤ r)
    (hrn : r ≤ n) : tail n r q < tail n r q' :=
  OrderStats.tail_strictMono_q h0 hqq h1 hr hrn

/-- **bracketing solvers.**  `f` strictly increasing on `[a, b]` with a root `ρ` there; `[lo, hi] ⊆ [a, b]`
with `f lo ≤ 0 ≤ f hi`.  Then `ρ ∈ [lo, hi]` and every point of `[lo, hi]` is within `hi - lo` of `ρ`. -/
theorem bisect_brackets_root {f : α → α} {a b ρ lo hi : α} (hf : StrictMonoOn f (Set.Icc a b))
    (hρ : ρ ∈ Set.Icc a b) (h0 : f ρ = 0) (hlo : lo ∈ Set.Icc a b) (hhi : hi ∈ Set.Icc a b)
    (hl : f lo ≤ 0) (hh : 0 ≤ f hi) :
    lo ≤ ρ ∧ ρ ≤ hi ∧ ∀ x, lo ≤ x → x ≤ hi → |x - ρ| ≤ hi - lo := by
  have h1 : lo ≤ ρ := by
    by_contra h
    have := hf hρ hlo (not_le.1 h)
    linarith
  have h2 : ρ ≤ hi := by
    by_contra h
    have := hf hhi hρ (not_le.1 h)
    linarith
  refine ⟨h1, h2, fun x hx1 hx2 => ?_⟩
  rw [abs_le]
  constructor <;> linarith

/-- `order_stats('p')` is defined (the bracket `[0, 1]` has a sign change) exactly for `1 ≤ r ≤ n`
(`0 < c < 1`); otherwise `brentq` raises `ValueError`. -/
theorem p_query_defined_iff (iters : ℕ) {c : α} (hc0 : 0 < c) (hc1 : c < 1) (r n : ℕ) :
    (pQuery iters c r n).isSome ↔ 1 ≤ r ∧ r ≤ n := by
  have e0 : ((C20Stats.pBracketLo : ℕ) : α) = 0 := by simp [C20Stats.pBracketLo]
  have e1 : ((C20Stats.pBracketHi : ℕ) : α) = 1 := by simp [C20Stats.pBracketHi]
  unfold pQuery
  simp only [e0, e1]
  constructor
  · intro h
    by_contra hne
    rcases Nat.lt_or_ge r 1 with hr | hr
    · have hr0 : r = 0 := by omega
      subst hr0
      simp [tail_zero, hc1.le] at h
    · have hrn : n < r := by omega
      simp [tail_of_lt hrn, not_le.2 hc0] at h
  · rintro ⟨hr, hrn⟩
    simp [tail_at_zero hr, tail_at_one hrn, not_le.2 hc0, hc1.le]

/-- **the model of the `'p'` root finder brackets the root**: when `pQuery iters c r n = some v`, every
coverage `p ∈ (0, 1)` whose confidence is exactly `c` satisfies `|v - p| ≤ 2^-(iters+1)`. -/
theorem p_query_bracket (iters : ℕ) {c : α} (hc0 : 0 < c) (hc1 : c < 1) {r n : ℕ} {v : α}
    (h : pQuery iters c r n = some v) {p : α} (hp0 : 0 < p) (hp1 : p < 1)
    (hp : tail n r (1 - p) = c) : |v - p| ≤ 1 / 2 ^ (iters + 1) := by
  have hdef := (p_query_defined_iff iters hc0 hc1 r n).1 (by simp [h])
  obtain ⟨hr, hrn⟩ := hdef
  have e0 : ((C20Stats.pBracketLo : ℕ) : α) = 0 := by simp [C20Stats.pBracketLo]
  have e1 : ((C20Stats.pBracketHi : ℕ) : α) = 1 := by simp [C20Stats.pBracketHi]
  unfold pQuery at h
  simp only [e0, e1] at h
  set g : α → Bool := fun x => decide (c ≤ tail n r x) with hg
  have d0 : decide (c ≤ tail n r (0 : α)) = false := by simp [tail_at_zero hr, not_le.2 hc0]
  have d1 : decide (c ≤ tail n r (1 : α)) = true := by simp [tail_at_one hrn, hc1.le]
  have g0 : g 0 = false := d0
  have g1 : g 1 = true := d1
  simp only [d0, d1, Bool.not_false, Bool.and_self, if_true, Option.some.injEq, Nat.cast_ofNat] at h
  obtain ⟨i1, i2, i3, i4, i5, i6⟩ := bisectQ_spec g iters 0 1 zero_le_one g0 g1
  set b := bisectQ g iters 0 1 with hb
  -- the root in q-space
  set ρ := 1 - p with hρ
  have hρ0 : 0 < ρ := by linarith
  have hρ1 : ρ < 1 := by linarith
  have hlo : b.1 < ρ := by
    by_contra hcon
    have hle : ρ ≤ b.1 := not_lt.1 hcon
    have hb1 : b.1 ≤ 1 := i2.trans i3
    have := tail_mono_q hρ0.le hle hb1 n r
    rw [hp] at this
    have : g b.1 = true := by simp [hg, this]
    rw [i4] at this; exact Bool.noConfusion this
  have hhi : ρ ≤ b.2 := by
    by_contra hcon
    have hlt : b.2 < ρ := not_le.1 hcon
    have hb2 : c ≤ tail n r b.2 := by simpa [hg] using i5
    have hb20 : 0 < b.2 := by
      by_contra h0
      have h00 : b.2 = 0 := le_antisymm (not_lt.1 h0) (i1.trans i2)
      rw [h00, tail_at_zero hr] at hb2
      linarith
    have := OrderStats.tail_strictMono_q hb20 hlt hρ1 hr hrn
    rw [hp] at this
    linarith
  have hw : b.2 - b.1 = 1 / 2 ^ iters := by rw [i6]; simp
  have hv : v = 1 - (b.1 + b.2) / 2 := h.symm
  have hhalf : (1 : α) / 2 ^ (iters + 1) = (1 / 2 ^ iters) / 2 := by rw [pow_succ]; field_simp
  rw [hhalf, ← hw, hv, abs_le]
  constructor <;> linarith

end ordered

section real

/-- **the `'p'` query has exactly one answer**: for `1 ≤ r ≤ n` and `0 < c < 1` there is exactly one
coverage `p ∈ (0, 1)` at which the `r`-th largest of `n` samples bounds the `p`-quantile with confidence
exactly `c` (existence: the confidence is a polynomial in `p`, 1 at `p = 0` and 0 at `p = 1`, intermediate
value theorem; uniqueness: `tail_strictMono_q`). -/
theorem p_query_exists_unique {n r : ℕ} (hr : 1 ≤ r) (hrn : r ≤ n) {c : ℝ} (hc0 : 0 < c) (hc1 : c < 1) :
    ∃! p : ℝ, 0 < p ∧ p < 1 ∧ tail n r (1 - p) = c := by
  obtain ⟨q, hq0, hq1, hq⟩ := tail_attains hr hrn hc0 hc1
  refine ⟨1 - q, ⟨by linarith, by linarith, by simpa using hq⟩, ?_⟩
  rintro p' ⟨hp0, hp1, hp⟩
  by_contra hne
  have hq' : 1 - p' ≠ q := fun h => hne (by linarith)
  rcases lt_or_gt_of_ne hq' with hlt | hlt
  · have := OrderStats.tail_strictMono_q (by linarith : (0 : ℝ) < 1 - p') hlt hq1 hr hrn
    linarith
  · have := OrderStats.tail_strictMono_q hq0 hlt (by linarith : 1 - p' < 1) hr hrn
    linarith

/-- … and the model's answer is within `2^-(iters+1)` of it (non-vacuity of `p_query_bracket` over `ℝ`). -/
theorem p_query_close {n r : ℕ} (hr : 1 ≤ r) (hrn : r ≤ n) {c : ℝ} (hc0 : 0 < c) (hc1 : c < 1) (iters : ℕ) :
    ∃ v p : ℝ, pQuery iters c r n = some v ∧ 0 < p ∧ p < 1 ∧ tail n r (1 - p) = c ∧
      |v - p| ≤ 1 / 2 ^ (iters + 1) := by
  obtain ⟨p, ⟨hp0, hp1, hp⟩, _⟩ := p_query_exists_unique hr hrn hc0 hc1
  have hs := (p_query_defined_iff iters hc0 hc1 r n).2 ⟨hr, hrn⟩
  obtain ⟨v, hv⟩ := Option.isSome_iff_exists.1 hs
  exact ⟨v, p, hv, hp0, hp1, hp, p_query_bracket iters hc0 hc1 hv hp0 hp1 hp⟩

/-- non-vacuity: one sample, first rank: the confidence is `1 - p`, so the coverage with confidence
`1/4` is `3/4`. -/
example : tail 1 1 (1 - (3 / 4 : ℝ)) = 1 / 4 := by
  norm_num [tail, lower, pmf, OrderStats.choose]

end real

section newton
variable {α : Type} [Field α] [LinearOrder α] [IsStrictOrderedRing α]
variable {o : Ops α} {nctCdf : α → α → α → α} {chi2Cdf : α → α → α}

/-- **`_getr`'s Newton loop.**  Hypothesis (beyond `KFactor.Spec`): on `R ≥ 0` the graph of the residual
`Φ(1/√n + R) − Φ(1/√n − R) − prob` lies below its tangents, the tangent slope being the code's `den` (Leibniz's
rule) — the function is concave there (true for the normal cdf because `1/√n ≤ 1/√2`; measured by the oracle
on every run).  Then, for a root `ρ ≥ 0` and ANY starting value `r₀ ≥ 0` whose first iterate `r₁` is `≥ 0`:
(1) no iterate after `r₀` overshoots: `r_k ≤ ρ` for `k ≥ 1`; (2) the iterates increase: `r_k ≤ r_{k+1}` for
`k ≥ 1`; (3) more passes are closer: `r_k ≤ r_{k'} ≤ ρ` for `1 ≤ k ≤ k'` (an element of an array call,
which takes at least as many passes as in a scalar call, lies between the scalar answer and the root);
(4) for every `tol > 0` the stopping test `|r_{k+1} - r_k| ≤ tol` is met at some pass `k ≥ 1`
(Archimedean field).  (A bound `≤ MAXLOOPS` on that `k` would need the quadratic rate: not proved.) -/
theorem newton_monotone_convex [Archimedean α] (S : Spec o nctCdf chi2Cdf) {n prob ρ r₀ : α}
    (hconc : ∀ x y, 0 ≤ x → 0 ≤ y →
      getrResidual o n prob y ≤ getrResidual o n prob x + getrDen o n x * (y - x))
    (hρ : 0 ≤ ρ) (hroot : getrResidual o n prob ρ = 0) (h0 : 0 ≤ r₀)
    (h1 : 0 ≤ newtonStep o n prob r₀) :
    (∀ k, 1 ≤ k → (newtonStep o n prob)^[k] r₀ ≤ ρ) ∧
    (∀ k, 1 ≤ k → (newtonStep o n prob)^[k] r₀ ≤ (newtonStep o n prob)^[k + 1] r₀) ∧
    (∀ k k', 1 ≤ k → k ≤ k' → (newtonStep o n prob)^[k] r₀ ≤ (newtonStep o n prob)^[k'] r₀) ∧
    (∀ tol, 0 < tol → ∃ k, 1 ≤ k ∧
      |(newtonStep o n prob)^[k + 1] r₀ - (newtonStep o n prob)^[k] r₀| ≤ tol) := by
  have H : Newton.Concave (getrResidual o n prob) (getrDen o n) 0 :=
    ⟨fun x _ => S.getrDen_pos n x, hconc⟩
  have hstep : newtonStep o n prob = Newton.step (getrResidual o n prob) (getrDen o n) := rfl
  rw [hstep] at h1 ⊢
  set N := Newton.step (getrResidual o n prob) (getrDen o n) with hN
  have hx1 : N r₀ ≤ ρ := Newton.step_le_root H hρ hroot h0
  have shift : ∀ k, N^[k + 1] r₀ = N^[k] (N r₀) := fun k => Function.iterate_succ_apply _ _ _
  refine ⟨fun k hk => ?_, fun k hk => ?_, fun k k' hk hkk => ?_, fun tol htol => ?_⟩
  · obtain ⟨j, rfl⟩ : ∃ j, k = j + 1 := ⟨k - 1, by omega⟩
    rw [shift]; exact (Newton.iterate_mono H hρ hroot h1 hx1 j).2.1
  · obtain ⟨j, rfl⟩ : ∃ j, k = j + 1 := ⟨k - 1, by omega⟩
    rw [shift, shift]; exact (Newton.iterate_mono H hρ hroot h1 hx1 j).2.2
  · obtain ⟨j, rfl⟩ : ∃ j, k = j + 1 := ⟨k - 1, by omega⟩
    obtain ⟨j', rfl⟩ : ∃ j', k' = j' + 1 := ⟨k' - 1, by omega⟩
    rw [shift, shift]; exact Newton.iterate_le_of_le H hρ hroot h1 hx1 (by omega)
  · obtain ⟨j, hj⟩ := Newton.exists_small_step H hρ hroot h1 hx1 htol
    refine ⟨j + 1, by omega, ?_⟩
    rw [shift, shift]
    have hm := (Newton.iterate_mono H hρ hroot h1 hx1 j).2.2
    rw [abs_of_nonneg (sub_nonneg.2 hm)]
    exact hj

/-- **the vectorised loop stops**: `_getr` iterates all elements of the `(n, prob)` grid together until
`np.any(abs(r - rold) > tol)` is false.  Under the hypotheses of `newton_monotone_convex` for every element
there is a pass `k ≥ 1` after which NO element moved by more than `tol`. -/
theorem newton_vector_stops [Archimedean α] (S : Spec o nctCdf chi2Cdf) {ι : Type} (J : Finset ι)
    (n prob ρ r₀ : ι → α)
    (hconc : ∀ j ∈ J, ∀ x y, 0 ≤ x → 0 ≤ y →
      getrResidual o (n j) (prob j) y ≤
        getrResidual o (n j) (prob j) x + getrDen o (n j) x * (y - x))
    (hρ : ∀ j ∈ J, 0 ≤ ρ j) (hroot : ∀ j ∈ J, getrResidual o (n j) (prob j) (ρ j) = 0)
    (h0 : ∀ j ∈ J, 0 ≤ r₀ j) (h1 : ∀ j ∈ J, 0 ≤ newtonStep o (n j) (prob j) (r₀ j))
    {tol : α} (htol : 0 < tol) :
    ∃ k, 1 ≤ k ∧ ∀ j ∈ J,
      |(newtonStep o (n j) (prob j))^[k + 1] (r₀ j) - (newtonStep o (n j) (prob j))^[k] (r₀ j)| ≤ tol := by
  have hall := fun j (hj : j ∈ J) =>
    newton_monotone_convex S (hconc j hj) (hρ j hj) (hroot j hj) (h0 j hj) (h1 j hj)
  obtain ⟨k, hk⟩ := Newton.exists_small_increment_all J
    (fun j k => (newtonStep o (n j) (prob j))^[k + 1] (r₀ j)) ρ
    (fun j hj k => (hall j hj).2.1 (k + 1) (by omega))
    (fun j hj k => (hall j hj).1 (k + 1) (by omega)) htol
  refine ⟨k + 1, by omega, fun j hj => ?_⟩
  have hm := (hall j hj).2.1 (k + 1) (by omega)
  rw [abs_of_nonneg (sub_nonneg.2 hm)]
  exact hk j hj

/-- non-vacuity of the concavity hypothesis: the linear instance `g x = x - 1`, `d = 1` (Newton lands on
the root at once); that the normal-cdf residual satisfies it on `R ≥ 0` is measured by the oracle. -/
example : Newton.Concave (fun x : ℚ => x - 1) (fun _ => 1) 0 :=
  ⟨fun _ _ => one_pos, fun x y _ _ => by simp⟩

end newton
end PyYetiVerif.C20
