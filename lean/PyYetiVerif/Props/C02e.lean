import PyYetiVerif.Lemmas.FreqBlocks
import PyYetiVerif.Props.C02d
import Mathlib.Tactic.FieldSimp
import Mathlib.Tactic.LinearCombination
import Mathlib.Data.List.OfFn
/-!
# C02 (continued) — the model's own block functions deliver the block equations

For the functions the driver runs (`rfVals` = `_init_dva`, `rbVals` = `_solve_freq_rb`,
`elValsUnc` = `_solve_freq_unc`, `fdVals` = the `kdof` block of `FreqDirect.fsolve`), linear solves
included (`gaussList`, proved in `C02b`): whatever they return has one value per addressed row,
satisfies the block equation that `fsolve_full_solves` asks for, and has `v = iΩd`, `a = −Ω²d`
(zero on rf rows when `rf_disp_only`).
-/
set_option linter.unusedSimpArgs false
set_option linter.unusedSectionVars false
set_option linter.unusedVariables false
namespace PyYetiVerif.C02
open PyYetiVerif.Freq Matrix

section blocks
variable {α : Type} [Field α]

/-- `_init_dva`, residual-flexibility block: `K[rf,rf] d = F[rf]` with the uncoupled reciprocal or
the LU solve; `v`, `a` zero iff `rf_disp_only` (`rf_rows` for the whole block). -/
theorem rfBlock_solves (e : ColEnv α) (hz : ∀ x, e.isZero x = true ↔ x = 0)
    (rf : List Nat) (hnd : rf.Nodup) (F : Nat → α) (w : α) (vrf : List (Dva α))
    (hdiag : e.unc = true → (∀ r ∈ rf, ∀ c ∈ rf, r ≠ c → e.K r c = 0) ∧ ∀ r ∈ rf, e.K r r ≠ 0)
    (h : rfVals e rf F w = .ok vrf) :
    vrf.length = rf.length ∧ (∀ r ∈ rf, blockSum e.K rf (vrf.map (·.d)) r = F r) ∧
    ∀ x ∈ vrf, (e.dispOnly = true → x.v = 0 ∧ x.a = 0) ∧
      (e.dispOnly = false → x.v = e.i * w * x.d ∧ x.a = -(w * w) * x.d) := by
  have hd : ∀ y : α, (rfFreq e.i y w e.dispOnly).d = y := by
    intro y; cases e.dispOnly <;> simp [rfFreq]
  have hva : ∀ y : α, (e.dispOnly = true → (rfFreq e.i y w e.dispOnly).v = 0 ∧
        (rfFreq e.i y w e.dispOnly).a = 0) ∧
      (e.dispOnly = false → (rfFreq e.i y w e.dispOnly).v = e.i * w * (rfFreq e.i y w e.dispOnly).d ∧
        (rfFreq e.i y w e.dispOnly).a = -(w * w) * (rfFreq e.i y w e.dispOnly).d) := by
    intro y
    cases e.dispOnly
    · refine ⟨fun h => (by cases h), fun _ => ?_⟩
      simp only [rfFreq, Bool.false_eq_true, if_false]
      exact ⟨by ring, by ring⟩
    · exact ⟨fun _ => (by simp [rfFreq]), fun h => (by cases h)⟩
  unfold rfVals at h
  by_cases hu : e.unc = true
  · simp only [hu, if_true, Except.ok.injEq] at h
    subst h
    obtain ⟨hoff, hne⟩ := hdiag hu
    refine ⟨by simp, ?_, ?_⟩
    · intro r hr
      rw [List.map_map]
      have : ((fun x : Dva α => x.d) ∘ fun r => rfFreq e.i (1 / e.K r r * F r) w e.dispOnly) =
          fun r => 1 / e.K r r * F r := by
        funext r; simp [Function.comp, hd]
      rw [this, blockSum_diag e.K rf hnd _ hoff r hr]
      have := hne r hr
      field_simp
    · intro x hx
      obtain ⟨r, _, rfl⟩ := List.mem_map.1 hx
      exact hva _
  · simp only [hu, Bool.false_eq_true, if_false] at h
    cases hs : solveIdx e e.K rf rf F with
    | error m => rw [hs] at h; cases h
    | ok drf =>
      rw [hs] at h
      simp only [Except.map, Except.ok.injEq] at h
      subst h
      obtain ⟨hl, heq⟩ := blockEq_of_solveIdx e hz e.K rf F drf hs
      refine ⟨by simp [hl], ?_, ?_⟩
      · intro r hr
        rw [List.map_map]
        have : ((fun x : Dva α => x.d) ∘ fun x => rfFreq e.i x w e.dispOnly) = id := by
          funext y; simp [Function.comp, hd]
        rw [this, List.map_id]
        exact heq r hr
      · intro x hx
        obtain ⟨y, _, rfl⟩ := List.mem_map.1 hx
        exact hva _

/-- `a_rb` of `_solve_freq_rb` after the damping step (`rbAccD`): it solves
`(M − i Brb / Ω)[rb,rb] a = F[rb]` where `Ω ≠ 0` and `M[rb,rb] a = F[rb]` at `Ω = 0` (`Brb = e.rbDamping`:
the diagonal damping of the rigid-body modes on the uncoupled path, zero on the coupled path), with the
mass absent, a vector (reciprocal) or a matrix (LU solve) and the mass and damping rows taken from the
constructor state. -/
theorem rbAccD_solves (e : ColEnv α) (hz : ∀ x, e.isZero x = true ↔ x = 0)
    (st : SuState) (uncReal : Bool)
    (hmr : e.mNone = false → st.lay.rb ≠ [] → rbMassRows st uncReal = some st.lay.rb)
    (hbr : e.unc = true → rbDampRows st uncReal = some st.lay.rb)
    (hnd : st.lay.rb.Nodup) (hemp : st.lay.rb ≠ []) (F : Nat → α) (w : α)
    (hmn : e.mNone = true → ∀ r ∈ st.lay.rb, ∀ c ∈ st.lay.rb, e.M r c = if r = c then 1 else 0)
    (hdiag : e.unc = true →
      (∀ r ∈ st.lay.rb, ∀ c ∈ st.lay.rb, r ≠ c → e.M r c = 0 ∧ e.B r c = 0) ∧
      (∀ r ∈ st.lay.rb, e.M r r ≠ 0) ∧
      (w ≠ 0 → ∀ r ∈ st.lay.rb, -(w * w) * e.M r r + e.i * w * e.B r r ≠ 0))
    (arb : List α) (ha : rbAccD e st uncReal F w = .ok arb) :
    arb.length = st.lay.rb.length ∧ ∀ r ∈ st.lay.rb,
      blockSum (fun r c => e.M r c - (if e.isZero w = true then 0 else e.i * e.rbDamping r c / w))
        st.lay.rb arb r = F r := by
  unfold rbAccD at ha
  cases ha0 : rbAcc e (rbMassRows st uncReal) st.lay.rb F with
  | error m => rw [ha0] at ha; cases ha
  | ok arb0 =>
    rw [ha0] at ha
    simp only at ha
    by_cases hu : e.unc = true
    · -- uncoupled: reciprocal masses, damped division
      obtain ⟨hoff, hne, hden⟩ := hdiag hu
      have harb0 : arb0 = st.lay.rb.map fun r => 1 / e.M r r * F r := by
        unfold rbAcc at ha0
        by_cases hm : e.mNone = true
        · simp only [hm, if_true, Except.ok.injEq] at ha0
          subst ha0
          apply List.map_congr_left
          intro r hr
          rw [hmn hm r hr r hr]; simp
        · have hm' : e.mNone = false := by simpa using hm
          simp only [hm', Bool.false_eq_true, if_false, hmr hm' hemp, hu, if_true,
            bne_self_eq_false, Except.ok.injEq] at ha0
          subst ha0
          rw [zip_self_map]
      subst harb0
      have hoffD : ∀ r ∈ st.lay.rb, ∀ c ∈ st.lay.rb, r ≠ c →
          e.M r c - (if e.isZero w = true then 0 else e.i * e.rbDamping r c / w) = 0 := by
        intro r hr c hc hne'
        obtain ⟨h1, h2⟩ := hoff r hr c hc hne'
        simp [ColEnv.rbDamping, hu, h1, h2]
      rw [hbr hu] at ha
      unfold rbDamp at ha
      simp only [hu, Bool.not_true, Bool.false_eq_true, if_false] at ha
      by_cases hall : (st.lay.rb.all fun r => e.isZero (e.B r r)) = true
      · simp only [hall, if_true, Except.ok.injEq] at ha
        subst ha
        refine ⟨by simp, fun r hr => ?_⟩
        rw [blockSum_diag _ st.lay.rb hnd _ hoffD r hr]
        have hb0 : e.B r r = 0 := (hz _).1 (List.all_eq_true.1 hall r hr)
        simp only [ColEnv.rbDamping, hu, if_true, hb0, mul_zero, zero_div, ite_self, sub_zero]
        have := hne r hr
        field_simp
      · simp only [hall, Bool.false_eq_true, if_false] at ha
        have him : rbIm e st.lay.rb (rbMassRows st uncReal) =
            .ok (st.lay.rb.map fun r => 1 / e.M r r) := by
          unfold rbIm
          by_cases hm : e.mNone = true
          · simp only [hm, if_true, Except.ok.injEq]
            apply List.map_congr_left
            intro r hr
            rw [hmn hm r hr r hr]; simp
          · have hm' : e.mNone = false := by simpa using hm
            simp only [hm', Bool.false_eq_true, if_false, hmr hm' hemp]
        rw [him] at ha
        simp only [List.length_map, bne_self_eq_false, Bool.or_self, Bool.false_eq_true, if_false,
          Except.ok.injEq] at ha
        subst ha
        rw [zipWith_self_map_right, zipWith_map_map_self]
        refine ⟨by simp, fun r hr => ?_⟩
        rw [blockSum_diag _ st.lay.rb hnd _ hoffD r hr]
        have hm0 := hne r hr
        cases hwz : e.isZero w with
        | true =>
          -- `Ω = 0`: the acceleration is left as it is
          simp only [rbDampAcc, hwz, if_true, sub_zero]
          field_simp
        | false =>
          have hw : w ≠ 0 := fun h0 => by
            have := (hz w).2 h0
            rw [hwz] at this; cases this
          simp only [ColEnv.rbDamping, hu, if_true, rbDampAcc, hwz, Bool.false_eq_true, if_false]
          have hq : 1 - e.i * (e.B r r * (1 / e.M r r)) / w ≠ 0 := by
            intro h0
            apply hden hw r hr
            rw [← rbDamp_den e.i (e.M r r) (e.B r r) w hm0 hw, h0, zero_mul]
          have hmw : e.M r r * w - e.i * e.B r r ≠ 0 := by
            intro h0
            apply hden hw r hr
            rw [show -(w * w) * e.M r r + e.i * w * e.B r r = -w * (e.M r r * w - e.i * e.B r r) by ring,
              h0, mul_zero]
          rw [show e.M r r - e.i * e.B r r / w =
            e.M r r * (1 - e.i * (e.B r r * (1 / e.M r r)) / w) by field_simp]
          field_simp
    · -- coupled: `a = M⁻¹ F` (LU solve, or `F` itself when `m = None`), no damping
      have hu' : e.unc = false := by simpa using hu
      have ha' : arb = arb0 := by
        unfold rbDamp at ha
        simp only [hu', Bool.not_false, if_true, Except.ok.injEq] at ha
        exact ha.symm
      subst ha'
      have hM : arb.length = st.lay.rb.length ∧
          ∀ r ∈ st.lay.rb, blockSum e.M st.lay.rb arb r = F r := by
        unfold rbAcc at ha0
        by_cases hm : e.mNone = true
        · simp only [hm, if_true, Except.ok.injEq] at ha0
          subst ha0
          refine ⟨by simp, fun r hr => ?_⟩
          rw [blockSum_diag e.M st.lay.rb hnd F
            (fun r hr c hc hne => by rw [hmn hm r hr c hc, if_neg hne]) r hr, hmn hm r hr r hr]
          simp
        · have hm' : e.mNone = false := by simpa using hm
          simp only [hm', Bool.false_eq_true, if_false, hmr hm' hemp, hu'] at ha0
          exact blockEq_of_solveIdx e hz e.M st.lay.rb F arb ha0
      refine ⟨hM.1, fun r hr => ?_⟩
      rw [← hM.2 r hr]
      apply blockSum_congr
      intro c _
      simp [ColEnv.rbDamping, hu']

/-- `_solve_freq_rb` with `incrb = "dva"` at `Ω ≠ 0`: `(iΩ Brb − Ω² M)[rb,rb] d = F[rb]`, `v = iΩd`,
`a = −Ω²d` (`frfRb_damped_solves` / `frfRb_solves` for the whole block), where `Brb = e.rbDamping` is
the diagonal damping of the rigid-body modes on the uncoupled path (any values, `np.any(b_rb)` true or
false; real and complex constructor path) and zero on the coupled path; with the mass absent
(`m = None`: identity), a vector (reciprocal) or a matrix (LU solve), and the mass and damping rows
taken from the constructor state. -/
theorem rbBlock_solves (e : ColEnv α) (hz : ∀ x, e.isZero x = true ↔ x = 0)
    (st : SuState) (uncReal : Bool)
    (hmr : e.mNone = false → st.lay.rb ≠ [] → rbMassRows st uncReal = some st.lay.rb)
    (hbr : e.unc = true → rbDampRows st uncReal = some st.lay.rb)
    (hnd : st.lay.rb.Nodup) (F : Nat → α) (w : α) (hw : w ≠ 0)
    (hinc : e.inc = Incrb.all)
    (hmn : e.mNone = true → ∀ r ∈ st.lay.rb, ∀ c ∈ st.lay.rb, e.M r c = if r = c then 1 else 0)
    (hdiag : e.unc = true →
      (∀ r ∈ st.lay.rb, ∀ c ∈ st.lay.rb, r ≠ c → e.M r c = 0 ∧ e.B r c = 0) ∧
      (∀ r ∈ st.lay.rb, e.M r r ≠ 0) ∧
      ∀ r ∈ st.lay.rb, -(w * w) * e.M r r + e.i * w * e.B r r ≠ 0)
    (vrb : List (Dva α)) (h : rbVals e st uncReal F w = .ok vrb) :
    vrb.length = st.lay.rb.length ∧
    (∀ r ∈ st.lay.rb, blockSum (fun r c => e.i * e.rbDamping r c * w - e.M r c * (w * w)) st.lay.rb
      (vrb.map (·.d)) r = F r) ∧
    ∀ x ∈ vrb, x.v = e.i * w * x.d ∧ x.a = -(w * w) * x.d := by
  unfold rbVals at h
  have hwz : e.isZero w = false := by
    cases hzw : e.isZero w
    · rfl
    · exact absurd ((hz w).1 hzw) hw
  by_cases hemp : st.lay.rb = []
  · simp only [hemp, List.isEmpty_nil, Bool.true_or, if_true, Except.ok.injEq] at h
    subst h
    simp [hemp]
  · have hemp' : st.lay.rb.isEmpty = false := by
      cases hrb : st.lay.rb with
      | nil => exact absurd hrb hemp
      | cons _ _ => rfl
    simp only [hemp', hinc, Incrb.all, Bool.or_self, Bool.not_true, Bool.false_eq_true, if_false] at h
    cases ha : rbAccD e st uncReal F w with
    | error m => rw [ha] at h; cases h
    | ok arb =>
      rw [ha] at h
      simp only [Except.map, Except.ok.injEq] at h
      subst h
      have hacc := rbAccD_solves e hz st uncReal hmr hbr hnd hemp F w hmn
        (fun hu => ⟨(hdiag hu).1, (hdiag hu).2.1, fun _ => (hdiag hu).2.2⟩) arb ha
      simp only [hwz, Bool.false_eq_true, if_false] at hacc
      refine ⟨by simp [hacc.1], ?_, ?_⟩
      · intro r hr
        rw [List.map_map]
        have : ((fun x : Dva α => x.d) ∘ fun a => frfRb e.isZero e.i a w ⟨true, true, true⟩) =
            fun a => (-1 / (w * w)) * a := by
          funext a; simp [Function.comp, frfRb, hwz]
        rw [this, blockSum_congr _ (fun r c => (-(w * w)) * (e.M r c - e.i * e.rbDamping r c / w))
          st.lay.rb _ r (fun c _ => by field_simp; ring),
          blockSum_scale _ st.lay.rb arb (-(w * w)) (-1 / (w * w)) r, hacc.2 r hr]
        field_simp
      · intro x hx
        obtain ⟨a, _, rfl⟩ := List.mem_map.1 hx
        simp only [frfRb, hwz, Bool.not_false, Bool.and_self, if_true]
        constructor
        · field_simp
        · field_simp

/-- `_solve_freq_rb` with `incrb = "dva"` at **`Ω = 0`** (rigid-body modes with or without damping):
`d = v = 0` on every rigid-body row and the accelerations solve `M[rb,rb] a = F[rb]` — the documented
convention (`frfRbD_zero_freq` for the whole block; the dynamic-stiffness equation itself has no
solution there: `frfRb_zero_freq_unsolvable`). -/
theorem rbBlock_zero_freq (e : ColEnv α) (hz : ∀ x, e.isZero x = true ↔ x = 0)
    (st : SuState) (uncReal : Bool)
    (hmr : e.mNone = false → st.lay.rb ≠ [] → rbMassRows st uncReal = some st.lay.rb)
    (hbr : e.unc = true → rbDampRows st uncReal = some st.lay.rb)
    (hnd : st.lay.rb.Nodup) (F : Nat → α)
    (hinc : e.inc = Incrb.all)
    (hmn : e.mNone = true → ∀ r ∈ st.lay.rb, ∀ c ∈ st.lay.rb, e.M r c = if r = c then 1 else 0)
    (hdiag : e.unc = true →
      (∀ r ∈ st.lay.rb, ∀ c ∈ st.lay.rb, r ≠ c → e.M r c = 0 ∧ e.B r c = 0) ∧
      (∀ r ∈ st.lay.rb, e.M r r ≠ 0))
    (vrb : List (Dva α)) (h : rbVals e st uncReal F 0 = .ok vrb) :
    vrb.length = st.lay.rb.length ∧ (∀ x ∈ vrb, x.d = 0 ∧ x.v = 0) ∧
    ∀ r ∈ st.lay.rb, blockSum e.M st.lay.rb (vrb.map (·.a)) r = F r := by
  unfold rbVals at h
  have hwz : e.isZero (0 : α) = true := (hz 0).2 rfl
  by_cases hemp : st.lay.rb = []
  · simp only [hemp, List.isEmpty_nil, Bool.true_or, if_true, Except.ok.injEq] at h
    subst h
    simp [hemp]
  · have hemp' : st.lay.rb.isEmpty = false := by
      cases hrb : st.lay.rb with
      | nil => exact absurd hrb hemp
      | cons _ _ => rfl
    simp only [hemp', hinc, Incrb.all, Bool.or_self, Bool.not_true, Bool.false_eq_true, if_false] at h
    cases ha : rbAccD e st uncReal F 0 with
    | error m => rw [ha] at h; cases h
    | ok arb =>
      rw [ha] at h
      simp only [Except.map, Except.ok.injEq] at h
      subst h
      have hacc := rbAccD_solves e hz st uncReal hmr hbr hnd hemp F 0 hmn
        (fun hu => ⟨(hdiag hu).1, (hdiag hu).2, fun h0 => absurd rfl h0⟩) arb ha
      simp only [hwz, if_true, sub_zero] at hacc
      refine ⟨by simp [hacc.1], ?_, ?_⟩
      · intro x hx
        obtain ⟨a, _, rfl⟩ := List.mem_map.1 hx
        simp [frfRb, hwz]
      · intro r hr
        rw [List.map_map]
        have : ((fun x : Dva α => x.a) ∘ fun a => frfRb e.isZero e.i a 0 ⟨true, true, true⟩) = id := by
          funext a; simp [Function.comp, frfRb]
        rw [this, List.map_id]
        exact hacc.2 r hr

/-- `_solve_freq_unc`, elastic block: `(K − Ω²M + iΩB)[el,el] d = F[el]`, `v = iΩd`, `a = −Ω²d`
(`frfUnc_solves` for the whole block); `rows` are the rows of `b`, `k`, `m` addressed by `_el`. -/
theorem elBlockUnc_solves (e : ColEnv α) (el : List Nat) (hnd : el.Nodup) (F : Nat → α) (w : α)
    (hoff : ∀ r ∈ el, ∀ c ∈ el, r ≠ c → e.M r c = 0 ∧ e.B r c = 0 ∧ e.K r c = 0)
    (hmn : e.mNone = true → ∀ r ∈ el, e.M r r = 1)
    (hden : ∀ r ∈ el, e.i * (e.B r r * w) + e.K r r - e.M r r * (w * w) ≠ 0)
    (vel : List (Dva α)) (h : elValsUnc e el el F w = .ok vel) :
    vel.length = el.length ∧
    (∀ r ∈ el, blockSum (fun r c => e.i * e.B r c * w + e.K r c - e.M r c * (w * w)) el
      (vel.map (·.d)) r = F r) ∧
    ∀ x ∈ vel, x.v = e.i * w * x.d ∧ x.a = -(w * w) * x.d := by
  unfold elValsUnc at h
  simp only [bne_self_eq_false, Bool.false_eq_true, if_false, Except.ok.injEq] at h
  subst h
  rw [zip_self_map]
  refine ⟨by simp, ?_, ?_⟩
  · intro r hr
    rw [List.map_map]
    have hmap : el.map ((fun x : Dva α => x.d) ∘ fun r =>
          frfUnc e.i (if e.mNone = true then 1 else e.M r r) (e.B r r) (e.K r r) (F r) w) =
        el.map fun r => F r / (e.i * (e.B r r * w) + e.K r r - e.M r r * (w * w)) := by
      apply List.map_congr_left
      intro c hc
      simp only [Function.comp, frfUnc]
      by_cases hm : e.mNone = true
      · simp [hm, hmn hm c hc]
      · simp [hm]
    rw [hmap, blockSum_diag _ el hnd _ (fun r hr c hc hne => by
      obtain ⟨h1, h2, h3⟩ := hoff r hr c hc hne
      simp [h1, h2, h3]) r hr]
    show (e.i * e.B r r * w + e.K r r - e.M r r * (w * w)) *
      (F r / (e.i * (e.B r r * w) + e.K r r - e.M r r * (w * w))) = F r
    rw [show e.i * e.B r r * w + e.K r r - e.M r r * (w * w) =
      e.i * (e.B r r * w) + e.K r r - e.M r r * (w * w) by ring, mul_div_cancel₀ _ (hden r hr)]
  · intro x hx
    obtain ⟨r, _, rfl⟩ := List.mem_map.1 hx
    simp only [frfUnc]
    exact ⟨by ring, by ring⟩

/-- `_solve_freq_coup`, elastic block: from the eigen-decomposition specification of the state
matrix of the *elastic block* (as in `frfCoupled_solves`, now on the rows `kdof` of the full-size
matrices) the block values satisfy `(K − Ω²M + iΩB)[kdof,kdof] d = F[kdof]`; `M⁻¹F` is computed by
the proved solver (`lu_solve(invm, …)`) or is `F` itself when `m = None`. -/
theorem elBlockCoup_solves (e : ColEnv α) (hz : ∀ x, e.isZero x = true ↔ x = 0)
    (kdof : List Nat) (hnd : kdof.Nodup) {s : Nat}
    (lam : Fin s → α) (urd : Fin kdof.length → Fin s → α) (urinvv : Fin s → Fin kdof.length → α)
    (Uv : Fin kdof.length → Fin s → α) (F : Nat → α) (w : α)
    (hmn : e.mNone = true → ∀ r ∈ kdof, ∀ c ∈ kdof, e.M r c = if r = c then 1 else 0)
    (htop : of (fun p q : Fin kdof.length => e.M kdof[p] kdof[q]) * (of Uv * diagonal lam)
      + of (fun p q : Fin kdof.length => e.B kdof[p] kdof[q]) * of Uv
      + of (fun p q : Fin kdof.length => e.K kdof[p] kdof[q]) * of urd = 0)
    (hbot : of Uv = of urd * diagonal lam)
    (hU1 : of Uv * of urinvv = 1) (hU2 : of urd * of urinvv = 0)
    (hH : ∀ j, e.i * w - lam j ≠ 0) (hi : e.i * e.i = -1)
    (vel : List (Dva α)) (h : elValsCoup e kdof kdof lam urd urinvv F w = .ok vel) :
    vel.length = kdof.length ∧
    (∀ r ∈ kdof, blockSum (fun r c => e.i * e.B r c * w + e.K r c - e.M r c * (w * w)) kdof
      (vel.map (·.d)) r = F r) ∧
    ∀ x ∈ vel, x.v = e.i * w * x.d ∧ x.a = -(w * w) * x.d := by
  unfold elValsCoup at h
  -- `imf = M⁻¹ F[kdof]`
  have himf : ∀ imf, (if e.mNone = true then Except.ok (kdof.map F) else solveIdx e e.M kdof kdof F)
      = .ok imf → imf.length = kdof.length ∧ ∀ r ∈ kdof, blockSum e.M kdof imf r = F r := by
    intro imf hx
    by_cases hm : e.mNone = true
    · simp only [hm, if_true, Except.ok.injEq] at hx
      subst hx
      refine ⟨by simp, fun r hr => ?_⟩
      rw [blockSum_diag e.M kdof hnd F
        (fun r hr c hc hne => by rw [hmn hm r hr c hc, if_neg hne]) r hr, hmn hm r hr r hr]
      simp
    · simp only [hm, Bool.false_eq_true, if_false] at hx
      exact blockEq_of_solveIdx e hz e.M kdof F imf hx
  cases hx : (if e.mNone = true then Except.ok (kdof.map F) else solveIdx e e.M kdof kdof F) with
  | error m => simp only [hx] at h; cases h
  | ok imf =>
    simp only [hx] at h
    obtain ⟨hl, hM⟩ := himf imf hx
    rw [dif_pos hl] at h
    simp only [Except.ok.injEq] at h
    subst h
    set g : Fin kdof.length → α := fun q => imf[q.val]'(by rw [hl]; exact q.isLt) with hg
    have himf' : imf = List.ofFn g := by
      apply List.ext_getElem
      · simp [hl]
      · intro k h1 h2; simp [hg]
    have hMg : of (fun p q : Fin kdof.length => e.M kdof[p] kdof[q]) *ᵥ g =
        fun p : Fin kdof.length => F kdof[p] := by
      funext p
      have := hM kdof[p] (List.getElem_mem _)
      rw [himf', blockSum_ofFn] at this
      simpa [Matrix.mulVec, dotProduct] using this
    have hsol := frfCoupled_solves e.i w (fun p q : Fin kdof.length => e.M kdof[p] kdof[q])
      (fun p q : Fin kdof.length => e.B kdof[p] kdof[q])
      (fun p q : Fin kdof.length => e.K kdof[p] kdof[q]) lam Uv urd urinvv
      (fun p : Fin kdof.length => F kdof[p]) g hMg htop hbot hU1 hU2 hH hi
    refine ⟨by simp, ?_, ?_⟩
    · intro r hr
      obtain ⟨k, hk, rfl⟩ := List.mem_iff_getElem.1 hr
      rw [List.map_map]
      have : ((fun x : Dva α => x.d) ∘ dvaOfDisp e.i w) = id := by
        funext y; simp [Function.comp, dvaOfDisp]
      rw [this, List.map_id]
      have h2 := blockSum_ofFn (fun r c => e.i * e.B r c * w + e.K r c - e.M r c * (w * w)) kdof
        (frfCoupled e.i w lam urd urinvv g) ⟨k, hk⟩
      simp only [Fin.getElem_fin] at h2
      rw [h2]
      have := congrFun hsol ⟨k, hk⟩
      simpa [Matrix.mulVec, dotProduct, dynStiff] using this
    · intro x hx'
      obtain ⟨y, _, rfl⟩ := List.mem_map.1 hx'
      simp only [dvaOfDisp]
      exact ⟨by ring, by ring⟩

end blocks

end PyYetiVerif.C02
