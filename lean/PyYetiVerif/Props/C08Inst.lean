import PyYetiVerif.Lemmas.GenMachineInst
import PyYetiVerif.Props.C08
import Mathlib.Data.Complex.Basic
/-!
# C08 — the concrete generators are instances of the one-step machine

`Model/GenMachineInst.lean` transcribes `_solve_real_unc_generator`, `_solve_se2_generator` and
`_solve_complex_unc_generator` statement by statement (`uncStep`, `exp2Step`, `cplxStep`).  Here:
each is, request for request, `step` of a `Lin` (`uncLin`, `exp2Lin`, `cplxLin`), so that
`gen_invariant`, `visible_eq_batch`, `finalize_eq_batch`, `f2x_is_unit_addon`, `api_refines` apply
to it; the same for what the code does with an arbitrary request (`…StepApi`).  The tie is one
correspondence stream per generator (harness/props/c08.py streams `unc` — bit for bit —, `exp2`,
`cpx`): the driver builds the coefficient maps from the solver's stored arrays in the operation
order of the source.
-/
namespace PyYetiVerif.C08
open PyYetiVerif.GenMachine

section unc
variable {V M W : Type} [Add V] [AddMonoid M] [Add W]

/-- `_solve_real_unc_generator` (order 0 and 1, with or without rf rows) is the one-step machine
of `uncLin`: `T = [[F, G], [Fp, Gp]]`, `P = (A, Ap)` (order 0: `(A+B, Ap+Bp)`), `Q = (B, Bp)`
(order 0: 0); also on arbitrary requests. -/
theorem unc_step_is_instance (c : UncCoef V M W) :
    uncStep c = step (uncLin c) ∧
      ∀ nt a op, uncStepApi c nt a op = stepApi (uncLin c) nt a op := by
  constructor
  · funext s op
    cases op with
    | send i f => exact uncSendAt_eq c s (i - 1) i f
    | addon f => exact uncAddon_eq c s f
  · intro nt a op
    cases op with
    | send i f => simp only [uncStepApi, stepApi, uncSendAt_eq]
    | addon f => simp only [uncStepApi, stepApi, uncAddon_eq]

end unc

section exp2
variable {V M W : Type} [Add V] [AddMonoid M] [Add W]

/-- ★ `_solve_se2_generator` is the one-step machine of `exp2Lin`: `x_i = E x_{i-1} + P f_{i-1} +
Q f_i` with `E` in its four blocks, `P`, `Q` already multiplied by the inverse mass, order 0:
`Q = 0`; the add-on adds `Q f` (`PQF = Q @ F1[kdof]`); also on arbitrary requests. -/
theorem exp2_step_is_instance (c : Exp2Coef V M W) :
    exp2Step c = step (exp2Lin c) ∧
      ∀ nt a op, exp2StepApi c nt a op = stepApi (exp2Lin c) nt a op := by
  constructor
  · funext s op
    cases op with
    | send i f => exact exp2SendAt_eq c s (i - 1) i f
    | addon f => exact exp2Addon_eq c s f
  · intro nt a op
    cases op with
    | send i f => simp only [exp2StepApi, stepApi, exp2SendAt_eq]
    | addon f => simp only [exp2StepApi, stepApi, exp2Addon_eq]

/-- the add-on maps of `exp2Lin` are additive when `Q`, the kdof selection and the rf map are -/
theorem exp2Lin_addOn (c : Exp2Coef V M W) (hQ : ∀ a b, c.Q (a + b) = c.Q a + c.Q b)
    (hK : ∀ a b, c.K (a + b) = c.K a + c.K b) (hS : ∀ a b, c.S (a + b) = c.S a + c.S b) :
    AddOnAdditive (exp2Lin c) := by
  constructor
  · intro a b
    cases ho : c.order1
    · simp only [exp2Lin, ho, Bool.false_eq_true, if_false, DV.add_zero']
    · simp only [exp2Lin, ho, if_true, hK, hQ]
  · exact hS

/-- hence the SolveExp2 generator shows the batch values of the force in effect after every
request of a valid history. -/
theorem exp2_gen_eq_batch [Zero V] [Zero W] (c : Exp2Coef V M W)
    (hQ : ∀ a b, c.Q (a + b) = c.Q a + c.Q b) (hK : ∀ a b, c.K (a + b) = c.K a + c.K b)
    (hS : ∀ a b, c.S (a + b) = c.S a + c.S b) (f0 : V) (x0 : DV M) (ops : List (Op V))
    (hv : Valid (exp2Lin c) (init (exp2Lin c) f0 x0) ops) :
    let s := ops.foldl (exp2Step c) (init (exp2Lin c) f0 x0)
    s.force 0 = f0 ∧
      ∀ j, j ≤ s.cur → s.x j = batch (exp2Lin c) s.force x0 j ∧ s.r j = c.S (s.force j) := by
  rw [(exp2_step_is_instance c).1]
  exact visible_eq_batch (exp2Lin c) (exp2Lin_addOn c hQ hK hS) f0 x0 ops hv

end exp2

section cplx
variable {R E S Y : Type} [AddMonoid R] [AddMonoid E] [Add S] [Add Y]

/-- ★ `_solve_complex_unc_generator` is the one-step machine of `cplxLin`: rigid-body rows
`d += G v + A (F0 + F1/2)`, `v += Ap (F0 + F1)`, elastic rows through the complex modal
recurrence `y ← Fe y + Ae w0 + Be w1` with `y = ur_inv_v V + ur_inv_d D` and the REAL recovery
`D = rur_d Re y − iur_d Im y` (so `d, v` stay real), static rows `d[rf] = ikrf F[rf]`,
`a[rb] = imrb F[rb]` — given that the scalings and matrix products involved are additive. -/
theorem complex_step_is_instance (c : CplxCoef R E S Y) (h : CplxAdditive c) :
    cplxStep c = step (cplxLin c) ∧
      ∀ nt a op, cplxStepApi c nt a op = stepApi (cplxLin c) nt a op := by
  constructor
  · funext s op
    cases op with
    | send i f => exact cplxSendAt_eq c h s (i - 1) i f
    | addon f => exact cplxAddon_eq c s f
  · intro nt a op
    cases op with
    | send i f => simp only [cplxStepApi, stepApi, cplxSendAt_eq c h]
    | addon f => simp only [cplxStepApi, stepApi, cplxAddon_eq]

/-- additivity of the add-on maps of `cplxLin` -/
theorem cplxLin_addOn (c : CplxCoef R E S Y) (h : CplxAdditive c)
    (hhalf : ∀ a b, c.half (a + b) = c.half a + c.half b)
    (himrb : ∀ a b, c.imrb (a + b) = c.imrb a + c.imrb b)
    (hinvm : ∀ a b, c.invm (a + b) = c.invm a + c.invm b)
    (huiv : ∀ a b, c.uiv (a + b) = c.uiv a + c.uiv b)
    (hBe : ∀ a b, c.Be (a + b) = c.Be a + c.Be b)
    (hikrf : ∀ a b, c.ikrf (a + b) = c.ikrf a + c.ikrf b) :
    AddOnAdditive (cplxLin c) := by
  constructor
  · intro a b
    cases ho : c.order1
    · simp only [cplxLin, ho, Bool.false_eq_true, if_false, CX.add_zero']
    · simp only [cplxLin, ho, if_true, P3.add_def, CX.add_def, himrb, hhalf, h.A, h.Ap, hinvm,
        huiv, hBe, h.recD, h.recV]
  · intro a b
    simp only [cplxLin, P3.add_def, CW.add_def, hikrf, himrb]

/-- hence the complex-path generator shows the batch values after every request of a valid
history (state rows and static rows, the rigid-body acceleration among them). -/
theorem complex_gen_eq_batch [Zero S] (c : CplxCoef R E S Y) (h : CplxAdditive c)
    (hadd : AddOnAdditive (cplxLin c)) (f0 : P3 R E S) (x0 : CX R E)
    (ops : List (Op (P3 R E S))) (hv : Valid (cplxLin c) (init (cplxLin c) f0 x0) ops) :
    let s := ops.foldl (cplxStep c) (init (cplxLin c) f0 x0)
    s.force 0 = f0 ∧
      ∀ j, j ≤ s.cur →
        s.x j = batch (cplxLin c) s.force x0 j ∧
          s.r j = ⟨c.ikrf (s.force j).rf, c.imrb (s.force j).rb⟩ := by
  rw [(complex_step_is_instance c h).1]
  exact visible_eq_batch (cplxLin c) hadd f0 x0 ops hv

end cplx

/-- the real recovery of the complex path: `rur @ y.real − iur @ y.imag` is the real part of
`ur @ y`, entry by entry … -/
theorem complex_recovery_is_real_part (u y : ℂ) : u.re * y.re - u.im * y.im = (u * y).re :=
  (Complex.mul_re u y).symm

/-- … and keeping one mode of a conjugate pair with the factor 2 (`delconj`) loses nothing: the
pair contributes `u y + conj u conj y = 2 Re (u y)`. -/
theorem conj_pair_sum_real (u y : ℂ) :
    u * y + (starRingEnd ℂ) u * (starRingEnd ℂ) y = ((2 * (u * y).re : ℝ) : ℂ) := by
  apply Complex.ext
  · simp only [Complex.add_re, Complex.mul_re, Complex.conj_re, Complex.conj_im,
      Complex.ofReal_re]
    ring
  · simp only [Complex.add_im, Complex.mul_im, Complex.conj_re, Complex.conj_im,
      Complex.ofReal_im]
    ring

/-! ### non-vacuity -/

def exExp2 (o : Bool) : Exp2Coef Int Int Int :=
  { Edd := (2 * ·), Edv := (3 * ·), Evd := (5 * ·), Evv := (7 * ·),
    P := fun f => ⟨11 * f, 13 * f⟩, Q := fun f => ⟨17 * f, 19 * f⟩, K := id, S := (23 * ·),
    order1 := o }

example (o : Bool) : ∀ a b, (exExp2 o).Q (a + b) = (exExp2 o).Q a + (exExp2 o).Q b := by
  intro a b; simp only [exExp2, DV.add_def, Int.mul_add]

example : (([.send 1 1, .addon 2, .send 2 3, .send 1 4] : List (Op Int)).foldl (exp2Step (exExp2 true))
    (init (exp2Lin (exExp2 true)) 1 ⟨1, 1⟩)).cur = 1 := rfl

def exCplx (o : Bool) : CplxCoef Int Int Int Int :=
  { G := (2 * ·), A := (3 * ·), Ap := (5 * ·), A0 := (7 * ·), Ap0 := (11 * ·), half := (13 * ·),
    imrb := (17 * ·), invm := (19 * ·), uiv := (23 * ·), uid := (29 * ·), Fe := (31 * ·),
    Ae := (37 * ·), Be := (41 * ·), AeBe := (43 * ·), recD := (47 * ·), recV := (53 * ·),
    ikrf := (59 * ·), order1 := o }

example (o : Bool) : CplxAdditive (exCplx o) := by
  constructor <;> intro a b <;> simp only [exCplx] <;> exact Int.mul_add _ a b

end PyYetiVerif.C08
