import PyYetiVerif.Lemmas.FreqBlocks
import PyYetiVerif.Props.C02c
/-!
# C02 (continued) — the assembled full-size solution solves the full equation, row by row

`fsolve_full_solves`: the zero-initialised `d` with the rigid-body, elastic and residual-flexibility
block solutions scattered into it (`assemble`, in the order of the source, index vectors in any
order) satisfies `partStiff · d = F` — the full-size matrix that is `iΩ Brb − Ω²M` on the rigid-body block
(`Brb`: the damping the rigid-body block is solved with — the diagonal of `b` on the uncoupled path,
zero on the coupled path),
`K − Ω²M + iΩB` on the elastic block, `K` on the residual-flexibility block and zero between the
partitions — given the three block equations.  The block equations are what `frfRb_solves`,
`frfUnc_solves` / `frfCoupled_solves` and `rf_rows` give per block; `rbBlock_solves`,
`rfBlock_solves`, `elBlockUnc_solves` derive them for the model's own block functions
(`rbAcc` + `frfRb`, `rfVals`, `elValsUnc`) including the linear solves (`gaussList`).
-/
set_option linter.unusedSimpArgs false
set_option linter.unusedSectionVars false
set_option linter.unusedVariables false
namespace PyYetiVerif.C02
open PyYetiVerif.Freq

section full
variable {α : Type} [Field α]

/-- row by row: a row satisfies the full-size equation as soon as *its own* block equation holds (the
elastic and residual-flexibility block equations are given; the rigid-body one is asked for the row
at hand only — at `Ω = 0` it does not hold, and the rows outside the rigid-body set do not need it) -/
theorem fsolve_full_rows (n : Nat) (i w : α) (M Brb B K : Nat → Nat → α) (F : Nat → α)
    (rb el rf : List Nat) (hperm : (rb ++ el ++ rf).Perm (List.range n))
    (vrb vel vrf : List (Dva α))
    (hlrb : rb.length = vrb.length) (hlel : el.length = vel.length) (hlrf : rf.length = vrf.length)
    (hel : ∀ r ∈ el, blockSum (fun r c => i * B r c * w + K r c - M r c * (w * w)) el
      (vel.map (·.d)) r = F r)
    (hrf : ∀ r ∈ rf, blockSum K rf (vrf.map (·.d)) r = F r) :
    ∀ r, r < n →
      (r ∈ rb → blockSum (fun r c => i * Brb r c * w - M r c * (w * w)) rb (vrb.map (·.d)) r = F r) →
      ((List.range n).map fun c =>
        partStiff i w M Brb B K rb el rf r c * (rowOf (assemble n rf vrf rb vrb el vel) c).d).sum = F r := by
  intro r hr hrb
  obtain ⟨_, _, hgrb, hgel, hgrf⟩ := scatter_covers n rb el rf hperm vrb vel vrf hlrb hlel hlrf
  set sol := assemble n rf vrf rb vrb el vel with hsol
  have hnd : (rb ++ el ++ rf).Nodup := hperm.nodup_iff.2 List.nodup_range
  have hnd1 := List.nodup_append.1 hnd
  have hnd2 := List.nodup_append.1 hnd1.1
  have hd1 : ∀ x ∈ rb, x ∉ el := fun x h1 h2 => hnd2.2.2 x h1 x h2 rfl
  have hd2 : ∀ x ∈ rb, x ∉ rf := fun x h1 h2 => hnd1.2.2 x (List.mem_append_left _ h1) x h2 rfl
  have hd3 : ∀ x ∈ el, x ∉ rf := fun x h1 h2 => hnd1.2.2 x (List.mem_append_right _ h1) x h2 rfl
  -- split the row sum along the partition
  rw [← sum_map_perm hperm, List.map_append, List.map_append, List.sum_append, List.sum_append]
  -- the values of `d` on each block
  have hblock : ∀ (idx : List Nat) (vals : List (Dva α)) (hl : idx.length = vals.length)
      (hget : ∀ q (hq : q < idx.length), sol[idx[q]]? = some (vals[q]'(hl ▸ hq)))
      (A : Nat → Nat → α) (a : Nat → α) (ha : ∀ c, a c = A r c),
      (idx.map fun c => a c * (rowOf sol c).d).sum = blockSum A idx (vals.map (·.d)) r := by
    intro idx vals hl hget A a ha
    have := map_rows_eq_zip sol idx vals hl hget (fun c o => a c * (optRow o).d)
    unfold rowOf
    rw [this]
    unfold blockSum
    rw [List.zip_map_right, List.map_map]
    apply congrArg
    apply List.map_congr_left
    intro cx _
    simp [optRow, ha]
  have hr' : r ∈ rb ++ el ++ rf := hperm.mem_iff.2 (List.mem_range.2 hr)
  rcases List.mem_append.1 hr' with hr' | hrrf
  · rcases List.mem_append.1 hr' with hrrb | hrel
    · -- a rigid-body row
      have e1 : (rb.map fun c => partStiff i w M Brb B K rb el rf r c * (rowOf sol c).d) =
          rb.map fun c => (i * Brb r c * w - M r c * (w * w)) * (rowOf sol c).d := by
        apply List.map_congr_left
        intro c hc
        simp [partStiff, hrrb, hc]
      have e2 : (el.map fun c => partStiff i w M Brb B K rb el rf r c * (rowOf sol c).d).sum = 0 := by
        apply sum_map_zero
        intro c hc
        have : c ∉ rb := fun h => hd1 c h hc
        simp [partStiff, hrrb, this, hd1 r hrrb, hd2 r hrrb]
      have e3 : (rf.map fun c => partStiff i w M Brb B K rb el rf r c * (rowOf sol c).d).sum = 0 := by
        apply sum_map_zero
        intro c hc
        have : c ∉ rb := fun h => hd2 c h hc
        simp [partStiff, hrrb, this, hd1 r hrrb, hd2 r hrrb]
      rw [e1, e2, e3, hblock rb vrb hlrb hgrb (fun r c => i * Brb r c * w - M r c * (w * w)) _ (fun _ => rfl),
        hrb hrrb]; ring
    · -- an elastic row
      have hnrb : r ∉ rb := fun h => hd1 r h hrel
      have e1 : (rb.map fun c => partStiff i w M Brb B K rb el rf r c * (rowOf sol c).d).sum = 0 := by
        apply sum_map_zero
        intro c hc
        simp [partStiff, hnrb, hrel, hd1 c hc, hd3 r hrel]
      have e2 : (el.map fun c => partStiff i w M Brb B K rb el rf r c * (rowOf sol c).d) =
          el.map fun c => (i * B r c * w + K r c - M r c * (w * w)) * (rowOf sol c).d := by
        apply List.map_congr_left
        intro c hc
        simp [partStiff, hnrb, hrel, hc]
      have e3 : (rf.map fun c => partStiff i w M Brb B K rb el rf r c * (rowOf sol c).d).sum = 0 := by
        apply sum_map_zero
        intro c hc
        have : c ∉ el := fun h => hd3 c h hc
        simp [partStiff, hnrb, hrel, this, hd3 r hrel]
      rw [e1, e2, e3, hblock el vel hlel hgel (fun r c => i * B r c * w + K r c - M r c * (w * w)) _
        (fun _ => rfl), hel r hrel]; ring
  · -- a residual-flexibility row
    have hnrb : r ∉ rb := fun h => hd2 r h hrrf
    have hnel : r ∉ el := fun h => hd3 r h hrrf
    have e1 : (rb.map fun c => partStiff i w M Brb B K rb el rf r c * (rowOf sol c).d).sum = 0 := by
      apply sum_map_zero
      intro c hc
      simp [partStiff, hnrb, hnel, hrrf, hd2 c hc]
    have e2 : (el.map fun c => partStiff i w M Brb B K rb el rf r c * (rowOf sol c).d).sum = 0 := by
      apply sum_map_zero
      intro c hc
      simp [partStiff, hnrb, hnel, hrrf, hd3 c hc]
    have e3 : (rf.map fun c => partStiff i w M Brb B K rb el rf r c * (rowOf sol c).d) =
        rf.map fun c => K r c * (rowOf sol c).d := by
      apply List.map_congr_left
      intro c hc
      simp [partStiff, hnrb, hnel, hrrf, hc]
    rw [e1, e2, e3, hblock rf vrf hlrf hgrf K _ (fun _ => rfl), hrf r hrrf]; ring

/-- **`fsolve_full_solves`** -/
theorem fsolve_full_solves (n : Nat) (i w : α) (M Brb B K : Nat → Nat → α) (F : Nat → α)
    (rb el rf : List Nat) (hperm : (rb ++ el ++ rf).Perm (List.range n))
    (vrb vel vrf : List (Dva α))
    (hlrb : rb.length = vrb.length) (hlel : el.length = vel.length) (hlrf : rf.length = vrf.length)
    (hrb : ∀ r ∈ rb, blockSum (fun r c => i * Brb r c * w - M r c * (w * w)) rb (vrb.map (·.d)) r = F r)
    (hel : ∀ r ∈ el, blockSum (fun r c => i * B r c * w + K r c - M r c * (w * w)) el
      (vel.map (·.d)) r = F r)
    (hrf : ∀ r ∈ rf, blockSum K rf (vrf.map (·.d)) r = F r) :
    ∀ r, r < n →
      ((List.range n).map fun c =>
        partStiff i w M Brb B K rb el rf r c * (rowOf (assemble n rf vrf rb vrb el vel) c).d).sum = F r :=
  fun r hr => fsolve_full_rows n i w M Brb B K F rb el rf hperm vrb vel vrf hlrb hlel hlrf hel hrf r hr
    (fun h => hrb r h)

/-- on every row `v = iΩ d`, `a = −Ω² d` carries over from the blocks to the assembled column -/
theorem fsolve_full_va (n : Nat) (i w : α) (rb el rf : List Nat)
    (hperm : (rb ++ el ++ rf).Perm (List.range n)) (vrb vel vrf : List (Dva α))
    (hlrb : rb.length = vrb.length) (hlel : el.length = vel.length) (hlrf : rf.length = vrf.length)
    (hva : ∀ x ∈ vrb ++ vel ++ vrf, x.v = i * w * x.d ∧ x.a = -(w * w) * x.d) :
    ∀ r, r < n → (rowOf (assemble n rf vrf rb vrb el vel) r).v =
        i * w * (rowOf (assemble n rf vrf rb vrb el vel) r).d ∧
      (rowOf (assemble n rf vrf rb vrb el vel) r).a =
        -(w * w) * (rowOf (assemble n rf vrf rb vrb el vel) r).d := by
  intro r hr
  obtain ⟨_, _, hgrb, hgel, hgrf⟩ := scatter_covers n rb el rf hperm vrb vel vrf hlrb hlel hlrf
  have hr' : r ∈ rb ++ el ++ rf := hperm.mem_iff.2 (List.mem_range.2 hr)
  have key : ∀ (idx : List Nat) (vals : List (Dva α)) (hl : idx.length = vals.length)
      (hget : ∀ q (hq : q < idx.length),
        (assemble n rf vrf rb vrb el vel)[idx[q]]? = some (vals[q]'(hl ▸ hq))),
      r ∈ idx → ∃ x ∈ vals, rowOf (assemble n rf vrf rb vrb el vel) r = x := by
    intro idx vals hl hget hmem
    obtain ⟨q, hq, rfl⟩ := List.mem_iff_getElem.1 hmem
    exact ⟨vals[q]'(hl ▸ hq), List.getElem_mem _, by simp [rowOf, optRow, hget q hq]⟩
  rcases List.mem_append.1 hr' with hr' | hrrf
  · rcases List.mem_append.1 hr' with hrrb | hrel
    · obtain ⟨x, hx, hxe⟩ := key rb vrb hlrb hgrb hrrb
      rw [hxe]; exact hva x (by simp [hx])
    · obtain ⟨x, hx, hxe⟩ := key el vel hlel hgel hrel
      rw [hxe]; exact hva x (by simp [hx])
  · obtain ⟨x, hx, hxe⟩ := key rf vrf hlrf hgrf hrrf
    rw [hxe]; exact hva x (by simp [hx])

end full

end PyYetiVerif.C02
