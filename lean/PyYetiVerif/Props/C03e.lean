import PyYetiVerif.Lemmas.SrsPack
/-!
# C03, fifth part — the frequency vector, packaging, callable peaks

Property theorems only (model: `Model/Srs.lean`, `SrsExt.lean`, `SrsPack.lean`; helper lemmas:
`Lemmas/SrsPack.lean`).  Everything is over `ℝ`.

* `srs_column_depends_only_on_its_frequency`: a (frequency, column) cell of `srs.srs` depends on the
  frequency vector only through its own entry and the *set* of entries (smallest positive entry:
  length of the appended cycle; largest entry: roll-off decision) — so permuting `freq` permutes the
  rows, repeating an entry repeats its row (`srs_frequency_permutation`,
  `srs_repeated_frequency_repeats_row`), also through the roll-off step;
* `srs_zero_hz_steady_history`: what `ic='steady'` returns for a 0 Hz oscillator;
* `srs_columnwise`, `srs_shapes`, `srs_hist_lengths_uniform`, `srs_packaging_1d`;
* `eqsine_commutes_iff_homogeneous`, `peak_sel_pos_homogeneous`, `mean_square_not_homogeneous`,
  `eqsine_history_divided_before_peak`, `srs_callable_peak_eqsine`, `peak_rms_le_abs`.
-/
namespace PyYetiVerif.C03
open PyYetiVerif.Srs

/-! ## the frequency vector -/

/-- one cell, `rolloff='none'`: two frequency vectors with the same set of entries give the same
history and spectrum value for the oscillator `f` -/
theorem srs_column_depends_only_on_its_frequency (o : Opts) (Q sr f : ℝ)
    (freqs freqs' sig : List ℝ) (h : ∀ x, x ∈ freqs ↔ x ∈ freqs') :
    srsCol o Q sr freqs f sig = srsCol o Q sr freqs' f sig := by
  cases sig with
  | nil => rfl
  | cons s1 rest => simp only [srsCol, srsTail, nzeros_congr sr freqs freqs' h]

/-- the same through the roll-off step, for any resampler -/
theorem srs_rolled_column_depends_only_on_its_frequency (o : Opts) (roll : Roll)
    (up : List ℝ → ℕ → List ℝ) (ppc Q sr f : ℝ) (freqs freqs' sig : List ℝ)
    (h : ∀ x, x ∈ freqs ↔ x ∈ freqs') :
    srsRolled o roll up ppc Q sr freqs f sig = srsRolled o roll up ppc Q sr freqs' f sig := by
  have hn : ∀ s : ℝ, nzeros s freqs = nzeros s freqs' := fun s => nzeros_congr s freqs freqs' h
  simp only [srsRolled, maxFreq_congr freqs freqs' h, srsTail, hn]

/-- the whole result for `freqs'` consists of the rows that its entries have in the result for any
`freqs` with the same set of entries -/
theorem srs_rows_follow_the_frequency_vector (o : Opts) (Q sr : ℝ) (freqs freqs' : List ℝ)
    (cols : List (List ℝ)) (h : ∀ x, x ∈ freqs ↔ x ∈ freqs') :
    srsAll o Q sr freqs' cols
      = freqs'.map fun f => cols.map fun sig => srsCol o Q sr freqs f sig := by
  unfold srsAll
  apply List.map_congr_left
  intro f _
  apply List.map_congr_left
  intro sig _
  exact (srs_column_depends_only_on_its_frequency o Q sr f freqs freqs' sig h).symm

/-- permuting `freq` permutes the rows of `sh` / the last axis of `resp['hist']` -/
theorem srs_frequency_permutation (o : Opts) (Q sr : ℝ) (freqs freqs' : List ℝ)
    (cols : List (List ℝ)) (hp : freqs.Perm freqs') :
    (srsAll o Q sr freqs cols).Perm (srsAll o Q sr freqs' cols) := by
  rw [srs_rows_follow_the_frequency_vector o Q sr freqs freqs' cols (fun x => hp.mem_iff)]
  exact hp.map _

/-- equal entries of `freq` give equal rows (wherever they stand in the vector) -/
theorem srs_repeated_frequency_repeats_row (o : Opts) (Q sr : ℝ) (freqs : List ℝ)
    (cols : List (List ℝ)) (j j' : ℕ) (hj : j < freqs.length) (hj' : j' < freqs.length)
    (he : freqs[j] = freqs[j']) :
    (srsAll o Q sr freqs cols)[j]? = (srsAll o Q sr freqs cols)[j']? := by
  simp only [srsAll, List.getElem?_map, List.getElem?_eq_getElem hj, List.getElem?_eq_getElem hj',
    Option.map_some, he]

/-! ## 0 Hz with `ic='steady'` -/

/-- the steady-state value that `srs` adds back at 0 Hz -/
noncomputable def zeroHzSteadyOffset (st : SType) (s1 : ℝ) : ℝ :=
  match st with
  | .absacce => s1
  | .pacce => -s1
  | _ => 0

/-- `ic='steady'` at 0 Hz (`reldisp`, `pvelo` excluded: the code divides by `wn = 0`): the history is
the rigid-oscillator response to `sig - sig[0]` plus `s1` (absacce), `-s1` (pacce), nothing
(relacce, relvelo) -/
theorem srs_zero_hz_steady_history (st : SType) (hst : st ≠ .reldisp ∧ st ≠ .pvelo) (Q h : ℝ)
    (hh : h ≠ 0) (s1 : ℝ) (sig : List ℝ) :
    addBack st (2 * TransOps.pi * 0) (processIc .steady st s1 sig).2
        (lfilter (st.coef Q h (2 * TransOps.pi * 0)) (processIc .steady st s1 sig).1)
      = (rigidResp st Q h (sig.map (· - s1))).map (· + zeroHzSteadyOffset st s1) := by
  rw [mul_zero, lfilter_rigid_eq st Q h hh]
  cases st <;> simp [addBack, processIc, zeroHzSteadyOffset] at hst ⊢

/-- in particular the absolute acceleration is the constant `sig[0]` -/
theorem srs_zero_hz_steady_absacce_is_constant (Q h : ℝ) (hh : h ≠ 0) (s1 : ℝ) (sig : List ℝ) :
    ∀ y ∈ addBack .absacce (2 * TransOps.pi * 0) (processIc .steady .absacce s1 sig).2
        (lfilter (SType.absacce.coef Q h (2 * TransOps.pi * 0))
          (processIc .steady .absacce s1 sig).1), y = s1 := by
  rw [srs_zero_hz_steady_history .absacce (by simp) Q h hh s1 sig]
  intro y hy
  simp only [rigidResp, List.map_map, List.mem_map, Function.comp] at hy
  obtain ⟨s, _, rfl⟩ := hy
  rw [(rigid_out Q h s).1]
  simp [zeroHzSteadyOffset]

/-! ## columns, shapes, packaging -/

/-- the cell `(j, c)` of the result is `srsCol` of frequency `j` and signal column `c` alone -/
theorem srs_columnwise (o : Opts) (Q sr : ℝ) (freqs : List ℝ) (cols : List (List ℝ)) (j c : ℕ) :
    ((srsAll o Q sr freqs cols)[j]?).bind (·[c]?)
      = (freqs[j]?).bind fun f => (cols[c]?).map fun sig => srsCol o Q sr freqs f sig := by
  simp only [srsAll, List.getElem?_map]
  cases freqs[j]? <;> simp

/-- `sh.shape = (len(freq), nsignals)` -/
theorem srs_shapes (o : Opts) (Q sr : ℝ) (freqs : List ℝ) (cols : List (List ℝ)) :
    (srsAll o Q sr freqs cols).length = freqs.length ∧
    ∀ row ∈ srsAll o Q sr freqs cols, row.length = cols.length := by
  refine ⟨by simp [srsAll], ?_⟩
  intro row hrow
  simp only [srsAll, List.mem_map] at hrow
  obtain ⟨f, _, rfl⟩ := hrow
  simp

/-- all histories have the same length (`resp['hist']` is a rectangular `(len(t), nsignals,
len(freq))` array): `N`, `N + nzeros` or `nzeros` samples for a signal of `N` samples -/
theorem srs_hist_lengths_uniform (o : Opts) (Q sr : ℝ) (freqs : List ℝ) (cols : List (List ℝ))
    (n : ℕ) (hn : ∀ sig ∈ cols, sig.length = n) :
    ∀ row ∈ srsAll o Q sr freqs cols, ∀ cell ∈ row, ∀ r, cell = some r →
      r.1.length = windowLen o.time n (nzeros sr freqs) := by
  intro row hrow cell hcell r hr
  simp only [srsAll, List.mem_map] at hrow
  obtain ⟨f, _, rfl⟩ := hrow
  obtain ⟨sig, hsig, rfl⟩ := List.mem_map.mp hcell
  cases sig with
  | nil => simp [srsCol] at hr
  | cons s1 rest =>
    have := window_lengths' o Q sr f s1 freqs _ _ r hr
    rw [processIc_length, hn _ hsig] at this
    rw [this]
    cases o.time <;> rfl

/-- a 1-D signal: `sh` is the single column, flattened -/
theorem srs_packaging_1d (sh : List ℝ) :
    packSh true (sh.map fun v => [v]) = [sh] ∧
    ∀ sh2 : List (List ℝ), packSh false sh2 = sh2 := by
  refine ⟨?_, fun _ => rfl⟩
  simp only [packSh, if_true]
  congr 1
  induction sh with
  | nil => rfl
  | cons v vs ih => simp [List.flatten_cons, ih]

/-! ## peaks: callable `peak`, `eqsine`, `rms` -/

/-- positively homogeneous of degree 1 -/
def PosHom (sel : ℝ → List ℝ → ℝ) : Prop :=
  ∀ k : ℝ, 0 < k → ∀ y ys, sel (k * y) (ys.map (k * ·)) = k * sel y ys

/-- dividing the history by `Q` before the peak function and dividing its value by `Q` afterwards
(what `srs` does: `SRSmax /= Q`) agree for every `Q > 0` and every window iff the peak function is
positively homogeneous of degree 1 -/
theorem eqsine_commutes_iff_homogeneous (sel : ℝ → List ℝ → ℝ) :
    (∀ Q : ℝ, 0 < Q → ∀ y ys, sel (y / Q) (ys.map (· / Q)) = sel y ys / Q) ↔ PosHom sel := by
  constructor
  · intro h k hk y ys
    have := h (1 / k) (by positivity) y ys
    have e1 : y / (1 / k) = k * y := by field_simp
    have e2 : ys.map (· / (1 / k)) = ys.map (k * ·) := by
      apply List.map_congr_left; intro a _; field_simp
    rw [e1, e2] at this
    rw [this]; field_simp
  · intro h Q hQ y ys
    have := h (1 / Q) (by positivity) y ys
    have e1 : 1 / Q * y = y / Q := by field_simp
    have e2 : ys.map (1 / Q * ·) = ys.map (· / Q) := by
      apply List.map_congr_left; intro a _; field_simp
    rw [e1, e2] at this
    rw [this]; field_simp

/-- `abs`, `pos`, `poss`, `neg`, `negs`, `rms` are -/
theorem peak_sel_pos_homogeneous (pk : Peak) : PosHom pk.sel :=
  fun k hk y ys => sel_scale pk k hk.le y ys

/-- a mean-square callable is not -/
theorem mean_square_not_homogeneous : ¬ PosHom (meanSquare : ℝ → List ℝ → ℝ) := by
  intro h
  have := h 2 (by norm_num) 1 []
  norm_num [meanSquare, mean, Srs.sum] at this

/-- string `peak`: with `eqsine=True` the returned spectrum value *is* the peak statistic of the
returned (divided) history — "resulting history is divided by Q before the peak is extracted" -/
theorem eqsine_history_divided_before_peak (o : Opts) (he : o.eqsine = true) (Q sr f s1 : ℝ)
    (hQ : 0 < Q) (freqs : List ℝ) (icv : Option ℝ) (sg : List ℝ) (r : List ℝ × ℝ)
    (h : srsTail o Q sr freqs f s1 icv sg = some r) :
    ∃ y ys, r.1 = y :: ys ∧ r.2 = o.peak.sel y ys := by
  simp only [srsTail, he, if_true] at h
  split at h
  · cases h
  · rename_i y ys hwin
    cases h
    refine ⟨y / Q, ys.map (· / Q), by simp only [hwin, List.map_cons], ?_⟩
    exact (((eqsine_commutes_iff_homogeneous o.peak.sel).mpr (peak_sel_pos_homogeneous o.peak))
      Q hQ y ys).symm

/-- callable `peak`: `eqsine=True` returns the un-divided result with history and peak value both
divided by `Q`, whatever the peak function -/
theorem srs_callable_peak_eqsine (sel : ℝ → List ℝ → ℝ) (st : SType) (ic : Ic) (time : Time)
    (Q sr f s1 : ℝ) (freqs : List ℝ) (icv : Option ℝ) (sg : List ℝ) :
    srsTailG sel st ic time true Q sr freqs f s1 icv sg
      = (srsTailG sel st ic time false Q sr freqs f s1 icv sg).map
          fun r => (r.1.map (· / Q), r.2 / Q) := by
  simp only [srsTailG]
  split <;> simp

/-- the string-`peak` pipeline is the callable one with `Peak.sel` -/
theorem srs_string_peak_is_callable_instance (o : Opts) (Q sr f : ℝ) (freqs sig : List ℝ) :
    srsCol o Q sr freqs f sig = srsColG o.peak.sel o.st o.ic o.time o.eqsine Q sr freqs f sig :=
  srsCol_eq_G o Q sr f freqs sig

/-- `rms ≤ abs` on every window -/
theorem peak_rms_le_abs (x : ℝ) (xs : List ℝ) : Peak.rms.sel x xs ≤ Peak.abs.sel x xs :=
  rms_le_abs x xs

/-! ## non-vacuity -/
example : ∃ l l' : List ℝ, l ≠ l' ∧ ∀ x, x ∈ l ↔ x ∈ l' :=
  ⟨[1, 2], [2, 1, 1], by simp, by intro x; simp; tauto⟩
example : (meanSquare (2 : ℝ) [] : ℝ) = 4 ∧ 2 * (meanSquare (1 : ℝ) [] : ℝ) = 2 := by
  norm_num [meanSquare, mean, Srs.sum]
example : Peak.rms.sel (3 : ℝ) [-3] = 3 := by
  have : Real.sqrt (9 : ℝ) = 3 := by
    rw [show (9 : ℝ) = 3 * 3 by norm_num]; exact Real.sqrt_mul_self (by norm_num)
  norm_num [Peak.sel, mean, Srs.sum, this]
example : windowLen .total 5 3 = 8 ∧ windowLen .residual 5 3 = 3 := by decide
example : zeroHzSteadyOffset .pacce (2 : ℝ) = -2 := rfl

end PyYetiVerif.C03
