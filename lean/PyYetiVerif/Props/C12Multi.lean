import PyYetiVerif.Props.C12
import PyYetiVerif.Lemmas.NasCardsMultiWr
import PyYetiVerif.Lemmas.NasCardsMultiCmt
/-!
# C12, extension — the generic card reader with all its options, multi-card files, tabs

Property theorems only, about `Model/NasCardsMulti` (tied to `pyyeti/nastran/bulk.py` by the exact
correspondence streams `rdcards-options`, `tabs`, `fsearch`, `cards-dtype` of
`harness/props/c12.py`):

* `rdcards(f, name, blank=, return_var=, dtype=, no_data_return=, regex=, keep_name=, keep_comments=)`
  with `_next_line` (`expandtabs`, comments kept aside, the matcher), `_rdfixed` / `_rdcomma` with
  `tolist` / `blank`, the `'array'` / `'dict'` post-processing;
* `fsearch`; the writers' type dispatch.
-/
namespace PyYetiVerif.C12
open PyYetiVerif.PyFloat PyYetiVerif.NasFloat PyYetiVerif.NasCards

/-! ## the general reader and the reader of the round-trip theorems -/

/-- at `return_var='list'`, `blank=""` the readers `_rdfixed` / `_rdcomma` with options are the
readers of `Model/NasCards`, about which `card_roundtrip_small / _large / _comma` are proved. -/
theorem reader_options_default (keep : Bool) (s : Str) (rest : List Str) :
    rdOneG (cardValG true (NasVal.str [])) (NasVal.str []) keep s rest = rdOne keep s rest := by
  rw [cardValG_default]; exact rdOneG_default keep s rest

/-- **the general `rdcards` is `rdcards` of the round-trip theorems** on a text without tabs, read
into a list with the default blank, comments not kept, the name matched literally (any `dtype`):
`no_data_return` when no card matches, otherwise the list of the cards. -/
theorem rdcards_general_is_rdcards (name : Str) (keep : Bool) (dt : DType) (text : Str)
    (h : ∀ c ∈ text, c ≠ '\t') :
    rdcardsFull ⟨none, .list, dt, keep, false⟩ (prefixMatch name) (fileLines text) =
      if (rdcards name keep text).isEmpty then .noData
      else .list ((rdcards name keep text).map Item.card) := by
  unfold rdcardsFull rdcardsT
  have e1 : effTolist ⟨none, .list, dt, keep, false⟩ = true := rfl
  have e2 : effBlank ⟨none, .list, dt, keep, false⟩ = NasVal.str [] := rfl
  simp only [e1, e2, Bool.true_and, cardValG_default]
  have := rdItems_default name keep text h
  rw [this]
  unfold finishRd
  simp

/-! ## multi-card files -/

/-- **`rdcards_multi`** — any matcher (literal name or regular expression), any `blank`, any
`return_var` / `dtype`, `keep_name` on or off, comments not kept: a file that is a concatenation
of block texts (each ends with a newline and does not start with a continuation character
`' '`, `'+'`, `'*'`, `','` or a tab) is read block by block — the cards collected are the cards
collected from each block, in file order; `return_var` / `dtype` / `no_data_return` then act on
that concatenation. -/
theorem rdcards_multi (o : RdOpts) (m : Str → Bool) (texts : List Str)
    (hkc : (effTolist o && o.keepComments) = false) (h : ∀ t ∈ texts, BlockText t) :
    rdcardsFull o m (fileLines texts.flatten) =
      finishRd o (effBlank o) ((texts.map fun t =>
        rdItems (cardValG (effTolist o) (effBlank o)) (effBlank o) (effTolist o && o.keepName)
          (prepLines false m (fileLines t))).flatten) := by
  unfold rdcardsFull rdcardsT
  rw [hkc, rdItems_texts _ _ _ m texts h]

/-- …in particular for the reader of the round-trip theorems: **reading a file assembled from
block texts by a name gives the concatenation of the per-block reads in file order**. -/
theorem rdcards_multi_files (name : Str) (keep : Bool) (texts : List Str) (h : ∀ t ∈ texts, BlockText t)
    (htab : ∀ t ∈ texts, ∀ c ∈ t, c ≠ '\t') :
    rdcards name keep texts.flatten = (texts.map (rdcards name keep)).flatten :=
  rdcards_texts name keep texts h htab

/-- what the three writers produce are such block texts (hypotheses of `rdcards_multi_files`
discharged for `wtcard8`, `wtcard16`, `wtcard16d`). -/
theorem written_cards_are_blocks (name : Str) (toks : List Tok) (text : Str) (hname : NameOK name) :
    ((∀ t ∈ toks, CardField 8 (enc 8 formatFloat8 t)) → wtcard8 name toks = some text →
      BlockText text ∧ ∀ c ∈ text, c ≠ '\t') ∧
    ((∀ t ∈ toks, CardField 16 (enc 16 formatFloat16 t)) → wtcard16 name toks = some text →
      BlockText text ∧ ∀ c ∈ text, c ≠ '\t') ∧
    ((∀ t ∈ toks, CardField 16 (enc 16 formatDouble16 t)) → wtcard16d name toks = some text →
      BlockText text ∧ ∀ c ∈ text, c ≠ '\t') :=
  ⟨fun hf hw => wtcard8_block name toks text hname hf hw,
   fun hf hw => wtcard16_block formatFloat16 name toks text hname hf hw,
   fun hf hw => wtcard16_block formatDouble16 name toks text hname hf hw⟩

/-- **a file assembled from a small-field and a large-field card of one name, comments in
between**: read by the name (which is a prefix of the large-field name `NAME*` as well) the file
gives the two cards, in file order, each — up to trailing blanks — field for field. -/
theorem rdcards_assembled (name : Str) (toks8 toks16 : List Tok) (keep : Bool) (cmt : List Str)
    (hname : NameOK name) (hstar : ∀ c ∈ name, c ≠ '*') (hlen : name.length ≤ 7)
    (hcmt : ∀ l ∈ cmt, BlockText l ∧ (∀ c ∈ l, c ≠ '\t') ∧ rdcards name keep l = [])
    (hf8 : ∀ t ∈ toks8, CardField 8 (enc 8 formatFloat8 t))
    (hf16 : ∀ t ∈ toks16, CardField 16 (enc 16 formatFloat16 t)) :
    ∃ t8 t16 r8 r16, wtcard8 name toks8 = some t8 ∧ wtcard16 (name ++ ['*']) toks16 = some t16 ∧
      rdcards name keep (t8 ++ cmt.flatten ++ t16) = r8 ++ r16 ∧
      (∃ r, r8 = [r] ∧ dtb r = (if keep then [NasVal.str name] else []) ++
        dtb (toks8.map fun t => cardVal (enc 8 formatFloat8 t))) ∧
      rdcards name keep t16 = r16 := by
  obtain ⟨t8, r, hw8, hr8, hd8⟩ := card_roundtrip_small name toks8 keep hname hstar hf8
  have hname16 : NameOK (name ++ ['*']) := by
    obtain ⟨⟨c0, t, hn, hlet⟩, _, hch⟩ := hname
    refine ⟨⟨c0, t ++ ['*'], by rw [hn]; rfl, hlet⟩, by simp; omega, ?_⟩
    intro c hc
    rcases List.mem_append.1 hc with h | h
    · exact hch c h
    · simp only [List.mem_singleton] at h; subst h; decide
  have hlen8 : ¬ (name ++ ['*']).length > 8 := by simp; omega
  have hlast : ((name ++ ['*']).getLast? != some '*') = false := by simp
  have hw16 : ∃ t16, wtcard16 (name ++ ['*']) toks16 = some t16 := by
    unfold wtcard16 wtcard16With
    simp only [hlast, hlen8, Bool.false_eq_true, if_false]
    exact ⟨_, rfl⟩
  obtain ⟨t16, hw16⟩ := hw16
  obtain ⟨hb8, ht8⟩ := wtcard8_block name toks8 t8 hname hf8 hw8
  obtain ⟨hb16, ht16⟩ := wtcard16_block formatFloat16 (name ++ ['*']) toks16 t16 hname16 hf16 hw16
  refine ⟨t8, t16, [r], rdcards name keep t16, hw8, hw16, ?_, ⟨r, rfl, hd8⟩, rfl⟩
  have e : t8 ++ cmt.flatten ++ t16 = ([t8] ++ cmt ++ [t16]).flatten := by simp
  rw [e, rdcards_multi_files name keep _ (by
      intro t ht
      simp only [List.mem_append, List.mem_singleton] at ht
      rcases ht with (rfl | h) | rfl
      · exact hb8
      · exact (hcmt t h).1
      · exact hb16) (by
      intro t ht
      simp only [List.mem_append, List.mem_singleton] at ht
      rcases ht with (rfl | h) | rfl
      · exact ht8
      · exact (hcmt t h).2.1
      · exact ht16)]
  simp only [List.map_append, List.map_cons, List.map_nil, List.flatten_append, List.flatten_cons,
    List.flatten_nil, List.append_nil, hr8]
  have : (cmt.map (rdcards name keep)).flatten = [] := by
    apply List.flatten_eq_nil_iff.2
    intro l hl
    obtain ⟨t, ht, rfl⟩ := List.mem_map.1 hl
    exact (hcmt t ht).2.2
  rw [this]
  simp

/-- a block none of whose lines starts with the name contributes no card (the hypothesis of
`rdcards_assembled` on the foreign blocks, in checkable form). -/
theorem rdcards_foreign_block (name : Str) (keep : Bool) (text : Str)
    (h : ∀ l ∈ fileLines text, prefixMatch name l = false) : rdcards name keep text = [] := by
  have key : ∀ (f : Nat) (ls : List Str), (∀ l ∈ ls, prefixMatch name l = false) →
      rdcardsGo name keep f ls = [] := by
    intro f
    induction f with
    | zero => intro ls _; simp [rdcardsGo]
    | succ f ih =>
      intro ls hls
      cases ls with
      | nil => simp [rdcardsGo]
      | cons l rest =>
        have hl : (lower name).isPrefixOf (lower l) = false := hls l List.mem_cons_self
        rw [rdcardsGo]
        simp only [hl, Bool.false_eq_true, if_false]
        exact ih rest (fun l' hl' => hls l' (List.mem_cons_of_mem _ hl'))
  unfold rdcards
  exact key _ _ h

/-- non-vacuity: a comment line and `ENDDATA` are blocks that contribute no `GRID` card, and the
hypotheses on the name hold for `GRID`. -/
example : (∀ l ∈ ["$ a comment\n".toList, "ENDDATA\n".toList],
      BlockText l ∧ (∀ c ∈ l, c ≠ '\t') ∧ rdcards "GRID".toList true l = []) ∧
    NameOK "GRID".toList ∧ (∀ c ∈ "GRID".toList, c ≠ '*') ∧ "GRID".toList.length ≤ 7 := by
  refine ⟨?_, ⟨⟨'G', "RID".toList, rfl, by decide⟩, by decide, by decide⟩, by decide, by decide⟩
  intro l hl
  simp only [List.mem_cons, List.not_mem_nil, or_false] at hl
  rcases hl with rfl | rfl
  · exact ⟨⟨⟨"$ a comment".toList, rfl⟩, by decide⟩, by decide, by decide⟩
  · exact ⟨⟨⟨"ENDDATA".toList, rfl⟩, by decide⟩, by decide, by decide⟩

/-! ## `keep_comments=True` -/

/-- **every comment line is kept, once, in file order**: with `return_var='list'` and
`keep_comments=True` the comment items of the result are exactly the lines of the file that start
with `$` (raw text, tabs not expanded) — whether a comment stands before a card, between a card
line and its continuation lines, or after the last card. -/
theorem kept_comments_complete (o : RdOpts) (m : Str → Bool) (ls : List Str) (items : List Item)
    (hrv : o.retVar = .list) (hkc : o.keepComments = true) (h : rdcardsFull o m ls = .list items) :
    commentsOf items = ls.filter isCommentLine := by
  unfold rdcardsFull rdcardsT at h
  have e1 : effTolist o = true := by simp [effTolist, hrv]
  simp only [e1, hkc, Bool.true_and, Bool.and_self] at h
  unfold finishRd at h
  rw [hrv] at h
  simp only at h
  split_ifs at h
  simp only [RdResult.list.injEq] at h
  rw [← h]
  unfold rdItems
  rw [rdItemsGo_comments _ _ _ _ _ [] (le_refl _), List.nil_append, cmtLines_prep]

/-- non-vacuity: a comment between a card and its continuation line is kept (and does not end the
card, as it would with `keep_comments=False`). -/
example : rdcardsFull ⟨none, .list, .float, false, true⟩ (prefixMatch "a".toList)
      (fileLines "$ one\nA,1\n$ two\n+,2\n".toList) =
        .list [.comment "$ one\n".toList, .card [.int 1, .str [], .str [], .str [], .str [], .str [], .str [],
          .str [], .int 2], .comment "$ two\n".toList] ∧
    rdcardsFull ⟨none, .list, .float, false, false⟩ (prefixMatch "a".toList)
      (fileLines "$ one\nA,1\n$ two\n+,2\n".toList) = .list [.card [.int 1]] := by
  constructor <;> decide +kernel

/-! ## `return_var='array'` and `'dict'` -/

/-- **shape of the array form.**  Whenever `rdcards(..., return_var='array', dtype=, blank=)`
returns an array (the alternatives are `no_data_return`, the `IndexError` of `val[0]` on a card
without fields and the `ValueError` of a non-numeric `blank`), it has one row per card read and as
many columns as the longest card has values (a card attains that width); every row is the card's
values converted by `np.array(val).astype(dtype)` — as many as the card has — followed by the
converted `blank` (not by `0`) up to the width. -/
theorem array_shape (o : RdOpts) (tl : List TLine) (n : Nat) (rows : List (List NasVal))
    (h : rdcardsT o tl = .array n rows) :
    ∃ cards crows b, cards = cardsOf (rdItems (cardValG (effTolist o) (effBlank o)) (effBlank o)
        (effTolist o && o.keepName) tl) ∧
      convCards o.dtype cards = .ok crows ∧ convBlank o.dtype (effBlank o) = some b ∧
      crows.length = cards.length ∧ rows.length = cards.length ∧
      n = maxLen crows ∧ (∃ r ∈ crows, r.length = n) ∧ (∀ r ∈ rows, r.length = n) ∧
      rows = crows.map (fun r => r ++ List.replicate (n - r.length) b) ∧
      List.Forall₂ (fun c r => c ≠ [] ∧ convRow o.dtype c = some r ∧ r.length = c.length) cards crows := by
  obtain ⟨crows, b, h1, h2, h3, h4, h5, h6, h7, h8, h9⟩ := NasCards.array_shape o _ _ n rows h
  exact ⟨_, crows, b, rfl, h1, h2, h3, h4, h5, h6, h7, h8, h9⟩

/-- **the dictionary form**: every key is the first value of some card *before* the conversion to
`dtype` (`blank` for a blank or string first field), and the last card read wins — the dictionary
holds its converted values under a key numerically equal to its first value. -/
theorem dict_keys_and_last (o : RdOpts) (tl : List TLine) (es : List (NasVal × List NasVal))
    (h : rdcardsT o tl = .dict es) :
    let cards := cardsOf (rdItems (cardValG (effTolist o) (effBlank o)) (effBlank o)
        (effTolist o && o.keepName) tl)
    (∀ k ∈ es.map Prod.fst, ∃ c ∈ cards, k = c.headD (effBlank o)) ∧
    (∀ cs c, cards = cs ++ [c] → ∃ k r, (k, r) ∈ es ∧ convRow o.dtype c = some r ∧
      (k = c.headD (effBlank o) ∨ keyEq k (c.headD (effBlank o)) = true)) := by
  intro cards
  exact ⟨dict_keys_first_values o _ _ es h, fun cs c hc => dict_last_wins o _ _ es h cs c hc⟩

/-- non-vacuity: `A,1,2.5\nA,3,X,\n` read as an array with `blank=-1` is the 2×3 array
`[[1, 2.5, -1], [3, -1, -1]]`, and as a dictionary it is keyed by `1` and `3`. -/
example : rdcardsFull ⟨some (.int (-1)), .array, .float, false, false⟩ (prefixMatch "a".toList)
      (fileLines "A,1,2.5\nA,3,X,\n".toList) =
        .array 3 [[intToFlt 1, .flt (toBits false 5 2), intToFlt (-1)],
                  [intToFlt 3, intToFlt (-1), intToFlt (-1)]] ∧
    rdcardsFull ⟨none, .dict, .float, false, false⟩ (prefixMatch "a".toList)
      (fileLines "A,1,2.5\nA,3,X,\n".toList) =
        .dict [(.int 1, [intToFlt 1, .flt (toBits false 5 2)]),
               (.int 3, [intToFlt 3, intToFlt 0, intToFlt 0])] := by
  constructor <;> decide +kernel

/-! ## tabs -/

/-- **Nastran tab stops at 8**: `line.expandtabs()` turns cells shorter than 8 characters, each
followed by a tab, into the cells left-justified in 8 columns — the fixed-field layout — and leaves
a text without tabs alone. -/
theorem expandtabs_cells (cells : List Str) (last : Str)
    (hc : ∀ cell ∈ cells, cell.length < 8 ∧ ∀ c ∈ cell, c ≠ '\t' ∧ c ≠ '\n' ∧ c ≠ '\r')
    (hl : ∀ c ∈ last, c ≠ '\t') :
    expandTabs ((cells.map (· ++ ['\t'])).flatten ++ last) = (cells.map (ljust 8)).flatten ++ last ∧
    expandTabs last = last := by
  constructor
  · have := expandTabsFrom_cells cells hc last 0
    simp only [Nat.mul_zero] at this
    unfold expandTabs
    rw [this, expandTabsFrom_noTab last hl]
  · exact expandTabs_noTab last hl

/-- **fixed-field slicing after expansion**: a file in which a line is written with tabs between
its (short) cells is read exactly like the file with that line in fixed columns — by every reader
(8- or 16-wide fields, free field), for any options that do not keep comments. -/
theorem tab_line_reads_as_fixed (o : RdOpts) (m : Str → Bool) (pre post : List Str) (cells : List Str)
    (last : Str) (hkc : (effTolist o && o.keepComments) = false)
    (hc : ∀ cell ∈ cells, cell.length < 8 ∧ ∀ c ∈ cell, c ≠ '\t' ∧ c ≠ '\n' ∧ c ≠ '\r')
    (hl : ∀ c ∈ last, c ≠ '\t') :
    rdcardsFull o m (pre ++ ((cells.map (· ++ ['\t'])).flatten ++ last) :: post) =
      rdcardsFull o m (pre ++ ((cells.map (ljust 8)).flatten ++ last) :: post) := by
  obtain ⟨h1, _⟩ := expandtabs_cells cells last hc hl
  have h2 : expandTabs ((cells.map (ljust 8)).flatten ++ last) = (cells.map (ljust 8)).flatten ++ last := by
    apply expandTabs_noTab
    intro c hcm
    rcases List.mem_append.1 hcm with h | h
    · obtain ⟨f, hf, hcf⟩ := List.mem_flatten.1 h
      obtain ⟨cell, hcell, rfl⟩ := List.mem_map.1 hf
      simp only [ljust, List.mem_append] at hcf
      rcases hcf with h' | h'
      · exact ((hc cell hcell).2 c h').1
      · rw [List.eq_of_mem_replicate h']; decide
    · exact hl c h
  unfold rdcardsFull
  rw [hkc]
  congr 1
  simp only [prepLines, List.map_append, List.map_cons, prepLine, Bool.false_and, Bool.false_eq_true,
    if_false, h1, h2]

/-- non-vacuity: `GRID<tab>7<tab>1.5<tab>XY` expands to the fixed-column line. -/
example : expandTabs "GRID\t7\t1.5\tXY\n".toList = "GRID    7       1.5     XY\n".toList := by decide

/-! ## `fsearch` and the writers' type dispatch -/

/-- **`fsearch(f, s)`** returns the first line (from the current position) that contains `s`
together with the position where `s` first begins in it; `(None, None)` exactly when no line
contains `s`. -/
theorem fsearch_first_line (pat : Str) (lines : List Str) :
    (∀ l p, fsearch pat lines = some (l, p) →
      ∃ pre post, lines = pre ++ l :: post ∧
        (∀ l' ∈ pre, ∀ j ≤ l'.length, pat.isPrefixOf (l'.drop j) = false) ∧
        p ≤ l.length ∧ pat.isPrefixOf (l.drop p) = true ∧ ∀ j < p, pat.isPrefixOf (l.drop j) = false) ∧
    (fsearch pat lines = none → ∀ l' ∈ lines, ∀ j ≤ l'.length, pat.isPrefixOf (l'.drop j) = false) :=
  fsearch_spec pat lines

/-- non-vacuity -/
example : fsearch "bc".toList ["xyz\n".toList, "abcbc\n".toList, "bc\n".toList] = some ("abcbc\n".toList, 1) ∧
    fsearch "q".toList ["xyz\n".toList] = none := by decide

/-- **type dispatch of `wtcard8/16/16d`**: with a valid card name the writer raises `TypeError`
exactly when some field is of an unsupported type (`None`, `np.float16`, `np.int16`, `np.bool_`,
`bytes`, a 0-d array, …), and otherwise writes what the writer of the round-trip theorems writes
(`str`/`np.str_`, `int`/`np.int32/int64/uint32/uint64`/`bool`, `float`/`np.float32/float64` fields;
a string longer than the field is written as it is, `ljust` does not cut); an invalid name raises
`ValueError` whatever the fields. -/
theorem wtcard_type_dispatch (w : Str → List Tok → Option Str) (name : Str) (fields : List TokX) :
    (w name [] = none → wtcardX w name fields = .valueError) ∧
    (w name [] ≠ none → (wtcardX w name fields = .typeError ↔ TokX.bad ∈ fields)) ∧
    (∀ toks, fields = toks.map TokX.ok → w name [] ≠ none →
      wtcardX w name fields = match w name toks with
        | some t => .text t
        | none => .valueError) := by
  refine ⟨?_, ?_, ?_⟩
  · intro h; simp [wtcardX, h]
  · intro h
    cases hw : w name [] with
    | none => exact absurd hw h
    | some t0 =>
      simp only [wtcardX, hw]
      cases ho : okToks fields with
      | none => simp [(okToks_none_iff fields).1 ho]
      | some toks =>
        have hnb : TokX.bad ∉ fields := by
          intro hb
          rw [(okToks_none_iff fields).2 hb] at ho
          exact absurd ho (by simp)
        simp only [hnb, iff_false]
        cases w name toks <;> simp
  · intro toks hf h
    cases hw : w name [] with
    | none => exact absurd hw h
    | some t0 =>
      simp only [wtcardX, hw, (okToks_some_iff fields toks).2 hf]
      cases w name toks <;> rfl

/-- non-vacuity: a long string is written as it is; a bad field raises `TypeError`, a bad name
`ValueError` first. -/
example : wtcardX wtcard8 "A".toList [.ok (.str "TOOLONGSTRING".toList), .ok (.int 5)] =
      .text "A       TOOLONGSTRING       5\n".toList ∧
    wtcardX wtcard8 "A".toList [.ok (.int 5), .bad] = .typeError ∧
    wtcardX wtcard16 "NOSTAR".toList [.bad] = .valueError := by decide +kernel

end PyYetiVerif.C12
