import PyYetiVerif.Lemmas.SrsMiles
import Mathlib.Analysis.Complex.Basic
/-!
# C03, third part — Miles' equation as an integral identity

`srs.vrs(..., getmiles=True)` returns `sqrt(pi/2 * fn * Q * PSD(fn))`.  This is *exactly* the RMS
response to a white base input of level `W = PSD(fn)` through the pseudo-acceleration
transmissibility `1 / (1 - p² + j p/Q)`, `p = f/fn`:
`∫₀^∞ df / ((1 - (f/fn)²)² + (f/(fn Q))²) = (π/2) fn Q`  (explicit antiderivative, `Lemmas/SrsMiles.lean`).
(Through the absolute-acceleration transmissibility `H` that `vrs` integrates, the white-noise
integral is `(π/2) fn Q (1 + 1/Q²)`; Miles' equation is the usual approximation of that — not
proved here, stated for orientation only.)
-/
namespace PyYetiVerif.C03
open PyYetiVerif.Srs

/-- the integrand is the squared modulus of the pseudo-acceleration transmissibility -/
theorem miles_integrand_is_normSq (Q p : ℝ) :
    1 / ((1 - p * p) * (1 - p * p) + p / Q * (p / Q))
      = Complex.normSq (1 / (((1 - p * p : ℝ) : ℂ) + ((p / Q : ℝ) : ℂ) * Complex.I)) := by
  rw [map_div₀, Complex.normSq_add_mul_I, map_one]
  ring

/-- `∫₀^∞ df / ((1 - (f/fn)²)² + (f/(fn Q))²) = (π/2) fn Q` -/
theorem miles_white_noise_integral (Q fn : ℝ) (hQ : 1 / 2 < Q) (hfn : 0 < fn) :
    ∫ f in Set.Ioi (0 : ℝ),
        1 / ((1 - f / fn * (f / fn)) * (1 - f / fn * (f / fn)) + f / fn / Q * (f / fn / Q))
      = Real.pi / 2 * fn * Q :=
  miles_integral_f Q fn hQ hfn

/-- Miles' value is the RMS of the response to white input of level `W` through the
pseudo-acceleration transmissibility of the oscillator `(fn, Q)` -/
theorem miles_is_white_noise_integral (Q fn W : ℝ) (hQ : 1 / 2 < Q) (hfn : 0 < fn) :
    milesOne Q fn W
      = Real.sqrt (W * ∫ f in Set.Ioi (0 : ℝ),
          1 / ((1 - f / fn * (f / fn)) * (1 - f / fn * (f / fn)) + f / fn / Q * (f / fn / Q))) := by
  rw [miles_white_noise_integral Q fn hQ hfn]
  unfold milesOne
  simp only [sqrt_real, pi_real]
  congr 1
  ring

example : ∃ Q fn : ℝ, 1 / 2 < Q ∧ 0 < fn := ⟨10, 100, by norm_num, by norm_num⟩

end PyYetiVerif.C03
