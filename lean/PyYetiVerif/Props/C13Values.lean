import PyYetiVerif.Lemmas.BulkRealFmt
import PyYetiVerif.Lemmas.BulkDmigTextF
import PyYetiVerif.Lemmas.BulkTab
import PyYetiVerif.Lemmas.BulkCord
/-!
# C13 — VALUES: what is read back from the real-valued fields, and how near it is to what was written

Property theorems only.  This file connects C13 to C12's float model (`Model/PyFloat.lean`: `fmtE`, `fmtF`, the exact,
correctly rounded CPython conversions; `Lemmas/PyFloatLog.eParts_spec`, `rheDiv_rat`): the real fields of the C13 writers
are no longer opaque tokens.

  `pyE w p ec x`   `'{:w.pE}'.format(x)` / `'{:w.pe}'` / with `D` (wtdmig / wttabled1's default `_dmig_field`: `{:16.9E}`,
                   wtcoordcards `{:16.8e}`)
  `pyF w p x`      `'{:w.pf}'.format(x)` (wtgrids' / uset2bulk's default `{:16.8f}`)
  `readE p x`      the number `± N · 10^(E−p)` with the `p + 1` digits `N` and the exponent `E` the text shows
  `readF p x`      `± N · 10^(−p)`, `N = |x|·10^p` rounded half-even
  `Near v r tol`   `v` is a number whose exact value is within `tol` of the rational `r`
  `eBound p x`     `½ · 10^(E−p)`: half a unit of the last written digit (`0` for `x = 0`)
  `dmigFld ec x`   `_dmig_field(x)` of wtdmig: `pyE 16 9`, or `pyE 16 8` when that is 17 characters; `dmigRead`, `dmigBound`

`x : Dbl` is any fraction `± num / den` (`den > 0`), in particular every finite double.  The writers' own format strings
are tied by the translator (`Props/C13Fmt.lean`: `dmigReal = {:16.9E}`, `cordLine… = {:16.8e}`, `gridDefaultForm`,
`tabDefaultForm`), `pyE` / `pyF` to CPython by the exact-text stream `real-fields`.
-/
namespace PyYetiVerif.C13
open PyYetiVerif.Bulk PyYetiVerif.PyFloat PyYetiVerif.NasFloat

/-- `nas_sscanf` of a written real field, any width: exactly the decimal the text shows (also through the `D`
exponent of the double-precision DMIG types: lower-casing and the `d → e` rewriting) -/
theorem real_field_reads (w p : Nat) (hp : p ≠ 0) (ec : Char) (hec : ec = 'e' ∨ ec = 'E' ∨ ec = 'D') (x : Dbl) :
    nasScan (pyE w p ec x) = readE p x ∧ nasScan (pyF w p x) = readF p x :=
  ⟨nasScan_pyE w p hp ec hec x, nasScan_pyF w p hp x⟩

/-- **values equal to the precision of the written format**: an `E` field is read back within half a unit of the last
of its `p + 1` significant digits (relative precision `½·10^-p`; exactly 0 for 0), an `f` field within `½·10^-p` -/
theorem real_field_accuracy (p : Nat) (x : Dbl) (hd : 0 < x.den) :
    Near (readE p x) (dblRat x) (eBound p x) ∧ Near (readF p x) (dblRat x) (1 / 2 * (10 : ℚ) ^ (-(p : Int))) :=
  ⟨readE_near p x hd, readF_near p x hd⟩

/-- a value "representable in the field" — its text is not longer than the field — gives a clean field: exactly `w`
columns, no `$`, no comma, last column not blank (what the column-slicing theorems ask of a field) -/
theorem real_field_clean (w p : Nat) (hp : p ≠ 0) (ec : Char) (hec : ec = 'e' ∨ ec = 'E' ∨ ec = 'D') (x : Dbl) :
    ((fmtE p x).length ≤ w → CleanField w (pyE w p ec x)) ∧ ((fmtF p x).length ≤ w → CleanField w (pyF w p x)) :=
  ⟨pyE_clean w p hp ec hec x, pyF_clean w p hp x⟩

/-- a GRID as `wtgrids(f, ids, cp, xyz, cd)` writes it with the default format -/
structure GNum where
  id : Int
  cp : Int
  x : Dbl
  y : Dbl
  z : Dbl
  cd : Int

def GNum.row (r : GNum) : GRow := ⟨r.id, r.cp, pyF 16 8 r.x, pyF 16 8 r.y, pyF 16 8 r.z, r.cd, none, none⟩

/-- **`rdgrids (wtgrids …)` / the GRID part of `bulk2uset (uset2bulk …)`, default format `{:16.8f}`, as VALUES**: one row
`[id, cp, x, y, z, cd, 0, 0]` per grid, identifiers exact, every coordinate within `½·10^-8` of the coordinate written
(absolute: the format is fixed-point) -/
theorem grid_roundtrip_values (rows : List GNum) (hne : rows ≠ [])
    (hfit : ∀ r ∈ rows, (fmtF 8 r.x).length ≤ 16 ∧ (fmtF 8 r.y).length ≤ 16 ∧ (fmtF 8 r.z).length ≤ 16 ∧
      (dec r.id).length ≤ 16 ∧ (dec r.cp).length ≤ 16 ∧ (dec r.cd).length ≤ 16)
    (hden : ∀ r ∈ rows, 0 < r.x.den ∧ 0 < r.y.den ∧ 0 < r.z.den)
    (pre : List Txt) (hpre : ∀ l ∈ pre, startsWith (txt "grid") (Bulk.lower l) = false) :
    rdGrids (pre ++ (rows.map GNum.row).flatMap fun r => gridCard true (r.fields 16 true)) =
        .rows (rows.map fun r => [.int r.id, .int r.cp, readF 8 r.x, readF 8 r.y, readF 8 r.z, .int r.cd, .int 0, .int 0]) ∧
      ∀ r ∈ rows, Near (readF 8 r.x) (dblRat r.x) (1 / 2 * (10 : ℚ) ^ (-(8 : Int))) ∧
        Near (readF 8 r.y) (dblRat r.y) (1 / 2 * (10 : ℚ) ^ (-(8 : Int))) ∧
        Near (readF 8 r.z) (dblRat r.z) (1 / 2 * (10 : ℚ) ^ (-(8 : Int))) := by
  refine ⟨?_, fun r hr => ⟨readF_near 8 r.x (hden r hr).1, readF_near 8 r.y (hden r hr).2.1, readF_near 8 r.z (hden r hr).2.2⟩⟩
  have hc : ∀ r ∈ rows.map GNum.row, r.Clean (if true then 16 else 8) := by
    intro r hr
    obtain ⟨g, hg, rfl⟩ := List.mem_map.mp hr
    obtain ⟨h1, h2, h3, h4, h5, h6⟩ := hfit g hg
    exact ⟨pyF_clean 16 8 (by decide) g.x h1, pyF_clean 16 8 (by decide) g.y h2, pyF_clean 16 8 (by decide) g.z h3, h4, h5, h6,
      by intro p hp; simp [GNum.row] at hp, by intro p hp; simp [GNum.row] at hp⟩
  have := rdGrids_rows true true (rows.map GNum.row) (by simpa using hne) hc
    (by intro _ r hr; obtain ⟨g, _, rfl⟩ := List.mem_map.mp hr; exact ⟨rfl, rfl⟩) pre hpre
  simp only [if_true] at this
  rw [this, List.map_map]
  congr 1
  apply List.map_congr_left
  intro g _
  simp [Function.comp, GRow.vals, GNum.row, nasScan_pyF 16 8 (by decide), readF, Val.zero]

/-- a CORD2x card as `wtcoordcards` writes it: the nine A / B / C values (after the writer's noise floor) in `{:16.8e}` -/
def cordOf (name : Txt) (cid ref : Int) (abc : List Dbl) : CordIn :=
  { name := name, cid := cid, ref := ref, abc := abc.map (pyE 16 8 'e') }

/-- **`rdcord2cards (wtcoordcards …)` up to the numbers handed to `build_coords`, as VALUES**: `[cid, type, ref]` exact and
the nine coordinates each within half a unit of ITS OWN ninth significant digit (relative precision: a small component
next to a large one keeps its digits) -/
theorem cord2_roundtrip_values (name : Txt) (cid ref : Int) (abc : List Dbl)
    (hname : name = txt "CORD2R" ∨ name = txt "CORD2C" ∨ name = txt "CORD2S") (h9 : abc.length = 9)
    (hfit : ∀ x ∈ abc, (fmtE 8 x).length ≤ 16) (hden : ∀ x ∈ abc, 0 < x.den)
    (hid : (dec cid).length ≤ 16 ∧ (dec ref).length ≤ 16)
    (pre tail : List Txt) (hp : ∀ l ∈ pre, cord2Match l = false) (ht : ∀ l ∈ tail, cord2Match l = false)
    (hh : ∀ x, tail.head? = some x → isCont .f16 x = false) :
    rdCord2 (pre ++ (cordLines [cordOf name cid ref abc] ++ tail)) =
        some [.int cid :: .int (cordOf name cid ref abc).ctype :: .int ref :: abc.map (readE 8)] ∧
      ∀ x ∈ abc, Near (readE 8 x) (dblRat x) (eBound 8 x) := by
  have he : ('e' : Char) = 'e' ∨ 'e' = 'E' ∨ 'e' = 'D' := Or.inl rfl
  have hscan : ∀ x : Dbl, nasScan (pyE 16 8 'e' x) = readE 8 x := fun x => nasScan_pyE 16 8 (by decide) 'e' he x
  have hclean : (cordOf name cid ref abc).Clean := by
    refine ⟨hname, by simp [cordOf, h9], ?_, hid.1, hid.2⟩
    intro f hf
    obtain ⟨x, hx, rfl⟩ := List.mem_map.mp hf
    exact pyE_clean 16 8 (by decide) 'e' he x (hfit x hx)
  have hnum : ∀ c ∈ [cordOf name cid ref abc], ∀ f ∈ c.abc, (nasScan f).isNumber = true := by
    intro c hc f hf
    simp only [List.mem_singleton] at hc
    subst hc
    obtain ⟨x, _, rfl⟩ := List.mem_map.mp hf
    rw [hscan]; rfl
  refine ⟨?_, fun x hx => readE_near 8 x (hden x hx)⟩
  rw [rdCord2_cordLines [cordOf name cid ref abc] (by intro c hc; simp at hc; subst hc; exact hclean) hnum pre tail hp ht hh]
  simp only [List.map_cons, List.map_nil, CordIn.row, cordOf, List.map_map]
  congr 5
  apply List.map_congr_left
  intro x _
  exact hscan x

/-- **the DMIG value field holds every finite double** (`_dmig_field`, fix 4411a34 of finding F64): `'{:16.9E}'`, or
`'{:16.8E}'` when that would be 17 characters — which happens exactly for a negative value with a three-digit exponent,
and then the nine-digit text is 16 characters.  The field is exactly 16 columns wide, clean, and `nas_sscanf` reads it as
the decimal it shows, within half a unit of its last digit (`½·10^(E−9)`, `½·10^(E−8)` in the fallback case). -/
theorem dmig_field_fits (ec : Char) (hec : ec = 'e' ∨ ec = 'E' ∨ ec = 'D') (x : Dbl) (hd : 0 < x.den) (hr : InRange x) :
    (dmigFld ec x).length = 16 ∧ CleanField 16 (dmigFld ec x) ∧ nasScan (dmigFld ec x) = dmigRead x ∧
      Near (dmigRead x) (dblRat x) (dmigBound x) ∧
      (¬ (fmtE 9 x).length ≤ 16 ↔ x.neg = true ∧ (expDigits (eExp 9 x)).length = 3) :=
  ⟨dmigFld_length ec x hd hr, dmigFld_clean ec hec x hd hr, nasScan_dmigFld ec hec x, dmigRead_near x hd,
    dmig_fallback_iff x hd hr⟩

/-- every bit pattern stands for a value the field holds: a finite double is 0 or has a decimal exponent between −999
and 999 (inf / nan are outside the model) -/
theorem dmig_terms_in_range (v : Int) : 0 < (termVal v).den ∧ InRange (termVal v) :=
  ⟨termVal_den_pos v, termVal_inRange v⟩

/-- the hypotheses of `dmig_roundtrip_values`: the name is a word of at most 8 characters without `$`, `,` that
`nas_sscanf` returns unchanged; labels / type / NCOL fit their fields.  Nothing is asked of the VALUES. -/
structure DmigRealOK (d : Dmig) : Prop where
  name_len : d.name.length ≤ 8
  name_d : '$' ∉ d.name
  name_c : ',' ∉ d.name
  name8 : nasScan (padR 8 d.name) = .str d.name
  name16 : nasScan (padR 16 d.name) = .str d.name
  mtype_len : (dec d.mtype).length ≤ 8
  ncol_len : (dec d.ncol).length ≤ 8
  labels : ∀ c ∈ d.cards, (dec c.1.1).length ≤ 16 ∧ (dec c.1.2).length ≤ 16 ∧
    ∀ e ∈ c.2, (dec e.1.1).length ≤ 16 ∧ (dec e.1.2).length ≤ 16

/-- **`rddmig (wtdmig X) = X` on physical lines for REAL / COMPLEX valued terms of ANY magnitude, as VALUES**, forms
1/2/6/9, types 1–4: `rddmig` of the text of `wtdmig` (value fields `_dmig_field`, `E → D` for the double types) returns
exactly one frame, under the lower-cased name, with the sorted duplicate-free index of the non-null rows / columns, and
every cell is the number the written field shows — within half a unit of the tenth significant digit of the term (of the
ninth for a negative term with a three-digit exponent; imaginary part 0 for the real types, 0 for a zero term; the upper
triangle of a form-6 matrix through the mirror assignment).  No hypothesis on the values. -/
theorem dmig_roundtrip_values (d : Dmig) (hok : DmigRealOK d) (hshape : d.m.length = d.rowids.length)
    (hrn : d.rowids.Nodup) (hcn : d.ColsNodup) :
    ∃ r, rdDmig d.linesR = some [r] ∧ r.name = Bulk.lower d.name ∧
      (KeySorted r.rows ∧ r.rows.Nodup ∧ KeySorted r.cols ∧ r.cols.Nodup) ∧
      (∀ rl, rl ∈ r.rows ↔ ∃ i j v, d.rowids[i]? = some rl ∧ j < d.colids.length ∧ d.At i j v ∧ v ≠ (0, 0)) ∧
      (∀ cl, cl ∈ r.cols ↔ ∃ i j v, j < d.colids.length ∧ d.colLabel j = cl ∧ d.At i j v ∧ v ≠ (0, 0)) ∧
      (∀ i j rl v, d.rowids[i]? = some rl → j < d.colids.length → d.At i j v →
        r.cell rl (d.colLabel j) =
          if v = (0, 0) then (Val.int 0, Val.int 0)
          else (dmigRead (termVal v.1), if d.mtype < 3 then Val.int 0 else dmigRead (termVal v.2))) ∧
      (∀ v : Int, Near (dmigRead (termVal v)) (dblRat (termVal v)) (dmigBound (termVal v))) ∧
      r.frame = r.rows.map fun rl => r.cols.map fun cl => r.cell rl cl := by
  have hec : ∀ d : Dmig, (if d.mtype % 2 = 0 then 'D' else 'E' : Char) = 'e' ∨ (if d.mtype % 2 = 0 then 'D' else 'E' : Char) = 'E' ∨
      (if d.mtype % 2 = 0 then 'D' else 'E' : Char) = 'D' := by
    intro d; split <;> simp
  have henc : encF d.fmtR = fun v => dmigRead (termVal v) := by
    funext v
    exact nasScan_dmigFld _ (hec d) (termVal v)
  have hclean : d.CleanF d.fmtR := by
    refine ⟨hok.name_len, hok.name_d, hok.name_c, hok.name8, hok.name16, hok.mtype_len, hok.ncol_len, ?_⟩
    intro c hc
    obtain ⟨h1, h2, h3⟩ := hok.labels c hc
    refine ⟨h1, h2, fun e he => ?_⟩
    obtain ⟨g1, g2⟩ := h3 e he
    exact ⟨g1, g2, dmigFld_clean _ (hec d) _ (termVal_den_pos _) (termVal_inRange _),
      fun _ => dmigFld_clean _ (hec d) _ (termVal_den_pos _) (termVal_inRange _)⟩
  have hlines := rdDmig_linesF d.fmtR d hclean
  rw [henc] at hlines
  refine ⟨_, hlines, rfl, readFrame_sorted _ d _, mem_readFrame_rows _ d _ hshape, mem_readFrame_cols _ d _ hshape, ?_,
    fun v => dmigRead_near _ (termVal_den_pos v), rfl⟩
  intro i j rl v hi hj hat
  exact cell_written _ d _ hshape hrn hcn i j rl v hi hj hat

/-- the integer-valued writer model of `Props/C13Dmig.lean` is the instance `fmt = fmtE9` of the same text -/
theorem dmig_lines_int_instance (d : Dmig) : d.lines = d.linesF fun v => fmtE9 v d.ec := rfl

/-! ### non-vacuity -/

/-- `'{:16.9E}'.format(12.0)`, its `D` form, `'{:16.8e}'.format(-0.001)`, `'{:16.8f}'.format(2.5)` -/
example : pyE 16 9 'E' ⟨false, 12, 1⟩ = txt " 1.200000000E+01" ∧ pyE 16 9 'D' ⟨false, 12, 1⟩ = txt " 1.200000000D+01" ∧
    pyE 16 8 'e' ⟨true, 1, 1000⟩ = txt " -1.00000000e-03" ∧ pyF 16 8 ⟨false, 5, 2⟩ = txt "      2.50000000" := by
  refine ⟨?_, ?_, ?_, ?_⟩ <;> decide +kernel

example : nasScan (txt " 1.200000000D+01") = .num 1200000000 (-8) ∧ readE 9 ⟨false, 12, 1⟩ = .num 1200000000 (-8) := by
  constructor <;> decide +kernel

/-- a negative value with a three-digit exponent needs 17 characters in `'%.9E'` (the fallback case of `_dmig_field`; the
reason for `_dmig_field`) -/
example : (fmtE 9 ⟨true, 10 ^ 100, 1⟩).length = 17 ∧ (fmtE 9 ⟨false, 10 ^ 100, 1⟩).length = 16 := by
  constructor <;> decide +kernel

end PyYetiVerif.C13
