import PyYetiVerif.Props.C12Multi
import PyYetiVerif.Lemmas.NasCardsForeign
/-!
# C12 — written cards of another name contribute nothing to `rdcards(f, name)`

`rdcards` selects card lines by `line.lower().find(name.lower()) == 0`.  A card written by
`wtcard8` / `wtcard16` / `wtcard16d` under the name `other` consists of a first line that starts with
the 8-column field `other.ljust(8)` and of continuation lines that start with `+` (small field) or
`*` (large field).  So, for a reader name that begins with a letter and is at most 8 long, the card
is invisible to the reader **exactly when** `name.lower()` is not a prefix of
`other.ljust(8).lower()`; when it is a prefix (`GRID` against `GRIDX`, or against `GRID*`) the
reader does pick the card up — that is the boundary, and it is what the code does.
-/
namespace PyYetiVerif.C12
open PyYetiVerif.PyFloat PyYetiVerif.NasFloat PyYetiVerif.NasCards

/-- **no line of a written card of another name passes the reader's name test**: `name` begins
with a letter and is at most 8 long, `name.lower()` is not a prefix of `other.ljust(8).lower()`. -/
theorem written_card_lines_no_match (name other text : Str)
    (hname : ∃ c0 t, name = c0 :: t ∧ isLetter c0 = true) (hlen : name.length ≤ 8)
    (hw : WrittenCard other text)
    (hnp : (lower name).isPrefixOf (lower (ljust 8 other)) = false) :
    ∀ l ∈ fileLines text, prefixMatch name l = false := by
  obtain ⟨rest, htext, hgood⟩ := written_core other text hw
  intro l hl
  rw [htext] at hl
  rcases written_lines _ l hgood hl with ⟨b, hb⟩ | ⟨c, r, rfl, hc⟩
  · apply prefixMatch_first name (ljust 8 other) l b (rest ++ ['\n'])
      (by rw [ljust8_length other hw.1.2.1]; exact hlen) hnp
    rw [← hb]; simp
  · exact prefixMatch_cont name c r hname hc

/-- **a written card of another name is a foreign block**: it contributes no card of the name
(the hypothesis of `rdcards_foreign_block`, discharged for the three writers). -/
theorem rdcards_foreign_written (name other text : Str) (keep : Bool)
    (hname : ∃ c0 t, name = c0 :: t ∧ isLetter c0 = true) (hlen : name.length ≤ 8)
    (hw : WrittenCard other text)
    (hnp : (lower name).isPrefixOf (lower (ljust 8 other)) = false) :
    rdcards name keep text = [] :=
  rdcards_foreign_block name keep text (written_card_lines_no_match name other text hname hlen hw hnp)

/-- **the boundary**: when `name.lower()` *is* a prefix of `other.ljust(8).lower()` the reader
does pick up the card written under the name `other` (so the condition of
`rdcards_foreign_written` is exact). -/
theorem rdcards_foreign_boundary (name other text : Str) (keep : Bool)
    (hw : WrittenCard other text)
    (hp : (lower name).isPrefixOf (lower (ljust 8 other)) = true) :
    rdcards name keep text ≠ [] := by
  obtain ⟨rest, htext, _⟩ := written_core other text hw
  have hnl : ∀ c ∈ ljust 8 other, c ≠ '\n' := fun c hc => (ljust_name_chars other hw.1 c hc).1
  obtain ⟨l, ls, hl, hpre⟩ := fileLines_prefix_head (ljust 8 other) (rest ++ ['\n']) hnl (by simp)
  have htext' : text = ljust 8 other ++ (rest ++ ['\n']) := by rw [htext]; simp
  unfold rdcards
  rw [htext', hl]
  have hm : (lower name).isPrefixOf (lower l) = true := by
    obtain ⟨b, rfl⟩ := hpre
    rw [lower_append]
    exact List.isPrefixOf_iff_prefix.2
      ((List.isPrefixOf_iff_prefix.1 hp).trans (List.prefix_append _ _))
  simp only [List.length_cons, rdcardsGo, hm, if_true]
  exact List.cons_ne_nil _ _

/-- the boundary on the model: `GRID` does not see a `CORD2R` card, but it does see a `GRIDX` card
(replayed on pyyeti's `rdcards` by the stream `foreign-cards` of `harness/props/c12.py`). -/
example : (∀ t ∈ wtcard8 "CORD2R".toList [.int 1, .int 2], rdcards "GRID".toList true t = []) ∧
    (∀ t ∈ wtcard8 "GRIDX".toList [.int 1, .int 2],
      rdcards "GRID".toList true t = [[.str "GRIDX".toList, .int 1, .int 2]]) ∧
    (lower "GRID".toList).isPrefixOf (lower (ljust 8 "CORD2R".toList)) = false ∧
    (lower "GRID".toList).isPrefixOf (lower (ljust 8 "GRIDX".toList)) = true := by
  refine ⟨?_, ?_, by decide, by decide⟩ <;> decide +kernel

/-- **a file assembled from written cards of several names** is read card by card: the cards of
the names whose padded field begins with `name` (case-insensitively) are read in file order, every
other written card contributes nothing. -/
theorem rdcards_written_cards (name : Str) (keep : Bool) (cards : List (Str × Str))
    (hname : ∃ c0 t, name = c0 :: t ∧ isLetter c0 = true) (hlen : name.length ≤ 8)
    (hw : ∀ p ∈ cards, WrittenCard p.1 p.2) :
    rdcards name keep (cards.map (·.2)).flatten =
      (cards.map fun p => if (lower name).isPrefixOf (lower (ljust 8 p.1)) then rdcards name keep p.2
        else []).flatten := by
  rw [rdcards_multi_files name keep _ (by
      intro t ht
      obtain ⟨p, hp, rfl⟩ := List.mem_map.1 ht
      exact (written_block p.1 p.2 (hw p hp)).1) (by
      intro t ht
      obtain ⟨p, hp, rfl⟩ := List.mem_map.1 ht
      exact (written_block p.1 p.2 (hw p hp)).2)]
  rw [List.map_map]
  congr 1
  apply List.map_congr_left
  intro p hp
  simp only [Function.comp]
  split_ifs with h
  · rfl
  · exact rdcards_foreign_written name p.1 p.2 keep hname hlen (hw p hp) (Bool.eq_false_iff.2 h)

/-- **`rdcards_assembled` without the foreign-block hypothesis**: a small-field and a large-field
card of one name with written cards of *other* names (any of the three writers) in between — read
by the name the file gives the two cards, in file order, each — up to trailing blanks — field for
field; the cards in between are not seen, provided `name.lower()` is not a prefix of their padded
name field. -/
theorem rdcards_assembled_written (name : Str) (toks8 toks16 : List Tok) (keep : Bool)
    (foreign : List (Str × Str))
    (hname : NameOK name) (hstar : ∀ c ∈ name, c ≠ '*') (hlen : name.length ≤ 7)
    (hfor : ∀ p ∈ foreign, WrittenCard p.1 p.2 ∧
      (lower name).isPrefixOf (lower (ljust 8 p.1)) = false)
    (hf8 : ∀ t ∈ toks8, CardField 8 (enc 8 formatFloat8 t))
    (hf16 : ∀ t ∈ toks16, CardField 16 (enc 16 formatFloat16 t)) :
    ∃ t8 t16 r8 r16, wtcard8 name toks8 = some t8 ∧ wtcard16 (name ++ ['*']) toks16 = some t16 ∧
      rdcards name keep (t8 ++ (foreign.map (·.2)).flatten ++ t16) = r8 ++ r16 ∧
      (∃ r, r8 = [r] ∧ dtb r = (if keep then [NasVal.str name] else []) ++
        dtb (toks8.map fun t => cardVal (enc 8 formatFloat8 t))) ∧
      rdcards name keep t16 = r16 := by
  apply rdcards_assembled name toks8 toks16 keep (foreign.map (·.2)) hname hstar hlen ?_ hf8 hf16
  intro l hl
  obtain ⟨p, hp, rfl⟩ := List.mem_map.1 hl
  obtain ⟨hw, hnp⟩ := hfor p hp
  obtain ⟨hb, ht⟩ := written_block p.1 p.2 hw
  exact ⟨hb, ht, rdcards_foreign_written name p.1 p.2 keep hname.1 (by omega) hw hnp⟩

/-- non-vacuity: a `CORD2R` card (small field) and a `PBAR*` card (large field) are written cards
that `GRID` does not see. -/
example : ∃ t1 t2, (∀ p ∈ [("CORD2R".toList, t1), ("PBAR*".toList, t2)], WrittenCard p.1 p.2 ∧
      (lower "GRID".toList).isPrefixOf (lower (ljust 8 p.1)) = false) := by
  have hint8 : ∀ t ∈ [Tok.int 7, Tok.blank], CardField 8 (enc 8 formatFloat8 t) := by
    intro t ht
    simp only [List.mem_cons, List.not_mem_nil, or_false] at ht
    rcases ht with rfl | rfl
    · exact cardField_int 8 _ 7 (by decide +kernel)
    · exact cardField_blank 8
  have hint16 : ∀ t ∈ [Tok.int 7, Tok.blank], CardField 16 (enc 16 formatFloat16 t) := by
    intro t ht
    simp only [List.mem_cons, List.not_mem_nil, or_false] at ht
    rcases ht with rfl | rfl
    · exact cardField_int 16 _ 7 (by decide +kernel)
    · exact cardField_blank 16
  refine ⟨(wtcard8 "CORD2R".toList [.int 7, .blank]).get (by decide),
    (wtcard16 "PBAR*".toList [.int 7, .blank]).get (by decide), ?_⟩
  intro p hp
  simp only [List.mem_cons, List.not_mem_nil, or_false] at hp
  rcases hp with rfl | rfl
  · exact ⟨⟨⟨⟨'C', "ORD2R".toList, rfl, by decide⟩, by decide, by decide⟩,
      Or.inl ⟨_, hint8, by simp⟩⟩, by decide⟩
  · exact ⟨⟨⟨⟨'P', "BAR*".toList, rfl, by decide⟩, by decide, by decide⟩,
      Or.inr (Or.inl ⟨_, hint16, by simp⟩)⟩, by decide⟩

end PyYetiVerif.C12
