import PyYetiVerif.Props.C01Delconj
import PyYetiVerif.Lemmas.SuCoefExpBlocks
/-!
# C01 — `SolveExp2`: matrix-exponential stepping

The model (`expStep`, `runExp` of `Model/SuCoefCoupled.lean`) transcribes the loop of
`SolveExp2.tsolve`: `D' = E_dd d + E_dv v + PQF_d`, `V' = E_vd d + E_vv v + PQF_v`,
`PQF = P f₀ + Q f₁` (order 1) or `P f₀` (order 0).

`E, P, Q` come from `expmint.getEPQ(A, h, order, half=True)` and are INPUTS here.  Their
specification (`ExpSpec`, `Lemmas/SuCoefExp.lean`): with `Φ' = A Φ`, `Φ 0 = 1` (so `Φ t = exp(A t)`),
`I1' = Φ`, `I1 0 = 0`, `I2' = t Φ`, `I2 0 = 0` (the two integrals of `expmint`):
`E = Φ h`; order 1: `P = I2 h / h`, `Q = I1 h - P` (`getEPQ1`); order 0: `P = I1 h`.
`Props/C07` proves at the series level that the Padé / squaring code of `expmint` produces exactly
these three functions of `A h` (`pade_exp_order`, `pade_I1_order`, `pade_I2_order`, `squaring_*`,
`I1_direct`, `I2_direct`, `epq1_eq_epq2`, `foh_step`, `zoh_step`).

`exp2_step_exact` : one step is the state at `t = h` of THE solution of `M d'' + B d' + K d = f(t)`;
`exp2_run_exact`  : every sample of the loop is the end state of the solution started from the
                    previous sample.
-/
namespace PyYetiVerif.C01
open PyYetiVerif.SuCoef Matrix

variable {n : ℕ}

/-- the coefficient record of `SolveExp2` from the specified matrix functions -/
noncomputable def exp2Coef (order1 : Bool) (h : ℝ)
    (Φ I1 I2 : ℝ → Matrix (Fin n ⊕ Fin n) (Fin n ⊕ Fin n) ℝ) : ExpCoef ℝ n :=
  expCoefOf (Φ h) (if order1 then h⁻¹ • I2 h else I1 h) (I1 h - h⁻¹ • I2 h)

theorem exp2_step_exact (M Mi B K : Matrix (Fin n) (Fin n) ℝ) (hMi : Mi * M = 1)
    (Φ I1 I2 : ℝ → Matrix (Fin n ⊕ Fin n) (Fin n ⊕ Fin n) ℝ)
    (sp : ExpSpec (stateAR Mi B K) Φ I1 I2) (h : ℝ) (hh : h ≠ 0) (order1 : Bool)
    (d0 v0 f0 f1 : Fin n → ℝ) :
    (∃ d v, IsSol2R M B K f0 (holdSlope order1 h f0 f1) d0 v0 d v) ∧
    ∀ d v, IsSol2R M B K f0 (holdSlope order1 h f0 f1) d0 v0 d v →
      (d h, v h) = expStep order1 (exp2Coef order1 h Φ I1 I2) (d0, v0) (Mi *ᵥ f0) (Mi *ᵥ f1) := by
  have hMi' : M * Mi = 1 := mul_eq_one_comm.1 hMi
  have hz := zExp_isStateSol sp (Sum.elim (Mi *ᵥ f0) 0) (Sum.elim (Mi *ᵥ holdSlope order1 h f0 f1) 0)
    (Sum.elim v0 d0)
  refine ⟨⟨_, _, hz.toSol2 hMi'⟩, fun d v hs => ?_⟩
  have e := congrFun ((hs.toState hMi).unique hz) h
  -- the value of the variation-of-constants solution at `t = h`
  have hval : zExp Φ I1 I2 (Sum.elim (Mi *ᵥ f0) 0) (Sum.elim (Mi *ᵥ holdSlope order1 h f0 f1) 0)
      (Sum.elim v0 d0) h
      = Sum.elim (expStep order1 (exp2Coef order1 h Φ I1 I2) (d0, v0) (Mi *ᵥ f0) (Mi *ᵥ f1)).2
          (expStep order1 (exp2Coef order1 h Φ I1 I2) (d0, v0) (Mi *ᵥ f0) (Mi *ᵥ f1)).1 := by
    cases order1 with
    | true =>
      simp only [exp2Coef, if_true]
      rw [expStep_one]
      have hs : (Sum.elim (Mi *ᵥ holdSlope true h f0 f1) 0 : Fin n ⊕ Fin n → ℝ)
          = h⁻¹ • (Sum.elim (Mi *ᵥ f1) 0 - Sum.elim (Mi *ᵥ f0) 0) := by
        funext i
        cases i <;> simp [holdSlope, Matrix.mulVec_smul, Matrix.mulVec_sub]
      simp only [zExp, hs, Matrix.mulVec_smul, Matrix.mulVec_sub, Matrix.sub_mulVec, Matrix.smul_mulVec,
        smul_sub, smul_smul, inv_mul_cancel₀ hh, one_smul]
      abel
    | false =>
      simp only [exp2Coef, Bool.false_eq_true, if_false]
      rw [expStep_zero]
      have hs : (Sum.elim (Mi *ᵥ holdSlope false h f0 f1) 0 : Fin n ⊕ Fin n → ℝ) = 0 := by
        funext i
        cases i <;> simp [holdSlope]
      simp [zExp, hs]
  rw [hval] at e
  refine Prod.ext ?_ ?_
  · funext j
    exact congrFun e (Sum.inr j)
  · funext j
    exact congrFun e (Sum.inl j)

/-- the whole loop of `SolveExp2.tsolve`: sample `j+1` is the state at `t = h` of THE solution of the
equation of motion with the hold forcing of step `j`, started from sample `j` -/
theorem exp2_run_exact (M Mi B K : Matrix (Fin n) (Fin n) ℝ) (hMi : Mi * M = 1)
    (Φ I1 I2 : ℝ → Matrix (Fin n ⊕ Fin n) (Fin n ⊕ Fin n) ℝ)
    (sp : ExpSpec (stateAR Mi B K) Φ I1 I2) (h : ℝ) (hh : h ≠ 0) (order1 : Bool) :
    ∀ (fs : List (Fin n → ℝ)) (dv : (Fin n → ℝ) × (Fin n → ℝ)) (j : ℕ)
      (dj dj1 : (Fin n → ℝ) × (Fin n → ℝ)) (f0 f1 : Fin n → ℝ),
      (runExp order1 (exp2Coef order1 h Φ I1 I2) dv (fs.map fun f => Mi *ᵥ f))[j]? = some dj →
      (runExp order1 (exp2Coef order1 h Φ I1 I2) dv (fs.map fun f => Mi *ᵥ f))[j + 1]? = some dj1 →
      fs[j]? = some f0 → fs[j + 1]? = some f1 →
      (∃ d v, IsSol2R M B K f0 (holdSlope order1 h f0 f1) dj.1 dj.2 d v) ∧
      ∀ d v, IsSol2R M B K f0 (holdSlope order1 h f0 f1) dj.1 dj.2 d v → (d h, v h) = dj1 := by
  intro fs
  induction fs with
  | nil => intro dv j dj dj1 f0 f1 _ _ h3 _; simp at h3
  | cons g0 tl ih =>
    intro dv j dj dj1 f0 f1 h1 h2 h3 h4
    cases tl with
    | nil => simp at h4
    | cons g1 rest =>
      simp only [List.map_cons] at h1 h2
      rw [runExp_cons_cons] at h1 h2
      cases j with
      | zero =>
        simp only [List.getElem?_cons_zero, Option.some.injEq] at h1 h3
        simp only [zero_add, List.getElem?_cons_succ, List.getElem?_cons_zero,
          Option.some.injEq] at h2 h4
        subst h1 h3 h4
        have hd : ∀ (dv' : (Fin n → ℝ) × (Fin n → ℝ)) (ws : List (Fin n → ℝ)) (w : Fin n → ℝ),
            (runExp order1 (exp2Coef order1 h Φ I1 I2) dv' (w :: ws))[0]? = some dv' := by
          intro dv' ws w
          cases ws <;> simp [runExp]
        rw [hd] at h2
        simp only [Option.some.injEq] at h2
        have := exp2_step_exact M Mi B K hMi Φ I1 I2 sp h hh order1 dv.1 dv.2 g0 g1
        rw [h2] at this
        exact this
      | succ j =>
        simp only [List.getElem?_cons_succ] at h1 h2 h3 h4
        exact ih _ j dj dj1 f0 f1 h1 h2 h3 h4

/-! ### non-vacuity: a free unit mass (`M = 1`, `B = K = 0`): `A = [[0, 0], [1, 0]]` is nilpotent,
`exp(A t) = 1 + t A`, `I1 = t + t²/2 A`, `I2 = t²/2 + t³/3 A` -/

/-- the state matrix of the free unit mass -/
def freeA : Matrix (Fin 1 ⊕ Fin 1) (Fin 1 ⊕ Fin 1) ℝ := stateAR 1 0 0

theorem freeA_spec : ExpSpec freeA (fun t => 1 + t • freeA) (fun t => t • 1 + (t ^ 2 / 2) • freeA)
    (fun t => (t ^ 2 / 2) • 1 + (t ^ 3 / 3) • freeA) := by
  have hA : freeA * freeA = 0 := by
    ext i j
    rcases i with i | i <;> rcases j with j | j <;>
      simp [freeA, stateAR, Matrix.mul_apply, Fintype.sum_sum_type]
  have hid : ∀ t : ℝ, HasDerivAt (fun t : ℝ => t) 1 t := fun t => hasDerivAt_id' t
  refine ⟨fun t i j => ?_, by simp, fun t i j => ?_, by simp, fun t i j => ?_, by simp⟩
  · have e : (freeA * (1 + t • freeA)) i j = freeA i j := by
      rw [Matrix.mul_add, Matrix.mul_one, Matrix.mul_smul, hA]; simp
    rw [e]
    have := ((hid t).mul_const (freeA i j)).const_add ((1 : Matrix _ _ ℝ) i j)
    simpa using this
  · have := ((hid t).mul_const ((1 : Matrix _ _ ℝ) i j)).add
      ((((hid t).fun_pow 2).div_const 2).mul_const (freeA i j))
    simp only [Matrix.add_apply, Matrix.smul_apply, smul_eq_mul]
    refine this.congr_deriv ?_
    ring
  · have := ((((hid t).fun_pow 2).div_const 2).mul_const ((1 : Matrix _ _ ℝ) i j)).add
      ((((hid t).fun_pow 3).div_const 3).mul_const (freeA i j))
    simp only [Matrix.add_apply, Matrix.smul_apply, smul_eq_mul]
    refine this.congr_deriv ?_
    ring

/-- one order-1 step of the free unit mass from rest with the force `1 → 3`, `h = 1`:
`d = 1/3·1 + 1/6·3 = 5/6`, `v = 2` -/
example : expStep true (exp2Coef true 1 (fun t => 1 + t • freeA) (fun t => t • 1 + (t ^ 2 / 2) • freeA)
      (fun t => (t ^ 2 / 2) • 1 + (t ^ 3 / 3) • freeA)) (fun _ => 0, fun _ => 0) (fun _ => 1) (fun _ => 3)
    = (fun _ => 5 / 6, fun _ => 2) := by
  refine Prod.ext ?_ ?_ <;> funext j <;>
    simp [expStep, exp2Coef, expCoefOf, dotFin_eq_real, freeA, stateAR, Matrix.one_apply,
      Subsingleton.elim j 0] <;> norm_num

end PyYetiVerif.C01
