import PyYetiVerif.Props.C01
import PyYetiVerif.Lemmas.SuCoefUnique
/-!
# C01 — uniqueness: every sample is the end state of *the* solution

`Props/C01.run_exact` shows that every sample of the recurrence is the end state of *a* solution
of the equation of motion with the hold forcing, started from the previous sample.  The
right-hand side of the equation is Lipschitz in the state, so (Mathlib's Grönwall-based
`ODE_solution_unique_univ`) there is only one solution: the sample is the value at `t = h` of
*every* solution.
-/
namespace PyYetiVerif.C01
open PyYetiVerif.SuCoef

/-- the initial-value problem of one mode, `m x'' + b x' + k x = p + s t`, `x 0 = x₀`,
`x' 0 = v₀`, has at most one solution (`m ≠ 0`) -/
theorem isSol_unique (m b k p s x₀ v₀ : ℝ) (x v x' v' : ℝ → ℝ) (hm : m ≠ 0)
    (h : IsSol m b k p s x₀ v₀ x v) (h' : IsSol m b k p s x₀ v₀ x' v') : x = x' ∧ v = v' :=
  h.unique hm h'

/-- for every exact regime the closed form built from the code's coefficients is the one and only
solution -/
theorem su_solves_ode_unique (r : Regime) (m b k p s x₀ v₀ : ℝ) (hr : RegimeOK r m b k)
    (x v : ℝ → ℝ) (h : IsSol m (effB r b) (effK r k) p s x₀ v₀ x v) :
    x = xSol r m b k p s x₀ v₀ ∧ v = vSol r m b k p s x₀ v₀ :=
  h.unique hr.mass_ne_zero (su_solves_ode r m b k p s x₀ v₀ hr)

/-- `run_exact` with uniqueness: sample `j+1` of the recurrence is the state at `t = h` of *the*
solution of the equation of motion with the hold forcing of step `j` (`f0 + (f1 - f0) t / h` for
order 1, `f0` for order 0) started from sample `j`: such a solution exists, and every such solution
ends in sample `j+1` -/
theorem run_exact_unique (r : Regime) (m b k h : ℝ) (hr : RegimeOK r m b k) (hh : h ≠ 0)
    (order1 : Bool) (fs : List ℝ) (dv : ℝ × ℝ) (j : ℕ) (dj dj1 : ℝ × ℝ) (f0 f1 : ℝ)
    (h1 : (runUnc order1 (suCoef r m b k h) dv fs)[j]? = some dj)
    (h2 : (runUnc order1 (suCoef r m b k h) dv fs)[j + 1]? = some dj1)
    (h3 : fs[j]? = some f0) (h4 : fs[j + 1]? = some f1) :
    (∃ x v : ℝ → ℝ,
      IsSol m (effB r b) (effK r k) f0 (if order1 then (f1 - f0) / h else 0) dj.1 dj.2 x v) ∧
    ∀ x v : ℝ → ℝ,
      IsSol m (effB r b) (effK r k) f0 (if order1 then (f1 - f0) / h else 0) dj.1 dj.2 x v →
      dj1 = (x h, v h) := by
  obtain ⟨x, v, hs, he⟩ := run_exact r m b k h hr hh order1 fs dv j dj dj1 f0 f1 h1 h2 h3 h4
  refine ⟨⟨x, v, hs⟩, fun x' v' hs' => ?_⟩
  obtain ⟨rfl, rfl⟩ := hs'.unique hr.mass_ne_zero hs
  exact he

/-! ### non-vacuity -/

example : ∃ x v : ℝ → ℝ, IsSol 2 1 8 1 3 0 0 x v ∧
    ∀ x' v' : ℝ → ℝ, IsSol 2 1 8 1 3 0 0 x' v' → x' = x ∧ v' = v :=
  ⟨_, _, su_solves_ode_under 2 1 8 1 3 0 0 (by norm_num) (by norm_num), fun x' v' h =>
    su_solves_ode_unique .under 2 1 8 1 3 0 0 (by norm_num [RegimeOK]) x' v' h⟩

end PyYetiVerif.C01
