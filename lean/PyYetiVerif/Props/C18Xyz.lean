import PyYetiVerif.Lemmas.UsetXyz
import Mathlib.Tactic.NormNum
/-!
C18, fourth part: `n2p.find_xyz_triples` (`Model/UsetXyz.lean`) on exact data.  A node of a
rigid-body motion matrix contributes the rows `(A | A S(p))`: `A` = an orthogonal matrix times a
scale (`Aᵀ A = s² 1`: the local coordinate system and the output units), `S(p)` the rotation columns
`[[0, z, -y], [-z, 0, x], [y, -x, 0]]` of the location `p`.
-/
namespace PyYetiVerif.C18
open PyYetiVerif.Xyz

/-- one exact triple passes every test of the routine, for every tolerance `tol ≥ 0` and every
non-negative absolute tolerance of the pattern test; none of the comparisons is close to its
threshold; `T2 @ rotation columns` is the skew matrix of the location, and the coordinates the
routine reads off it are the location. -/
theorem xyz_triple_exact (A : M3) (s2 tol a : ℚ) (p : ℚ × ℚ × ℚ) (h : OrthScaled A s2) (hs : 0 < s2)
    (ht : 0 ≤ tol) (ha : 0 ≤ a) :
    stage1 tol A = .yes ∧ scale2 A = s2 ∧
    mul (T2of A) (mul A (skew p)) = skew p ∧ patternOK a (skew p) = .yes ∧
    ((skew p 1 2 - skew p 2 1) / 2, (skew p 2 0 - skew p 0 2) / 2, (skew p 0 1 - skew p 1 0) / 2) = p := by
  refine ⟨stage1_exact h hs ht, scale2_eq h, rbrot_eq h hs _, patternOK_skew a ha p, ?_⟩
  obtain ⟨x, y, z⟩ := p
  simp [skew]

theorem pv_all (nodes : List Node) :
    (nodes.flatMap fun n => trip n.p).map Option.isSome = List.replicate (3 * nodes.length) true := by
  induction nodes with
  | nil => rfl
  | cons n t ih =>
      rw [List.flatMap_cons, List.map_append, ih, List.length_cons, Nat.mul_add, Nat.mul_one,
        Nat.add_comm, List.replicate_add]
      rfl

/-- **every node is found.**  On a matrix that consists of exact triples (any number of nodes, any
orthogonal local systems, any positive scales, any locations) the routine marks every row and
returns, for each node, its location (three times) and its scale (squared: `s²`). -/
theorem find_xyz_triples_exact (tol : ℚ) (ht : 0 ≤ tol) (nodes : List Node) (hex : ∀ n ∈ nodes, n.Exact) :
    ∃ res, findXyzTriples tol (rowsOf nodes) = some res ∧
      res.pv = List.replicate (3 * nodes.length) true ∧
      res.coords = nodes.flatMap (fun n => [some n.p, some n.p, some n.p]) ∧
      res.scale2 = nodes.flatMap (fun n => [some n.s2, some n.s2, some n.s2]) := by
  unfold findXyzTriples
  simp only
  have hscan := scan_exact tol ht nodes [] (rowsOf nodes).length [] (-1) hex
    (by rw [rowsOf_length]; omega)
  simp only [List.nil_append, List.length_nil, Nat.mul_zero, List.reverse_nil] at hscan
  rw [hscan]
  simp only
  set ms := (if msFrom (-1) nodes = -1 then (1 : ℚ) else msFrom (-1) nodes) with hms
  have hms0 : 0 ≤ ms := by
    rw [hms]
    split
    · norm_num
    · rename_i hne
      rcases msFrom_cases nodes (-1) with ⟨_, h⟩ | ⟨h0, _⟩
      · exact absurd h hne
      · exact h0
  have hfill := fill_exact tol ht ms hms0 nodes [] [] [] hex
  simp only [List.nil_append, List.length_nil, Nat.mul_zero, and_self, if_true] at hfill
  rw [rowsOf_length, hfill]
  exact ⟨_, rfl, pv_all nodes, rfl, rfl⟩

/-- non-vacuity: the second node of the docstring example without its rotation - a signed
permutation of the axes, scaled by 10 (`s² = 100`) - is an exact node -/
def exampleNode : Node where
  A := fun i j => match i, j with
    | 0, 1 => 10 | 1, 2 => -10 | 2, 0 => 10 | _, _ => 0
  s2 := 100
  p := (5, 10, 15)

example : exampleNode.Exact := by
  refine ⟨?_, by norm_num [exampleNode]⟩
  unfold OrthScaled
  funext i j
  fin_cases i <;> fin_cases j <;> simp [exampleNode, mul, tr, smul, one3, sum3] <;> norm_num

end PyYetiVerif.C18
